import Fdo.Bytes
/-
Endpoint robustness model (C10): the places where go-fdo indexes, allocates, dereferences,
converts or dispatches with a value that comes from the peer.  Every function returns an
`Outcome`; a Go panic is the explicit constructor `panic site`, a goroutine that blocks for ever
is `hang site` — never a totalised default.

For each site two definitions are kept: `…V0` describes the tree as it was found (so that the
failing input can be stated and proved as a witness) and the unsuffixed one describes the
repaired code, which is what the driver runs against the implementation.

Core Lean only.
-/
namespace Fdo.Proto.Endpoint
open Fdo

inductive Outcome (α : Type) where
  | ok (a : α)
  | err
  | panic (site : String)
  | hang (site : String)
  deriving Repr, DecidableEq

/-- neither a panic nor a hang -/
def Outcome.safe {α : Type} : Outcome α → Bool
  | .ok _ => true
  | .err => true
  | _ => false

/-! ### TO2.GetOVNextEntry (62): `ov.Entries[nextEntry.OVEntryNum]` (to2.go ovNextEntry) -/

/-- as found: `if len(ov.Entries) < n { error }` then index -/
def ovNextEntryV0 (len : Nat) (n : Int) : Outcome Nat :=
  if (len : Int) < n then .err
  else if n < 0 ∨ (len : Int) ≤ n then .panic "to2.go:ovNextEntry:index out of range"
  else .ok n.toNat

/-- repaired: `if n < 0 || n >= len(ov.Entries) { error }` -/
def ovNextEntry (len : Nat) (n : Int) : Outcome Nat :=
  if n < 0 ∨ (len : Int) ≤ n then .err else .ok n.toNat

/-! ### devmod owner module (devmod.go): `make([]string, numModules)` and
`copy(d.Modules[start:start+len], chunk.Modules)` -/

def maxDevmodModules : Nat := 65535

inductive DevmodMsg where
  | num (n : Int)                                          -- devmod:nummodules
  | chunk (start len : Int) (names : List String)          -- devmod:modules [start, len, names…]
  deriving Repr

/-- `slices.Index(mods, "")` -/
def firstEmpty : List String → Option Nat
  | [] => none
  | m :: r => if m = "" then some 0 else (firstEmpty r).map (· + 1)

/-- where the chunk is written: the first unfilled slot when there is one, else `start` -/
def chunkStart (mods : List String) (start : Nat) : Nat :=
  match firstEmpty mods with
  | some i => i
  | none => start

def chunkWellFormed (mods : List String) (start len : Int) (names : List String) : Bool :=
  decide (0 ≤ start) && decide (start ≤ (mods.length : Int)) && decide (0 ≤ len) &&
    decide ((names.length : Int) = len) && !(names.contains "")

/-- as found -/
def devmodStepV0 (mods : List String) : DevmodMsg → Outcome (List String)
  | .num n =>
    if n < 0 then .panic "devmod.go:HandleInfo:makeslice: len out of range"
    else .ok (List.replicate n.toNat "")
  | .chunk start len names =>
    if !chunkWellFormed mods start len names then .err
    else
      let s := chunkStart mods start.toNat
      if mods.length < s + names.length then .panic "devmod.go:parseModules:slice bounds out of range"
      else .ok (mods.take s ++ names ++ mods.drop (s + names.length))

/-- repaired: `nummodules` must lie in 0..65535 and a chunk inside the announced list -/
def devmodStep (mods : List String) : DevmodMsg → Outcome (List String)
  | .num n =>
    if n < 0 ∨ (maxDevmodModules : Int) < n then .err
    else .ok (List.replicate n.toNat "")
  | .chunk start len names =>
    if !chunkWellFormed mods start len names then .err
    else
      let s := chunkStart mods start.toNat
      if mods.length < s + names.length then .err
      else .ok (mods.take s ++ names ++ mods.drop (s + names.length))

/-- a whole sequence of devmod messages (one TO2.DeviceServiceInfo or several); stops at the first error -/
def devmodRun (mods : List String) : List DevmodMsg → Outcome (List String)
  | [] => .ok mods
  | m :: r =>
    match devmodStep mods m with
    | .ok mods' => devmodRun mods' r
    | .err => .err
    | .panic s => .panic s
    | .hang s => .hang s

/-- what the module keeps allocated, in string headers -/
def devmodAlloc (mods : List String) : Nat := mods.length

/-! ### HTTP handler: method, path, Authorization, dispatch (http/handler.go) -/

def asciiBytes (s : String) : Bytes := s.toUTF8.toList

/-- "/fdo/101/msg/" (written out so that the kernel can evaluate it) -/
def msgPrefix : Bytes := [47, 102, 100, 111, 47, 49, 48, 49, 47, 109, 115, 103, 47]
/-- "Bearer " -/
def bearerPrefix : Bytes := [66, 101, 97, 114, 101, 114, 32]
/-- "POST" -/
def methodPost : Bytes := [80, 79, 83, 84]

/-- decimal digits of a number below 1000, as `strconv.Itoa` writes them -/
def natDigits (n : Nat) : Bytes :=
  let d (k : Nat) : UInt8 := UInt8.ofNat (48 + k % 10)
  if n < 10 then [d n] else if n < 100 then [d (n / 10), d n] else [d (n / 100), d (n / 10), d n]

/-- the path the client transport uses for a message type -/
def msgPath (t : Nat) : Bytes := msgPrefix ++ natDigits t

/-- `strings.TrimPrefix` -/
def trimPrefix (p s : Bytes) : Bytes := if p.isPrefixOf s then s.drop p.length else s

/-- `strconv.ParseUint(s, 10, 8)`: ASCII digits only, not empty, value ≤ 255 -/
def parseDigits : Bytes → Nat → Option Nat
  | [], acc => some acc
  | c :: r, acc => if 48 ≤ c.toNat ∧ c.toNat ≤ 57 then parseDigits r (acc * 10 + (c.toNat - 48)) else none

def parseUint8 (s : Bytes) : Option Nat :=
  if s.isEmpty then none
  else match parseDigits s 0 with
    | some v => if v ≤ 255 then some v else none
    | none => none

inductive Bearer where
  | absent
  | invalid
  | token (t : Bytes)
  deriving Repr, DecidableEq

/-- the Authorization header as ServeHTTP reads it -/
def bearer (h : Bytes) : Bearer :=
  if h.isEmpty then .absent
  else if bearerPrefix.isPrefixOf h then .token (h.drop bearerPrefix.length)
  else .invalid

/-- `protocol.Of` (the regenerated table `Fdo.Gen.Proto.protocolOf` is proved equal in Props/C10) -/
def protocolOf (t : Nat) : Nat :=
  if 10 ≤ t ∧ t ≤ 13 then 1
  else if 20 ≤ t ∧ t ≤ 23 then 2
  else if 30 ≤ t ∧ t ≤ 33 then 3
  else if 60 ≤ t ∧ t ≤ 71 then 4
  else if t = 255 then 5
  else 0

/-- message types a responder's `Respond` has a case for -/
def isRequestType (t : Nat) : Bool :=
  [10, 12, 20, 22, 30, 32, 60, 62, 64, 66, 68, 70].contains t

/-- responders present: bit 0 DI, bit 1 TO0, bit 2 TO1, bit 3 TO2 -/
def hasResponder (mask proto : Nat) : Bool :=
  proto ≥ 1 && proto ≤ 4 && (mask / 2 ^ (proto - 1)) % 2 == 1

/-- how a request is disposed of before any message body is looked at -/
inductive Route where
  | http405                 -- not POST
  | http404                 -- more path segments
  | err255                  -- FDO error message
  | silent200               -- an error message from the peer: processed, empty answer
  | responder (t : Nat)     -- handed to `Respond` with a message type it has a case for
  | type0                   -- (as found only) answered 200, Message-Type 0, body `null`
  | panic (site : String)
  deriving Repr, DecidableEq

/-- `handleError`: which responder is told about a peer's error message -/
def handleErrorV0 (prev mask : Nat) : Outcome Unit :=
  let p := protocolOf prev
  if 1 ≤ p ∧ p ≤ 4 ∧ !hasResponder mask p then .panic "http/handler.go:handleError:nil responder"
  else .ok ()

def handleError (_prev _mask : Nat) : Outcome Unit := .ok ()

def routeWith (respondsTo : Nat → Bool) (method path auth : Bytes) (mask : Nat) : Route :=
  if method ≠ methodPost then .http405
  else
    let rest := trimPrefix msgPrefix path
    if rest.contains 47 then .http404
    else match parseUint8 rest with
      | none => .err255
      | some t =>
        if bearer auth = .invalid then .err255
        else if t = 255 then .silent200
        else
          let p := protocolOf t
          if !hasResponder mask p then .err255
          else if respondsTo t then .responder t
          else if 64 < t then .err255       -- no tunnel without a session: CryptSession fails first
          else .type0

/-- as found: `Respond` falls through its switch for 11, 13, 21, … and returns (0, nil) -/
def routeV0 := routeWith isRequestType

/-- repaired: every `Respond` answers an error message for a type outside its switch -/
def route (method path auth : Bytes) (mask : Nat) : Route :=
  match routeWith isRequestType method path auth mask with
  | .type0 => .err255
  | r => r

/-! ### content-length gate (handleRequest) -/

inductive Gate where
  | tooLarge
  | unspecified
  | read (limit : Option Nat)   -- the responder gets a reader limited to `limit` bytes (none: the body as is)
  deriving Repr, DecidableEq

def effectiveMax (max : Int) : Int := if max = 0 then 65535 else max

def clGate (cl max : Int) : Gate :=
  let m := effectiveMax max
  if 0 < m ∧ m < cl then .tooLarge
  else if 0 < m ∧ cl < 0 then .unspecified
  else if 0 < cl then .read (some cl.toNat)
  else .read none

/-- bytes of a body of `actual` bytes the responder can get to see -/
def bytesRead (a : Gate) (actual : Nat) : Nat :=
  match a with
  | .read (some l) => min l actual
  | .read none => actual
  | _ => 0

/-! ### hash selection by key size (voucher.go hashAlgFor) -/

inductive KeyKind where
  | p256 | p384 | ecOther
  | rsa (bytes : Nat)
  | other
  deriving Repr, DecidableEq

def hashSizeFor : KeyKind → Option Nat
  | .p256 => some 256
  | .p384 => some 384
  | .rsa b => some b
  | _ => none

def hashAlgForV0 (dev own : KeyKind) : Outcome Nat :=
  match hashSizeFor dev, hashSizeFor own with
  | some a, some b =>
    if min a b = 256 then .ok 256 else if min a b = 384 then .ok 384
    else .panic "voucher.go:hashAlgFor:only hash sizes of 256 and 384 are included in FDO"
  | _, _ => .err

def hashAlgFor (dev own : KeyKind) : Outcome Nat :=
  match hashSizeFor dev, hashSizeFor own with
  | some a, some b =>
    if min a b = 256 then .ok 256 else if min a b = 384 then .ok 384 else .err
  | _, _ => .err

/-! ### optional COSE payload (TO2.ProveDevice 64, to2.go setupDevice) -/

def proofPayloadV0 (payload : Option Bytes) : Outcome Bytes :=
  match payload with
  | some b => .ok b
  | none => .panic "to2.go:setupDevice:nil pointer dereference"

def proofPayload (payload : Option Bytes) : Outcome Bytes :=
  match payload with
  | some b => .ok b
  | none => .err

/-! ### DI.AppStart (10) with null manufacturing info (custom/di.go SignDeviceCertificate) -/

def signDeviceCertificateV0 (info : Option Bytes) : Outcome Bytes :=
  match info with
  | some csr => .ok csr
  | none => .panic "custom/di.go:SignDeviceCertificate:nil pointer dereference"

def signDeviceCertificate (info : Option Bytes) : Outcome Bytes :=
  match info with
  | some csr => .ok csr
  | none => .err

/-! ### X5CHAIN public keys (protocol/key.go parseX5Chain): an array of certificates, each may be null -/

/-- as found: the first certificate is dereferenced -/
def x5chainKeyV0 (certs : List (Option Nat)) : Outcome Nat :=
  match certs with
  | [] => .err
  | none :: _ => .panic "protocol/key.go:parseX5Chain:nil pointer dereference"
  | some k :: _ => .ok k

/-- repaired: a chain with a null certificate anywhere is refused -/
def x5chainKey (certs : List (Option Nat)) : Outcome Nat :=
  if certs.any Option.isNone then .err
  else match certs with
    | some k :: _ => .ok k
    | _ => .err

/-! ### service info chunk writer (serviceinfo/chunk.go ChunkWriter.WriteChunk) -/

structure ChunkWriter where
  isOpen : Bool          -- w.w != nil
  prevKey : String
  queued : Nat           -- pipes handed to the reader side and not yet taken
  cap : Nat              -- buffered queue size (0: unbuffered, a reader takes each pipe at once)
  deriving Repr, DecidableEq

def ChunkWriter.fresh (cap : Nat) : ChunkWriter := ⟨false, "", 0, cap⟩

/-- as found: a null KV is dereferenced; a first KV with the empty key writes to the nil pipe;
with nobody reading, the (cap+1)-th pipe blocks for ever -/
def writeChunkV0 (w : ChunkWriter) (kv : Option String) : Outcome ChunkWriter :=
  match kv with
  | none => .panic "serviceinfo/chunk.go:WriteChunk:nil pointer dereference"
  | some k =>
    if k = w.prevKey then
      if w.isOpen then .ok w else .panic "serviceinfo/chunk.go:WriteChunk:nil pointer dereference"
    else if 0 < w.cap ∧ w.cap ≤ w.queued then .hang "serviceinfo/chunk.go:WriteChunk:send on full channel"
    else .ok { w with isOpen := true, prevKey := k, queued := w.queued + 1 }

/-- repaired -/
def writeChunk (w : ChunkWriter) (kv : Option String) : Outcome ChunkWriter :=
  match kv with
  | none => .err
  | some k =>
    if k = w.prevKey ∧ w.isOpen then .ok w
    else if 0 < w.cap ∧ w.cap ≤ w.queued then .err
    else .ok { w with isOpen := true, prevKey := k, queued := w.queued + 1 }

def writeChunks (w : ChunkWriter) : List (Option String) → Outcome ChunkWriter
  | [] => .ok w
  | kv :: r =>
    match writeChunk w kv with
    | .ok w' => writeChunks w' r
    | .err => .err
    | .panic s => .panic s
    | .hang s => .hang s

end Fdo.Proto.Endpoint
