import Fdo.Proto.Server
/-
Invariants of the server model: what the stored fields of a session imply about the requests it
answered (ghost `hist`) and about the ProveDevice it accepted (ghost `proved`).
-/
namespace Fdo.Proto.Server

theorem sub_app {l h : List Nat} (t : Nat) (hs : List.Sublist l h) : List.Sublist l (h ++ [t]) :=
  List.sublist_append_of_sublist_left hs

theorem sub_snoc {l h : List Nat} (t : Nat) (hs : List.Sublist l h) : List.Sublist (l ++ [t]) (h ++ [t]) :=
  List.Sublist.append hs (List.Sublist.refl _)

/-- Field-level invariant of session `k`. -/
structure SessOK (k : Nat) (s : Sess) : Prop where
  proved : ∀ xb, s.kex = .done xb → ∃ q, s.proved = some q ∧ q.typ = 64 ∧ q.tok = .sess k ∧
      q.signer = s.guid ∧ (∃ d, s.guid = some d) ∧ q.nonceOf = some k ∧ some q.dev = s.guid ∧ q.xb = xb ∧ xb ≠ 0
  h10 : s.diHdr = true → List.Sublist [10] s.hist
  h20 : s.to0Nonce = true → List.Sublist [20] s.hist
  h30 : s.to1Nonce = true → List.Sublist [30] s.hist
  h60 : s.kex ≠ .none → List.Sublist [60] s.hist
  h64 : ∀ xb, s.kex = .done xb → List.Sublist [60, 64] s.hist
  h66 : s.mtu = true → List.Sublist [60, 64, 66] s.hist
  h66' : s.replHmac = true → List.Sublist [60, 64, 66] s.hist
  h68 : s.devmodDone = true → List.Sublist [60, 64, 66, 68] s.hist
  hmod : 0 < s.modStep → s.devmodDone = true
  hproto : s.guid ≠ none → s.proto = .to2

theorem SessOK.fresh (k : Nat) (p : Proto) : SessOK k { proto := p } := by
  constructor <;> simp

theorem SessOK.dead {k : Nat} {s : Sess} (h : SessOK k s) : SessOK k (dead s) := by
  cases h; constructor <;> (simp only [Server.dead]; assumption)


theorem finish_ok_of {k : Nat} {s' : Sess} {typ resp : Nat}
    (h : SessOK k { s' with hist := s'.hist ++ [typ] }) : SessOK k (finish s' typ resp) := by
  cases h; constructor <;> (simp only [finish]; assumption)

/-- appending an answered request type keeps every history fact -/
theorem SessOK.snoc {k : Nat} {s : Sess} (h : SessOK k s) (t : Nat) :
    SessOK k { s with hist := s.hist ++ [t] } :=
  { proved := h.proved, h10 := fun a => sub_app t (h.h10 a), h20 := fun a => sub_app t (h.h20 a),
    h30 := fun a => sub_app t (h.h30 a), h60 := fun a => sub_app t (h.h60 a),
    h64 := fun xb a => sub_app t (h.h64 xb a), h66 := fun a => sub_app t (h.h66 a),
    h66' := fun a => sub_app t (h.h66' a), h68 := fun a => sub_app t (h.h68 a), hmod := h.hmod,
    hproto := h.hproto }

theorem last_sub (l : List Nat) (t : Nat) : List.Sublist [t] (l ++ [t]) :=
  List.sublist_append_of_sublist_right (List.Sublist.refl [t])

theorem decrypts_done {k : Nat} {s : Sess} {r : Req} (h : decrypts k s r = true) :
    ∃ xb, s.kex = .done xb ∧ r.enc = some (k, xb) := by
  unfold decrypts at h
  split at h
  · rename_i xb hk; exact ⟨xb, hk, by simpa using h⟩
  · simp at h

theorem guidIn_some {st : State} {s : Sess} (h : guidIn st s = true) :
    ∃ d, s.guid = some d ∧ st.vouchers.contains d = true := by
  unfold guidIn at h
  split at h
  · rename_i d hd; exact ⟨d, hd, h⟩
  · simp at h

section handlers
variable {st : State} {k : Nat} {s s' : Sess} {r : Req} {resp : Nat} {eff : List Effect}

theorem h10_ok (hs : SessOK k s) (h : h10 s r = some (s', resp, eff)) :
    SessOK k { s' with hist := s'.hist ++ [10] } := by
  unfold h10 at h
  split at h
  · simp only [Option.some.injEq, Prod.mk.injEq] at h
    obtain ⟨rfl, rfl, rfl⟩ := h
    have o := hs.snoc 10
    exact { o with h10 := fun _ => last_sub _ _ }
  · simp at h

theorem h12_ok (hs : SessOK k s) (h : h12 k s r = some (s', resp, eff)) :
    SessOK k { s' with hist := s'.hist ++ [12] } := by
  unfold h12 at h
  split at h
  · simp only [Option.some.injEq, Prod.mk.injEq] at h
    obtain ⟨rfl, rfl, rfl⟩ := h
    exact hs.snoc 12
  · simp at h

theorem h20_ok (hs : SessOK k s) (h : h20 s r = some (s', resp, eff)) :
    SessOK k { s' with hist := s'.hist ++ [20] } := by
  unfold h20 at h
  split at h
  · simp only [Option.some.injEq, Prod.mk.injEq] at h
    obtain ⟨rfl, rfl, rfl⟩ := h
    have o := hs.snoc 20
    exact { o with h20 := fun _ => last_sub _ _ }
  · simp at h

theorem h22_ok (hs : SessOK k s) (h : h22 k s r = some (s', resp, eff)) :
    SessOK k { s' with hist := s'.hist ++ [22] } := by
  unfold h22 at h
  split at h
  · simp only [Option.some.injEq, Prod.mk.injEq] at h
    obtain ⟨rfl, rfl, rfl⟩ := h
    exact hs.snoc 22
  · simp at h

theorem h30_ok (hs : SessOK k s) (h : h30 st s r = some (s', resp, eff)) :
    SessOK k { s' with hist := s'.hist ++ [30] } := by
  unfold h30 at h
  split at h
  · simp only [Option.some.injEq, Prod.mk.injEq] at h
    obtain ⟨rfl, rfl, rfl⟩ := h
    have o := hs.snoc 30
    exact { o with h30 := fun _ => last_sub _ _ }
  · simp at h

theorem h32_ok (hs : SessOK k s) (h : h32 st k s r = some (s', resp, eff)) :
    SessOK k { s' with hist := s'.hist ++ [32] } := by
  unfold h32 at h
  split at h
  · simp only [Option.some.injEq, Prod.mk.injEq] at h
    obtain ⟨rfl, rfl, rfl⟩ := h
    exact hs.snoc 32
  · simp at h

theorem h60_ok (hs : SessOK k s) (hp : s.proto = .to2) (h : h60 st s r = some (s', resp, eff)) :
    SessOK k { s' with hist := s'.hist ++ [60] } := by
  unfold h60 at h
  split at h
  · simp only [Option.some.injEq, Prod.mk.injEq] at h
    obtain ⟨rfl, rfl, rfl⟩ := h
    have o := hs.snoc 60
    exact { o with proved := fun xb a => by simp at a, h60 := fun _ => last_sub _ _,
                   h64 := fun xb a => by simp at a, hproto := fun _ => hp }
  · simp at h

theorem h62_ok (hs : SessOK k s) (h : h62 st s r = some (s', resp, eff)) :
    SessOK k { s' with hist := s'.hist ++ [62] } := by
  unfold h62 at h
  split at h
  · simp only [Option.some.injEq, Prod.mk.injEq] at h
    obtain ⟨rfl, rfl, rfl⟩ := h
    exact hs.snoc 62
  · simp at h

theorem h64_ok (hs : SessOK k s) (ht : r.typ = 64) (htok : r.tok = .sess k)
    (h : h64 st k s r = some (s', resp, eff)) :
    SessOK k { s' with hist := s'.hist ++ [64] } := by
  unfold h64 at h
  split at h
  · rename_i hc
    simp only [Option.some.injEq, Prod.mk.injEq] at h
    obtain ⟨rfl, rfl, rfl⟩ := h
    simp only [Bool.and_eq_true, beq_iff_eq, bne_iff_ne, ne_eq] at hc
    obtain ⟨⟨⟨⟨⟨⟨⟨_, hg⟩, hsig⟩, hn⟩, _⟩, hdev⟩, hxb⟩, hk⟩ := hc
    obtain ⟨d, hd, _⟩ := guidIn_some hg
    have hst : s.kex ≠ .none := by rw [hk]; simp
    have o := hs.snoc 64
    exact { o with
      proved := fun xb a => by
        simp only [Kex.done.injEq] at a
        exact ⟨r, rfl, ht, htok, hsig, ⟨d, hd⟩, hn, hdev, a, a ▸ hxb⟩
      h60 := fun _ => sub_app 64 (hs.h60 hst)
      h64 := fun _ _ => sub_snoc 64 (hs.h60 hst) }
  · simp at h

theorem h66_ok (hs : SessOK k s) (h : h66 st k s r = some (s', resp, eff)) :
    SessOK k { s' with hist := s'.hist ++ [66] } := by
  unfold h66 at h
  split at h
  · rename_i hc
    simp only [Option.some.injEq, Prod.mk.injEq] at h
    obtain ⟨rfl, rfl, rfl⟩ := h
    simp only [Bool.and_eq_true] at hc
    obtain ⟨xb, hk, _⟩ := decrypts_done hc.1.1
    have o := hs.snoc 66
    exact { o with h66 := fun _ => sub_snoc 66 (hs.h64 xb hk), h66' := fun _ => sub_snoc 66 (hs.h64 xb hk) }
  · simp at h

theorem h68_ok (hs : SessOK k s) (h : h68 st k s r = some (s', resp, eff)) :
    SessOK k { s' with hist := s'.hist ++ [68] } := by
  unfold h68 at h
  split at h
  · rename_i hc
    simp only [Bool.and_eq_true] at hc
    split at h
    · rename_i hd
      simp only [Option.some.injEq, Prod.mk.injEq] at h
      obtain ⟨rfl, rfl, rfl⟩ := h
      have hd' : s.devmodDone = false := by simpa using hd
      have hm : ¬ 0 < s.modStep := fun hp => by have := hs.hmod hp; simp [hd'] at this
      have o := hs.snoc 68
      exact { o with h68 := fun _ => sub_snoc 68 (hs.h66 hc.2), hmod := fun hp => absurd hp hm }
    · rename_i hd
      have hd' : s.devmodDone = true := by simpa using hd
      split at h
      · simp only [Option.some.injEq, Prod.mk.injEq] at h
        obtain ⟨rfl, rfl, rfl⟩ := h
        have o := hs.snoc 68
        exact { o with hmod := fun _ => hd' }
      · simp at h
  · simp at h

theorem h70_ok (hs : SessOK k s) (h : h70 st k s r = some (s', resp, eff)) :
    SessOK k { s' with hist := s'.hist ++ [70] } := by
  unfold h70 at h
  split at h
  · split at h
    · simp only [Option.some.injEq, Prod.mk.injEq] at h
      obtain ⟨rfl, rfl, rfl⟩ := h
      exact hs.snoc 70
    · split at h
      · split at h
        · simp only [Option.some.injEq, Prod.mk.injEq] at h
          obtain ⟨rfl, rfl, rfl⟩ := h
          exact hs.snoc 70
        · simp at h
      · simp at h
  · simp at h

/-- every answered request keeps the session invariant -/
theorem handle_preserves (hs : SessOK k s) (htok : r.typ = 64 → r.tok = .sess k)
    (hp : protoOf r.typ = some s.proto)
    (h : handle st k s r = some (s', resp, eff)) : SessOK k (finish s' r.typ resp) := by
  unfold handle at h
  split at h
  all_goals (try (simp at h; done))
  all_goals rename_i ht
  all_goals rw [ht]
  all_goals apply finish_ok_of
  · exact h10_ok hs h
  · exact h12_ok hs h
  · exact h20_ok hs h
  · exact h22_ok hs h
  · exact h30_ok hs h
  · exact h32_ok hs h
  · exact h60_ok hs (by rw [ht] at hp; simpa [protoOf] using hp.symm) h
  · exact h62_ok hs h
  · exact h64_ok hs ht (htok ht) h
  · exact h66_ok hs h
  · exact h68_ok hs h
  · exact h70_ok hs h

end handlers

/-- the cases of `step`, as a specification -/
inductive StepSpec (st : State) (r : Req) : State × Nat × List Effect → Prop
  | errMsg : r.typ = 255 → StepSpec st r ({ st with sessions := killTok st.sessions r.tok }, 0, [])
  | unknown : r.typ ≠ 255 → protoOf r.typ = none → StepSpec st r (st, 255, [])
  | startOk (p : Proto) (s' : Sess) (resp : Nat) (eff : List Effect) :
      r.typ ≠ 255 → protoOf r.typ = some p → isStart r.typ = true →
      handle st st.sessions.length { proto := p } r = some (s', resp, eff) →
      StepSpec st r (applyEffs { st with sessions := st.sessions ++ [finish s' r.typ resp] } eff, resp, eff)
  | startErr (p : Proto) :
      r.typ ≠ 255 → protoOf r.typ = some p → isStart r.typ = true →
      handle st st.sessions.length { proto := p } r = none →
      StepSpec st r ({ st with sessions := st.sessions ++ [dead { proto := p }] }, 255, [])
  | served (p : Proto) (k : Nat) (s s' : Sess) (resp : Nat) (eff : List Effect) :
      r.typ ≠ 255 → protoOf r.typ = some p → isStart r.typ = false → r.tok = .sess k →
      st.sessions[k]? = some s → s.live = true → s.proto = p → handle st k s r = some (s', resp, eff) →
      StepSpec st r (applyEffs { st with sessions := st.sessions.set k (finish s' r.typ resp) } eff, resp, eff)
  | rejected (p : Proto) (k : Nat) (s : Sess) :
      r.typ ≠ 255 → protoOf r.typ = some p → isStart r.typ = false → r.tok = .sess k →
      st.sessions[k]? = some s → s.live = true → (s.proto ≠ p ∨ handle st k s r = none) →
      StepSpec st r ({ st with sessions := st.sessions.set k (dead s) }, 255, [])
  | noSession (p : Proto) :
      r.typ ≠ 255 → protoOf r.typ = some p → isStart r.typ = false →
      (∀ k s, r.tok = .sess k → st.sessions[k]? = some s → s.live = false) →
      StepSpec st r (st, 255, [])

theorem step_spec (st : State) (r : Req) : StepSpec st r (step st r) := by
  unfold step
  by_cases h255 : r.typ = 255
  · simp only [h255, if_true]; exact .errMsg h255
  · simp only [h255, if_false]
    cases hp : protoOf r.typ with
    | none => exact .unknown h255 hp
    | some p =>
      simp only
      cases hst : isStart r.typ with
      | true =>
        simp only [if_true]
        cases hh : handle st st.sessions.length { proto := p } r with
        | none => exact .startErr p h255 hp hst hh
        | some res =>
          obtain ⟨s', resp, eff⟩ := res
          exact .startOk p s' resp eff h255 hp hst hh
      | false =>
        simp only [Bool.false_eq_true, if_false]
        cases htok : r.tok with
        | none => exact .noSession p h255 hp hst (by intro k s h; simp [htok] at h)
        | bad => exact .noSession p h255 hp hst (by intro k s h; simp [htok] at h)
        | sess k =>
          simp only
          cases hs : st.sessions[k]? with
          | none => exact .noSession p h255 hp hst (by intro k' s h h2; simp [htok] at h; subst h; simp [hs] at h2)
          | some s =>
            simp only
            cases hl : s.live with
            | false =>
              simp only [Bool.false_eq_true, if_false]
              exact .noSession p h255 hp hst (by
                intro k' s' h h2; simp [htok] at h; subst h; rw [hs] at h2; cases h2; exact hl)
            | true =>
              simp only [if_true]
              by_cases hpr : s.proto = p
              · simp only [hpr, if_true]
                cases hh : handle st k s r with
                | none => exact .rejected p k s h255 hp hst htok hs hl (Or.inr hh)
                | some res =>
                  obtain ⟨s', resp, eff⟩ := res
                  exact .served p k s s' resp eff h255 hp hst htok hs hl hpr hh
              · simp only [hpr, if_false]
                exact .rejected p k s h255 hp hst htok hs hl (Or.inl hpr)

/-- every session of the list satisfies its invariant -/
def InvL (ss : List Sess) : Prop := ∀ k s, ss[k]? = some s → SessOK k s
def Inv (st : State) : Prop := InvL st.sessions

theorem InvL.set {ss : List Sess} {k : Nat} {a : Sess} (h : InvL ss) (ha : SessOK k a) : InvL (ss.set k a) := by
  intro j s hj
  rw [List.getElem?_set] at hj
  by_cases hkj : k = j
  · subst hkj
    simp only [if_true] at hj
    split at hj
    · cases hj; exact ha
    · cases hj
  · simp only [hkj, if_false] at hj
    exact h j s hj

theorem InvL.snoc {ss : List Sess} {a : Sess} (h : InvL ss) (ha : SessOK ss.length a) : InvL (ss ++ [a]) := by
  intro j s hj
  rw [List.getElem?_append] at hj
  split at hj
  · exact h j s hj
  · rename_i hlt
    have : j - ss.length = 0 ∨ j - ss.length ≥ 1 := by omega
    rcases this with h0 | h1
    · have : j = ss.length := by omega
      subst this
      simp at hj; cases hj; exact ha
    · have : ([a] : List Sess)[j - ss.length]? = none := by
        apply List.getElem?_eq_none; simp; omega
      rw [this] at hj; cases hj

theorem applyEff_sessions (st : State) (e : Effect) : (applyEff st e).sessions = st.sessions := by
  cases e <;> rfl

theorem applyEffs_sessions (st : State) (es : List Effect) : (applyEffs st es).sessions = st.sessions := by
  unfold applyEffs
  induction es generalizing st with
  | nil => rfl
  | cons e es ih => simp only [List.foldl_cons]; rw [ih, applyEff_sessions]

theorem InvL.kill {ss : List Sess} (h : InvL ss) (t : TokRef) : InvL (killTok ss t) := by
  unfold killTok
  split
  next k =>
    split
    next s hs => exact h.set (h k s hs).dead
    next => exact h
  next => exact h

theorem step_preserves {st : State} (h : Inv st) (r : Req) : Inv (step st r).1 := by
  have sp := step_spec st r
  generalize step st r = res at sp
  cases sp with
  | errMsg _ => exact h.kill _
  | unknown _ _ => exact h
  | startOk p s' resp eff _ _ hst hh =>
    show InvL (applyEffs _ eff).sessions
    rw [applyEffs_sessions]
    refine InvL.snoc h (handle_preserves (SessOK.fresh _ p) ?_ (by assumption) hh)
    intro h64; rw [h64] at hst; simp [isStart] at hst
  | startErr p _ _ _ _ => exact InvL.snoc h (SessOK.fresh _ p).dead
  | served p k s s' resp eff _ hp _ htok hs _ hpr hh =>
    show InvL (applyEffs _ eff).sessions
    rw [applyEffs_sessions]
    exact InvL.set h (handle_preserves (h k s hs) (fun _ => htok) (by rw [hpr]; exact hp) hh)
  | rejected p k s _ _ _ _ hs _ _ => exact InvL.set h (h k s hs).dead
  | noSession _ _ _ _ _ => exact h

theorem stateAfter_inv {st : State} (h : Inv st) (rs : List Req) : Inv (stateAfter st rs) := by
  unfold stateAfter
  induction rs generalizing st with
  | nil => exact h
  | cons r rs ih => simp only [List.foldl_cons]; exact ih (step_preserves h r)

/-- the deployment before any request -/
def init (vouchers : List Nat) (reuse : Bool) (modRounds : Nat) : State :=
  { vouchers := vouchers, reuse := reuse, modRounds := modRounds }

theorem init_inv (v : List Nat) (b : Bool) (m : Nat) : Inv (init v b m) := by
  intro k s h; simp [init] at h



/-- What must have been answered before, in the same session, for an effect to happen (the code as
it stands: the owner accepts Done once ProveDevice and DeviceServiceInfoReady were answered). -/
def Needs (e : Effect) (r : Req) (k : Nat) (hist : List Nat) : Prop :=
  match e with
  | .addVoucher k' => k' = k ∧ r.typ = 12 ∧ List.Sublist [10] hist
  | .setBlob k' _ => k' = k ∧ r.typ = 22 ∧ List.Sublist [20] hist ∧ r.nonceOf = some k
  | .ownerModule k' => k' = k ∧ r.typ = 68 ∧ List.Sublist [60, 64, 66, 68] hist
  | .replaceVoucher k' _ => k' = k ∧ r.typ = 70 ∧ List.Sublist [60, 64, 66] hist

section
variable {st : State} {k : Nat} {s s' : Sess} {r : Req} {resp : Nat} {eff : List Effect}

theorem handle_effects (hs : SessOK k s) (h : handle st k s r = some (s', resp, eff)) :
    ∀ e ∈ eff, Needs e r k s.hist := by
  unfold handle at h
  split at h
  all_goals (try (simp at h; done))
  all_goals rename_i ht
  · unfold h10 at h; split at h <;> simp at h; obtain ⟨_, _, rfl⟩ := h; simp
  · unfold h12 at h
    split at h
    · rename_i hc
      simp only [Option.some.injEq, Prod.mk.injEq] at h; obtain ⟨_, _, rfl⟩ := h
      simp only [Bool.and_eq_true] at hc
      intro e he; simp at he; subst he
      exact ⟨rfl, ht, hs.h10 hc.2⟩
    · simp at h
  · unfold h20 at h; split at h <;> simp at h; obtain ⟨_, _, rfl⟩ := h; simp
  · unfold h22 at h
    split at h
    · rename_i hc
      simp only [Option.some.injEq, Prod.mk.injEq] at h; obtain ⟨_, _, rfl⟩ := h
      simp only [Bool.and_eq_true, beq_iff_eq] at hc
      intro e he; simp at he; subst he
      exact ⟨rfl, ht, hs.h20 hc.1.1.2, hc.1.2⟩
    · simp at h
  · unfold h30 at h; split at h <;> simp at h; obtain ⟨_, _, rfl⟩ := h; simp
  · unfold h32 at h; split at h <;> simp at h; obtain ⟨_, _, rfl⟩ := h; simp
  · unfold h60 at h; split at h <;> simp at h; obtain ⟨_, _, rfl⟩ := h; simp
  · unfold h62 at h; split at h <;> simp at h; obtain ⟨_, _, rfl⟩ := h; simp
  · unfold h64 at h; split at h <;> simp at h; obtain ⟨_, _, rfl⟩ := h; simp
  · unfold h66 at h; split at h <;> simp at h; obtain ⟨_, _, rfl⟩ := h; simp
  · unfold h68 at h
    split at h
    · split at h
      · simp at h; obtain ⟨_, _, rfl⟩ := h; simp
      · rename_i hd
        have hd' : s.devmodDone = true := by simpa using hd
        split at h
        · simp only [Option.some.injEq, Prod.mk.injEq] at h; obtain ⟨_, _, rfl⟩ := h
          intro e he; simp at he; subst he
          exact ⟨rfl, ht, hs.h68 hd'⟩
        · simp at h
    · simp at h
  · unfold h70 at h
    split at h
    · split at h
      · simp at h; obtain ⟨_, _, rfl⟩ := h; simp
      · rename_i hm
        have hm' : s.replHmac = true := by simpa using hm
        split at h
        · split at h
          · simp only [Option.some.injEq, Prod.mk.injEq] at h; obtain ⟨_, _, rfl⟩ := h
            intro e he; simp at he; subst he
            exact ⟨rfl, ht, hs.h66' hm'⟩
          · simp at h
        · simp at h
    · simp at h

end


section
variable {st : State} {k : Nat} {s s' : Sess} {r : Req} {resp : Nat} {eff : List Effect}

/-- an answered request gets the response type of its protocol step, never an error type -/
theorem handle_resp (h : handle st k s r = some (s', resp, eff)) : resp = r.typ + 1 := by
  unfold handle at h
  split at h
  all_goals (try (simp at h; done))
  all_goals rename_i ht
  all_goals rw [ht]
  · unfold h10 at h; split at h <;> simp at h; omega
  · unfold h12 at h; split at h <;> simp at h; omega
  · unfold h20 at h; split at h <;> simp at h; omega
  · unfold h22 at h; split at h <;> simp at h; omega
  · unfold h30 at h; split at h <;> simp at h; omega
  · unfold h32 at h; split at h <;> simp at h; omega
  · unfold h60 at h; split at h <;> simp at h; omega
  · unfold h62 at h; split at h <;> simp at h; omega
  · unfold h64 at h; split at h <;> simp at h; omega
  · unfold h66 at h; split at h <;> simp at h; omega
  · unfold h68 at h
    split at h
    · split at h
      · simp at h; omega
      · split at h <;> simp at h; omega
    · simp at h
  · unfold h70 at h
    split at h
    · split at h
      · simp at h; omega
      · split at h
        · split at h <;> simp at h; omega
        · simp at h
    · simp at h

theorem handle_typ (h : handle st k s r = some (s', resp, eff)) : protoOf r.typ ≠ none := by
  unfold handle at h
  split at h
  all_goals (try (simp at h; done))
  all_goals rename_i ht
  all_goals (rw [ht]; decide)

theorem handle_start_no_effects (hst : isStart r.typ = true) (h : handle st k s r = some (s', resp, eff)) :
    eff = [] := by
  unfold handle at h
  split at h
  all_goals (try (simp at h; done))
  all_goals rename_i ht
  all_goals (try (rw [ht] at hst; simp [isStart] at hst; done))
  · unfold h10 at h; split at h <;> simp at h; exact h.2.2
  · unfold h20 at h; split at h <;> simp at h; exact h.2.2
  · unfold h30 at h; split at h <;> simp at h; exact h.2.2
  · unfold h60 at h; split at h <;> simp at h; exact h.2.2

end

/-- what `killTok` does to the session list, pointwise -/
theorem killTok_get (ss : List Sess) (t : TokRef) (k : Nat) :
    (killTok ss t)[k]? = if t = .sess k then (ss[k]?).map dead else ss[k]? := by
  unfold killTok
  cases t with
  | none => simp
  | bad => simp
  | sess j =>
    simp only [TokRef.sess.injEq]
    cases hj : ss[j]? with
    | none =>
      by_cases hjk : j = k
      · subst hjk; simp [hj]
      · simp [hjk]
    | some s0 =>
      have hlt : j < ss.length := by
        rcases Nat.lt_or_ge j ss.length with h | h
        · exact h
        · rw [List.getElem?_eq_none h] at hj; cases hj
      by_cases hjk : j = k
      · subst hjk; simp [hj, List.getElem?_set_self hlt]
      · simp [hjk, List.getElem?_set_ne hjk]

theorem lt_of_get {ss : List Sess} {k : Nat} {s : Sess} (h : ss[k]? = some s) : k < ss.length := by
  rcases Nat.lt_or_ge k ss.length with h' | h'
  · exact h'
  · rw [List.getElem?_eq_none h'] at h; cases h

section
variable {st : State} {k : Nat} {s s' : Sess} {r : Req} {resp : Nat} {eff : List Effect}

/-- how a session's key exchange can be complete after an answered request: it was complete before
(and nothing about the proof changed), or this request is the ProveDevice that completed it -/
theorem handle_kex_done (h : handle st k s r = some (s', resp, eff)) (xb : Nat) (hk : s'.kex = .done xb) :
    (s.kex = .done xb ∧ s'.guid = s.guid ∧ s'.proved = s.proved ∧ r.typ ≠ 64) ∨
    (r.typ = 64 ∧ r.signer = s.guid ∧ s'.guid = s.guid ∧ s'.proved = some r ∧ r.xb = xb) := by
  unfold handle at h
  split at h
  all_goals (try (simp at h; done))
  all_goals rename_i ht
  · unfold h10 at h; split at h <;> simp at h; obtain ⟨rfl, _, _⟩ := h; exact Or.inl ⟨hk, rfl, rfl, by omega⟩
  · unfold h12 at h; split at h <;> simp at h; obtain ⟨rfl, _, _⟩ := h; exact Or.inl ⟨hk, rfl, rfl, by omega⟩
  · unfold h20 at h; split at h <;> simp at h; obtain ⟨rfl, _, _⟩ := h; exact Or.inl ⟨hk, rfl, rfl, by omega⟩
  · unfold h22 at h; split at h <;> simp at h; obtain ⟨rfl, _, _⟩ := h; exact Or.inl ⟨hk, rfl, rfl, by omega⟩
  · unfold h30 at h; split at h <;> simp at h; obtain ⟨rfl, _, _⟩ := h; exact Or.inl ⟨hk, rfl, rfl, by omega⟩
  · unfold h32 at h; split at h <;> simp at h; obtain ⟨rfl, _, _⟩ := h; exact Or.inl ⟨hk, rfl, rfl, by omega⟩
  · unfold h60 at h; split at h <;> simp at h; obtain ⟨rfl, _, _⟩ := h; simp at hk
  · unfold h62 at h; split at h <;> simp at h; obtain ⟨rfl, _, _⟩ := h; exact Or.inl ⟨hk, rfl, rfl, by omega⟩
  · unfold h64 at h
    split at h
    · rename_i hc
      simp only [Option.some.injEq, Prod.mk.injEq] at h; obtain ⟨rfl, _, _⟩ := h
      simp only [Bool.and_eq_true, beq_iff_eq] at hc
      simp only [Kex.done.injEq] at hk
      exact Or.inr ⟨ht, hc.1.1.1.1.1.2, rfl, rfl, hk⟩
    · simp at h
  · unfold h66 at h; split at h <;> simp at h; obtain ⟨rfl, _, _⟩ := h; exact Or.inl ⟨hk, rfl, rfl, by omega⟩
  · unfold h68 at h
    split at h
    · split at h
      · simp at h; obtain ⟨rfl, _, _⟩ := h; exact Or.inl ⟨hk, rfl, rfl, by omega⟩
      · split at h <;> simp at h; obtain ⟨rfl, _, _⟩ := h; exact Or.inl ⟨hk, rfl, rfl, by omega⟩
    · simp at h
  · unfold h70 at h
    split at h
    · split at h
      · simp at h; obtain ⟨rfl, _, _⟩ := h; exact Or.inl ⟨hk, rfl, rfl, by omega⟩
      · split at h
        · split at h <;> simp at h; obtain ⟨rfl, _, _⟩ := h; exact Or.inl ⟨hk, rfl, rfl, by omega⟩
        · simp at h
    · simp at h

/-- 65, 67, 69, 71 are only ever sent on a session whose key exchange is complete afterwards, and
66–70 were decrypted under exactly those keys -/
theorem handle_served_kex (h : handle st k s r = some (s', resp, eff))
    (hr : resp = 65 ∨ resp = 67 ∨ resp = 69 ∨ resp = 71) :
    ∃ xb, s'.kex = .done xb ∧ (resp ≠ 65 → r.enc = some (k, xb)) ∧ (resp = 65 → r.typ = 64) := by
  have hresp := handle_resp h
  unfold handle at h
  split at h
  all_goals (try (simp at h; done))
  all_goals rename_i ht
  all_goals (try (exfalso; omega))
  · unfold h64 at h
    split at h
    · simp only [Option.some.injEq, Prod.mk.injEq] at h; obtain ⟨rfl, _, _⟩ := h
      exact ⟨r.xb, rfl, fun hne => absurd (by omega) hne, fun _ => ht⟩
    · simp at h
  · unfold h66 at h
    split at h
    · rename_i hc
      simp only [Option.some.injEq, Prod.mk.injEq] at h; obtain ⟨rfl, _, _⟩ := h
      simp only [Bool.and_eq_true] at hc
      obtain ⟨xb, hk, he⟩ := decrypts_done hc.1.1
      exact ⟨xb, hk, fun _ => he, fun h65 => by omega⟩
    · simp at h
  · unfold h68 at h
    split at h
    · rename_i hc
      simp only [Bool.and_eq_true] at hc
      obtain ⟨xb, hk, he⟩ := decrypts_done hc.1.1
      split at h
      · simp only [Option.some.injEq, Prod.mk.injEq] at h; obtain ⟨rfl, _, _⟩ := h
        exact ⟨xb, hk, fun _ => he, fun h65 => by omega⟩
      · split at h
        · simp only [Option.some.injEq, Prod.mk.injEq] at h; obtain ⟨rfl, _, _⟩ := h
          exact ⟨xb, hk, fun _ => he, fun h65 => by omega⟩
        · simp at h
    · simp at h
  · unfold h70 at h
    split at h
    · rename_i hc
      simp only [Bool.and_eq_true] at hc
      obtain ⟨xb, hk, he⟩ := decrypts_done hc.1.1
      split at h
      · simp only [Option.some.injEq, Prod.mk.injEq] at h; obtain ⟨rfl, _, _⟩ := h
        exact ⟨xb, hk, fun _ => he, fun h65 => by omega⟩
      · split at h
        · split at h
          · simp only [Option.some.injEq, Prod.mk.injEq] at h; obtain ⟨rfl, _, _⟩ := h
            exact ⟨xb, hk, fun _ => he, fun h65 => by omega⟩
          · simp at h
        · simp at h
    · simp at h

/-- a replaced voucher is the one the session's HelloDevice named -/
theorem handle_replace_guid (h : handle st k s r = some (s', resp, eff)) (k' d : Nat)
    (he : Effect.replaceVoucher k' d ∈ eff) : s.guid = some d := by
  unfold handle at h
  split at h
  all_goals (try (simp at h; done))
  · unfold h10 at h; split at h <;> simp at h; obtain ⟨_, _, rfl⟩ := h; simp at he
  · unfold h12 at h; split at h <;> simp at h; obtain ⟨_, _, rfl⟩ := h; simp at he
  · unfold h20 at h; split at h <;> simp at h; obtain ⟨_, _, rfl⟩ := h; simp at he
  · unfold h22 at h; split at h <;> simp at h; obtain ⟨_, _, rfl⟩ := h; simp at he
  · unfold h30 at h; split at h <;> simp at h; obtain ⟨_, _, rfl⟩ := h; simp at he
  · unfold h32 at h; split at h <;> simp at h; obtain ⟨_, _, rfl⟩ := h; simp at he
  · unfold h60 at h; split at h <;> simp at h; obtain ⟨_, _, rfl⟩ := h; simp at he
  · unfold h62 at h; split at h <;> simp at h; obtain ⟨_, _, rfl⟩ := h; simp at he
  · unfold h64 at h; split at h <;> simp at h; obtain ⟨_, _, rfl⟩ := h; simp at he
  · unfold h66 at h; split at h <;> simp at h; obtain ⟨_, _, rfl⟩ := h; simp at he
  · unfold h68 at h
    split at h
    · split at h
      · simp at h; obtain ⟨_, _, rfl⟩ := h; simp at he
      · split at h <;> simp at h; obtain ⟨_, _, rfl⟩ := h; simp at he
    · simp at h
  · unfold h70 at h
    split at h
    · split at h
      · simp at h; obtain ⟨_, _, rfl⟩ := h; simp at he
      · split at h
        · rename_i d' hg
          split at h
          · simp only [Option.some.injEq, Prod.mk.injEq] at h; obtain ⟨_, _, rfl⟩ := h
            simp at he; rw [hg, he.2]
          · simp at h
        · simp at h
    · simp at h

end

section
variable {st : State} {k : Nat} {s s' : Sess} {r : Req} {resp : Nat} {eff : List Effect}

/-- only the twelve request types of the four protocols are ever answered -/
theorem handle_request_type (h : handle st k s r = some (s', resp, eff)) :
    r.typ = 10 ∨ r.typ = 12 ∨ r.typ = 20 ∨ r.typ = 22 ∨ r.typ = 30 ∨ r.typ = 32 ∨
    r.typ = 60 ∨ r.typ = 62 ∨ r.typ = 64 ∨ r.typ = 66 ∨ r.typ = 68 ∨ r.typ = 70 := by
  unfold handle at h
  split at h
  all_goals (try (simp at h; done))
  all_goals rename_i ht
  all_goals (rw [ht]; decide)
end

theorem applyEffs_vouchers_same (st : State) (es : List Effect)
    (h : ∀ e ∈ es, ∀ k d, e ≠ .replaceVoucher k d) : (applyEffs st es).vouchers = st.vouchers := by
  unfold applyEffs
  induction es generalizing st with
  | nil => rfl
  | cons e es ih =>
    simp only [List.foldl_cons]
    rw [ih _ (fun e' he' => h e' (List.mem_cons_of_mem _ he'))]
    cases e with
    | replaceVoucher k d => exact absurd rfl (h _ List.mem_cons_self k d)
    | _ => rfl


end Fdo.Proto.Server
