/-
Byte strings and big-endian numbers: the vocabulary every model file uses.
Core Lean only.
-/
namespace Fdo

abbrev Bytes := List UInt8

/-- Big-endian value of a byte string (`toU64` in cbor.go, without the 8-byte cap). -/
def beNat : Bytes → Nat
  | [] => 0
  | b :: r => b.toNat * 256 ^ r.length + beNat r

/-- Fixed-width big-endian encoding (`binary.BigEndian.AppendUintN`). -/
def natBE : (width : Nat) → Nat → Bytes
  | 0, _ => []
  | w+1, n => UInt8.ofNat (n / 256 ^ w) :: natBE w (n % 256 ^ w)

@[simp] theorem natBE_length (w n : Nat) : (natBE w n).length = w := by
  induction w generalizing n with
  | zero => rfl
  | succ w ih => simp [natBE, ih]

theorem beNat_lt (bs : Bytes) : beNat bs < 256 ^ bs.length := by
  induction bs with
  | nil => simp [beNat]
  | cons b r ih =>
    have hb : b.toNat < 256 := UInt8.toNat_lt b
    simp only [beNat, List.length_cons, Nat.pow_succ]
    have : b.toNat * 256 ^ r.length ≤ 255 * 256 ^ r.length :=
      Nat.mul_le_mul_right _ (by omega)
    omega

theorem beNat_natBE (w n : Nat) (h : n < 256 ^ w) : beNat (natBE w n) = n := by
  induction w generalizing n with
  | zero => simp [Nat.pow_zero] at h; subst h; rfl
  | succ w ih =>
    have hp : 0 < 256 ^ w := Nat.pow_pos (by decide)
    have hq : n / 256 ^ w < 256 := by
      rw [Nat.div_lt_iff_lt_mul hp]; rw [Nat.pow_succ] at h; omega
    have hr : n % 256 ^ w < 256 ^ w := Nat.mod_lt _ hp
    simp only [natBE, beNat, natBE_length]
    rw [ih _ hr]
    have : (UInt8.ofNat (n / 256 ^ w)).toNat = n / 256 ^ w := by
      simp [UInt8.toNat_ofNat, Nat.mod_eq_of_lt hq]
    rw [this]
    exact Nat.div_add_mod' n (256 ^ w)

theorem natBE_beNat (bs : Bytes) : natBE bs.length (beNat bs) = bs := by
  induction bs with
  | nil => rfl
  | cons b r ih =>
    have hp : 0 < 256 ^ r.length := Nat.pow_pos (by decide)
    have hlt := beNat_lt r
    simp only [List.length_cons, natBE, beNat]
    have h1 : (b.toNat * 256 ^ r.length + beNat r) / 256 ^ r.length = b.toNat := by
      rw [Nat.mul_comm, Nat.mul_add_div hp, Nat.div_eq_of_lt hlt]; rfl
    have h2 : (b.toNat * 256 ^ r.length + beNat r) % 256 ^ r.length = beNat r := by
      rw [Nat.mul_comm, Nat.mul_add_mod, Nat.mod_eq_of_lt hlt]
    rw [h1, h2, ih]
    simp

/-- Lexicographic (bytewise) strict order on byte strings, `bytes.Compare < 0`. -/
def bytesLt : Bytes → Bytes → Bool
  | [], [] => false
  | [], _ :: _ => true
  | _ :: _, [] => false
  | a :: as, b :: bs => if a.toNat < b.toNat then true else if b.toNat < a.toNat then false else bytesLt as bs

/-! ### hex -/

def hexDigit (n : Nat) : Char :=
  if n < 10 then Char.ofNat (48 + n) else Char.ofNat (87 + n)

def toHex (bs : Bytes) : String :=
  String.ofList (bs.foldr (fun b acc => hexDigit (b.toNat / 16) :: hexDigit (b.toNat % 16) :: acc) [])

def hexVal (c : Char) : Option Nat :=
  if '0' ≤ c ∧ c ≤ '9' then some (c.toNat - 48)
  else if 'a' ≤ c ∧ c ≤ 'f' then some (c.toNat - 87)
  else if 'A' ≤ c ∧ c ≤ 'F' then some (c.toNat - 55)
  else none

def ofHexChars : List Char → Option Bytes
  | [] => some []
  | [_] => none
  | a :: b :: r => do
    let x ← hexVal a
    let y ← hexVal b
    let t ← ofHexChars r
    pure (UInt8.ofNat (x * 16 + y) :: t)

/-- Parse hex; "-" denotes the empty string (so that fields never vanish in the line protocol). -/
def ofHex (s : String) : Option Bytes :=
  if s == "-" then some [] else ofHexChars s.toList

def hexOrDash (bs : Bytes) : String := if bs.isEmpty then "-" else toHex bs

end Fdo
