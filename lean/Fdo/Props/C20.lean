import Fdo.RvProofs
import Fdo.Gen.Rv
/-
C20 — rendezvous instructions are interpreted totally and per role as specified.

STATE OF THIS FILE: the model `Fdo.Rv.parseDirective` mirrors `protocol/rv.go` and
`cbor/array.go` WITH the four repairs fix-1 … fix-4 applied (see the header of `Fdo/Rv.lean`);
every statement of the property is proved at full strength, for all instruction lists of any
length over any variable numbers and any byte strings as values, for both views.
`Fdo.RvSpec.specDirective` is the independent table-driven reference interpreter.

(The previous commit holds the model of the unrepaired code with the `…_partial` theorems and
one witness theorem per defect: empty `RVExtRV` panics; `RVDns`/`RVIPAddress` values that fail
to decode are used or wipe an earlier address; negative/overflowing `RVDelaysec`; a second
`RVProtocol` keeps the first one's default port.)
-/
namespace Fdo.Props.C20
open Fdo Fdo.Rv Fdo.RvSpec Fdo.RvProofs

/-! ### totality -/

/-- Interpreting a directive never panics: the loop has no panic site left (`cbor.ArrayShift`
is total), so no outcome is a panic. -/
theorem parse_never_panics (dev : Bool) (is : List RvInstr) (s : String) :
    parseDirective dev is ≠ .panic s := by
  rw [parseDirective_eq_spec]
  unfold specDirective
  split <;> simp

/-- Hence `ParseDeviceRvInfo`/`ParseOwnerRvInfo` return one directive per input directive. -/
theorem parseRvInfo_total (dev : Bool) (dirs : List (List RvInstr)) :
    ∃ ds, parseRvInfo dev dirs = .ok ds ∧ ds.length = dirs.length := by
  induction dirs with
  | nil => exact ⟨[], rfl, rfl⟩
  | cons is rest ih =>
    obtain ⟨ds, h, hl⟩ := ih
    unfold parseRvInfo
    cases hp : parseDirective dev is with
    | panic s => exact absurd hp (parse_never_panics dev is s)
    | dropped => exact ⟨Directive.zero :: ds, by simp [h, Except.map], by simp [hl]⟩
    | ok d => exact ⟨d :: ds, by simp [h, Except.map], by simp [hl]⟩

/-- An empty `RVExtRV` value — the former panic — is now ignored like any malformed value. -/
theorem extrv_empty_ignored (dev : Bool) (l1 l2 : List RvInstr) :
    parseDirective dev (l1 ++ ⟨15, []⟩ :: l2) = parseDirective dev (l1 ++ l2) := by
  rw [parseDirective_eq_spec, parseDirective_eq_spec]
  exact spec_malformed dev l1 l2 _ (by decide)

/-! ### role filter -/

/-- A directive marked for the other role (`RVOwnerOnly` in the device view, `RVDevOnly` in the
owner view) contributes nothing: no addresses and no other field, wherever the marker stands. -/
theorem other_role_contributes_nothing (dev : Bool) (is : List RvInstr)
    (hm : ∃ i ∈ is, i.var = (roleRow dev).otherOnlyVar) : parseDirective dev is = .dropped := by
  rw [parseDirective_eq_spec]
  unfold specDirective
  have : is.any (fun i => decide (i.var = (roleRow dev).otherOnlyVar)) = true := by
    obtain ⟨i, hi, hv⟩ := hm
    exact List.any_eq_true.mpr ⟨i, hi, by simp [hv]⟩
  simp [this]

/-- … and only such a marker makes a directive contribute nothing as a whole. -/
theorem dropped_only_by_marker (dev : Bool) (is : List RvInstr) (h : parseDirective dev is = .dropped) :
    ∃ i ∈ is, i.var = (roleRow dev).otherOnlyVar := by
  rw [parseDirective_eq_spec] at h
  unfold specDirective at h
  split at h
  · rename_i ha
    obtain ⟨i, hi, hv⟩ := List.any_eq_true.mp ha
    exact ⟨i, hi, by simpa using hv⟩
  · cases h

/-- In the API a dropped directive is the zero `RvDirective`: no URL at all. -/
theorem dropped_is_zero (dev : Bool) (is : List RvInstr) (h : parseDirective dev is = .dropped) :
    parseRvInfo dev [is] = .ok [Directive.zero] := by
  simp [parseRvInfo, h, Except.map]

/-! ### model = specification tables -/

/-- For every instruction list the interpreter computes exactly what the table-driven
reference interpreter prescribes: dropped or not, URLs (scheme, DNS and/or IP host, port),
bypass, delay, medium, wifi, external RV and certificate hashes. -/
theorem parse_eq_spec (dev : Bool) (is : List RvInstr) :
    parseDirective dev is = specDirective dev is := parseDirective_eq_spec dev is

/-- `parseURLs` alone likewise. -/
theorem parseURLs_eq_spec (dev : Bool) (is : List RvInstr) :
    parseURLs dev is = specURLs dev is := RvProofs.parseURLs_eq_spec dev is

/-! ### order -/

/-- The result does not depend on the order of instructions with pairwise distinct variables. -/
theorem order_independent (dev : Bool) (l l' : List RvInstr) (hd : (l.map (·.var)).Nodup) (hp : l.Perm l') :
    parseDirective dev l = parseDirective dev l' := by
  rw [parseDirective_eq_spec, parseDirective_eq_spec]
  exact spec_perm dev hp hd

/-! ### ports per role -/

/-- Every URL carries the port of the role's own port variable (device: `RVDevPort`, owner:
`RVOwnerPort`; last valid uint16 value), else the default port of its scheme (http 80,
https 443, coap and coap+tcp 5683, tcp and tls none). -/
theorem role_port (dev : Bool) (is : List RvInstr) (u : Url) (hu : u ∈ parseURLs dev is) :
    u.port = orElse (lastValid (onVar (if dev then 3 else 4) readU16) is) (defaultPort u.scheme) := by
  rw [RvProofs.parseURLs_eq_spec] at hu
  exact spec_url_port dev is u hu

/-- The other role's port variable is not looked at at all. -/
theorem role_port_other_ignored (dev : Bool) (l1 l2 : List RvInstr) (i : RvInstr)
    (h : i.var = if dev then 4 else 3) :
    parseDirective dev (l1 ++ i :: l2) = parseDirective dev (l1 ++ l2) := by
  rw [parseDirective_eq_spec, parseDirective_eq_spec]
  exact spec_other_port dev l1 l2 i (by cases dev <;> simpa [roleRow] using h)

/-! ### malformed values -/

/-- An instruction whose value does not decode (`cbor.Unmarshal` returns an error, be it for
the wrong type, range, truncation, trailing bytes or an over-limit length) as the type of its
variable is ignored: the result is that of the list without it. -/
theorem malformed_ignored (dev : Bool) (l1 l2 : List RvInstr) (i : RvInstr) (hm : malformed i = true) :
    parseDirective dev (l1 ++ i :: l2) = parseDirective dev (l1 ++ l2) := by
  rw [parseDirective_eq_spec, parseDirective_eq_spec]
  exact spec_malformed dev l1 l2 i hm

/-- The former witnesses now behave: trailing bytes after a DNS name, a partially decodable
address array, a negative or huge delay are malformed and leave no trace; a malformed second
address does not wipe the first; https after http gets 443. -/
theorem former_defects_repaired :
    parseURLs true [⟨5, [0x61, 0x61, 0x00]⟩] = [] ∧
    parseURLs true [⟨2, [0x84, 0x01, 0x02, 0xf5, 0x04]⟩] = [] ∧
    parseURLs true [⟨2, [0x44, 1, 2, 3, 4]⟩, ⟨2, [0x05]⟩] = [⟨.tls, .ip [1, 2, 3, 4], none⟩] ∧
    parseDirective true [⟨13, [0x20]⟩] = .ok Directive.zero ∧
    parseDirective true [⟨13, [0x1b, 0, 0, 0, 2, 0x25, 0xc1, 0x7d, 0x05]⟩] = .ok Directive.zero ∧
    parseDirective true [⟨15, []⟩] = .ok Directive.zero ∧
    parseURLs true [⟨12, [0x01]⟩, ⟨12, [0x02]⟩, ⟨5, [0x61, 0x61]⟩] = [⟨.https, .dns [0x61], some 443⟩] := by decide

/-! ### regenerated constants and tables -/

/-- The model's variable, protocol and medium numbers are those of package `protocol`. -/
theorem gen_constants_eq :
    Fdo.Gen.Rv.rvVars = [("RVDevOnly", rvDevOnly), ("RVOwnerOnly", rvOwnerOnly), ("RVIPAddress", rvIPAddress),
      ("RVDevPort", rvDevPort), ("RVOwnerPort", rvOwnerPort), ("RVDns", rvDns), ("RVSvCertHash", rvSvCertHash),
      ("RVClCertHash", rvClCertHash), ("RVUserInput", rvUserInput), ("RVWifiSsid", rvWifiSsid), ("RVWifiPw", rvWifiPw),
      ("RVMedium", rvMedium), ("RVProtocol", rvProtocol), ("RVDelaysec", rvDelaysec), ("RVBypass", rvBypass),
      ("RVExtRV", rvExtRV)] ∧
    Fdo.Gen.Rv.rvProtocols = [("RVProtRest", rvProtRest), ("RVProtHTTP", rvProtHTTP), ("RVProtHTTPS", rvProtHTTPS),
      ("RVProtTCP", rvProtTCP), ("RVProtTLS", rvProtTLS), ("RVProtCoapTCP", rvProtCoapTCP), ("RVProtCoapUDP", rvProtCoapUDP)] ∧
    Fdo.Gen.Rv.rvMedia = [("RVMedEthAll", rvMedEthAll), ("RVMedWifiAll", rvMedWifiAll)] := by decide

def portText : Option Nat → String
  | none => ""
  | some p => toString p

set_option maxRecDepth 20000 in
/-- The code's protocol → (scheme, default port) behaviour, obtained by running it on all 256
values in both views, is the specification's protocol table. -/
theorem gen_proto_table_eq :
    Fdo.Gen.Rv.protoTable = (List.range 256).map (fun p =>
      let s := (schemeOfProto p).getD defaultScheme
      (s.text, portText (defaultPort s))) ∧
    Fdo.Gen.Rv.protoTableOwner = Fdo.Gen.Rv.protoTable ∧
    Fdo.Gen.Rv.protoDefault = (defaultScheme.text, portText (defaultPort defaultScheme)) := by decide

set_option maxRecDepth 20000 in
/-- The code's medium → interface behaviour on all 256 values is the specification's medium table. -/
theorem gen_medium_table_eq :
    Fdo.Gen.Rv.mediumTable = (List.range 256).map (fun m =>
      ((mediumFor .eth m).getD 256, (mediumFor .wlan m).getD 256)) := by decide

/-- The code's role columns (which variable supplies the port, which marker drops the
directive, found by running it on all 16 variables) are the specification's. -/
theorem gen_role_columns_eq :
    Fdo.Gen.Rv.devPortVars = [(roleRow true).portVar] ∧ Fdo.Gen.Rv.devDropVars = [(roleRow true).otherOnlyVar] ∧
    Fdo.Gen.Rv.ownPortVars = [(roleRow false).portVar] ∧ Fdo.Gen.Rv.ownDropVars = [(roleRow false).otherOnlyVar] := by decide

/-! ### non-vacuity -/

/-- A five-instruction directive (https, DNS, IPv4, device port, delay) has distinct variables
and yields two URLs with the device port (hypotheses of `order_independent`, `role_port`). -/
example :
    let is : List RvInstr := [⟨12, [0x02]⟩, ⟨5, [0x63, 0x61, 0x2e, 0x62]⟩,
      ⟨2, [0x44, 192, 0, 2, 1]⟩, ⟨3, [0x19, 0x1f, 0x90]⟩, ⟨13, [0x0a]⟩]
    (is.map (·.var)).Nodup ∧
    parseDirective true is = .ok { Directive.zero with
      urls := [⟨.https, .dns [0x61, 0x2e, 0x62], some 8080⟩, ⟨.https, .ip [192, 0, 2, 1], some 8080⟩]
      delay := 10000000000 } := by decide

/-- The owner view of the same addresses ignores `RVDevPort` and falls back to 443. -/
example :
    parseURLs false [⟨12, [0x02]⟩, ⟨2, [0x44, 192, 0, 2, 1]⟩, ⟨3, [0x19, 0x1f, 0x90]⟩] =
      [⟨.https, .ip [192, 0, 2, 1], some 443⟩] := by decide

/-- Malformed values exist for every typed variable (hypothesis of `malformed_ignored`):
trailing bytes, wrong type, out of range, truncated, empty. -/
example : malformed ⟨5, [0x61, 0x61, 0x00]⟩ = true ∧ malformed ⟨3, [0x61, 0x61]⟩ = true ∧
    malformed ⟨12, [0x19, 0x01, 0x00]⟩ = true ∧ malformed ⟨2, [0x44, 1, 2]⟩ = true ∧ malformed ⟨15, []⟩ = true ∧
    malformed ⟨13, [0x20]⟩ = true ∧ malformed ⟨6, [0x81, 0x2f]⟩ = true ∧ malformed ⟨11, [0xf6]⟩ = true ∧
    malformed ⟨5, [0x61, 0x61]⟩ = false := by decide

/-- A marked directive (hypothesis of `other_role_contributes_nothing`), and the other fields
of a directive are reachable: bypass, medium, wifi, certificate hashes. -/
example :
    (∃ i ∈ [(⟨5, [0x61, 0x61]⟩ : RvInstr), ⟨0, []⟩], i.var = (roleRow false).otherOnlyVar) ∧
    parseDirective true [⟨14, []⟩, ⟨11, [0x0d]⟩, ⟨9, [0x61, 0x73]⟩, ⟨10, [0x61, 0x70]⟩,
      ⟨6, [0x82, 0x2f, 0x41, 0xaa]⟩, ⟨7, [0x82, 0x38, 0x2a, 0x41, 0xbb]⟩] =
      .ok { Directive.zero with
        bypass := true
        wlan := some 3
        ssid := [0x73]
        pass := [0x70]
        svCert := some (-16, [0xaa])
        clCert := some (-43, [0xbb]) } :=
  ⟨⟨⟨0, []⟩, by simp, by decide⟩, by decide⟩

/-- … and external RV: `["m", 1]` gives mechanism "m" and the argument array `[1]`. -/
example : parseDirective true [⟨15, [0x82, 0x61, 0x6d, 0x01]⟩] =
    .ok { Directive.zero with extMech := [0x6d], extArgs := [0x81, 0x01] } := by
  have h : arrayShift [0x82, 0x61, 0x6d, 0x01] = .ok [0x61, 0x6d] [0x81, 0x01] := by
    simp [arrayShift, Cbor.decHead, Cbor.decode1, Cbor.decode, shiftLen, Cbor.maxLen, Cbor.encHead]
  have h2 : unmarshalStr [0x61, 0x6d] = ⟨some [0x6d], true⟩ := by decide
  have h3 : parseURLs true [⟨15, [0x82, 0x61, 0x6d, 0x01]⟩] = [] := by decide
  simp [parseDirective, dirLoop, dirStep, h, h2, h3, applyExt, Directive.zero, rvDevOnly, rvOwnerOnly, rvBypass, rvMedium,
    rvWifiSsid, rvWifiPw, rvExtRV]

end Fdo.Props.C20
