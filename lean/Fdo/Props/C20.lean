import Fdo.RvProofs
import Fdo.Gen.Rv
/-
C20 — rendezvous instructions are interpreted totally and per role as specified.

STATE OF THIS FILE: the model `Fdo.Rv.parseDirective` mirrors `protocol/rv.go` and
`cbor/array.go` AS THEY ARE.  On the current code four statements of the property are false;
for each the full statement is kept in a comment, the `…_partial` version is proved under an
explicit decidable guard, and a witness theorem exhibits a concrete input on which the full
statement fails (each witness is replayed on the Go code by the harness):

  1. `RVExtRV` with an empty value panics in `cbor.ArrayShift`              (`extrv_empty_panics`)
  2. `RVDns`/`RVIPAddress` values that fail to decode are used anyway, or
     wipe an earlier address                       (`dns_trailing_bytes_used`, `ip_partial_array_used`,
                                                     `ip_failed_decode_wipes_address`)
  3. negative or overflowing `RVDelaysec`          (`delay_negative`, `delay_overflows`)
  4. a second `RVProtocol` keeps the first one's default port             (`second_protocol_keeps_first_default_port`)

`Fdo.Rv.Repaired.parseDirective` is the interpreter after the proposed patches; it satisfies
all statements at full strength (`RvProofs.repaired_eq_spec`), and `clean` is exactly the guard
under which the current code coincides with it (`RvProofs.current_eq_repaired`).
-/
namespace Fdo.Props.C20
open Fdo Fdo.Rv Fdo.RvSpec Fdo.RvProofs

/-- The guard of `parse_never_panics_partial` and `other_role_contributes_nothing_partial`. -/
def NoEmptyExt (is : List RvInstr) : Prop := ∀ i ∈ is, i.var = rvExtRV → i.value ≠ []

instance (is : List RvInstr) : Decidable (NoEmptyExt is) := by unfold NoEmptyExt; infer_instance

/-! ### totality -/

/- FULL STATEMENT (false on the current code, see `extrv_empty_panics`):
theorem parse_never_panics (dev : Bool) (is : List RvInstr) (s : String) :
    parseDirective dev is ≠ .panic s -/

/-- Interpreting a directive never panics, provided no `RVExtRV` instruction has an empty value. -/
theorem parse_never_panics_partial (dev : Bool) (is : List RvInstr) (h : NoEmptyExt is) (s : String) :
    parseDirective dev is ≠ .panic s :=
  dirLoop_no_panic dev _ is h s

/-- Witness: an `RVExtRV` instruction with an empty value panics (both views). -/
theorem extrv_empty_panics :
    parseDirective true [⟨15, []⟩] = .panic "cbor.ArrayShift:empty" ∧
    parseDirective false [⟨15, []⟩] = .panic "cbor.ArrayShift:empty" := by decide

/-- `ParseDeviceRvInfo`/`ParseOwnerRvInfo` as a whole then abort, whatever else is in the list. -/
theorem extrv_empty_aborts_whole_call :
    parseRvInfo true [[⟨5, [0x61, 0x61]⟩], [⟨15, []⟩]] = .error "cbor.ArrayShift:empty" := by rfl

/-! ### role filter -/

/- FULL STATEMENT (false on the current code: an empty `RVExtRV` before the marker panics first):
theorem other_role_contributes_nothing (dev : Bool) (is : List RvInstr)
    (hm : ∃ i ∈ is, i.var = (roleRow dev).otherOnlyVar) : parseDirective dev is = .dropped -/

/-- A directive marked for the other role contributes nothing (no addresses, no other field). -/
theorem other_role_contributes_nothing_partial (dev : Bool) (is : List RvInstr) (h : NoEmptyExt is)
    (hm : ∃ i ∈ is, i.var = (roleRow dev).otherOnlyVar) : parseDirective dev is = .dropped :=
  dirLoop_marker dev _ is h hm

theorem other_role_marker_after_empty_extrv_panics :
    parseDirective true [⟨15, []⟩, ⟨1, []⟩] = .panic "cbor.ArrayShift:empty" := by decide

/-- In the API a dropped directive is the zero `RvDirective`: no URL at all. -/
theorem dropped_is_zero (dev : Bool) (is : List RvInstr) (h : parseDirective dev is = .dropped) :
    parseRvInfo dev [is] = .ok [Directive.zero] := by
  simp [parseRvInfo, h, Except.map]

/-! ### model = specification tables -/

/- FULL STATEMENT (false on the current code, see the witnesses below):
theorem parse_eq_spec (dev : Bool) (is : List RvInstr) : parseDirective dev is = specDirective dev is -/

/-- Outside the four defect classes (`clean`) the interpreter computes exactly what the
table-driven reference interpreter prescribes: URLs (scheme, DNS and/or IP host, port), bypass,
delay, medium, wifi, external RV and certificate hashes. -/
theorem parse_eq_spec_partial (dev : Bool) (is : List RvInstr) (h : clean is = true) :
    parseDirective dev is = specDirective dev is := by
  rw [current_eq_repaired dev is h, repaired_eq_spec]

/-- The repaired interpreter equals the reference interpreter on every list. -/
theorem repaired_parse_eq_spec (dev : Bool) (is : List RvInstr) :
    Repaired.parseDirective dev is = specDirective dev is := repaired_eq_spec dev is

/-- Witness (defect 2): `RVDns = "a"` followed by a trailing byte is used although malformed. -/
theorem dns_trailing_bytes_used :
    parseURLs true [⟨5, [0x61, 0x61, 0x00]⟩] = [⟨.tls, .dns [0x61], none⟩] ∧
    specURLs true [⟨5, [0x61, 0x61, 0x00]⟩] = [] := by decide

/-- Witness (defect 2): an `RVIPAddress` array whose third element is not an integer leaves
the two-byte prefix behind, and it is used as an address. -/
theorem ip_partial_array_used :
    parseURLs true [⟨2, [0x84, 0x01, 0x02, 0xf5, 0x04]⟩] = [⟨.tls, .ip [1, 2], none⟩] ∧
    specURLs true [⟨2, [0x84, 0x01, 0x02, 0xf5, 0x04]⟩] = [] := by decide

/-- Witness (defect 2): a malformed second `RVIPAddress` wipes the valid first one. -/
theorem ip_failed_decode_wipes_address :
    parseURLs true [⟨2, [0x44, 1, 2, 3, 4]⟩, ⟨2, [0x05]⟩] = [] ∧
    specURLs true [⟨2, [0x44, 1, 2, 3, 4]⟩, ⟨2, [0x05]⟩] = [⟨.tls, .ip [1, 2, 3, 4], none⟩] := by decide

/-- Witness (defect 3): `RVDelaysec = -1` becomes a negative delay. -/
theorem delay_negative :
    parseDirective true [⟨13, [0x20]⟩] = .ok { Directive.zero with delay := -1000000000 } := by decide

/-- Witness (defect 3): `RVDelaysec = 9223372037` seconds wraps around in int64 nanoseconds. -/
theorem delay_overflows :
    parseDirective true [⟨13, [0x1b, 0, 0, 0, 2, 0x25, 0xc1, 0x7d, 0x05]⟩] =
      .ok { Directive.zero with delay := -9223372036709551616 } := by decide

/-- Witness (defect 4): https after http keeps port 80. -/
theorem second_protocol_keeps_first_default_port :
    parseURLs true [⟨12, [0x01]⟩, ⟨12, [0x02]⟩, ⟨5, [0x61, 0x61]⟩] = [⟨.https, .dns [0x61], some 80⟩] ∧
    specURLs true [⟨12, [0x01]⟩, ⟨12, [0x02]⟩, ⟨5, [0x61, 0x61]⟩] = [⟨.https, .dns [0x61], some 443⟩] := by decide

/-! ### order -/

/- FULL STATEMENT (false on the current code, see `order_matters_with_empty_extrv`):
theorem order_independent (dev : Bool) (l l' : List RvInstr) (hd : (l.map (·.var)).Nodup) (hp : l.Perm l') :
    parseDirective dev l = parseDirective dev l' -/

/-- The result does not depend on the order of instructions with pairwise distinct variables
(outside the defect classes; the harness finds order dependence on the current code only
through the `ArrayShift` panic). -/
theorem order_independent_partial (dev : Bool) (l l' : List RvInstr) (hc : clean l = true)
    (hd : (l.map (·.var)).Nodup) (hp : l.Perm l') :
    parseDirective dev l = parseDirective dev l' := by
  rw [parse_eq_spec_partial dev l hc, parse_eq_spec_partial dev l' (by rw [← clean_perm hp]; exact hc)]
  exact spec_perm dev hp hd

theorem order_matters_with_empty_extrv :
    parseDirective true [⟨1, []⟩, ⟨15, []⟩] = .dropped ∧
    parseDirective true [⟨15, []⟩, ⟨1, []⟩] = .panic "cbor.ArrayShift:empty" := by decide

/-! ### ports per role -/

/- FULL STATEMENT (false on the current code, see `second_protocol_keeps_first_default_port`):
theorem role_port (dev : Bool) (is : List RvInstr) (u : Url) (hu : u ∈ parseURLs dev is) :
    u.port = orElse (lastValid (onVar (if dev then 3 else 4) readU16) is) (defaultPort u.scheme) -/

/-- Every URL carries the port of the role's own port variable (device: `RVDevPort`, owner:
`RVOwnerPort`; last valid uint16 value), else the default port of its scheme. -/
theorem role_port_partial (dev : Bool) (is : List RvInstr) (hc : clean is = true) (u : Url)
    (hu : u ∈ parseURLs dev is) :
    u.port = orElse (lastValid (onVar (if dev then 3 else 4) readU16) is) (defaultPort u.scheme) := by
  rw [parseURLs_clean dev is hc, parseURLs_eq_spec] at hu
  exact spec_url_port dev is u hu

/-- The other role's port variable is not looked at at all (no guard needed). -/
theorem role_port_other_ignored (dev : Bool) (l1 l2 : List RvInstr) (i : RvInstr)
    (h : i.var = if dev then 4 else 3) :
    parseDirective dev (l1 ++ i :: l2) = parseDirective dev (l1 ++ l2) :=
  parse_other_port dev l1 l2 i (by cases dev <;> simpa [roleRow] using h)

/-! ### malformed values -/

/- FULL STATEMENT (false on the current code, see `dns_trailing_bytes_used`, `ip_partial_array_used`):
theorem malformed_ignored (dev : Bool) (l1 l2 : List RvInstr) (i : RvInstr) (hm : malformed i = true) :
    parseDirective dev (l1 ++ i :: l2) = parseDirective dev (l1 ++ l2) -/

/-- An instruction whose value does not decode as the type of its variable is ignored: the
result is that of the list without it (outside the defect classes). -/
theorem malformed_ignored_partial (dev : Bool) (l1 l2 : List RvInstr) (i : RvInstr)
    (hc : clean (l1 ++ i :: l2) = true) (hm : malformed i = true) :
    parseDirective dev (l1 ++ i :: l2) = parseDirective dev (l1 ++ l2) := by
  rw [parse_eq_spec_partial dev _ hc, parse_eq_spec_partial dev _ (clean_remove l1 l2 i hc)]
  exact spec_malformed dev l1 l2 i hm

theorem malformed_dns_not_ignored :
    malformed ⟨5, [0x61, 0x61, 0x00]⟩ = true ∧
    parseDirective true ([] ++ ⟨5, [0x61, 0x61, 0x00]⟩ :: []) ≠ parseDirective true ([] ++ []) := by decide

/-! ### regenerated constants and tables -/

/-- The model's variable, protocol and medium numbers are those of package `protocol`. -/
theorem gen_constants_eq :
    Fdo.Gen.Rv.rvVars = [("RVDevOnly", rvDevOnly), ("RVOwnerOnly", rvOwnerOnly), ("RVIPAddress", rvIPAddress),
      ("RVDevPort", rvDevPort), ("RVOwnerPort", rvOwnerPort), ("RVDns", rvDns), ("RVSvCertHash", rvSvCertHash),
      ("RVClCertHash", rvClCertHash), ("RVUserInput", rvUserInput), ("RVWifiSsid", rvWifiSsid), ("RVWifiPw", rvWifiPw),
      ("RVMedium", rvMedium), ("RVProtocol", rvProtocol), ("RVDelaysec", rvDelaysec), ("RVBypass", rvBypass),
      ("RVExtRV", rvExtRV)] ∧
    Fdo.Gen.Rv.rvProtocols = [("RVProtRest", rvProtRest), ("RVProtHTTP", rvProtHTTP), ("RVProtHTTPS", rvProtHTTPS),
      ("RVProtTCP", rvProtTCP), ("RVProtTLS", rvProtTLS), ("RVProtCoapTCP", rvProtCoapTCP), ("RVProtCoapUDP", rvProtCoapUDP)] ∧
    Fdo.Gen.Rv.rvMedia = [("RVMedEthAll", rvMedEthAll), ("RVMedWifiAll", rvMedWifiAll)] := by decide

def portText : Option Nat → String
  | none => ""
  | some p => toString p

set_option maxRecDepth 20000 in
/-- The code's protocol → (scheme, default port) behaviour, obtained by running it on all 256
values in both views, is the specification's protocol table. -/
theorem gen_proto_table_eq :
    Fdo.Gen.Rv.protoTable = (List.range 256).map (fun p =>
      let s := (schemeOfProto p).getD defaultScheme
      (s.text, portText (defaultPort s))) ∧
    Fdo.Gen.Rv.protoTableOwner = Fdo.Gen.Rv.protoTable ∧
    Fdo.Gen.Rv.protoDefault = (defaultScheme.text, portText (defaultPort defaultScheme)) := by decide

set_option maxRecDepth 20000 in
/-- The code's medium → interface behaviour on all 256 values is the specification's medium table. -/
theorem gen_medium_table_eq :
    Fdo.Gen.Rv.mediumTable = (List.range 256).map (fun m =>
      ((mediumFor .eth m).getD 256, (mediumFor .wlan m).getD 256)) := by decide

/-- The code's role columns (which variable supplies the port, which marker drops the
directive, found by running it on all 16 variables) are the specification's. -/
theorem gen_role_columns_eq :
    Fdo.Gen.Rv.devPortVars = [(roleRow true).portVar] ∧ Fdo.Gen.Rv.devDropVars = [(roleRow true).otherOnlyVar] ∧
    Fdo.Gen.Rv.ownPortVars = [(roleRow false).portVar] ∧ Fdo.Gen.Rv.ownDropVars = [(roleRow false).otherOnlyVar] := by decide

/-! ### non-vacuity -/

/-- A five-instruction directive (https, DNS, IPv4, device port, delay) satisfies `clean`,
has distinct variables and yields two URLs with the device port. -/
example :
    let is : List RvInstr := [⟨12, [0x02]⟩, ⟨5, [0x63, 0x61, 0x2e, 0x62]⟩,
      ⟨2, [0x44, 192, 0, 2, 1]⟩, ⟨3, [0x19, 0x1f, 0x90]⟩, ⟨13, [0x0a]⟩]
    clean is = true ∧ (is.map (·.var)).Nodup ∧ NoEmptyExt is ∧
    parseDirective true is = .ok { Directive.zero with
      urls := [⟨.https, .dns [0x61, 0x2e, 0x62], some 8080⟩, ⟨.https, .ip [192, 0, 2, 1], some 8080⟩]
      delay := 10000000000 } := by decide

/-- The owner view of the same list ignores `RVDevPort` and falls back to 443. -/
example :
    parseURLs false [⟨12, [0x02]⟩, ⟨2, [0x44, 192, 0, 2, 1]⟩, ⟨3, [0x19, 0x1f, 0x90]⟩] =
      [⟨.https, .ip [192, 0, 2, 1], some 443⟩] := by decide

/-- A malformed instruction inside a clean list (hypotheses of `malformed_ignored_partial`). -/
example : clean ([⟨12, [0x01]⟩] ++ ⟨3, [0x61, 0x61]⟩ :: [⟨5, [0x61, 0x61]⟩]) = true ∧
    malformed ⟨3, [0x61, 0x61]⟩ = true := by decide

/-- A marked directive without empty `RVExtRV` (hypotheses of `other_role_contributes_nothing_partial`). -/
example : NoEmptyExt [⟨5, [0x61, 0x61]⟩, ⟨0, []⟩] ∧ ∃ i ∈ [(⟨5, [0x61, 0x61]⟩ : RvInstr), ⟨0, []⟩], i.var = (roleRow false).otherOnlyVar :=
  ⟨by decide, ⟨⟨0, []⟩, by simp, by decide⟩⟩

end Fdo.Props.C20
