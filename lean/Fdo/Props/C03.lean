import Fdo.Proto.Handover
import Fdo.Facts
/-
C03 — ownership handover leaves device credential and stored voucher in agreement.
-/
namespace Fdo.Props.C03
open Fdo Fdo.Proto

/-- TO2: when the device read the current voucher's header in 61 and the SetupDevice the owner
built from its session, the header the device MACs is field for field the header the owner
stores at Done. -/
theorem device_header_eq_owner_header (cur : Hdr) (s : OwnerSession) (ownerKey : Bytes) :
    deviceReplacementHdr cur (setupOf s ownerKey) = ownerReplacementHdr cur s ownerKey := rfl

/-- TO2 (no reuse): credential returned by the device and voucher stored by the owner agree,
for every header encoding, MAC and key hash function. -/
theorem to2_agreement (enc : Hdr → Bytes) (mac H : Bytes → Bytes) (cur : Hdr) (s : OwnerSession) (ownerKey : Bytes) :
    let devHdr := deviceReplacementHdr cur (setupOf s ownerKey)
    agrees enc mac H (credOf H devHdr) ⟨ownerReplacementHdr cur s ownerKey, mac (enc devHdr)⟩ := by
  simp [agrees, credOf, deviceReplacementHdr, ownerReplacementHdr, setupOf]

/-- DI: the manufacturer stores the header it sent together with the MAC the device computed over
the header it received; if decoding and re-encoding the header is the identity on its encoding
(`stable`, checked for every generated header by the C11 run), they agree. -/
theorem di_agreement (enc : Hdr → Bytes) (mac H : Bytes → Bytes) (sent received : Hdr)
    (stable : enc received = enc sent) (same : received.mfgKey = sent.mfgKey ∧ received.guid = sent.guid ∧
      received.rvInfo = sent.rvInfo ∧ received.devInfo = sent.devInfo ∧ received.version = sent.version) :
    agrees enc mac H (credOf H received) ⟨sent, mac (enc received)⟩ := by
  obtain ⟨h1, h2, h3, h4, h5⟩ := same
  simp [agrees, credOf, stable, h1, h2, h3, h4, h5]

/-- Atomicity: whatever requests arrive, as long as no Done was accepted the owner's stored
voucher is untouched (induction over the event list). -/
theorem store_untouched_before_done (store : Option Stored) (evs : List OwnerEvent)
    (h : ∀ e ∈ evs, ∃ t, e = .other t) : evs.foldl storeStep store = store := by
  induction evs generalizing store with
  | nil => rfl
  | cons e es ih =>
    obtain ⟨t, ht⟩ := h e (by simp)
    subst ht
    simp only [List.foldl, storeStep]
    exact ih store (fun e' he' => h e' (by simp [he']))

/-- Resale chain: agreement is what the next onboarding needs — the next owner's TO2 verifies
the header MAC with the device secret over the stored header and the manufacturer-key hash
against the credential. -/
theorem agreement_gives_next_verification (enc : Hdr → Bytes) (mac H : Bytes → Bytes) (c : Cred) (v : Stored)
    (h : agrees enc mac H c v) : mac (enc v.hdr) = v.mac ∧ H v.hdr.mfgKey = c.keyHash :=
  ⟨h.1.symm, h.2.1.symm⟩

/-- Non-vacuity. -/
example : agrees (fun h => h.guid ++ h.mfgKey) (fun b => b.reverse) (fun b => [UInt8.ofNat b.length])
    (credOf (fun b => [UInt8.ofNat b.length]) ⟨101, [1], [2], [3], [4, 4], none⟩)
    ⟨⟨101, [1], [2], [3], [4, 4], none⟩, [4, 4, 1]⟩ := by
  simp [agrees, credOf]


/-- **What the source does, in which order** (regenerated call-order facts of
`TO2Server.to2Done2` and `DIServer.diDone`): the replacement voucher is stored only after the
nonce comparison and after session GUID, current voucher, replacement rendezvous info and GUID
were read; the DI voucher only after the session's header and certificate chain were read. -/
theorem code_facts :
    Fdo.Facts.allBefore "TO2Server.to2Done2" ["Equal", "ReplacementHmac", "Voucher", "RvInfo", "ReplacementGUID", "ownerKey"] "ReplaceVoucher" = true ∧
    Fdo.Facts.allBefore "DIServer.diDone" ["IncompleteVoucherHeader", "DeviceCertChain"] "AddVoucher" = true ∧
    Fdo.Facts.before "DIServer.setCredentials" "RvInfo" "SetIncompleteVoucherHeader" = true := by decide +kernel

end Fdo.Props.C03
