import Fdo.Proto.Handover
import Fdo.Cbor.TypedProofs
import Fdo.Gen.Schemas
import Fdo.Proto.ServerProofs
import Fdo.Facts
import Fdo.Store
import Fdo.StoreProofs
/-
C03 — ownership handover leaves device credential and stored voucher in agreement.
-/
namespace Fdo.Props.C03
open Fdo Fdo.Proto

/-- TO2: when the device read the current voucher's header in 61 and the SetupDevice the owner
built from its session, the header the device MACs is field for field the header the owner
stores at Done. -/
theorem device_header_eq_owner_header (cur : Hdr) (s : OwnerSession) (ownerKey : Bytes) :
    deviceReplacementHdr cur (setupOf s ownerKey) = ownerReplacementHdr cur s ownerKey := rfl

/-- TO2 (no reuse): credential returned by the device and voucher stored by the owner agree,
for every header encoding, MAC and key hash function. -/
theorem to2_agreement (enc : Hdr → Bytes) (mac H : Bytes → Bytes) (cur : Hdr) (s : OwnerSession) (ownerKey : Bytes) :
    let devHdr := deviceReplacementHdr cur (setupOf s ownerKey)
    agrees enc mac H (credOf H devHdr) ⟨ownerReplacementHdr cur s ownerKey, mac (enc devHdr)⟩ := by
  simp [agrees, credOf, deviceReplacementHdr, ownerReplacementHdr, setupOf]

/-- DI: the manufacturer stores the header it sent together with the MAC the device computed over
the header it received; if decoding and re-encoding the header is the identity on its encoding
(`stable`, checked for every generated header by the C11 run), they agree. -/
theorem di_agreement (enc : Hdr → Bytes) (mac H : Bytes → Bytes) (sent received : Hdr)
    (stable : enc received = enc sent) (same : received.mfgKey = sent.mfgKey ∧ received.guid = sent.guid ∧
      received.rvInfo = sent.rvInfo ∧ received.devInfo = sent.devInfo ∧ received.version = sent.version) :
    agrees enc mac H (credOf H received) ⟨sent, mac (enc received)⟩ := by
  obtain ⟨h1, h2, h3, h4, h5⟩ := same
  simp [agrees, credOf, stable, h1, h2, h3, h4, h5]

/-- Atomicity: whatever requests arrive, as long as no Done was accepted the owner's stored
voucher is untouched (induction over the event list). -/
theorem store_untouched_before_done (store : Option Stored) (evs : List OwnerEvent)
    (h : ∀ e ∈ evs, ∃ t, e = .other t) : evs.foldl storeStep store = store := by
  induction evs generalizing store with
  | nil => rfl
  | cons e es ih =>
    obtain ⟨t, ht⟩ := h e (by simp)
    subst ht
    simp only [List.foldl, storeStep]
    exact ih store (fun e' he' => h e' (by simp [he']))

/-- Resale chain: agreement is what the next onboarding needs — the next owner's TO2 verifies
the header MAC with the device secret over the stored header and the manufacturer-key hash
against the credential. -/
theorem agreement_gives_next_verification (enc : Hdr → Bytes) (mac H : Bytes → Bytes) (c : Cred) (v : Stored)
    (h : agrees enc mac H c v) : mac (enc v.hdr) = v.mac ∧ H v.hdr.mfgKey = c.keyHash :=
  ⟨h.1.symm, h.2.1.symm⟩

/-- Non-vacuity. -/
example : agrees (fun h => h.guid ++ h.mfgKey) (fun b => b.reverse) (fun b => [UInt8.ofNat b.length])
    (credOf (fun b => [UInt8.ofNat b.length]) ⟨101, [1], [2], [3], [4, 4], none⟩)
    ⟨⟨101, [1], [2], [3], [4, 4], none⟩, [4, 4, 1]⟩ := by
  simp [agrees, credOf]


/-- **What the source does, in which order** (regenerated call-order facts of
`TO2Server.to2Done2` and `DIServer.diDone`): the replacement voucher is stored only after the
nonce comparison and after session GUID, current voucher, replacement rendezvous info and GUID
were read; the DI voucher only after the session's header and certificate chain were read. -/
theorem code_facts :
    Fdo.Facts.allBefore "TO2Server.to2Done2" ["Equal", "ReplacementHmac", "Voucher", "RvInfo", "ReplacementGUID", "ownerKey"] "ReplaceVoucher" = true ∧
    Fdo.Facts.allBefore "DIServer.diDone" ["IncompleteVoucherHeader", "DeviceCertChain"] "AddVoucher" = true ∧
    Fdo.Facts.before "DIServer.setCredentials" "RvInfo" "SetIncompleteVoucherHeader" = true ∧
    -- sqlite ReplaceVoucher: insert, then delete; a second delete (the roll-back) under a context made from Background
    Fdo.Facts.before "DB.ReplaceVoucher" "AddVoucher" "remove" = true ∧
    Fdo.Facts.atLeast "DB.ReplaceVoucher" "remove" 2 = true ∧
    Fdo.Facts.before "DB.ReplaceVoucher" "AddVoucher" "Background" = true := by decide +kernel

open Fdo.Proto.Server in
/-- **The owner's voucher store is untouched before Done is accepted** (request-level server
model, any history of requests of any sessions, any next request): the store changes only in a step
whose request is TO2.Done and whose answer is Done2 — never in a step that is cut, refused or
answered by an error. -/
theorem owner_store_changes_only_at_accepted_done (v : List Nat) (reuse : Bool) (m : Nat) (history : List Req) (r : Req) :
    let st := stateAfter (init v reuse m) history
    (step st r).1.vouchers ≠ st.vouchers → r.typ = 70 ∧ (step st r).2.1 = 71 := by
  intro st hne
  have hinv : Inv st := stateAfter_inv (init_inv v reuse m) history
  have sp := step_spec st r
  generalize step st r = res at sp hne
  cases sp with
  | errMsg _ => exact absurd rfl hne
  | unknown _ _ => exact absurd rfl hne
  | startOk p s' resp eff _ _ hst hh =>
    have := handle_start_no_effects hst hh
    subst this
    exact absurd rfl hne
  | startErr _ _ _ _ _ => exact absurd rfl hne
  | served p k s s' resp eff _ _ _ _ hs _ _ hh =>
    have hresp := handle_resp hh
    by_cases hrep : ∃ e ∈ eff, ∃ k' d, e = Effect.replaceVoucher k' d
    · obtain ⟨e, he, k', d, rfl⟩ := hrep
      have hn := handle_effects (hinv k s hs) hh _ he
      have h70 : r.typ = 70 := hn.2.1
      exact ⟨h70, by simp only; omega⟩
    · exfalso
      apply hne
      exact applyEffs_vouchers_same _ eff (fun e he k' d heq => hrep ⟨e, he, k', d, heq⟩)
  | rejected _ _ _ _ _ _ _ _ _ _ => exact absurd rfl hne
  | noSession _ _ _ _ _ => exact absurd rfl hne


/-! ### the SQLite owner store: a voucher replacement interrupted between its two statements -/

open Fdo.Store in
/-- **A replacement that does not succeed leaves the voucher store as it was, wherever the request's
context ends** (`DB.ReplaceVoucher` = INSERT the replacement, DELETE the old voucher, with a best-effort
removal of the replacement under a context of its own when the DELETE fails): for every cut point,
either the call reports success and the store holds the replacement in place of the old voucher, or it
reports an error and every voucher lookup answers as before. -/
theorem replace_interrupted_leaves_store (s : Store) (g g' : Guid) (ext : Bool) (v : Bytes) (c : Cut) :
    let r := replaceVoucherCut s g g' ext v c
    (r.2 = .ok → r.1.vouchers g' = some v ∧ r.1.vouchers g = none) ∧
    (r.2 ≠ .ok → ∀ k, r.1.vouchers k = s.vouchers k) := by
  cases c with
  | none =>
    simp only [replaceVoucherCut]
    have hst := Fdo.Store.replaceVoucher_state s g g' ext v
    have hiff := Fdo.Store.replaceVoucher_ok_iff s g g' ext v
    constructor
    · intro hok
      rw [hst, if_pos hok]
      have hne := (hiff.mp hok).2.1
      simp only
      refine ⟨?_, by simp⟩
      rw [upd_other _ _ _ _ (fun h => hne h.symm)]; simp
    · intro hne k
      rw [hst, if_neg hne]
  | beforeInsert => simp [replaceVoucherCut]
  | afterInsert =>
    simp only [replaceVoucherCut]
    split
    · simp
    · rename_i hc
      simp only [not_or] at hc
      refine ⟨by simp, ?_⟩
      intro _ k
      simp only
      by_cases hk : k = g'
      · subst hk
        have : s.vouchers k = none := by
          cases h : s.vouchers k with
          | none => rfl
          | some x => exact absurd (by simp [h]) hc.2.2
        simp [this]
      · rw [upd_other _ _ _ _ hk, upd_other _ _ _ _ hk]

open Fdo.Store in
/-- the behaviour a lost roll-back would have (seed C03-9): an error, and a second voucher in the store -/
theorem replace_without_rollback_leaves_orphan :
    let s : Store := { Store.empty with vouchers := upd Store.empty.vouchers [1] (some [7]) }
    let r := replaceVoucherCutNoRollback s [1] [2] false [8] .afterInsert
    r.2 = .error ∧ r.1.vouchers [2] = some [8] ∧ r.1.vouchers [1] = some [7] := by decide

/-- **The credential survives its blob encoding**: a device credential written to its CBOR blob and read
back is the same credential (version, device info, GUID, rendezvous info, key hash), and likewise the
voucher header the HMAC is computed over — so agreement established at handover still holds after the
device restarts from its stored credential. -/
theorem credential_blob_roundtrip (ok : Fdo.Cbor.CertOracle) (v : Fdo.Cbor.Val) (b : Bytes)
    (hl : b.length < 18446744073709551616) :
    (Fdo.Cbor.marshalS Fdo.Gen.Schemas.s_DeviceCredential v = some b →
      Fdo.Cbor.conf ok 10000 Fdo.Cbor.maxDepth Fdo.Gen.Schemas.s_DeviceCredential v = true →
      Fdo.Cbor.unmarshalS ok Fdo.Gen.Schemas.s_DeviceCredential b = some v) ∧
    (Fdo.Cbor.marshalS Fdo.Gen.Schemas.s_VoucherHeader v = some b →
      Fdo.Cbor.conf ok 10000 Fdo.Cbor.maxDepth Fdo.Gen.Schemas.s_VoucherHeader v = true →
      Fdo.Cbor.unmarshalS ok Fdo.Gen.Schemas.s_VoucherHeader b = some v) :=
  ⟨fun hm hc => Fdo.Cbor.unmarshalS_marshalS ok _ v b (by decide +kernel) (by decide +kernel) hm hc hl,
   fun hm hc => Fdo.Cbor.unmarshalS_marshalS ok _ v b (by decide +kernel) (by decide +kernel) hm hc hl⟩

end Fdo.Props.C03
