import Fdo.Proto.Voucher
import Fdo.Facts
/-
C04 — Ownership vouchers verify iff untampered; only the current owner can extend.
`H` (hash), `sigOK` (COSE signature of an entry verifies under a key) and `keyOK` (a key
structure parses) are universally quantified: the theorems hold for every hash and signature
scheme; that a forger cannot make `sigOK` true or find collisions of `H` is the cryptographic
assumption.
-/
namespace Fdo.Props.C04
open Fdo Fdo.Cbor Fdo.Cose Fdo.Proto

/-- key that must have signed entry `i` of a chain starting under key `k` -/
def keyAt (k : Bytes) (es : List EntryView) (i : Nat) : Bytes :=
  match i with
  | 0 => k
  | j+1 => match es[j]? with | some e => e.pubKey | none => []

/-- bytes whose hash entry `i` must carry -/
def prevAt (p : Bytes) (es : List EntryView) (i : Nat) : Bytes :=
  match i with
  | 0 => p
  | j+1 => match es[j]? with | some e => e.tagBytes | none => []

/-- Link-by-link specification of a valid entry chain. -/
def ChainOK (H : Bytes → Bytes) (sigOK : Bytes → EntryView → Bool) (keyOK : Bytes → Bool)
    (alg : Int) (infoHash : Bytes) (k p : Bytes) (es : List EntryView) : Prop :=
  ∀ i e, es[i]? = some e →
    sigOK (keyAt k es i) e = true ∧ e.hdrAlg = alg ∧ e.hdrHash = infoHash ∧
    e.prevHash = H (prevAt p es i) ∧ (i + 1 < es.length → keyOK e.pubKey = true)

theorem walk_iff (H : Bytes → Bytes) (sigOK : Bytes → EntryView → Bool) (keyOK : Bytes → Bool)
    (alg : Int) (infoHash : Bytes) (k p : Bytes) (es : List EntryView) :
    walk H sigOK keyOK alg infoHash k p es = true ↔ ChainOK H sigOK keyOK alg infoHash k p es := by
  induction es generalizing k p with
  | nil => simp [walk, ChainOK]
  | cons e rest ih =>
    constructor
    · intro h
      unfold walk at h
      simp only [Bool.and_eq_true, decide_eq_true_eq] at h
      obtain ⟨⟨⟨⟨h1, h2⟩, h3⟩, h4⟩, h5⟩ := h
      intro i x hx
      cases i with
      | zero =>
        simp at hx; subst hx
        refine ⟨by simpa [keyAt] using h1, h2, h3, by simpa [prevAt] using h4, ?_⟩
        intro hlen
        cases rest with
        | nil => simp at hlen
        | cons r rs => simp at h5; exact h5.1
      | succ j =>
        simp at hx
        cases rest with
        | nil => simp at hx
        | cons r rs =>
          simp at h5
          have := (ih e.pubKey e.tagBytes).mp h5.2 j x hx
          obtain ⟨a, b, c, d, f⟩ := this
          refine ⟨?_, b, c, ?_, ?_⟩
          · cases j with
            | zero => simpa [keyAt] using a
            | succ m => simpa [keyAt] using a
          · cases j with
            | zero => simpa [prevAt] using d
            | succ m => simpa [prevAt] using d
          · intro hl; apply f; simp at hl ⊢; omega
    · intro h
      unfold walk
      have h0 := h 0 e (by simp)
      obtain ⟨a, b, c, d, f⟩ := h0
      simp only [Bool.and_eq_true, decide_eq_true_eq]
      refine ⟨⟨⟨⟨by simpa [keyAt] using a, b⟩, c⟩, by simpa [prevAt] using d⟩, ?_⟩
      cases rest with
      | nil => rfl
      | cons r rs =>
        simp
        refine ⟨f (by simp), ?_⟩
        apply (ih e.pubKey e.tagBytes).mpr
        intro j x hx
        have := h (j+1) x (by simpa using hx)
        obtain ⟨a', b', c', d', f'⟩ := this
        refine ⟨?_, b', c', ?_, ?_⟩
        · cases j with
          | zero => simpa [keyAt] using a'
          | succ m => simpa [keyAt] using a'
        · cases j with
          | zero => simpa [prevAt] using d'
          | succ m => simpa [prevAt] using d'
        · intro hl; apply f'; simp at hl ⊢; omega


/-- `VerifyEntries` accepts exactly the vouchers whose manufacturer key parses and whose entries
form a chain in the sense of `ChainOK`, starting under the manufacturer key with the hash of
header ‖ HMAC, all under the hash algorithm of the first entry (soundness and completeness of
the recursive walk: no entry skipped, no off-by-one in keys or hashes). -/
theorem verifyEntries_iff (sha256 sha384 : Bytes → Bytes) (sigOK : Bytes → EntryView → Bool)
    (keyOK : Bytes → Bool) (v : VoucherView) :
    verifyEntries sha256 sha384 sigOK keyOK v = true ↔
      keyOK v.mfgKey = true ∧
      (v.entries = [] ∨ ∃ e0 rest H, v.entries = e0 :: rest ∧ hashOf sha256 sha384 e0.prevAlg = some H ∧
        ChainOK H sigOK keyOK e0.prevAlg (H (v.guid ++ v.devInfo)) v.mfgKey (v.hdrBytes ++ v.hmacBytes) v.entries) := by
  unfold verifyEntries
  cases he : v.entries with
  | nil => simp
  | cons e0 rest =>
    simp only [Bool.and_eq_true]
    cases hh : hashOf sha256 sha384 e0.prevAlg with
    | none => simp [hh]
    | some H =>
      simp only
      rw [walk_iff]
      constructor
      · rintro ⟨a, b⟩; exact ⟨a, Or.inr ⟨e0, rest, H, rfl, hh, b⟩⟩
      · rintro ⟨a, b⟩
        refine ⟨a, ?_⟩
        rcases b with b | ⟨e0', rest', H', heq, hh', hc⟩
        · simp at b
        · simp at heq
          obtain ⟨h1, h2⟩ := heq
          subst h1 h2
          rw [hh] at hh'; simp at hh'; subst hh'; exact hc

/-- The owner a voucher reports is the key under which the *next* entry would have to be signed:
the key of the last entry, or the manufacturer key for a voucher that was never extended. -/
theorem ownerKey_is_last (v : VoucherView) :
    ownerKey v = keyAt v.mfgKey v.entries v.entries.length := by
  unfold ownerKey
  cases h : v.entries.getLast? with
  | none =>
    have : v.entries = [] := by simpa using h
    simp [this, keyAt]
  | some e =>
    have hne : v.entries ≠ [] := by intro hh; simp [hh] at h
    have hlen : 0 < v.entries.length := List.length_pos_iff.mpr hne
    obtain ⟨n, hn⟩ : ∃ n, v.entries.length = n + 1 := ⟨v.entries.length - 1, by omega⟩
    rw [hn]
    simp only [keyAt]
    have : v.entries[n]? = some e := by
      rw [List.getLast?_eq_getElem?] at h
      rw [hn] at h; simpa using h
    rw [this]

/-- Extending a valid chain with an entry signed by the current owner over the right hashes
gives a valid chain (so a voucher created by DI and extended any number of times verifies:
induction over the extensions). -/
theorem extend_preserves (H : Bytes → Bytes) (sigOK : Bytes → EntryView → Bool) (keyOK : Bytes → Bool)
    (alg : Int) (infoHash k p : Bytes) (es : List EntryView) (e' : EntryView)
    (hok : ChainOK H sigOK keyOK alg infoHash k p es)
    (hsig : sigOK (keyAt k es es.length) e' = true) (halg : e'.hdrAlg = alg) (hh : e'.hdrHash = infoHash)
    (hp : e'.prevHash = H (prevAt p es es.length))
    (hkey : ∀ e, es.getLast? = some e → keyOK e.pubKey = true) :
    ChainOK H sigOK keyOK alg infoHash k p (es ++ [e']) := by
  intro i x hx
  by_cases hi : i < es.length
  · have hx' : es[i]? = some x := by rw [List.getElem?_append_left hi] at hx; exact hx
    obtain ⟨a, b, c, d, f⟩ := hok i x hx'
    have hk : keyAt k (es ++ [e']) i = keyAt k es i := by
      cases i with
      | zero => rfl
      | succ j => simp only [keyAt]; rw [List.getElem?_append_left (by omega)]
    have hpv : prevAt p (es ++ [e']) i = prevAt p es i := by
      cases i with
      | zero => rfl
      | succ j => simp only [prevAt]; rw [List.getElem?_append_left (by omega)]
    refine ⟨by rw [hk]; exact a, b, c, by rw [hpv]; exact d, ?_⟩
    intro hl
    by_cases hlast : i + 1 < es.length
    · exact f hlast
    · apply hkey
      have : i = es.length - 1 := by omega
      rw [List.getLast?_eq_getElem?, ← this]; exact hx'
  · have hlen : i = es.length := by
      have := List.getElem?_eq_some_iff.mp hx
      obtain ⟨hlt, _⟩ := this
      simp at hlt; omega
    subst hlen
    have hxe : x = e' := by
      rw [List.getElem?_append_right (Nat.le_refl _)] at hx
      simp at hx; exact hx.symm
    subst hxe
    have hk : keyAt k (es ++ [x]) es.length = keyAt k es es.length := by
      cases hl : es.length with
      | zero => rfl
      | succ j => simp only [keyAt]; rw [List.getElem?_append_left (by omega)]
    have hpv : prevAt p (es ++ [x]) es.length = prevAt p es es.length := by
      cases hl : es.length with
      | zero => rfl
      | succ j => simp only [prevAt]; rw [List.getElem?_append_left (by omega)]
    refine ⟨by rw [hk]; exact hsig, halg, hh, by rw [hpv]; exact hp, ?_⟩
    intro hl; simp at hl

/-- Tamper evidence, header: two vouchers that both verify and share their first entry have
header ‖ HMAC with the same hash — changing any header field or the header MAC while keeping
the entries requires a collision of `H`. -/
theorem header_bound_by_first_entry (H : Bytes → Bytes) (sigOK : Bytes → EntryView → Bool) (keyOK : Bytes → Bool)
    (alg alg' : Int) (ih ih' k k' p p' : Bytes) (e : EntryView) (rest rest' : List EntryView)
    (h1 : ChainOK H sigOK keyOK alg ih k p (e :: rest)) (h2 : ChainOK H sigOK keyOK alg' ih' k' p' (e :: rest')) :
    H p = H p' := by
  have a := (h1 0 e (by simp)).2.2.2.1
  have b := (h2 0 e (by simp)).2.2.2.1
  simp [prevAt] at a b
  rw [← a, ← b]

/-- Tamper evidence, entries: in two verifying chains that agree on entry `i+1`, the tagged
encodings of entry `i` have the same hash — changing an entry's payload, protected header or
signature (all part of the tagged encoding), reordering or splicing entries requires a collision
of `H` or re-signing the following entry. -/
theorem entry_bound_by_next (H : Bytes → Bytes) (sigOK : Bytes → EntryView → Bool) (keyOK : Bytes → Bool)
    (alg alg' : Int) (ih ih' k k' p p' : Bytes) (es es' : List EntryView) (i : Nat) (a b n : EntryView)
    (h1 : ChainOK H sigOK keyOK alg ih k p es) (h2 : ChainOK H sigOK keyOK alg' ih' k' p' es')
    (ha : es[i]? = some a) (hb : es'[i]? = some b) (hn : es[i+1]? = some n) (hn' : es'[i+1]? = some n) :
    H a.tagBytes = H b.tagBytes := by
  have x := (h1 (i+1) n hn).2.2.2.1
  have y := (h2 (i+1) n hn').2.2.2.1
  simp [prevAt, ha] at x
  simp [prevAt, hb] at y
  rw [← x, ← y]

/-- The signer of entry `i+1` is bound to entry `i`: a verifying chain's entry `i+1` verifies
under exactly the key carried by entry `i` (only the current owner can extend). -/
theorem next_entry_signed_by_previous_key (H : Bytes → Bytes) (sigOK : Bytes → EntryView → Bool) (keyOK : Bytes → Bool)
    (alg : Int) (ih k p : Bytes) (es : List EntryView) (i : Nat) (a n : EntryView)
    (h : ChainOK H sigOK keyOK alg ih k p es) (ha : es[i]? = some a) (hn : es[i+1]? = some n) :
    sigOK a.pubKey n = true := by
  have x := (h (i+1) n hn).1
  simpa [keyAt, ha] using x

/-- Non-vacuity: a two-entry chain under a toy hash and signature oracle satisfies `ChainOK`. -/
example :
    let H : Bytes → Bytes := fun b => [UInt8.ofNat b.length]
    let e0 : EntryView := ⟨[], true, [1], -16, [2], -16, [9], [7], [], [5, 5]⟩
    let e1 : EntryView := ⟨[], true, [2], -16, [2], -16, [9], [8], [], [6]⟩
    walk H (fun _ _ => true) (fun _ => true) (-16) [9] [3] [0, 0] [e0, e1] = true := by
  decide

/-- **What the source does, in which order** (regenerated call-order facts of `ExtendVoucher`): the current
owner key is looked up and compared, and the next owner's key kind checked, before the new entry is signed;
the argument is cloned first. -/
theorem code_facts :
    Fdo.Facts.allBefore "ExtendVoucher" ["shallowClone", "OwnerPublicKey", "Equal", "sameKeyTypeAndSize"] "newSignedEntry" = true := by
  decide +kernel

end Fdo.Props.C04
