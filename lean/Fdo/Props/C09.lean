import Fdo.Gen.Kex
import Fdo.Kex.Spec
import Fdo.Facts
/-
C09 — every supported crypto configuration onboards; forbidden ones are refused.
The quantifier is a finite product, decided by executing the whole product (thorough tier of the
harness: 2352 tuples) against the expected outcome computed from the library's own validity
tables; the theorems here tie those regenerated tables to FDO 1.1 §3.6.5.
-/
namespace Fdo.Props.C09
open Fdo Fdo.Kex

/-- The table obtained by executing `kex.Suite.Valid` over every (suite, device signature
algorithm, owner key kind) agrees with the specification's rules on every ECDSA-device row. -/
theorem suiteValid_ec_eq_spec :
    (Fdo.Gen.Kex.suiteValid.all fun r =>
      !(r.2.1 == "ES256" || r.2.1 == "ES384") || (r.2.2.2 == specValidEc r.1 r.2.2.1)) = true := by decide +kernel

/-- For RSA device keys (not covered by the specification's table) the library accepts every
registered key exchange: this is the expected outcome the product run is checked against. -/
theorem suiteValid_rsa_device_unconstrained :
    (Fdo.Gen.Kex.suiteValid.all fun r =>
      !(r.2.1 == "RS256" || r.2.1 == "RS384" || r.2.1 == "PS256" || r.2.1 == "PS384") || r.2.2.2) = true := by decide +kernel

/-- The table is complete: 6 suites × 6 device algorithms × 4 owner key kinds. -/
theorem suiteValid_complete : Fdo.Gen.Kex.suiteValid.length = 144 := by decide +kernel

/-- Exactly the seven FDO cipher suites are available; the declared AES-CCM identifiers are not
registered, so requesting them is refused by both sides rather than negotiated. -/
theorem available_ciphers :
    Fdo.Gen.Kex.cipherSuites.map (·.id) = [-17760706, -17760705, -17760704, -17760703, 1, 2, 3] ∧
    (Fdo.Gen.Kex.declaredCipherIds.all fun d => d.2.2 == (Fdo.Gen.Kex.cipherSuites.map (·.id)).contains d.1) = true := by
  decide +kernel

/-- Exactly the six key exchanges are registered. -/
theorem registered_suites :
    Fdo.Gen.Kex.registeredSuites = ["ECDH256", "ECDH384", "DHKEXid14", "DHKEXid15", "ASYMKEX2048", "ASYMKEX3072"] := by
  decide

/-- **Both sides consult the same validity table before going on** (regenerated call-order facts): the owner's
`proveOVHdr` checks `Suite.Valid` and cipher availability before it creates and stores the key-exchange session
and signs its answer; the device's `verifyOwner` checks them after ProveOVHdr and before it fetches and verifies
the voucher — so a combination the table forbids is refused by whichever side sees it first, never replaced. -/
theorem code_facts :
    Fdo.Facts.allBefore "TO2Server.proveOVHdr" ["Valid", "Available"] "Parameter" = true ∧
    Fdo.Facts.allBefore "TO2Server.proveOVHdr" ["Valid", "Available"] "SetXSession" = true ∧
    Fdo.Facts.allBefore "TO2Server.proveOVHdr" ["Valid", "Available"] "Sign" = true ∧
    Fdo.Facts.allBefore "verifyOwner" ["sendHelloDevice", "Valid", "Available"] "verifyVoucher" = true := by decide +kernel

end Fdo.Props.C09
