import Fdo.StoreProofs
import Fdo.Cbor.TypedProofs
import Fdo.Gen.Schemas
/-
C18 — SQLite server state is a faithful, session-isolated store across restarts.

Model: Fdo/Store.lean (the abstract specification the sqlite backend is checked against by the
harness, op by op, on random histories with the database closed and reopened at random points);
helper lemmas: Fdo/StoreProofs.lean.

All theorems are over ARBITRARY histories (lists of operations of any length, any interleaving of
any number of sessions), any starting store `s`, and any MAC check `mac : Raw → Auth`.

Theorems about `Variant.repaired` describe the code after
  fix: sqlite: reject tokens shorter than a session ID instead of panicking
  fix: sqlite: setting a DI session value again replaces the stored value
  fix: sqlite: ReplaceVoucher rejects a replacement with the GUID it replaces
`Variant.original` is the tree as found; the `…_original` theorems at the end are concrete
histories on which it breaks the property (the harness shows the same on the unrepaired library).
`isolation`, `reopen_transparent` and `persistent_independent_of_sessions` hold for both.

Time: `getRVBlob g now` compares like the code, `time.Now().After(time.Unix(exp, 0))`: a blob is
gone once `now` is strictly after the stored expiry; `now` and `exp` are in the same unit.

Modelled, not verified (DESIGN §3): SQLite, the WASM driver, file-system durability (the harness
exercises Close/Open and fresh objects, not power loss), the strength of the HMAC (that a peer
cannot produce a string with `mac r = .valid t` for a `t` it was not given).
-/
namespace Fdo.Props.C18
open Fdo Fdo.Store

variable {Raw : Type}

/-! ### read your write -/

/-- READ YOUR WRITE, generic in the field `f`.  In any history of the shape

    h₀ ++ [NewToken t] ++ hm ++ [Set_f(r, v)] ++ h₂        (r authenticates t)

where `hm` neither re-issues nor invalidates `t` and `h₂` neither re-issues nor invalidates `t`
nor sets `f` of `t` again (everything else — other sessions, other fields of `t`, invalid tokens,
persistent operations, reopen — is allowed anywhere), the `Set` returned `ok` and a following
`Get_f` with any token string that authenticates `t` returns exactly `v`. -/
theorem read_your_write (mac : Raw → Auth) (s : Store) (h₀ hm h₂ : List (Op Raw))
    (t : Token) (p : Protocol) (f : Field) (v : Bytes) (r r' : Raw)
    (hr : mac r = .valid t) (hr' : mac r' = .valid t)
    (hkeep : ∀ op ∈ hm, op.keeps mac t)
    (hquiet : ∀ op ∈ h₂, op.quiet mac t f) :
    after .repaired mac s (h₀ ++ [.newToken t p] ++ hm) (.set r f v) = .ok ∧
    after .repaired mac s (h₀ ++ [.newToken t p] ++ hm ++ [.set r f v] ++ h₂) (.get r' f) = .value v := by
  -- the session is live when the Set arrives
  have hlive : ((exec .repaired mac s (h₀ ++ [.newToken t p] ++ hm)).tokens t).isSome = true := by
    rw [exec_append, keeps_exec_live mac t _ hm hkeep, exec_snoc]
    simp [step]
  generalize hgen : exec .repaired mac s (h₀ ++ [.newToken t p] ++ hm) = s₁ at hlive
  cases hs : s₁.tokens t with
  | none => simp [hs] at hlive
  | some pf =>
    obtain ⟨p', fs⟩ := pf
    have hset : step .repaired mac s₁ (.set r f v) =
        ({ s₁ with tokens := upd s₁.tokens t (some (p', upd fs f (some v))) }, .ok) := by
      simp [step, withSession, hr, setField_repaired, hs]
    refine ⟨by unfold after; rw [hgen, hset], ?_⟩
    have hfield : (exec .repaired mac s (h₀ ++ [.newToken t p] ++ hm ++ [.set r f v] ++ h₂)).field t f
        = some (some v) := by
      rw [exec_append, quiet_exec_field mac t f _ h₂ hquiet, exec_snoc, hgen, hset]
      simp [Store.field]
    unfold after
    simp only [step, withSession, hr', getField_eq, hfield, found]

/-- The one-step core of `read_your_write`: whatever the store, a `Set` that returned `ok`
followed by operations that leave the field alone is what `Get` returns. -/
theorem read_accepted_write (mac : Raw → Auth) (s : Store) (h₂ : List (Op Raw))
    (t : Token) (f : Field) (v : Bytes) (r r' : Raw)
    (hr : mac r = .valid t) (hr' : mac r' = .valid t)
    (hok : (step .repaired mac s (.set r f v)).2 = .ok)
    (hquiet : ∀ op ∈ h₂, op.quiet mac t f) :
    after .repaired mac s (.set r f v :: h₂) (.get r' f) = .value v := by
  cases hs : s.tokens t with
  | none => simp [step, withSession, hr, setField_repaired, hs] at hok
  | some pf =>
    obtain ⟨p', fs⟩ := pf
    have hset : step .repaired mac s (.set r f v) =
        ({ s with tokens := upd s.tokens t (some (p', upd fs f (some v))) }, .ok) := by
      simp [step, withSession, hr, setField_repaired, hs]
    have hfield : (exec .repaired mac s (.set r f v :: h₂)).field t f = some (some v) := by
      simp only [exec]
      rw [quiet_exec_field mac t f _ h₂ hquiet, hset]
      simp [Store.field]
    unfold after
    simp only [step, withSession, hr', getField_eq, hfield, found]

/-- … else `notFound`: a field never set since `NewToken t` reads as `notFound`. -/
theorem read_never_set (mac : Raw → Auth) (s : Store) (h₀ h₂ : List (Op Raw))
    (t : Token) (p : Protocol) (f : Field) (r' : Raw) (hr' : mac r' = .valid t)
    (hquiet : ∀ op ∈ h₂, op.quiet mac t f) :
    after .repaired mac s (h₀ ++ [.newToken t p] ++ h₂) (.get r' f) = .notFound := by
  have hfield : (exec .repaired mac s (h₀ ++ [.newToken t p] ++ h₂)).field t f = some none := by
    rw [exec_append, quiet_exec_field mac t f _ h₂ hquiet, exec_snoc]
    simp [step, Store.field]
  unfold after
  simp only [step, withSession, hr', getField_eq, hfield, found]

/-- A read never invents a value: whatever `Get_f` returns is `notFound`, `invalidSession`, or a
value — and it is `invalidSession` exactly when the MAC check rejects the token string. -/
theorem read_result_shape (mac : Raw → Auth) (s : Store) (r : Raw) (f : Field) :
    (mac r = .invalid ∨ mac r = .short) ∧ (step .repaired mac s (.get r f)).2 = .invalidSession ∨
    (∃ t, mac r = .valid t) ∧ ((step .repaired mac s (.get r f)).2 = .notFound ∨
      ∃ v, (step .repaired mac s (.get r f)).2 = .value v) := by
  cases ha : mac r with
  | invalid => left; simp [step, withSession, ha]
  | short => left; simp [step, withSession, ha]
  | valid t =>
    right
    refine ⟨⟨t, rfl⟩, ?_⟩
    simp only [step, withSession, ha, getField]
    cases s.tokens t with
    | none => left; rfl
    | some pf =>
      cases hf : pf.2 f with
      | none => left; simp [found, hf]
      | some v => right; exact ⟨v, by simp [found, hf]⟩

/-! ### isolation -/

/-- ISOLATION.  Delete from a history every session operation that does not address session `t`
(NewToken of another identifier; Invalidate/Set/Get with a token string that authenticates
another session or none): every remaining operation — all operations of `t` and all persistent
operations — returns exactly what it returned in the full history.  So no interleaving of other
sessions changes any result for `t`.  Holds for the tree as found too. -/
theorem isolation (V : Variant) (mac : Raw → Auth) (s : Store) (t : Token) (h : List (Op Raw)) :
    (trace V mac s h).filter (fun p => !p.1.foreignTo mac t) =
      trace V mac s (h.filter (fun op => !op.foreignTo mac t)) :=
  (trace_filter_sim V mac (AgreeOn t) (Op.foreignTo mac t)
    (fun s _ op hr hd => (foreign_frame V mac t s op hd).trans hr)
    (fun s s' op hr hd => own_congr V mac t s s' op hd hr) h s s (AgreeOn.refl t s)).1

/-- The same for one more operation of `t` (or a persistent one) issued after the history. -/
theorem isolation_next (V : Variant) (mac : Raw → Auth) (s : Store) (t : Token) (h : List (Op Raw))
    (op : Op Raw) (hop : op.foreignTo mac t = false) :
    after V mac s h op = after V mac s (h.filter (fun op => !op.foreignTo mac t)) op :=
  (own_congr V mac t _ _ op hop
    (trace_filter_sim V mac (AgreeOn t) (Op.foreignTo mac t)
      (fun s _ op hr hd => (foreign_frame V mac t s op hd).trans hr)
      (fun s s' op hr hd => own_congr V mac t s s' op hd hr) h s s (AgreeOn.refl t s)).2).1

/-- One step: an operation on another session leaves `t`'s fields and everything persistent
untouched. -/
theorem isolation_step (V : Variant) (mac : Raw → Auth) (s : Store) (t : Token) (op : Op Raw)
    (hop : op.foreignTo mac t = true) :
    (step V mac s op).1.tokens t = s.tokens t ∧ (step V mac s op).1.vouchers = s.vouchers ∧
    (step V mac s op).1.rvBlobs = s.rvBlobs :=
  let h := foreign_frame V mac t s op hop
  ⟨h.tok, h.vou, h.rvb⟩

/-! ### tokens that grant nothing -/

/-- A token string the MAC check rejects (damaged, truncated, from another database, not
base64, shorter than a session ID, absent): every accessor answers `invalidSession`,
InvalidateToken answers `notFound`, and the store does not change. -/
theorem unissued_or_invalid_token_grants_nothing (mac : Raw → Auth) (s : Store) (r : Raw)
    (hr : ∀ t, mac r ≠ .valid t) (op : Op Raw) (hop : op.raw = some r) :
    (step .repaired mac s op).1 = s ∧ (step .repaired mac s op).2.grantsNothing := by
  have hm : mac r = .invalid ∨ mac r = .short := by
    cases ha : mac r with
    | valid t => exact absurd ha (hr t)
    | invalid => exact Or.inl rfl
    | short => exact Or.inr rfl
  cases op with
  | invalidate r' | set r' _ _ | get r' _ | selfInfo r' =>
    have : r' = r := by simpa [Op.raw] using hop
    subst this
    rcases hm with hm | hm <;> simp [step, withSession, hm, Result.grantsNothing]
  | newToken | addVoucher | getVoucher | replaceVoucher | removeVoucher | setRVBlob | getRVBlob
  | addOwnerKey | ownerKey | addMfgKey | mfgKey | reopen => simp [Op.raw] at hop

/-- A token string whose MAC verifies but whose session does not exist (never issued by this
store, or invalidated): reads answer `notFound`, writes answer `error`, and nothing —
InvalidateToken and SetDeviceSelfInfo included — changes the store. -/
theorem dead_session_grants_nothing (mac : Raw → Auth) (s : Store) (r : Raw) (t : Token)
    (hr : mac r = .valid t) (hd : s.tokens t = none) (op : Op Raw) (hop : op.raw = some r) :
    (step .repaired mac s op).1 = s ∧
    (∀ f, op = .get r f → (step .repaired mac s op).2 = .notFound) ∧
    (∀ f v, op = .set r f v → (step .repaired mac s op).2 = .error) ∧
    (∀ v, (step .repaired mac s op).2 ≠ .value v) := by
  cases op with
  | invalidate r' =>
    have : r' = r := by simpa [Op.raw] using hop
    subst this
    refine ⟨?_, by simp, by simp, by simp [step, withSession, hr]⟩
    simp only [step, withSession, hr]
    exact store_eta s _ (upd_eq_self s.tokens t none hd)
  | set r' f v =>
    have : r' = r := by simpa [Op.raw] using hop
    subst this
    simp [step, withSession, hr, setField_repaired, hd]
  | get r' f =>
    have : r' = r := by simpa [Op.raw] using hop
    subst this
    simp [step, withSession, hr, getField, hd]
  | selfInfo r' =>
    have : r' = r := by simpa [Op.raw] using hop
    subst this
    simp [step, withSession, hr]
  | newToken | addVoucher | getVoucher | replaceVoucher | removeVoucher | setRVBlob | getRVBlob
  | addOwnerKey | ownerKey | addMfgKey | mfgKey | reopen => simp [Op.raw] at hop

/-- After `InvalidateToken`, and until the store draws the same identifier again, the session
does not exist — whatever else happens in between, reopen included. -/
theorem invalidated_stays_dead (mac : Raw → Auth) (s : Store) (h₁ h₂ : List (Op Raw)) (r : Raw)
    (t : Token) (hr : mac r = .valid t) (hn : ∀ op ∈ h₂, op.noIssue t) :
    (exec .repaired mac s (h₁ ++ [.invalidate r] ++ h₂)).tokens t = none := by
  rw [exec_append]
  apply noIssue_exec_dead mac t _ h₂ hn
  rw [exec_snoc]
  simp [step, withSession, hr]

/-- A session identifier the store never drew does not exist. -/
theorem never_issued_is_dead (mac : Raw → Auth) (h : List (Op Raw)) (t : Token)
    (hn : ∀ op ∈ h, op.noIssue t) : (exec .repaired mac Store.empty h).tokens t = none :=
  noIssue_exec_dead mac t _ h hn rfl

/-- Put together: once invalidated, a token reads `notFound` for every field, in every later
history that does not draw the identifier again. -/
theorem invalidated_token_reads_nothing (mac : Raw → Auth) (s : Store) (h₁ h₂ : List (Op Raw))
    (r r' : Raw) (t : Token) (f : Field) (hr : mac r = .valid t) (hr' : mac r' = .valid t)
    (hn : ∀ op ∈ h₂, op.noIssue t) :
    after .repaired mac s (h₁ ++ [.invalidate r] ++ h₂) (.get r' f) = .notFound :=
  (dead_session_grants_nothing mac _ r' t hr' (invalidated_stays_dead mac s h₁ h₂ r t hr hn)
    (.get r' f) rfl).2.1 f rfl

/-! ### rendezvous blob expiry -/

/-- EXPIRY.  After `SetRVBlob g … exp` and any later history that does not register `g` again,
`RVBlob g` at a time after `exp` is `notFound`, and at any time up to `exp` it is exactly the
blob and voucher that were stored. -/
theorem expired_blob_not_found (V : Variant) (mac : Raw → Auth) (s : Store) (h₁ h₂ : List (Op Raw))
    (g : Guid) (b v : Bytes) (exp now : Nat) (hk : ∀ op ∈ h₂, op.keepsBlob g) :
    (exp < now → after V mac s (h₁ ++ [.setRVBlob g b v exp] ++ h₂) (.getRVBlob g now) = .notFound) ∧
    (now ≤ exp → after V mac s (h₁ ++ [.setRVBlob g b v exp] ++ h₂) (.getRVBlob g now) = .pair b v) := by
  have hb : (exec V mac s (h₁ ++ [.setRVBlob g b v exp] ++ h₂)).rvBlobs g = some (b, v, exp) := by
    rw [exec_append, keepsBlob_exec V mac g _ h₂ hk, exec_snoc]
    simp [step]
  constructor
  · intro hlt; unfold after; simp only [step, hb, hlt, if_true]
  · intro hle; unfold after; simp only [step, hb, Nat.not_lt.mpr hle, if_false]

/-- Whatever is stored: a blob whose expiry has passed is never returned. -/
theorem expired_blob_not_found_step (V : Variant) (mac : Raw → Auth) (s : Store) (g : Guid) (now : Nat)
    (hexp : ∀ b v exp, s.rvBlobs g = some (b, v, exp) → exp < now) :
    (step V mac s (.getRVBlob g now)).2 = .notFound := by
  simp only [step]
  cases hg : s.rvBlobs g with
  | none => rfl
  | some e =>
    obtain ⟨b, v, exp⟩ := e
    simp [hexp b v exp hg]

/-! ### voucher replacement -/

/-- REPLACE.  If `ReplaceVoucher g v'` returns `ok` (which it does exactly when `v'` has no
extensions, its GUID `g'` differs from `g` and is not stored, and `g` is stored), then afterwards
`Voucher g'` is `v'`, `Voucher g` is `notFound`, and every other voucher is as before; in every
other case the store is unchanged. -/
theorem replace_voucher (mac : Raw → Auth) (s : Store) (g g' : Guid) (ext : Bool) (v' : Bytes) :
    let s' := (step .repaired mac s (.replaceVoucher g g' ext v')).1
    let res := (step .repaired mac s (.replaceVoucher g g' ext v')).2
    (res = .ok ↔ ext = false ∧ g ≠ g' ∧ s.vouchers g' = none ∧ (s.vouchers g).isSome = true) ∧
    (res = .ok →
      (step .repaired mac s' (.getVoucher g')).2 = .value v' ∧
      (step .repaired mac s' (.getVoucher g)).2 = .notFound ∧
      ∀ g'', g'' ≠ g → g'' ≠ g' → s'.vouchers g'' = s.vouchers g'') ∧
    (res ≠ .ok → s' = s) := by
  intro s' res
  have hiff := replaceVoucher_ok_iff s g g' ext v'
  have hst := replaceVoucher_state s g g' ext v'
  refine ⟨hiff, ?_, ?_⟩
  · intro hok
    have hne : g ≠ g' := (hiff.mp hok).2.1
    have hs' : s' = { s with vouchers := upd (upd s.vouchers g' (some v')) g none } := by
      show (replaceVoucher .repaired s g g' ext v').1 = _
      rw [hst]; simp [show (replaceVoucher .repaired s g g' ext v').2 = .ok from hok]
    refine ⟨?_, ?_, ?_⟩
    · simp [step, hs', upd, Ne.symm hne, found]
    · simp [step, hs', upd, found]
    · intro g'' h1 h2; simp [hs', upd, h1, h2]
  · intro hno
    show (replaceVoucher .repaired s g g' ext v').1 = s
    rw [hst]; simp [show (replaceVoucher .repaired s g g' ext v').2 ≠ .ok from hno]

/-- Vouchers are read back as stored: after an `AddVoucher g v` that returned `ok`, and any later
history that neither removes `g` nor replaces it (nor replaces another voucher by one with GUID
`g`) — sessions coming and going, reopen, a refused second `AddVoucher g` — `Voucher g` is `v`. -/
theorem voucher_read_your_write (V : Variant) (mac : Raw → Auth) (s : Store) (h₁ h₂ : List (Op Raw))
    (g : Guid) (v : Bytes)
    (hok : after V mac s h₁ (.addVoucher g v) = .ok)
    (hk : ∀ op ∈ h₂, op.keepsVoucher g) :
    after V mac s (h₁ ++ [.addVoucher g v] ++ h₂) (.getVoucher g) = .value v := by
  have hadd : (step V mac (exec V mac s h₁) (.addVoucher g v)).1.vouchers g = some v := by
    unfold after at hok
    simp only [step] at hok ⊢
    cases hg : (exec V mac s h₁).vouchers g with
    | some x => simp [hg] at hok
    | none => simp
  have hv : (exec V mac s (h₁ ++ [.addVoucher g v] ++ h₂)).vouchers g = some v := by
    rw [exec_append]
    apply keepsVoucher_exec V mac g v _ h₂ hk
    rw [exec_snoc]; exact hadd
  unfold after
  simp only [step, hv, found]

/-! ### restarts -/

/-- REOPEN is invisible, one step: the abstract state after Close + Open (or with a fresh DB
object) is the state before, so every operation behaves as if nothing had happened. -/
theorem reopen_transparent (V : Variant) (mac : Raw → Auth) (s : Store) (op : Op Raw) :
    step V mac (step V mac s .reopen).1 op = step V mac s op := rfl

/-- REOPEN is invisible, histories: insert `reopen` anywhere, any number of times, into a
history (equivalently: delete all of them) — every other operation returns what it returned
before and the final store is the same.  This is what lets an onboarding continue on another
server instance between any two messages. -/
theorem reopen_transparent_history (V : Variant) (mac : Raw → Auth) (s : Store) (h : List (Op Raw)) :
    (trace V mac s h).filter (fun p => !p.1.isReopen) =
      trace V mac s (h.filter (fun op => !op.isReopen)) ∧
    exec V mac s h = exec V mac s (h.filter (fun op => !op.isReopen)) :=
  trace_filter_sim V mac (· = ·) Op.isReopen
    (fun s s' op hr hd => by
      cases op with
      | reopen => exact hr
      | _ => simp [Op.isReopen] at hd)
    (fun s s' op hr _ => by subst hr; exact ⟨rfl, rfl⟩) h s s rfl

/-! ### persistent state does not depend on sessions -/

/-- One step: no session operation — NewToken, InvalidateToken (with its ON DELETE CASCADE),
any Set/Get — touches vouchers, rendezvous blobs or keys. -/
theorem persistent_independent_of_sessions (V : Variant) (mac : Raw → Auth) (s : Store) (op : Op Raw)
    (hop : op.isSession = true) :
    (step V mac s op).1.vouchers = s.vouchers ∧ (step V mac s op).1.rvBlobs = s.rvBlobs ∧
    (step V mac s op).1.ownerKeys = s.ownerKeys ∧ (step V mac s op).1.mfgKeys = s.mfgKeys :=
  let h := session_persistent V mac s op hop
  ⟨h.vou, h.rvb, h.own, h.mfg⟩

/-- Histories: delete every session operation; the persistent operations (AddVoucher, Voucher,
ReplaceVoucher, RemoveVoucher, SetRVBlob, RVBlob, key methods) and reopen return what they
returned in the full history. -/
theorem persistent_independent_of_sessions_history (V : Variant) (mac : Raw → Auth) (s : Store)
    (h : List (Op Raw)) :
    (trace V mac s h).filter (fun p => !p.1.isSession) =
      trace V mac s (h.filter (fun op => !op.isSession)) :=
  (trace_filter_sim V mac SamePersistent Op.isSession
    (fun s _ op hr hd =>
      let h := session_persistent V mac s op hd
      ⟨h.vou.trans hr.vou, h.rvb.trans hr.rvb, h.own.trans hr.own, h.mfg.trans hr.mfg⟩)
    (fun s s' op hr hd =>
      let h := persistent_congr V mac s s' op hd hr
      ⟨h.1, h.2.1⟩) h s s ⟨rfl, rfl, rfl, rfl⟩).1

/-! ### non-vacuity -/

/-- token strings of the examples: `some n` authenticates session n (n < 100), `some 100` is
too short, everything else is rejected -/
def exMac : Option Nat → Auth
  | some n => if n < 100 then .valid n else if n = 100 then .short else .invalid
  | none => .invalid

def g1 : Guid := [1]
def g2 : Guid := [2]

/-- Two interleaved sessions, a reopen between every two operations, an invalid and a short
token in between: session 0 reads back its own GUID and MTU. -/
example : results .repaired exMac Store.empty
    [.newToken 0 .to2, .reopen, .newToken 1 .di, .set (some 0) .guid [7], .reopen,
     .set (some 1) .guid [8], .set none .guid [9], .set (some 100) .guid [9], .set (some 0) .mtu [5],
     .reopen, .get (some 0) .guid, .get (some 1) .guid, .get (some 0) .mtu, .get (some 1) .mtu,
     .invalidate (some 1), .get (some 1) .guid, .set (some 1) .guid [1], .get (some 0) .guid,
     .get (some 7) .guid] =
    [.ok, .ok, .ok, .ok, .ok, .ok, .invalidSession, .invalidSession, .ok, .ok,
     .value [7], .value [8], .value [5], .notFound, .ok, .notFound, .error, .value [7], .notFound] := by
  decide

/-- `read_your_write` instantiated on that shape. -/
example : after .repaired exMac Store.empty
    ([.reopen] ++ [.newToken 0 .to2] ++ [.newToken 1 .di, .set (some 1) .guid [8]] ++
      [.set (some 0) .guid [7]] ++ [.reopen, .set (some 1) .guid [9], .invalidate (some 1), .set (some 0) .mtu [5]])
    (.get (some 0) .guid) = .value [7] :=
  (read_your_write exMac Store.empty [.reopen] [.newToken 1 .di, .set (some 1) .guid [8]]
    [.reopen, .set (some 1) .guid [9], .invalidate (some 1), .set (some 0) .mtu [5]]
    0 .to2 .guid [7] (some 0) (some 0) rfl rfl (by simp [Op.keeps, exMac]) (by simp [Op.quiet, exMac])).2

/-- Voucher replacement and blob expiry on a concrete store. -/
example : results .repaired exMac Store.empty
    [.addVoucher g1 [1, 1], .addVoucher g1 [1, 2], .replaceVoucher g1 g2 true [2, 2],
     .replaceVoucher g2 g1 false [3], .replaceVoucher g1 g1 false [3], .replaceVoucher g1 g2 false [2, 2],
     .getVoucher g1, .getVoucher g2, .removeVoucher g2, .removeVoucher g2,
     .setRVBlob g1 [4] [1, 1] 1000, .reopen, .getRVBlob g1 1000, .getRVBlob g1 1001, .getRVBlob g2 0] =
    [.ok, .error, .error, .error, .error, .ok, .notFound, .value [2, 2], .value [2, 2], .notFound,
     .ok, .ok, .pair [4] [1, 1], .notFound, .notFound] := by
  decide

/-- Key slots: the first key added wins; RSA2048RESTR ignores the requested size; RSAPKCS needs
an RSA key. -/
example : results .repaired exMac Store.empty
    [.addOwnerKey 10 0 [1], .addOwnerKey 10 0 [2], .ownerKey 10 3072, .addOwnerKey 5 0 [3],
     .addOwnerKey 5 2048 [4], .ownerKey 5 2048, .ownerKey 5 3072, .addOwnerKey 1 3072 [5], .ownerKey 1 0,
     .addMfgKey 11 0 false [6], .addMfgKey 11 0 true [6], .mfgKey 11 0, .ownerKey 11 0] =
    [.ok, .ok, .value [1], .error, .ok, .value [4], .notFound, .ok, .value [5],
     .error, .ok, .value [6], .notFound] := by
  decide

/-! ### the tree as found -/

/-- As found: a token string of fewer than 16 decoded bytes panics every accessor and
InvalidateToken (`rawToken[:sessionIDSize]` without a length check). -/
theorem short_token_panics_original :
    results .original exMac Store.empty
      [.get (some 100) .guid, .set (some 100) .guid [1], .invalidate (some 100)] =
    [.panic, .panic, .panic] := by decide

/-- As found: the second SetDeviceCertChain of a session is acknowledged but the first chain keeps
being read (no UNIQUE constraint on device_info.session, plain INSERT), and a second
SetIncompleteVoucherHeader fails (UNIQUE constraint, plain INSERT). -/
theorem read_your_write_fails_original :
    results .original exMac Store.empty
      [.newToken 0 .di, .set (some 0) .deviceCertChain [1], .set (some 0) .deviceCertChain [2],
       .get (some 0) .deviceCertChain, .set (some 0) .voucherHeader [1], .set (some 0) .voucherHeader [2],
       .get (some 0) .voucherHeader] =
    [.ok, .ok, .ok, .value [1], .ok, .error, .value [1]] := by decide

/-- As found: replacing an absent voucher by one with the same GUID is acknowledged and stores
nothing (the voucher just added is the one removed). -/
theorem replace_same_guid_lost_original :
    results .original exMac Store.empty [.replaceVoucher g1 g1 false [3], .getVoucher g1] =
    [.ok, .notFound] := by decide

/-- **Value fidelity of what the store keeps as CBOR**: a voucher, rendezvous information, a voucher
header or a rendezvous blob written to the database and read back is the value that was written
(`Unmarshal ∘ Marshal = id` on the regenerated schemas of the stored types; the abstract store above treats
values as opaque bytes — this is what makes that abstraction faithful for these types). -/
theorem stored_values_roundtrip (ok : Fdo.Cbor.CertOracle) (v : Fdo.Cbor.Val) (b : Bytes)
    (hl : b.length < 18446744073709551616) :
    ∀ s ∈ [Fdo.Gen.Schemas.s_Voucher, Fdo.Gen.Schemas.s_RvInfo, Fdo.Gen.Schemas.s_VoucherHeader,
           Fdo.Gen.Schemas.s_Sign1Tag_To1d_, Fdo.Gen.Schemas.s_X5Chain],
      Fdo.Cbor.marshalS s v = some b → Fdo.Cbor.conf ok 10000 Fdo.Cbor.maxDepth s v = true →
      Fdo.Cbor.unmarshalS ok s b = some v := by
  intro s hs hm hc
  have hfr : s.inFragment = true ∧ s.ptrDepth ≤ 63 := by
    simp only [List.mem_cons, List.mem_singleton, List.not_mem_nil, or_false] at hs
    rcases hs with rfl | rfl | rfl | rfl | rfl <;> exact ⟨by decide +kernel, by decide +kernel⟩
  exact Fdo.Cbor.unmarshalS_marshalS ok s v b hfr.1 hfr.2 hm hc hl

end Fdo.Props.C18
