import Fdo.Kex.Proofs
import Fdo.Kex.Rfc3526
/-
C14 — key exchange yields equal, fresh, correctly derived keys; survives persistence.
Property theorems only; helper lemmas live in Fdo/Kex/Proofs.lean.

Conventions: `prf` is the PRF (HMAC-SHA256/384 in the code) — universally quantified, the only
thing assumed about it is its output length.  ECDH point arithmetic and RSA-OAEP are oracle
parameters (`EcdhOracle`, `enc`/`dec`) with exactly the functional-correctness hypotheses the
statement needs.  The model is the REPAIRED library (fix-1.patch); theorems ending in `_unfixed`
exhibit what the unrepaired code did.
-/
namespace Fdo.Props.C14
open Fdo Fdo.Cbor Fdo.Kex

/-! ## KDF: the code equals NIST SP 800-108 counter mode with FDO's parameters -/

/-- For both PRF sizes the library supports (hBytes = 32 or 48, i.e. h = 256 or 384 bits), every
key, every context and every requested length `L ≤ 255·hBytes` bits (the callers request at most
512, see `callers_within_kdf_range`), the loop in kdf.go returns exactly what the standard
defines — although it runs `⌈L/hBytes⌉` rounds where the standard says `⌈L/(8·hBytes)⌉`
(`h` in the code is bytes, `L` bits): the surplus blocks are cut off again. -/
theorem kdfCode_eq_spec (prf : Bytes → Bytes → Bytes) (hBytes : Nat) (hh : hBytes = 32 ∨ hBytes = 48)
    (hprf : ∀ k m, (prf k m).length = hBytes) (L : Nat) (hL : L ≤ 255 * hBytes) (key ctx : Bytes) :
    ∃ out, kdfSpec prf (8 * hBytes) L key ctx = some out ∧ kdfCode prf hBytes L key ctx = .ok out := by
  refine ⟨(kdfBlocks prf key ctx L (kdfSpecRounds (8 * hBytes) L) 0).take (L / 8), ?_, ?_⟩
  · unfold kdfSpec
    have : ¬ kdfSpecRounds (8 * hBytes) L > 255 := by
      unfold kdfSpecRounds; rcases hh with rfl | rfl <;> omega
    simp [this]
  · unfold kdfCode
    have h1 : ¬ (hBytes ≠ 32 ∧ hBytes ≠ 48) := by omega
    have h2 : ¬ kdfCodeRounds hBytes L > 255 := by
      unfold kdfCodeRounds; rcases hh with rfl | rfl <;> split <;> omega
    simp only [h1, h2, if_false, kdfCodeLoop_eq, List.nil_append]
    have hlen := kdfBlocks_length prf hBytes hprf key ctx L (kdfCodeRounds hBytes L) 0
    have h3 : L / 8 ≤ (kdfBlocks prf key ctx L (kdfCodeRounds hBytes L) 0).length := by
      rw [hlen]; unfold kdfCodeRounds; rcases hh with rfl | rfl <;> split <;> omega
    simp only [h3, if_true]
    congr 1
    apply kdfBlocks_take prf hBytes hprf
    · unfold kdfSpecRounds kdfCodeRounds; rcases hh with rfl | rfl <;> split <;> omega
    · unfold kdfSpecRounds; rcases hh with rfl | rfl <;> omega

/-- The one place where code and standard differ: the code's round count is 8× the standard's, so
its `n > 255` guard fires for every L > 255·hBytes although the standard still defines a result
up to 255·8·hBytes bits.  Witness L = 8168 with HMAC-SHA256: the standard needs 32 rounds, the code
panics with "n too large".  No caller can request this (next theorem). -/
theorem kdfCode_panics_inside_spec_range_unreachable (prf : Bytes → Bytes → Bytes) (key ctx : Bytes) :
    kdfCode prf 32 8168 key ctx = .panic "kdf:n too large" ∧ (kdfSpec prf 256 8168 key ctx).isSome = true := by
  constructor
  · simp [kdfCode, kdfCodeRounds]
  · simp [kdfSpec, kdfSpecRounds]

/-- Regenerated registry: every registered cipher suite uses a PRF the KDF supports and asks for a
length inside the range where `kdfCode_eq_spec` applies, a multiple of 8, without uint16 wrap. -/
theorem callers_within_kdf_range :
    ∀ c ∈ Fdo.Gen.Kex.cipherSuites, (c.prfBytes = 32 ∨ c.prfBytes = 48) ∧ kdfBits c ≤ 255 * c.prfBytes ∧
      kdfBits c = (c.encKeyBytes + c.macKeyBytes) * 8 ∧ 0 < c.encKeyBytes := by decide

/-- The derived key material has exactly the requested length. -/
theorem kdf_length (prf : Bytes → Bytes → Bytes) (hBytes : Nat) (hh : hBytes = 32 ∨ hBytes = 48)
    (hprf : ∀ k m, (prf k m).length = hBytes) (L : Nat) (hL : L ≤ 255 * hBytes) (key ctx out : Bytes)
    (h : kdfCode prf hBytes L key ctx = .ok out) : out.length = L / 8 := by
  obtain ⟨o, hs, hc⟩ := kdfCode_eq_spec prf hBytes hh hprf L hL key ctx
  rw [hc] at h; injection h with h; subst h
  unfold kdfSpec at hs
  by_cases hn : kdfSpecRounds (8 * hBytes) L > 255
  · simp [hn] at hs
  · simp only [hn, if_false] at hs
    injection hs with hs
    subst hs
    rw [List.length_take, kdfBlocks_length prf hBytes hprf]
    unfold kdfSpecRounds; rcases hh with rfl | rfl <;> omega

/-- The driver's two-step protocol (`kex.kdf.inputs`, PRF values computed outside, then
`kex.kdf.assemble`) computes `kdfSpec`: the messages are the standard's, in order. -/
theorem kdfSpec_eq_assemble_inputs (prf : Bytes → Bytes → Bytes) (h L : Nat) (key ctx : Bytes)
    (hn : kdfSpecRounds h L ≤ 255) :
    kdfSpec prf h L key ctx = some (kdfAssemble L ((kdfInputs h L ctx).map (prf key))) := by
  unfold kdfSpec kdfAssemble kdfInputs
  have : ¬ kdfSpecRounds h L > 255 := by omega
  simp only [this, if_false]
  rw [kdfInputs_blocks]
  simp

/-- SEK and SVK have exactly the sizes the cipher suite's COSE algorithms require, for every
registered suite (regenerated table) and every PRF of the right output size. -/
theorem key_lengths_match_cipher (prf : Bytes → Bytes → Bytes) (c : CipherRow) (hc : c ∈ Fdo.Gen.Kex.cipherSuites)
    (hprf : ∀ k m, (prf k m).length = c.prfBytes) (shSe ctx : Bytes) :
    ∃ sek svk, deriveKeys prf c shSe ctx = .ok (sek, svk) ∧
      sek.length = c.encKeyBytes ∧ svk.length = c.macKeyBytes := by
  obtain ⟨hh, hL, hbits, _⟩ := callers_within_kdf_range c hc
  obtain ⟨out, _, hcode⟩ := kdfCode_eq_spec prf c.prfBytes hh hprf (kdfBits c) hL shSe ctx
  have hlen := kdf_length prf c.prfBytes hh hprf (kdfBits c) hL shSe ctx out hcode
  rw [hbits] at hlen
  have hlen' : out.length = c.encKeyBytes + c.macKeyBytes := by omega
  refine ⟨out.take c.encKeyBytes, out.drop c.encKeyBytes, ?_, ?_, ?_⟩
  · unfold deriveKeys
    rw [hcode]
    simp only [Outcome.bind, splitKeys]
    have : c.encKeyBytes ≤ out.length := by omega
    simp [this]
  · rw [List.length_take]; omega
  · rw [List.length_drop]; omega

/-- The registry is what FDO 1.1 lists minus the CCM suites: the seven ids, AEAD suites have no
MAC key, encrypt-then-MAC suites have one. -/
theorem cipher_registry_shape :
    Fdo.Gen.Kex.cipherSuites.map (·.id) = [-17760706, -17760705, -17760704, -17760703, 1, 2, 3] ∧
    ∀ c ∈ Fdo.Gen.Kex.cipherSuites, (c.aead = true ↔ c.macAlg = 0) ∧ (c.macAlg = 0 ↔ c.macKeyBytes = 0) := by decide

/-- `kex.Suite.Valid` as executed over (suite × device signature algorithm × owner key kind): for
ECDSA devices exactly the twelve combinations of FDO 1.1 §3.6.5 are allowed (RSA devices are
unconstrained in the code). -/
theorem suite_valid_table :
    (Fdo.Gen.Kex.suiteValid.filter (fun r => r.2.2.2 && (r.2.1 == "ES256" || r.2.1 == "ES384"))).map
        (fun r => (r.1, r.2.1, r.2.2.1)) =
      [("ECDH256", "ES256", "P256"), ("ECDH256", "ES384", "P256"),
       ("ECDH384", "ES256", "P384"), ("ECDH384", "ES384", "P384"),
       ("DHKEXid14", "ES256", "RSA2048"), ("DHKEXid14", "ES384", "RSA2048"),
       ("DHKEXid15", "ES256", "RSA3072"), ("DHKEXid15", "ES384", "RSA3072"),
       ("ASYMKEX2048", "ES256", "RSA2048"), ("ASYMKEX2048", "ES384", "RSA2048"),
       ("ASYMKEX3072", "ES256", "RSA3072"), ("ASYMKEX3072", "ES384", "RSA3072")] := by decide

/-! ## Diffie-Hellman -/

/-- Both parties compute the same shared value, for ALL p, g, a, b (square-and-multiply included). -/
theorem dh_agree (p g a b : Nat) :
    dhSharedNat p (dhPublic ⟨p, g, 0⟩ a) b = dhSharedNat p (dhPublic ⟨p, g, 0⟩ b) a := by
  simp only [dhSharedNat, dhPublic, powMod_eq]
  exact pow_comm_mod g a b p

/-- The exponentiation the model runs is modular exponentiation. -/
theorem powMod_correct (b e m : Nat) : powMod b e m = b ^ e % m := powMod_eq b e m

/-- Degenerate and out-of-range peer values are rejected before any key is derived:
0, 1, p−1, p, p+1 and everything above. -/
theorem dh_rejects_degenerate (p y own : Nat) (h : y = 0 ∨ y = 1 ∨ y = p - 1 ∨ y ≥ p) :
    dhShared p y own = .reject := by
  have : dhPeerValid p y = false := by
    cases hv : dhPeerValid p y with
    | false => rfl
    | true => have := (dhPeerValid_iff p y).1 hv; omega
  simp [dhShared, this]

/-- Whenever a DH shared secret is produced, the peer value was in [2, p−2], the secret is the
fixed-width (len(p) bytes, leading zeros kept) encoding of peer^own mod p, and that value is none
of 0, 1, p−1.  `dhShared` never panics. -/
theorem dh_shared_sound (p peer own : Nat) (sh : Bytes) (h : dhShared p peer own = .ok sh) :
    (2 ≤ peer ∧ peer + 2 ≤ p) ∧ sh = natBE (byteLen p) (peer ^ own % p) ∧ sh.length = byteLen p ∧
      2 ≤ peer ^ own % p ∧ peer ^ own % p + 1 ≠ p := by
  have ⟨h1, h2, h3, h4⟩ := dhShared_ok p peer own sh h
  exact ⟨h1, h2, by rw [h2]; simp, h3, h4⟩

theorem dh_shared_never_panics (p peer own : Nat) (site : String) : dhShared p peer own ≠ .panic site :=
  dhShared_no_panic p peer own site

set_option exponentiation.threshold 5000 in
/-- The regenerated DH groups are RFC 3526 groups 14 and 15 BY THE RFC'S FORMULA
(2^n − 2^(n−64) − 1 + 2^64·(⌊2^(n−130) π⌋ + c), π from Machin's series), generator 2, and the
secret sizes are 32 and 96 bytes. -/
theorem dh_groups_are_rfc3526 :
    Fdo.Gen.Kex.dhGroups = [⟨"DHKEXid14", Rfc3526.prime14, 2, 32⟩, ⟨"DHKEXid15", Rfc3526.prime15, 2, 96⟩] := by
  decide +kernel

/-! ## byte encodings -/

/-- Fixed-width big-endian keeps leading zeros and is inverse to `beNat` both ways;
`big.Int.Bytes()` (minimal width) reads back to the same number, never starts with a zero byte, and
`SetBytes` ignores leading zeros — so a public value or secret with leading zero bytes is the same
number on both sides whichever width it travelled in. -/
theorem be_roundtrip :
    (∀ w n, n < 256 ^ w → beNat (natBE w n) = n) ∧
    (∀ bs : Bytes, natBE bs.length (beNat bs) = bs) ∧
    (∀ n, beNat (minBytes n) = n) ∧
    (∀ n b r, minBytes n = b :: r → b ≠ 0) ∧
    (∀ k (bs : Bytes), beNat (zeros k ++ bs) = beNat bs) :=
  ⟨beNat_natBE, natBE_beNat, beNat_minBytes, minBytes_no_leading_zero, beNat_zeros_append⟩

/-! ## ECDH parameter format -/

/-- decode ∘ encode = id for every triple of byte strings that fits the 16-bit length fields;
bytes after the third field are ignored (as the library does). -/
theorem ecdhParam_roundtrip (x y r t : Bytes) (hx : x.length < 65536) (hy : y.length < 65536)
    (hr : r.length < 65536) : ecdhParamFields (ecdhParamEncFields x y r ++ t) = some (x, y, r, t) :=
  ecdhParamFields_enc x y r t hx hy hr

/-- `UnmarshalBinary ∘ MarshalBinary = id` on what `Parameter` marshals: a SEC 1 uncompressed
point (04 ‖ x ‖ y, equal widths, leading zeros kept) and a random string. -/
theorem ecdhParam_marshal_roundtrip (pub rand : Bytes) (n : Nat) (hp : IsPoint pub n) (hn : n < 65536)
    (hr : rand.length < 65536) :
    ∃ w, ecdhParamMarshal pub rand = .ok w ∧ ecdhParamDecode w = some (pub, rand) :=
  ecdhParamDecode_marshal pub rand n hp hn hr

/-- Every reject branch of the parser: a field is refused exactly when fewer than two length
bytes or fewer than the announced number of content bytes remain. -/
theorem ecdhParam_field_reject (b : Bytes) :
    takeField b = none ↔ (b.length < 2 ∨ (b.drop 2).length < beNat (b.take 2)) := by
  unfold takeField
  by_cases h : b.length < 2
  · simp [h]
  · by_cases h2 : (b.drop 2).length < beNat (b.take 2)
    · simp [h, h2]
    · simp only [h, h2, if_false]; simp

/-- Trailing bytes after the third field are refused (repaired code), whatever the fields are. -/
theorem ecdhParam_rejects_trailing (x y r : Bytes) (t0 : UInt8) (t : Bytes) (hx : x.length < 65536)
    (hy : y.length < 65536) (hr : r.length < 65536) :
    ecdhParamDecode (ecdhParamEncFields x y r ++ t0 :: t) = none := by
  unfold ecdhParamDecode
  rw [ecdhParamFields_enc x y r (t0 :: t) hx hy hr]

/-- …which the unrepaired parser accepted (replayed on Go: classes `ecdh:trailing-1` and `ecdh:trailing-100`). -/
theorem ecdhParam_accepted_trailing_unfixed :
    ecdhParamDecodeUnfixed (ecdhParamEncFields [1] [2] [3] ++ [0xff, 0xff]) = some ([4, 1, 2], [3]) := by
  decide

/-- Leniencies that remain (observations; the library does not reject them and neither does the
model): the random field may have any length including zero, and coordinates of unequal length are
re-padded to the longer one, so a coordinate sent without its leading zero bytes denotes the same
point. -/
theorem ecdhParam_lenient :
    ecdhParamDecode (ecdhParamEncFields [0, 1] [2, 3] []) = some ([4, 0, 1, 2, 3], []) ∧
    ecdhParamDecode (ecdhParamEncFields [1] [2, 3] [9]) = some ([4, 0, 1, 2, 3], [9]) := by
  decide

/-- Both parties assemble the same shSe = x ‖ randB ‖ randA (device random first), given the ECDH
primitive is symmetric on this key pair. -/
theorem ecdh_both_sides_same_shse (O : EcdhOracle) (a b ra rb : Bytes) (n : Nat) (hn : n < 65536)
    (hpa : IsPoint (O.pubOf a) n) (hpb : IsPoint (O.pubOf b) n)
    (hra : ra.length < 65536) (hrb : rb.length < 65536)
    (hva : O.validPub (O.pubOf a) = true) (hvb : O.validPub (O.pubOf b) = true)
    (hsym : O.ecdh a (O.pubOf b) = O.ecdh b (O.pubOf a))
    (xA xB : Bytes) (hA : ecdhParamMarshal (O.pubOf a) ra = .ok xA) (hB : ecdhParamMarshal (O.pubOf b) rb = .ok xB) :
    ecdhShared O (some a) xA xB = .ok (O.ecdh a (O.pubOf b) ++ (rb ++ ra)) ∧
    ecdhShared O (some b) xA xB = .ok (O.ecdh a (O.pubOf b) ++ (rb ++ ra)) :=
  ecdhShared_both O a b ra rb n hn hpa hpb hra hrb hva hvb hsym xA xB hA hB

/-- A peer point the curve refuses (off-curve, wrong length, infinity) never yields a secret. -/
theorem ecdh_rejects_invalid_point (O : EcdhOracle) (k : Bytes) (pA pB : Bytes × Bytes)
    (hown : pA.1 = O.pubOf k) (hbad : O.validPub pB.1 = false) :
    ecdhSharedSecret O (some k) pA pB = .reject := by
  simp [ecdhSharedSecret, hown, hbad]

/-! ## both sides derive the same SEK/SVK (whole sessions) -/

/-- DH: whatever the randomness of the two parties, if both complete, the owner's and the device's
(cipher, SEK, SVK) are equal, and the exchanged parameters are g^a and g^b mod p. -/
theorem dh_both_sides_same_keys (prf : Bytes → Bytes → Bytes) (G : DhGroup) (cipher : Int) (ra rb : Bytes)
    (own0 own1 own2 dev0 dev1 : DhSession) (xA xB : Bytes)
    (h0 : dhNew G none cipher = .ok own0) (h1 : dhParameter prf own0 ra = .ok (own1, xA))
    (hd0 : dhNew G (some xA) cipher = .ok dev0) (hd1 : dhParameter prf dev0 rb = .ok (dev1, xB))
    (h2 : dhSetParameter prf own1 xB = .ok own2) :
    own2.cr = dev1.cr ∧ xA = minBytes (G.g ^ beNat ra % G.p) ∧ xB = minBytes (G.g ^ beNat rb % G.p) :=
  dh_sessions_same_keys prf G cipher ra rb own0 own1 own2 dev0 dev1 xA xB h0 h1 hd0 hd1 h2

/-- ECDH, given the primitive's symmetry and that both public keys are valid points. -/
theorem ecdh_both_sides_same_keys (prf : Bytes → Bytes → Bytes) (O : EcdhOracle) (rs : Nat) (cipher : Int)
    (a b ra rb : Bytes) (n : Nat) (hn : n < 65536)
    (hpa : IsPoint (O.pubOf a) n) (hpb : IsPoint (O.pubOf b) n)
    (hra : ra.length < 65536) (hrb : rb.length < 65536)
    (hva : O.validPub (O.pubOf a) = true) (hvb : O.validPub (O.pubOf b) = true)
    (hsym : O.ecdh a (O.pubOf b) = O.ecdh b (O.pubOf a))
    (own0 own1 own2 dev0 dev1 : EcdhSession) (xA xB : Bytes)
    (h0 : ecdhNew rs none cipher = .ok own0) (h1 : ecdhParameter prf O own0 a ra = .ok (own1, xA))
    (hd0 : ecdhNew rs (some xA) cipher = .ok dev0) (hd1 : ecdhParameter prf O dev0 b rb = .ok (dev1, xB))
    (h2 : ecdhSetParameter prf O own1 xB = .ok own2) : own2.cr = dev1.cr :=
  ecdh_sessions_same_keys prf O rs cipher a b ra rb n hn hpa hpb hra hrb hva hvb hsym
    own0 own1 own2 dev0 dev1 xA xB h0 h1 hd0 hd1 h2

/-- ASYMKEX, given RSA-OAEP decrypts what it encrypted: keys are KDF(K_IN = device random,
ContextRand = owner random) on both sides. -/
theorem oaep_both_sides_same_keys (prf : Bytes → Bytes → Bytes) (enc dec : Bytes → Option Bytes)
    (ps : Nat) (cipher : Int) (ra rb : Bytes) (own0 own1 own2 dev0 dev1 : OaepSession) (xA ct : Bytes)
    (h0 : oaepNew ps none cipher = .ok own0) (h1 : oaepParameter prf enc own0 ra = .ok (own1, xA))
    (hd0 : oaepNew ps (some xA) cipher = .ok dev0) (hd1 : oaepParameter prf enc dev0 rb = .ok (dev1, ct))
    (hdec : ∀ x c, enc x = some c → dec c = some x)
    (h2 : oaepSetParameter prf own1 (dec ct) = .ok own2) : own2.cr = dev1.cr ∧ xA = ra :=
  oaep_sessions_same_keys prf enc dec ps cipher ra rb own0 own1 own2 dev0 dev1 xA ct h0 h1 hd0 hd1 hdec h2

/-- A wrong-size (or otherwise undecryptable) OAEP ciphertext never yields a key. -/
theorem oaep_rejects_undecryptable (prf : Bytes → Bytes → Bytes) (s : OaepSession) :
    oaepSetParameter prf s none = .reject := rfl

/-! ## persistence -/

/-- restore ∘ persist = id for a DH session at any stage, provided no stored big integer is zero
(`DhPersistable`; the zero case is the next two theorems). -/
theorem persist_roundtrip_dh (s : DhSession) (h : DhPersistable s) : dhRestore (dhPersist s) = .ok s :=
  dhRestore_persist s h

/-- The server-side DH session after each of the three steps is persistable whenever its secret
is non-zero: after `Parameter` it holds only `a`; after `SetParameter` it holds only the keys. -/
theorem dh_stages_persistable (prf : Bytes → Bytes → Bytes) (G : DhGroup) (cipher : Int) (ra xB : Bytes)
    (own0 own1 own2 : DhSession) (xA : Bytes)
    (hg : G.g < 9223372036854775808) (hps : G.paramSize < 9223372036854775808)
    (hc : -9223372036854775808 ≤ cipher ∧ cipher < 9223372036854775808)
    (h0 : dhNew G none cipher = .ok own0) (h1 : dhParameter prf own0 ra = .ok (own1, xA))
    (h2 : dhSetParameter prf own1 xB = .ok own2) (hnz : beNat ra ≠ 0) :
    DhPersistable own0 ∧ DhPersistable own1 ∧ DhPersistable own2 := by
  unfold dhNew at h0
  cases hrow : cipherRow cipher with
  | none => simp [hrow] at h0
  | some c =>
    simp only [hrow] at h0
    injection h0 with h0; subst h0
    simp only [dhParameter, Option.map] at h1
    injection h1 with h1; injection h1 with h1a h1b; subst h1a
    simp only [dhSetParameter, hrow] at h2
    obtain ⟨k, _, h2⟩ := Outcome.bind_ok _ _ _ h2
    injection h2 with h2; subst h2
    refine ⟨?_, ?_, ?_⟩ <;>
      simp [DhPersistable, CrypterOk, hrow, hg, hps, hc.1, hc.2, hnz]

/-- Restore-invariance of the outcome for EVERY server secret, zero included (repaired code):
completing the exchange on the restored stage-1 session gives exactly the result of completing
it on the live one. -/
theorem dh_restore_invariant (prf : Bytes → Bytes → Bytes) (G : DhGroup) (cipher : Int) (ra xB : Bytes)
    (own0 own1 : DhSession) (xA : Bytes)
    (hg : G.g < 9223372036854775808) (hps : G.paramSize < 9223372036854775808)
    (hc : -9223372036854775808 ≤ cipher ∧ cipher < 9223372036854775808)
    (h0 : dhNew G none cipher = .ok own0) (h1 : dhParameter prf own0 ra = .ok (own1, xA)) :
    (dhRestore (dhPersist own1)).bind (fun s => dhSetParameter prf s xB) = dhSetParameter prf own1 xB := by
  unfold dhNew at h0
  cases hrow : cipherRow cipher with
  | none => simp [hrow] at h0
  | some c =>
    simp only [hrow] at h0
    injection h0 with h0; subst h0
    simp only [dhParameter, Option.map] at h1
    injection h1 with h1; injection h1 with h1a h1b; subst h1a
    by_cases hz : beNat ra = 0
    · rw [dhRestore_persist_general _ (by simp [CrypterOk, hrow, hc.1, hc.2]) (by simpa using hg) (by simpa using hps)]
      simp only [Outcome.bind, dhNormalize, hz, dhSetParameter, if_true, hrow, dhSymmetricKey, dhShared]
      by_cases hv : dhPeerValid G.p (beNat xB) = true
      · have hv' := (dhPeerValid_iff _ _).1 hv
        have : dhSecretValid G.p (dhSharedNat G.p (beNat xB) 0) = false := by
          cases hs : dhSecretValid G.p (dhSharedNat G.p (beNat xB) 0) with
          | false => rfl
          | true =>
            have := (dhSecretValid_iff _ _).1 hs
            unfold dhSharedNat at this
            rw [powMod_eq] at this
            have h1 : (1 : Nat) % G.p = 1 := Nat.mod_eq_of_lt (by omega)
            simp [h1] at this
        simp [hv, this]
      · simp [hv]
    · rw [dhRestore_persist _ (by simp [DhPersistable, CrypterOk, hrow, hg, hps, hc.1, hc.2, hz])]
      rfl

/-- What the unrepaired code did at the same point: a server whose random secret is 0 persists `a`
as the empty string, restores it as nil, and `SetParameter` then dereferences nil — while the
live session answers "invalid shared secret".  (Replayed on Go by the harness: case
`restore-zero-secret`.) -/
theorem dh_restore_zero_secret_unfixed (prf : Bytes → Bytes → Bytes) (G : DhGroup) (cipher : Int) (xB : Bytes)
    (own0 own1 : DhSession) (xA : Bytes)
    (hg : G.g < 9223372036854775808) (hps : G.paramSize < 9223372036854775808)
    (hc : -9223372036854775808 ≤ cipher ∧ cipher < 9223372036854775808)
    (h0 : dhNew G none cipher = .ok own0) (h1 : dhParameter prf own0 (zeros G.paramSize) = .ok (own1, xA)) :
    (dhRestore (dhPersist own1)).bind (fun s => dhSetParameterUnfixed prf s xB) = .panic "dh:nil private parameter" ∧
    dhSetParameterUnfixed prf own1 xB = .reject := by
  have hz : beNat (zeros G.paramSize) = 0 := by
    have := beNat_zeros_append G.paramSize []
    simpa [beNat] using this
  unfold dhNew at h0
  cases hrow : cipherRow cipher with
  | none => simp [hrow] at h0
  | some c =>
    simp only [hrow] at h0
    injection h0 with h0; subst h0
    simp only [dhParameter, Option.map, hz] at h1
    injection h1 with h1; injection h1 with h1a h1b; subst h1a
    constructor
    · rw [dhRestore_persist_general _ (by simp [CrypterOk, hrow, hc.1, hc.2]) (by simpa using hg) (by simpa using hps)]
      simp [Outcome.bind, dhNormalize, dhSetParameterUnfixed]
    · simp only [dhSetParameterUnfixed, dhSetParameter, hrow, dhSymmetricKey, dhShared]
      by_cases hv : dhPeerValid G.p (beNat xB) = true
      · have hv' := (dhPeerValid_iff _ _).1 hv
        have : dhSecretValid G.p (dhSharedNat G.p (beNat xB) 0) = false := by
          cases hs : dhSecretValid G.p (dhSharedNat G.p (beNat xB) 0) with
          | false => rfl
          | true =>
            have := (dhSecretValid_iff _ _).1 hs
            unfold dhSharedNat at this
            rw [powMod_eq] at this
            have h1 : (1 : Nat) % G.p = 1 := Nat.mod_eq_of_lt (by omega)
            simp [h1] at this
        simp [hv, this, Outcome.bind]
      · simp [hv, Outcome.bind]

/-- restore ∘ persist = id for an ECDH session at any stage after the first `Parameter`
(`xA` present; the stored key, if any, is one the curve accepts). -/
theorem persist_roundtrip_ecdh (validPriv : Nat → Bytes → Bool) (s : EcdhSession)
    (h : EcdhPersistable validPriv s) : ecdhRestore validPriv (ecdhPersist s) = .ok s :=
  ecdhRestore_persist validPriv s h

/-- restore ∘ persist = id for an ASYMKEX session at any stage after the first `Parameter`. -/
theorem persist_roundtrip_oaep (s : OaepSession) (h : OaepPersistable s) : oaepRestore (oaepPersist s) = .ok s :=
  oaepRestore_persist s h

/-- The server-side ECDH and ASYMKEX sessions after `Parameter` and after `SetParameter` satisfy the
hypotheses of the two roundtrip theorems. -/
theorem ecdh_oaep_stages_persistable (prf : Bytes → Bytes → Bytes) (O : EcdhOracle) (validPriv : Nat → Bytes → Bool)
    (rs ps : Nat) (cipher : Int) (k ra xB : Bytes) (dec : Option Bytes)
    (e0 e1 e2 : EcdhSession) (o0 o1 o2 : OaepSession) (xA xA' : Bytes) (enc : Bytes → Option Bytes)
    (hvp : validPriv rs k = true) (hve : validPriv rs [] = false) (hps : ps < 9223372036854775808)
    (hc : -9223372036854775808 ≤ cipher ∧ cipher < 9223372036854775808)
    (he0 : ecdhNew rs none cipher = .ok e0) (he1 : ecdhParameter prf O e0 k ra = .ok (e1, xA))
    (he2 : ecdhSetParameter prf O e1 xB = .ok e2)
    (ho0 : oaepNew ps none cipher = .ok o0) (ho1 : oaepParameter prf enc o0 ra = .ok (o1, xA'))
    (ho2 : oaepSetParameter prf o1 dec = .ok o2) :
    EcdhPersistable validPriv e1 ∧ EcdhPersistable validPriv e2 ∧ OaepPersistable o1 ∧ OaepPersistable o2 := by
  unfold ecdhNew at he0
  unfold oaepNew at ho0
  cases hrow : cipherRow cipher with
  | none => simp [hrow] at he0
  | some c =>
    simp only [hrow] at he0 ho0
    injection he0 with he0; subst he0
    injection ho0 with ho0; subst ho0
    unfold ecdhParameter at he1
    by_cases hrs : rs ≠ 16 ∧ rs ≠ 48
    · simp [hrs] at he1
    · simp only [hrs, if_false] at he1
      obtain ⟨w, _, he1⟩ := Outcome.bind_ok _ _ _ he1
      injection he1 with he1; injection he1 with he1a he1b; subst he1a
      simp only [ecdhSetParameter, hrow] at he2
      obtain ⟨key, _, he2⟩ := Outcome.bind_ok _ _ _ he2
      injection he2 with he2; subst he2
      simp only [oaepParameter] at ho1
      injection ho1 with ho1; injection ho1 with ho1a ho1b; subst ho1a
      cases dec with
      | none => simp [oaepSetParameter] at ho2
      | some d =>
        simp only [oaepSetParameter, hrow] at ho2
        obtain ⟨key2, _, ho2⟩ := Outcome.bind_ok _ _ _ ho2
        injection ho2 with ho2; subst ho2
        have hrs' : rs = 16 ∨ rs = 48 := by omega
        refine ⟨?_, ?_, ?_, ?_⟩ <;>
          simp [EcdhPersistable, OaepPersistable, CrypterOk, hrow, hc.1, hc.2, hrs', hvp, hve, hps]

/-! ## freshness: distinct sessions feed the PRF distinct (key, message) pairs -/

/-- Injectivity of the KDF input construction.  The PRF is called on (K_IN = shSe, message i);
two calls coincide only if shSe, ContextRand, the counter and L all coincide.  Hence sessions that
differ in (shSe, ContextRand) query the PRF at disjoint points.  That PRF outputs at distinct
points are unrelated is the PRF assumption on HMAC — assumed, not proved. -/
theorem independent_sessions (shSe shSe' ctx ctx' : Bytes) (i j L L' : Nat)
    (hi : i < 256) (hj : j < 256) (hL : L < 65536) (hL' : L' < 65536)
    (h : (shSe, kdfMsg i ctx L) = (shSe', kdfMsg j ctx' L')) :
    shSe = shSe' ∧ ctx = ctx' ∧ i = j ∧ L = L' := by
  injection h with h1 h2
  have ⟨a, b, c⟩ := kdfMsg_inj i j hi hj ctx ctx' L L' hL hL' h2
  exact ⟨h1, b, a, c⟩

/-- …and the same over the whole message lists of two sessions. -/
theorem independent_sessions_inputs (h L : Nat) (hn : kdfSpecRounds h L ≤ 255) (hL : L < 65536)
    (shSe shSe' ctx ctx' : Bytes) (hne : (shSe, ctx) ≠ (shSe', ctx')) :
    ∀ m ∈ kdfInputs h L ctx, ∀ m' ∈ kdfInputs h L ctx', (shSe, m) ≠ (shSe', m') := by
  intro m hm m' hm' heq
  simp only [kdfInputs, List.mem_map, List.mem_range] at hm hm'
  obtain ⟨i, hi, rfl⟩ := hm
  obtain ⟨j, hj, rfl⟩ := hm'
  have := independent_sessions shSe shSe' ctx ctx' (i + 1) (j + 1) L L (by omega) (by omega) hL hL heq
  exact hne (by rw [this.1, this.2.1])

/-- How the three suites build (shSe, ContextRand) is injective in the session's fresh values:
DH — the fixed-width encoding of the shared value; ECDH — x ‖ randB ‖ randA for the fixed widths
the library itself generates (a peer may send a random of another length: the assembly is then
still a function of the parsed fields, but no longer injective — second conjunct's hypotheses);
ASYMKEX — (device random, owner random) directly. -/
theorem shse_assembly_injective :
    (∀ w s s', s < 256 ^ w → s' < 256 ^ w → natBE w s = natBE w s' → s = s') ∧
    (∀ x x' rb rb' ra ra' : Bytes, x.length = x'.length → rb.length = rb'.length →
        ecdhShSe x rb ra = ecdhShSe x' rb' ra' → x = x' ∧ rb = rb' ∧ ra = ra') ∧
    (ecdhShSe [1] [2] [3, 4] = ecdhShSe [1] [2, 3] [4]) := by
  refine ⟨?_, ?_, by decide⟩
  · intro w s s' hs hs' h
    have := congrArg beNat h
    rwa [beNat_natBE w s hs, beNat_natBE w s' hs'] at this
  · intro x x' rb rb' ra ra' hx hrb h
    unfold ecdhShSe at h
    have ⟨h1, h2⟩ := List.append_inj h hx
    have ⟨h3, h4⟩ := List.append_inj h2 hrb
    exact ⟨h1, h3, h4⟩

/-! ## non-vacuity -/

/-- A toy but complete DH exchange (p = 23, g = 5, secrets 6 and 15 → shared 2) through the model's
own functions: both directions give the same one-byte secret. -/
example : dhShared 23 (dhPublic ⟨23, 5, 1⟩ 6) 15 = .ok [2] ∧ dhShared 23 (dhPublic ⟨23, 5, 1⟩ 15) 6 = .ok [2] := by
  have hb : minBytes 23 = [23] := by rw [minBytes]; simp [minBytes_zero]
  simp [dhShared, dhPublic, dhSharedNat, powMod_eq, dhPeerValid, dhSecretValid, fillBytes, byteLen, hb, natBE]

/-- `kdfCode_eq_spec`/`key_lengths_match_cipher` hypotheses are satisfiable: a PRF with 32-byte output,
and a registered suite (COSEAES128CTR: 16 + 16 bytes). -/
example : ∃ prf : Bytes → Bytes → Bytes, (∀ k m, (prf k m).length = 32) ∧
    ∃ c ∈ Fdo.Gen.Kex.cipherSuites, c.prfBytes = 32 ∧ c.encKeyBytes = 16 ∧ c.macKeyBytes = 16 :=
  ⟨fun _ _ => List.replicate 32 0, by simp, ⟨-17760704, "COSEAES128CTR", -65534, 5, 32, 16, 16, false⟩, by decide, rfl, rfl, rfl⟩

/-- A persistable DH session with a leading-zero-free non-zero secret exists (stage 1 of a server). -/
example : DhPersistable ⟨23, 5, 1, some 6, none, none, none, ⟨1, [], []⟩⟩ := by
  refine ⟨⟨Option.isSome_iff_exists.mp (by decide), by decide, by decide⟩, by decide, by decide, by decide, by decide, by decide, by decide⟩

/-- The two-field-width ECDH parameter of a (fake) 2-byte-coordinate point round-trips, leading
zero coordinate byte included. -/
example : ecdhParamDecode (ecdhParamEncFields [0, 7] [9, 1] [5, 5, 5]) = some ([4, 0, 7, 9, 1], [5, 5, 5]) := by
  decide

end Fdo.Props.C14
