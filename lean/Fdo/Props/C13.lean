import Fdo.Cose.Sign1
import Fdo.Cbor.TypedProofs
import Fdo.Gen.Schemas
import Fdo.Cbor.Proofs
import Fdo.Gen.Cose
/-
C13 — COSE signatures and MACs verify exactly what was signed, with the right key.
The asymmetric primitive is an oracle: the theorems say which bytes, which algorithm and
which (r, s) reach it, that distinct (protected, aad, payload) never share to-be-signed
bytes, and that no input makes the verification logic panic.
-/
namespace Fdo.Props.C13
open Fdo Fdo.Cbor Fdo.Cose

private def tbsItem (ctx prot aad payload : Bytes) : Item :=
  .arr (.cons (.tstr ctx) (.cons (.bstr prot) (.cons (.bstr aad) (.cons (.bstr payload) .nil))))

private theorem tbsItem_wf (ctx prot aad payload : Bytes)
    (h0 : ctx.length < maxLen) (h1 : prot.length < maxLen) (h2 : aad.length < maxLen) (h3 : payload.length < maxLen) :
    (tbsItem ctx prot aad payload).WF := by
  simp [tbsItem, Item.WF, Items.WF, Items.length, maxLen] at *
  omega

/-- Sig_structure / MAC_structure is injective: if two (context, protected, external data,
payload) quadruples (each part shorter than the decode limit) give the same to-be-signed bytes
they are the same quadruple. Any change to protected header, external AAD or payload therefore
changes what the primitive is asked to verify. -/
theorem toBeSigned_injective (c p a pl c' p' a' pl' : Bytes)
    (h0 : c.length < maxLen) (h1 : p.length < maxLen) (h2 : a.length < maxLen) (h3 : pl.length < maxLen)
    (h0' : c'.length < maxLen) (h1' : p'.length < maxLen) (h2' : a'.length < maxLen) (h3' : pl'.length < maxLen)
    (h : toBeSigned c p a pl = toBeSigned c' p' a' pl') : c = c' ∧ p = p' ∧ a = a' ∧ pl = pl' := by
  have hw := tbsItem_wf c p a pl h0 h1 h2 h3
  have hw' := tbsItem_wf c' p' a' pl' h0' h1' h2' h3'
  have h1 := Cbor.decode_encode _ hw [] (max (tbsItem c p a pl).size (tbsItem c' p' a' pl').size)
    (max (tbsItem c p a pl).depth (tbsItem c' p' a' pl').depth) (Nat.le_max_left _ _) (Nat.le_max_left _ _)
  have h2 := Cbor.decode_encode _ hw' [] (max (tbsItem c p a pl).size (tbsItem c' p' a' pl').size)
    (max (tbsItem c p a pl).depth (tbsItem c' p' a' pl').depth) (Nat.le_max_right _ _) (Nat.le_max_right _ _)
  have e : encode (tbsItem c p a pl) = encode (tbsItem c' p' a' pl') := h
  rw [e] at h1
  rw [h1] at h2
  simp [tbsItem] at h2
  exact h2

/-- Fixed-width r‖s: both halves are recovered exactly, leading zero bytes included. -/
theorem rs_roundtrip (n r s : Nat) (hr : r < 256 ^ n) (hs : s < 256 ^ n) :
    rsDecode n (rsEncode n r s) = (r, s) := by
  unfold rsDecode rsEncode
  rw [take_append_len _ _ _ (natBE_length n r), drop_append_len _ _ _ (natBE_length n r)]
  rw [beNat_natBE n r hr, beNat_natBE n s hs]

theorem rsEncode_length (n r s : Nat) : (rsEncode n r s).length = 2 * n := by
  simp [rsEncode]; omega

/-- Acceptance shape (ECDSA): whenever verification reaches the primitive it is asked about
exactly the Sig_structure of this object's protected header, the given external data and the
payload, under a registered algorithm, with a signature of exactly twice the curve size split
in the middle. -/
theorem verify_reaches_ecdsa_only_with (sigAlgs : List (Int × Nat)) (prot : List (Val × AnyVal))
    (pl : Option Bytes) (sig aad : Bytes) (n bits : Nat) (tbs : Bytes) (r s : Nat)
    (h : sign1Verify sigAlgs prot pl sig aad (.ec n) = .ecdsa bits tbs r s) :
    ∃ p alg, pl = some p ∧ hdrGet prot 1 = some (.int alg) ∧ (alg, bits) ∈ sigAlgs ∧
      tbs = toBeSigned ctxSignature1 (encProtected prot) aad p ∧
      sig.length = 2 * n ∧ (r, s) = rsDecode n sig := by
  unfold sign1Verify at h
  split at h
  · simp at h
  · rename_i p
    split at h
    · simp at h
    · split at h
      · simp at h
      · split at h <;> try (simp at h)
        rename_i alg halg
        split at h
        · simp at h
        · split at h
          · simp at h
          · rename_i q b hfind
            split at h
            · rename_i hlen
              simp at h
              obtain ⟨hb, ht, hr, hs⟩ := h
              have hmem := List.find?_some hfind
              have hm2 := List.mem_of_find?_eq_some hfind
              simp at hmem
              refine ⟨p, alg, rfl, halg, ?_, ht.symm, hlen, ?_⟩
              · rw [← hb, ← hmem]; exact hm2
              · rw [← hr, ← hs]
            · simp at h

/-- Acceptance shape (RSA): same, and the padding scheme is the one the algorithm id names. -/
theorem verify_reaches_rsa_only_with (sigAlgs : List (Int × Nat)) (prot : List (Val × AnyVal))
    (pl : Option Bytes) (sig aad : Bytes) (pad : RsaPad) (bits : Nat) (tbs sg : Bytes)
    (h : sign1Verify sigAlgs prot pl sig aad .rsa = .rsa pad bits tbs sg) :
    ∃ p alg, pl = some p ∧ hdrGet prot 1 = some (.int alg) ∧ (alg, bits) ∈ sigAlgs ∧
      rsaPadOf alg = some pad ∧ tbs = toBeSigned ctxSignature1 (encProtected prot) aad p ∧ sg = sig := by
  unfold sign1Verify at h
  split at h
  · simp at h
  · rename_i p
    split at h
    · simp at h
    · split at h
      · simp at h
      · split at h <;> try (simp at h)
        rename_i alg halg
        split at h
        · simp at h
        · split at h
          · simp at h
          · rename_i q b hfind
            split at h
            · rename_i pd hpd
              simp at h
              obtain ⟨hp, hb, ht, hs⟩ := h
              have hmem := List.find?_some hfind
              have hm2 := List.mem_of_find?_eq_some hfind
              simp at hmem
              refine ⟨p, alg, rfl, halg, ?_, ?_, ht.symm, hs.symm⟩
              · rw [← hb, ← hmem]; exact hm2
              · rw [hpd, hp]
            · simp at h

/-- Verification logic never panics: every input ends in a query to the primitive or a reject. -/
theorem verify_never_panics (sigAlgs : List (Int × Nat)) (prot : List (Val × AnyVal))
    (pl : Option Bytes) (sig aad : Bytes) (k : KeyKind) (site : String) :
    sign1Verify sigAlgs prot pl sig aad k ≠ .panic site := by
  unfold sign1Verify
  repeat' split
  all_goals simp

/-- An honestly produced ECDSA object reaches the primitive with its own r and s. -/
theorem honest_ecdsa_reaches_primitive (sigAlgs : List (Int × Nat)) (alg : Int) (bits n r s : Nat)
    (p aad : Bytes) (hn : 1 ≤ n) (hr : r < 256 ^ n) (hs : s < 256 ^ n)
    (hreg : sigAlgs.find? (fun q => q.1 = alg) = some (alg, bits))
    (hrange : ¬ (alg < -9223372036854775808 ∨ alg > 9223372036854775807)) :
    sign1Verify sigAlgs [(.int 1, .int alg)] (some p) (rsEncode n r s) aad (.ec n) =
      .ecdsa bits (toBeSigned ctxSignature1 (encProtected [(.int 1, .int alg)]) aad p) r s := by
  have hl := rsEncode_length n r s
  have hrt := rs_roundtrip n r s hr hs
  unfold sign1Verify
  simp only [hl]
  rw [if_neg (by omega), if_neg (by omega)]
  simp [hdrGet, Val.keyEq, hrange, hreg, hrt]

/-- The registry regenerated from the code is the table of RFC 8152/8230 algorithms with the
hash each one names. -/
theorem gen_sigAlgs_table : Fdo.Gen.Cose.sigAlgs =
    [(-259, 512), (-258, 384), (-257, 256), (-39, 512), (-38, 384), (-37, 256), (-36, 512), (-35, 384), (-7, 256)] := by
  decide

/-- Non-vacuity: ES256 over a P-256 key with a 64-byte signature reaches the primitive. -/
example : (match sign1Verify Fdo.Gen.Cose.sigAlgs [(.int 1, .int (-7))] (some [1, 2, 3])
    (List.replicate 64 7) [] (.ec 32) with | .ecdsa 256 _ _ _ => true | _ => false) = true := by
  decide

/-- **A COSE_Sign1 / COSE_Mac0 object is after encoding, transmission and decoding the object that was
produced**: `cbor.Unmarshal(cbor.Marshal(obj))` yields the same protected and unprotected headers, payload
and signature/tag (typed round trip of C11 on the regenerated schemas of `cose.Sign1Tag` and `cose.Mac0Tag`),
so verification on the receiving side asks the primitive about exactly what the sender signed — for every
conforming object (labels in encoding order with scalar values, byte strings within the limits). -/
theorem cose_objects_survive_transmission (ok : Fdo.Cbor.CertOracle) (v : Fdo.Cbor.Val) (b : Bytes)
    (hl : b.length < 18446744073709551616) :
    (Fdo.Cbor.marshalS Fdo.Gen.Schemas.s_Sign1Tag_Raw_ v = some b →
      Fdo.Cbor.conf ok 10000 Fdo.Cbor.maxDepth Fdo.Gen.Schemas.s_Sign1Tag_Raw_ v = true →
      Fdo.Cbor.unmarshalS ok Fdo.Gen.Schemas.s_Sign1Tag_Raw_ b = some v) ∧
    (Fdo.Cbor.marshalS Fdo.Gen.Schemas.s_Mac0Tag v = some b →
      Fdo.Cbor.conf ok 10000 Fdo.Cbor.maxDepth Fdo.Gen.Schemas.s_Mac0Tag v = true →
      Fdo.Cbor.unmarshalS ok Fdo.Gen.Schemas.s_Mac0Tag b = some v) :=
  ⟨fun hm hc => Fdo.Cbor.unmarshalS_marshalS ok _ v b (by decide +kernel) (by decide +kernel) hm hc hl,
   fun hm hc => Fdo.Cbor.unmarshalS_marshalS ok _ v b (by decide +kernel) (by decide +kernel) hm hc hl⟩

end Fdo.Props.C13
