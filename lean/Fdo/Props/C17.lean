import Fdo.Svc.FsimProofs
/-
C17 — FSIM file transfers deliver identical files or nothing.

Model: Fdo/Svc/Fsim.lean (the module pairs fdo.download, fdo.upload, fdo.wget as transducers over
whole messages; how messages travel is C15); helper lemmas: Fdo/Svc/FsimProofs.lean.
`H` is SHA-384 as a parameter; nothing about it is assumed except where a hypothesis says so.
Every statement is for files of any length (induction over the data chunks), every chunk-size
setting (positive, 0 ⇒ 1014, negative ⇒ 65535, all clipped to the space the negotiated size
leaves) and every negotiated size at which the owner module's first message fits (`fits`, decidable,
the excluded sizes make the owner module fail before anything is sent: nothing is delivered).

COMMITTED STATE: `Variant.repaired` describes fsim/upload_owner.go and fsim/upload_device.go after
  fix: fsim: upload owner finishes when the digest has arrived and fails on a length mismatch
  fix: fsim: upload device sizes its data chunks to the negotiated service info size
`Variant.original` is the tree as found; the `…_original` theorems at the end are the regression
witnesses (each is a concrete input on which the harness shows the same behaviour of the unrepaired
library).  Download and wget are unchanged; for them the following parts of the property are FALSE
on the code and are recorded as theorems about the model instead of being repaired:
  * download, announced length larger than what arrives: nobody reports anything (`overlength_stalls`);
  * download of an empty file never completes (`download_empty_stalls`; outside the property, which
    starts at one byte);
  * wget, length other than `WgetCommand.Length`: the owner fails TO2 but the file is in place
    (`wget_length_mismatch_keeps_file`); fdo.wget has no message that tells the device a length.

Collision resistance is an assumption, never proved: where a corrupted transfer has to be told from
the announced one by its digest, the theorem has the hypothesis `H received ≠ H file` (or, for a
transfer cut at the announced length, that no proper prefix has the announced digest).
-/
namespace Fdo.Props.C17
open Fdo Fdo.Svc.Fsim

/-! ### the sender's chunks -/

/-- The data chunks a sender emits concatenate to the file, none is empty, none exceeds the chunk
size — for every chunk size ≥ 1 and every file. -/
theorem chunks_concat (c : Nat) (hc : 1 ≤ c) (file : Bytes) :
    (chunks c file).flatten = file ∧ ∀ x ∈ chunks c file, x ≠ [] ∧ x.length ≤ c :=
  ⟨chunks_flatten c hc file, fun x hx => chunks_mem c hc file x hx⟩

/-- The chunk size both senders really use is at least 1 for every setting: download for every
`ChunkSize` (positive, zero, negative) once a data message fits at all, upload for every size the
owner accepts. -/
theorem chunk_size_pos (mtu : Nat) (chunk : Int) (ownMtu : Nat) (V : Variant) :
    (1 ≤ dataAvail mtu → 1 ≤ dlChunk mtu chunk) ∧ 1 ≤ upChunk V ownMtu :=
  ⟨dlChunk_pos mtu chunk, upChunk_pos V ownMtu⟩

/-! ### honest runs deliver -/

/-- DOWNLOAD DELIVERS.  For every file of at least one byte, every name, every `ChunkSize` (also
≤ 0), `MustDownload` either way, every size at which the announcement fits: after the honest run
the destination holds exactly the file, no temp file is left, the device answered
`done = length`, the owner module completed, and exactly the chunks of `chunks_concat` were sent.

Full statement without the guard `1 ≤ file.length` is false on the code: see `download_empty_stalls`. -/
theorem download_delivers (H : Bytes → Bytes) (P : DlParams) (file : Bytes) (fs : FS)
    (hlen : 1 ≤ file.length) (hname : P.name ≠ [])
    (hfit : fits true P.mtu modDownload (dlAnnounce P.name file.length) = true)
    (hav : 1 ≤ dataAvail P.mtu) :
    (download H P file .none fs).fs = fs.set P.name file ∧
    (download H P file .none fs).fs P.name = some file ∧
    (download H P file .none fs).reply = some (file.length : Int) ∧
    (download H P file .none fs).owner = .done ∧
    (download H P file .none fs).dev = .fresh ∧
    (download H P file .none fs).nsent = (chunks (dlChunk P.mtu P.chunk) file).length := by
  have hc := dlChunk_pos P.mtu P.chunk hav
  have hne : file ≠ [] := by intro h; subst h; simp at hlen
  rw [download_eq H P file .none fs hfit hav]
  simp only [Transit.none, id]
  rw [deliver_honest]
  have hps : (chunks (dlChunk P.mtu P.chunk) file).map (fun c => (c, c)) ≠ [] := by
    intro h; exact chunks_ne_nil _ file hne (List.map_eq_nil_iff.mp h)
  have hnn : ∀ p ∈ (chunks (dlChunk P.mtu P.chunk) file).map (fun c => (c, c)), p.2 ≠ [] := by
    intro p hp
    obtain ⟨c, hcm, rfl⟩ := List.mem_map.mp hp
    exact (chunks_mem _ hc file c hcm).1
  have hgot : got ((chunks (dlChunk P.mtu P.chunk) file).map (fun c => (c, c))) = file := by
    rw [got_honest, chunks_flatten _ hc]
  have hsent : sentBytes ((chunks (dlChunk P.mtu P.chunk) file).map (fun c => (c, c))) = file := by
    have : (Prod.fst ∘ fun c : Bytes => (c, c)) = id := rfl
    simp [sentBytes, List.map_map, this, chunks_flatten _ hc]
  rw [dlLoop_complete H P.must P.name file.length (H file) _ 0 0 none fs hps hnn
    (by simp [hgot])]
  simp only [Option.getD_none, List.nil_append, hgot, hsent, Nat.zero_add, List.length_map]
  have hfin := dlFinalize_ok H ⟨P.name, file.length, H file, none⟩ fs file
    (by simp) (by simp) hname
  rw [dlEnd_done H P.must _ fs file _ _ _ _ _ hfin]
  have hown : dlOwnerDone P.must file.length (file.length : Int) = .done := by
    unfold dlOwnerDone
    have : ¬ (file.length : Int) = -1 := by omega
    simp [this]
  simp [hown]

/-- UPLOAD DELIVERS (repaired code).  For every file — also the empty one —, every size the owner
accepts (the device clips its chunks to it), every name: the owner stores exactly the file under
the base name, completes, and leaves no temp file.  The only assumption on `H` is that a digest is
not the empty string (the owner module treats an empty digest as "not yet received"). -/
theorem upload_delivers (H : Bytes → Bytes) (P : UpParams) (file : Bytes) (fs : FS)
    (hH : H file ≠ [])
    (hfit : fits false P.devMtu modUpload (upRequest P.name) = true) :
    (upload .repaired H P file .none fs).fs = fs.set (baseName P.name) file ∧
    (upload .repaired H P file .none fs).fs (baseName P.name) = some file ∧
    (upload .repaired H P file .none fs).owner = .done ∧
    (upload .repaired H P file .none fs).temp = false := by
  rw [upload_eq .repaired H P file .none fs hfit]
  unfold upFinal
  simp only [upBuf_eq]
  simp only [received_honest _ (upChunk_pos .repaired P.ownMtu)]
  simp [Transit.none, hH]

/-- WGET DELIVERS.  For every body the server returns (also empty), with or without an announced
checksum, with or without `Length`: the destination holds exactly the body, the device answers
`done = length`, the owner module completes. -/
theorem wget_delivers (H : Bytes → Bytes) (P : WgetParams) (file : Bytes) (fs : FS)
    (hname : P.name ≠ [])
    (hsum : P.sum = [] ∨ P.sum = H file)
    (hlen : P.len = 0 ∨ P.len = file.length)
    (hfit : fits false P.mtu modWget (wgetRequest P) = true) :
    (wget H P .none (some file) fs).fs = fs.set P.name file ∧
    (wget H P .none (some file) fs).fs P.name = some file ∧
    (wget H P .none (some file) fs).reply = some (.done file.length) ∧
    (wget H P .none (some file) fs).owner = .done := by
  unfold wget
  simp only [hfit, Bool.not_true, Bool.false_eq_true, if_false, Transit.none, id]
  have h1 : ¬ ((if P.sum = [] then [] else P.sum) ≠ [] ∧ H file ≠ (if P.sum = [] then [] else P.sum)) := by
    rcases hsum with h | h
    · simp [h]
    · by_cases he : P.sum = []
      · simp [he]
      · simp [he, h]
  have h2 : ¬ (P.len > 0 ∧ file.length ≠ P.len) := by
    rcases hlen with h | h
    · simp [h]
    · simp [h]
  simp only [h1, if_false, hname, h2]
  simp

/-! ### mismatch ⇒ no file, failure reported -/

/-- MISMATCH ⇒ NO FILE (download; the receiver is the device).  The device is told length
`T.len |file|` and digest `T.sha (H file)` and gets the bytes `received`.  If a digest is announced,
at least the announced number of bytes arrives, and the announced length or the announced digest
does not match what arrived, then nothing is put at any name (`fs` unchanged), the device's temp
file is gone, the device answers `done = -1`, and the owner module fails TO2 when `MustDownload`
is set and otherwise records the failure and completes.

`hcr` is needed only when the announced length is smaller than what arrives and ends exactly at a
message boundary: then the device checks the digest of that proper prefix; that it differs from the
announced digest is collision resistance (second preimage for a prefix), assumed not proved.
The case `T.len |file| > |received|` is `overlength_stalls`. -/
theorem mismatch_no_file (H : Bytes → Bytes) (P : DlParams) (file : Bytes) (T : Transit) (fs : FS)
    (hlen : 1 ≤ file.length)
    (hfit : fits true P.mtu modDownload (dlAnnounce P.name file.length) = true)
    (hav : 1 ≤ dataAvail P.mtu)
    (hs : T.sha (H file) ≠ [])
    (hL : T.len file.length ≤ ((received T (dlChunk P.mtu P.chunk) file).length : Int))
    (hmis : T.len file.length ≠ ((received T (dlChunk P.mtu P.chunk) file).length : Int) ∨
            T.sha (H file) ≠ H (received T (dlChunk P.mtu P.chunk) file))
    (hcr : ∀ p : Bytes, p <+: received T (dlChunk P.mtu P.chunk) file →
            (p.length : Int) = T.len file.length → p ≠ received T (dlChunk P.mtu P.chunk) file →
            H p ≠ T.sha (H file)) :
    (download H P file T fs).fs = fs ∧
    (download H P file T fs).dev = .fresh ∧
    (download H P file T fs).reply = some (-1) ∧
    (download H P file T fs).owner = (if P.must then .err else .done) := by
  have hne : file ≠ [] := by intro h; subst h; simp at hlen
  rw [download_eq H P file T fs hfit hav]
  have hps : deliver T.dat 0 (chunks (dlChunk P.mtu P.chunk) file) ≠ [] := by
    intro h
    have := deliver_length T.dat 0 (chunks (dlChunk P.mtu P.chunk) file)
    rw [h] at this
    exact chunks_ne_nil _ file hne (List.eq_nil_of_length_eq_zero this.symm)
  apply dlLoop_reject H P.must P.name _ _ _ 0 0 none fs hps
  · simpa [received] using hL
  · intro p hp hpl
    simp only [Option.getD_none, List.nil_append] at hp
    refine ⟨hs, ?_⟩
    by_cases heq : p = received T (dlChunk P.mtu P.chunk) file
    · subst heq
      rcases hmis with h | h
      · exact absurd hpl.symm h
      · exact fun h' => h h'.symm
    · exact hcr p hp hpl heq

/-- CORRUPTED DATA, INTACT DIGEST (download).  Length and digest arrive as announced, data chunks
are altered in transit without changing their sizes.  The only thing that tells the received bytes
from the file is the digest: under the hypothesis `H received ≠ H file` — collision resistance, an
assumption — nothing is delivered and the device answers -1. -/
theorem corrupt_data_no_file (H : Bytes → Bytes) (P : DlParams) (file : Bytes)
    (dat : Nat → Bytes → Bytes) (fs : FS)
    (hlen : 1 ≤ file.length)
    (hfit : fits true P.mtu modDownload (dlAnnounce P.name file.length) = true)
    (hav : 1 ≤ dataAvail P.mtu)
    (hH : H file ≠ [])
    (hsize : ∀ k c, (dat k c).length = c.length)
    (hcoll : H (received ⟨id, id, dat⟩ (dlChunk P.mtu P.chunk) file) ≠ H file) :
    (download H P file ⟨id, id, dat⟩ fs).fs = fs ∧
    (download H P file ⟨id, id, dat⟩ fs).reply = some (-1) ∧
    (download H P file ⟨id, id, dat⟩ fs).dev = .fresh := by
  have hrl := received_length ⟨id, id, dat⟩ hsize _ (dlChunk_pos P.mtu P.chunk hav) file
  have := mismatch_no_file H P file ⟨id, id, dat⟩ fs hlen hfit hav hH
    (by simp only [id]; omega) (Or.inr (fun h => hcoll h.symm))
    (by
      intro p hp hpl hne
      exfalso; apply hne
      simp only [id] at hpl
      exact List.IsPrefix.eq_of_length hp (by omega))
  exact ⟨this.1, this.2.2.1, this.2.1⟩

/-- ANNOUNCED LENGTH LARGER THAN WHAT ARRIVES (download) — here the property's "the receiver
reports failure" is FALSE on the code.  Nothing is put at any name, but nobody reports anything:
the device keeps waiting with its temp file (holding everything received), the owner module has
nothing left to send and never completes; TO2 exchanges empty service-info messages until the
1e6-round limit fails it.  (Every chunk-size setting, every file, also for `MustDownload`.) -/
theorem overlength_stalls (H : Bytes → Bytes) (P : DlParams) (file : Bytes) (T : Transit) (fs : FS)
    (hlen : 1 ≤ file.length)
    (hfit : fits true P.mtu modDownload (dlAnnounce P.name file.length) = true)
    (hav : 1 ≤ dataAvail P.mtu)
    (hL : ((received T (dlChunk P.mtu P.chunk) file).length : Int) < T.len file.length) :
    (download H P file T fs).fs = fs ∧
    (download H P file T fs).reply = none ∧
    (download H P file T fs).owner = .stall ∧
    (download H P file T fs).dev.temp = some (received T (dlChunk P.mtu P.chunk) file) := by
  have hne : file ≠ [] := by intro h; subst h; simp at hlen
  rw [download_eq H P file T fs hfit hav]
  have hps : deliver T.dat 0 (chunks (dlChunk P.mtu P.chunk) file) ≠ [] := by
    intro h
    have := deliver_length T.dat 0 (chunks (dlChunk P.mtu P.chunk) file)
    rw [h] at this
    exact chunks_ne_nil _ file hne (List.eq_nil_of_length_eq_zero this.symm)
  rw [dlLoop_short H P.must P.name _ _ _ 0 0 none fs (by simpa [received] using hL)]
  simp [hps, received]

/-- MISMATCH ⇒ NO FILE (upload, repaired code; the receiver is the owner module).  Whatever length
the owner is told and whatever bytes it gets: if a digest arrived and the announced length or the
digest does not match what was received — shorter, longer, altered — nothing is stored, the owner
module returns an error (TO2 fails) and its temp file is removed.  No assumption on `H`. -/
theorem mismatch_no_file_upload (H : Bytes → Bytes) (P : UpParams) (file : Bytes) (T : Transit) (fs : FS)
    (hfit : fits false P.devMtu modUpload (upRequest P.name) = true)
    (hs : T.sha (H file) ≠ [])
    (hmis : T.len file.length ≠ ((received T (upChunk .repaired P.ownMtu) file).length : Int) ∨
            T.sha (H file) ≠ H (received T (upChunk .repaired P.ownMtu) file)) :
    (upload .repaired H P file T fs).fs = fs ∧
    (upload .repaired H P file T fs).owner = .err ∧
    (upload .repaired H P file T fs).temp = false := by
  rw [upload_eq .repaired H P file T fs hfit]
  unfold upFinal
  simp only [upBuf_eq, hs, ne_eq, not_false_eq_true, if_true]
  rcases hmis with h | h
  · have h' : ¬ ((received T (upChunk .repaired P.ownMtu) file).length : Int) = T.len file.length :=
      fun e => h e.symm
    simp [h']
  · by_cases hl : ((received T (upChunk .repaired P.ownMtu) file).length : Int) = T.len file.length
    · simp [hl, h]
    · simp [hl]

/-- CORRUPTED DATA, INTACT DIGEST (upload, repaired code): as for download, the step from "the
bytes differ" to "the digest differs" is the collision-resistance hypothesis. -/
theorem corrupt_data_no_file_upload (H : Bytes → Bytes) (P : UpParams) (file : Bytes)
    (dat : Nat → Bytes → Bytes) (fs : FS)
    (hfit : fits false P.devMtu modUpload (upRequest P.name) = true)
    (hH : H file ≠ [])
    (hcoll : H (received ⟨id, id, dat⟩ (upChunk .repaired P.ownMtu) file) ≠ H file) :
    (upload .repaired H P file ⟨id, id, dat⟩ fs).fs = fs ∧
    (upload .repaired H P file ⟨id, id, dat⟩ fs).owner = .err :=
  have := mismatch_no_file_upload H P file ⟨id, id, dat⟩ fs hfit hH (Or.inr (fun h => hcoll h.symm))
  ⟨this.1, this.2.1⟩

/-- MISMATCH ⇒ NO FILE (wget, digest).  If a checksum is announced and the body the device gets
does not have it — altered checksum or altered body (then `H body ≠ sum` is the collision-resistance
hypothesis) —, or the GET fails, nothing is put at any name, the device answers `error` and the
owner module fails TO2. -/
theorem mismatch_no_file_wget (H : Bytes → Bytes) (P : WgetParams) (T : Transit) (body : Option Bytes) (fs : FS)
    (hsum : P.sum ≠ []) (hs : T.sha P.sum ≠ [])
    (hmis : ∀ b, body = some b → H b ≠ T.sha P.sum)
    (hfit : fits false P.mtu modWget (wgetRequest P) = true) :
    (wget H P T body fs).fs = fs ∧
    (wget H P T body fs).reply = some .error ∧
    (wget H P T body fs).owner = .err := by
  unfold wget
  simp only [hfit, Bool.not_true, Bool.false_eq_true, if_false, hsum]
  cases body with
  | none => simp
  | some b =>
    have := hmis b rfl
    simp [hs, this]

/-- LENGTH MISMATCH (wget) — here the property's "no file appears" is FALSE on the code.  fdo.wget
has no message announcing a length to the device; `WgetCommand.Length` is compared by the owner
module with the device's `done` value after the device has already renamed the file into place.
For every body whose length differs from a given `Length` (digest absent or matching): the owner
module fails TO2, and the destination holds the body. -/
theorem wget_length_mismatch_keeps_file (H : Bytes → Bytes) (P : WgetParams) (b : Bytes) (fs : FS)
    (hname : P.name ≠ []) (hsum : P.sum = [] ∨ P.sum = H b)
    (hlen : P.len > 0 ∧ b.length ≠ P.len)
    (hfit : fits false P.mtu modWget (wgetRequest P) = true) :
    (wget H P .none (some b) fs).fs P.name = some b ∧
    (wget H P .none (some b) fs).owner = .err := by
  unfold wget
  simp only [hfit, Bool.not_true, Bool.false_eq_true, if_false, Transit.none, id]
  have h1 : ¬ ((if P.sum = [] then [] else P.sum) ≠ [] ∧ H b ≠ (if P.sum = [] then [] else P.sum)) := by
    rcases hsum with h | h
    · simp [h]
    · by_cases he : P.sum = []
      · simp [he]
      · simp [he, h]
  simp only [h1, if_false, hname, hlen]
  simp [hlen.2]

/-- DOWNLOAD OF AN EMPTY FILE (outside the property, which starts at one byte; the reason for the
guard in `download_delivers`): the owner announces length 0 and has no data message to send, the
device finalises only on a data message: neither side ever completes. -/
theorem download_empty_stalls (H : Bytes → Bytes) (P : DlParams) (T : Transit) (fs : FS)
    (hfit : fits true P.mtu modDownload (dlAnnounce P.name 0) = true)
    (hav : 1 ≤ dataAvail P.mtu) :
    (download H P [] T fs).fs = fs ∧ (download H P [] T fs).reply = none ∧
    (download H P [] T fs).owner = .stall := by
  rw [download_eq H P [] T fs hfit hav]
  simp [chunks_nil, deliver, dlLoop]

/-! ### the tree as found (regression witnesses for the two upload repairs)

Full-strength statements that are FALSE for `Variant.original`:
  theorem upload_delivers_original … (file arbitrary) : (upload .original H P file .none fs).owner = .done
  theorem mismatch_no_file_upload_original … : (upload .original H P file T fs).owner = .err ∧ temp = false
-/

/-- What does hold for the code as found: files of at least one byte are delivered (message level;
that a 1014-byte chunk is cut in two when the owner accepts less than 1042 bytes per message, and
that the owner module cannot decode the pieces, is below this model — the harness shows it). -/
theorem upload_delivers_original_partial (H : Bytes → Bytes) (P : UpParams) (file : Bytes) (fs : FS)
    (hlen : 1 ≤ file.length) (hH : H file ≠ [])
    (hfit : fits false P.devMtu modUpload (upRequest P.name) = true) :
    (upload .original H P file .none fs).fs (baseName P.name) = some file ∧
    (upload .original H P file .none fs).owner = .done ∧
    (upload .original H P file .none fs).temp = false := by
  rw [upload_eq .original H P file .none fs hfit]
  unfold upFinal
  simp only [upBuf_eq]
  simp only [received_honest _ (upChunk_pos .original P.ownMtu)]
  have h1 : 0 < file.length := by omega
  simp [Transit.none, hH, h1]

/-- Tree as found, over-announced length: for every file of at least one byte and every announced
length larger than what arrives, the owner module neither completes nor fails, and its temp file
stays. -/
theorem upload_overlength_stalls_original (H : Bytes → Bytes) (P : UpParams) (file : Bytes) (T : Transit) (fs : FS)
    (hlen : 1 ≤ file.length)
    (hfit : fits false P.devMtu modUpload (upRequest P.name) = true)
    (hL : ((received T (upChunk .original P.ownMtu) file).length : Int) < T.len file.length) :
    (upload .original H P file T fs).fs = fs ∧
    (upload .original H P file T fs).owner = .stall ∧
    (upload .original H P file T fs).temp = true := by
  have hne : file ≠ [] := by intro h; subst h; simp at hlen
  rw [upload_eq .original H P file T fs hfit]
  unfold upFinal
  simp only [upBuf_eq]
  have h1 : ¬ ((received T (upChunk .original P.ownMtu) file).length : Int) ≥ T.len file.length := by
    simp only [ge_iff_le]; omega
  simp [h1, chunks_ne_nil _ file hne]

/-- Tree as found, empty file: the honest upload of an empty file never completes. -/
theorem upload_empty_stalls_original (H : Bytes → Bytes) (P : UpParams) (fs : FS)
    (hfit : fits false P.devMtu modUpload (upRequest P.name) = true) :
    (upload .original H P [] .none fs).fs = fs ∧ (upload .original H P [] .none fs).owner = .stall := by
  rw [upload_eq .original H P [] .none fs hfit]
  unfold upFinal
  simp [Transit.none]

/-- Tree as found, any failed check: the temp file is left behind (digest mismatch shown; the
"received more than announced" branch is the same). -/
theorem upload_failure_leaves_temp_original (H : Bytes → Bytes) (P : UpParams) (file : Bytes) (T : Transit) (fs : FS)
    (hlen : 1 ≤ file.length)
    (hfit : fits false P.devMtu modUpload (upRequest P.name) = true)
    (hs : T.sha (H file) ≠ [])
    (hL : T.len file.length = ((received T (upChunk .original P.ownMtu) file).length : Int))
    (hpos : T.len file.length > 0)
    (hmis : T.sha (H file) ≠ H (received T (upChunk .original P.ownMtu) file)) :
    (upload .original H P file T fs).owner = .err ∧ (upload .original H P file T fs).temp = true := by
  have hne : file ≠ [] := by intro h; subst h; simp at hlen
  rw [upload_eq .original H P file T fs hfit]
  unfold upFinal
  simp only [upBuf_eq]
  have h1 : ((received T (upChunk .original P.ownMtu) file).length : Int) ≥ T.len file.length := by
    simp only [ge_iff_le]; omega
  have h2 : ¬ ((received T (upChunk .original P.ownMtu) file).length : Int) > T.len file.length := by
    omega
  simp [hs, hpos, h1, h2, hmis, chunks_ne_nil _ file hne]

/-! ### non-vacuity -/

/-- A toy digest for the examples (the theorems hold for every `H`). -/
private def toyH (b : Bytes) : Bytes :=
  [UInt8.ofNat (b.foldl (fun a x => a * 3 + x.toNat) 7), UInt8.ofNat b.length]

private def nm : Bytes := [97, 46, 98]                 -- "a.b"
private def f5 : Bytes := [10, 20, 30, 40, 50]
private def dl2 : DlParams := ⟨1300, 2, true, nm⟩       -- ChunkSize 2
private def dl0 : DlParams := ⟨160, 0, false, nm⟩       -- default chunk size at a small negotiated size
private def up : UpParams := ⟨1300, 40, [100, 47, 97, 46, 98]⟩   -- "d/a.b", owner accepts 40 bytes

/-- The guards of `download_delivers` are satisfiable, at the default size and at a small one; below
the announcement does not fit. -/
example : fits true 1300 modDownload (dlAnnounce nm 5) = true ∧ 1 ≤ dataAvail 1300 := by decide
example : fits true 160 modDownload (dlAnnounce nm 5) = true ∧ dataAvail 160 = 131 := by decide
example : fits true 120 modDownload (dlAnnounce nm 5) = false := by decide
example : (chunks (dlChunk 1300 2) f5) = [[10, 20], [30, 40], [50]] := by decide
example : dlChunk 1300 0 = 1014 ∧ dlChunk 1300 (-1) = 1271 ∧ dlChunk 65535 (-7) = 65506 ∧ dlChunk 160 65535 = 131 := by
  decide

/-- Instances of `download_delivers`. -/
example : (download toyH dl2 f5 .none FS.empty).fs nm = some f5 :=
  (download_delivers toyH dl2 f5 FS.empty (by decide) (by decide) (by decide) (by decide)).2.1
example : (download toyH dl0 f5 .none FS.empty).reply = some 5 :=
  (download_delivers toyH dl0 f5 FS.empty (by decide) (by decide) (by decide) (by decide)).2.2.1

/-- Instance of `upload_delivers` (three chunks of 12 bytes at most … here 5 bytes in one), stored
under the base name; and the empty file. -/
example : upChunk .repaired 40 = 12 ∧ upChunk .repaired 1300 = 1014 ∧ upChunk .repaired 20 = 1 := by decide
example : (upload .repaired toyH up f5 .none FS.empty).fs [97, 46, 98] = some f5 := by
  have := (upload_delivers toyH up f5 FS.empty (by decide) (by decide)).2.1
  simpa [up, baseName] using this
example : (upload .repaired toyH up [] .none FS.empty).owner = .done :=
  (upload_delivers toyH up [] FS.empty (by decide) (by decide)).2.2.1

/-- Instance of `wget_delivers` with checksum and length. -/
example : (wget toyH ⟨1300, nm, 30, toyH f5, 5⟩ .none (some f5) FS.empty).fs nm = some f5 :=
  (wget_delivers toyH ⟨1300, nm, 30, toyH f5, 5⟩ f5 FS.empty (by decide) (Or.inr rfl) (Or.inr rfl) (by decide)).2.1

/-- `mismatch_no_file`, digest altered in transit: all hypotheses hold (the prefix hypothesis is
void because the announced length is what arrives). -/
example : (download toyH dl2 f5 ⟨id, fun d => 0 :: d.drop 1, fun _ c => c⟩ FS.empty).reply = some (-1) :=
  (mismatch_no_file toyH dl2 f5 ⟨id, fun d => 0 :: d.drop 1, fun _ c => c⟩ FS.empty
    (by decide) (by decide) (by decide) (by decide) (by decide) (Or.inr (by decide))
    (fun p hp hpl hne => absurd (List.IsPrefix.eq_of_length hp (by
      have h5 : (received ⟨id, fun d => 0 :: d.drop 1, fun _ c => c⟩ (dlChunk dl2.mtu dl2.chunk) f5).length = 5 := by
        decide
      have h6 : ((f5.length : Nat) : Int) = 5 := by decide
      simp only [id] at hpl
      omega)) hne)).2.2.1

/-- `mismatch_no_file`, length under-announced by three so that it ends at a chunk boundary (2 of 5
bytes, chunks of 2): the prefix hypothesis is about the single prefix `[10, 20]` and holds for the toy
digest. -/
example : (download toyH dl2 f5 ⟨fun n => n - 3, id, fun _ c => c⟩ FS.empty).fs nm = none := by
  have := (mismatch_no_file toyH dl2 f5 ⟨fun n => n - 3, id, fun _ c => c⟩ FS.empty
    (by decide) (by decide) (by decide) (by decide) (by decide) (Or.inl (by decide))
    (fun p hp hpl _ => by
      have hr : received ⟨fun n => n - 3, id, fun _ c => c⟩ (dlChunk dl2.mtu dl2.chunk) f5 = f5 := by decide
      rw [hr] at hp
      have h6 : ((f5.length : Nat) : Int) = 5 := by decide
      have hl : p.length = 2 := by simp only [] at hpl; omega
      have : p = [10, 20] := by
        have := List.prefix_iff_eq_take.mp hp
        rw [hl] at this; rw [this]; decide
      subst this; decide)).1
  rw [this]; rfl

/-- `overlength_stalls`, `mismatch_no_file_upload` (one byte too many announced; a data byte altered),
`mismatch_no_file_wget`, `wget_length_mismatch_keeps_file`: hypotheses hold on concrete inputs. -/
example : (download toyH dl2 f5 ⟨fun n => n + 1, id, fun _ c => c⟩ FS.empty).owner = .stall :=
  (overlength_stalls toyH dl2 f5 ⟨fun n => n + 1, id, fun _ c => c⟩ FS.empty
    (by decide) (by decide) (by decide) (by decide)).2.2.1
example : (upload .repaired toyH up f5 ⟨fun n => n + 1, id, fun _ c => c⟩ FS.empty).owner = .err :=
  (mismatch_no_file_upload toyH up f5 ⟨fun n => n + 1, id, fun _ c => c⟩ FS.empty
    (by decide) (by decide) (Or.inl (by decide))).2.1
example : (upload .repaired toyH up f5 ⟨id, id, fun _ c => c.map (· + 1)⟩ FS.empty).fs = FS.empty :=
  (corrupt_data_no_file_upload toyH up f5 (fun _ c => c.map (· + 1)) FS.empty (by decide) (by decide) (by decide)).1
example : (wget toyH ⟨1300, nm, 30, toyH f5, 0⟩ .none (some [1, 2, 3]) FS.empty).reply = some .error :=
  (mismatch_no_file_wget toyH ⟨1300, nm, 30, toyH f5, 0⟩ .none (some [1, 2, 3]) FS.empty (by decide) (by decide)
    (fun b hb => by cases hb; decide) (by decide)).2.1
example : (wget toyH ⟨1300, nm, 30, [], 6⟩ .none (some f5) FS.empty).fs nm = some f5 ∧
    (wget toyH ⟨1300, nm, 30, [], 6⟩ .none (some f5) FS.empty).owner = .err :=
  wget_length_mismatch_keeps_file toyH ⟨1300, nm, 30, [], 6⟩ f5 FS.empty (by decide) (Or.inl rfl) (by decide) (by decide)

/-- The same upload inputs on the tree as found. -/
example : (upload .original toyH up f5 ⟨fun n => n + 1, id, fun _ c => c⟩ FS.empty).owner = .stall :=
  (upload_overlength_stalls_original toyH up f5 ⟨fun n => n + 1, id, fun _ c => c⟩ FS.empty
    (by decide) (by decide) (by decide)).2.1
example : (upload .original toyH up [] .none FS.empty).owner = .stall :=
  (upload_empty_stalls_original toyH up FS.empty (by decide)).2

end Fdo.Props.C17
