import Fdo.Proto.ServerProofs
import Fdo.Facts
/-
C02 — the owner serves only a peer that proved the device key for this session.

Statements about `Fdo.Proto.Server.step` for the state reached by ANY history of requests and ANY
next request. Signature verification, nonce equality and the key agreement are the symbolic
fields of a request (`signer`, `nonceOf`, `enc`); the correspondence harness builds real tokens,
signatures and ciphertexts from them and checks that the real owner decides the same.
-/
namespace Fdo.Props.C02
open Fdo.Proto.Server

/-- the response or effect is one that only a proven device may get -/
def Privileged (resp : Nat) (eff : List Effect) : Prop :=
  resp = 65 ∨ resp = 67 ∨ resp = 69 ∨ resp = 71 ∨
  ∃ e ∈ eff, (∃ k, e = .ownerModule k) ∨ (∃ k d, e = .replaceVoucher k d)

/-- **SetupDevice, the service-info answers, Done2, owner-module invocations and voucher
replacement happen only in a session that accepted a ProveDevice token** `q`, received in that
same session (`q.tok = .sess k`), signed by the key of the device the session's HelloDevice named
(`q.signer = some d`), carrying that session's nonce (`q.nonceOf = some k`) and that device's GUID as
UEID (`q.dev = d`); the session's tunnel keys are those derived from that token's key-exchange
parameter (`kex = done q.xb`), every one of 66–70 that was served was encrypted under exactly
these keys, and when the answer is SetupDevice the token is the present request itself. -/
theorem served_only_after_proof (v : List Nat) (reuse : Bool) (m : Nat) (history : List Req) (r : Req) :
    let st := stateAfter (init v reuse m) history
    Privileged (step st r).2.1 (step st r).2.2 →
    ∃ k s' q d, r.tok = .sess k ∧ (step st r).1.sessions[k]? = some s' ∧
      s'.proved = some q ∧ q.typ = 64 ∧ q.tok = .sess k ∧
      s'.guid = some d ∧ q.signer = some d ∧ q.dev = d ∧ q.nonceOf = some k ∧
      s'.kex = .done q.xb ∧ q.xb ≠ 0 ∧
      ((step st r).2.1 ≠ 65 → r.enc = some (k, q.xb)) ∧ ((step st r).2.1 = 65 → q = r) := by
  intro st hpriv
  have hinv : Inv st := stateAfter_inv (init_inv v reuse m) history
  have hinv' : Inv (step st r).1 := step_preserves hinv r
  have sp := step_spec st r
  generalize step st r = res at sp hpriv hinv'
  -- only an answered non-start request can be privileged
  have served_case : ∀ (p : Proto) (k : Nat) (s s' : Sess) (resp : Nat) (eff : List Effect),
      r.tok = .sess k → st.sessions[k]? = some s → handle st k s r = some (s', resp, eff) →
      Inv (applyEffs { st with sessions := st.sessions.set k (finish s' r.typ resp) } eff) →
      Privileged resp eff →
      ∃ s'' q d, r.tok = .sess k ∧
        (applyEffs { st with sessions := st.sessions.set k (finish s' r.typ resp) } eff).sessions[k]? = some s'' ∧
        s''.proved = some q ∧ q.typ = 64 ∧ q.tok = .sess k ∧ s''.guid = some d ∧ q.signer = some d ∧ q.dev = d ∧
        q.nonceOf = some k ∧ s''.kex = .done q.xb ∧ q.xb ≠ 0 ∧ (resp ≠ 65 → r.enc = some (k, q.xb)) ∧
        (resp = 65 → q = r) := by
    intro p k s s' resp eff htok hs hh hi hp
    have hk := lt_of_get hs
    have hr := handle_resp hh
    have hresp : resp = 65 ∨ resp = 67 ∨ resp = 69 ∨ resp = 71 := by
      rcases hp with h | h | h | h | ⟨e, he, h⟩
      · exact Or.inl h
      · exact Or.inr (Or.inl h)
      · exact Or.inr (Or.inr (Or.inl h))
      · exact Or.inr (Or.inr (Or.inr h))
      · have hn := handle_effects (hinv k s hs) hh e he
        rcases h with ⟨k', rfl⟩ | ⟨k', d, rfl⟩
        · have : r.typ = 68 := hn.2.1
          exact Or.inr (Or.inr (Or.inl (by omega)))
        · have : r.typ = 70 := hn.2.1
          exact Or.inr (Or.inr (Or.inr (by omega)))
    obtain ⟨xb, hkx, henc, h65⟩ := handle_served_kex hh hresp
    have hget : (applyEffs { st with sessions := st.sessions.set k (finish s' r.typ resp) } eff).sessions[k]?
        = some (finish s' r.typ resp) := by
      rw [applyEffs_sessions]; exact List.getElem?_set_self hk
    have hok : SessOK k (finish s' r.typ resp) := hi k _ hget
    obtain ⟨q, hq, hqt, hqtok, hqs, ⟨d, hd⟩, hqn, hqd, hqx, hx0⟩ := hok.proved xb (by simpa [finish] using hkx)
    refine ⟨finish s' r.typ resp, q, d, htok, hget, hq, hqt, hqtok, hd, by rw [hqs, hd], ?_, hqn, ?_, ?_, ?_, ?_⟩
    · rw [hd] at hqd; exact (Option.some.inj hqd)
    · simp only [finish]; rw [hqx]; exact hkx
    · rw [hqx]; exact hx0
    · intro hne; rw [hqx]; exact henc hne
    · intro he
      rcases handle_kex_done hh xb hkx with ⟨_, _, _, hne⟩ | ⟨_, _, _, hpr, _⟩
      · exact absurd (h65 he) hne
      · have : (finish s' r.typ resp).proved = s'.proved := rfl
        rw [this, hpr] at hq; exact (Option.some.inj hq).symm
  cases sp with
  | errMsg _ =>
    rcases hpriv with h | h | h | h | ⟨e, he, _⟩ <;> simp at *
  | unknown _ _ =>
    rcases hpriv with h | h | h | h | ⟨e, he, _⟩ <;> simp at *
  | startOk p s' resp eff _ _ hst hh =>
    exfalso
    have hr := handle_resp hh
    have he := handle_start_no_effects hst hh
    subst he
    simp only [isStart, Bool.or_eq_true, beq_iff_eq] at hst
    rcases hpriv with h | h | h | h | ⟨e, he, _⟩
    all_goals (first | (simp at he; done) | (simp only at h; omega))
  | startErr _ _ _ _ _ =>
    rcases hpriv with h | h | h | h | ⟨e, he, _⟩ <;> simp at *
  | served p k s s' resp eff _ _ _ htok hs _ _ hh =>
    obtain ⟨s1, q, d, h1⟩ := served_case p k s s' resp eff htok hs hh hinv' hpriv
    exact ⟨k, s1, q, d, h1⟩
  | rejected _ _ _ _ _ _ _ _ _ _ =>
    rcases hpriv with h | h | h | h | ⟨e, he, _⟩ <;> simp at *
  | noSession _ _ _ _ _ =>
    rcases hpriv with h | h | h | h | ⟨e, he, _⟩ <;> simp at *

/-- no session that named device `d` has a completed key exchange -/
def NoProof (d : Nat) (st : State) : Prop :=
  ∀ (k : Nat) (s : Sess), st.sessions[k]? = some s → s.guid = some d → ∀ xb, s.kex ≠ .done xb


theorem noProof_init (d : Nat) (v : List Nat) (b : Bool) (m : Nat) : NoProof d (init v b m) := by
  intro k s h; simp [init] at h

/-- a request that is not a ProveDevice signed with `d`'s key cannot complete `d`'s key exchange -/
theorem noProof_step {d : Nat} {st : State} (h : NoProof d st) (r : Req)
    (hr : r.typ = 64 → r.signer ≠ some d) : NoProof d (step st r).1 := by
  have sp := step_spec st r
  generalize step st r = res at sp
  cases sp with
  | errMsg _ =>
    intro j s hj hg xb
    have : (killTok st.sessions r.tok)[j]? = some s := hj
    rw [killTok_get] at this
    split at this
    · cases hs0 : st.sessions[j]? with
      | none => rw [hs0] at this; cases this
      | some s0 =>
        rw [hs0] at this; simp at this; subst this
        exact h j s0 hs0 hg xb
    · exact h j s this hg xb
  | unknown _ _ => exact h
  | startOk p s' resp eff _ _ hst hh =>
    intro j s hj hg xb hk
    have hj' : (st.sessions ++ [finish s' r.typ resp])[j]? = some s := by
      have : (applyEffs { st with sessions := st.sessions ++ [finish s' r.typ resp] } eff).sessions[j]? = some s := hj
      rwa [applyEffs_sessions] at this
    rw [List.getElem?_append] at hj'
    split at hj'
    · exact h j s hj' hg xb hk
    · rename_i hlt
      have : j - st.sessions.length = 0 ∨ j - st.sessions.length ≥ 1 := by omega
      rcases this with h0 | h1
      · rw [h0] at hj'; simp at hj'; subst hj'
        rcases handle_kex_done hh xb (by simpa [finish] using hk) with ⟨hk0, _⟩ | ⟨h64, _⟩
        · simp at hk0
        · rw [h64] at hst; simp [isStart] at hst
      · have : ([finish s' r.typ resp] : List Sess)[j - st.sessions.length]? = none := by
          apply List.getElem?_eq_none; simp; omega
        rw [this] at hj'; cases hj'
  | startErr p _ _ _ _ =>
    intro j s hj hg xb hk
    have hj' : (st.sessions ++ [dead { proto := p }])[j]? = some s := hj
    rw [List.getElem?_append] at hj'
    split at hj'
    · exact h j s hj' hg xb hk
    · have : j - st.sessions.length = 0 ∨ j - st.sessions.length ≥ 1 := by omega
      rcases this with h0 | h1
      · rw [h0] at hj'; simp at hj'; subst hj'; simp [dead] at hg
      · have : ([dead { proto := p }] : List Sess)[j - st.sessions.length]? = none := by
          apply List.getElem?_eq_none; simp; omega
        rw [this] at hj'; cases hj'
  | served p k s0 s' resp eff _ _ _ _ hs0 _ _ hh =>
    intro j s hj hg xb hk
    have hj' : (st.sessions.set k (finish s' r.typ resp))[j]? = some s := by
      have : (applyEffs { st with sessions := st.sessions.set k (finish s' r.typ resp) } eff).sessions[j]? = some s := hj
      rwa [applyEffs_sessions] at this
    by_cases hkj : k = j
    · subst hkj
      rw [List.getElem?_set_self (lt_of_get hs0)] at hj'
      simp at hj'; subst hj'
      rcases handle_kex_done hh xb (by simpa [finish] using hk) with ⟨hk0, hg0, _⟩ | ⟨h64, hsig, hg0, _⟩
      · exact h k s0 hs0 (by rw [← hg0]; exact hg) xb hk0
      · exact hr h64 (by rw [hsig, ← hg0]; exact hg)
    · rw [List.getElem?_set_ne hkj] at hj'
      exact h j s hj' hg xb hk
  | rejected p k s0 _ _ _ _ hs0 _ _ =>
    intro j s hj hg xb hk
    have hj' : (st.sessions.set k (dead s0))[j]? = some s := hj
    by_cases hkj : k = j
    · subst hkj
      rw [List.getElem?_set_self (lt_of_get hs0)] at hj'
      simp at hj'; subst hj'
      exact h k s0 hs0 hg xb hk
    · rw [List.getElem?_set_ne hkj] at hj'
      exact h j s hj' hg xb hk
  | noSession _ _ _ _ _ => exact h

theorem noProof_history {d : Nat} {st : State} (h : NoProof d st) (rs : List Req)
    (hno : ∀ q ∈ rs, q.typ = 64 → q.signer ≠ some d) : NoProof d (stateAfter st rs) := by
  unfold stateAfter
  induction rs generalizing st with
  | nil => exact h
  | cons r rs ih =>
    simp only [List.foldl_cons]
    exact ih (noProof_step h r (hno r (by simp))) (fun q hq => hno q (by simp [hq]))

/-- **Without the device's private key: nothing but the voucher and errors.** If no ProveDevice
in the whole history, nor the present request, is signed with device `d`'s key — whatever else the
peer sends, in whatever order, under whatever tokens, nonces and encryption — then every request
on a session whose HelloDevice named `d` is answered by an ownership-voucher entry (63) or an error
and causes no effect, and no request at all replaces `d`'s voucher. -/
theorem no_device_key_only_errors (v : List Nat) (reuse : Bool) (m : Nat) (d : Nat) (history : List Req) (r : Req)
    (hno : ∀ q ∈ history, q.typ = 64 → q.signer ≠ some d) (hr : r.typ = 64 → r.signer ≠ some d) :
    let st := stateAfter (init v reuse m) history
    (∀ (k : Nat) (s : Sess), r.tok = .sess k → isStart r.typ = false → st.sessions[k]? = some s → s.guid = some d →
      ((step st r).2.1 = 63 ∨ (step st r).2.1 = 255 ∨ (step st r).2.1 = 0) ∧ (step st r).2.2 = []) ∧
    (∀ e ∈ (step st r).2.2, ∀ k', e ≠ .replaceVoucher k' d) := by
  intro st
  have hinv : Inv st := stateAfter_inv (init_inv v reuse m) history
  have hnp : NoProof d st := noProof_history (noProof_init d v reuse m) history hno
  -- a served request on a session of `d` is not privileged
  have key : ∀ (k : Nat) (s s' : Sess) (resp : Nat) (eff : List Effect), st.sessions[k]? = some s → s.guid = some d →
      handle st k s r = some (s', resp, eff) → ¬ (resp = 65 ∨ resp = 67 ∨ resp = 69 ∨ resp = 71) := by
    intro k s s' resp eff hs hg hh hresp
    obtain ⟨xb, hkx, _, _⟩ := handle_served_kex hh hresp
    rcases handle_kex_done hh xb hkx with ⟨hk0, _⟩ | ⟨h64, hsig, _⟩
    · exact hnp k s hs hg xb hk0
    · exact hr h64 (by rw [hsig, hg])
  have sp := step_spec st r
  generalize step st r = res at sp
  constructor
  · intro k s htok hst hs hg
    cases sp with
    | errMsg _ => exact ⟨Or.inr (Or.inr rfl), rfl⟩
    | unknown _ _ => exact ⟨Or.inr (Or.inl rfl), rfl⟩
    | startOk _ _ _ _ _ _ h _ => rw [hst] at h; cases h
    | startErr _ _ _ h _ => rw [hst] at h; cases h
    | served p k' s0 s' resp eff _ hp _ htok' hs0 _ hpr hh =>
      rw [htok] at htok'; cases htok'
      rw [hs] at hs0; cases hs0
      have hresp := handle_resp hh
      have hnot := key k s s' resp eff hs hg hh
      have hto2 : s.proto = .to2 := (hinv k s hs).hproto (by rw [hg]; simp)
      have htyp : r.typ = 62 := by
        have hreq := handle_request_type hh
        have hp2 : protoOf r.typ = some Proto.to2 := by rw [hp, ← hto2, hpr]
        simp only [isStart, Bool.or_eq_false_iff, beq_eq_false_iff_ne] at hst
        rcases hreq with h | h | h | h | h | h | h | h | h | h | h | h
        all_goals (first
          | (rw [h] at hp2; simp [protoOf] at hp2; done)
          | (exact absurd h hst.2)
          | exact h
          | (exfalso; exact hnot (Or.inl (by omega)))
          | (exfalso; exact hnot (Or.inr (Or.inl (by omega))))
          | (exfalso; exact hnot (Or.inr (Or.inr (Or.inl (by omega)))))
          | (exfalso; exact hnot (Or.inr (Or.inr (Or.inr (by omega))))))
      refine ⟨Or.inl (by simp only; omega), ?_⟩
      apply List.eq_nil_iff_forall_not_mem.mpr
      intro e he
      have hn := handle_effects (hinv k s hs) hh e he
      cases e with
      | addVoucher _ => have := hn.2.1; omega
      | setBlob _ _ => have := hn.2.1; omega
      | ownerModule _ => have := hn.2.1; omega
      | replaceVoucher _ _ => have := hn.2.1; omega
    | rejected _ _ _ _ _ _ _ _ _ _ => exact ⟨Or.inr (Or.inl rfl), rfl⟩
    | noSession _ _ _ _ _ => exact ⟨Or.inr (Or.inl rfl), rfl⟩
  · intro e he k' hrep
    subst hrep
    cases sp with
    | errMsg _ => simp at he
    | unknown _ _ => simp at he
    | startOk p s' resp eff _ _ hst hh =>
      have := handle_start_no_effects hst hh
      subst this; simp at he
    | startErr _ _ _ _ _ => simp at he
    | served p k s s' resp eff _ _ _ _ hs _ _ hh =>
      have hg := handle_replace_guid hh k' d he
      have hn := handle_effects (hinv k s hs) hh _ he
      have h70 : r.typ = 70 := hn.2.1
      have hresp := handle_resp hh
      exact key k s s' resp eff hs hg hh (Or.inr (Or.inr (Or.inr (by omega))))
    | rejected _ _ _ _ _ _ _ _ _ _ => simp at he
    | noSession _ _ _ _ _ => simp at he

/-! Non-vacuity: the honest run is served; the same run with the token signed by another device's
key, with another session's nonce, another device's UEID, or with later messages under self-chosen
keys, gets nothing but errors. -/

example : (run (init [1, 2] false 2) [
    { tok := .none, typ := 60, dev := 1 },
    { tok := .sess 0, typ := 64, dev := 1, nonceOf := some 0, signer := some 1, xb := 7 },
    { tok := .sess 0, typ := 66, enc := some (0, 7), hmac := true }]).2 = [(61, []), (65, []), (67, [])] := by decide

example : (run (init [1, 2] false 2) [
    { tok := .none, typ := 60, dev := 1 },
    { tok := .sess 0, typ := 64, dev := 1, nonceOf := some 0, signer := some 2, xb := 7 },
    { tok := .sess 0, typ := 66, enc := some (0, 7), hmac := true }]).2 = [(61, []), (255, []), (255, [])] := by decide

example : (run (init [1, 2] false 2) [
    { tok := .none, typ := 60, dev := 1 }, { tok := .none, typ := 60, dev := 1 },
    { tok := .sess 0, typ := 64, dev := 1, nonceOf := some 1, signer := some 1, xb := 7 },
    { tok := .sess 1, typ := 64, dev := 2, nonceOf := some 1, signer := some 1, xb := 8 },
    { tok := .sess 1, typ := 70, enc := none, nonceOf := some 1 }]).2 =
    [(61, []), (61, []), (255, []), (255, []), (255, [])] := by decide


/-- **What the source does, in which order** (regenerated call-order facts of
`TO2Server.setupDevice` and `Handler.handleRequest`): the device key is taken from the voucher, the
token is verified, the session nonce is fetched and two comparisons (nonce, UEID) are made — all
before the key exchange is completed (`SetParameter`) and before the replacement credential is
chosen; requests 66–70 are decrypted under the session's keys before they reach the responder. -/
theorem code_facts :
    Fdo.Facts.allBefore "TO2Server.setupDevice" ["Voucher", "DevicePublicKey", "Verify", "ProveDeviceNonce", "Equal"] "SetParameter" = true ∧
    Fdo.Facts.before "TO2Server.setupDevice" "DevicePublicKey" "Verify" = true ∧
    Fdo.Facts.before "TO2Server.setupDevice" "SetParameter" "replacementCredential" = true ∧
    Fdo.Facts.before "TO2Server.setupDevice" "SetParameter" "Sign" = true ∧
    Fdo.Facts.atLeast "TO2Server.setupDevice" "Equal" 2 = true ∧
    Fdo.Facts.before "Handler.handleRequest" "CryptSession" "Decrypt" = true ∧
    Fdo.Facts.before "Handler.handleRequest" "Decrypt" "writeResponse" = true := by decide +kernel

end Fdo.Props.C02
