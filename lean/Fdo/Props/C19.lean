import Fdo.Proto.ServerIsolation
import Fdo.Facts
import Fdo.Svc.PipelineProofs
/-
C19 — concurrent onboardings through one server are isolated (the logical part).

What a theorem can carry here is non-interference at the granularity of atomic handler steps of the
request-level server model: which state a response can depend on, and that requests of other
sessions on other devices do not change it. Memory-level data races and goroutine deadlocks live in
the Go runtime; they are evidenced by the race detector and the watchdog of the harness, not proved.
-/
namespace Fdo.Props.C19
open Fdo.Proto.Server

/-- **No cross-session read.** The answer to a request on session `k` (response type and effects)
and the state `k` is left in are a function of `k`'s own state, the request, the configuration, and
the voucher / blob presence of the devices the request touches (the one it names and the one the
session's HelloDevice named): two deployments that agree on these — however different their other
sessions, nonces, keys, vouchers and module progress — answer identically. -/
theorem no_cross_session_read {st1 st2 : State} {r : Req} {k : Nat} {s : Sess}
    (htok : r.tok = .sess k) (hst : isStart r.typ = false) (h255 : r.typ ≠ 255)
    (h1 : st1.sessions[k]? = some s) (h2 : st2.sessions[k]? = some s)
    (hsame : SameFor (Touches s r) st1 st2) :
    (step st1 r).2 = (step st2 r).2 ∧ (step st1 r).1.sessions[k]? = (step st2 r).1.sessions[k]? :=
  step_local htok hst h255 h1 h2 hsame

/-- **A request changes only what it touches**: the configuration and the presence bits of every
device it does not touch are as before. -/
theorem request_changes_only_its_devices {st : State} {r : Req} {k : Nat} {s : Sess}
    (htok : r.tok = .sess k) (hst : isStart r.typ = false) (hs : st.sessions[k]? = some s)
    (d : Nat) (hd : ¬ Touches s r d) :
    (step st r).1.reuse = st.reuse ∧ (step st r).1.modRounds = st.modRounds ∧
    (step st r).1.vouchers.contains d = st.vouchers.contains d ∧
    (step st r).1.blobs.contains d = st.blobs.contains d :=
  step_store_frame htok hst hs d hd

/-- **Each session obtains the outcome it would obtain alone.** Let any sequence `others` of
requests run first, each of them a protocol start or a request under another token that touches
none of the devices the request `r` of session `k` touches. Then `r` is answered exactly as if
`others` had never happened, and leaves session `k` in the same state. (By induction this carries
over to the whole run of a session interleaved in any way with foreign ones.) -/
theorem others_do_not_matter {st : State} {r : Req} {k : Nat} {s : Sess} (others : List Req)
    (htok : r.tok = .sess k) (hst : isStart r.typ = false) (h255 : r.typ ≠ 255)
    (hk : st.sessions[k]? = some s)
    (hforeign : ∀ pre q post, others = pre ++ q :: post → Foreign k (Touches s r) (stateAfter st pre) q) :
    (step (stateAfter st others) r).2 = (step st r).2 ∧
    (step (stateAfter st others) r).1.sessions[k]? = (step st r).1.sessions[k]? := by
  obtain ⟨hk', hsame⟩ := foreign_history others st hk hforeign
  exact step_local htok hst h255 hk' hk hsame

/-- **Independent requests commute.** Two requests on different sessions whose devices are
disjoint get, in either order, the answers they get alone. -/
theorem independent_requests_commute {st : State} {r1 r2 : Req} {k1 k2 : Nat} {s1 s2 : Sess}
    (hne : k1 ≠ k2)
    (ht1 : r1.tok = .sess k1) (hs1 : isStart r1.typ = false) (h1 : r1.typ ≠ 255) (hk1 : st.sessions[k1]? = some s1)
    (ht2 : r2.tok = .sess k2) (hs2 : isStart r2.typ = false) (h2 : r2.typ ≠ 255) (hk2 : st.sessions[k2]? = some s2)
    (hdis : ∀ d, Touches s1 r1 d → ¬ Touches s2 r2 d) :
    (step (step st r1).1 r2).2 = (step st r2).2 ∧ (step (step st r2).1 r1).2 = (step st r1).2 := by
  constructor
  · have := others_do_not_matter (st := st) (r := r2) (k := k2) (s := s2) [r1] ht2 hs2 h2 hk2 (by
      intro pre q post he
      cases pre with
      | nil =>
        simp only [List.nil_append, List.cons.injEq] at he
        obtain ⟨rfl, _⟩ := he
        refine Or.inr ⟨by rw [ht1]; intro h; cases h; exact hne rfl, ?_⟩
        intro j sj hj hsj d hd2 hd1
        rw [ht1] at hj; cases hj
        have : sj = s1 := by
          have := hsj; simp only [stateAfter, List.foldl_nil] at this; rw [hk1] at this; exact (Option.some.inj this).symm
        subst this
        exact hdis d hd1 hd2
      | cons a pre =>
        simp only [List.cons_append, List.cons.injEq] at he
        obtain ⟨_, he⟩ := he
        cases pre <;> simp at he)
    simpa [stateAfter] using this.1
  · have := others_do_not_matter (st := st) (r := r1) (k := k1) (s := s1) [r2] ht1 hs1 h1 hk1 (by
      intro pre q post he
      cases pre with
      | nil =>
        simp only [List.nil_append, List.cons.injEq] at he
        obtain ⟨rfl, _⟩ := he
        refine Or.inr ⟨by rw [ht2]; intro h; cases h; exact hne rfl, ?_⟩
        intro j sj hj hsj d hd1 hd2
        rw [ht2] at hj; cases hj
        have : sj = s2 := by
          have := hsj; simp only [stateAfter, List.foldl_nil] at this; rw [hk2] at this; exact (Option.some.inj this).symm
        subst this
        exact hdis d hd1 hd2
      | cons a pre =>
        simp only [List.cons_append, List.cons.injEq] at he
        obtain ⟨_, he⟩ := he
        cases pre <;> simp at he)
    simpa [stateAfter] using this.1


/-- **Every schedule gives each session the answers of its solo run.** Take any history `hist` that
interleaves the requests `mine` of session `k` (in their order) with arbitrary other traffic that is
foreign to `k` — protocol starts, and requests under other tokens on devices outside `D`, the set of
devices `k` deals with. Then the answers given along `hist` to `k`'s requests (response types and
effects) are exactly those of running `mine` alone, and this holds from any two deployments that
agree on `k` and on `D`. In particular it does not depend on where in `hist` the foreign requests
fall: all interleavings are equivalent for `k`. -/
theorem interleaving_irrelevant (k : Nat) (D : Nat → Prop) (s : Sess) (st1 st2 : State) (mine hist : List Req)
    (h1 : st1.sessions[k]? = some s) (h2 : st2.sessions[k]? = some s) (hsame : SameFor D st1 st2)
    (hg : ∀ d, s.guid = some d → D d)
    (hm : ∀ r ∈ mine, r.tok = .sess k ∧ isStart r.typ = false ∧ r.typ ≠ 255 ∧ D r.dev)
    (hi : Interleaved k D st1 hist mine) :
    answersTo k st1 hist = (run st2 mine).2 :=
  interleaving_irrelevant_aux k D hist s st1 st2 mine h1 h2 hsame hg hm hi

/-! Non-vacuity: two TO2 sessions for devices 1 and 2; the ProveDevice of one is answered the same
whether or not the other session's ProveDevice, DeviceServiceInfoReady and Done ran first. -/
example :
    let st := stateAfter (init [1, 2] false 2) [{ tok := .none, typ := 60, dev := 1 }, { tok := .none, typ := 60, dev := 2 }]
    let others : List Req := [
      { tok := .sess 1, typ := 64, dev := 2, nonceOf := some 1, signer := some 2, xb := 9 },
      { tok := .sess 1, typ := 66, enc := some (1, 9), hmac := true },
      { tok := .sess 1, typ := 70, enc := some (1, 9), nonceOf := some 1 }]
    let r : Req := { tok := .sess 0, typ := 64, dev := 1, nonceOf := some 0, signer := some 1, xb := 7 }
    (step (stateAfter st others) r).2 = (65, []) ∧ (step st r).2 = (65, []) := by decide

/-! ### the device-side pipeline (process model, `Fdo.Svc.Pipeline`)

Two parties — the module goroutine writing through the `UnchunkWriter`, the transport loop reading
through the `ChunkReader` — joined by a channel of `cap` pipe readers (1000 in to2.go) and unbounded
buffered pipes. A schedule is any interleaving of their enabled steps; the reader may take any
non-empty part of the available bytes at each read. What is proved is about this model; that the Go
pipeline has exactly these blocking points is read off the source (chunk.go: the only blocking
operations are the channel send in `nextPipe`, the channel receive and the pipe read in `ReadChunk`)
and exercised by the delay permutations and watchdog of the harness. -/

open _root_.Fdo.Svc.Pipeline in
/-- **The pipeline never deadlocks**: in every state reachable under any schedule, for any script of
module calls, any channel capacity ≥ 1 and any data volume, either both parties have finished or one
of them can take a step. -/
theorem pipeline_never_deadlocks (cap : Nat) (script : List Act) (hc : 1 ≤ cap) (s : St)
    (h : Reach cap script s) (hf : ¬ s.final) : ∃ t, Step s t :=
  progress s (inv_reach cap script hc s h) hf

open _root_.Fdo.Svc.Pipeline in
/-- **Every schedule terminates** (no livelock): the number of steps any schedule can take from the
initial state is bounded by a measure of the script alone — so, with `pipeline_never_deadlocks`,
every schedule reaches the state where both parties have finished. -/
theorem pipeline_terminates (cap : Nat) (script : List Act) (n : Nat) (s : St)
    (h : Run n (St.init cap script) s) : n + measure s ≤ measure (St.init cap script) := by
  generalize hs₀ : St.init cap script = s₀ at h
  induction h with
  | zero => simp
  | succ n s₀ t u _ hst ih => have := measure_decreases t u hst; have := ih hs₀; omega

open _root_.Fdo.Svc.Pipeline in
/-- **What the transport loop reads is what the modules wrote, whatever the relative speed of the two
goroutines**: in every final state reached by any schedule the bytes read equal the bytes of the
script's writes, in order (writes refused because they follow a forced break without a new message
excluded). -/
theorem pipeline_schedule_independent (cap : Nat) (script : List Act) (hc : 1 ≤ cap) (s : St)
    (h : Reach cap script s) (hf : s.final) : evBytes s.out = scriptBytes false script := by
  have hi := inv_reach cap script hc s h
  have hs := stream_reach cap script hc s h
  obtain ⟨hm, ht⟩ := hf
  have hp := (hi.tdone ht).2.1
  have hsc := (hi.done_closed hm).1
  unfold StreamInv at hs
  rw [hp, hsc] at hs
  simpa [pipeBytes, scriptBytes] using hs

open _root_.Fdo.Svc.Pipeline in
/-- the channel never holds more than its capacity: the module goroutine waits instead (and, being the
only waiter on a full channel, is released by the reader's next receive) -/
theorem pipeline_queue_bounded (cap : Nat) (script : List Act) (hc : 1 ≤ cap) (s : St)
    (h : Reach cap script s) : s.queued ≤ cap := by
  have := (inv_reach cap script hc s h).queued_le
  have hcap : s.cap = cap := by
    clear this
    induction h with
    | init => rfl
    | step s t _ hst ih => cases hst <;> simpa using ih
  omega

open _root_.Fdo.Svc.Pipeline in
/-- Non-vacuity: with a one-slot channel, a script of two messages and a forced break has a schedule in
which the module goroutine is made to wait, and the state is not stuck. -/
example :
    let s₀ := St.init 1 [.next, .write [1, 2], .yield, .next, .write [3]]
    ∃ s₁ s₂, Step s₀ s₁ ∧ Step s₁ s₂ ∧ s₂.queued = 1 ∧ ¬ s₂.final := by
  refine ⟨_, _, Step.mNext _ _ rfl (by decide), Step.mWrite _ [1, 2] _ rfl, by decide, by simp [St.final, St.init]⟩

/-- **What the source does, and in which goroutine** (regenerated call-order and `go`-statement facts):
in `exchangeServiceInfo` the owner's messages of an ordinary round are handled in a goroutine, the messages
that arrive with IsDone are handled *synchronously* (once outside any `go` statement) while what the device
modules still write is discarded in a goroutine, and Done is sent after that; in the SQLite store the token
secret is inserted-or-ignored first and then read back, so every concurrent first request ends up with the
stored secret. -/
theorem code_facts :
    Fdo.Facts.atLeast "exchangeServiceInfo" "handleOwnerModuleMessages" 2 = true ∧
    Fdo.Facts.syncCount "exchangeServiceInfo" "handleOwnerModuleMessages" = 1 ∧
    (Fdo.Facts.goCallsOf "exchangeServiceInfo").contains "discardDeviceInfo" = true ∧
    Fdo.Facts.before "DB.loadOrStoreSecret" "insertOrIgnore" "query" = true ∧
    Fdo.Facts.before "DB.NewToken" "loadOrStoreSecret" "insert" = true := by decide +kernel

end Fdo.Props.C19
