import Fdo.Cbor.Proofs
import Fdo.Cbor.Canon
import Fdo.Cbor.CanonProofs
import Fdo.Cbor.TypedProofs
import Fdo.Gen.Schemas
/-
C11 — CBOR encoding is canonical and decode/encode are mutual inverses.
Property theorems only; helper lemmas live in Fdo/Cbor/Proofs.lean.
-/
namespace Fdo.Props.C11
open Fdo Fdo.Cbor

/-- Shortest-form heads: the head of argument `n` takes 1/2/3/5/9 bytes exactly at the
RFC 8949 boundaries. -/
theorem encHead_shortest (mt n : Nat) :
    (encHead mt n).length =
      if n < 24 then 1 else if n < 256 then 2 else if n < 65536 then 3
      else if n < 4294967296 then 5 else 9 := by
  unfold encHead
  by_cases h1 : n < 24
  · simp [h1]
  by_cases h2 : n < 256
  · simp [h1, h2]
  by_cases h3 : n < 65536
  · simp [h1, h2, h3]
  by_cases h4 : n < 4294967296
  · simp [h1, h2, h3, h4]
  · simp [h1, h2, h3, h4]

/-- decode ∘ encode = id on every item within the library's limits, with any trailing
bytes left untouched (stream positioned at the next item). -/
theorem decode_encode (x : Item) (hx : x.WF) (hd : x.depth ≤ maxDepth) (r : Bytes) :
    decode x.size maxDepth (encode x ++ r) = some (x, r) :=
  Cbor.decode_encode x hx r x.size maxDepth (Nat.le_refl _) hd

/-- Encoding is injective and prefix-free on well-formed items: equal encodings followed by
anything mean equal items and equal continuations.  (Used for Sig_structure/Enc_structure
injectivity in C13, C04, C05.) -/
theorem encode_prefix_free (x y : Item) (hx : x.WF) (hy : y.WF) (r s : Bytes)
    (h : encode x ++ r = encode y ++ s) : x = y ∧ r = s := by
  have h1 := Cbor.decode_encode x hx r (max x.size y.size) (max x.depth y.depth) (Nat.le_max_left _ _) (Nat.le_max_left _ _)
  have h2 := Cbor.decode_encode y hy s (max x.size y.size) (max x.depth y.depth) (Nat.le_max_right _ _) (Nat.le_max_right _ _)
  rw [h] at h1
  rw [h1] at h2
  simpa using h2

theorem encode_injective (x y : Item) (hx : x.WF) (hy : y.WF) (h : encode x = encode y) : x = y := by
  have := encode_prefix_free x y hx hy [] [] (by simpa using h)
  exact this.1

/-- Non-vacuity: a nested item with a map, a tag and boundary integers is well-formed. -/
example : (Item.arr (.cons (.map (.cons (.uint 24) (.nint 255) .nil))
    (.cons (.tag 18 (.bstr [1, 2, 3])) (.cons (.uint 18446744073709551615) .nil)))).WF := by
  simp [Item.WF, Items.WF, Pairs.WF, Items.length, Pairs.length, maxLen]

/-! ### canonical form

`decodeStrict` is the definition of *canonical input* used here: shortest-form heads only, map keys
strictly ascending bytewise on their encodings, one-byte simple values. The correspondence run feeds
every byte string `cbor.Marshal` produced to it (`cbor.strict`), so "the library's encoder emits
canonical bytes" is checked on the implementation; what follows is proved for all inputs. -/

/-- **encode(decode(b)) reproduces b byte for byte for canonical b.** Whatever the strict decoder
accepts is the encoding of the item it returns followed by the untouched rest; the item is within
the library's limits and in canonical form. -/
theorem reencode_canonical (f : Nat) (b : Bytes) (v : Item) (r : Bytes)
    (h : decodeStrict f b = some (v, r)) : b = encode v ++ r ∧ v.WF ∧ v.Canonical :=
  let ⟨h1, h2, h3, _⟩ := decodeStrict_sound f b v r h
  ⟨h1, h2, h3⟩

/-- The library's (lenient) decoder reads canonical input as the strict one does: for canonical `b`
the value the real decoder returns is the one whose encoding is `b`. -/
theorem lenient_agrees_on_canonical (f : Nat) (b : Bytes) (v : Item) (r : Bytes)
    (h : decodeStrict f b = some (v, r)) (d : Nat) (hd : v.depth ≤ d) : decode f d b = some (v, r) :=
  (decodeStrict_sound f b v r h).2.2.2 d hd

/-- Canonical byte strings are exactly the encodings of canonical items (so the hypothesis of
`reencode_canonical` is neither vacuous nor wider than "an encoder output"). -/
theorem canonical_iff_encoding (b : Bytes) :
    (∃ f v, decodeStrict f b = some (v, [])) ↔ ∃ x : Item, x.WF ∧ x.Canonical ∧ b = encode x := by
  constructor
  · rintro ⟨f, v, h⟩
    obtain ⟨h1, h2, h3⟩ := reencode_canonical f b v [] h
    exact ⟨v, h2, h3, by simpa using h1⟩
  · rintro ⟨x, hx, hc, rfl⟩
    exact ⟨x.size, x, by simpa using decodeStrict_encode x hx hc [] x.size (Nat.le_refl _)⟩

/-- **The encoder emits canonical form**: the bytes written for any value the encoder can be handed
(no two keys of one map encoding identically) are accepted by the strict decoder, which returns the
value with every map in bytewise key order. -/
theorem marshal_is_canonical (x : Item) (hx : x.WF) (hm : x.Marshalable) (r : Bytes) :
    decodeStrict x.norm.size (marshal x ++ r) = some (x.norm, r) :=
  decodeStrict_encode x.norm (norm_wf x hx) (norm_canonical x hm) r _ (Nat.le_refl _)

/-- **Map keys are written in strictly ascending bytewise order of their encodings.** -/
theorem marshal_keys_sorted (ps : Pairs) (hd : ps.norm.KeysDistinct) :
    ∃ qs, marshal (.map ps) = encHead 5 qs.length ++ encodePairs qs ∧ qs.StrictSorted = true ∧ qs.length = ps.length :=
  ⟨Pairs.sort ps.norm, rfl, sort_strictSorted _ hd, by rw [sort_length, norm_length_pairs]⟩

/-- **Encoding is deterministic**: the bytes do not depend on the order in which a map's pairs reach
the encoder (Go map iteration order). -/
theorem marshal_order_independent (ps qs : Pairs) (hp : ps.toList.Perm qs.toList)
    (hd : DistinctKeysL ps.norm.toList) : marshal (.map ps) = marshal (.map qs) := by
  have hn : ps.norm.toList.Perm qs.norm.toList := by
    rw [norm_toList, norm_toList]; exact hp.map _
  have := sort_perm _ _ hn hd
  rw [ofList_toList, ofList_toList] at this
  simp [marshal, Item.norm, this]

/-- decode ∘ marshal = normal form: what was marshalled is read back (maps in key order), with
anything that follows left in the stream. -/
theorem decode_marshal (x : Item) (hx : x.WF) (hm : x.Marshalable) (hd : x.norm.depth ≤ maxDepth) (r : Bytes) :
    decode x.norm.size maxDepth (marshal x ++ r) = some (x.norm, r) :=
  lenient_agrees_on_canonical _ _ _ _ (marshal_is_canonical x hx hm r) _ hd

/-- Non-vacuity: a two-key map given in the wrong order is marshalable; its marshalling is the
canonical `a2 01 02 18 18 03`, and re-encoding what the strict decoder reads gives the same bytes. -/
example :
    let m := Item.map (.cons (.uint 24) (.uint 3) (.cons (.uint 1) (.uint 2) .nil))
    m.WF ∧ m.Marshalable ∧ marshal m = [0xa2, 0x01, 0x02, 0x18, 0x18, 0x03]
      ∧ (decodeStrict 10 (marshal m)).map (fun p => encode p.1) = some (marshal m) := by
  refine ⟨by simp [Item.WF, Pairs.WF, Pairs.length, maxLen], ?_, by decide, by decide⟩
  simp [Item.Marshalable, Pairs.Marshalable, Pairs.norm, Item.norm, Pairs.KeysDistinct, Pairs.hasKey]
  decide

/-- A non-canonical encoding of the same map (keys out of order / a two-byte head for 1) is refused
by the strict decoder although the lenient one reads it. -/
example : decodeStrict 10 [0xa2, 0x18, 0x18, 0x03, 0x01, 0x02] = none
    ∧ decodeStrict 10 [0x18, 0x01] = none
    ∧ (decode1 [0xa2, 0x18, 0x18, 0x03, 0x01, 0x02]).isSome = true := by decide +kernel

/-! ### the typed codec (Go values of declared types, FDO message structures)

`decodeS`/`encodeS` model `Decoder.Decode(&T)` / `Marshal(T)` for the Go type described by a `Schema`
(regenerated from the code: `Fdo.Gen.Schemas`). For the fragment decided by `Schema.inFragment`
decode ∘ encode = id is proved below for every conforming value (including the embedded COSE header with
labels in encoding order and scalar values, and the tag-number checking wrappers `Sign1Tag`/`Mac0Tag`/
`Encrypt0Tag`, whose raw pre-pass needs every typed encoding to be one well-formed untyped item — `w_all`);
the remaining shapes (`omitempty` on other kinds, `any`, maps, certificates, timestamps, labels as values)
are tied to the implementation by the correspondence run only. -/

/-- **decode(encode(v)) = v for typed values**, with any following bytes left in the stream: for every
type in the fragment, every value the type can hold within the library's limits (`conf`), any nesting
budget `d` the value fits in, and any fuel the model is given beyond the stated minimum. -/
theorem typed_decode_encode (ok : CertOracle) (g : Nat) (s : Schema) (v : Val) (b r : Bytes) (d f : Nat)
    (hs : s.inFragment = true) (henc : encodeS g s v = some b) (hconf : conf ok g d s v = true)
    (hlen : b.length < 18446744073709551616) (hf : 2 * b.length + 1 + s.ptrDepth ≤ f) :
    decodeS ok f d s (b ++ r) = some (v, r) :=
  decodeS_encodeS ok g s v b r d f hs henc hconf hlen hf

/-- `cbor.Unmarshal(cbor.Marshal(v), &w)` gives `w = v` on the fragment. -/
theorem typed_unmarshal_marshal (ok : CertOracle) (s : Schema) (v : Val) (b : Bytes)
    (hs : s.inFragment = true) (hp : s.ptrDepth ≤ 63) (henc : marshalS s v = some b)
    (hconf : conf ok 10000 maxDepth s v = true) (hlen : b.length < 18446744073709551616) :
    unmarshalS ok s b = some v :=
  unmarshalS_marshalS ok s v b hs hp henc hconf hlen

/-- Which of the regenerated wire and storage types the theorem covers today (a type that changes shape
in the code and leaves — or enters — the fragment changes this list and is flagged by the build). -/
theorem wire_types_in_fragment :
    (Fdo.Gen.Schemas.names.filter fun n =>
      match Fdo.Gen.Schemas.byName n with
      | some s => !(s.inFragment && decide (s.ptrDepth ≤ 63))
      | none => true) = [] ∧
    Fdo.Gen.Schemas.names.length = 69 := by decide +kernel

/-- since the fifth round `interface{}` targets are inside: the bare `any`, the EAT claim map
(label ↦ any), the COSE_Sign1 object that carries it, COSE_Key and the devmod modules chunk -/
theorem any_targets_in_fragment :
    Fdo.Gen.Schemas.s_any.inFragment = true ∧ Fdo.Gen.Schemas.s_EAT.inFragment = true ∧
    Fdo.Gen.Schemas.s_Sign1Tag_EAT_.inFragment = true ∧ Fdo.Gen.Schemas.s_cose_Key.inFragment = true ∧
    Fdo.Gen.Schemas.s_DevmodModulesChunk.inFragment = true := by decide +kernel

/-- Non-vacuity for the two raw-pass types: an EC2 COSE_Key {1: 2, -1: 1, -2: h'01', -3: h'02'} and a
modules chunk [0, 2, "a", "bc"] conform. -/
example :
    conf (fun _ => true) 100 maxDepth .coseKey
      (.map [(.int 1, .any (.int 2)), (.int (-1), .any (.int 1)), (.int (-2), .any (.bytes [1])), (.int (-3), .any (.bytes [2]))]) = true ∧
    conf (fun _ => true) 100 maxDepth .chunk (.strct [.int 0, .int 2, .list [.text [0x61], .text [0x62, 0x63]]]) = true := by
  decide +kernel

/-- Non-vacuity for `any`: an EAT-like claim map {10: h'0102', 256: [1, "a"], -3: true} conforms. -/
example :
    confAnyB maxDepth (.map [(.int 10, .bytes [1, 2]), (.int 256, .arr [.int 1, .text [0x61]]), (.int (-3), .bool true)]) = true := by
  decide +kernel

/-- Non-vacuity: a rendezvous redirect (`protocol.To1d`: addresses with nil and non-nil pointers, a hash)
conforms, marshals, and is read back. -/
example :
    let v : Val := .strct [.list [.strct [.nilp, .ref (.text [0x61]), .nat 8443, .nat 2]], .strct [.int (-16), .bytes [1, 2, 3]]]
    Fdo.Gen.Schemas.s_To1d.inFragment = true ∧ conf (fun _ => true) 10000 maxDepth Fdo.Gen.Schemas.s_To1d v = true
      ∧ (marshalS Fdo.Gen.Schemas.s_To1d v).isSome = true := by decide +kernel

end Fdo.Props.C11
