import Fdo.Cbor.Proofs
import Fdo.Cbor.Canon
/-
C11 — CBOR encoding is canonical and decode/encode are mutual inverses.
Property theorems only; helper lemmas live in Fdo/Cbor/Proofs.lean.
-/
namespace Fdo.Props.C11
open Fdo Fdo.Cbor

/-- Shortest-form heads: the head of argument `n` takes 1/2/3/5/9 bytes exactly at the
RFC 8949 boundaries. -/
theorem encHead_shortest (mt n : Nat) :
    (encHead mt n).length =
      if n < 24 then 1 else if n < 256 then 2 else if n < 65536 then 3
      else if n < 4294967296 then 5 else 9 := by
  unfold encHead
  by_cases h1 : n < 24
  · simp [h1]
  by_cases h2 : n < 256
  · simp [h1, h2]
  by_cases h3 : n < 65536
  · simp [h1, h2, h3]
  by_cases h4 : n < 4294967296
  · simp [h1, h2, h3, h4]
  · simp [h1, h2, h3, h4]

/-- decode ∘ encode = id on every item within the library's limits, with any trailing
bytes left untouched (stream positioned at the next item). -/
theorem decode_encode (x : Item) (hx : x.WF) (hd : x.depth ≤ maxDepth) (r : Bytes) :
    decode x.size maxDepth (encode x ++ r) = some (x, r) :=
  Cbor.decode_encode x hx r x.size maxDepth (Nat.le_refl _) hd

/-- Encoding is injective and prefix-free on well-formed items: equal encodings followed by
anything mean equal items and equal continuations.  (Used for Sig_structure/Enc_structure
injectivity in C13, C04, C05.) -/
theorem encode_prefix_free (x y : Item) (hx : x.WF) (hy : y.WF) (r s : Bytes)
    (h : encode x ++ r = encode y ++ s) : x = y ∧ r = s := by
  have h1 := Cbor.decode_encode x hx r (max x.size y.size) (max x.depth y.depth) (Nat.le_max_left _ _) (Nat.le_max_left _ _)
  have h2 := Cbor.decode_encode y hy s (max x.size y.size) (max x.depth y.depth) (Nat.le_max_right _ _) (Nat.le_max_right _ _)
  rw [h] at h1
  rw [h1] at h2
  simpa using h2

theorem encode_injective (x y : Item) (hx : x.WF) (hy : y.WF) (h : encode x = encode y) : x = y := by
  have := encode_prefix_free x y hx hy [] [] (by simpa using h)
  exact this.1

/-- Non-vacuity: a nested item with a map, a tag and boundary integers is well-formed. -/
example : (Item.arr (.cons (.map (.cons (.uint 24) (.nint 255) .nil))
    (.cons (.tag 18 (.bstr [1, 2, 3])) (.cons (.uint 18446744073709551615) .nil)))).WF := by
  simp [Item.WF, Items.WF, Pairs.WF, Items.length, Pairs.length, maxLen]

end Fdo.Props.C11
