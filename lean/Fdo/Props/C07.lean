import Fdo.Proto.TO1
import Fdo.Cbor.TypedProofs
import Fdo.Gen.Schemas
import Fdo.Facts
/-
C07 — TO1 releases the registered redirect, unmodified, only to the proven device.
-/
namespace Fdo.Props.C07
open Fdo Fdo.Proto

/-- A blob is released exactly when the token carries its payload and decodable claims, the nonce
claim equals the nonce issued in this session, the UEID claim is 0x01 ‖ GUID for a GUID with a
registration that has not expired, and the token's signature verifies under the device key of
the registered voucher; and what is released is the registered blob itself. -/
theorem rvRedirect_release_iff (store : Bytes → Option Registration) (now : Nat) (sn : Option Bytes)
    (sigOK : Bytes → Bool) (t : ProofView) (b : Bytes) :
    rvRedirect store now sn sigOK t = .release b ↔
      t.payloadPresent = true ∧
      ∃ cl n ueid reg k, t.claims = some cl ∧ sn = some n ∧ claimBytes cl 10 = some n ∧
        claimBytes cl 256 = some ueid ∧ ueid.length = 17 ∧ ueid.head? = some 1 ∧
        store ueid.tail = some reg ∧ now < reg.expiry ∧ reg.deviceKey = some k ∧ sigOK k = true ∧
        b = reg.blob := by
  constructor
  · intro h
    unfold rvRedirect at h
    split at h
    · simp at h
    · rename_i hp
      split at h
      · simp at h
      · rename_i cl hcl
        split at h
        · simp at h
        · rename_i n
          split at h
          · simp at h
          · rename_i nc h10
            split at h
            · simp at h
            · rename_i hn
              split at h
              · simp at h
              · rename_i ueid h256
                split at h
                · simp at h
                · rename_i hl
                  split at h
                  · simp at h
                  · rename_i hh
                    split at h
                    · simp at h
                    · rename_i reg hlk
                      split at h
                      · simp at h
                      · rename_i k hk
                        split at h
                        · rename_i hs
                          simp at h
                          unfold lookup at hlk
                          cases hst : store ueid.tail with
                          | none => simp [hst] at hlk
                          | some r =>
                            simp [hst] at hlk
                            obtain ⟨he, hr⟩ := hlk
                            subst hr
                            refine ⟨by simpa using hp, cl, n, ueid, r, k, hcl, rfl, ?_, h256, by simpa using hl,
                              by simpa using hh, hst, he, hk, hs, h.symm⟩
                            have : nc = n := by simpa using hn
                            rw [h10, this]
                        · simp at h
  · rintro ⟨hp, cl, n, ueid, reg, k, hcl, hsn, h10, h256, hl, hh, hst, he, hk, hs, hb⟩
    subst hsn hb
    unfold rvRedirect lookup
    simp [hp, hcl, h10, h256, hl, hh, hst, he, hk, hs]

/-- Never after expiry: once the registration of the claimed GUID has expired neither step
succeeds, whatever the token. -/
theorem never_after_expiry (store : Bytes → Option Registration) (now : Nat) (sn : Option Bytes)
    (sigOK : Bytes → Bool) (t : ProofView) (guid : Bytes)
    (hexp : ∀ r, store guid = some r → r.expiry ≤ now) :
    helloRVAck store now guid = false ∧
    (∀ cl ueid, t.claims = some cl → claimBytes cl 256 = some ueid → ueid.tail = guid →
      rvRedirect store now sn sigOK t = .reject) := by
  constructor
  · unfold helloRVAck lookup
    cases hs : store guid with
    | none => simp
    | some r => have := hexp r hs; simp; omega
  · intro cl ueid hcl h256 hg
    cases hr : rvRedirect store now sn sigOK t with
    | reject => rfl
    | release b =>
      obtain ⟨_, cl', n, ueid', reg, k, h1, _, _, h4, _, _, h7, h8, _⟩ :=
        (rvRedirect_release_iff store now sn sigOK t b).mp hr
      rw [hcl] at h1; simp at h1; subst h1
      rw [h256] at h4; simp at h4; subst h4
      rw [hg] at h7
      have := hexp reg h7
      omega

/-- A token that does not verify under the registered device key (a foreign signer, a token for
another GUID's device) never releases the blob. -/
theorem foreign_signer_rejected (store : Bytes → Option Registration) (now : Nat) (sn : Option Bytes)
    (sigOK : Bytes → Bool) (t : ProofView) (h : ∀ k, sigOK k = false) :
    rvRedirect store now sn sigOK t = .reject := by
  cases hr : rvRedirect store now sn sigOK t with
  | reject => rfl
  | release b =>
    obtain ⟨_, _, _, _, _, k, _, _, _, _, _, _, _, _, _, hs, _⟩ := (rvRedirect_release_iff store now sn sigOK t b).mp hr
    rw [h k] at hs; simp at hs

/-- A token recorded in another session (different nonce) is refused. -/
theorem replayed_token_rejected (store : Bytes → Option Registration) (now : Nat) (n : Bytes)
    (sigOK : Bytes → Bool) (t : ProofView) (cl : List (Cbor.Val × Cbor.Val)) (nc : Bytes)
    (hc : t.claims = some cl) (h10 : claimBytes cl 10 = some nc) (hne : nc ≠ n) :
    rvRedirect store now (some n) sigOK t = .reject := by
  cases hr : rvRedirect store now (some n) sigOK t with
  | reject => rfl
  | release b =>
    obtain ⟨_, cl', n', _, _, _, h1, h2, h3, _⟩ := (rvRedirect_release_iff store now (some n) sigOK t b).mp hr
    rw [hc] at h1; simp at h1; subst h1
    simp at h2; subst h2
    rw [h10] at h3; simp at h3; exact absurd h3 hne

/-- Non-vacuity: a live registration and a matching token release exactly the stored blob. -/
example :
    let guid : Bytes := List.replicate 16 7
    let store : Bytes → Option Registration := fun g => if g = guid then some ⟨[0xd2, 1], some [5], 100⟩ else none
    let t : ProofView := ⟨true, some [(Cbor.Val.int 10, Cbor.Val.any (.bytes [9, 9])), (Cbor.Val.int 256, Cbor.Val.any (.bytes (1 :: guid)))]⟩
    rvRedirect store 50 (some [9, 9]) (fun k => k == [5]) t = .release [0xd2, 1] := by
  decide


/-- **What the source does, in which order** (regenerated call-order facts of
`TO1Server.rvRedirect` / `helloRVAck`): the session nonce is fetched and compared, the registration
looked up, the device key taken from its voucher and the token verified before the blob is returned;
HelloRV looks the registration up before a nonce is stored. -/
theorem code_facts :
    Fdo.Facts.allBefore "TO1Server.rvRedirect" ["TO1ProofNonce", "Equal", "RVBlob", "DevicePublicKey", "Verify"] "Tag" = true ∧
    Fdo.Facts.before "TO1Server.rvRedirect" "DevicePublicKey" "Verify" = true ∧
    Fdo.Facts.before "TO1Server.helloRVAck" "RVBlob" "SetTO1ProofNonce" = true := by decide +kernel

/-- **The blob handed out is the blob registered, and its voucher the voucher registered**: what the
rendezvous server stores (the tagged COSE_Sign1 over `To1d`, the voucher) is, after `Marshal` into the store
and `Unmarshal` out of it, the same value — headers, payload, signature, every voucher entry — so the
owner signature the device checks is over exactly what the owner signed (C11's typed round trip on the
regenerated schemas; `conf`: within the codec's limits, header labels in encoding order). -/
theorem registered_blob_survives_storage (ok : Fdo.Cbor.CertOracle) (v : Fdo.Cbor.Val) (b : Bytes)
    (hl : b.length < 18446744073709551616) :
    (Fdo.Cbor.marshalS Fdo.Gen.Schemas.s_Sign1Tag_To1d_ v = some b →
      Fdo.Cbor.conf ok 10000 Fdo.Cbor.maxDepth Fdo.Gen.Schemas.s_Sign1Tag_To1d_ v = true →
      Fdo.Cbor.unmarshalS ok Fdo.Gen.Schemas.s_Sign1Tag_To1d_ b = some v) ∧
    (Fdo.Cbor.marshalS Fdo.Gen.Schemas.s_Voucher v = some b →
      Fdo.Cbor.conf ok 10000 Fdo.Cbor.maxDepth Fdo.Gen.Schemas.s_Voucher v = true →
      Fdo.Cbor.unmarshalS ok Fdo.Gen.Schemas.s_Voucher b = some v) :=
  ⟨fun hm hc => Fdo.Cbor.unmarshalS_marshalS ok _ v b (by decide +kernel) (by decide +kernel) hm hc hl,
   fun hm hc => Fdo.Cbor.unmarshalS_marshalS ok _ v b (by decide +kernel) (by decide +kernel) hm hc hl⟩

end Fdo.Props.C07
