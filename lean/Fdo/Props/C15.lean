import Fdo.Svc.ChunkProofs
/-
C15 — service-info chunking is lossless, ordered and within the MTU.

Model: Fdo/Svc/Chunk.lean (sequential stream functions mirroring serviceinfo/chunk.go and the
packing loop of to2.go exchangeServiceInfoRound); helper lemmas: Fdo/Svc/ChunkProofs.lean.

The theorems about `Variant.repaired` describe the code after the two repairs
  fix: serviceinfo: keep a message whose key does not fit the space left for the next ReadChunk
  fix: serviceinfo: a forced message break before any chunk of a message no longer ends the round
`Variant.original` is the tree as found; for it the property is false, see the `…_original`
regression theorems at the end (each is a concrete small script and MTU on which the harness
shows the same behaviour on the unrepaired library).

Not proved here (modelled, see DESIGN §3): goroutine interleavings and the blocking behaviour of
io.Pipe / bufPipe / channels.  The model is the stream function; that the code computes it under
every schedule tried is evidenced by the correspondence run (buffered/unbuffered pipes, 1-byte and
empty writes, injected Gosched/sleeps, GOMAXPROCS 1/2/n).
-/
namespace Fdo.Props.C15
open Fdo Fdo.Svc.Chunk

/-- Every KV returned by `ReadChunk(size)` encodes to at most `size` bytes and carries at least
one value byte.  Holds for every variant, every state, every `size` (also below 7). -/
theorem chunk_fits (V : Variant) (st : St) (size : Nat) (c : KV) (st' : St)
    (h : readChunk V st size = (.kv c, st')) : kvSize c ≤ size ∧ 1 ≤ c.val.length :=
  readChunk_fits V st size c st' h

/-- The `uint16` arithmetic of the packing loop is exact: `maxRead -= chunk.Size()` never wraps
and `KV.Size` never overflows, because the KV fits what was left. -/
theorem budget_uint16_exact (V : Variant) (st : St) (size : Nat) (c : KV) (st' : St)
    (hs : size < 65536) (h : readChunk V st size = (.kv c, st')) :
    kvSize c < 65536 ∧ size - kvSize c = (size + 65536 - kvSize c % 65536) % 65536 := by
  have := (readChunk_fits V st size c st' h).1
  omega

/-- Every DeviceServiceInfo message of the round stays within the budget: its chunks sum to at
most `mtu` (the value the round function is given) and the encoded message — array-of-two head,
the IsMore flag, the array head of up to three bytes — to at most `mtu + 5`, which is the
negotiated size TO2 subtracted 5 from.  Every variant, every script, every fuel. -/
theorem batch_fits (V : Variant) (mtu : Nat) (s : Script) :
    ∀ b ∈ (allBatches V mtu s).batches, sumSize b.kvs ≤ mtu ∧ msgSize b.kvs ≤ mtu + 5 := by
  intro b hb
  have h := rounds_sum V mtu _ _ b hb
  refine ⟨h, ?_⟩
  unfold msgSize arraySize
  have := arrHead_le b.kvs.length
  omega

/-- LOSSLESS, full strength, for the repaired code: for every budget in the usable range (each
key fits an empty message with one value byte), every script — any number of messages, any key
and value lengths, yields anywhere (leading, doubled, trailing, after a full message) — the round
drains the pipe, never fails, and the consumer behind `ChunkWriter`/`UnchunkReader` receives
exactly the script's messages in order with consecutive equal keys concatenated. -/
theorem lossless (mtu : Nat) (s : Script) (hu : UsableMtu mtu s) :
    (allBatches .repaired mtu s).fin = .done ∧
    reassemble (flatten (allBatches .repaired mtu s).batches) = .ok (mergeConsecutive (messages s)) := by
  have hd := repaired_done mtu s hu
  refine ⟨hd, lossless_of_done .repaired mtu s (fun k b hm => ?_) hd⟩
  have := usable_keys mtu s hu k b hm
  exact ⟨this.2.2, this.1⟩

/-- Nothing is lost whenever the round reaches the end of the channel — also without the second
repair (`skipLeadingBreak = false`), for any budget, as long as keys are read in full.  This is
the part of `lossless` that does not depend on how forced breaks are treated. -/
theorem lossless_if_drained (skip : Bool) (mtu : Nat) (s : Script)
    (hk : ∀ k b, Step.msg k b ∈ s → k ≠ [] ∧ rawKeyLen k ≤ 65535)
    (hd : (allBatches ⟨fun _ => 65535, skip⟩ mtu s).fin = .done) :
    reassemble (flatten (allBatches ⟨fun _ => 65535, skip⟩ mtu s).batches) =
      .ok (mergeConsecutive (messages s)) :=
  lossless_of_done _ mtu s (fun k b hm => ⟨(hk k b hm).1, fun _ => keyRead_ok _ k (hk k b hm).2⟩) hd

/-- AN EXPLICIT YIELD STARTS A NEW MESSAGE, and nothing else about the batching changes: the
non-empty messages (as lists of chunks) of a script with a yield in it are those of the part
before the yield followed by those of the part after it, each part batched on its own from a
fresh budget.  So no message carries a chunk from before and a chunk from after the yield, wherever
the yield stands (first, last, doubled, right after a message that used its budget up). -/
theorem yield_starts_new_batch (mtu : Nat) (pre post : Script) (hu : UsableMtu mtu (pre ++ .yield :: post)) :
    groups (allBatches .repaired mtu (pre ++ .yield :: post)).batches =
      groups (allBatches .repaired mtu pre).batches ++ groups (allBatches .repaired mtu post).batches :=
  yield_groups mtu pre post hu

/-- Locally, for every variant: when the message being filled already holds a chunk
(`maxRead ≠ mtu`, and for the repaired code the reader's `inMessage` flag set) and the next reader
in the channel is a forced break, the message is closed there with IsMore = true and the next
message starts from the reader after the break. -/
theorem yield_closes_message (V : Variant) (mtu f maxRead : Nat) (q : Script) (h : maxRead ≠ mtu) :
    pack V mtu (f + 1) maxRead ⟨.yield :: q, none, true⟩ = ([], .more, ⟨q, none, false⟩) := by
  simp [pack, readChunk, readNext, h]

/-- The result depends on the bytes written, not on how a module split them into `Write` calls:
one write of `parts.flatten` and the writes `parts` one after another (empty writes included)
give the same readers, hence the same messages, chunks and reassembly.  Together with blocking
reads this is the schedule-independence argument. -/
theorem split_of_writes_irrelevant (V : Variant) (mtu : Nat) (pre post : List Op) (parts : List Bytes) :
    allBatches V mtu (compile (pre ++ .write parts.flatten :: post)) =
      allBatches V mtu (compile (pre ++ (parts.map Op.write ++ post))) := by
  rw [compile_parts]

/-! ### non-vacuity -/

private def kA : Bytes := [97, 58, 98]          -- "a:b"
private def kB : Bytes := [99, 58, 100, 101]    -- "c:de"
private def ex1 : Script :=
  [.yield, .msg kA [1, 2, 3, 4, 5, 6, 7, 8, 9, 10, 11, 12, 13, 14, 15, 16], .msg kB [20, 21, 22], .yield, .yield,
   .msg kB [23], .msg kA [30]]

/-- The guard of `lossless` is satisfiable by a script with leading, doubled and inner yields that
needs several messages at budget 25 (negotiated size 30). -/
example : UsableMtu 25 ex1 := by decide

example : (allBatches .repaired 25 ex1).batches.length = 3 := by decide

example : reassemble (flatten (allBatches .repaired 25 ex1).batches) =
    .ok [(kA, [1, 2, 3, 4, 5, 6, 7, 8, 9, 10, 11, 12, 13, 14, 15, 16]), (kB, [20, 21, 22, 23]), (kA, [30])] := by
  decide

/-- `yield_starts_new_batch` on a concrete script: "a:b" with 16 bytes, "c:de" with 3 bytes, yield,
"c:de" with 1 byte at budget 25. Without the yield the last byte would share a message. -/
example : groups (allBatches .repaired 25
      [.msg kA [1, 2, 3, 4, 5, 6, 7, 8, 9, 10, 11, 12, 13, 14, 15, 16], .msg kB [20, 21, 22], .yield, .msg kB [23]]).batches =
    [[⟨kA, [1, 2, 3, 4, 5, 6, 7, 8, 9, 10, 11, 12, 13, 14, 15, 16]⟩], [⟨kB, [20, 21, 22]⟩], [⟨kB, [23]⟩]] := by
  decide
example : groups (allBatches .repaired 25
      [.msg kA [1, 2, 3, 4, 5, 6, 7, 8, 9, 10, 11, 12, 13, 14, 15, 16], .msg kB [20, 21, 22], .msg kB [23]]).batches =
    [[⟨kA, [1, 2, 3, 4, 5, 6, 7, 8, 9, 10, 11, 12, 13, 14, 15, 16]⟩], [⟨kB, [20, 21, 22]⟩, ⟨kB, [23]⟩]] := by
  decide

/-- `chunk_fits` is not vacuous: a read that returns a KV. -/
example : ∃ c st', readChunk .repaired (St.init ex1) 25 = (.kv c, st') := ⟨_, _, rfl⟩

/-! ### the tree as found (regression witnesses for the two repairs)

Full-strength statement that is FALSE for `Variant.original`:
  theorem lossless_original (mtu s) (hu : UsableMtu mtu s) :
    (allBatches .original mtu s).fin = .done ∧
    reassemble (flatten (allBatches .original mtu s).batches) = .ok (mergeConsecutive (messages s))
-/

/-- Remainder window, silent loss: budget 25, after the first message 8 bytes are left; the key of
the second message ("a:b", 4 bytes encoded) is read through a limit of 8-7 = 1 byte, the decoder
sees EOF after the head, the reader is dropped: the second message never arrives and nothing fails. -/
theorem lossless_fails_window_original :
    UsableMtu 25 [.msg kA [0, 1, 2, 3, 4, 5, 6, 7, 8, 9, 10], .msg kA [170, 187, 204]] ∧
    (allBatches .original 25 [.msg kA [0, 1, 2, 3, 4, 5, 6, 7, 8, 9, 10], .msg kA [170, 187, 204]]).fin = .done ∧
    reassemble (flatten (allBatches .original 25
      [.msg kA [0, 1, 2, 3, 4, 5, 6, 7, 8, 9, 10], .msg kA [170, 187, 204]]).batches) =
      .ok [(kA, [0, 1, 2, 3, 4, 5, 6, 7, 8, 9, 10])] := by decide

/-- Remainder window, failed exchange: with 10 bytes left the limit is 3, the key is cut in the
middle, `ReadChunk` returns an unexpected EOF and the round returns the error. -/
theorem exchange_fails_window_original :
    UsableMtu 25 [.msg kA [0, 1, 2, 3, 4, 5, 6, 7, 8], .msg kA [170, 187, 204]] ∧
    (allBatches .original 25 [.msg kA [0, 1, 2, 3, 4, 5, 6, 7, 8], .msg kA [170, 187, 204]]).fin = .failed := by
  decide

/-- A forced break before the first chunk of a message ends the round: one empty message with
IsMore = false is sent and the three value bytes stay in the pipe. -/
theorem leading_yield_abandons_original :
    (allBatches .original 25 [.yield, .msg kA [1, 2, 3]]).batches = [⟨false, []⟩] ∧
    (allBatches .original 25 [.yield, .msg kA [1, 2, 3]]).fin = .stopped ∧
    (allBatches .original 25 [.yield, .msg kA [1, 2, 3]]).st.weight = 3 := by decide

/-- The same three inputs on the repaired code (instances of `lossless`). -/
example : reassemble (flatten (allBatches .repaired 25
    [.msg kA [0, 1, 2, 3, 4, 5, 6, 7, 8, 9, 10], .msg kA [170, 187, 204]]).batches) =
    .ok [(kA, [0, 1, 2, 3, 4, 5, 6, 7, 8, 9, 10, 170, 187, 204])] := by decide
example : (allBatches .repaired 25 [.msg kA [0, 1, 2, 3, 4, 5, 6, 7, 8], .msg kA [170, 187, 204]]).fin = .done := by
  decide
example : reassemble (flatten (allBatches .repaired 25 [.yield, .msg kA [1, 2, 3]]).batches) = .ok [(kA, [1, 2, 3])] := by
  decide

end Fdo.Props.C15
