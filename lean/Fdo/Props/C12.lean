import Fdo.Cbor.Proofs
import Fdo.Gen.Cbor
/-
C12 — CBOR decoding of arbitrary bytes is total, bounded and exact.
-/
namespace Fdo.Props.C12
open Fdo Fdo.Cbor

/-- Exact consumption: whenever one item is decoded from `b` leaving `r`, `b` is a prefix
`p` followed by exactly `r`, `p` is non-empty, and `p` alone decodes to the same item with
nothing left.  (Totality — a value or an error for every input — is what Lean's
acceptance of `decode` as a total function already states.) -/
theorem decode_consumes_exactly (f d : Nat) (b : Bytes) (v : Item) (r : Bytes)
    (h : decode f d b = some (v, r)) :
    ∃ p, b = p ++ r ∧ 1 ≤ p.length ∧ decode f d p = some (v, []) :=
  Cbor.decode_split f d b v r h

/-- What follows an item never influences how the item is read. -/
theorem decode_ignores_suffix (f d : Nat) (b t : Bytes) (v : Item) (r : Bytes)
    (h : decode f d b = some (v, r)) : decode f d (b ++ t) = some (v, r ++ t) :=
  Cbor.decode_append f d b t v r h

/-- Whole-buffer decoding never succeeds with bytes left over. -/
theorem unmarshal_no_trailing (b : Bytes) (v : Item) (h : unmarshalRaw b = some v) :
    decode1 b = some (v, []) := by
  unfold unmarshalRaw at h
  split at h
  · rename_i x heq; simp at h; rw [heq, h]
  · simp at h

/-- The model's length limit is the constant the code was compiled with (regenerated table). -/
theorem gen_maxLen_eq : Fdo.Gen.Cbor.maxArrayDecodeLength = maxLen := by decide

/-- Likewise the nesting bound. -/
theorem gen_maxDepth_eq : Fdo.Gen.Cbor.maxNestingDepth = maxDepth := by decide

end Fdo.Props.C12
