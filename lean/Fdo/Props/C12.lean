import Fdo.Cbor.Proofs
import Fdo.Cbor.Fuel
import Fdo.Gen.Cbor
/-
C12 — CBOR decoding of arbitrary bytes is total, bounded and exact.
-/
namespace Fdo.Props.C12
open Fdo Fdo.Cbor

/-- Exact consumption: whenever one item is decoded from `b` leaving `r`, `b` is a prefix
`p` followed by exactly `r`, `p` is non-empty, and `p` alone decodes to the same item with
nothing left.  (Totality — a value or an error for every input — is what Lean's
acceptance of `decode` as a total function already states.) -/
theorem decode_consumes_exactly (f d : Nat) (b : Bytes) (v : Item) (r : Bytes)
    (h : decode f d b = some (v, r)) :
    ∃ p, b = p ++ r ∧ 1 ≤ p.length ∧ decode f d p = some (v, []) :=
  Cbor.decode_split f d b v r h

/-- What follows an item never influences how the item is read. -/
theorem decode_ignores_suffix (f d : Nat) (b t : Bytes) (v : Item) (r : Bytes)
    (h : decode f d b = some (v, r)) : decode f d (b ++ t) = some (v, r ++ t) :=
  Cbor.decode_append f d b t v r h

/-- Whole-buffer decoding never succeeds with bytes left over. -/
theorem unmarshal_no_trailing (b : Bytes) (v : Item) (h : unmarshalRaw b = some v) :
    decode1 b = some (v, []) := by
  unfold unmarshalRaw at h
  split at h
  · rename_i x heq; simp at h; rw [heq, h]
  · simp at h



/-- **Totality is not an artefact of the model's fuel.** The model recurses on a fuel argument and
answers `error` when it runs out; `decode1` (what the driver and the theorems above use) supplies
2·length + 1. Whatever *any* amount of fuel decodes, `decode1` decodes to the same item with the same
rest — so an `error` of the model is never "out of fuel", and the real decoder's success on an input
cannot be misrepresented as a rejection for that reason. -/
theorem fuel_never_decides (f : Nat) (b : Bytes) (v : Item) (r : Bytes)
    (h : decode f maxDepth b = some (v, r)) : decode1 b = some (v, r) :=
  Cbor.decode1_complete f b v r h

/-- **Declared lengths at or above the limit are rejected**, whatever follows the head: a byte
string, text string, array or map whose head declares `maxLen` (= MaxArrayDecodeLength) or more
bytes / items / pairs is never decoded — in particular not a map declaring 2⁶³ pairs, whose doubled
item count wraps around to 0 in 64-bit arithmetic (accepted as an empty map by the tree as found;
repaired). -/
theorem over_limit_rejected (f d : Nat) (b : Bytes) (mt ai arg : Nat) (r : Bytes)
    (hh : decHead b = some (mt, ai, arg, r)) (hmt : mt = 2 ∨ mt = 3 ∨ mt = 4 ∨ mt = 5) (hlen : maxLen ≤ arg) :
    decode f d b = none := by
  cases f with
  | zero => unfold decode; rfl
  | succ f =>
    unfold decode
    simp only [hh]
    rcases hmt with h | h | h | h <;> subst h
    · simp; intro h1; exact absurd hlen (by omega)
    · simp; intro h1; exact absurd hlen (by omega)
    · simp; intro h1; exact absurd hlen (by omega)
    · simp; intro h1 h2; exact absurd hlen (by omega)

/-- the instance that was accepted before the repair: a map head declaring 2⁶³ pairs -/
example : decode1 [0xbb, 0x80, 0, 0, 0, 0, 0, 0, 0] = none :=
  over_limit_rejected _ _ _ 5 27 (2 ^ 63) [] (by decide) (by decide) (by decide)

/-- The model's length limit is the constant the code was compiled with (regenerated table). -/
theorem gen_maxLen_eq : Fdo.Gen.Cbor.maxArrayDecodeLength = maxLen := by decide

/-- Likewise the nesting bound. -/
theorem gen_maxDepth_eq : Fdo.Gen.Cbor.maxNestingDepth = maxDepth := by decide

end Fdo.Props.C12
