import Fdo.Cbor.Proofs
import Fdo.Cbor.Fuel
import Fdo.Cbor.Footprint
import Fdo.Cbor.TypedSuffix
import Fdo.Cbor.TypedWF
import Fdo.Cbor.WellFormedLimits
import Fdo.Cbor.TypedLimit
import Fdo.Cbor.TypedAppend
import Fdo.Cbor.TypedSplit
import Fdo.Cbor.TypedProofs
import Fdo.Gen.Cbor
/-
C12 — CBOR decoding of arbitrary bytes is total, bounded and exact.
-/
namespace Fdo.Props.C12
open Fdo Fdo.Cbor

/-- Exact consumption: whenever one item is decoded from `b` leaving `r`, `b` is a prefix
`p` followed by exactly `r`, `p` is non-empty, and `p` alone decodes to the same item with
nothing left.  (Totality — a value or an error for every input — is what Lean's
acceptance of `decode` as a total function already states.) -/
theorem decode_consumes_exactly (f d : Nat) (b : Bytes) (v : Item) (r : Bytes)
    (h : decode f d b = some (v, r)) :
    ∃ p, b = p ++ r ∧ 1 ≤ p.length ∧ decode f d p = some (v, []) :=
  Cbor.decode_split f d b v r h

/-- What follows an item never influences how the item is read. -/
theorem decode_ignores_suffix (f d : Nat) (b t : Bytes) (v : Item) (r : Bytes)
    (h : decode f d b = some (v, r)) : decode f d (b ++ t) = some (v, r ++ t) :=
  Cbor.decode_append f d b t v r h

/-- Whole-buffer decoding never succeeds with bytes left over. -/
theorem unmarshal_no_trailing (b : Bytes) (v : Item) (h : unmarshalRaw b = some v) :
    decode1 b = some (v, []) := by
  unfold unmarshalRaw at h
  split at h
  · rename_i x heq; simp at h; rw [heq, h]
  · simp at h



/-- **Totality is not an artefact of the model's fuel.** The model recurses on a fuel argument and
answers `error` when it runs out; `decode1` (what the driver and the theorems above use) supplies
2·length + 1. Whatever *any* amount of fuel decodes, `decode1` decodes to the same item with the same
rest — so an `error` of the model is never "out of fuel", and the real decoder's success on an input
cannot be misrepresented as a rejection for that reason. -/
theorem fuel_never_decides (f : Nat) (b : Bytes) (v : Item) (r : Bytes)
    (h : decode f maxDepth b = some (v, r)) : decode1 b = some (v, r) :=
  Cbor.decode1_complete f b v r h

/-- **Declared lengths at or above the limit are rejected**, whatever follows the head: a byte
string, text string, array or map whose head declares `maxLen` (= MaxArrayDecodeLength) or more
bytes / items / pairs is never decoded — in particular not a map declaring 2⁶³ pairs, whose doubled
item count wraps around to 0 in 64-bit arithmetic (accepted as an empty map by the tree as found;
repaired). -/
theorem over_limit_rejected (f d : Nat) (b : Bytes) (mt ai arg : Nat) (r : Bytes)
    (hh : decHead b = some (mt, ai, arg, r)) (hmt : mt = 2 ∨ mt = 3 ∨ mt = 4 ∨ mt = 5) (hlen : maxLen ≤ arg) :
    decode f d b = none := by
  cases f with
  | zero => unfold decode; rfl
  | succ f =>
    unfold decode
    simp only [hh]
    rcases hmt with h | h | h | h <;> subst h
    · simp; intro h1; exact absurd hlen (by omega)
    · simp; intro h1; exact absurd hlen (by omega)
    · simp; intro h1; exact absurd hlen (by omega)
    · simp; intro h1 h2; exact absurd hlen (by omega)

/-- the instance that was accepted before the repair: a map head declaring 2⁶³ pairs -/
example : decode1 [0xbb, 0x80, 0, 0, 0, 0, 0, 0, 0] = none :=
  over_limit_rejected _ _ _ 5 27 (2 ^ 63) [] (by decide) (by decide) (by decide)

/-! ### memory: what is built is paid for by bytes actually read -/

/-- **The decoded value is bounded by the input consumed, not by what the input claims**: its
footprint (one unit per item, one per string byte) plus the unread rest never exceeds the input
length. A decoder that allocates as data arrives (the repaired policy: `decodeByteSlice`, `Grow` per
element) therefore needs memory linear in the bytes read; the constant per unit is the Go runtime's
(measured by the allocation counters of the correspondence run, not proved). -/
theorem decoded_value_paid_for_by_input (f d : Nat) (b : Bytes) (v : Item) (r : Bytes)
    (h : decode f d b = some (v, r)) : v.footprint + r.length ≤ b.length :=
  decode_footprint f d b v r h

/-- An array of `n` items / a map of `n` pairs that decodes was followed by at least `n` / `2n`
bytes. -/
theorem container_count_backed_by_bytes (f d : Nat) (b : Bytes) (r : Bytes) :
    (∀ xs, decode f d b = some (.arr xs, r) → xs.length + r.length < b.length) ∧
    (∀ ps, decode f d b = some (.map ps, r) → 2 * ps.length + r.length < b.length) := by
  constructor
  · intro xs h
    have := decode_footprint f d b _ r h
    have := Items.length_le_footprint xs
    simp [Item.footprint] at *; omega
  · intro ps h
    have := decode_footprint f d b _ r h
    have := Pairs.length_le_footprint ps
    simp [Item.footprint] at *; omega

/-- **A length that the remaining input cannot back is rejected**, below the limit too: a string head
announcing more bytes, an array head announcing more items, or a map head announcing more than half
as many pairs as there are bytes left never decodes — whatever those bytes are. -/
theorem unbacked_claim_rejected (f d : Nat) (b : Bytes) (mt ai arg : Nat) (r0 : Bytes)
    (hh : decHead b = some (mt, ai, arg, r0))
    (hc : (mt = 2 ∨ mt = 3 ∨ mt = 4) ∧ r0.length < arg ∨ mt = 5 ∧ r0.length < 2 * arg) :
    decode f d b = none := by
  cases hdec : decode f d b with
  | none => rfl
  | some q =>
    exfalso
    obtain ⟨v, r⟩ := q
    match f with
    | 0 => simp [decode] at hdec
    | f+1 =>
      unfold decode at hdec
      simp only [hh] at hdec
      rcases hc with ⟨h | h | h, hl⟩ | ⟨h, hl⟩ <;> subst h
      · simp at hdec; omega
      · simp at hdec; omega
      · simp only [show ((4:Nat) = 0) = False from by simp, show ((4:Nat) = 1) = False from by simp,
          show ((4:Nat) = 2) = False from by simp, show ((4:Nat) = 3) = False from by simp, if_false, if_true] at hdec
        split at hdec
        · simp at hdec
        · cases hi : decodeItems f (d - 1) arg r0 with
          | none => simp [hi] at hdec
          | some q =>
            obtain ⟨xs, r1⟩ := q
            have := decodeItems_footprint f (d - 1) arg r0 xs r1 hi
            have := Items.length_le_footprint xs
            omega
      · simp only [show ((5:Nat) = 0) = False from by simp, show ((5:Nat) = 1) = False from by simp,
          show ((5:Nat) = 2) = False from by simp, show ((5:Nat) = 3) = False from by simp,
          show ((5:Nat) = 4) = False from by simp, if_false, if_true] at hdec
        split at hdec
        · simp at hdec
        · cases hi : decodePairs f (d - 1) arg r0 with
          | none => simp [hi] at hdec
          | some q =>
            obtain ⟨ps, r1⟩ := q
            have := decodePairs_footprint f (d - 1) arg r0 ps r1 hi
            have := Pairs.length_le_footprint ps
            omega

/-- the shape of the seeded and original allocation defects: ten bytes claiming 99 999 nested arrays
of 99 999 items are rejected, and nothing of that size is ever built -/
example : decode1 [0x9a, 0x00, 0x01, 0x86, 0x9f, 0x9a, 0x00, 0x01, 0x86, 0x9f] = none :=
  unbacked_claim_rejected _ _ _ 4 26 99999 [0x9a, 0x00, 0x01, 0x86, 0x9f] (by decide) (Or.inl ⟨by simp, by decide⟩)

/-- **Reserved and indefinite-length heads are refused** wherever an item is expected: a first byte
whose additional info is 28..30 (reserved) or 31 (indefinite length, break) never starts an accepted
item, whatever follows. (Before repair cd51579 the structural decoder read such a head as argument 0
while `Decoder.unwrap` read the info value as a length, so the two disagreed on where the item ends.) -/
theorem reserved_heads_rejected (f d : Nat) (x : UInt8) (t : Bytes) (h : x.toNat % 32 ≥ 28) :
    decode f d (x :: t) = none := by
  cases f with
  | zero => simp [decode]
  | succ f =>
    have hd : decHead (x :: t) = none := by
      simp only [decHead]
      rw [if_neg (by omega), if_pos h]
    simp [decode, hd]

/-- the same for a byte-wrapped target (`Bstr`, `ByteWrap`, certificates), which reads its head through
`Decoder.unwrap` -/
theorem reserved_heads_rejected_unwrap (x : UInt8) (t : Bytes) (h : x.toNat % 32 ≥ 28) :
    unwrapBytes (x :: t) = none := by
  have hd : decHead (x :: t) = none := by
    simp only [decHead]
    rw [if_neg (by omega), if_pos h]
  simp [unwrapBytes, hd]

/-- the input on which the two decoders disagreed: 0x5c followed by 28 bytes -/
example (t : Bytes) : decode1 (0x5c :: t) = none ∧ unwrapBytes (0x5c :: t) = none :=
  ⟨reserved_heads_rejected _ _ _ _ (by decide), reserved_heads_rejected_unwrap _ _ (by decide)⟩

/-! ### every decode target -/

/-- **Exact consumption for every decode target**: whatever Go type is decoded into (any schema of the
typed model — integers, strings, slices, structs with omitted fields, pointers, maps, `any`, tags, byte-
wrapped values, raw bytes, certificates, timestamps, COSE headers and keys, …), the stream is left at a
position inside the input: what remains is the input without a prefix. Nothing is re-read, skipped ahead
of, or invented. -/
theorem typed_decode_consumes_prefix (ok : CertOracle) (f d : Nat) (s : Schema) (b : Bytes) (v : Val) (r : Bytes)
    (h : decodeS ok f d s b = some (v, r)) : ∃ p, b = p ++ r :=
  decodeS_consumes_prefix ok f d s b v r h

/-- **No decode target looks past the item it reads**: appending anything behind the input changes the
decoded value of no target and nothing but the rest that is handed back — for every schema constructor,
through pointers, wrappers, raw passes, COSE headers and `interface{}` values alike. -/
theorem typed_decode_ignores_suffix (ok : CertOracle) (f d : Nat) (s : Schema) (b t : Bytes) (v : Val) (r : Bytes)
    (h : decodeS ok f d s b = some (v, r)) : decodeS ok f d s (b ++ t) = some (v, r ++ t) :=
  decodeS_append ok f d s b t v r h

/-- **What a decode target returns is a function of the bytes it consumed**: the input splits into the consumed
prefix `p` and the rest; `p` alone decodes to the same value with nothing left, and `p` followed by anything else
decodes to the same value leaving exactly that. (The typed twin of `decode_consumes_exactly`.) -/
theorem typed_decode_depends_on_consumed_prefix_only (ok : CertOracle) (f d : Nat) (s : Schema) (b : Bytes) (v : Val) (r : Bytes)
    (h : decodeS ok f d s b = some (v, r)) :
    ∃ p, b = p ++ r ∧ decodeS ok f d s p = some (v, []) ∧ ∀ t, decodeS ok f d s (p ++ t) = some (v, t) := by
  obtain ⟨p, hp, hd⟩ := decodeS_split ok f d s b v r h
  exact ⟨p, hp, hd, fun t => by simpa using decodeS_append ok f d s p t v [] hd⟩

/-- Whole-buffer decoding into any type never succeeds with bytes left over. -/
theorem typed_unmarshal_no_trailing (ok : CertOracle) (s : Schema) (b : Bytes) (v : Val) (h : unmarshalS ok s b = some v) :
    decodeS ok (2 * b.length + 64) maxDepth s b = some (v, []) := by
  unfold unmarshalS at h
  split at h
  · rename_i v' heq; simp at h; subst h; exact heq
  · simp at h

/-- **Declared lengths at or above the limit are rejected by every decode target that checks it** — every
target except the four that read their head through `Decoder.unwrap` (`Schema.limitChecked`): whatever
follows the head, and even if all the declared bytes or items are really there. -/
theorem typed_over_limit_rejected (ok : CertOracle) (f d : Nat) (s : Schema) (b : Bytes) (mt ai arg : Nat) (r : Bytes)
    (hd : decHead b = some (mt, ai, arg, r)) (hmt : 2 ≤ mt ∧ mt ≤ 5) (harg : arg ≥ maxLen)
    (hs : s.limitChecked = true) : decodeS ok f d s b = none :=
  decodeS_over_limit ok f d s b mt ai arg r hd hmt harg hs

/-- The excluded targets, stated rather than hidden: `ByteWrap[[]byte]` (and likewise `Bstr[T]`,
`ByteWrap[T]`, the X.509 wrappers) accepts a byte string of any declared length whose bytes are all
present — the limit of `MaxArrayDecodeLength` "for a string or byte slice" is not applied on this path.
Run on the implementation: a 200 000-byte string decodes into `ByteWrap[[]byte]` and is refused by
`[]byte` and `RawBytes`. Within the property's quantifier (inputs up to 64 KiB) such a string can only be
*declared*, never delivered, and is refused for lack of bytes after reading at most the input
(`typed_decode_consumes_prefix`, allocation oracle), so this is recorded as an observation, not a finding. -/
theorem unwrap_targets_do_not_check_limit (ok : CertOracle) (f d n : Nat) (r : Bytes) (hn : n < 18446744073709551616)
    (hl : n ≤ r.length) :
    decodeS ok (f + 1) d .wrapBytes (encHead 2 n ++ r) = some (.bytes (r.take n), r.drop n) := by
  obtain ⟨ai, hd, hai⟩ := decHead_encHead28 2 n r (by omega) hn
  simp only [decodeS, unwrapBytes, hd]
  have : ¬ (ai ≥ 28) := by omega
  simp [this]; omega

/-! ### what is consumed is one well-formed item

`WFN n b r` (`Cbor/WellFormed.lean`) is RFC 8949's grammar of definite-length items stated without any
decoder, limit or fuel: `b` is `n` items followed by `r`. -/

/-- **What the structural decoder accepts is one well-formed item**, and the stream is left right behind it. -/
theorem accepted_is_one_well_formed_item (f d : Nat) (b : Bytes) (v : Item) (r : Bytes)
    (h : decode f d b = some (v, r)) : WF1 b r := decode_wf f d b v r h

/-- **The same for every decode target**: whatever Go type is decoded into, what the decoder consumed is
exactly one well-formed item — never part of one, never one and a bit of the next (as `ByteWrap` did
for the head 0x5c before cd51579, and `Bstr[T]` for a string longer than its content before 0388949). -/
theorem typed_accepted_is_one_well_formed_item (ok : CertOracle) (f d : Nat) (s : Schema) (b : Bytes) (v : Val) (r : Bytes)
    (h : decodeS ok f d s b = some (v, r)) : WF1 b r := decodeS_wf ok f d s b v r h

/-- **"The next item" is well defined**: bytes cannot be split into an item and a rest in two ways. -/
theorem item_boundary_unique (b r r' : Bytes) (h1 : WF1 b r) (h2 : WF1 b r') : r = r' := h1.unique h2

/-- **All decoders agree on where an item ends**: two decode targets (two Go types, or a Go type and
`RawBytes`) that both accept the same stream leave it at the same position. -/
theorem decoders_agree_on_item_end (ok : CertOracle) (f d f' d' : Nat) (s s' : Schema) (b : Bytes) (v v' : Val) (r r' : Bytes)
    (h1 : decodeS ok f d s b = some (v, r)) (h2 : decodeS ok f' d' s' b = some (v', r')) : r = r' :=
  (decodeS_wf ok f d s b v r h1).unique (decodeS_wf ok f' d' s' b v' r' h2)

theorem typed_and_structural_agree_on_item_end (ok : CertOracle) (f d f' d' : Nat) (s : Schema) (b : Bytes) (v : Val) (x : Item)
    (r r' : Bytes) (h1 : decodeS ok f d s b = some (v, r)) (h2 : decode f' d' b = some (x, r')) : r = r' :=
  (decodeS_wf ok f d s b v r h1).unique (decode_wf f' d' b x r' h2)

/-- **A well-formed item within the documented limits is consumed exactly** — the clause of the property as
it stands: if the stream starts with an item of the grammar in which no string is `maxLen` bytes or longer,
no array has `maxLen` items or more, no map `maxLen/2` pairs or more and containers nest at most `maxDepth`
deep (`WFL maxDepth 1 b r`), the decoder succeeds and leaves exactly what follows the item. -/
theorem well_formed_item_consumed_exactly (b r : Bytes) (h : WFL maxDepth 1 b r) : ∃ v, decode1 b = some (v, r) :=
  (decode1_iff_wfl b r).2 h

/-- … and it accepts nothing else: the structural decoder is *characterised* by the grammar with limits. -/
theorem accepts_exactly_the_well_formed_within_limits (b r : Bytes) :
    (∃ v, decode1 b = some (v, r)) ↔ WFL maxDepth 1 b r := decode1_iff_wfl b r

/-- the grammar with limits is the grammar, restricted -/
theorem within_limits_is_well_formed (d n : Nat) (b r : Bytes) (h : WFL d n b r) : WFN n b r := h.wfn

example (t : Bytes) : WFL maxDepth 1 ([0x82, 0x01, 0x41, 0x00] ++ t) t :=
  .arr (d := 63) (ai := 2) (arg := 2) (r := [0x01, 0x41, 0x00] ++ t) (r1 := t) (by simp [decHead]) (by decide)
    (.scalar (mt := 0) (ai := 1) (arg := 1) (r := [0x41, 0x00] ++ t) (by simp [decHead]) (by omega)
      (.str (mt := 2) (ai := 1) (arg := 1) (r := [0x00] ++ t) (by simp [decHead]) (by omega) (by decide) (by simp) (by simpa using .zero)))
    .zero

/-- the grammar is not empty: `[1, h'00']` followed by anything is one item followed by that -/
example (t : Bytes) : WF1 ([0x82, 0x01, 0x41, 0x00] ++ t) t :=
  .arr (ai := 2) (arg := 2) (r := [0x01, 0x41, 0x00] ++ t) (by simp [decHead])
    (.scalar (mt := 0) (ai := 1) (arg := 1) (r := [0x41, 0x00] ++ t) (by simp [decHead]) (by omega)
      (.str (mt := 2) (ai := 1) (arg := 1) (r := [0x00] ++ t) (by simp [decHead]) (by omega) (by simp) (by simpa using .zero)))

/-- and it refuses what is not an item: a two-element array with one element -/
example : ¬ WF1 [0x82, 0x01] [] := by
  intro h
  cases h with
  | scalar hd hm _ => simp [decHead] at hd; omega
  | str hd hm _ _ => simp [decHead] at hd; omega
  | arr hd t =>
    simp [decHead] at hd; obtain ⟨_, e1, e2⟩ := hd; subst e1 e2
    cases t with
    | scalar hd2 _ t2 =>
      simp [decHead] at hd2; obtain ⟨_, _, _, e⟩ := hd2; subst e
      cases t2 with
      | scalar hd3 _ _ => simp [decHead] at hd3
      | str hd3 _ _ _ => simp [decHead] at hd3
      | arr hd3 _ => simp [decHead] at hd3
      | map hd3 _ => simp [decHead] at hd3
      | tag hd3 _ => simp [decHead] at hd3
    | str hd2 hm2 _ _ => simp [decHead] at hd2; omega
    | arr hd2 _ => simp [decHead] at hd2
    | map hd2 _ => simp [decHead] at hd2
    | tag hd2 _ => simp [decHead] at hd2
  | map hd _ => simp [decHead] at hd
  | tag hd _ => simp [decHead] at hd

/-- The model's length limit is the constant the code was compiled with (regenerated table). -/
theorem gen_maxLen_eq : Fdo.Gen.Cbor.maxArrayDecodeLength = maxLen := by decide

/-- Likewise the nesting bound. -/
theorem gen_maxDepth_eq : Fdo.Gen.Cbor.maxNestingDepth = maxDepth := by decide

end Fdo.Props.C12
