import Fdo.Proto.ServerProofs
import Fdo.Proto.ServerGrammar
import Fdo.Facts
import Fdo.Gen.Handler
import Fdo.Gen.Proto
/-
C08 — server effects happen only through in-order, session-bound message sequences.

All statements are about `Fdo.Proto.Server.step`, the request-level model of
http.Handler.ServeHTTP + the four responders, for the state reached by ANY history of requests
(`stateAfter (init …) history`) and ANY next request.
-/
namespace Fdo.Props.C08
open Fdo.Proto.Server

/-- **Effects are session-bound and in order.** After any history, if the next request causes an
effect (DI voucher stored, rendezvous blob stored, owner module invoked, voucher replaced) then the
request is not a protocol start, it carries the token of a session that is live and of the request's
protocol, the effect is attributed to that very session, and that session has answered, in this
order, the protocol's earlier messages (`Needs`): 10 before a voucher is stored by 12; 20 before a
blob is stored by 22 (whose nonce is that session's); 60, 64, 66, 68 before an owner module runs in
68; 60, 64, 66 before 70 replaces a voucher. -/
theorem effects_session_bound_in_order (v : List Nat) (reuse : Bool) (m : Nat) (history : List Req) (r : Req) :
    let st := stateAfter (init v reuse m) history
    ∀ e ∈ (step st r).2.2, ∃ k s, r.tok = .sess k ∧ st.sessions[k]? = some s ∧ s.live = true ∧
      some s.proto = protoOf r.typ ∧ isStart r.typ = false ∧ Needs e r k s.hist := by
  intro st e he
  have hinv : Inv st := stateAfter_inv (init_inv v reuse m) history
  have sp := step_spec st r
  generalize step st r = res at sp he
  cases sp with
  | errMsg _ => simp at he
  | unknown _ _ => simp at he
  | startOk p s' resp eff _ _ hst hh =>
    have := handle_start_no_effects hst hh
    subst this; simp at he
  | startErr _ _ _ _ _ => simp at he
  | served p k s s' resp eff _ hp hst htok hs hl hpr hh =>
    exact ⟨k, s, htok, hs, hl, by rw [hpr, hp], hst, handle_effects (hinv k s hs) hh e he⟩
  | rejected _ _ _ _ _ _ _ _ _ _ => simp at he
  | noSession _ _ _ _ _ => simp at he

/-- **No live token of the right protocol, no service.** A request that is not a protocol start
and carries no token, a token the store never issued, a token of a finished or failed session, or a
token of another protocol's session is answered by an error message, causes no effect and leaves
vouchers and blobs untouched — whatever its content. -/
theorem no_live_token_no_service (st : State) (r : Req) (h255 : r.typ ≠ 255) (hst : isStart r.typ = false)
    (htok : ∀ k s, r.tok = .sess k → st.sessions[k]? = some s → s.live = false ∨ some s.proto ≠ protoOf r.typ) :
    (step st r).2 = (255, []) ∧ (step st r).1.vouchers = st.vouchers ∧ (step st r).1.blobs = st.blobs := by
  have sp := step_spec st r
  generalize step st r = res at sp
  cases sp with
  | errMsg h => exact absurd h h255
  | unknown _ _ => exact ⟨rfl, rfl, rfl⟩
  | startOk _ _ _ _ _ _ h _ => rw [hst] at h; cases h
  | startErr _ _ _ h _ => rw [hst] at h; cases h
  | served p k s s' resp eff _ hp _ ht hs hl hpr _ =>
    rcases htok k s ht hs with h | h
    · rw [hl] at h; cases h
    · rw [hpr, hp] at h; exact absurd rfl h
  | rejected _ _ _ _ _ _ _ _ _ _ => exact ⟨rfl, rfl, rfl⟩
  | noSession _ _ _ _ _ => exact ⟨rfl, rfl, rfl⟩

/-- **The token dies with the protocol run.** If a request of one of the 13 client message types
(or an error message, 255) carried a session's token and was answered by an error, by the
protocol's final message (13, 23, 33, 71), or was itself an error message, the session is not live
afterwards. -/
theorem token_dead_after_end (st : State) (r : Req) (k : Nat) (s : Sess)
    (htok : r.tok = .sess k) (hs : st.sessions[k]? = some s) (hst : isStart r.typ = false)
    (hknown : protoOf r.typ ≠ none ∨ r.typ = 255)
    (hend : (step st r).2.1 = 255 ∨ final (step st r).2.1 = true ∨ r.typ = 255) :
    ∃ s', (step st r).1.sessions[k]? = some s' ∧ s'.live = false := by
  have hk : k < st.sessions.length := lt_of_get hs
  have sp := step_spec st r
  generalize step st r = res at sp hend
  cases sp with
  | errMsg _ =>
    refine ⟨dead s, ?_, rfl⟩
    show (killTok st.sessions r.tok)[k]? = _
    rw [killTok_get, htok, hs]; simp
  | unknown h1 h2 =>
    rcases hknown with h | h
    · exact absurd h2 h
    · exact absurd h h1
  | startOk _ _ _ _ _ _ h _ => rw [hst] at h; cases h
  | startErr _ _ _ h _ => rw [hst] at h; cases h
  | served p k' s0 s' resp eff h255 _ _ ht hs0 _ _ hh =>
    rw [htok] at ht; cases ht
    have hr := handle_resp hh
    refine ⟨finish s' r.typ resp, ?_, ?_⟩
    · show (applyEffs _ eff).sessions[k]? = _
      rw [applyEffs_sessions]; exact List.getElem?_set_self hk
    · rcases hend with h | h | h
      · have hne := handle_typ hh
        have h254 : r.typ = 254 := by simp only at h; omega
        rw [h254] at hne
        exact absurd (by decide : protoOf 254 = none) hne
      · simp only at h; simp [finish, h]
      · exact absurd h h255
  | rejected p k' s0 _ _ _ ht hs0 _ _ =>
    rw [htok] at ht; cases ht
    exact ⟨dead s0, List.getElem?_set_self hk, rfl⟩
  | noSession p _ _ _ hno => exact ⟨s, hs, hno k s htok hs⟩

/-- **Dead stays dead.** No request revives a session. -/
theorem dead_stays_dead (st : State) (r : Req) (k : Nat) (s : Sess)
    (hs : st.sessions[k]? = some s) (hd : s.live = false) :
    ∃ s', (step st r).1.sessions[k]? = some s' ∧ s'.live = false := by
  have hk : k < st.sessions.length := lt_of_get hs
  have sp := step_spec st r
  generalize step st r = res at sp
  cases sp with
  | errMsg _ =>
    show ∃ s', (killTok st.sessions r.tok)[k]? = some s' ∧ s'.live = false
    rw [killTok_get, hs]
    split
    · exact ⟨dead s, rfl, rfl⟩
    · exact ⟨s, rfl, hd⟩
  | unknown _ _ => exact ⟨s, hs, hd⟩
  | startOk p s' resp eff _ _ _ _ =>
    refine ⟨s, ?_, hd⟩
    show (applyEffs _ eff).sessions[k]? = _
    rw [applyEffs_sessions]; exact (List.getElem?_append_left hk).trans hs
  | startErr p _ _ _ _ => exact ⟨s, (List.getElem?_append_left hk).trans hs, hd⟩
  | served p k' s0 s' resp eff _ _ _ _ hs0 hl _ _ =>
    by_cases hkk : k' = k
    · subst hkk; rw [hs] at hs0; cases hs0; rw [hd] at hl; cases hl
    · refine ⟨s, ?_, hd⟩
      show (applyEffs _ eff).sessions[k]? = _
      rw [applyEffs_sessions]; exact (List.getElem?_set_ne hkk).trans hs
  | rejected p k' s0 _ _ _ _ hs0 hl _ =>
    by_cases hkk : k' = k
    · subst hkk; rw [hs] at hs0; cases hs0; rw [hd] at hl; cases hl
    · exact ⟨s, (List.getElem?_set_ne hkk).trans hs, hd⟩
  | noSession _ _ _ _ _ => exact ⟨s, hs, hd⟩

/-- … over any number of further requests. -/
theorem dead_stays_dead_history (st : State) (rs : List Req) (k : Nat) (s : Sess)
    (hs : st.sessions[k]? = some s) (hd : s.live = false) :
    ∃ s', (stateAfter st rs).sessions[k]? = some s' ∧ s'.live = false := by
  unfold stateAfter
  induction rs generalizing st s with
  | nil => exact ⟨s, hs, hd⟩
  | cons r rs ih =>
    obtain ⟨s1, h1, d1⟩ := dead_stays_dead st r k s hs hd
    simp only [List.foldl_cons]
    exact ih (step st r).1 s1 h1 d1

/-- **After the end the token grants nothing, ever.** Once a session has ended, every later
non-start request carrying its token — after any number of other requests — gets an error and
causes no effect. -/
theorem ended_token_grants_nothing (st : State) (rs : List Req) (r : Req) (k : Nat) (s : Sess)
    (hs : st.sessions[k]? = some s) (hd : s.live = false)
    (htok : r.tok = .sess k) (h255 : r.typ ≠ 255) (hst : isStart r.typ = false) :
    (step (stateAfter st rs) r).2 = (255, []) := by
  obtain ⟨s', hs', hd'⟩ := dead_stays_dead_history st rs k s hs hd
  refine (no_live_token_no_service _ r h255 hst ?_).1
  intro k' s'' ht hs''
  rw [htok] at ht; cases ht
  rw [hs'] at hs''; cases hs''
  exact Or.inl hd'

/-- **A rendezvous blob is stored only by the session whose nonce the OwnerSign carries, while it
is live.** After any history, an OwnerSign that carries the nonce issued in session `j` stores
nothing when it arrives under no token, under another session's token, or after session `j` has
ended. (`Req.nonceOf` is the model's view of the signed to0d: which session's NonceTO0Sign it holds.) -/
theorem owner_sign_only_in_its_own_live_session (v : List Nat) (reuse : Bool) (m : Nat) (history : List Req)
    (r : Req) (j : Nat) (hn : r.nonceOf = some j) :
    let st := stateAfter (init v reuse m) history
    (r.tok ≠ .sess j ∨ ∀ s, st.sessions[j]? = some s → s.live = false) →
    ∀ e ∈ (step st r).2.2, ∀ k d, e ≠ .setBlob k d := by
  intro st hcase e he k d hed
  obtain ⟨k', s, htok, hs, hl, _, _, hneeds⟩ := effects_session_bound_in_order v reuse m history r e he
  subst hed
  obtain ⟨_, _, _, hk⟩ : k = k' ∧ r.typ = 22 ∧ List.Sublist [20] s.hist ∧ r.nonceOf = some k' := hneeds
  rw [hn] at hk
  cases hk
  rcases hcase with h | h
  · exact h htok
  · have := h s hs
    rw [hl] at this; cases this

/-- **A replayed OwnerSign stores nothing.** Once session `j` has answered an OwnerSign with
AcceptOwner (23), the same signed bytes — any request carrying session `j`'s nonce — sent again,
after any further traffic, under any token whatsoever (none, the finished one, a new session's),
store no rendezvous blob. -/
theorem replayed_owner_sign_stores_nothing (v : List Nat) (reuse : Bool) (m : Nat) (before later : List Req)
    (q r : Req) (j : Nat) (s : Sess)
    (hq : q.tok = .sess j) (hqs : (stateAfter (init v reuse m) before).sessions[j]? = some s)
    (hq22 : q.typ = 22) (hacc : (step (stateAfter (init v reuse m) before) q).2.1 = 23)
    (hn : r.nonceOf = some j) :
    ∀ e ∈ (step (stateAfter (step (stateAfter (init v reuse m) before) q).1 later) r).2.2, ∀ k d, e ≠ .setBlob k d := by
  have hst : isStart q.typ = false := by rw [hq22]; decide
  have hknown : protoOf q.typ ≠ none ∨ q.typ = 255 := by rw [hq22]; exact Or.inl (by decide)
  obtain ⟨s1, hs1, hd1⟩ := token_dead_after_end _ q j s hq hqs hst hknown (Or.inr (Or.inl (by rw [hacc]; decide)))
  obtain ⟨s2, hs2, hd2⟩ := dead_stays_dead_history _ later j s1 hs1 hd1
  have heq : stateAfter (step (stateAfter (init v reuse m) before) q).1 later
      = stateAfter (init v reuse m) (before ++ q :: later) := by
    simp [stateAfter, List.foldl_append]
  rw [heq] at hs2 ⊢
  refine owner_sign_only_in_its_own_live_session v reuse m (before ++ q :: later) r j hn (Or.inr ?_)
  intro s' hs'
  rw [hs2] at hs'; cases hs'; exact hd2

/-- **Sessions do not interfere.** A request changes no session other than the one its token
names (a protocol start changes none and adds one). -/
theorem other_sessions_untouched (st : State) (r : Req) (j : Nat) (hj : j < st.sessions.length)
    (hne : r.tok ≠ .sess j ∨ isStart r.typ = true) (h255 : r.typ ≠ 255 ∨ r.tok ≠ .sess j) :
    (step st r).1.sessions[j]? = st.sessions[j]? := by
  have sp := step_spec st r
  generalize step st r = res at sp
  cases sp with
  | errMsg h =>
    have hne' : r.tok ≠ .sess j := by
      rcases h255 with h' | h'
      · exact absurd h h'
      · exact h'
    show (killTok st.sessions r.tok)[j]? = _
    rw [killTok_get]; simp [hne']
  | unknown _ _ => rfl
  | startOk p s' resp eff _ _ _ _ =>
    show (applyEffs _ eff).sessions[j]? = _
    rw [applyEffs_sessions]; exact List.getElem?_append_left hj
  | startErr p _ _ _ _ => exact List.getElem?_append_left hj
  | served p k s s' resp eff _ _ hst ht _ _ _ _ =>
    have : k ≠ j := by
      rcases hne with h | h
      · exact fun hh => h (by rw [ht, hh])
      · rw [hst] at h; cases h
    show (applyEffs _ eff).sessions[j]? = _
    rw [applyEffs_sessions]; exact List.getElem?_set_ne this
  | rejected p k s _ _ hst ht _ _ _ =>
    have : k ≠ j := by
      rcases hne with h | h
      · exact fun hh => h (by rw [ht, hh])
      · rw [hst] at h; cases h
    exact List.getElem?_set_ne this
  | noSession _ _ _ _ _ => rfl

/-- A protocol start ignores whatever token it carries: it is answered in a fresh session. -/
theorem start_makes_new_session (st : State) (r : Req) (hst : isStart r.typ = true) :
    (step st r).1.sessions.length = st.sessions.length + 1 := by
  have h255 : r.typ ≠ 255 := by intro h; rw [h] at hst; simp [isStart] at hst
  have sp := step_spec st r
  generalize step st r = res at sp
  cases sp with
  | errMsg h => exact absurd h h255
  | unknown _ h => 
    exfalso
    simp only [isStart, Bool.or_eq_true, beq_iff_eq] at hst
    rcases hst with ((h' | h') | h') | h' <;> rw [h'] at h <;> simp [protoOf] at h
  | startOk p s' resp eff _ _ _ _ =>
    show (applyEffs _ eff).sessions.length = _
    rw [applyEffs_sessions]; simp
  | startErr p _ _ _ _ => simp
  | served _ _ _ _ _ _ _ _ h _ _ _ _ _ => rw [hst] at h; cases h
  | rejected _ _ _ _ _ h _ _ _ _ => rw [hst] at h; cases h
  | noSession _ _ _ h _ => rw [hst] at h; cases h



/-- **Every session follows its protocol's order, completely.** After any history of requests —
honest, replayed, adversarial, under any tokens, interleaved in any way — the requests a session has
answered (its `hist`) form a word of its protocol's automaton (`scan`): DI `10 12`, TO0 `20 22`, TO1
`30 32`, TO2 `60 62* 64 (62|66|68)* 70`, each possibly cut short, never out of order, never with a
step repeated that the protocol has once, and a session that answered its final message is not live. -/
theorem history_is_a_protocol_word (v : List Nat) (reuse : Bool) (m : Nat) (history : List Req) (k : Nat) (s : Sess)
    (hs : (stateAfter (init v reuse m) history).sessions[k]? = some s) :
    ∃ ph, runAuto s.proto s.hist = some ph ∧ (ph = 3 → s.live = false) := by
  obtain ⟨⟨ph, hr, hrel⟩, _⟩ := stateAfter_invH (init_invH v reuse m) history k s hs
  refine ⟨ph, hr, fun h3 => ?_⟩
  rcases hrel with ⟨_, hd⟩ | hrel
  · exact hd
  · subst h3
    cases hp : s.proto <;> simp [hp] at hrel

/-- **The model's tables are the handler's.** Regenerated on every run — observed by running
`http.Handler.ServeHTTP` with recording stubs for every message and response type (protocol starts,
session-ending responses, the error branch that invalidates the token, the requests that are
decrypted), read from server.go (go/ast) and from protocol.Of (executed): the message types that start a protocol, the
response types that end a session, the error branch that invalidates the token, the
encrypted TO2 requests, the request → response dispatch of the four `Respond` methods (the twelve
request types of `handle_request_type`, each answered by its type + 1 as in `handle_resp`) and
the protocol of every message type are exactly what `isStart`, `final`, `decrypts`' use in `handle`,
`handle_resp` and `protoOf` say. A change of any of these in the source changes the generated
file and breaks this theorem. -/
theorem model_tables_are_the_handlers :
    ((List.range 256).all fun t => isStart t == Fdo.Gen.Handler.startTypes.contains t) = true ∧
    ((List.range 256).all fun t => final t == Fdo.Gen.Handler.finalResponses.contains t) = true ∧
    Fdo.Gen.Handler.errorInvalidates = true ∧
    ((Fdo.Gen.Handler.respondTable.map (·.2.1)).all fun t =>
      (Fdo.Gen.Handler.decryptTypes.contains t == (t == 66 || t == 68 || t == 70))) = true ∧
    (Fdo.Gen.Handler.respondTable.map fun r => (r.2.1, r.2.2.1)) =
      [(10, 11), (12, 13), (20, 21), (22, 23), (30, 31), (32, 33), (60, 61), (62, 63), (64, 65), (66, 67), (68, 69), (70, 71)] ∧
    ((List.range 256).all fun t => match protoOf t with
      | some .di => Fdo.Gen.Proto.protocolOf[t]? == some 1
      | some .to0 => Fdo.Gen.Proto.protocolOf[t]? == some 2
      | some .to1 => Fdo.Gen.Proto.protocolOf[t]? == some 3
      | some .to2 => Fdo.Gen.Proto.protocolOf[t]? == some 4
      | none => (Fdo.Gen.Proto.protocolOf[t]? == some 0 || Fdo.Gen.Proto.protocolOf[t]? == some 5)) = true := by
  decide +kernel

/-! Non-vacuity: a history in which every effect occurs, and the known weak point (Done accepted
straight after DeviceServiceInfoReady) as it stands in the code. -/

def honestTO2 : List Req := [
  { tok := .none, typ := 60, dev := 1 },
  { tok := .sess 0, typ := 62 },
  { tok := .sess 0, typ := 64, dev := 1, nonceOf := some 0, signer := some 1, xb := 7 },
  { tok := .sess 0, typ := 66, enc := some (0, 7), hmac := true },
  { tok := .sess 0, typ := 68, enc := some (0, 7), dm := true },
  { tok := .sess 0, typ := 68, enc := some (0, 7) },
  { tok := .sess 0, typ := 68, enc := some (0, 7) },
  { tok := .sess 0, typ := 70, enc := some (0, 7), nonceOf := some 0 } ]

example : (run (init [1] false 2) honestTO2).2 =
    [(61, []), (63, []), (65, []), (67, []), (69, []), (69, [.ownerModule 0]), (69, [.ownerModule 0]),
     (71, [.replaceVoucher 0 1])] := by decide

example : (run (init [1] false 2) [
    { tok := .none, typ := 10 }, { tok := .sess 0, typ := 12 },
    { tok := .none, typ := 20 }, { tok := .sess 1, typ := 22, dev := 1, nonceOf := some 1, signer := some 1 },
    { tok := .sess 0, typ := 12 }, { tok := .sess 1, typ := 22, dev := 1, nonceOf := some 1, signer := some 1 }]).2 =
    [(11, []), (13, [.addVoucher 0]), (21, []), (23, [.setBlob 1 1]), (255, []), (255, [])] := by decide

/-- the replay theorems' premises are met by a run, and the replays (no token, the finished token,
a new TO0 session's token) store nothing -/
example : (run (init [1] false 2) [
    { tok := .none, typ := 20 }, { tok := .sess 0, typ := 22, dev := 1, nonceOf := some 0, signer := some 1 },
    { tok := .none, typ := 22, dev := 1, nonceOf := some 0, signer := some 1 },
    { tok := .sess 0, typ := 22, dev := 1, nonceOf := some 0, signer := some 1 },
    { tok := .none, typ := 20 }, { tok := .sess 1, typ := 22, dev := 1, nonceOf := some 0, signer := some 1 }]).2 =
    [(21, []), (23, [.setBlob 0 1]), (255, []), (255, []), (21, []), (255, [])] := by decide

/-- the code as it stands: Done straight after 66 replaces the voucher (recorded finding) -/
example : (run (init [1] false 2) [
    { tok := .none, typ := 60, dev := 1 },
    { tok := .sess 0, typ := 64, dev := 1, nonceOf := some 0, signer := some 1, xb := 7 },
    { tok := .sess 0, typ := 66, enc := some (0, 7), hmac := true },
    { tok := .sess 0, typ := 70, enc := some (0, 7), nonceOf := some 0 }]).2 =
    [(61, []), (65, []), (67, []), (71, [.replaceVoucher 0 1])] := by decide


/-- **What the source does, in which order** (regenerated call-order facts): every effect is
preceded, in the function that causes it, by the reads of the session values that only the
protocol's earlier messages store, and by the comparisons with them. -/
theorem code_facts :
    Fdo.Facts.allBefore "DIServer.diDone" ["IncompleteVoucherHeader", "DeviceCertChain"] "AddVoucher" = true ∧
    Fdo.Facts.allBefore "TO0Server.acceptOwner" ["VerifyEntries", "TO0SignNonce", "Equal", "OwnerPublicKey", "Verify"] "SetRVBlob" = true ∧
    Fdo.Facts.allBefore "TO2Server.to2Done2" ["ProveDeviceNonce", "SetupDeviceNonce", "Equal", "ReplacementHmac", "GUID", "Voucher", "RvInfo", "ReplacementGUID"] "ReplaceVoucher" = true ∧
    Fdo.Facts.before "TO2Server.ownerServiceInfo" "Devmod" "HandleInfo" = true ∧
    Fdo.Facts.before "Handler.writeResponse" "Respond" "InvalidateToken" = true ∧
    Fdo.Facts.before "Handler.ServeHTTP" "NewToken" "handleRequest" = true ∧
    Fdo.Facts.atLeast "Handler.handleError" "InvalidateToken" 1 = true := by decide +kernel

end Fdo.Props.C08
