import Fdo.Proto.TO2Device
import Fdo.Facts
import Fdo.Props.C04
/-
C01 — the device completes TO2 only with the owner its voucher chain designates.
-/
namespace Fdo.Props.C01
open Fdo Fdo.Proto Fdo.Props.C04

/-- If the device proceeds to ProveDevice then: TO2.ProveOVHdr decoded with its payload; the
HelloDevice hash inside it is the hash of what the device sent; the advertised owner key
parses and 61 verifies under it; the nonce is the device's fresh nonce; every entry number
was answered in order and their count is the announced one; the header MAC verifies under the
device secret; the manufacturer key hashes to the value in the credential; the entry chain is
valid link by link (C04's `ChainOK`); the advertised key is the key of the chain's last entry;
and a supplied rendezvous blob verifies under that same key. -/
theorem proceed_only_with_designated_owner (O : DeviceOracles) (d : DeviceInputs)
    (h : verifyOwner O d = true) :
    ∃ p claim es H,
      d.proof = some p ∧ p.payloadPresent = true ∧
      O.hashFunc p.helloHashAlg = some H ∧ H d.helloBytes = p.helloHashVal ∧
      p.ownerKeyClaim = some claim ∧ O.keyOK claim = true ∧ O.proofSigOK claim p = true ∧
      p.nonce = d.helloNonce ∧ O.kexOK claim = true ∧
      fetched 0 d.entries = some es ∧ es.length = p.numEntries ∧
      verifyHeader O.hmac256 O.hmac384 d.secret (assembled p es) = .ok ∧
      verifyMfgKey O.sha256 O.sha384 d.credKeyHashAlg d.credKeyHashVal (assembled p es) = .ok ∧
      verifyEntries O.sha256 O.sha384 O.entrySigOK O.keyOK (assembled p es) = true ∧
      O.keyEq claim (ownerKey (assembled p es)) = true ∧
      (d.to1dPresent = true → O.to1dSigOK (ownerKey (assembled p es)) = true) := by
  unfold verifyOwner at h
  cases hp : d.proof with
  | none => simp [hp] at h
  | some p =>
    simp only [hp, Bool.and_eq_true] at h
    obtain ⟨⟨hpres, hhash⟩, hrest⟩ := h
    cases hH : O.hashFunc p.helloHashAlg with
    | none => simp [hH] at hhash
    | some H =>
      simp [hH] at hhash
      cases hc : p.ownerKeyClaim with
      | none => simp [hc] at hrest
      | some claim =>
        simp only [hc, Bool.and_eq_true, decide_eq_true_eq] at hrest
        obtain ⟨⟨⟨⟨⟨⟨hk, hs⟩, hn⟩, _⟩, hkex⟩, hlen⟩, hf⟩ := hrest
        cases hfe : fetched 0 d.entries with
        | none => simp [hfe] at hf
        | some es =>
          simp only [hfe, Bool.and_eq_true, decide_eq_true_eq, Bool.or_eq_true, Bool.not_eq_true'] at hf
          obtain ⟨⟨⟨⟨⟨h1, h2⟩, h3⟩, _⟩, h5⟩, h6⟩ := hf
          have hlen' : es.length = p.numEntries := by
            have := fetched_length 0 d.entries es hfe
            omega
          refine ⟨p, claim, es, H, rfl, hpres, hH, hhash, hc, hk, hs, hn, hkex, rfl, hlen', h1, h2, h3, h5, ?_⟩
          intro ht
          rcases h6 with h6 | h6
          · rw [ht] at h6; simp at h6
          · exact h6
where
  fetched_length : ∀ (i : Nat) (l : List (Option (Nat × EntryView))) (es : List EntryView),
      fetched i l = some es → es.length = l.length
    | _, [], es, h => by simp [fetched] at h; subst h; rfl
    | i, some (n, e) :: rest, es, h => by
      simp only [fetched] at h
      split at h
      · cases hr : fetched (i + 1) rest with
        | none => simp [hr] at h
        | some r =>
          simp [hr] at h
          subst h
          simp [fetched_length (i + 1) rest r hr]
      · simp at h
    | _, none :: _, es, h => by simp [fetched] at h

/-- Entry numbers: the device accepts the answers only if the i-th carries number i (no
reordering, skipping or mis-numbering of entries). -/
theorem fetched_in_order (l : List (Option (Nat × EntryView))) (es : List EntryView) (start : Nat)
    (h : fetched start l = some es) :
    ∀ i (hi : i < l.length), ∃ e, l[i]? = some (some (start + i, e)) ∧ es[i]? = some e := by
  induction l generalizing start es with
  | nil => intro i hi; simp at hi
  | cons x rest ih =>
    intro i hi
    cases x with
    | none => simp [fetched] at h
    | some ne =>
      obtain ⟨n, e⟩ := ne
      simp only [fetched] at h
      split at h
      · rename_i hn
        cases hr : fetched (start + 1) rest with
        | none => simp [hr] at h
        | some r =>
          simp [hr] at h
          subst h
          cases i with
          | zero => exact ⟨e, by simp [hn], by simp⟩
          | succ j =>
            obtain ⟨e', a, b⟩ := ih r (start + 1) hr j (by simpa using hi)
            have hidx : start + 1 + j = start + (j + 1) := by omega
            rw [hidx] at a
            exact ⟨e', by simpa using a, by simpa using b⟩
      · simp at h

/-- With the chain characterisation of C04: proceeding implies the link-by-link chain property
under the manufacturer key carried in 61. -/
theorem proceed_implies_chain (O : DeviceOracles) (d : DeviceInputs) (h : verifyOwner O d = true) :
    ∃ p es, d.proof = some p ∧ fetched 0 d.entries = some es ∧ O.keyOK p.mfgKey = true ∧
      (es = [] ∨ ∃ e0 rest H, es = e0 :: rest ∧ hashOf O.sha256 O.sha384 e0.prevAlg = some H ∧
        ChainOK H O.entrySigOK O.keyOK e0.prevAlg (H (p.guid ++ p.devInfo)) p.mfgKey (p.hdrBytes ++ p.hmacBytes) es) := by
  obtain ⟨p, _, es, _, hp, _, _, _, _, _, _, _, _, hf, _, _, _, hv, _, _⟩ := proceed_only_with_designated_owner O d h
  have := (verifyEntries_iff O.sha256 O.sha384 O.entrySigOK O.keyOK (assembled p es)).mp hv
  exact ⟨p, es, hp, hf, this.1, this.2⟩


/-- **What the source does** (regenerated call-order facts of the device's `verifyVoucher`,
`verifyOwner`, `sendHelloDevice`): header MAC, manufacturer-key hash and entry chain are verified,
the advertised key compared and the blob verified; HelloDevice's hash is compared and 61's signature
verified before anything of it is used; the key-exchange validity and availability are checked. -/
theorem code_facts :
    Fdo.Facts.allBefore "verifyVoucher" ["sendNextOVEntry", "VerifyHeader", "VerifyManufacturerKey", "VerifyEntries", "Equal"] "Verify" = true ∧
    Fdo.Facts.before "sendHelloDevice" "Equal" "Verify" = true ∧
    Fdo.Facts.allBefore "verifyOwner" ["sendHelloDevice", "Valid", "Available"] "verifyVoucher" = true ∧
    -- the device's TO2: the owner is verified before the device proves itself, before service info is exchanged
    Fdo.Facts.before "TO2" "verifyOwner" "proveDevice" = true ∧
    Fdo.Facts.allBefore "TO2" ["verifyOwner", "proveDevice", "sendReadyServiceInfo"] "exchangeServiceInfo" = true := by decide +kernel

end Fdo.Props.C01
