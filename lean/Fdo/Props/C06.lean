import Fdo.Proto.TO0
import Fdo.Facts
/-
C06 — the rendezvous server registers a redirect only for the voucher's current owner.
Hash, voucher-entry verification and the to1d signature check are universally quantified
oracles; `entriesOK` is characterised by C04 (`verifyEntries_iff`), `to1dSigOK` by C13.
-/
namespace Fdo.Props.C06
open Fdo Fdo.Proto

/-- A registration happens exactly when every listed condition holds: to1d carries its
payload, the hash algorithm is known and the hash of the (re-encoded) to0d equals the hash inside
the blob, the voucher has at least one entry and its entry chain verifies, the to0d nonce is the
one this session issued, the blob is signed by the voucher's *current owner key*, and the TTL
policy (if any) yields a non-zero value. -/
theorem acceptOwner_accept_iff (hashFunc : Int → Option (Bytes → Bytes)) (entriesOK : VoucherView → Bool)
    (sigOK : Bytes → OwnerSignView → Bool) (sn : Option Bytes) (policy : Policy) (now : Nat)
    (m : OwnerSignView) (ttl exp : Nat) :
    acceptOwner hashFunc entriesOK sigOK sn policy now m = .accept ttl exp ↔
      m.to1dPresent = true ∧
      (∃ H, hashFunc m.hashAlg = some H ∧ H m.to0dBytes = m.hashVal) ∧
      m.voucher.entries ≠ [] ∧ entriesOK m.voucher = true ∧
      sn = some m.nonce ∧
      sigOK (ownerKey m.voucher) m = true ∧
      (match policy with
       | none => ttl = m.waitSeconds
       | some f => f m.waitSeconds = some ttl ∧ ttl ≠ 0) ∧
      exp = now + ttl := by
  unfold acceptOwner
  cases hp : m.to1dPresent <;> simp
  cases hh : hashFunc m.hashAlg with
  | none => simp
  | some H =>
    simp only
    by_cases h1 : H m.to0dBytes = m.hashVal <;> simp [h1]
    cases he : m.voucher.entries with
    | nil => simp
    | cons e es =>
      simp
      cases hv : entriesOK m.voucher <;> simp
      cases sn with
      | none => simp
      | some n =>
        simp
        by_cases hn : m.nonce = n
        · subst hn
          simp
          cases hs : sigOK (ownerKey m.voucher) m <;> simp
          cases policy with
          | none =>
            simp
            constructor
            · rintro ⟨a, b⟩; exact ⟨a.symm, by omega⟩
            · rintro ⟨a, b⟩; exact ⟨a.symm, by omega⟩
          | some f =>
            simp
            cases hf : f m.waitSeconds with
            | none => simp
            | some t =>
              simp
              by_cases ht : t = 0
              · simp [ht]; intro a; omega
              · simp [ht]
                constructor
                · rintro ⟨a, b⟩; subst a; exact ⟨⟨rfl, ht⟩, by omega⟩
                · rintro ⟨⟨a, _⟩, b⟩; exact ⟨a, by omega⟩
        · simp [hn]
          intro a; exact absurd a.symm hn

/-- The stored expiry is the accepted time-to-live added to the current time, the reply carries
that same value, and with a policy callback it is the callback's non-zero value. -/
theorem stored_expiry_eq (hashFunc : Int → Option (Bytes → Bytes)) (entriesOK : VoucherView → Bool)
    (sigOK : Bytes → OwnerSignView → Bool) (sn : Option Bytes) (policy : Policy) (now : Nat)
    (m : OwnerSignView) (ttl exp : Nat)
    (h : acceptOwner hashFunc entriesOK sigOK sn policy now m = .accept ttl exp) :
    exp = now + ttl ∧ (∀ f, policy = some f → f m.waitSeconds = some ttl ∧ ttl ≠ 0) ∧
      (policy = none → ttl = m.waitSeconds) := by
  have := (acceptOwner_accept_iff hashFunc entriesOK sigOK sn policy now m ttl exp).mp h
  obtain ⟨_, _, _, _, _, _, hpol, hexp⟩ := this
  refine ⟨hexp, ?_, ?_⟩
  · intro f hf; subst hf; exact hpol
  · intro hn; subst hn; exact hpol

/-- A signer other than the current owner — an earlier owner in the chain, the manufacturer, a
stranger holding a copy of the voucher — is refused: if the blob does not verify under the
voucher's current owner key nothing is registered. -/
theorem foreign_signer_rejected (hashFunc : Int → Option (Bytes → Bytes)) (entriesOK : VoucherView → Bool)
    (sigOK : Bytes → OwnerSignView → Bool) (sn : Option Bytes) (policy : Policy) (now : Nat)
    (m : OwnerSignView) (h : sigOK (ownerKey m.voucher) m = false) :
    acceptOwner hashFunc entriesOK sigOK sn policy now m = .reject := by
  cases hr : acceptOwner hashFunc entriesOK sigOK sn policy now m with
  | reject => rfl
  | accept ttl exp =>
    have := (acceptOwner_accept_iff hashFunc entriesOK sigOK sn policy now m ttl exp).mp hr
    rw [h] at this; simp at this

/-- An OwnerSign replayed in another session (whose nonce differs) is refused. -/
theorem stale_nonce_rejected (hashFunc : Int → Option (Bytes → Bytes)) (entriesOK : VoucherView → Bool)
    (sigOK : Bytes → OwnerSignView → Bool) (n : Bytes) (policy : Policy) (now : Nat)
    (m : OwnerSignView) (h : m.nonce ≠ n) :
    acceptOwner hashFunc entriesOK sigOK (some n) policy now m = .reject := by
  cases hr : acceptOwner hashFunc entriesOK sigOK (some n) policy now m with
  | reject => rfl
  | accept ttl exp =>
    have := (acceptOwner_accept_iff hashFunc entriesOK sigOK (some n) policy now m ttl exp).mp hr
    obtain ⟨_, _, _, _, hn, _⟩ := this
    simp at hn; exact absurd hn.symm h

/-- Non-vacuity: an OwnerSign meeting all conditions is accepted with the policy's TTL. -/
example :
    let v : VoucherView := ⟨[], [], [], [1], 5, [], [], none, none, [⟨[], true, [], -16, [], -16, [], [9], [], []⟩]⟩
    let m : OwnerSignView := ⟨[7], v, 100, [4, 2], true, [], [], [], -16, [1]⟩
    acceptOwner (fun _ => some (fun b => [UInt8.ofNat b.length])) (fun _ => true) (fun k _ => k == [9])
      (some [4, 2]) (some fun r => some (r / 2)) 1000 m = .accept 50 1050 := by
  decide


/-- **What the source does, in which order** (regenerated call-order facts of
`TO0Server.acceptOwner`): the to0d hash comparison, the entry-chain verification, the session-nonce
comparison and the to1d signature verification under the voucher's owner key all precede the
acceptance policy and the storing of the blob. -/
theorem code_facts :
    Fdo.Facts.allBefore "TO0Server.acceptOwner" ["Equal", "VerifyEntries", "TO0SignNonce", "OwnerPublicKey", "Verify"] "SetRVBlob" = true ∧
    Fdo.Facts.before "TO0Server.acceptOwner" "OwnerPublicKey" "Verify" = true ∧
    Fdo.Facts.before "TO0Server.acceptOwner" "Verify" "AcceptVoucher" = true ∧
    Fdo.Facts.before "TO0Server.acceptOwner" "AcceptVoucher" "SetRVBlob" = true ∧
    Fdo.Facts.atLeast "TO0Server.acceptOwner" "Equal" 2 = true := by decide +kernel

end Fdo.Props.C06
