import Fdo.Kex.Crypter
import Fdo.Kex.CrypterProofs
import Fdo.Drv.Tunnel
import Fdo.Kex.WireProofs
import Fdo.Facts
/-
C05 — TO2 messages after ProveDevice are confidential and tamper-evident.
Theorems about the decision logic of the tunnel decrypter, for arbitrary primitives: a
plaintext is only ever obtained through the authenticated form of the session's suite.
-/
namespace Fdo.Props.C05
open Fdo Fdo.Cbor Fdo.Cose Fdo.Kex

/-- AEAD suites: a plaintext comes only out of a COSE_Encrypt0 (tag 16) whose *protected* header
names the suite's algorithm, with a 12-byte IV, by a successful AEAD open under the session key
with the Enc_structure of exactly that protected header as additional data. -/
theorem decrypt_authentic_aead (P : Prims) (s : Suite) (sek svk : Bytes) (enc0S : Schema) (t : Nat) (inner : Val)
    (p : Bytes) (hs : s.macAlg = 0) (hk : s.kind = .aead)
    (h : decryptVal P s sek svk enc0S t inner = .ok p) :
    t = 16 ∧ ∃ prot unprot c iv, inner = .strct [.hdr prot unprot, .ref (.bytes c)] ∧
      hdrInt prot 1 = some s.encAlg ∧ hdrBytes unprot 5 = some iv ∧ iv.length = 12 ∧
      P.aeadOpen sek iv (encStructure prot) c = some p := by
  unfold decryptVal at h
  by_cases ht : t = 16
  · simp only [ht, if_true, hs] at h
    cases heq : decryptEnc0 P s sek inner with
    | none => simp [heq] at h
    | some q =>
      simp [heq] at h; subst h
      refine ⟨ht, ?_⟩
      unfold decryptEnc0 at heq
      split at heq
      · rename_i prot unprot c
        split at heq
        · simp at heq
        · rename_i hc
          simp only [Option.bind_eq_some_iff] at heq
          obtain ⟨iv, hiv, pl, hpl, _, _, hq⟩ := heq
          simp at hq; subst hq
          simp only [cipherOpen, hk] at hpl
          by_cases hl : iv.length = 12
          · simp [hl] at hpl
            refine ⟨prot, unprot, c, iv, rfl, ?_, hiv, hl, hpl⟩
            have : algHeader s prot unprot = some s.encAlg := by
              by_cases ha : algHeader s prot unprot = some s.encAlg
              · exact ha
              · exact absurd (Or.inl ha) hc
            simpa [algHeader, hk] using this
          · simp [hl] at hpl
      · simp at heq
  · by_cases h17 : t = 17
    · simp [ht, h17, hs] at h
    · simp [ht, h17] at h

/-- Encrypt-then-MAC suites: a plaintext comes only out of a COSE_Mac0 (tag 17) whose tag
equals the MAC, under the session's verification key, of the MAC_structure over the
re-encoded inner COSE_Encrypt0, which then decrypts to it. In particular a bare COSE_Encrypt0
is never accepted under such a suite. -/
theorem decrypt_authentic_etm (P : Prims) (s : Suite) (sek svk : Bytes) (enc0S : Schema) (t : Nat) (inner : Val)
    (p : Bytes) (hs : s.macAlg ≠ 0)
    (h : decryptVal P s sek svk enc0S t inner = .ok p) :
    t = 17 ∧ ∃ prot unprot e0 tag e0b, inner = .strct [.hdr prot unprot, .ref e0, .bytes tag] ∧
      marshalS enc0S e0 = some e0b ∧
      P.mac s.macAlg svk (toBeSigned ctxMac0 (encProtected (vmapSet prot (.int 1) (.int s.macAlg))) [] e0b) = some tag ∧
      decryptEnc0 P s sek e0 = some p := by
  unfold decryptVal at h
  by_cases h16 : t = 16
  · simp [h16, hs] at h
  simp only [h16, if_false] at h
  by_cases h17 : t = 17
  · simp only [h17, if_true, hs, if_false] at h
    refine ⟨h17, ?_⟩
    split at h
    · rename_i prot unprot pay tag
      split at h
      · rename_i e0
        cases he : marshalS enc0S e0 with
        | none => simp [he] at h
        | some e0b =>
          simp only [he] at h
          split at h
          · simp at h
          · cases hm : P.mac s.macAlg svk (toBeSigned ctxMac0 (encProtected (vmapSet prot (.int 1) (.int s.macAlg))) [] e0b) with
            | none => simp [hm] at h
            | some m =>
              simp only [hm] at h
              split at h
              · simp at h
              · rename_i hmt
                cases hd : decryptEnc0 P s sek e0 with
                | none => simp [hd] at h
                | some q =>
                  simp [hd] at h
                  subst h
                  have : m = tag := by simpa using hmt
                  subst this
                  exact ⟨prot, unprot, e0, m, e0b, rfl, he, hm, hd⟩
      · simp at h
    · simp at h
  · simp [h17] at h

/-- Structural downgrades are refused: a bare COSE_Encrypt0 under an encrypt-then-MAC suite, a
COSE_Mac0 under an AEAD suite, and any other tag. -/
theorem wrong_wrapper_rejected (P : Prims) (s : Suite) (sek svk : Bytes) (enc0S : Schema) (t : Nat) (inner : Val) :
    (s.macAlg ≠ 0 → t = 16 → decryptVal P s sek svk enc0S t inner = .reject) ∧
    (s.macAlg = 0 → t = 17 → decryptVal P s sek svk enc0S t inner = .reject) ∧
    (t ≠ 16 → t ≠ 17 → decryptVal P s sek svk enc0S t inner = .reject) := by
  refine ⟨?_, ?_, ?_⟩
  · intro hs ht; unfold decryptVal; simp [ht, hs]
  · intro hs ht; unfold decryptVal; simp [ht, hs]
  · intro h1 h2; unfold decryptVal; simp [h1, h2]

/-- What is handed to the protocol layer is exactly one well-formed CBOR item. -/
theorem plaintext_is_one_item (P : Prims) (s : Suite) (sek : Bytes) (e0 : Val) (p : Bytes)
    (h : decryptEnc0 P s sek e0 = some p) : ∃ x, unmarshalRaw p = some x := by
  unfold decryptEnc0 at h
  split at h
  · split at h
    · simp at h
    · simp only [Option.bind_eq_some_iff] at h
      obtain ⟨_, _, pl, _, x, hx, hq⟩ := h
      simp at hq; subst hq
      exact ⟨x, hx⟩
  · simp at h

/-- Strict PKCS#7: unpadding never yields bytes from a malformed pad (zero, longer than a block,
longer than the data, or inconsistent). -/
theorem unpad16_some (b q : Bytes) (h : unpad16 b = some q) :
    ∃ p : UInt8, b.getLast? = some p ∧ 1 ≤ p.toNat ∧ p.toNat ≤ 16 ∧ p.toNat ≤ b.length ∧
      q = b.take (b.length - p.toNat) ∧ (b.drop (b.length - p.toNat)).all (· == p) = true := by
  unfold unpad16 at h
  split at h
  · simp at h
  · rename_i p hp
    simp only at h
    split at h
    · simp at h
    · rename_i hc
      split at h
      · rename_i hall
        simp at h
        exact ⟨p, hp, by omega, by omega, by omega, h.symm, hall⟩
      · simp at h

/-- Non-vacuity: the strict unpadding accepts a correctly padded block. -/
example : unpad16 ([1, 2, 3] ++ List.replicate 13 13) = some [1, 2, 3] := by decide


/-! ### the sending side, and the round trip -/

/-- **A receiver obtains exactly the plaintext the sender protected** (decoded form; the CBOR transport
of the structure between the two is C11's round trip and is exercised by the correspondence run): for
every suite, keys, random stream and marshalled message, what `SessionCrypter.Encrypt` builds is opened
by `SessionCrypter.Decrypt` to that message — for any primitives that are functionally correct. -/
theorem decrypt_encrypt (P : Prims) (hP : PrimsCorrect P) (s : Suite) (sek svk : Bytes) (enc0S : Schema)
    (rnd p : Bytes) (t : Nat) (inner : Val) (rest : Bytes)
    (hp : ∃ x, unmarshalRaw p = some x)
    (h : encryptVal P s sek svk enc0S rnd p = some (t, inner, rest)) :
    decryptVal P s sek svk enc0S t inner = .ok p :=
  (decryptVal_encryptVal P hP s sek svk enc0S rnd p t inner rest hp h).1

/-- The sent form is the authenticated one of the suite: tag 16 exactly for AEAD suites (`macAlg = 0`),
tag 17 (COSE_Mac0 around COSE_Encrypt0) otherwise — never a bare COSE_Encrypt0 under an
encrypt-then-MAC suite. -/
theorem sent_form_matches_suite (P : Prims) (s : Suite) (sek svk : Bytes) (enc0S : Schema)
    (rnd p : Bytes) (t : Nat) (inner : Val) (rest : Bytes)
    (h : encryptVal P s sek svk enc0S rnd p = some (t, inner, rest)) :
    (s.macAlg = 0 → t = 16) ∧ (s.macAlg ≠ 0 → t = 17) := by
  unfold encryptVal at h
  split at h
  · simp at h
  · simp only [Option.bind_eq_some_iff] at h
    obtain ⟨e0, _, h⟩ := h
    split at h
    · rename_i hm; simp at h; exact ⟨fun _ => h.1.symm, fun hn => absurd hm hn⟩
    · rename_i hm
      split at h
      · simp at h
      · simp only [Option.bind_eq_some_iff] at h
        obtain ⟨_, _, _, _, h⟩ := h
        simp at h; exact ⟨fun h0 => absurd h0 hm, fun _ => h.1.symm⟩

/-- **A fresh initialisation vector per message**: each message carries, as its IV, the next `ivLen`
bytes of the sender's random stream and consumes exactly those; two successive messages therefore
carry disjoint consecutive slices of the stream (equal only if the random source repeats itself). -/
theorem fresh_iv (P : Prims) (hP : PrimsCorrect P) (s : Suite) (sek svk : Bytes) (enc0S : Schema)
    (rnd p₁ p₂ : Bytes) (t₁ t₂ : Nat) (i₁ i₂ : Val) (r₁ r₂ : Bytes)
    (hp₁ : ∃ x, unmarshalRaw p₁ = some x) (hp₂ : ∃ x, unmarshalRaw p₂ = some x)
    (h₁ : encryptVal P s sek svk enc0S rnd p₁ = some (t₁, i₁, r₁))
    (h₂ : encryptVal P s sek svk enc0S r₁ p₂ = some (t₂, i₂, r₂)) :
    ∃ iv₁ iv₂, ivOfSent t₁ i₁ = some iv₁ ∧ ivOfSent t₂ i₂ = some iv₂ ∧
      iv₁ ++ iv₂ = rnd.take (2 * ivLen s) ∧ iv₁.length = ivLen s ∧ iv₂.length = ivLen s := by
  obtain ⟨_, a1, a2, a3⟩ := decryptVal_encryptVal P hP s sek svk enc0S rnd p₁ t₁ i₁ r₁ hp₁ h₁
  obtain ⟨_, b1, _, b3⟩ := decryptVal_encryptVal P hP s sek svk enc0S r₁ p₂ t₂ i₂ r₂ hp₂ h₂
  subst a2
  refine ⟨_, _, a1, b1, ?_, by simp; omega, by simp at b3 ⊢; omega⟩
  have : 2 * ivLen s = ivLen s + ivLen s := by omega
  rw [this, List.take_add]

/-- **On the wire**: the bytes the sender transmits (`SessionCrypter.Encrypt`, then `cbor.Marshal` of the
tagged COSE object) are read by the receiver (`SessionCrypter.Decrypt`: one tag from the stream, content
unmarshalled by tag number, MAC compared, ciphertext opened) as exactly the protected message. Composition
of the COSE round trip above with C11's typed CBOR round trip; `conf`/`wconf` say that IV and ciphertext
are within the codec's limits (byte strings below 100 000 bytes). -/
theorem wire_round_trip (P : Prims) (hP : PrimsCorrect P) (s : Suite) (sek svk rnd p : Bytes)
    (t : Nat) (inner : Val) (rest : Bytes) (sch : Schema) (raw : Bytes)
    (hp : ∃ x, unmarshalRaw p = some x)
    (henc : encryptVal P s sek svk Fdo.Gen.Schemas.s_Encrypt0 rnd p = some (t, inner, rest))
    (hsch : tunnelSchema t = some sch) (hraw : marshalS sch inner = some raw)
    (hconf : conf (fun _ => true) 10000 maxDepth sch inner = true) (hw : wconf 10000 maxDepth sch inner = true)
    (hlen : raw.length + 16 < 18446744073709551616) :
    decryptWire P s sek svk (encHead 6 t ++ raw) = .ok p :=
  decryptWire_encryptVal P hP s sek svk rnd p t inner rest sch raw hp henc hsch hraw hconf hw hlen

/-! Non-vacuity of `wire_round_trip`: its hypotheses (`Fdo.Kex.wireHypothesesHold`: the sender's output
exists, marshals, and satisfies `conf` and `wconf`) are evaluated by the model driver for every message of
the correspondence run, with the Lean AES/HMAC as primitives, and reported as `hyp-ok` next to `self-ok`
(the model's receiver opening the model's sender's bytes); a kernel `decide` is not available here because
the header maps are written through `List.mergeSort`, which is defined by well-founded recursion. -/

/-- The Lean AES-GCM and AES-CTR used by the model driver are functionally correct in the sense
`decrypt_encrypt` needs (proved for the concrete implementations; CBC's block-cipher inverse is not
proved for the concrete AES and is validated by the byte-exact correspondence with Go only). -/
theorem concrete_gcm_ctr_correct :
    (∀ k n a p c, Fdo.Drv.Tunnel.prims.aeadSeal k n a p = some c → Fdo.Drv.Tunnel.prims.aeadOpen k n a c = some p) ∧
    (∀ k iv p c, Fdo.Drv.Tunnel.prims.ctr k iv p = some c → Fdo.Drv.Tunnel.prims.ctr k iv c = some p) :=
  ⟨fun _ _ _ _ _ h => Fdo.Prim.gcmOpen_gcmSeal? h, fun _ _ _ _ h => Fdo.Prim.aesCtr?_involutive h⟩

/-- strict unpadding inverts the padding the CBC sender applies -/
theorem unpad16_pad (b : Bytes) : unpad16 (Fdo.Prim.pad b 16) = some b := Fdo.Kex.unpad16_pad b

/-- **What the source does, in which order** (regenerated call-order facts of
`SessionCrypter.Decrypt` / `Encrypt`): the MAC is recomputed and compared before anything is
decrypted; encryption computes the MAC over what it has encrypted. -/
theorem code_facts :
    Fdo.Facts.allBefore "SessionCrypter.Decrypt" ["Digest", "Equal"] "Decrypt" = true ∧
    Fdo.Facts.before "SessionCrypter.Encrypt" "Encrypt" "Digest" = true := by decide +kernel

end Fdo.Props.C05
