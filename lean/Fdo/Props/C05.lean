import Fdo.Kex.Crypter
import Fdo.Facts
/-
C05 — TO2 messages after ProveDevice are confidential and tamper-evident.
Theorems about the decision logic of the tunnel decrypter, for arbitrary primitives: a
plaintext is only ever obtained through the authenticated form of the session's suite.
-/
namespace Fdo.Props.C05
open Fdo Fdo.Cbor Fdo.Cose Fdo.Kex

/-- AEAD suites: a plaintext comes only out of a COSE_Encrypt0 (tag 16) whose *protected* header
names the suite's algorithm, with a 12-byte IV, by a successful AEAD open under the session key
with the Enc_structure of exactly that protected header as additional data. -/
theorem decrypt_authentic_aead (P : Prims) (s : Suite) (sek svk : Bytes) (enc0S : Schema) (t : Nat) (inner : Val)
    (p : Bytes) (hs : s.macAlg = 0) (hk : s.kind = .aead)
    (h : decryptVal P s sek svk enc0S t inner = .ok p) :
    t = 16 ∧ ∃ prot unprot c iv, inner = .strct [.hdr prot unprot, .ref (.bytes c)] ∧
      hdrInt prot 1 = some s.encAlg ∧ hdrBytes unprot 5 = some iv ∧ iv.length = 12 ∧
      P.aeadOpen sek iv (encStructure prot) c = some p := by
  unfold decryptVal at h
  by_cases ht : t = 16
  · simp only [ht, if_true, hs] at h
    cases heq : decryptEnc0 P s sek inner with
    | none => simp [heq] at h
    | some q =>
      simp [heq] at h; subst h
      refine ⟨ht, ?_⟩
      unfold decryptEnc0 at heq
      split at heq
      · rename_i prot unprot c
        split at heq
        · simp at heq
        · rename_i hc
          simp only [Option.bind_eq_some_iff] at heq
          obtain ⟨iv, hiv, pl, hpl, _, _, hq⟩ := heq
          simp at hq; subst hq
          simp only [cipherOpen, hk] at hpl
          by_cases hl : iv.length = 12
          · simp [hl] at hpl
            refine ⟨prot, unprot, c, iv, rfl, ?_, hiv, hl, hpl⟩
            have : algHeader s prot unprot = some s.encAlg := by
              by_cases ha : algHeader s prot unprot = some s.encAlg
              · exact ha
              · exact absurd (Or.inl ha) hc
            simpa [algHeader, hk] using this
          · simp [hl] at hpl
      · simp at heq
  · by_cases h17 : t = 17
    · simp [ht, h17, hs] at h
    · simp [ht, h17] at h

/-- Encrypt-then-MAC suites: a plaintext comes only out of a COSE_Mac0 (tag 17) whose tag
equals the MAC, under the session's verification key, of the MAC_structure over the
re-encoded inner COSE_Encrypt0, which then decrypts to it. In particular a bare COSE_Encrypt0
is never accepted under such a suite. -/
theorem decrypt_authentic_etm (P : Prims) (s : Suite) (sek svk : Bytes) (enc0S : Schema) (t : Nat) (inner : Val)
    (p : Bytes) (hs : s.macAlg ≠ 0)
    (h : decryptVal P s sek svk enc0S t inner = .ok p) :
    t = 17 ∧ ∃ prot unprot e0 tag e0b, inner = .strct [.hdr prot unprot, .ref e0, .bytes tag] ∧
      marshalS enc0S e0 = some e0b ∧
      P.mac s.macAlg svk (toBeSigned ctxMac0 (encProtected (vmapSet prot (.int 1) (.int s.macAlg))) [] e0b) = some tag ∧
      decryptEnc0 P s sek e0 = some p := by
  unfold decryptVal at h
  by_cases h16 : t = 16
  · simp [h16, hs] at h
  simp only [h16, if_false] at h
  by_cases h17 : t = 17
  · simp only [h17, if_true, hs, if_false] at h
    refine ⟨h17, ?_⟩
    split at h
    · rename_i prot unprot pay tag
      split at h
      · rename_i e0
        cases he : marshalS enc0S e0 with
        | none => simp [he] at h
        | some e0b =>
          simp only [he] at h
          split at h
          · simp at h
          · cases hm : P.mac s.macAlg svk (toBeSigned ctxMac0 (encProtected (vmapSet prot (.int 1) (.int s.macAlg))) [] e0b) with
            | none => simp [hm] at h
            | some m =>
              simp only [hm] at h
              split at h
              · simp at h
              · rename_i hmt
                cases hd : decryptEnc0 P s sek e0 with
                | none => simp [hd] at h
                | some q =>
                  simp [hd] at h
                  subst h
                  have : m = tag := by simpa using hmt
                  subst this
                  exact ⟨prot, unprot, e0, m, e0b, rfl, he, hm, hd⟩
      · simp at h
    · simp at h
  · simp [h17] at h

/-- Structural downgrades are refused: a bare COSE_Encrypt0 under an encrypt-then-MAC suite, a
COSE_Mac0 under an AEAD suite, and any other tag. -/
theorem wrong_wrapper_rejected (P : Prims) (s : Suite) (sek svk : Bytes) (enc0S : Schema) (t : Nat) (inner : Val) :
    (s.macAlg ≠ 0 → t = 16 → decryptVal P s sek svk enc0S t inner = .reject) ∧
    (s.macAlg = 0 → t = 17 → decryptVal P s sek svk enc0S t inner = .reject) ∧
    (t ≠ 16 → t ≠ 17 → decryptVal P s sek svk enc0S t inner = .reject) := by
  refine ⟨?_, ?_, ?_⟩
  · intro hs ht; unfold decryptVal; simp [ht, hs]
  · intro hs ht; unfold decryptVal; simp [ht, hs]
  · intro h1 h2; unfold decryptVal; simp [h1, h2]

/-- What is handed to the protocol layer is exactly one well-formed CBOR item. -/
theorem plaintext_is_one_item (P : Prims) (s : Suite) (sek : Bytes) (e0 : Val) (p : Bytes)
    (h : decryptEnc0 P s sek e0 = some p) : ∃ x, unmarshalRaw p = some x := by
  unfold decryptEnc0 at h
  split at h
  · split at h
    · simp at h
    · simp only [Option.bind_eq_some_iff] at h
      obtain ⟨_, _, pl, _, x, hx, hq⟩ := h
      simp at hq; subst hq
      exact ⟨x, hx⟩
  · simp at h

/-- Strict PKCS#7: unpadding never yields bytes from a malformed pad (zero, longer than a block,
longer than the data, or inconsistent). -/
theorem unpad16_some (b q : Bytes) (h : unpad16 b = some q) :
    ∃ p : UInt8, b.getLast? = some p ∧ 1 ≤ p.toNat ∧ p.toNat ≤ 16 ∧ p.toNat ≤ b.length ∧
      q = b.take (b.length - p.toNat) ∧ (b.drop (b.length - p.toNat)).all (· == p) = true := by
  unfold unpad16 at h
  split at h
  · simp at h
  · rename_i p hp
    simp only at h
    split at h
    · simp at h
    · rename_i hc
      split at h
      · rename_i hall
        simp at h
        exact ⟨p, hp, by omega, by omega, by omega, h.symm, hall⟩
      · simp at h

/-- Non-vacuity: the strict unpadding accepts a correctly padded block. -/
example : unpad16 ([1, 2, 3] ++ List.replicate 13 13) = some [1, 2, 3] := by decide


/-- **What the source does, in which order** (regenerated call-order facts of
`SessionCrypter.Decrypt` / `Encrypt`): the MAC is recomputed and compared before anything is
decrypted; encryption computes the MAC over what it has encrypted. -/
theorem code_facts :
    Fdo.Facts.allBefore "SessionCrypter.Decrypt" ["Digest", "Equal"] "Decrypt" = true ∧
    Fdo.Facts.before "SessionCrypter.Encrypt" "Encrypt" "Digest" = true := by decide +kernel

end Fdo.Props.C05
