import Fdo.Svc.RoundsProofs
/-
C16 — TO2 service info is delivered exactly once, in order, until modules finish.

Model: Fdo/Svc/Rounds.lean (device: Devmod.Write with the module-list chunker, the round loop,
handleOwnerModuleMessages; owner: ownerServiceInfo with the devmod module, then the scripted modules through the
module state machine, produceOwnerServiceInfo; the system `Sys` / `step` / `runN`; `respond` = what to2Done2
reads of the session), built on the chunking model of C15 (Fdo/Svc/Chunk.lean, always `Variant.repaired`).
Helper lemmas: Fdo/Svc/RoundsProofs.lean.

The theorems about `Fixes.repaired` describe the library after these repairs (see the header of Rounds.lean):
  fix: devmod: bound nummodules and check the range of a modules chunk                       (devmodBounds)
  fix: serviceinfo: devmod messages are never split across DeviceServiceInfo messages         (devmodWhole)
  fix: serviceinfo: a first chunk with an empty key no longer panics the ChunkWriter          (firstKey)
  fix: serviceinfo: CloseWithError after ForceNewMessage still delivers the error             (yieldErr)
`Fixes.original` is the tree as found; the `…_original` theorems at the end are concrete inputs on which it
breaks the property (each is replayed on the Go code by the harness).

NOT repaired, recorded as an open finding (signature C16.owner-accepts-done-without-service-info):
`to2Done2` never looks at the service-info phase.  `owner_accepts_early_done` is the witness; the device-side
half of "Done iff the last module is done" is proved (`done_iff_last_module_done`), the owner-side acceptance
only in the `_partial` form.

Not proved here (modelled, see DESIGN §3): goroutine interleavings and the blocking behaviour of pipes and
channels.  The device's producer and consumer loops are the stream functions they compute; that the code
computes them under every schedule tried is evidenced by the correspondence run (GOMAXPROCS 1/2/n, injected
Gosched/sleeps, split reads and writes).
-/
namespace Fdo.Props.C16
open Fdo Fdo.Cbor Fdo.Svc.Chunk Fdo.Svc.Rounds

/-! ### devmod: the module list -/

/-- MODULE LIST ROUND TRIP, for any number of names: if every name fits a chunk of its own, the greedy
chunker of `Devmod.Write` succeeds; every chunk it writes fits the space of one message as a whole KV; chunk k
carries `[start, len, names…]` with `start` the running sum; the chunks hold all names in order; and the owner,
having allocated `nummodules` slots, rebuilds exactly the list — from the decoded chunks (`applyAll`) and from
the bytes of the `devmod:modules` messages, however the chunks are grouped into message bodies
(`parseModules`, `encs`). -/
theorem devmod_modules_roundtrip (F : Fixes) (B : Nat) (names : List Bytes)
    (hne : names ≠ []) (hn : ∀ n ∈ names, n ≠ [] ∧ n.length < maxLen) (hc : names.length ≤ maxModules)
    (hfit : ∀ n ∈ names, ∀ s, s ≤ names.length → chunkFits .repaired B s [n] = true) :
    ∃ cs, moduleChunks (chunkFits .repaired B) 0 [] names = some cs ∧
      (∀ c ∈ cs, kvSize (chunkKV c) ≤ B) ∧ StartsOK 0 cs ∧ catNames cs = names ∧
      handleNum .repaired (Int.ofNat names.length) = .ok (List.replicate names.length []) ∧
      applyAll F (List.replicate names.length []) cs = .ok names ∧
      (∀ pre post, cs = pre ++ post →
        (match parseModules F ((encs pre).length + 1) (List.replicate names.length []) (encs pre) with
         | .ok l => parseModules F ((encs post).length + 1) l (encs post)
         | .reject => .reject
         | .panic s => .panic s) = .ok names) := by
  have hsome := moduleChunks_isSome (chunkFits .repaired B) names.length names 0 [] hfit (by simp)
  cases hcs : moduleChunks (chunkFits .repaired B) 0 [] names with
  | none => rw [hcs] at hsome; cases hsome
  | some cs =>
    have hcat : catNames cs = names := by simpa using moduleChunks_cat _ _ _ _ _ hcs
    have hstarts := moduleChunks_starts _ _ _ _ _ hcs
    have hnonempty := moduleChunks_nonempty _ names 0 [] cs (Or.inr hne) hcs
    have hfits := moduleChunks_fit _ names 0 [] cs (Or.inl rfl) hcs
    have hnn : ∀ m ∈ catNames cs, m ≠ [] := by rw [hcat]; exact fun m hm => (hn m hm).1
    have happly : applyAll F (List.replicate names.length []) cs = .ok names := by
      have := applyAll_fill F cs [] (fun m hm => by cases hm) hnn hstarts
      simpa [hcat] using this
    have hwf : ∀ x ∈ cs, ChunkWF x := by
      intro x hx
      have h1 := startsOK_bound cs 0 hstarts x hx
      have h2 := catNames_len cs x hx
      rw [hcat] at h1 h2
      unfold maxModules at hc
      refine ⟨by omega, by unfold maxLen; omega, fun n hnm => ?_⟩
      have := catNames_mem cs x hx n hnm
      rw [hcat] at this
      exact (hn n this).2
    refine ⟨cs, rfl, ?_, hstarts, hcat, ?_, happly, ?_⟩
    · intro c hcm
      rcases hfits c hcm with h | h
      · exact absurd h (hnonempty c hcm)
      · simpa [chunkFits, Fixes.repaired] using h
    · unfold handleNum maxModules
      unfold maxModules at hc
      simp only [Fixes.repaired, if_true]
      rw [if_neg (by simp only [Int.ofNat_eq_natCast]; omega)]
      simp
    · intro pre post hpp
      have hwf1 : ∀ x ∈ pre, ChunkWF x := fun x hx => hwf x (by rw [hpp]; exact List.mem_append_left _ hx)
      have hwf2 : ∀ x ∈ post, ChunkWF x := fun x hx => hwf x (by rw [hpp]; exact List.mem_append_right _ hx)
      rw [parseModules_encs F pre _ _ hwf1 (by omega)]
      rw [hpp, applyAll_append] at happly
      cases h1 : applyAll F (List.replicate names.length []) pre with
      | reject => rw [h1] at happly; cases happly
      | panic s => rw [h1] at happly; cases happly
      | ok l =>
        rw [h1] at happly
        simp only
        rw [parseModules_encs F post _ _ hwf2 (by omega)]
        exact happly

/-- `Devmod.Write` succeeds whenever the required descriptors are there and every devmod message —
each descriptor, nummodules, each module name in a chunk of its own — fits one TO2.DeviceServiceInfo: the
"minimum MTU that works" of the property, as an explicit decidable condition. -/
theorem devmod_write_succeeds (sendMtu : Nat) (cfg : DevCfg) (hv : validate cfg.fields = true)
    (hhead : ∀ m ∈ devmodHead cfg, kvSize (kvOf m) ≤ sendMtu - 5)
    (hfit : ∀ n ∈ cfg.names, ∀ s, s ≤ cfg.names.length → chunkFits .repaired (sendMtu - 5) s [n] = true)
    (hne : cfg.names ≠ []) :
    (devmodOps .repaired sendMtu cfg).isSome = true := by
  have emitSome : ∀ (msgs : List (Bytes × Bytes)) (left : Nat), (∀ m ∈ msgs, kvSize (kvOf m) ≤ sendMtu - 5) →
      ∃ r, emitAll .repaired (sendMtu - 5) left msgs = some r := by
    intro msgs
    induction msgs with
    | nil => intro left _; exact ⟨_, rfl⟩
    | cons m r ih =>
      intro left h
      obtain ⟨k, v⟩ := m
      have hk := h (k, v) (List.mem_cons_self ..)
      have hr := fun x hx => h x (List.mem_cons_of_mem _ hx)
      have hk' : ¬ kvSize ⟨k, v⟩ > sendMtu - 5 := by simpa [kvOf] using hk
      unfold emitAll emit
      simp only [Fixes.repaired, if_true]
      rw [if_neg hk']
      by_cases hl : kvSize ⟨k, v⟩ > left
      · rw [if_pos hl]
        obtain ⟨x, hx⟩ := ih (sendMtu - 5 - kvSize ⟨k, v⟩) hr
        simp only [Fixes.repaired] at hx
        simp only [hx]
        exact ⟨_, rfl⟩
      · rw [if_neg hl]
        obtain ⟨x, hx⟩ := ih (left - kvSize ⟨k, v⟩) hr
        simp only [Fixes.repaired] at hx
        simp only [hx]
        exact ⟨_, rfl⟩
  have hsome := moduleChunks_isSome (chunkFits .repaired (sendMtu - 5)) cfg.names.length cfg.names 0 [] hfit (by simp)
  cases hcs : moduleChunks (chunkFits .repaired (sendMtu - 5)) 0 [] cfg.names with
  | none => rw [hcs] at hsome; cases hsome
  | some cs =>
    have hnonempty := moduleChunks_nonempty _ cfg.names 0 [] cs (Or.inr hne) hcs
    have hfits := moduleChunks_fit _ cfg.names 0 [] cs (Or.inl rfl) hcs
    have hchunks : ∀ m ∈ chunkMsgs cs, kvSize (kvOf m) ≤ sendMtu - 5 := by
      intro m hm
      simp only [chunkMsgs, List.mem_map] at hm
      obtain ⟨c, hc, rfl⟩ := hm
      rcases hfits c hc with h | h
      · exact absurd h (hnonempty c hc)
      · simp only [chunkFits, Fixes.repaired, if_true, decide_eq_true_eq] at h
        exact h
    obtain ⟨r1, h1⟩ := emitSome (devmodHead cfg) (sendMtu - 5) hhead
    obtain ⟨r2, h2⟩ := emitSome (chunkMsgs cs) (sendMtu - 5) hchunks
    unfold devmodOps
    simp only [writeLimit, Fixes.repaired, if_true, hv, Bool.not_true, Bool.false_eq_true, if_false]
    simp only [Fixes.repaired] at h1 h2 hcs
    rw [h1, hcs]
    simp only
    unfold chunkMsgs at h2
    rw [h2]
    rfl

/-- THE OWNER GETS DEVMOD, whatever the MTU and the number of modules (as long as `Devmod.Write` can send
its messages at all): after the 68 messages of the first round the owner's session holds exactly the device's
non-empty descriptors and nothing else, the device's whole module list in the order it was sent, devmod is
marked complete and the first owner module has been selected; no owner module has seen anything yet.
`n` is the number of 68 messages `Devmod.Write` fills through the real chunker. -/
theorem owner_gets_devmod (c : Cfg) (hF : c.F = .repaired) (hok : CfgOk c.sendMtu c.dev) (ops : List Op)
    (hops : devmodOps .repaired c.sendMtu c.dev = some ops) :
    (runN (allBatches .repaired (c.sendMtu - 5) (compile ops)).batches.length (Sys.init c)).own.dm.complete = true ∧
    (runN (allBatches .repaired (c.sendMtu - 5) (compile ops)).batches.length (Sys.init c)).own.dm.mods = some c.dev.names ∧
    (∀ f ∈ c.dev.fields, f.val ≠ [] →
      (runN (allBatches .repaired (c.sendMtu - 5) (compile ops)).batches.length (Sys.init c)).own.dm.get f.name = f.val) ∧
    (∀ p ∈ (runN (allBatches .repaired (c.sendMtu - 5) (compile ops)).batches.length (Sys.init c)).own.dm.fields,
      ∃ f ∈ c.dev.fields, f.val ≠ [] ∧ p = (f.name, f.val)) ∧
    (runN (allBatches .repaired (c.sendMtu - 5) (compile ops)).batches.length (Sys.init c)).own.stage ≠ .devmod ∧
    (runN (allBatches .repaired (c.sendMtu - 5) (compile ops)).batches.length (Sys.init c)).own.log = [] := by
  obtain ⟨hdone, hlast, o', hfold, h1, h2, h3, h4, h5, h6⟩ := devmod_round c hF hok ops hops
  have hinit : Sys.init c = { (⟨c.sendMtu, ⟨c.devMods, [], [], [], []⟩, Own.init c, [], [], .run, 0, 0⟩ : Sys) with
      pending := (allBatches .repaired (c.sendMtu - 5) (compile ops)).batches, inbox := [], rounds := 1 } := by
    unfold Sys.init
    simp only [hF, hops, startRound, hdone, if_true]
  have hne : (allBatches .repaired (c.sendMtu - 5) (compile ops)).batches ≠ [] := by
    intro h; rw [h] at hlast; exact hlast
  have := runN_ownFold _ (Sys.init c) o' (by rw [hinit]) (by rw [hinit]) hne (by rw [hinit]; exact hfold)
  rw [this]
  exact ⟨h1, h2, h3, h4, h5, h6⟩

/-! ### owner modules run one after another -/

/-- OWNER MODULES ARE SEQUENTIAL, in every reachable state of every configuration (any scripts, any MTUs,
any number of steps): the owner's log obeys `seqCheck` — every HandleInfo and ProduceInfo belongs to the module
that is current, and the current module changes only when it has reported done, to the next one. -/
theorem owner_modules_sequential (c : Cfg) (n : Nat) :
    seqCheck 0 (runN n (Sys.init c)).own.log = true ∧
    doneCount (runN n (Sys.init c)).own.log = (runN n (Sys.init c)).own.idx :=
  let h := (runN_inv n _ (init_inv c)).own
  ⟨h.seq, h.idx⟩

/-- What `seqCheck` means: the module an event belongs to is the number of modules that reported done
before it.  So module k+1 sees no message (and produces nothing) before module k — and every module before
it — has reported done, and module k sees nothing after it has. -/
theorem seqCheck_meaning (log pre post : List OEv) (e : OEv) (h : seqCheck 0 log = true) (hs : log = pre ++ e :: post) :
    (match e with
     | .handle i _ _ => i
     | .produce i _ => i) = doneCount pre := by
  subst hs
  rw [seqCheck_append] at h
  simp only [Bool.and_eq_true, Nat.zero_add] at h
  have h2 := h.2
  cases e with
  | handle i m b => simp only [seqCheck, Bool.and_eq_true, beq_iff_eq] at h2; exact h2.1
  | produce i d => cases d <;> (simp only [seqCheck, Bool.and_eq_true, beq_iff_eq] at h2; exact h2.1)

/-! ### device modules: activation, unknown modules -/

/-- A DEVICE MODULE NEEDS `active`, in every reachable state: the device's log obeys `actTrack` — Receive and
Yield of a module happen only while it is active, and a module becomes active only by handling an owner message
`active = true` for it. -/
theorem device_module_needs_active (c : Cfg) (n : Nat) :
    actTrack [] (runN n (Sys.init c)).dev.log = some (runN n (Sys.init c)).dev.active :=
  (runN_inv n _ (init_inv c)).dev.track

/-- What `actTrack` means: a module that is in the tracked set was activated by an `active = true` message
(`val = true`, result active) with no deactivation after it. -/
theorem actTrack_meaning (m : Bytes) (pre : List DEv) : ∀ act act', actTrack act pre = some act' → m ∈ act' →
    (m ∈ act ∧ ∀ v, DEv.active m v false ∉ pre) ∨
    ∃ p1 p2, pre = p1 ++ DEv.active m true true :: p2 ∧ ∀ v, DEv.active m v false ∉ p2 := by
  induction pre with
  | nil =>
    intro act act' h hm
    simp only [actTrack, Option.some.injEq] at h
    subst h
    exact Or.inl ⟨hm, fun v hv => by cases hv⟩
  | cons e r ih =>
    intro act act' h hm
    have lift : ∀ act1, actTrack act1 r = some act' →
        ((m ∈ act1 ∧ ∀ v, DEv.active m v false ∉ r) ∨
          ∃ p1 p2, r = p1 ++ DEv.active m true true :: p2 ∧ ∀ v, DEv.active m v false ∉ p2) :=
      fun act1 h1 => ih act1 act' h1 hm
    have split : (∃ p1 p2, r = p1 ++ DEv.active m true true :: p2 ∧ ∀ v, DEv.active m v false ∉ p2) →
        ∃ p1 p2, e :: r = p1 ++ DEv.active m true true :: p2 ∧ ∀ v, DEv.active m v false ∉ p2 := by
      rintro ⟨p1, p2, rfl, hp⟩
      exact ⟨e :: p1, p2, rfl, hp⟩
    cases e with
    | trans m' a =>
      simp only [actTrack] at h
      rcases lift act h with ⟨h1, h2⟩ | h3
      · exact Or.inl ⟨h1, fun v hv => by
          rcases List.mem_cons.1 hv with hv | hv
          · cases hv
          · exact h2 v hv⟩
      · exact Or.inr (split h3)
    | recv m' n' b' =>
      simp only [actTrack] at h
      split at h
      · rcases lift act h with ⟨h1, h2⟩ | h3
        · exact Or.inl ⟨h1, fun v hv => by
            rcases List.mem_cons.1 hv with hv | hv
            · cases hv
            · exact h2 v hv⟩
        · exact Or.inr (split h3)
      · cases h
    | yield m' =>
      simp only [actTrack] at h
      split at h
      · rcases lift act h with ⟨h1, h2⟩ | h3
        · exact Or.inl ⟨h1, fun v hv => by
            rcases List.mem_cons.1 hv with hv | hv
            · cases hv
            · exact h2 v hv⟩
        · exact Or.inr (split h3)
      · cases h
    | active m' v res =>
      simp only [actTrack] at h
      split at h
      · cases h
      · rename_i hres
        rcases lift _ h with ⟨h1, h2⟩ | h3
        · rcases mem_setActive _ _ _ _ h1 with hin | ⟨hmm, hr⟩
          · -- m was active before; this event is not a deactivation of m
            refine Or.inl ⟨hin, fun v' hv => ?_⟩
            rcases List.mem_cons.1 hv with hv | hv
            · simp only [DEv.active.injEq] at hv
              obtain ⟨rfl, _, rfl⟩ := hv
              simp only [setActive, Bool.false_eq_true, if_false] at h1
              have := (List.mem_filter.1 h1).2
              simp at this
            · exact h2 v' hv
          · -- this event activated m
            subst hmm
            subst hr
            have hv : v = true := by
              cases v with
              | true => rfl
              | false => simp at hres
            subst hv
            exact Or.inr ⟨[], r, rfl, h2⟩
        · exact Or.inr (split h3)

/-- A Receive in the log happened while the module was in the tracked set. -/
theorem recv_only_when_active (log pre post : List DEv) (m n b : Bytes) (act : List Bytes)
    (h : actTrack [] log = some act) (hs : log = pre ++ DEv.recv m n b :: post) :
    ∃ act', actTrack [] pre = some act' ∧ m ∈ act' := by
  subst hs
  rw [actTrack_append] at h
  cases hp : actTrack [] pre with
  | none => rw [hp] at h; cases h
  | some act' =>
    rw [hp] at h
    simp only [Option.bind_some, actTrack] at h
    split at h
    · exact ⟨act', rfl, by assumption⟩
    · cases h

/-- UNKNOWN MODULES ANSWER INACTIVE: an `active = true` for a module the device does not have (and that is
not devmod) is answered with `<module>:active = false`, the module is not active afterwards, nothing fails. -/
theorem unknown_module_inactive (d : Dev) (m rest : Bytes) (hc : colon ∉ m) (hk : known d.mods m = false)
    (hd : m ≠ nDevmod) (ha : m ∉ d.active) :
    (handleOne d (mkKey m nActive) (0xf5 :: rest)).ops = [.next (mkKey m nActive), .write cbFalse] ∧
    (handleOne d (mkKey m nActive) (0xf5 :: rest)).err = false ∧
    m ∉ (handleOne d (mkKey m nActive) (0xf5 :: rest)).dev.active := by
  unfold handleOne
  simp only [cutKey_mkKey m nActive hc, if_true, List.head?_cons, true_or]
  have hdec : decide (m ∈ d.active) = false := by simpa using ha
  simp only [hdec, hk]
  have hdd : decide (m = nDevmod) = false := by simpa using hd
  simp [hdd, setActive, ha]

/-- … and in every reachable state: an activation of a module the device does not have always ended
inactive, and no such module ever received anything. -/
theorem unknown_module_never_active (c : Cfg) (n : Nat) :
    (∀ m v res, DEv.active m v res ∈ (runN n (Sys.init c)).dev.log →
      known (runN n (Sys.init c)).dev.mods m = false → m ≠ nDevmod → res = false) ∧
    (∀ m msg b, DEv.recv m msg b ∈ (runN n (Sys.init c)).dev.log →
      known (runN n (Sys.init c)).dev.mods m = true ∨ m = nDevmod) :=
  let h := (runN_inv n _ (init_inv c)).dev
  ⟨h.unk, h.rcv⟩

/-! ### streams -/

/-- EXACTLY ONCE, IN ORDER, COMPLETE, in both directions and across any number of protocol messages:

(1) device → owner: for every round whose keys fit the send budget (`UsableMtu`, the guard of C15 `lossless`),
    the round drains what the device modules wrote, and what the owner's HandleInfo is given over the 68
    messages of the round (`fragsAll`: each 68 reassembled on its own), consecutive fragments of one key
    concatenated, is exactly the list of messages written (consecutive equal keys concatenated) — nothing lost,
    duplicated, reordered or truncated, however many 68 messages a value spans;
(2) owner → device: the KVs the owner modules wrote over all 69 messages of a round reach the device as the
    messages `mergeConsecutive (pairs kvs)`: consecutive KVs of one key are one stream, also across 69
    messages (IsMoreServiceInfo);
(3) when no callback fails, each of these messages that is not `active` is handed to Receive of the module it
    names, in order, whole, once. -/
theorem stream_exactly_once :
    (∀ mtu script, UsableMtu mtu script →
      (allBatches .repaired mtu script).fin = .done ∧
      mergeConsecutive (fragsAll (allBatches .repaired mtu script).batches) = mergeConsecutive (messages script)) ∧
    (∀ (F : Fixes) kvs, (∀ c ∈ kvs, c.key ≠ []) → reassembleF F kvs = .ok (mergeConsecutive (pairs kvs))) ∧
    (∀ d ms, (handleAll d ms).err = false →
      recvsOf (handleAll d ms).dev.log = recvsOf d.log ++ forModules ms) := by
  refine ⟨round_stream, ?_, fun d ms h => handleAll_recvs ms d h⟩
  intro F kvs h
  rw [reassembleF_inbox F kvs h, reasm_eq_mc kvs h]

/-- HandleInfo of the current module gets exactly the fragments of the 68 it arrives in, in order, before
anything the module produces in answer. -/
theorem handleinfo_gets_fragments (o : Own) (b : Batch) (o' : Own) (rep : Reply) (hs : o.stage = .running)
    (hk : ∀ c ∈ b.kvs, c.key ≠ []) (h : ownStep o b = .ok (o', rep)) :
    ∃ tail, o'.log = o.log ++ handleEvents o.idx (frags b) ++ tail ∧ (tail = [] ∨ ∃ d, tail = [.produce o.idx d]) := by
  unfold ownStep at h
  rw [reassembleF_inbox o.F b.kvs hk] at h
  simp only [hs] at h
  cases hm : o.mods with
  | nil => rw [hm] at h; cases h
  | cons cur rest =>
    rw [hm] at h
    simp only at h
    split at h
    · simp only [Out.ok.injEq, Prod.mk.injEq] at h
      obtain ⟨rfl, _⟩ := h
      exact ⟨[], by simp [frags], Or.inl rfl⟩
    · split at h
      · cases h
      · split at h
        · simp only [Out.ok.injEq, Prod.mk.injEq] at h
          obtain ⟨rfl, _⟩ := h
          exact ⟨_, rfl, Or.inr ⟨true, rfl⟩⟩
        · simp only [Out.ok.injEq, Prod.mk.injEq] at h
          obtain ⟨rfl, _⟩ := h
          exact ⟨_, rfl, Or.inr ⟨false, rfl⟩⟩

/-! ### Done -/

/-- DONE IFF THE LAST MODULE IS DONE, the part that holds, in every reachable state:
the DEVICE sends Done (70) exactly when the owner has answered IsDone (never before), the owner answers IsDone
exactly when devmod is complete and no module is left, and then the last thing in its log is the last module's
ProduceInfo reporting done (or there was no module at all). -/
theorem done_iff_last_module_done (c : Cfg) (n : Nat) :
    ((runN n (Sys.init c)).phase = .done ↔ (runN n (Sys.init c)).own.stage = .finished) ∧
    ((runN n (Sys.init c)).own.stage = .finished ↔
      ((runN n (Sys.init c)).own.stage ≠ .devmod ∧ (runN n (Sys.init c)).own.mods = [])) ∧
    ((runN n (Sys.init c)).own.stage = .finished → (runN n (Sys.init c)).own.idx = 0 ∨
      (runN n (Sys.init c)).own.log.getLast? = some (.produce ((runN n (Sys.init c)).own.idx - 1) true)) :=
  let h := runN_inv n _ (init_inv c)
  ⟨h.done, h.own.fin, h.own.last⟩

/-- IsDone is only ever sent in answer to a 68 without IsMoreServiceInfo, never together with
IsMoreServiceInfo, and it is the answer in which the module list runs out. -/
theorem isdone_ends_the_round (o : Own) (b : Batch) (o' : Own) (rep : Reply) (hi : OwnInv o)
    (h : ownStep o b = .ok (o', rep)) (hd : rep.done = true) :
    rep.more = false ∧ b.more = false ∧ o'.stage = .finished ∧ o.stage ≠ .finished := by
  have := ownStep_inv o b o' rep h hi
  exact ⟨(this.2.2.1 hd).1, (this.2.2.1 hd).2, (this.2.1.1 hd).1, (this.2.1.1 hd).2⟩

/-- A 68 that arrives after IsDone is refused. -/
theorem no_service_info_after_isdone (o : Own) (b : Batch) (hk : ∀ c ∈ b.kvs, c.key ≠ []) (h : o.stage = .finished) :
    ownStep o b = .reject := by
  unfold ownStep
  rw [reassembleF_inbox o.F b.kvs hk]
  simp [h]

/-
Full statement for the owner side, FALSE for the code as it is (open finding
C16.owner-accepts-done-without-service-info):
  theorem owner_accepts_done_only_after_isdone (pd) (s) (n) (s') :
      respond pd s (.done n) = (s', .ok 71) → s.serviceInfoDone = true
-/

/-- OPEN FINDING, witness: the request history 60, 62, 62, 64, 66, 70 — no TO2.DeviceServiceInfo at all — is
answered 61, 63, 63, 65, 67, 71 and the stored voucher is replaced, while the session shows that the
service-info phase never started. -/
theorem owner_accepts_early_done :
    (respondAll [7] {} [.hello true, .nextEntry, .nextEntry, .proveDevice [1] [2], .ready (some [3]) 1300, .done [7]]).2 =
      [.ok 61, .ok 63, .ok 63, .ok 65, .ok 67, .ok 71] ∧
    (respondAll [7] {} [.hello true, .nextEntry, .nextEntry, .proveDevice [1] [2], .ready (some [3]) 1300, .done [7]]).1.replaced = true ∧
    (respondAll [7] {} [.hello true, .nextEntry, .nextEntry, .proveDevice [1] [2], .ready (some [3]) 1300, .done [7]]).1.serviceInfoStarted = false := by
  decide

/-- What does hold of `to2Done2`: Done is accepted only with the nonce of this session's ProveOVHdr and after
SetupDevice (so only from the device that proved its key in this session), and the voucher is replaced only
when OwnerServiceInfoReady stored a replacement HMAC. -/
theorem done_accepted_partial (pd : Bytes) (s s' : Sess) (n : Bytes) (h : respond pd s (.done n) = (s', .ok 71)) :
    s.proveDvNonce = some n ∧ s.setupDvNonce.isSome = true ∧
    (s'.replaced = true → s.replaced = true ∨ (s.replHmac.isSome = true ∧ s.replGuid.isSome = true ∧ s.rvInfo = true)) := by
  unfold respond at h
  cases hp : s.proveDvNonce with
  | none => rw [hp] at h; simp at h
  | some p =>
    cases hq : s.setupDvNonce with
    | none => rw [hp, hq] at h; simp at h
    | some q =>
      rw [hp, hq] at h
      simp only at h
      by_cases hpn : p ≠ n
      · rw [if_pos hpn] at h; simp at h
      · rw [if_neg hpn] at h
        have hpn' : p = n := by simpa using hpn
        cases hh : s.replHmac with
        | none =>
          rw [hh] at h
          simp only [Prod.mk.injEq, and_true] at h
          subst h
          exact ⟨by rw [hpn'], rfl, fun hr => Or.inl hr⟩
        | some hm =>
          rw [hh] at h
          simp only at h
          split at h
          · simp at h
          · rename_i hcond
            simp only [Prod.mk.injEq, and_true] at h
            subst h
            simp only [not_or, Bool.not_eq_true, Bool.not_eq_false'] at hcond
            refine ⟨by rw [hpn'], rfl, fun _ => Or.inr ⟨rfl, ?_, by simpa using hcond.2⟩⟩
            cases hg : s.replGuid with
            | none => exact absurd hg hcond.1
            | some g => rfl

/-! ### no panics in the repaired code -/

/-- THE OWNER'S DEVMOD MODULE NEVER PANICS (repaired code), whatever bytes the device sends under whatever
message name and in whatever state: a negative or oversized `nummodules` and a `modules` chunk outside the
announced list are errors. -/
theorem devmod_never_panics (d : DmState) (name body : Bytes) (site : String) :
    dmHandle .repaired d name body ≠ .panic site := by
  unfold dmHandle
  by_cases h1 : name = nActive
  · rw [if_pos h1]
    split
    · split <;> simp
    · simp
  · rw [if_neg h1]
    by_cases h2 : name = nNum
    · rw [if_pos h2]
      cases (unmarshalRaw body).bind asInt with
      | none => simp
      | some n =>
        simp only
        cases hn : handleNum .repaired n with
        | ok l => simp
        | reject => simp
        | panic s => exact absurd hn (handleNum_no_panic n s)
    · rw [if_neg h2]
      by_cases h3 : name = nModules
      · rw [if_pos h3]
        cases hp : parseModules .repaired (body.length + 1) (d.mods.getD []) body with
        | ok l => simp
        | reject => simp
        | panic s => exact absurd hp (parseModules_no_panic _ _ _ _)
      · rw [if_neg h3]
        cases fieldTable.lookup name with
        | none => simp
        | some p =>
          simp only
          cases unmarshalRaw body with
          | none => simp
          | some x => cases x <;> simp only <;> (try split) <;> simp

/-- … and neither does `ownerServiceInfo` as a whole, in any stage, on any 68 (empty keys included). -/
theorem owner_never_panics (o : Own) (hF : o.F = .repaired) (b : Batch) (site : String) :
    ownStep o b ≠ .panic site := by
  have hall : ∀ (ms : List (Bytes × Bytes)) (d : DmState) (s : String), dmHandleAll .repaired d ms ≠ .panic s := by
    intro ms
    induction ms with
    | nil => intro d s; simp [dmHandleAll]
    | cons m r ih =>
      intro d s
      obtain ⟨k, v⟩ := m
      simp only [dmHandleAll]
      cases hh : dmHandle .repaired d (cutKey k).2 v with
      | ok d' => exact ih d' s
      | reject => simp
      | panic s' => exact absurd hh (devmod_never_panics d (cutKey k).2 v s')
  unfold ownStep
  have hre : ∀ kvs, reassembleF o.F kvs ≠ .panic := by
    intro kvs
    rw [hF]
    cases kvs with
    | nil => simp [reassembleF]
    | cons c r => simp only [reassembleF, Fixes.repaired, if_true]; split <;> simp
  cases hr : reassembleF o.F b.kvs with
  | panic => exact absurd hr (hre _)
  | ok msgs =>
    simp only
    cases o.stage with
    | finished => simp
    | devmod =>
      simp only
      rw [hF]
      cases hd : dmHandleAll .repaired o.dm msgs with
      | panic s => exact absurd hd (hall msgs o.dm s)
      | reject => simp
      | ok dm =>
        simp only
        by_cases hm : b.more = true
        · rw [if_pos hm]; simp
        · rw [if_neg hm]
          cases hp : dmProduce dm with
          | panic s => exact absurd hp (dmProduce_no_panic dm s)
          | reject => simp
          | ok t => cases t <;> simp
    | running =>
      simp only
      cases o.mods with
      | nil => simp
      | cons cur rest =>
        simp only
        split
        · simp
        · split
          · simp
          · split <;> simp

/-! ### non-vacuity -/

private def exFields : List Field := [
  ⟨[111, 115], [108, 105, 110], false⟩,                       -- os = "lin"
  ⟨[97, 114, 99, 104], [120], false⟩,                         -- arch = "x"
  ⟨[118, 101, 114, 115, 105, 111, 110], [49], false⟩,         -- version = "1"
  ⟨[100, 101, 118, 105, 99, 101], [100], false⟩,              -- device = "d"
  ⟨[115, 110], [1, 2], true⟩,                                 -- sn = h'0102'
  ⟨[112, 97, 116, 104, 115, 101, 112], [], false⟩,            -- pathsep empty: not sent
  ⟨[115, 101, 112], [47], false⟩,                             -- sep = "/"
  ⟨[98, 105, 110], [120], false⟩]                             -- bin = "x"

/-- module list: "ma", "mb", "devmod" -/
private def exNames : List Bytes := [[109, 97], [109, 98], nDevmod]

/-- The hypotheses of `owner_gets_devmod` are satisfiable at the smallest send size that works for this
device (32: 27 bytes for the KVs of a message), where devmod takes twelve 68 messages. -/
example : CfgOk 32 ⟨exFields, exNames⟩ :=
  ⟨by decide, by decide, by
      intro f hf
      simp only [exFields, List.mem_cons, List.mem_nil_iff, or_false] at hf
      rcases hf with rfl | rfl | rfl | rfl | rfl | rfl | rfl | rfl <;>
        first | exact ⟨⟨true, by decide⟩, by decide⟩ | exact ⟨⟨false, by decide⟩, by decide⟩,
    by simp [NoDup, exFields], by decide, by
      intro n hn
      simp only [exNames, List.mem_cons, List.mem_nil_iff, or_false] at hn
      rcases hn with rfl | rfl | rfl <;> exact ⟨by decide, by decide⟩,
    by decide⟩

example : (devmodOps .repaired 32 ⟨exFields, exNames⟩).isSome = true := by decide

/-- … and one byte less does not work (`devmod_write_succeeds` states the condition): the chunk holding
"devmod" alone needs 27 bytes. -/
example : devmodOps .repaired 31 ⟨exFields, exNames⟩ = none := by decide

/-- The twelve 68 messages of that devmod round: every value whole, only the last without
IsMoreServiceInfo (it is empty: the last chunk used the space of its message up exactly). -/
example : (match devmodOps .repaired 32 ⟨exFields, exNames⟩ with
    | some ops => (allBatches .repaired 27 (compile ops)).batches.map fun (b : Batch) => (b.more, b.kvs.map fun (c : KV) => c.val)
    | none => []) =
    [(true, [[245]]), (true, [[99, 108, 105, 110]]), (true, [[97, 120]]), (true, [[97, 49]]), (true, [[97, 100]]),
     (true, [[66, 1, 2]]), (true, [[97, 47]]), (true, [[97, 120]]), (true, [[3]]),
     (true, [[132, 0, 2, 98, 109, 97, 98, 109, 98]]), (true, [[131, 2, 1, 102, 100, 101, 118, 109, 111, 100]]),
     (false, [])] := by decide

/-- The state right after that devmod round (as `owner_gets_devmod` describes it) with two owner modules:
"ma" (activation, a message, the device answers with 30 bytes and a forced break) and "mb", which uses
IsMoreServiceInfo. -/
private def exAfter : Sys :=
  ⟨36,
   ⟨[⟨[109, 97], [⟨[.send [114] [1, 2, 3, 4, 5, 6, 7, 8, 9, 10, 11, 12, 13, 14, 15, 16, 17, 18, 19, 20, 21, 22, 23, 24, 25, 26, 27, 28, 29, 30], .yield], false⟩], []⟩,
     ⟨[109, 98], [], []⟩], [], [], [], []⟩,
   ⟨.repaired, 40, true, ⟨[], some exNames, true⟩, .running,
    [⟨[109, 97], [⟨[(nActive, cbTrue), ([120], [9, 9])], false⟩, ⟨[], false⟩]⟩,
     ⟨[109, 98], [⟨[(nActive, cbTrue)], true⟩, ⟨[([121], [7])], false⟩]⟩], 0, []⟩,
   [⟨false, []⟩], [], .run, 10, 2⟩

/-- The rest of TO2: six more exchanges, then Done — not earlier. -/
example : (runN 6 exAfter).phase = .done ∧ (runN 5 exAfter).phase = .run := by decide

/-- The owner's log: module 0 gets the activation answer and the 30-byte answer "r" as two fragments (11 and
19 bytes, two 68 messages), reports done; only then module 1 runs. -/
example : (runN 6 exAfter).own.log =
    [.produce 0 false, .handle 0 nActive cbTrue,
     .handle 0 [114] [1, 2, 3, 4, 5, 6, 7, 8, 9, 10, 11],
     .handle 0 [114] [12, 13, 14, 15, 16, 17, 18, 19, 20, 21, 22, 23, 24, 25, 26, 27, 28, 29, 30], .produce 0 true,
     .produce 1 false, .produce 1 true] := by decide

/-- The device's log: each module is activated before its Receive; "mb" gets its message in the round in
which the owner said IsDone. -/
example : (runN 6 exAfter).dev.log =
    [.trans [109, 97] true, .active [109, 97] true true, .recv [109, 97] [120] [9, 9], .yield [109, 97], .yield [109, 97],
     .trans [109, 98] true, .active [109, 98] true true, .recv [109, 98] [121] [7], .yield [109, 98]] := by decide

/-- `unknown_module_inactive` is not vacuous. -/
example : known exAfter.dev.mods [122, 122] = false ∧ colon ∉ ([122, 122] : Bytes) ∧ ([122, 122] : Bytes) ≠ nDevmod := by decide

/-! ### the tree as found (regression witnesses for the repairs) -/

/-- devmodBounds: `nummodules = -1` panics in `make`. -/
theorem nummodules_negative_panics_original :
    dmHandle .original DmState.init nNum [0x20] = .panic "devmod-nummodules-negative" := by
  simp [dmHandle, nNum, nActive, unmarshalRaw, decode1, decode, decHead, asInt, handleNum, Fixes.original]

/-- devmodBounds: `nummodules = 2`, then a chunk `[0, 3, "a", "b", "c"]` panics in the slice expression. -/
theorem modules_range_panics_original :
    applyChunk .original (List.replicate 2 []) 0 3 [[97], [98], [99]] = .panic "devmod-modules-range" ∧
    applyChunk .repaired (List.replicate 2 []) 0 3 [[97], [98], [99]] = .reject := by
  decide

/-- … and so does a chunk that arrives without any nummodules. -/
theorem modules_without_nummodules_panics_original :
    applyChunk .original [] 0 1 [[97]] = .panic "devmod-modules-range" := by decide

/-- firstKey: a first KV with an empty key. -/
theorem empty_key_panics_original (o : Own) (hF : o.F = .original) :
    ownStep o ⟨false, [⟨[], [1]⟩]⟩ = .panic "owner-chunk-empty-key" := by
  simp [ownStep, reassembleF, hF, Fixes.original]

/-- devmodWhole: the same device at send size 36 on the tree as found: the first 68 carries
`devmod:os` cut after two of its four bytes (`63 6c` of `63 6c 69 6e`) … -/
theorem devmod_split_original :
    (match devmodOps .original 36 ⟨exFields, exNames⟩ with
     | some ops => (allBatches .repaired 31 (compile ops)).batches.head?
     | none => none) =
      some ⟨true, [⟨mkKey nDevmod nActive, cbTrue⟩, ⟨mkKey nDevmod [111, 115], [99, 108]⟩]⟩ := by decide

/-- … and the owner, which handles every 68 on its own, fails on the fragment: TO2 ends with an error
in the devmod round (whatever the fixes on the owner's side). -/
theorem devmod_fragment_rejected (F : Fixes) :
    ownStep ⟨F, 40, true, DmState.init, .devmod, [], 0, []⟩
      ⟨true, [⟨mkKey nDevmod nActive, cbTrue⟩, ⟨mkKey nDevmod [111, 115], [99, 108]⟩]⟩ = .reject := by
  simp [ownStep, reassembleF, reasm, dmHandleAll, dmHandle, cutKey, mkKey, nDevmod, nActive, nNum, nModules, colon, cbTrue,
    unmarshalRaw, decode1, decode, decHead, fieldTable, maxLen]

/-- devmodWhole: the size test of the original chunker accepts chunks that do not fit a message: at
negotiated size 60 it puts five names into one chunk whose KV takes 58 bytes where a message has room for 55;
measured as it is sent the list needs two chunks. -/
theorem chunk_estimate_too_generous_original :
    chunkFits .original 60 0 [[109, 97, 97, 97, 97, 97, 97, 97], [109, 98, 98, 98, 98, 98, 98, 98], nDevmod, [109, 99, 99, 99, 99, 99, 99, 99], [109, 100]] = true ∧
    kvSize (chunkKV (0, [[109, 97, 97, 97, 97, 97, 97, 97], [109, 98, 98, 98, 98, 98, 98, 98], nDevmod, [109, 99, 99, 99, 99, 99, 99, 99], [109, 100]])) = 58 ∧
    (moduleChunks (chunkFits .repaired 55) 0 [] [[109, 97, 97, 97, 97, 97, 97, 97], [109, 98, 98, 98, 98, 98, 98, 98], nDevmod, [109, 99, 99, 99, 99, 99, 99, 99], [109, 100]]).map List.length = some 2 := by decide

/-- yieldErr: a callback that fails right after `yield()` — on the tree as found the round goes on as if
nothing had happened (the rest of the owner's messages of the round is dropped), repaired TO2 fails. -/
theorem error_after_yield_original :
    (nextRound { exAfter with inbox := [⟨mkKey [109, 97] nActive, cbTrue⟩, ⟨mkKey [109, 97] [120], [1]⟩, ⟨mkKey [109, 97] [121], [2]⟩],
                              own := { exAfter.own with F := .original },
                              dev := { exAfter.dev with mods := [⟨[109, 97], [⟨[.send [114] [5], .yield], true⟩], []⟩] } }).phase = .run ∧
    (nextRound { exAfter with inbox := [⟨mkKey [109, 97] nActive, cbTrue⟩, ⟨mkKey [109, 97] [120], [1]⟩, ⟨mkKey [109, 97] [121], [2]⟩],
                              dev := { exAfter.dev with mods := [⟨[109, 97], [⟨[.send [114] [5], .yield], true⟩], []⟩] } }).phase = .failed := by
  decide

end Fdo.Props.C16
