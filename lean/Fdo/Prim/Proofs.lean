import Fdo.Prim.Sha2
import Fdo.Prim.Hmac
import Fdo.Prim.Aes
import Fdo.Prim.Modes
import Fdo.Prim.Gcm
import Fdo.Drv.Prim
/-!
Small structural facts about the primitives: output lengths, PKCS#7 `pad`/`unpad` round
trip, counter mode is an involution, GCM `open ∘ seal = id`.  Nothing here says the
primitives compute SHA-2/AES (that is what the differential harness `PRIM` is for); these
lemmas are what other properties need when they treat the primitives as black boxes.

Not imported by `Main.lean`.
-/
namespace Fdo.Prim
open Fdo

/-! ### output lengths -/

@[simp] theorem be32_length (x : UInt32) : (be32 x).length = 4 := rfl
@[simp] theorem be64_length (x : UInt64) : (be64 x).length = 8 := rfl

@[simp] theorem sha256_length (m : Bytes) : (sha256 m).length = 32 := by
  simp [sha256, S256.bytes]

@[simp] theorem sha384_length (m : Bytes) : (sha384 m).length = 48 := by
  simp [sha384]

@[simp] theorem sha512_length (m : Bytes) : (sha512 m).length = 64 := by
  simp [sha512]

@[simp] theorem hmacSha256_length (k m : Bytes) : (hmacSha256 k m).length = 32 := by
  simp [hmacSha256, hmac]

@[simp] theorem hmacSha384_length (k m : Bytes) : (hmacSha384 k m).length = 48 := by
  simp [hmacSha384, hmac]

@[simp] theorem Blk.bytes_length (b : Blk) : b.bytes.length = 16 := by
  simp [Blk.bytes]

theorem aesEncryptBlock?_length {k b c : Bytes} (h : aesEncryptBlock? k b = some c) : c.length = 16 := by
  unfold aesEncryptBlock? at h
  split at h
  · exact absurd h (by simp)
  · split at h
    · injection h with h; subst h; simp
    · exact absurd h (by simp)

theorem aesDecryptBlock?_length {k b c : Bytes} (h : aesDecryptBlock? k b = some c) : c.length = 16 := by
  unfold aesDecryptBlock? at h
  split at h
  · exact absurd h (by simp)
  · split at h
    · injection h with h; subst h; simp
    · exact absurd h (by simp)

/-! ### PKCS#7 -/

theorem padSize_pos {len bs : Nat} (h : 0 < bs) : 1 ≤ padSize len bs := by
  have := Nat.mod_lt len h
  unfold padSize; omega

theorem padSize_le (len bs : Nat) : padSize len bs ≤ bs := by
  unfold padSize; omega

@[simp] theorem pad_length (b : Bytes) (bs : Nat) : (pad b bs).length = b.length + padSize b.length bs := by
  simp [pad]

/-- The padded length is a whole number of blocks. -/
theorem pad_length_mod (b : Bytes) (bs : Nat) (h : 0 < bs) : (pad b bs).length % bs = 0 := by
  have hr : b.length % bs < bs := Nat.mod_lt _ h
  have hd := Nat.div_add_mod b.length bs
  have e : (pad b bs).length = bs * (b.length / bs + 1) := by
    rw [pad_length, padSize, Nat.mul_add, Nat.mul_one]
    generalize bs * (b.length / bs) = q at hd
    omega
  rw [e, Nat.mul_mod_right]

theorem pad_length_mod16 (b : Bytes) : (pad b 16).length % 16 = 0 := pad_length_mod b 16 (by decide)

/-- `pad` strictly extends its input (so a padded message is never empty). -/
theorem pad_length_gt (b : Bytes) (bs : Nat) (h : 0 < bs) : b.length < (pad b bs).length := by
  have := padSize_pos (len := b.length) h
  rw [pad_length]; omega

/-- For the block sizes `pad` can be called with, the panicking model agrees with `pad`. -/
theorem pad?_eq_some (b : Bytes) (bs : Nat) (h1 : 0 < bs) (h2 : bs ≤ 255) : pad? b bs = some (pad b bs) := by
  have := padSize_le b.length bs
  unfold pad?
  rw [if_neg (by omega), if_neg (by omega)]

/-- `unpad ∘ pad = id` for every block size 1..255. -/
theorem unpad_pad (b : Bytes) (bs : Nat) (h1 : 0 < bs) (h2 : bs ≤ 255) : unpad (pad b bs) = some b := by
  have hk1 := padSize_pos (len := b.length) h1
  have hk2 := padSize_le b.length bs
  unfold unpad pad
  generalize padSize b.length bs = k at hk1 hk2
  have hlast : (b ++ List.replicate k (UInt8.ofNat k)).getLast? = some (UInt8.ofNat k) := by
    rw [List.getLast?_append, List.getLast?_replicate, if_neg (by omega)]; rfl
  have hk : (UInt8.ofNat k).toNat = k := by
    simp [Nat.mod_eq_of_lt (show k < 256 by omega)]
  rw [hlast]
  simp only [hk, List.length_append, List.length_replicate]
  rw [if_neg (by omega), Nat.add_sub_cancel, List.take_left' rfl]

theorem unpad_pad16 (b : Bytes) : unpad (pad b 16) = some b := unpad_pad b 16 (by decide) (by decide)

/-- Whatever `unpad` returns is a prefix of its input. -/
theorem unpad_prefix {b r : Bytes} (h : unpad b = some r) : ∃ n, r = b.take n := by
  unfold unpad at h
  split at h
  · exact absurd h (by simp)
  · split at h
    · exact absurd h (by simp)
    · injection h with h; exact ⟨_, h.symm⟩

/-- `unpad` performs no validation (as the Go function): a zero pad byte returns the input
unchanged, the removed bytes need not equal the pad size, the pad size may exceed a block. -/
example : unpad [1, 2, 3, 0] = some [1, 2, 3, 0] := by decide
example : unpad [7, 9, 9, 3] = some [7] := by decide
example : unpad (List.replicate 20 20) = some [] := by decide
/-- … and it "panics" (`none`) on the empty string and when the last byte exceeds the length. -/
example : unpad [] = none := by decide
example : unpad [1, 2, 5] = none := by decide

/-! ### counter mode -/

@[simp] theorem xorKs_length (d ks : Bytes) : (xorKs d ks).length = d.length := by
  simp [xorKs, List.length_zipWith]; omega

@[simp] theorem xorKs_nil_right (d : Bytes) : xorKs d [] = d := by simp [xorKs]

@[simp] theorem xorKs_nil_left (ks : Bytes) : xorKs [] ks = [] := by simp [xorKs]

@[simp] theorem xorKs_cons_cons (a k : UInt8) (d ks : Bytes) :
    xorKs (a :: d) (k :: ks) = (a ^^^ k) :: xorKs d ks := by simp [xorKs]

/-- Xoring the same keystream twice gives back the data, whatever the keystream. -/
theorem xorKs_xorKs (d ks : Bytes) : xorKs (xorKs d ks) ks = d := by
  induction d generalizing ks with
  | nil => simp
  | cons a d ih =>
    cases ks with
    | nil => simp
    | cons k ks =>
      rw [xorKs_cons_cons, xorKs_cons_cons, ih, UInt8.xor_assoc, UInt8.xor_self, UInt8.xor_zero]

theorem aesCtr?_length {k iv d c : Bytes} (h : aesCtr? k iv d = some c) : c.length = d.length := by
  unfold aesCtr? at h
  split at h
  · exact absurd h (by simp)
  · split at h
    · injection h with h; subst h; simp
    · exact absurd h (by simp)

/-- CTR decryption is CTR encryption: applying `aesCtr?` twice with the same key and IV
returns the data. -/
theorem aesCtr?_involutive {k iv d c : Bytes} (h : aesCtr? k iv d = some c) : aesCtr? k iv c = some d := by
  unfold aesCtr? at h ⊢
  split at h
  · exact absurd h (by simp)
  · rename_i rk hk
    split at h
    · rename_i hiv
      injection h with h; subst h
      simp only [hiv, if_true, xorKs_length, xorKs_xorKs]
    · exact absurd h (by simp)

/-! ### GCM -/

@[simp] theorem gcmTag_length (rk : Array UInt32) (j0 : Blk) (aad ct : Bytes) :
    (gcmTag rk j0 aad ct).length = 16 := by
  simp [gcmTag]

theorem gcmSeal?_length {k n a p c : Bytes} (h : gcmSeal? k n a p = some c) : c.length = p.length + 16 := by
  unfold gcmSeal? at h
  split at h
  · exact absurd h (by simp)
  · split at h
    · injection h with h; subst h; simp
    · exact absurd h (by simp)

/-- Opening what was sealed under the same key, nonce and AAD returns the plaintext. -/
theorem gcmOpen_gcmSeal? {k n a p c : Bytes} (h : gcmSeal? k n a p = some c) : gcmOpen k n a c = some p := by
  unfold gcmSeal? at h
  unfold gcmOpen
  split at h
  · exact absurd h (by simp)
  · rename_i rk hk
    split at h
    · rename_i hn
      injection h with h; subst h
      have hlen : (xorKs p (ctrKeystream rk true (gcmJ0 n).inc32 p.length) ++
          gcmTag rk (gcmJ0 n) a (xorKs p (ctrKeystream rk true (gcmJ0 n).inc32 p.length))).length - 16
          = (xorKs p (ctrKeystream rk true (gcmJ0 n).inc32 p.length)).length := by
        simp
      simp only [hn, true_and]
      rw [if_pos (by simp), hlen, List.take_left' rfl, List.drop_left' rfl, if_pos rfl,
        xorKs_length, xorKs_xorKs]
    · exact absurd h (by simp)

end Fdo.Prim

/-! ### the driver's fast hex parser is `Fdo.ofHex` -/
namespace Fdo.Drv.Prim
open Fdo

theorem ofHexLoop_eq : ∀ (cs : List Char) (acc : ByteArray),
    (ofHexLoop cs acc).map (fun b => b.data.toList) = (ofHexChars cs).map (fun l => acc.data.toList ++ l)
  | [], acc => by simp [ofHexLoop, ofHexChars]
  | [_], acc => by simp [ofHexLoop, ofHexChars]
  | a :: b :: r, acc => by
    unfold ofHexLoop ofHexChars
    cases hx : hexVal a with
    | none => simp
    | some x =>
      cases hy : hexVal b with
      | none => simp
      | some y =>
        simp only [Option.bind_eq_bind, Option.bind_some, Option.pure_def]
        rw [ofHexLoop_eq r]
        cases ofHexChars r <;> simp [ByteArray.data_push]

theorem ofHexFast_eq_ofHex (s : String) : ofHexFast s = ofHex s := by
  unfold ofHexFast ofHex
  split
  · rfl
  · rw [ofHexLoop_eq]
    cases ofHexChars s.toList <;> simp [ByteArray.emptyWithCapacity] <;> rfl

end Fdo.Drv.Prim
