import Fdo.Prim.Sha2
/-!
HMAC (RFC 2104) over SHA-256 and SHA-384, as `crypto/hmac.New(sha256.New | sha512.New384, key)`.
Block size 64 for SHA-256 and 128 for SHA-384.  Validated against Go by harness `PRIM`.
-/
namespace Fdo.Prim
open Fdo

/-- `l` extended with zero bytes to length `n` (unchanged when already that long). -/
def zeroExtend (l : Bytes) (n : Nat) : Bytes := l ++ List.replicate (n - l.length) 0

/-- Generic HMAC: `H((K' ⊕ opad) ‖ H((K' ⊕ ipad) ‖ msg))` where `K'` is the key, hashed first
when longer than a block, zero-extended to the block size. -/
def hmac (hash : Bytes → Bytes) (blockSize : Nat) (key msg : Bytes) : Bytes :=
  let k0 := if key.length > blockSize then hash key else key
  let k := zeroExtend k0 blockSize
  let inner := hash (k.map (· ^^^ 0x36) ++ msg)
  hash (k.map (· ^^^ 0x5c) ++ inner)

/-- HMAC-SHA-256. -/
def hmacSha256 (key msg : Bytes) : Bytes := hmac sha256 64 key msg

/-- HMAC-SHA-384. -/
def hmacSha384 (key msg : Bytes) : Bytes := hmac sha384 128 key msg

end Fdo.Prim
