import Fdo.Prim.Modes
/-!
AES-GCM (NIST SP 800-38D) with the standard 12-byte nonce and 16-byte tag, as
`cipher.NewGCM(block)` in Go.  Total, core Lean only; validated against Go by harness `PRIM`.
-/
namespace Fdo.Prim
open Fdo

/-- An element of GF(2^128) in GCM's bit order: `hi` holds bytes 0..7 of the block
(big-endian), the most significant bit of `hi` is the coefficient of x^0. -/
structure U128 where
  hi : UInt64
  lo : UInt64

/-- Shift-and-add multiplication (SP 800-38D Algorithm 1): `fuel` remaining bits of `x`
(taken from the top of `xh:xl`), accumulator `z`, running multiple `v`. -/
def gmulLoop : (fuel : Nat) → (xh xl zh zl vh vl : UInt64) → U128
  | 0, _, _, zh, zl, _, _ => ⟨zh, zl⟩
  | n+1, xh, xl, zh, zl, vh, vl =>
    let m : UInt64 := (0 : UInt64) - (xh >>> 63)
    let lsb : UInt64 := (0 : UInt64) - (vl &&& 1)
    gmulLoop n ((xh <<< 1) ||| (xl >>> 63)) (xl <<< 1)
      (zh ^^^ (vh &&& m)) (zl ^^^ (vl &&& m))
      ((vh >>> 1) ^^^ (0xe100000000000000 &&& lsb)) ((vl >>> 1) ||| (vh <<< 63))

/-- `x · y` in GF(2^128) modulo x^128 + x^7 + x^2 + x + 1. -/
@[inline] def gmul (xh xl yh yl : UInt64) : U128 := gmulLoop 128 xh xl 0 0 yh yl

/-- GHASH update over `n` whole blocks of `ba` from offset `off`: `y ← (y ⊕ block) · h`. -/
def ghashBlocks (hh hl : UInt64) (ba : ByteArray) : (n off : Nat) → (yh yl : UInt64) → U128
  | 0, _, yh, yl => ⟨yh, yl⟩
  | n+1, off, yh, yl =>
    let z := gmul (yh ^^^ be64At ba off) (yl ^^^ be64At ba (off + 8)) hh hl
    ghashBlocks hh hl ba n (off + 16) z.hi z.lo

/-- The bytes of `l` followed by zeros up to a multiple of 16. -/
def zeroPad16 (l : Bytes) : ByteArray :=
  let n := l.length
  pushZeros (pushBytes (ByteArray.emptyWithCapacity (n + 16)) l) ((16 - n % 16) % 16)

/-- `GHASH_H(A ‖ 0* ‖ C ‖ 0* ‖ [len A]_64 ‖ [len C]_64)`. -/
def ghash (hh hl : UInt64) (aad ct : Bytes) : U128 :=
  let a := zeroPad16 aad
  let c := zeroPad16 ct
  let y := ghashBlocks hh hl a (a.size / 16) 0 0 0
  let y := ghashBlocks hh hl c (c.size / 16) 0 y.hi y.lo
  gmul (y.hi ^^^ UInt64.ofNat (8 * aad.length)) (y.lo ^^^ UInt64.ofNat (8 * ct.length)) hh hl

/-- The pre-counter block `J0 = nonce ‖ 0^31 ‖ 1` for a 12-byte nonce. -/
def gcmJ0 (nonce : Bytes) : Blk := Blk.ofBytes (nonce ++ [0, 0, 0, 1])

/-- The 16-byte tag `GHASH ⊕ E_K(J0)`. -/
def gcmTag (rk : Array UInt32) (j0 : Blk) (aad ct : Bytes) : Bytes :=
  let h := encBlk rk Blk.zero
  let hh := (h.c0.toUInt64 <<< 32) ||| h.c1.toUInt64
  let hl := (h.c2.toUInt64 <<< 32) ||| h.c3.toUInt64
  let s := ghash hh hl aad ct
  let e := encBlk rk j0
  (Blk.xor ⟨(s.hi >>> 32).toUInt32, s.hi.toUInt32, (s.lo >>> 32).toUInt32, s.lo.toUInt32⟩ e).bytes

/-- `cipher.NewGCM(block).Seal(nil, nonce, pt, aad)` = ciphertext ‖ 16-byte tag.
`none` when the key is not 16/24/32 bytes (`aes.NewCipher` error) or the nonce is not
12 bytes (Go panics "incorrect nonce length given to GCM"). -/
def gcmSeal? (key nonce aad pt : Bytes) : Option Bytes :=
  match expandKey key with
  | none => none
  | some rk =>
    if nonce.length = 12 then
      let j0 := gcmJ0 nonce
      let ct := xorKs pt (ctrKeystream rk true j0.inc32 pt.length)
      some (ct ++ gcmTag rk j0 aad ct)
    else none

/-- `gcmSeal?` with `[]` for a bad key/nonce length (a real result has at least 16 bytes). -/
def gcmSeal (key nonce aad pt : Bytes) : Bytes := (gcmSeal? key nonce aad pt).getD []

/-- Are key and nonce lengths acceptable to `aes.NewCipher` / `cipher.NewGCM`? -/
def gcmParamsOk (key nonce : Bytes) : Bool := (expandKey key).isSome && nonce.length == 12

/-- `cipher.NewGCM(block).Open(nil, nonce, ct, aad)`: `none` when authentication fails (also
for inputs shorter than the tag), otherwise the plaintext.  Also `none` for a bad key/nonce
length, where Go errors/panics before any authentication (see `gcmParamsOk`). -/
def gcmOpen (key nonce aad ct : Bytes) : Option Bytes :=
  match expandKey key with
  | none => none
  | some rk =>
    if nonce.length = 12 ∧ 16 ≤ ct.length then
      let j0 := gcmJ0 nonce
      let body := ct.take (ct.length - 16)
      let tag := ct.drop (ct.length - 16)
      if tag = gcmTag rk j0 aad body then
        some (xorKs body (ctrKeystream rk true j0.inc32 body.length))
      else none
    else none

end Fdo.Prim
