import Fdo.Prim.Aes
/-!
AES-CTR, AES-CBC (no padding) and the PKCS#7 `pad`/`unpad` of go-fdo's
`cose/encrypt_alg.go`.  Total, core Lean only; validated against Go's `crypto/cipher`
(and against verbatim copies of `pad`/`unpad`) by harness `PRIM`.
-/
namespace Fdo.Prim
open Fdo

/-! ### keystream xor -/

/-- `d ⊕ ks` bytewise; bytes of `d` beyond the end of `ks` are kept unchanged, so the result
always has the length of `d`.  (All callers supply at least `d.length` keystream bytes.) -/
def xorKs (d ks : Bytes) : Bytes := List.zipWith (· ^^^ ·) d ks ++ d.drop ks.length

/-! ### counters -/

/-- The block as a 128-bit big-endian number, plus one, mod 2^128 (`cipher.NewCTR`). -/
def Blk.inc128 (b : Blk) : Blk :=
  let c3 := b.c3 + 1
  if c3 != 0 then ⟨b.c0, b.c1, b.c2, c3⟩ else
  let c2 := b.c2 + 1
  if c2 != 0 then ⟨b.c0, b.c1, c2, 0⟩ else
  let c1 := b.c1 + 1
  if c1 != 0 then ⟨b.c0, c1, 0, 0⟩ else
  ⟨b.c0 + 1, 0, 0, 0⟩

/-- Only the last 32 bits are incremented, mod 2^32 (`inc32` of GCM, SP 800-38D §6.2). -/
def Blk.inc32 (b : Blk) : Blk := ⟨b.c0, b.c1, b.c2, b.c3 + 1⟩

/-- `E(ctr) ‖ E(ctr+1) ‖ …`, `n` blocks appended to `out`; `gcm` selects `inc32` over `inc128`. -/
def ctrStream (rk : Array UInt32) (gcm : Bool) : (n : Nat) → (ctr : Blk) → (out : ByteArray) → ByteArray
  | 0, _, out => out
  | n+1, ctr, out =>
    ctrStream rk gcm n (if gcm then ctr.inc32 else ctr.inc128) (pushBlk out (encBlk rk ctr))

/-- At least `n` bytes (a whole number of blocks) of counter-mode keystream starting at `ctr`. -/
def ctrKeystream (rk : Array UInt32) (gcm : Bool) (ctr : Blk) (n : Nat) : Bytes :=
  let nb := (n + 15) / 16
  (ctrStream rk gcm nb ctr (ByteArray.emptyWithCapacity (16 * nb))).data.toList

/-! ### CTR -/

/-- AES-CTR exactly as `cipher.NewCTR(block, iv).XORKeyStream(dst, data)`: the whole 16-byte
IV is a big-endian counter incremented by one per block (wrapping mod 2^128).
`none` when the key is not 16/24/32 bytes (`aes.NewCipher` error) or the IV is not 16 bytes
(`cipher.NewCTR` panics "IV length must equal block size"). -/
def aesCtr? (key iv data : Bytes) : Option Bytes :=
  match expandKey key with
  | none => none
  | some rk =>
    if iv.length = 16 then some (xorKs data (ctrKeystream rk false (Blk.ofBytes iv) data.length))
    else none

/-- `aesCtr?` with `[]` for a bad key/IV length (ambiguous with empty `data`; prefer `aesCtr?`). -/
def aesCtr (key iv16 data : Bytes) : Bytes := (aesCtr? key iv16 data).getD []

/-! ### CBC without padding -/

def cbcEncLoop (rk : Array UInt32) (ba : ByteArray) : (n off : Nat) → (prev : Blk) → (out : ByteArray) → ByteArray
  | 0, _, _, out => out
  | n+1, off, prev, out =>
    let c := encBlk rk ((Blk.at ba off).xor prev)
    cbcEncLoop rk ba n (off + 16) c (pushBlk out c)

def cbcDecLoop (rk : Array UInt32) (ba : ByteArray) : (n off : Nat) → (prev : Blk) → (out : ByteArray) → ByteArray
  | 0, _, _, out => out
  | n+1, off, prev, out =>
    let c := Blk.at ba off
    cbcDecLoop rk ba n (off + 16) c (pushBlk out ((decBlk rk c).xor prev))

/-- `cipher.NewCBCEncrypter(block, iv).CryptBlocks(dst, data)`.  `none` when the key is not
16/24/32 bytes, the IV is not 16 bytes (Go panics "IV length must equal block size") or the
data is not a whole number of blocks (Go panics "input not full blocks"). -/
def aesCbcEncrypt (key iv data : Bytes) : Option Bytes :=
  match expandKey key with
  | none => none
  | some rk =>
    if iv.length = 16 ∧ data.length % 16 = 0 then
      let ba := data.toByteArray
      some (cbcEncLoop rk ba (ba.size / 16) 0 (Blk.ofBytes iv) (ByteArray.emptyWithCapacity ba.size)).data.toList
    else none

/-- `cipher.NewCBCDecrypter(block, iv).CryptBlocks(dst, data)`; `none` as for `aesCbcEncrypt`. -/
def aesCbcDecrypt (key iv data : Bytes) : Option Bytes :=
  match expandKey key with
  | none => none
  | some rk =>
    if iv.length = 16 ∧ data.length % 16 = 0 then
      let ba := data.toByteArray
      some (cbcDecLoop rk ba (ba.size / 16) 0 (Blk.ofBytes iv) (ByteArray.emptyWithCapacity ba.size)).data.toList
    else none

/-! ### PKCS#7 padding as written in go-fdo

```go
func pad(b []byte, blockSize int) []byte {
	padSize := blockSize - len(b)%blockSize
	if padSize < 0 || padSize > math.MaxUint8 { panic("pad size miscalculated") }
	padding := bytes.Repeat([]byte{uint8(padSize)}, padSize)
	return append(b, padding...)
}
func unpad(b []byte) []byte {
	padSize := int(b[len(b)-1])
	return b[:len(b)-padSize]
}
```
-/

/-- Number of bytes `pad` appends: `blockSize - len % blockSize`, between 1 and `blockSize`
for a positive block size. -/
def padSize (len blockSize : Nat) : Nat := blockSize - len % blockSize

/-- `pad` for the block sizes it is used with (`1 ≤ blockSize ≤ 255`; go-fdo only passes 16).
Outside that range see `pad?`: Go panics, this function does not model that. -/
def pad (b : Bytes) (blockSize : Nat) : Bytes :=
  b ++ List.replicate (padSize b.length blockSize) (UInt8.ofNat (padSize b.length blockSize))

/-- `pad` including the panics of the Go function: `none` for `blockSize = 0` (integer divide
by zero) and when the pad size exceeds 255 (`panic("pad size miscalculated")`, possible only
for `blockSize > 255`).  Go's `blockSize` is an `int`; a negative one always panics and is
not representable here. -/
def pad? (b : Bytes) (blockSize : Nat) : Option Bytes :=
  if blockSize = 0 then none
  else if padSize b.length blockSize > 255 then none
  else some (pad b blockSize)

/-- `unpad` exactly as the Go code behaves, `none` where it panics:
* empty input: `b[len(b)-1]` panics (index out of range [-1]);
* last byte larger than the length: `b[:len(b)-padSize]` panics (slice bounds out of range);
* otherwise the last byte alone decides how much is cut off.  The Go code does NOT check
  that the removed bytes all equal the pad size, accepts a pad size of 0 (returns the input
  unchanged) and pad sizes above the block size.  All of that is reproduced here. -/
def unpad (b : Bytes) : Option Bytes :=
  match b.getLast? with
  | none => none
  | some p => if p.toNat > b.length then none else some (b.take (b.length - p.toNat))

/-! ### go-fdo's CBC crypter (`cbcCrypter` in cose/encrypt_alg.go) -/

/-- `cbcCrypter.Encrypt` for the IV it drew from `rand`: CBC over `pad pt 16`.  `none` only
for a key that is not 16/24/32 bytes (`NewCrypter` returns an error) or an IV that is not 16
bytes (cannot happen in Go: the IV is `make([]byte, BlockSize)`). -/
def fdoCbcEncrypt (key iv pt : Bytes) : Option Bytes := aesCbcEncrypt key iv (pad pt 16)

/-- `cbcCrypter.Decrypt` for the IV found in the unprotected header: CBC decryption, then
`unpad`.  `none` exactly where the Go method panics (for a valid key): IV not 16 bytes
("IV length must equal block size"), ciphertext not a whole number of blocks ("input not full
blocks"), empty ciphertext (index out of range in `unpad`), last plaintext byte larger than
the plaintext (slice bounds out of range in `unpad`).  No padding validation beyond that. -/
def fdoCbcDecrypt (key iv ct : Bytes) : Option Bytes := (aesCbcDecrypt key iv ct).bind unpad

end Fdo.Prim
