import Fdo.Bytes
/-!
SHA-256 and SHA-384 (FIPS 180-4), executable and total, core Lean only.

API level: `Bytes = List UInt8`.  Internally the padded message is one `ByteArray`, the
message schedule an `Array` of machine words and the rounds a fuelled loop over unboxed
`UInt32`/`UInt64` state, so the compiled driver hashes several MB/s.

The round constants and initial values below are not copied from an implementation: they
were regenerated from their definition (fractional parts of cube/square roots of the first
primes) and the whole function is validated differentially against Go's `crypto/sha256`
and `crypto/sha512` by the harness pseudo-property `PRIM`.
-/
namespace Fdo.Prim
open Fdo

/-! ### shared helpers -/

@[inline] def rotr32 (x : UInt32) (n : UInt32) : UInt32 := (x >>> n) ||| (x <<< (32 - n))
@[inline] def rotr64 (x : UInt64) (n : UInt64) : UInt64 := (x >>> n) ||| (x <<< (64 - n))

/-- Big-endian 32-bit word at byte offset `i` (bytes beyond the end read as 0). -/
@[inline] def be32At (ba : ByteArray) (i : Nat) : UInt32 :=
  ((ba.get! i).toUInt32 <<< 24) ||| ((ba.get! (i+1)).toUInt32 <<< 16) |||
  ((ba.get! (i+2)).toUInt32 <<< 8) ||| (ba.get! (i+3)).toUInt32

/-- Big-endian 64-bit word at byte offset `i`. -/
@[inline] def be64At (ba : ByteArray) (i : Nat) : UInt64 :=
  ((be32At ba i).toUInt64 <<< 32) ||| (be32At ba (i+4)).toUInt64

/-- The four bytes of a word, most significant first. -/
def be32 (x : UInt32) : Bytes :=
  [(x >>> 24).toUInt8, (x >>> 16).toUInt8, (x >>> 8).toUInt8, x.toUInt8]

/-- The eight bytes of a word, most significant first. -/
def be64 (x : UInt64) : Bytes :=
  [(x >>> 56).toUInt8, (x >>> 48).toUInt8, (x >>> 40).toUInt8, (x >>> 32).toUInt8,
   (x >>> 24).toUInt8, (x >>> 16).toUInt8, (x >>> 8).toUInt8, x.toUInt8]

/-- `b` followed by `n` zero bytes. -/
def pushZeros (b : ByteArray) : Nat → ByteArray
  | 0 => b
  | n+1 => pushZeros (b.push 0) n

/-- `b` followed by the bytes of `l`. -/
def pushBytes (b : ByteArray) : Bytes → ByteArray
  | [] => b
  | x :: r => pushBytes (b.push x) r

/-- Merkle–Damgård padding: `m ‖ 0x80 ‖ 0…0 ‖ bitlen` as a big-endian `lenBytes`-byte
number, the total a multiple of `blk` (`blk = 64, lenBytes = 8` for SHA-256;
`blk = 128, lenBytes = 16` for SHA-384/512). -/
def mdPad (m : Bytes) (blk lenBytes : Nat) : ByteArray :=
  let n := m.length
  let zeros := (2 * blk - 1 - lenBytes - n % blk) % blk
  let b := pushBytes (ByteArray.emptyWithCapacity (n + 2 * blk)) m
  let b := pushZeros (b.push 0x80) zeros
  pushBytes b (natBE lenBytes ((8 * n) % 256 ^ lenBytes))

/-! ### SHA-256 -/

def k256 : Array UInt32 := #[
  0x428a2f98, 0x71374491, 0xb5c0fbcf, 0xe9b5dba5, 0x3956c25b, 0x59f111f1, 0x923f82a4, 0xab1c5ed5,
  0xd807aa98, 0x12835b01, 0x243185be, 0x550c7dc3, 0x72be5d74, 0x80deb1fe, 0x9bdc06a7, 0xc19bf174,
  0xe49b69c1, 0xefbe4786, 0x0fc19dc6, 0x240ca1cc, 0x2de92c6f, 0x4a7484aa, 0x5cb0a9dc, 0x76f988da,
  0x983e5152, 0xa831c66d, 0xb00327c8, 0xbf597fc7, 0xc6e00bf3, 0xd5a79147, 0x06ca6351, 0x14292967,
  0x27b70a85, 0x2e1b2138, 0x4d2c6dfc, 0x53380d13, 0x650a7354, 0x766a0abb, 0x81c2c92e, 0x92722c85,
  0xa2bfe8a1, 0xa81a664b, 0xc24b8b70, 0xc76c51a3, 0xd192e819, 0xd6990624, 0xf40e3585, 0x106aa070,
  0x19a4c116, 0x1e376c08, 0x2748774c, 0x34b0bcb5, 0x391c0cb3, 0x4ed8aa4a, 0x5b9cca4f, 0x682e6ff3,
  0x748f82ee, 0x78a5636f, 0x84c87814, 0x8cc70208, 0x90befffa, 0xa4506ceb, 0xbef9a3f7, 0xc67178f2]

structure S256 where
  a : UInt32
  b : UInt32
  c : UInt32
  d : UInt32
  e : UInt32
  f : UInt32
  g : UInt32
  h : UInt32

def iv256 : S256 :=
  ⟨  0x6a09e667, 0xbb67ae85, 0x3c6ef372, 0xa54ff53a, 0x510e527f, 0x9b05688c, 0x1f83d9ab, 0x5be0cd19⟩

/-- Message schedule of the block at byte offset `off`: 64 words. -/
def sched256 (ba : ByteArray) (off : Nat) : Array UInt32 :=
  let w := Nat.fold 16 (fun i _ (w : Array UInt32) => w.push (be32At ba (off + 4 * i))) (Array.mkEmpty 64)
  Nat.fold 48 (fun j _ (w : Array UInt32) =>
    let x15 := w[j + 1]!
    let x2 := w[j + 14]!
    let s0 := rotr32 x15 7 ^^^ rotr32 x15 18 ^^^ (x15 >>> 3)
    let s1 := rotr32 x2 17 ^^^ rotr32 x2 19 ^^^ (x2 >>> 10)
    w.push (w[j]! + s0 + w[j + 9]! + s1)) w

/-- `fuel` rounds starting with round `i`. -/
def rounds256 (w : Array UInt32) : (fuel i : Nat) → (a b c d e f g h : UInt32) → S256
  | 0, _, a, b, c, d, e, f, g, h => ⟨a, b, c, d, e, f, g, h⟩
  | n+1, i, a, b, c, d, e, f, g, h =>
    let s1 := rotr32 e 6 ^^^ rotr32 e 11 ^^^ rotr32 e 25
    let ch := (e &&& f) ^^^ (~~~e &&& g)
    let t1 := h + s1 + ch + k256[i]! + w[i]!
    let s0 := rotr32 a 2 ^^^ rotr32 a 13 ^^^ rotr32 a 22
    let mj := (a &&& b) ^^^ (a &&& c) ^^^ (b &&& c)
    let t2 := s0 + mj
    rounds256 w n (i+1) (t1 + t2) a b c (d + t1) e f g

/-- One application of the compression function to the block at offset `off`. -/
def compress256 (ba : ByteArray) (off : Nat) (s : S256) : S256 :=
  let t := rounds256 (sched256 ba off) 64 0 s.a s.b s.c s.d s.e s.f s.g s.h
  ⟨s.a + t.a, s.b + t.b, s.c + t.c, s.d + t.d, s.e + t.e, s.f + t.f, s.g + t.g, s.h + t.h⟩

/-- Absorb `n` consecutive 64-byte blocks starting at `off`. -/
def blocks256 (ba : ByteArray) : (n off : Nat) → S256 → S256
  | 0, _, s => s
  | n+1, off, s => blocks256 ba n (off + 64) (compress256 ba off s)

def S256.bytes (s : S256) : Bytes :=
  be32 s.a ++ be32 s.b ++ be32 s.c ++ be32 s.d ++ be32 s.e ++ be32 s.f ++ be32 s.g ++ be32 s.h

/-- SHA-256 (`crypto/sha256.Sum256`). -/
def sha256 (m : Bytes) : Bytes :=
  let ba := mdPad m 64 8
  (blocks256 ba (ba.size / 64) 0 iv256).bytes

/-! ### SHA-512 core, SHA-384 -/

def k512 : Array UInt64 := #[
  0x428a2f98d728ae22, 0x7137449123ef65cd, 0xb5c0fbcfec4d3b2f, 0xe9b5dba58189dbbc,
  0x3956c25bf348b538, 0x59f111f1b605d019, 0x923f82a4af194f9b, 0xab1c5ed5da6d8118,
  0xd807aa98a3030242, 0x12835b0145706fbe, 0x243185be4ee4b28c, 0x550c7dc3d5ffb4e2,
  0x72be5d74f27b896f, 0x80deb1fe3b1696b1, 0x9bdc06a725c71235, 0xc19bf174cf692694,
  0xe49b69c19ef14ad2, 0xefbe4786384f25e3, 0x0fc19dc68b8cd5b5, 0x240ca1cc77ac9c65,
  0x2de92c6f592b0275, 0x4a7484aa6ea6e483, 0x5cb0a9dcbd41fbd4, 0x76f988da831153b5,
  0x983e5152ee66dfab, 0xa831c66d2db43210, 0xb00327c898fb213f, 0xbf597fc7beef0ee4,
  0xc6e00bf33da88fc2, 0xd5a79147930aa725, 0x06ca6351e003826f, 0x142929670a0e6e70,
  0x27b70a8546d22ffc, 0x2e1b21385c26c926, 0x4d2c6dfc5ac42aed, 0x53380d139d95b3df,
  0x650a73548baf63de, 0x766a0abb3c77b2a8, 0x81c2c92e47edaee6, 0x92722c851482353b,
  0xa2bfe8a14cf10364, 0xa81a664bbc423001, 0xc24b8b70d0f89791, 0xc76c51a30654be30,
  0xd192e819d6ef5218, 0xd69906245565a910, 0xf40e35855771202a, 0x106aa07032bbd1b8,
  0x19a4c116b8d2d0c8, 0x1e376c085141ab53, 0x2748774cdf8eeb99, 0x34b0bcb5e19b48a8,
  0x391c0cb3c5c95a63, 0x4ed8aa4ae3418acb, 0x5b9cca4f7763e373, 0x682e6ff3d6b2b8a3,
  0x748f82ee5defb2fc, 0x78a5636f43172f60, 0x84c87814a1f0ab72, 0x8cc702081a6439ec,
  0x90befffa23631e28, 0xa4506cebde82bde9, 0xbef9a3f7b2c67915, 0xc67178f2e372532b,
  0xca273eceea26619c, 0xd186b8c721c0c207, 0xeada7dd6cde0eb1e, 0xf57d4f7fee6ed178,
  0x06f067aa72176fba, 0x0a637dc5a2c898a6, 0x113f9804bef90dae, 0x1b710b35131c471b,
  0x28db77f523047d84, 0x32caab7b40c72493, 0x3c9ebe0a15c9bebc, 0x431d67c49c100d4c,
  0x4cc5d4becb3e42b6, 0x597f299cfc657e2a, 0x5fcb6fab3ad6faec, 0x6c44198c4a475817]

structure S512 where
  a : UInt64
  b : UInt64
  c : UInt64
  d : UInt64
  e : UInt64
  f : UInt64
  g : UInt64
  h : UInt64

def iv512 : S512 :=
  ⟨  0x6a09e667f3bcc908, 0xbb67ae8584caa73b, 0x3c6ef372fe94f82b, 0xa54ff53a5f1d36f1,
  0x510e527fade682d1, 0x9b05688c2b3e6c1f, 0x1f83d9abfb41bd6b, 0x5be0cd19137e2179⟩

def iv384 : S512 :=
  ⟨  0xcbbb9d5dc1059ed8, 0x629a292a367cd507, 0x9159015a3070dd17, 0x152fecd8f70e5939,
  0x67332667ffc00b31, 0x8eb44a8768581511, 0xdb0c2e0d64f98fa7, 0x47b5481dbefa4fa4⟩

/-- Message schedule of the 128-byte block at byte offset `off`: 80 words. -/
def sched512 (ba : ByteArray) (off : Nat) : Array UInt64 :=
  let w := Nat.fold 16 (fun i _ (w : Array UInt64) => w.push (be64At ba (off + 8 * i))) (Array.mkEmpty 80)
  Nat.fold 64 (fun j _ (w : Array UInt64) =>
    let x15 := w[j + 1]!
    let x2 := w[j + 14]!
    let s0 := rotr64 x15 1 ^^^ rotr64 x15 8 ^^^ (x15 >>> 7)
    let s1 := rotr64 x2 19 ^^^ rotr64 x2 61 ^^^ (x2 >>> 6)
    w.push (w[j]! + s0 + w[j + 9]! + s1)) w

def rounds512 (w : Array UInt64) : (fuel i : Nat) → (a b c d e f g h : UInt64) → S512
  | 0, _, a, b, c, d, e, f, g, h => ⟨a, b, c, d, e, f, g, h⟩
  | n+1, i, a, b, c, d, e, f, g, h =>
    let s1 := rotr64 e 14 ^^^ rotr64 e 18 ^^^ rotr64 e 41
    let ch := (e &&& f) ^^^ (~~~e &&& g)
    let t1 := h + s1 + ch + k512[i]! + w[i]!
    let s0 := rotr64 a 28 ^^^ rotr64 a 34 ^^^ rotr64 a 39
    let mj := (a &&& b) ^^^ (a &&& c) ^^^ (b &&& c)
    let t2 := s0 + mj
    rounds512 w n (i+1) (t1 + t2) a b c (d + t1) e f g

def compress512 (ba : ByteArray) (off : Nat) (s : S512) : S512 :=
  let t := rounds512 (sched512 ba off) 80 0 s.a s.b s.c s.d s.e s.f s.g s.h
  ⟨s.a + t.a, s.b + t.b, s.c + t.c, s.d + t.d, s.e + t.e, s.f + t.f, s.g + t.g, s.h + t.h⟩

def blocks512 (ba : ByteArray) : (n off : Nat) → S512 → S512
  | 0, _, s => s
  | n+1, off, s => blocks512 ba n (off + 128) (compress512 ba off s)

/-- The SHA-512 compression chain over the padded message, from initial value `iv`. -/
def sha512Core (iv : S512) (m : Bytes) : S512 :=
  let ba := mdPad m 128 16
  blocks512 ba (ba.size / 128) 0 iv

/-- SHA-512 (`crypto/sha512.Sum512`); not used by go-fdo, kept because it is free. -/
def sha512 (m : Bytes) : Bytes :=
  let s := sha512Core iv512 m
  be64 s.a ++ be64 s.b ++ be64 s.c ++ be64 s.d ++ be64 s.e ++ be64 s.f ++ be64 s.g ++ be64 s.h

/-- SHA-384 (`crypto/sha512.Sum384`): the SHA-512 core from `iv384`, truncated to 48 bytes. -/
def sha384 (m : Bytes) : Bytes :=
  let s := sha512Core iv384 m
  be64 s.a ++ be64 s.b ++ be64 s.c ++ be64 s.d ++ be64 s.e ++ be64 s.f

end Fdo.Prim
