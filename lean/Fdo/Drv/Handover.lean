import Fdo.Proto.Handover
namespace Fdo.Drv.Handover
open Fdo Fdo.Proto

def render (h : Hdr) : String :=
  let c := match h.certChainHash with
    | some c => hexOrDash c
    | none => "none"
  s!"{h.version} {hexOrDash h.guid} {hexOrDash h.rvInfo} {hexOrDash h.devInfo} {hexOrDash h.mfgKey} {c}"

/-- `handover.to2 <version> <guid> <rvinfo> <devinfo> <mfgkey> <cch|none> <replGuid> <sessRvInfo> <ownerKey>`:
fields of the current header, the owner session and the derived owner key (all as hex of their
encodings) → the header fields the device MACs and the owner stores (must coincide). -/
def handle (cmd : String) (args : List String) : Option String :=
  match cmd, args with
  | "handover.to2", [ver, guid, rv, info, mk, cch, rg, srv, ok] => do
    let ver ← ver.toNat?
    let cur : Hdr := { version := ver, guid := (← ofHex guid), rvInfo := (← ofHex rv), devInfo := (← ofHex info),
                       mfgKey := (← ofHex mk), certChainHash := if cch == "none" then none else ofHex cch }
    let s : OwnerSession := { replacementGuid := (← ofHex rg), rvInfo := (← ofHex srv) }
    let okey ← ofHex ok
    let d := deviceReplacementHdr cur (setupOf s okey)
    let o := ownerReplacementHdr cur s okey
    some s!"device {render d} owner {render o}"
  | _, _ => none

end Fdo.Drv.Handover
