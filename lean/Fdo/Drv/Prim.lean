import Fdo.Prim.Sha2
import Fdo.Prim.Hmac
import Fdo.Prim.Aes
import Fdo.Prim.Modes
import Fdo.Prim.Gcm
/-!
Line-protocol glue for the symmetric primitives (`prim.` prefix).  All arguments are hex,
`-` is the empty string.  Replies:

* `prim.sha256 m`, `prim.sha384 m`, `prim.sha512 m`, `prim.hmac256 k m`, `prim.hmac384 k m` → `<hex>`
* `prim.aes.enc k b`, `prim.aes.dec k b`, `prim.ctr k iv d`, `prim.cbc.enc k iv d`,
  `prim.cbc.dec k iv d` → `<hex>` (or `-`), `err` for a bad key/IV/block/data length
* `prim.pad d` → `<hex>` (block size 16); `prim.padn n d` (decimal block size `n`) → `ok <hex>` | `panic`
* `prim.unpad d` → `ok <hex>` | `err`
* `prim.fdo.cbc.enc k iv p` (go-fdo `cbcCrypter.Encrypt`: pad then CBC) → `<hex>` | `err`;
  `prim.fdo.cbc.dec k iv c` (go-fdo `cbcCrypter.Decrypt`: CBC then unpad) → `ok <hex>` | `panic`
* `prim.gcm.seal k n a p` → `<hex>` | `err` (bad key/nonce length)
* `prim.gcm.open k n a c` → `ok <hex>` | `fail` (authentication) | `err` (bad key/nonce length)
-/
namespace Fdo.Drv.Prim
open Fdo Fdo.Prim

/-- Tail-recursive hex parser.  `Fdo.ofHex` recurses once per byte and would exhaust the stack
on the megabyte inputs used for throughput measurements; `ofHexFast_eq_ofHex` in
`Fdo/Prim/Proofs.lean` shows both parse the same language to the same bytes. -/
def ofHexLoop : List Char → ByteArray → Option ByteArray
  | [], acc => some acc
  | [_], _ => none
  | a :: b :: r, acc =>
    match hexVal a, hexVal b with
    | some x, some y => ofHexLoop r (acc.push (UInt8.ofNat (x * 16 + y)))
    | _, _ => none

def ofHexFast (s : String) : Option Bytes :=
  if s == "-" then some []
  else (ofHexLoop s.toList (ByteArray.emptyWithCapacity (s.length / 2))).map (·.data.toList)

private def optHex : Option Bytes → String
  | none => "err"
  | some b => hexOrDash b

def handle (cmd : String) (args : List String) : Option String :=
  match cmd, args with
  | "prim.sha256", [m] => do some (toHex (sha256 (← ofHexFast m)))
  | "prim.sha384", [m] => do some (toHex (sha384 (← ofHexFast m)))
  | "prim.sha512", [m] => do some (toHex (sha512 (← ofHexFast m)))
  | "prim.hmac256", [k, m] => do some (toHex (hmacSha256 (← ofHexFast k) (← ofHexFast m)))
  | "prim.hmac384", [k, m] => do some (toHex (hmacSha384 (← ofHexFast k) (← ofHexFast m)))
  | "prim.aes.enc", [k, b] => do some (optHex (aesEncryptBlock? (← ofHexFast k) (← ofHexFast b)))
  | "prim.aes.dec", [k, b] => do some (optHex (aesDecryptBlock? (← ofHexFast k) (← ofHexFast b)))
  | "prim.ctr", [k, iv, d] => do some (optHex (aesCtr? (← ofHexFast k) (← ofHexFast iv) (← ofHexFast d)))
  | "prim.cbc.enc", [k, iv, d] => do some (optHex (aesCbcEncrypt (← ofHexFast k) (← ofHexFast iv) (← ofHexFast d)))
  | "prim.cbc.dec", [k, iv, d] => do some (optHex (aesCbcDecrypt (← ofHexFast k) (← ofHexFast iv) (← ofHexFast d)))
  | "prim.pad", [d] => do some (hexOrDash (pad (← ofHexFast d) 16))
  | "prim.padn", [n, d] => do
    let bs ← n.toNat?
    match pad? (← ofHexFast d) bs with
    | none => some "panic"
    | some r => some s!"ok {hexOrDash r}"
  | "prim.unpad", [d] => do
    match unpad (← ofHexFast d) with
    | none => some "err"
    | some r => some s!"ok {hexOrDash r}"
  | "prim.fdo.cbc.enc", [k, iv, d] => do some (optHex (fdoCbcEncrypt (← ofHexFast k) (← ofHexFast iv) (← ofHexFast d)))
  | "prim.fdo.cbc.dec", [k, iv, d] => do
    match fdoCbcDecrypt (← ofHexFast k) (← ofHexFast iv) (← ofHexFast d) with
    | none => some "panic"
    | some r => some s!"ok {hexOrDash r}"
  | "prim.gcm.seal", [k, n, a, p] => do
    some (optHex (gcmSeal? (← ofHexFast k) (← ofHexFast n) (← ofHexFast a) (← ofHexFast p)))
  | "prim.gcm.open", [k, n, a, c] => do
    let k ← ofHexFast k
    let n ← ofHexFast n
    if !gcmParamsOk k n then some "err" else
    match gcmOpen k n (← ofHexFast a) (← ofHexFast c) with
    | none => some "fail"
    | some r => some s!"ok {hexOrDash r}"
  | _, _ => none

end Fdo.Drv.Prim
