import Fdo.Proto.Endpoint
/-
Line protocol for the endpoint robustness model (C10).  A trailing `0` on a command selects the
model of the tree as found.

  c10.route  <methodhex> <pathhex> <authhex> <mask>   http405 | http404 | err255 | silent200 | responder:<t> | type0
  c10.herr   <prevMsgType> <mask>                     ok | panic:<site>
  c10.bearer <headerhex>                              absent | invalid | token:<hex>
  c10.gate   <contentLength> <max> <actual>           too-large | unspecified | read:<bytes>
  c10.ovnext <entries> <n>                            ok:<index> | err | panic:<site>
  c10.devmod <msg>…        msg = n <int> | c <start> <len> <namehex,…|->  (_ = empty name)     ok:<hex,…> | err | panic:<site>
  c10.hashalg <dev> <own>  kinds p256 p384 ec rsa:<bytes> other               ok:<bits> | err | panic:<site>
  c10.chunks <cap> <keyhex|null>…                     ok:<pipes queued> | err | panic:<site> | hang:<site>
  c10.payload <0|1>   c10.mfginfo <0|1>               ok | err | panic:<site>
  c10.x5chain <cert|null>…                            ok | err | panic:<site>
-/
namespace Fdo.Drv.Endpoint
open Fdo Fdo.Proto.Endpoint

def outcomeStr {α : Type} (f : α → String) : Outcome α → String
  | .ok a => s!"ok{f a}"
  | .err => "err"
  | .panic s => s!"panic:{s.replace " " "_"}"
  | .hang s => s!"hang:{s.replace " " "_"}"

def routeStr : Route → String
  | .http405 => "http405"
  | .http404 => "http404"
  | .err255 => "err255"
  | .silent200 => "silent200"
  | .responder t => s!"responder:{t}"
  | .type0 => "type0"
  | .panic s => s!"panic:{s.replace " " "_"}"

def parseDevmod : List String → Option (List DevmodMsg)
  | [] => some []
  | "n" :: v :: r => do
    let n ← v.toInt?
    let t ← parseDevmod r
    pure (.num n :: t)
  | "c" :: s :: l :: names :: r => do
    let s ← s.toInt?
    let l ← l.toInt?
    let names ← if names == "-" then some [] else
      (names.splitOn ",").mapM (fun h => if h == "_" then some "" else
        (ofHex h).bind (fun b => String.fromUTF8? (ByteArray.mk b.toArray)))
    let t ← parseDevmod r
    pure (.chunk s l names :: t)
  | _ => none

def modsStr (ms : List String) : String :=
  ":" ++ ",".intercalate (ms.map fun m => if m.isEmpty then "_" else toHex m.toUTF8.toList)

def runDevmod (step : List String → DevmodMsg → Outcome (List String)) (mods : List String) :
    List DevmodMsg → Outcome (List String)
  | [] => .ok mods
  | m :: r =>
    match step mods m with
    | .ok mods' => runDevmod step mods' r
    | o => o

def parseKind (s : String) : Option KeyKind :=
  match s with
  | "p256" => some .p256
  | "p384" => some .p384
  | "ec" => some .ecOther
  | "other" => some .other
  | _ => if s.startsWith "rsa:" then (s.drop 4).toString.toNat?.map KeyKind.rsa else none

def parseKeys : List String → Option (List (Option String))
  | [] => some []
  | "null" :: r => (parseKeys r).map (none :: ·)
  | h :: r => do
    let b ← ofHex h
    let s ← String.fromUTF8? (ByteArray.mk b.toArray)
    let t ← parseKeys r
    pure (some s :: t)

def runChunks (step : ChunkWriter → Option String → Outcome ChunkWriter) (w : ChunkWriter) :
    List (Option String) → Outcome ChunkWriter
  | [] => .ok w
  | kv :: r =>
    match step w kv with
    | .ok w' => runChunks step w' r
    | o => o

def gateStr (a : Gate) (actual : Nat) : String :=
  match a with
  | .tooLarge => "too-large"
  | .unspecified => "unspecified"
  | _ => s!"read:{bytesRead a actual}"

def handle (cmd : String) (args : List String) : Option String :=
  match cmd, args with
  | "c10.route", [m, p, a, mask] => do
    some (routeStr (route (← ofHex m) (← ofHex p) (← ofHex a) (← mask.toNat?)))
  | "c10.route0", [m, p, a, mask] => do
    some (routeStr (routeV0 (← ofHex m) (← ofHex p) (← ofHex a) (← mask.toNat?)))
  | "c10.herr", [prev, mask] => do
    some (outcomeStr (fun _ => "") (handleError (← prev.toNat?) (← mask.toNat?)))
  | "c10.herr0", [prev, mask] => do
    some (outcomeStr (fun _ => "") (handleErrorV0 (← prev.toNat?) (← mask.toNat?)))
  | "c10.bearer", [h] => do
    match bearer (← ofHex h) with
    | .absent => some "absent"
    | .invalid => some "invalid"
    | .token t => some s!"token:{hexOrDash t}"
  | "c10.gate", [cl, mx, actual] => do
    some (gateStr (clGate (← cl.toInt?) (← mx.toInt?)) (← actual.toNat?))
  | "c10.ovnext", [len, n] => do
    some (outcomeStr (fun i => s!":{i}") (ovNextEntry (← len.toNat?) (← n.toInt?)))
  | "c10.ovnext0", [len, n] => do
    some (outcomeStr (fun i => s!":{i}") (ovNextEntryV0 (← len.toNat?) (← n.toInt?)))
  | "c10.devmod", script => do
    some (outcomeStr modsStr (runDevmod devmodStep [] (← parseDevmod script)))
  | "c10.devmod0", script => do
    some (outcomeStr modsStr (runDevmod devmodStepV0 [] (← parseDevmod script)))
  | "c10.hashalg", [d, o] => do
    some (outcomeStr (fun b => s!":{b}") (hashAlgFor (← parseKind d) (← parseKind o)))
  | "c10.hashalg0", [d, o] => do
    some (outcomeStr (fun b => s!":{b}") (hashAlgForV0 (← parseKind d) (← parseKind o)))
  | "c10.chunks", cap :: keys => do
    some (outcomeStr (fun w => s!":{w.queued}") (runChunks writeChunk (ChunkWriter.fresh (← cap.toNat?)) (← parseKeys keys)))
  | "c10.chunks0", cap :: keys => do
    some (outcomeStr (fun w => s!":{w.queued}") (runChunks writeChunkV0 (ChunkWriter.fresh (← cap.toNat?)) (← parseKeys keys)))
  | "c10.x5chain", certs =>
    some (outcomeStr (fun _ => "") (x5chainKey (certs.map fun c => if c == "null" then none else some 1)))
  | "c10.x5chain0", certs =>
    some (outcomeStr (fun _ => "") (x5chainKeyV0 (certs.map fun c => if c == "null" then none else some 1)))
  | "c10.payload", [p] => some (outcomeStr (fun _ => "") (proofPayload (if p == "1" then some [] else none)))
  | "c10.payload0", [p] => some (outcomeStr (fun _ => "") (proofPayloadV0 (if p == "1" then some [] else none)))
  | "c10.mfginfo", [p] => some (outcomeStr (fun _ => "") (signDeviceCertificate (if p == "1" then some [] else none)))
  | "c10.mfginfo0", [p] => some (outcomeStr (fun _ => "") (signDeviceCertificateV0 (if p == "1" then some [] else none)))
  | _, _ => none

end Fdo.Drv.Endpoint
