import Fdo.Proto.TO1
import Fdo.Drv.Voucher
namespace Fdo.Drv.TO1
open Fdo Fdo.Cbor Fdo.Cose Fdo.Proto

instance : BEq TO1Result := ⟨fun a b => decide (a = b)⟩

def tokSchema := Fdo.Gen.Schemas.s_Sign1Tag_Raw_

structure Tok where
  view : ProofView
  prot : List (Val × AnyVal)
  payloadBytes : Option Bytes
  sig : Bytes

def decodeTok (h : String) : Option Tok := do
  let bs ← ofHex h
  let (v, _) ← decodeS (fun _ => true) (2 * bs.length + 64) maxDepth tokSchema bs
  match v with
  | .tag _ (.strct [.hdr pm _, pay, .bytes sig]) =>
    match pay with
    | .ref (.raw pb) =>
      let claims := match unmarshalS (fun _ => true) Fdo.Gen.Schemas.s_EAT pb with
        | some (.map ps) => some ps
        | _ => none
      some { view := ⟨true, claims⟩, prot := pm, payloadBytes := some pb, sig := sig }
    | _ => some { view := ⟨false, none⟩, prot := pm, payloadBytes := none, sig := sig }
  | _ => none

def handle (cmd : String) (args : List String) : Option String :=
  match cmd, args with
  | "to1.view", [h] =>
    match decodeTok h with
    | none => some "err"
    | some t =>
      let g := match t.view.claims with
        | some cl => match claimBytes cl 256 with
          | some u => hexOrDash u.tail
          | none => "none"
        | none => "none"
      some s!"ok guid={g}"
  /- to1.redirect <msg> <session nonce|none> <live registration for the claimed guid: 0/1> <device key kind|none> <now> -/
  | "to1.redirect", [h, nonce, live, kind] => do
    let sn : Option Bytes ← if nonce == "none" then some none else (ofHex nonce).map some
    match decodeTok h with
    | none => some "reject"
    | some t =>
      let dk : Option Bytes := if kind == "none" then none else some [1]
      let store : Bytes → Option Registration := fun _ => if live == "1" then some ⟨[0xb1], dk, 10⟩ else none
      let r1 := rvRedirect store 5 sn (fun _ => true) t.view
      let r0 := rvRedirect store 5 sn (fun _ => false) t.view
      if r1 == r0 then some (if r1 == .reject then "reject" else "release")
      else
        let out := sign1Verify Fdo.Gen.Cose.sigAlgs t.prot t.payloadBytes t.sig [] (Fdo.Drv.Voucher.kindOf kind)
        some s!"depends {Fdo.Drv.Voucher.outcomeStr out}"
  | _, _ => none

end Fdo.Drv.TO1
