import Fdo.Cbor.Typed
import Fdo.Gen.Schemas
namespace Fdo.Drv.Typed
open Fdo Fdo.Cbor

/-- `cbor.typed <wire type> <hex>`: stream-decode one item into the type, re-encode it.
Reply `ok <consumed> <re-encoding hex> <certs assumed valid, comma separated | ->` or `err`. -/
def handle (cmd : String) (args : List String) : Option String :=
  match cmd, args with
  | "cbor.typed", [name, h] => do
    let s ← Fdo.Gen.Schemas.byName name
    let bs ← ofHex h
    match decodeS (fun _ => true) (2 * bs.length + 64) maxDepth s bs with
    | none => some "err"
    | some (v, r) =>
      let re := match marshalS s v with
        | some b => hexOrDash b
        | none => "marshal-err"
      let cs := v.certs
      let cstr := if cs.isEmpty then "-" else ",".intercalate (cs.map fun c => if c.isEmpty then "e" else toHex c)
      some s!"ok {bs.length - r.length} {re} {cstr}"
  | _, _ => none

end Fdo.Drv.Typed
