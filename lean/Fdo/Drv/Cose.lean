import Fdo.Cose.Sign1
import Fdo.Gen.Schemas
import Fdo.Gen.Cose
import Fdo.Prim.Hmac
namespace Fdo.Drv.Cose
open Fdo Fdo.Cbor Fdo.Cose

def payloadSchema := Fdo.Cose.payloadSchemaOf

def natHex (n : Nat) : String := if n = 0 then "00" else toHex (natBE ((Nat.log2 n) / 8 + 1) n)

def keyKindOf : String → Option KeyKind
  | "ec32" => some (.ec 32)
  | "ec48" => some (.ec 48)
  | "ec66" => some (.ec 66)
  | "rsa" => some .rsa
  | "other" => some .other
  | _ => none

def handle (cmd : String) (args : List String) : Option String :=
  match cmd, args with
  /- cose.verify <wire type> <key kind> <aad hex> <detached payload encoding hex | none> <Sign1Tag hex> -/
  | "cose.verify", [ty, kk, aadh, deth, h] => do
    let s ← Fdo.Gen.Schemas.byName ty
    let ps ← payloadSchema s
    let k ← keyKindOf kk
    let aad ← ofHex aadh
    let bs ← ofHex h
    match unmarshalS (fun _ => true) s bs with
    | some (.tag _ (.strct [.hdr pm _, pay, .bytes sig])) =>
      let plBytes : Option (Option Bytes) :=
        if deth != "none" then (ofHex deth).map some
        else match pay with
          | .ref v => (marshalS ps v).map some
          | _ => some none
      match plBytes with
      | none => some "bad-op"
      | some pl =>
        match sign1Verify Fdo.Gen.Cose.sigAlgs pm pl sig aad k with
        | .ecdsa bits tbs r s => some s!"ecdsa {bits} {hexOrDash tbs} {natHex r} {natHex s}"
        | .rsa pad bits tbs sg => some s!"rsa {if pad == .pss then "pss" else "pkcs"} {bits} {hexOrDash tbs} {hexOrDash sg}"
        | .reject => some "reject"
        | .panic site => some s!"panic:{site}"
    | _ => some "err"
  /- cose.mac0 <alg> <key hex> <aad hex> <Mac0Tag hex>: the tag value Digest must produce -/
  | "cose.mac0", [ty, alg, keyh, aadh, h] => do
    let s ← Fdo.Gen.Schemas.byName ty
    let ps ← payloadSchema s
    let key ← ofHex keyh
    let aad ← ofHex aadh
    let bs ← ofHex h
    let alg ← alg.toInt?
    match unmarshalS (fun _ => true) s bs with
    | some (.tag _ (.strct [.hdr pm _, .ref v, .bytes _])) =>
      let pl ← marshalS ps v
      -- Digest sets the algorithm in the protected header before computing the structure
      let pm' := vmapSet pm (.int 1) (.int alg)
      let tbs := toBeSigned ctxMac0 (encProtected pm') aad pl
      if alg = 5 then some (toHex (Fdo.Prim.hmacSha256 key tbs))
      else if alg = 6 then some (toHex (Fdo.Prim.hmacSha384 key tbs))
      else some "unsupported"
    | _ => some "err"
  | _, _ => none

end Fdo.Drv.Cose
