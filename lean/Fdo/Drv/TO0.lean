import Fdo.Proto.TO0
import Fdo.Drv.Voucher
namespace Fdo.Drv.TO0
open Fdo Fdo.Cbor Fdo.Cose Fdo.Proto

def osSchema := Fdo.Gen.Schemas.s_TO0_OwnerSign

def decodeMsg (h : String) : Option (Val × OwnerSignView) := do
  let bs ← ofHex h
  -- the responder stream-decodes one item from the body; trailing bytes are not looked at
  let (v, _) ← decodeS (fun _ => true) (2 * bs.length + 64) maxDepth osSchema bs
  let m ← ownerSignView osSchema v
  pure (v, m)

def hashFunc (alg : Int) : Option (Bytes → Bytes) := hashFuncOf Fdo.Prim.sha256 Fdo.Prim.sha384 alg

def policyOf (s : String) : Option Policy :=
  if s == "none" then some none
  else if s == "half" then some (some fun r => some (r / 2))
  else if s == "err" then some (some fun _ => none)
  else if s.startsWith "const:" then (s.drop 6).toString.toNat?.map fun n => some fun _ => some n
  else none

def handle (cmd : String) (args : List String) : Option String :=
  match cmd, args with
  | "to0.view", [h] =>
    match decodeMsg h with
    | none => some "err"
    | some (v, m) =>
      let cs := v.certs
      let cstr := if cs.isEmpty then "-" else ",".intercalate (cs.map fun c => if c.isEmpty then "e" else toHex c)
      some (s!"ok certs={cstr} " ++ " ".intercalate ((m.voucher.mfgKey :: m.voucher.entries.map (·.pubKey)).map hexOrDash))
  | "to0.obls", [h, kinds] =>
    match decodeMsg h with
    | none => some "err"
    | some (_, m) =>
      let ks := kinds.splitOn ","
      let obls := verifyEntriesObls Fdo.Gen.Cose.sigAlgs Fdo.Prim.sha256 Fdo.Prim.sha384 m.voucher
      let ownerKind := Fdo.Drv.Voucher.kindOf (ks.getD m.voucher.entries.length "other")
      let sig := sign1Verify Fdo.Gen.Cose.sigAlgs m.to1dProt (if m.to1dPresent then some m.to1dPayloadBytes else none) m.to1dSig [] ownerKind
      some s!"ok owner={hexOrDash (ownerKey m.voucher)} sig={Fdo.Drv.Voucher.outcomeStr sig} entries={";".intercalate (Fdo.Drv.Voucher.oblsStr ks obls 0)}"
  | "to0.accept", [h, eok, sok, nonce, pol, now] => do
    let policy ← policyOf pol
    let now ← now.toNat?
    let sn : Option Bytes ← if nonce == "none" then some none else (ofHex nonce).map some
    match decodeMsg h with
    | none => some "reject"
    | some (_, m) =>
      match acceptOwner hashFunc (fun _ => eok == "1") (fun _ _ => sok == "1") sn policy now m with
      | .accept ttl exp => some s!"accept ttl={ttl} exp={exp} guid={hexOrDash m.voucher.guid}"
      | .reject => some "reject"
  | _, _ => none

end Fdo.Drv.TO0
