import Fdo.Svc.Chunk
/-
Line protocol for the chunking model.

  chunk.run  <mtu> <script>            the committed (repaired) behaviour
  chunk.run0 <mtu> <script>            the tree as found (`Variant.original`)
  chunk.runv <l> <s> <mtu> <script>    l = 1: original key limit (size-7 as uint16), 0: fixed limit;
                                       s = 1: forced break skipped while the message is empty
  chunk.reads  <sizes> <script>        `ReadChunk` called with the given sizes (comma separated) in turn
  chunk.reads0 <sizes> <script>

<script> is a token list: `m <keyhex> <bodyhex>` for NextServiceInfo + body, `y` for
ForceNewMessage ("-" is the empty byte string).  `<mtu>` is the budget handed to
`exchangeServiceInfoRound`.

Reply of the run commands (one line):
  b=<more>:<key>=<val>,…;<more>:…   the DeviceServiceInfo messages ("-" none, "<more>:-" empty)
  r=<key>=<body>,…                  what UnchunkReader delivers for the flattened chunks, or r=panic
  e=ok|stopped|fail|fuel            how the round ended
  left=<n>                          body bytes still in the pipe afterwards
-/
namespace Fdo.Drv.Chunk
open Fdo Fdo.Svc.Chunk

def parseScript : List String → Option Script
  | [] => some []
  | "y" :: r => do let s ← parseScript r; pure (.yield :: s)
  | "m" :: k :: b :: r => do
    let k ← ofHex k
    let b ← ofHex b
    let s ← parseScript r
    pure (.msg k b :: s)
  | _ => none

def sep (s : String) : List String → String
  | [] => "-"
  | xs => s.intercalate xs

def kvText (c : KV) : String := s!"{hexOrDash c.key}={hexOrDash c.val}"

def batchText (b : Batch) : String :=
  (if b.more then "1:" else "0:") ++ sep "," (b.kvs.map kvText)

def reasmText : Reassembled → String
  | .panic => "panic"
  | .ok ms => sep "," (ms.map fun (k, v) => s!"{hexOrDash k}={hexOrDash v}")

def endText : End → String
  | .done => "ok"
  | .stopped => "stopped"
  | .failed => "fail"
  | .fuel => "fuel"

def runText (V : Variant) (mtu : Nat) (s : Script) : String :=
  let r := allBatches V mtu s
  s!"b={sep ";" (r.batches.map batchText)} r={reasmText (reassemble (flatten r.batches))} e={endText r.fin} left={r.st.weight}"

def resText : Res → String
  | .kv c => kvText c
  | .eof => "eof"
  | .tooSmall => "small"
  | .fail => "fail"

def reads (V : Variant) : List Nat → St → List String
  | [], _ => []
  | n :: ns, st =>
    let r := readChunk V st n
    resText r.1 :: reads V ns r.2

def parseSizes (s : String) : Option (List Nat) :=
  if s == "-" then some [] else (s.splitOn ",").mapM String.toNat?

def variant (l s : String) : Option Variant :=
  match l, s with
  | "0", "0" => some ⟨fun _ => 65535, false⟩
  | "0", "1" => some Variant.repaired
  | "1", "0" => some Variant.original
  | "1", "1" => some ⟨wrap16sub7, true⟩
  | _, _ => none

def handle (cmd : String) (args : List String) : Option String :=
  match cmd, args with
  | "chunk.run", mtu :: toks => do
    let s ← parseScript toks
    pure (runText .repaired (← mtu.toNat?) s)
  | "chunk.run0", mtu :: toks => do
    let s ← parseScript toks
    pure (runText .original (← mtu.toNat?) s)
  | "chunk.runv", l :: sk :: mtu :: toks => do
    let V ← variant l sk
    let s ← parseScript toks
    pure (runText V (← mtu.toNat?) s)
  | "chunk.reads", sizes :: toks => do
    let s ← parseScript toks
    pure (sep "," (reads .repaired (← parseSizes sizes) (St.init s)))
  | "chunk.reads0", sizes :: toks => do
    let s ← parseScript toks
    pure (sep "," (reads .original (← parseSizes sizes) (St.init s)))
  | _, _ => none

end Fdo.Drv.Chunk
