import Fdo.Rv
import Fdo.RvSpec
/-
Line protocol for the rendezvous interpreter.
  rv.parse dev|own <n> <var> <hexvalue> …   model of parseDirective  → `ok <fields>` | `dropped` | `panic:<site>`
  rv.spec  dev|own <n> <var> <hexvalue> …   reference interpreter    → same reply form
  rv.urls  dev|own <n> <var> <hexvalue> …   model of parseURLs       → `urls=[…]`
  rv.shift <hex>                            model of cbor.ArrayShift → `ok <first> <rest>` | `fail`
  rv.dec u8|u16|u32|i64|str|bytes|hash <hex> typed cbor.Unmarshal     → `<stored> ok|err`
-/
namespace Fdo.Drv.Rv
open Fdo Fdo.Rv

def parseInstrs : Nat → List String → Option (List RvInstr)
  | 0, [] => some []
  | n+1, v :: h :: r => do
    let v ← v.toNat?
    let b ← ofHex h
    let t ← parseInstrs n r
    pure (⟨v, b⟩ :: t)
  | _, _ => none

def optNat : Option Nat → String
  | none => "-"
  | some n => toString n

def hashText : Option (Int × Bytes) → String
  | none => "-"
  | some (a, v) => s!"{a}:{hexOrDash v}"

def urlText (u : Url) : String := s!"{u.scheme.text}|{hexOrDash u.hostText}"

def urlsText (us : List Url) : String := "[" ++ ",".intercalate (us.map urlText) ++ "]"

def dirText (d : Directive) : String :=
  s!"urls={urlsText d.urls} bypass={if d.bypass then 1 else 0} eth={optNat d.eth} wlan={optNat d.wlan} " ++
  s!"ssid={hexOrDash d.ssid} pass={hexOrDash d.pass} mech={hexOrDash d.extMech} args={hexOrDash d.extArgs} " ++
  s!"delay={d.delay} sv={hashText d.svCert} cl={hashText d.clCert}"

def outcomeText : Outcome → String
  | .ok d => "ok " ++ dirText d
  | .dropped => "dropped"
  | .panic s => "panic:" ++ s

def role : String → Option Bool
  | "dev" => some true
  | "own" => some false
  | _ => none

def decText {α : Type} (f : α → String) (d : Dec α) : String :=
  (match d.stored with | none => "-" | some v => f v) ++ (if d.ok then " ok" else " err")

def handle (cmd : String) (args : List String) : Option String :=
  match cmd, args with
  | "rv.parse", r :: n :: rest => do
    let dev ← role r
    let is ← parseInstrs (← n.toNat?) rest
    some (outcomeText (parseDirective dev is))
  | "rv.spec", r :: n :: rest => do
    let dev ← role r
    let is ← parseInstrs (← n.toNat?) rest
    some (outcomeText (Fdo.RvSpec.specDirective dev is))
  | "rv.urls", r :: n :: rest => do
    let dev ← role r
    let is ← parseInstrs (← n.toNat?) rest
    some ("urls=" ++ urlsText (parseURLs dev is))
  | "rv.shift", [h] => do
    let b ← ofHex h
    match arrayShift b with
    | .fail => some "fail"
    | .ok f r => some s!"ok {hexOrDash f} {hexOrDash r}"
  | "rv.dec", [ty, h] => do
    let b ← ofHex h
    match ty with
    | "u8" => some (decText toString (unmarshalUint 255 b))
    | "u16" => some (decText toString (unmarshalUint 65535 b))
    | "u32" => some (decText toString (unmarshalUint 4294967295 b))
    | "i64" => some (decText toString (unmarshalInt64 b))
    | "str" => some (decText hexOrDash (unmarshalStr b))
    | "bytes" => some (decText hexOrDash (unmarshalBytes b))
    | "hash" =>
      -- a struct target may be left partially filled on error; rv.go never looks at it then
      let d := unmarshalHash b
      some (decText (fun h => hashText (some h)) ⟨d.val, d.ok⟩)
    | _ => none
  | _, _ => none

end Fdo.Drv.Rv
