import Fdo.Svc.Pipeline
namespace Fdo.Drv.Pipeline
open Fdo Fdo.Svc.Pipeline

def parseAct (t : String) : Option Act :=
  if t == "n" then some .next
  else if t == "y" then some .yield
  else if t.startsWith "w" then (ofHex (t.drop 1).toString).map .write
  else none

def scriptCostD : List Act → Nat
  | [] => 0
  | .write b :: r => b.length + 1 + scriptCostD r
  | _ :: r => 4 + scriptCostD r

/-- `pipe.run <cap> <seed> <act>…`: run the two-party model under the pseudo-random schedule `seed`. -/
def handle (cmd : String) (args : List String) : Option String :=
  match cmd, args with
  | "pipe.run", cap :: seed :: toks => do
    let cap ← cap.toNat?
    let seed ← seed.toNat?
    let script ← toks.mapM parseAct
    -- `pipeline_terminates`: no schedule is longer than the measure of the initial state
    let fuel := scriptCostD script + 8
    let (s, maxq) := runSched fuel seed (St.init cap script) 0
    if s.mDone ∧ s.tDone then
      let pipes := s.out.foldl (fun n e => match e with | .pipe _ => n + 1 | _ => n) 0
      some s!"final {hexOrDash (evBytes s.out)} pipes={pipes} maxq={maxq}"
    else some s!"stuck maxq={maxq}"
  | _, _ => none

end Fdo.Drv.Pipeline
