import Fdo.Kex.Crypter
import Fdo.Kex.Wire
import Fdo.Gen.Kex
import Fdo.Gen.Schemas
import Fdo.Prim.Gcm
import Fdo.Prim.Modes
import Fdo.Prim.Hmac
namespace Fdo.Drv.Tunnel
open Fdo Fdo.Cbor Fdo.Cose Fdo.Kex

def prims : Prims :=
  { aeadOpen := Fdo.Prim.gcmOpen
    aeadSeal := Fdo.Prim.gcmSeal?
    ctr := Fdo.Prim.aesCtr?
    cbcDec := Fdo.Prim.aesCbcDecrypt
    cbcEnc := Fdo.Prim.aesCbcEncrypt
    mac := fun alg k m =>
      if alg = 5 then some (Fdo.Prim.hmacSha256 k m)
      else if alg = 6 then some (Fdo.Prim.hmacSha384 k m) else none }

def kindOfAlg (alg : Int) : Option EncKind :=
  if alg = 1 ∨ alg = 2 ∨ alg = 3 then some .aead
  else if alg = -65534 ∨ alg = -65533 ∨ alg = -65532 then some .ctr
  else if alg = -65531 ∨ alg = -65530 ∨ alg = -65529 then some .cbc
  else none

def suiteOf (id : Int) : Option Suite := do
  let row ← Fdo.Gen.Kex.cipherSuites.find? (fun r => r.id = id)
  let k ← kindOfAlg row.encAlg
  pure { encAlg := row.encAlg, kind := k, encKeyBytes := row.encKeyBytes, macAlg := row.macAlg, macKeyBytes := row.macKeyBytes }

/-- `SessionCrypter.Decrypt(r)` with the Lean primitives (`Fdo.Kex.decryptWire`) -/
def decrypt (s : Suite) (sek svk wire : Bytes) : Dec := decryptWire prims s sek svk wire

/-- `SessionCrypter.Encrypt` followed by `cbor.Marshal` of the tagged result, for the random bytes `rnd`. -/
def encrypt (s : Suite) (sek svk rnd p : Bytes) : Option Bytes := encryptWire prims s sek svk rnd p

def handle (cmd : String) (args : List String) : Option String :=
  match cmd, args with
  | "tunnel.encrypt", [id, sek, svk, rnd, pt] => do
    let id ← id.toInt?
    let s ← suiteOf id
    let sek ← ofHex sek
    let svk ← ofHex svk
    let rnd ← ofHex rnd
    let pt ← ofHex pt
    match encrypt s sek svk rnd pt with
    | some w =>
      -- the model's own receiver must open what the model's sender built (executable instance of decrypt_encrypt)
      match decrypt s sek svk w with
      | .ok q =>
        let hyp := if wireHypothesesHold prims s sek svk rnd pt then "hyp-ok" else "hyp-fails"
        some s!"ok {hexOrDash w} {if q == pt then "self-ok" else "self-differs"}:{hyp}"
      | .reject => some s!"ok {hexOrDash w} self-reject"
    | none => some "err"
  | "tunnel.decrypt", [id, sek, svk, wire] => do
    let id ← id.toInt?
    let s ← suiteOf id
    let sek ← ofHex sek
    let svk ← ofHex svk
    let wire ← ofHex wire
    match decrypt s sek svk wire with
    | .ok p => some s!"ok {hexOrDash p}"
    | .reject => some "reject"
  | _, _ => none

end Fdo.Drv.Tunnel
