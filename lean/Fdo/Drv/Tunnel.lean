import Fdo.Kex.Crypter
import Fdo.Gen.Kex
import Fdo.Gen.Schemas
import Fdo.Prim.Gcm
import Fdo.Prim.Modes
import Fdo.Prim.Hmac
namespace Fdo.Drv.Tunnel
open Fdo Fdo.Cbor Fdo.Cose Fdo.Kex

def prims : Prims :=
  { aeadOpen := Fdo.Prim.gcmOpen
    aeadSeal := Fdo.Prim.gcmSeal?
    ctr := Fdo.Prim.aesCtr?
    cbcDec := Fdo.Prim.aesCbcDecrypt
    cbcEnc := Fdo.Prim.aesCbcEncrypt
    mac := fun alg k m =>
      if alg = 5 then some (Fdo.Prim.hmacSha256 k m)
      else if alg = 6 then some (Fdo.Prim.hmacSha384 k m) else none }

def kindOfAlg (alg : Int) : Option EncKind :=
  if alg = 1 ∨ alg = 2 ∨ alg = 3 then some .aead
  else if alg = -65534 ∨ alg = -65533 ∨ alg = -65532 then some .ctr
  else if alg = -65531 ∨ alg = -65530 ∨ alg = -65529 then some .cbc
  else none

def suiteOf (id : Int) : Option Suite := do
  let row ← Fdo.Gen.Kex.cipherSuites.find? (fun r => r.id = id)
  let k ← kindOfAlg row.encAlg
  pure { encAlg := row.encAlg, kind := k, encKeyBytes := row.encKeyBytes, macAlg := row.macAlg, macKeyBytes := row.macKeyBytes }

/-- `SessionCrypter.Decrypt(r)`: stream-decode one `cbor.Tag[RawBytes]`, then by tag number unmarshal the
raw content into Encrypt0 / Mac0[Encrypt0]. -/
def decrypt (s : Suite) (sek svk wire : Bytes) : Dec :=
  match decodeS (fun _ => true) (2 * wire.length + 64) maxDepth (.tagAny .raw) wire with
  | some (.tag t (.raw raw), _) =>
    let innerS := if t = 16 then some Fdo.Gen.Schemas.s_Encrypt0 else if t = 17 then some Fdo.Gen.Schemas.s_Mac0_Encrypt0_ else none
    match innerS with
    | none => .reject
    | some sch =>
      match unmarshalS (fun _ => true) sch raw with
      | some inner => decryptVal prims s sek svk Fdo.Gen.Schemas.s_Encrypt0 t inner
      | none => .reject
  | _ => .reject

/-- `SessionCrypter.Encrypt` followed by `cbor.Marshal` of the tagged result, for the random bytes `rnd`. -/
def encrypt (s : Suite) (sek svk rnd p : Bytes) : Option Bytes :=
  match encryptVal prims s sek svk Fdo.Gen.Schemas.s_Encrypt0 rnd p with
  | some (t, inner, _) =>
    let sch := if t = 16 then Fdo.Gen.Schemas.s_Encrypt0 else Fdo.Gen.Schemas.s_Mac0_Encrypt0_
    (marshalS sch inner).map fun b => encHead 6 t ++ b
  | none => none

def handle (cmd : String) (args : List String) : Option String :=
  match cmd, args with
  | "tunnel.encrypt", [id, sek, svk, rnd, pt] => do
    let id ← id.toInt?
    let s ← suiteOf id
    let sek ← ofHex sek
    let svk ← ofHex svk
    let rnd ← ofHex rnd
    let pt ← ofHex pt
    match encrypt s sek svk rnd pt with
    | some w =>
      -- the model's own receiver must open what the model's sender built (executable instance of decrypt_encrypt)
      match decrypt s sek svk w with
      | .ok q => some s!"ok {hexOrDash w} {if q == pt then "self-ok" else "self-differs"}"
      | .reject => some s!"ok {hexOrDash w} self-reject"
    | none => some "err"
  | "tunnel.decrypt", [id, sek, svk, wire] => do
    let id ← id.toInt?
    let s ← suiteOf id
    let sek ← ofHex sek
    let svk ← ofHex svk
    let wire ← ofHex wire
    match decrypt s sek svk wire with
    | .ok p => some s!"ok {hexOrDash p}"
    | .reject => some "reject"
  | _, _ => none

end Fdo.Drv.Tunnel
