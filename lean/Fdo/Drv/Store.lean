import Fdo.Store
/-
Line protocol for the store specification.

  store.run  <op> <op> …     the committed (repaired) behaviour, from the empty store
  store.run0 <op> <op> …     the tree as found (`Variant.original`)

One history per line, one result per op in the reply.  Ops (fields separated by ':',
byte strings as hex, "-" the empty string):

  N<n>:<p>                    NewToken, the store draws identifier n; p = 0 DI, 1 TO0, 2 TO1, 3 TO2
  I<tok>                      InvalidateToken
  S<tok>:<f>:<hex>            Set<field f>        f = 0..12 in the order of `Field`
  G<tok>:<f>                  <field f>
  Y<tok>                      SetDeviceSelfInfo
  av:<g>:<hex>                AddVoucher
  gv:<g>                      Voucher
  rv:<g>:<g'>:<0|1>:<hex>     ReplaceVoucher g by the voucher <hex> with GUID g' (1: has extensions)
  dv:<g>                      RemoveVoucher
  sb:<g>:<blob>:<ov>:<exp>    SetRVBlob
  gb:<g>:<now>                RVBlob at time now
  ao:<typ>:<bits>:<hex>       AddOwnerKey         bits = RSA key size, 0 for other keys
  go:<typ>:<bits>             OwnerKey
  am:<typ>:<bits>:<0|1>:<hex> AddManufacturerKey  (1: a certificate chain is given)
  gm:<typ>:<bits>             ManufacturerKey
  R                           Close + Open / fresh DB object

<tok>: `t<n>` a string the MAC check accepts for identifier n, `s…` a string that decodes to
fewer than 16 bytes, anything else (`x…`) a string the MAC check rejects.

Results: ok | v:<hex> | p:<hex>:<hex> | nf | is | err | panic
-/
namespace Fdo.Drv.Store
open Fdo Fdo.Store

def mac (raw : String) : Auth :=
  match raw.toList with
  | 't' :: ds => match (String.ofList ds).toNat? with
    | some n => .valid n
    | none => .invalid
  | 's' :: _ => .short
  | _ => .invalid

def parseProto : String → Option Protocol
  | "0" => some .di | "1" => some .to0 | "2" => some .to1 | "3" => some .to2
  | _ => none

def parseField (s : String) : Option Field :=
  match s.toNat? with
  | some 0 => some .deviceCertChain | some 1 => some .voucherHeader
  | some 2 => some .to0Nonce | some 3 => some .to1Nonce
  | some 4 => some .guid | some 5 => some .rvInfo
  | some 6 => some .replGuid | some 7 => some .replHmac
  | some 8 => some .xSession | some 9 => some .proveDvNonce
  | some 10 => some .setupDvNonce | some 11 => some .mtu
  | some 12 => some .devmod
  | _ => none

def parseBool : String → Option Bool
  | "0" => some false | "1" => some true | _ => none

def dropFirst (s : String) : String := String.ofList (s.toList.drop 1)

def parseOp (w : String) : Option (Op String) :=
  let parts := w.splitOn ":"
  match parts with
  | ["R"] => some .reopen
  | ["av", g, v] => do pure (.addVoucher (← ofHex g) (← ofHex v))
  | ["gv", g] => do pure (.getVoucher (← ofHex g))
  | ["rv", g, g', e, v] => do pure (.replaceVoucher (← ofHex g) (← ofHex g') (← parseBool e) (← ofHex v))
  | ["dv", g] => do pure (.removeVoucher (← ofHex g))
  | ["sb", g, b, v, e] => do pure (.setRVBlob (← ofHex g) (← ofHex b) (← ofHex v) (← e.toNat?))
  | ["gb", g, n] => do pure (.getRVBlob (← ofHex g) (← n.toNat?))
  | ["ao", t, b, v] => do pure (.addOwnerKey (← t.toNat?) (← b.toNat?) (← ofHex v))
  | ["go", t, b] => do pure (.ownerKey (← t.toNat?) (← b.toNat?))
  | ["am", t, b, c, v] => do pure (.addMfgKey (← t.toNat?) (← b.toNat?) (← parseBool c) (← ofHex v))
  | ["gm", t, b] => do pure (.mfgKey (← t.toNat?) (← b.toNat?))
  | hd :: rest =>
    match hd.toList with
    | 'N' :: ds => match rest with
      | [p] => do pure (.newToken (← (String.ofList ds).toNat?) (← parseProto p))
      | _ => none
    | 'I' :: tk => match rest with
      | [] => some (.invalidate (String.ofList tk))
      | _ => none
    | 'Y' :: tk => match rest with
      | [] => some (.selfInfo (String.ofList tk))
      | _ => none
    | 'S' :: tk => match rest with
      | [f, v] => do pure (.set (String.ofList tk) (← parseField f) (← ofHex v))
      | _ => none
    | 'G' :: tk => match rest with
      | [f] => do pure (.get (String.ofList tk) (← parseField f))
      | _ => none
    | _ => none
  | [] => none

def resText : Result → String
  | .ok => "ok"
  | .value v => "v:" ++ hexOrDash v
  | .pair b v => "p:" ++ hexOrDash b ++ ":" ++ hexOrDash v
  | .notFound => "nf"
  | .invalidSession => "is"
  | .error => "err"
  | .panic => "panic"

def run (V : Variant) (args : List String) : Option String := do
  let ops ← args.mapM parseOp
  pure (" ".intercalate ((results V mac Store.empty ops).map resText))

def handle (cmd : String) (args : List String) : Option String :=
  match cmd with
  | "store.run" => match args with
    | [] => some "-"
    | _ => run .repaired args
  | "store.run0" => match args with
    | [] => some "-"
    | _ => run .original args
  | "store.cut" =>
    -- ReplaceVoucher of the stored voucher [1] by a voucher with GUID [2], the request's context ending at the given point
    let cut? : Option Cut := match args with
      | ["none"] => some .none
      | ["insert"] => some .beforeInsert
      | ["delete"] => some .afterInsert
      | _ => none
    cut?.map fun c =>
      let s : Store := { Store.empty with vouchers := upd Store.empty.vouchers [1] (some [7]) }
      let r := replaceVoucherCut s [1] [2] false [8] c
      let res := if r.2 = .ok then "ok" else "fail"
      s!"ReplaceVoucher={res} old-present={(r.1.vouchers [1]).isSome} replacement-present={(r.1.vouchers [2]).isSome}"
  | _ => none

end Fdo.Drv.Store
