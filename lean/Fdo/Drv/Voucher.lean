import Fdo.Proto.Voucher
import Fdo.Gen.Schemas
import Fdo.Gen.Cose
import Fdo.Drv.Cose
namespace Fdo.Drv.Voucher
open Fdo Fdo.Cbor Fdo.Cose Fdo.Proto

def sha256 := Fdo.Prim.sha256
def sha384 := Fdo.Prim.sha384

def stepStr : Step → String
  | .ok => "ok" | .fail => "fail" | .panic s => s!"panic:{s}"

def outcomeStr : Cose.Outcome → String
  | .ecdsa bits tbs r s => s!"ecdsa,{bits},{hexOrDash tbs},{Fdo.Drv.Cose.natHex r},{Fdo.Drv.Cose.natHex s}"
  | .rsa pad bits tbs sg => s!"rsa,{if pad == .pss then "pss" else "pkcs"},{bits},{hexOrDash tbs},{hexOrDash sg}"
  | .reject => "reject"
  | .panic site => s!"panic:{site}"

def kindOf (s : String) : KeyKind :=
  match Fdo.Drv.Cose.keyKindOf s with
  | some k => k
  | none => .other

/-- obligations in order; the i-th `sig` obligation uses the i-th key kind -/
def oblsStr (kinds : List String) : List Obl → Nat → List String
  | [], _ => []
  | .static s :: r, i => s!"S:{stepStr s}" :: oblsStr kinds r i
  | .keyParses k :: r, i => s!"K:{hexOrDash k}" :: oblsStr kinds r i
  | .sig k out :: r, i => s!"G:{hexOrDash k}:{outcomeStr (out (kindOf (kinds.getD i "other")))}" :: oblsStr kinds r (i + 1)

def viewOfHex (h : String) : Option VoucherView := do
  let bs ← ofHex h
  let v ← unmarshalS (fun _ => true) Fdo.Gen.Schemas.s_Voucher bs
  voucherView Fdo.Gen.Schemas.s_Voucher v

/-- DER strings the decoder assumed to be certificates (to be confirmed by the X.509 oracle) -/
def certsOfHex (h : String) : List Bytes :=
  match (ofHex h).bind (unmarshalS (fun _ => true) Fdo.Gen.Schemas.s_Voucher) with
  | some v => v.certs
  | none => []

def handle (cmd : String) (args : List String) : Option String :=
  match cmd, args with
  | "voucher.keys", [h] =>
    match viewOfHex h with
    | none => some "err"
    | some v =>
      let cs := certsOfHex h
      let cstr := if cs.isEmpty then "-" else ",".intercalate (cs.map fun c => if c.isEmpty then "e" else toHex c)
      some (s!"ok certs={cstr} " ++ " ".intercalate ((v.mfgKey :: v.entries.map (·.pubKey)).map hexOrDash))
  | "voucher.verify", [h, secret, credAlg, credHash, kinds] => do
    let secret ← ofHex secret
    let credHash ← ofHex credHash
    let credAlg ← credAlg.toInt?
    match viewOfHex h with
    | none => some "err"
    | some v =>
      let hdr := verifyHeader Fdo.Prim.hmacSha256 Fdo.Prim.hmacSha384 secret v
      let mfg := verifyMfgKey sha256 sha384 credAlg credHash v
      let cch := verifyCertChainHash sha256 sha384 v
      let obls := verifyEntriesObls Fdo.Gen.Cose.sigAlgs sha256 sha384 v
      let ks := (kinds.splitOn ",")
      some s!"ok hdr={stepStr hdr} mfg={stepStr mfg} cch={stepStr cch} owner={hexOrDash (ownerKey v)} n={v.entries.length} entries={";".intercalate (oblsStr ks obls 0)}"
  | _, _ => none

end Fdo.Drv.Voucher
