import Fdo.Proto.TO2Device
import Fdo.Drv.Voucher
namespace Fdo.Drv.TO2Dev
open Fdo Fdo.Cbor Fdo.Cose Fdo.Proto

def proofSchema := Fdo.Gen.Schemas.s_Sign1Tag_OVHProof_
def entryMsgSchema := Fdo.Gen.Schemas.s_TO2_OVNextEntry
def to1dSchema := Fdo.Gen.Schemas.s_Sign1Tag_To1d_

def hdrAny (m : List (Val × AnyVal)) (l : Int) : Option AnyVal :=
  match hdrGet m l with
  | some .null => none     -- `hm[l] == nil` counts as missing
  | x => x

/-- `HeaderMap.Parse(l, &v)`: re-marshal the value and unmarshal it into the target type. -/
def hdrParse (m : List (Val × AnyVal)) (l : Int) (s : Schema) : Option Val :=
  (hdrAny m l).bind fun a => unmarshalS (fun _ => true) s (encodeAny a)

def proofView (h : String) : Option (Val × OVHProofView) := do
  let bs ← ofHex h
  let (v, _) ← decodeS (fun _ => true) (2 * bs.length + 64) maxDepth proofSchema bs
  let ps ← payloadSchemaOf proofSchema
  match v with
  | .tag _ (.strct [.hdr pm um, pay, .bytes sig]) =>
    let claim := (hdrParse um 257 pubKeySchema).bind (marshalS pubKeySchema)
    let cuph := match hdrParse um 256 (.fixed 16) with
      | some (.bytes b) => some b
      | _ => none
    match pay with
    | .ref pv =>
      match pv, marshalS ps pv, ps with
      | .strct [hdr, .nat n, hm, .bytes nonce, _, _, hh, _], some pb, .struct (.cons (.bstr hs) _ _) =>
        match hdr, marshalS hs hdr, hashPair hm, marshalS hashSchema hm, hashPair hh with
        | .strct [_, .bytes guid, _, .text info, mk, _], some hb, some (ha, hv), some hmb, some (hha, hhv) =>
          match marshalS pubKeySchema mk with
          | some mkb =>
            some (v, { payloadPresent := true, prot := pm, payloadBytes := pb, sig := sig, hdrBytes := hb, guid := guid,
                       devInfo := info, mfgKey := mkb, numEntries := n, hmacAlg := ha, hmacVal := hv, hmacBytes := hmb,
                       nonce := nonce, helloHashAlg := hha, helloHashVal := hhv, ownerKeyClaim := claim, cuphNonce := cuph })
          | none => none
        | _, _, _, _, _ => none
      | _, _, _ => none
    | _ =>
      some (v, { payloadPresent := false, prot := pm, payloadBytes := [], sig := sig, hdrBytes := [], guid := [], devInfo := [],
                 mfgKey := [], numEntries := 0, hmacAlg := 0, hmacVal := [], hmacBytes := [], nonce := [],
                 helloHashAlg := 0, helloHashVal := [], ownerKeyClaim := claim, cuphNonce := cuph })
  | _ => none

def entryOf (h : String) : Option (Val × Option (Nat × EntryView)) :=
  match ofHex h with
  | none => none
  | some bs =>
    match decodeS (fun _ => true) (2 * bs.length + 64) maxDepth entryMsgSchema bs with
    | some (v, _) =>
      match entryMsgSchema, v with
      | .struct (.cons _ _ (.cons es _ .nil)), .strct [.int n, e] =>
        match payloadSchemaOf es with
        | some ps =>
          match entryView es ps e with
          | some ev => some (v, if n ≥ 0 then some (n.toNat, ev) else none)
          | none => some (v, none)
        | none => some (v, none)
      | _, _ => some (v, none)
    | none => some (.nilp, none)

def entriesOf (s : String) : List (Val × Option (Nat × EntryView)) :=
  if s == "-" then [] else (s.splitOn ",").filterMap entryOf

structure To1d where
  prot : List (Val × AnyVal)
  payload : Option Bytes
  sig : Bytes

def to1dOf (h : String) : Option To1d := do
  let bs ← ofHex h
  let v ← unmarshalS (fun _ => true) to1dSchema bs
  let ps ← payloadSchemaOf to1dSchema
  match v with
  | .tag _ (.strct [.hdr pm _, pay, .bytes sig]) =>
    match pay with
    | .ref pv => (marshalS ps pv).map fun pb => ⟨pm, some pb, sig⟩
    | _ => some ⟨pm, none, sig⟩
  | _ => none

def certStr (vs : List Val) : String :=
  let cs := vs.flatMap Val.certs
  if cs.isEmpty then "-" else ",".intercalate (cs.map fun c => if c.isEmpty then "e" else toHex c)

def sha256 := Fdo.Prim.sha256
def sha384 := Fdo.Prim.sha384

def handle (cmd : String) (args : List String) : Option String :=
  match cmd, args with
  /- keys the oracle has to parse: claim (or none), manufacturer key, then one key per fetched entry -/
  | "to2dev.view", [h61, h63s] =>
    match proofView h61 with
    | none => some "err"
    | some (v, p) =>
      let es := entriesOf h63s
      let ekeys := es.map fun e => match e.2 with
        | some (_, ev) => hexOrDash ev.pubKey
        | none => "-"
      let claimStr := match p.ownerKeyClaim with
        | some c => hexOrDash c
        | none => "none"
      some s!"ok certs={certStr (v :: es.map (·.1))} claim={claimStr} mfg={hexOrDash p.mfgKey} entries={",".intercalate ekeys}"
  /- signature queries: kinds = kind of claim, then of mfg, e0, e1, … -/
  | "to2dev.obls", [h61, h63s, h1d, kinds] =>
    match proofView h61 with
    | none => some "err"
    | some (_, p) =>
      let ks := kinds.splitOn ","
      let claimKind := Fdo.Drv.Voucher.kindOf (ks.getD 0 "other")
      let proofSig := sign1Verify Fdo.Gen.Cose.sigAlgs p.prot (if p.payloadPresent then some p.payloadBytes else none) p.sig [] claimKind
      let es := (entriesOf h63s).filterMap fun e => e.2.map (·.2)
      let v := assembled p es
      let obls := verifyEntriesObls Fdo.Gen.Cose.sigAlgs sha256 sha384 v
      let ownerKind := Fdo.Drv.Voucher.kindOf (ks.getD (1 + es.length) "other")
      let t1 := match (if h1d == "-" then none else to1dOf h1d) with
        | some t => Fdo.Drv.Voucher.outcomeStr (sign1Verify Fdo.Gen.Cose.sigAlgs t.prot t.payload t.sig [] ownerKind)
        | none => "none"
      some s!"ok owner={hexOrDash (ownerKey v)} proofsig={Fdo.Drv.Voucher.outcomeStr proofSig} to1dsig={t1} entries={";".intercalate (Fdo.Drv.Voucher.oblsStr (ks.drop 1) obls 0)}"
  /- decision; flags = claimKeyOK,proofSigOK,kexOK,entriesOK,ownerKeyOK,keyEq,to1dOK as 0/1 -/
  | "to2dev.decide", [h61, h63s, hello, nonce, secret, credAlg, credHash, to1dPresent, flags] => do
    let hello ← ofHex hello
    let nonce ← ofHex nonce
    let secret ← ofHex secret
    let credHash ← ofHex credHash
    let credAlg ← credAlg.toInt?
    let fl := (flags.splitOn ",").map (· == "1")
    let f (i : Nat) := fl.getD i false
    let proof := (proofView h61).map (·.2)
    let entries := (entriesOf h63s).map (·.2)
    let claim := (proof.bind (·.ownerKeyClaim)).getD []
    let ownerK : Bytes := match proof, fetched 0 entries with
      | some p, some es => ownerKey (assembled p es)
      | _, _ => []
    let noEntries : Bool := match fetched 0 entries with
      | some es => es.isEmpty
      | none => false
    -- flag 0: claim parses; 3: entry obligations (incl. manufacturer and entry keys) pass; 4: owner key parses
    let keyOK : Bytes → Bool := fun k =>
      if k == claim then f 0 else if k == ownerK then f 4 && (f 3 || noEntries) else f 3
    let O' : DeviceOracles :=
      { hashFunc := hashFuncOf sha256 sha384
        sha256 := sha256
        sha384 := sha384
        hmac256 := Fdo.Prim.hmacSha256
        hmac384 := Fdo.Prim.hmacSha384
        keyOK := keyOK
        keyEq := fun _ _ => f 5
        proofSigOK := fun _ _ => f 1
        entrySigOK := fun _ _ => f 3
        to1dSigOK := fun _ => f 6
        kexOK := fun _ => f 2 }
    let d : DeviceInputs :=
      { secret := secret
        credKeyHashAlg := credAlg
        credKeyHashVal := credHash
        helloBytes := hello
        helloNonce := nonce
        proof := proof
        entries := entries
        to1dPresent := to1dPresent == "1" }
    some (if verifyOwner O' d then "proceed" else "abort")
  | _, _ => none

end Fdo.Drv.TO2Dev
