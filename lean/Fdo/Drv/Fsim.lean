import Fdo.Svc.Fsim
import Fdo.Prim.Sha2
import Fdo.Drv.Prim
/-
Line protocol for the file-transfer modules (prefix `fsim.`), SHA-384 = `Fdo.Prim.sha384`.

  fsim.download <devMtu> <chunk> <must 0|1> <nameHex> <fileHex> <corr>
      → fs=<none|file|HEX> done=<n|none> owner=<done|err|stall> temp=<0|1> chunks=<rle>
  fsim.upload <v> <devMtu> <ownMtu> <nameHex> <fileHex> <corr>        v = 1: repaired code, 0: tree as found
      → fs=<none|file|HEX> owner=<done|err|stall> temp=<0|1> chunks=<rle>     (fs: entry of the base name)
  fsim.wget <devMtu> <nameHex> <urlLen> <sum 0|1> <len> <fileHex> <corr>
      → fs=<none|file|HEX> reply=<done:n|error|none> owner=<done|err>
  fsim.chunks <c> <fileHex>  → <rle> <ok|bad>     (ok: the chunks concatenate to the file)

<chunk> is a decimal integer (may be negative), "-" is the empty byte string, <corr> is what happens
to the messages in transit: `-` nothing, `data:<k>` bit 7 of the middle byte of the k-th data chunk
flipped (wget: of the served body), `len:<d>` the announced length plus d, `sha` bit 0 of the first
digest byte flipped.  `fs=file`: the destination holds exactly the source file.
<rle> is the run-length list of data chunk sizes on the wire, `1014x4,944x1`, `-` for none.
-/
namespace Fdo.Drv.Fsim
open Fdo Fdo.Svc.Fsim

def flipAt (i : Nat) (m : UInt8) (b : Bytes) : Bytes :=
  b.take i ++ (match b.drop i with | [] => [] | x :: r => (x ^^^ m) :: r)

def parseInt (s : String) : Option Int :=
  if s.startsWith "-" then (s.drop 1).toNat?.map (fun n => -(n : Int)) else s.toNat?.map (fun n => (n : Int))

def parseCorr (s : String) : Option Transit :=
  if s == "-" then some Transit.none
  else if s == "sha" then some { Transit.none with sha := flipAt 0 1 }
  else match s.splitOn ":" with
    | ["data", k] => do
      let k ← k.toNat?
      some { Transit.none with dat := fun i c => if i = k then flipAt (c.length / 2) 128 c else c }
    | ["len", d] => do
      let d ← parseInt d
      some { Transit.none with len := fun n => n + d }
    | ["shatrunc", n] => do
      let n ← n.toNat?
      some { Transit.none with sha := fun d => d.take n }
    | _ => none

def rle : List Nat → List (Nat × Nat)
  | [] => []
  | n :: r =>
    match rle r with
    | (m, k) :: t => if m = n then (m, k + 1) :: t else (n, 1) :: (m, k) :: t
    | [] => [(n, 1)]

def rleText (xs : List Nat) : String :=
  match rle xs with
  | [] => "-"
  | l => ",".intercalate (l.map fun (n, k) => s!"{n}x{k}")

def fsText (e : Option Bytes) (file : Bytes) : String :=
  match e with
  | none => "none"
  | some b => if b = file then "file" else hexOrDash b

def endText : OwnerEnd → String
  | .done => "done"
  | .err => "err"
  | .stall => "stall"

def bit (b : Bool) : String := if b then "1" else "0"

def handle (cmd : String) (args : List String) : Option String :=
  match cmd, args with
  | "fsim.download", [mtu, chunk, must, name, file, corr] => do
    let mtu ← mtu.toNat?
    let chunk ← parseInt chunk
    let name ← Drv.Prim.ofHexFast name
    let file ← Drv.Prim.ofHexFast file
    let T ← parseCorr corr
    let P : DlParams := ⟨mtu, chunk, must == "1", name⟩
    let r := download Prim.sha384 P file T FS.empty
    let sent := ((chunks (dlChunk mtu chunk) file).take r.nsent).map List.length
    let done := match r.reply with | some n => toString n | none => "none"
    pure s!"fs={fsText (r.fs name) file} done={done} owner={endText r.owner} temp={bit r.dev.temp.isSome} chunks={rleText sent}"
  | "fsim.upload", [v, devMtu, ownMtu, name, file, corr] => do
    let V ← (if v == "1" then some Variant.repaired else if v == "0" then some Variant.original else none)
    let devMtu ← devMtu.toNat?
    let ownMtu ← ownMtu.toNat?
    let name ← Drv.Prim.ofHexFast name
    let file ← Drv.Prim.ofHexFast file
    let T ← parseCorr corr
    let P : UpParams := ⟨devMtu, ownMtu, name⟩
    let r := upload V Prim.sha384 P file T FS.empty
    let sent := if fits false devMtu modUpload (upRequest name) then (chunks (upChunk V ownMtu) file).map List.length else []
    pure s!"fs={fsText (r.fs (baseName name)) file} owner={endText r.owner} temp={bit r.temp} chunks={rleText sent}"
  | "fsim.wget", [mtu, name, urlLen, sum, len, file, corr] => do
    let mtu ← mtu.toNat?
    let name ← Drv.Prim.ofHexFast name
    let urlLen ← urlLen.toNat?
    let len ← len.toNat?
    let file ← Drv.Prim.ofHexFast file
    let T ← parseCorr corr
    let P : WgetParams := ⟨mtu, name, urlLen, if sum == "1" then Prim.sha384 file else [], len⟩
    let r := wget Prim.sha384 P T (some (T.dat 0 file)) FS.empty
    let reply := match r.reply with
      | some (.done n) => s!"done:{n}"
      | some .error => "error"
      | none => "none"
    pure s!"fs={fsText (r.fs name) file} reply={reply} owner={endText r.owner}"
  | "fsim.chunks", [c, file] => do
    let c ← c.toNat?
    let file ← Drv.Prim.ofHexFast file
    let cs := chunks c file
    pure s!"{rleText (cs.map List.length)} {if cs.flatten = file then "ok" else "bad"}"
  | _, _ => none

end Fdo.Drv.Fsim
