import Fdo.Proto.Server
namespace Fdo.Drv.Server
open Fdo.Proto.Server

def natList (s : String) : Option (List Nat) :=
  if s.isEmpty then some [] else (s.splitOn ",").mapM (·.toNat?)

def optNat (s : String) : Option (Option Nat) :=
  if s == "-" then some none else s.toNat?.map some

def bool01 (s : String) : Option Bool :=
  if s == "1" then some true else if s == "0" then some false else none

def parseTok (s : String) : Option TokRef :=
  if s == "n" then some .none
  else if s == "b" then some .bad
  else if s.startsWith "s" then (s.drop 1).toNat?.map .sess
  else none

def parseEnc (s : String) : Option (Option (Nat × Nat)) :=
  if s == "-" then some none
  else match s.splitOn "." with
    | [a, b] => do some (some ((← a.toNat?), (← b.toNat?)))
    | _ => none

/-- `tok:typ:wf:dev:nonce:signer:xb:enc:hmac:dm:kex:idx` -/
def parseReq (s : String) : Option Req :=
  match s.splitOn ":" with
  | [tok, typ, wf, dev, nonce, signer, xb, enc, hmac, dm, kex, idx] => do
    some { tok := (← parseTok tok), typ := (← typ.toNat?), wf := (← bool01 wf), dev := (← dev.toNat?),
           nonceOf := (← optNat nonce), signer := (← optNat signer), xb := (← xb.toNat?), enc := (← parseEnc enc),
           hmac := (← bool01 hmac), dm := (← bool01 dm), kexOk := (← bool01 kex), idxOk := (← bool01 idx) }
  | _ => none

def showEff : Effect → String
  | .addVoucher k => s!"av{k}"
  | .setBlob k d => s!"sb{k}.{d}"
  | .ownerModule k => s!"om{k}"
  | .replaceVoucher k d => s!"rv{k}.{d}"

def showEffs (es : List Effect) : String :=
  if es.isEmpty then "-" else "+".intercalate (es.map showEff)

def liveBits (st : State) : String :=
  String.ofList (st.sessions.map (fun s => if s.live then '1' else '0'))

def runShow (st : State) : List Req → List String
  | [] => []
  | r :: rs =>
    let res := step st r
    let bits := liveBits res.1
    s!"{res.2.1}/{showEffs res.2.2}/{if bits.isEmpty then "-" else bits}" :: runShow res.1 rs

/-- `server.run r<0|1> v<csv> b<csv> m<rounds> <req>…` → one `resp/effects/liveness` per request -/
def handle (cmd : String) (args : List String) : Option String :=
  match cmd, args with
  | "server.run", r :: v :: b :: m :: reqs => do
    let reuse ← bool01 (r.drop 1).toString
    let vs ← natList (v.drop 1).toString
    let bs ← natList (b.drop 1).toString
    let mr ← (m.drop 1).toString.toNat?
    let rs ← reqs.mapM parseReq
    let st : State := { vouchers := vs, blobs := bs, reuse := reuse, modRounds := mr }
    some (" ".intercalate (runShow st rs))
  | _, _ => none

end Fdo.Drv.Server
