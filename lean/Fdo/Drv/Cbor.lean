import Fdo.Cbor.Text
import Fdo.Cbor.Canon
namespace Fdo.Drv.Cbor
open Fdo Fdo.Cbor

def handle (cmd : String) (args : List String) : Option String :=
  match cmd, args with
  | "cbor.raw", [h] => do
    let bs ← ofHex h
    match decode1 bs with
    | none => some "err"
    | some (_, r) => some s!"ok {bs.length - r.length}"
  | "cbor.rawitem", [h] => do
    let bs ← ofHex h
    match decode1 bs with
    | none => some "err"
    | some (x, r) => some s!"ok {bs.length - r.length} {x.text}"
  | "cbor.strict", [h] => do
    let bs ← ofHex h
    match decodeStrict (2 * bs.length + 1) bs with
    | none => some "err"
    | some (x, r) => some s!"ok {bs.length - r.length} {hexOrDash (encode x)}"
  | "cbor.any", [h] => do
    let bs ← ofHex h
    match decodeAny (2 * bs.length + 1) maxDepth bs with
    | none => some "err"
    | some (v, r) => some s!"ok {bs.length - r.length} {v.render}"
  | "cbor.enc", toks => do
    let x ← Item.ofTokens toks
    some (hexOrDash (marshal x))
  | _, _ => none

end Fdo.Drv.Cbor
