import Fdo.Kex.Dh
import Fdo.Kex.Spec
/-
Line protocol for the key-exchange model (prefix `kex.`).  The PRF, ECDH and RSA-OAEP are not
computed here: the harness supplies their values (Go standard library) between two requests.
-/
namespace Fdo.Drv.Kex
open Fdo Fdo.Cbor Fdo.Kex

def hexList (xs : List Bytes) : String := " ".intercalate (xs.map hexOrDash)

def outBytes : Outcome Bytes → String
  | .ok b => s!"ok {hexOrDash b}"
  | .reject => "reject"
  | .panic s => s!"panic:{s}"

def optNatText : Option Nat → String
  | none => "nil"
  | some n => hexOrDash (minBytes n)

def optBytesText : Option Bytes → String
  | none => "nil"
  | some b => hexOrDash b

def parseOptNat (s : String) : Option (Option Nat) :=
  if s == "nil" then some none else (ofHex s).map (fun b => some (beNat b))

def parseOptBytes (s : String) : Option (Option Bytes) :=
  if s == "nil" then some none else (ofHex s).map some

def crText (c : Crypter) : String := s!"c={c.cipher} sek={hexOrDash c.sek} svk={hexOrDash c.svk}"

def dhText (s : DhSession) : String :=
  s!"p={hexOrDash (minBytes s.p)} g={s.g} ps={s.paramSize} a={optNatText s.a} xA={optNatText s.xA} b={optNatText s.b} xB={optNatText s.xB} {crText s.cr}"

def ecdhText (s : EcdhSession) : String :=
  s!"rs={s.randSize} xA={optBytesText s.xA} xB={hexOrDash s.xB} key={optBytesText s.priv} {crText s.cr}"

def oaepText (s : OaepSession) : String :=
  s!"ps={s.paramSize} xA={optBytesText s.xA} xB={hexOrDash s.xB} {crText s.cr}"

def outText {α : Type} (f : α → String) : Outcome α → String
  | .ok a => s!"ok {f a}"
  | .reject => "reject"
  | .panic s => s!"panic:{s}"

def handle (cmd : String) (args : List String) : Option String :=
  match cmd, args with
  | "kex.specvalid", [suite, owner] => some (if specValidEc suite owner then "true" else "false")
  | "kex.kdf.inputs", [hb, ctx, bits] => do
    let hb ← hb.toNat?
    let ctx ← ofHex ctx
    let L ← bits.toNat?
    if kdfSpecRounds (8 * hb) L > 255 then some "none"
    else
      let ms := kdfInputs (8 * hb) L ctx
      some (if ms.isEmpty then "ok 0" else s!"ok {ms.length} {hexList ms}")
  | "kex.kdf.assemble", bits :: blocks => do
    let L ← bits.toNat?
    let bs ← blocks.mapM ofHex
    some (hexOrDash (kdfAssemble L bs))
  | "kex.kdf.coderounds", [hb, bits] => do
    let hb ← hb.toNat?
    let L ← bits.toNat?
    if hb ≠ 32 ∧ hb ≠ 48 then some "panic:kdf:unsupported hash size"
    else if kdfCodeRounds hb L > 255 then some "panic:kdf:n too large"
    else some s!"ok {kdfCodeRounds hb L} {kdfSpecRounds (8 * hb) L}"
  | "kex.bits", [cid] => do
    let id ← cid.toInt?
    match cipherRow id with
    | none => some "unregistered"
    | some c => some s!"ok {c.prfBytes} {kdfBits c} {c.encKeyBytes} {c.macKeyBytes}"
  | "kex.split", [cid, km] => do
    let id ← cid.toInt?
    let km ← ofHex km
    match cipherRow id with
    | none => some "unregistered"
    | some c =>
      match splitKeys c km with
      | .ok (sek, svk) => some s!"ok {hexOrDash sek} {hexOrDash svk}"
      | .reject => some "reject"
      | .panic s => some s!"panic:{s}"
  | "kex.dh.group", [suite] => do
    let G ← dhGroupOf suite
    some s!"ok {toHex (minBytes G.p)} {G.g} {G.paramSize} {byteLen G.p}"
  | "kex.dh.pub", [suite, secret] => do
    let G ← dhGroupOf suite
    let r ← ofHex secret
    some (hexOrDash (minBytes (dhPublic G (beNat r))))
  | "kex.dh.shared", [suite, peer, secret] => do
    let G ← dhGroupOf suite
    let y ← ofHex peer
    let r ← ofHex secret
    some (outBytes (dhShared G.p (beNat y) (beNat r)))
  | "kex.ecdhparam.dec", [h] => do
    let b ← ofHex h
    match ecdhParamFields b, ecdhParamDecode b with
    | some (x, y, r, _), some (pub, _) =>
      some s!"ok x={hexOrDash x} y={hexOrDash y} rand={hexOrDash r} pub={toHex pub}"
    | _, _ => some "reject"
  | "kex.ecdhparam.enc", [pub, rand] => do
    let pub ← ofHex pub
    let rand ← ofHex rand
    some (outBytes (ecdhParamMarshal pub rand))
  | "kex.ecdh.shse", [shx, xA, xB] => do
    let shx ← ofHex shx
    let xA ← ofHex xA
    let xB ← ofHex xB
    match ecdhParamDecode xA, ecdhParamDecode xB with
    | some pA, some pB => some s!"ok {hexOrDash (ecdhShSe shx pB.2 pA.2)}"
    | _, _ => some "reject"
  | "kex.persist.dec", "dh" :: [h] => do
    let b ← ofHex h
    match unmarshalRaw b with
    | none => some "reject"
    | some x => some (outText dhText (dhRestore x))
  | "kex.persist.dec", "ecdh" :: [h, keyValid] => do
    let b ← ofHex h
    match unmarshalRaw b with
    | none => some "reject"
    | some x => some (outText ecdhText (ecdhRestore (fun _ k => keyValid == "1" && !k.isEmpty) x))
  | "kex.persist.dec", "oaep" :: [h] => do
    let b ← ofHex h
    match unmarshalRaw b with
    | none => some "reject"
    | some x => some (outText oaepText (oaepRestore x))
  | "kex.persist.enc", ["dh", p, g, ps, a, xA, b, xB, c, sek, svk] => do
    let p ← ofHex p
    let s : DhSession := ⟨beNat p, ← g.toNat?, ← ps.toNat?, ← parseOptNat a, ← parseOptNat xA, ← parseOptNat b,
      ← parseOptNat xB, ⟨← c.toInt?, ← ofHex sek, ← ofHex svk⟩⟩
    some (toHex (encode (dhPersist s)))
  | "kex.persist.enc", ["ecdh", rs, xA, xB, key, c, sek, svk] => do
    let s : EcdhSession := ⟨← rs.toNat?, ← parseOptBytes xA, ← ofHex xB, ← parseOptBytes key,
      ⟨← c.toInt?, ← ofHex sek, ← ofHex svk⟩⟩
    some (toHex (encode (ecdhPersist s)))
  | "kex.persist.enc", ["oaep", ps, xA, xB, c, sek, svk] => do
    let s : OaepSession := ⟨← ps.toNat?, ← parseOptBytes xA, ← ofHex xB, ⟨← c.toInt?, ← ofHex sek, ← ofHex svk⟩⟩
    some (toHex (encode (oaepPersist s)))
  | _, _ => none

end Fdo.Drv.Kex
