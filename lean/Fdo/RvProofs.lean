import Fdo.Rv
import Fdo.RvSpec
import Fdo.Cbor.Proofs
/-
Helper lemmas for C20 (property theorems are in Props/C20.lean).
-/
namespace Fdo.RvProofs
open Fdo Fdo.Cbor Fdo.Rv Fdo.RvSpec

/-! ## `lastValid` -/

theorem orElse_none_right {α : Type} (a : Option α) : orElse a none = a := by
  cases a <;> rfl

theorem lastValid_cons {α : Type} (p : RvInstr → Option α) (i : RvInstr) (is : List RvInstr) :
    lastValid p (i :: is) = orElse (lastValid p is) (p i) := by
  simp only [lastValid]
  cases lastValid p is <;> rfl

theorem lastValid_append {α : Type} (p : RvInstr → Option α) (a b : List RvInstr) :
    lastValid p (a ++ b) = orElse (lastValid p b) (lastValid p a) := by
  induction a with
  | nil => simp [lastValid, orElse_none_right]
  | cons i a ih =>
    simp only [List.cons_append, lastValid_cons, ih]
    cases lastValid p b <;> simp [orElse]

theorem lastValid_congr {α : Type} (p q : RvInstr → Option α) (is : List RvInstr)
    (h : ∀ i ∈ is, p i = q i) : lastValid p is = lastValid q is := by
  induction is with
  | nil => rfl
  | cons i is ih =>
    simp only [lastValid_cons]
    rw [ih (fun j hj => h j (List.mem_cons_of_mem _ hj)), h i (List.mem_cons_self ..)]

/-- An instruction on which `p` yields nothing can be removed. -/
theorem lastValid_remove {α : Type} (p : RvInstr → Option α) (l1 l2 : List RvInstr) (i : RvInstr)
    (h : p i = none) : lastValid p (l1 ++ i :: l2) = lastValid p (l1 ++ l2) := by
  simp only [lastValid_append, lastValid_cons, h, orElse_none_right]

/-- The fold of a loop whose iteration overwrites one field exactly when `p` yields a value
computes the last such value. -/
theorem foldl_field {σ β : Type} (step : σ → RvInstr → σ) (proj : σ → β) (p : RvInstr → Option β)
    (h : ∀ s i, proj (step s i) = (p i).getD (proj s)) (s : σ) (is : List RvInstr) :
    proj (is.foldl step s) = (lastValid p is).getD (proj s) := by
  induction is generalizing s with
  | nil => rfl
  | cons i is ih =>
    simp only [List.foldl_cons, ih, h, lastValid_cons]
    cases lastValid p is <;> simp [orElse]

/-- Same for an `Option` field that is only ever set. -/
theorem foldl_field_opt {σ β : Type} (step : σ → RvInstr → σ) (proj : σ → Option β) (p : RvInstr → Option β)
    (h : ∀ s i, proj (step s i) = orElse (p i) (proj s)) (s : σ) (is : List RvInstr) :
    proj (is.foldl step s) = orElse (lastValid p is) (proj s) := by
  induction is generalizing s with
  | nil => rfl
  | cons i is ih =>
    simp only [List.foldl_cons, ih, h, lastValid_cons]
    cases lastValid p is <;> simp [orElse]

/-- A look-up that reads one variable does not depend on the order of a list in which
every variable occurs at most once. -/
theorem lastValid_perm {α : Type} (p : RvInstr → Option α) (v : Nat)
    (hp : ∀ i, p i ≠ none → i.var = v) {l l' : List RvInstr} (h : l.Perm l')
    (hd : (l.map (·.var)).Nodup) : lastValid p l = lastValid p l' := by
  induction h with
  | nil => rfl
  | cons x _ ih =>
    simp only [lastValid_cons]
    rw [ih (List.nodup_cons.mp (by simpa using hd)).2]
  | swap x y l =>
    simp only [lastValid_cons]
    cases hl : lastValid p l with
    | some a => simp [orElse]
    | none =>
      simp only [orElse]
      cases hx : p x with
      | none => cases hy : p y <;> simp
      | some a =>
        cases hy : p y with
        | none => simp
        | some b =>
          exfalso
          have h1 := hp x (by simp [hx])
          have h2 := hp y (by simp [hy])
          simp only [List.map_cons, List.nodup_cons, List.mem_cons] at hd
          exact hd.1 (Or.inl (by rw [h1, h2]))
  | trans h1 _ ih1 ih2 =>
    rw [ih1 hd, ih2 ((h1.map _).nodup_iff.mp hd)]

theorem any_perm {l l' : List RvInstr} (f : RvInstr → Bool) (h : l.Perm l') : l.any f = l'.any f := by
  rw [Bool.eq_iff_iff]
  simp only [List.any_eq_true]
  constructor
  · rintro ⟨x, hx, hf⟩; exact ⟨x, h.mem_iff.mp hx, hf⟩
  · rintro ⟨x, hx, hf⟩; exact ⟨x, h.mem_iff.mpr hx, hf⟩


/-! ## The loop equals the reference interpreter -/

/-- One loop iteration of `parseDirective` that is not a `return nil`. -/
def pureStep (dev : Bool) (d : Directive) (i : RvInstr) : Directive := (dirStep dev d i).getD d

section fields
variable (m : Nat) (f r : Bytes) (d : Directive)
@[simp] theorem applyMedium_urls : (applyMedium m d).urls = d.urls := by unfold applyMedium; (repeat' split) <;> rfl
@[simp] theorem applyMedium_bypass : (applyMedium m d).bypass = d.bypass := by unfold applyMedium; (repeat' split) <;> rfl
@[simp] theorem applyMedium_ssid : (applyMedium m d).ssid = d.ssid := by unfold applyMedium; (repeat' split) <;> rfl
@[simp] theorem applyMedium_pass : (applyMedium m d).pass = d.pass := by unfold applyMedium; (repeat' split) <;> rfl
@[simp] theorem applyMedium_extMech : (applyMedium m d).extMech = d.extMech := by unfold applyMedium; (repeat' split) <;> rfl
@[simp] theorem applyMedium_extArgs : (applyMedium m d).extArgs = d.extArgs := by unfold applyMedium; (repeat' split) <;> rfl
@[simp] theorem applyMedium_delay : (applyMedium m d).delay = d.delay := by unfold applyMedium; (repeat' split) <;> rfl
@[simp] theorem applyMedium_svCert : (applyMedium m d).svCert = d.svCert := by unfold applyMedium; (repeat' split) <;> rfl
@[simp] theorem applyMedium_clCert : (applyMedium m d).clCert = d.clCert := by unfold applyMedium; (repeat' split) <;> rfl
@[simp] theorem applyExt_urls : (applyExt f r d).urls = d.urls := by unfold applyExt; (repeat' split) <;> rfl
@[simp] theorem applyExt_bypass : (applyExt f r d).bypass = d.bypass := by unfold applyExt; (repeat' split) <;> rfl
@[simp] theorem applyExt_eth : (applyExt f r d).eth = d.eth := by unfold applyExt; (repeat' split) <;> rfl
@[simp] theorem applyExt_wlan : (applyExt f r d).wlan = d.wlan := by unfold applyExt; (repeat' split) <;> rfl
@[simp] theorem applyExt_ssid : (applyExt f r d).ssid = d.ssid := by unfold applyExt; (repeat' split) <;> rfl
@[simp] theorem applyExt_pass : (applyExt f r d).pass = d.pass := by unfold applyExt; (repeat' split) <;> rfl
@[simp] theorem applyExt_delay : (applyExt f r d).delay = d.delay := by unfold applyExt; (repeat' split) <;> rfl
@[simp] theorem applyExt_svCert : (applyExt f r d).svCert = d.svCert := by unfold applyExt; (repeat' split) <;> rfl
@[simp] theorem applyExt_clCert : (applyExt f r d).clCert = d.clCert := by unfold applyExt; (repeat' split) <;> rfl

theorem applyMedium_eth : (applyMedium m d).eth = orElse (mediumFor .eth m) d.eth := by
  unfold applyMedium mediumFor mediumTable
  (repeat' split) <;> simp_all [orElse, rvMedEthAll, rvMedWifiAll]

theorem applyMedium_wlan : (applyMedium m d).wlan = orElse (mediumFor .wlan m) d.wlan := by
  unfold applyMedium mediumFor mediumTable
  (repeat' split) <;> simp_all [orElse, rvMedEthAll, rvMedWifiAll]
end fields

/-- Closes the goals that remain after unfolding one loop iteration and splitting on the variable. -/
macro "rv_cases" : tactic =>
  `(tactic| ((repeat' split) <;>
    simp_all [rvDevOnly, rvOwnerOnly, rvIPAddress, rvDevPort, rvOwnerPort, rvDns, rvBypass, rvMedium, rvWifiSsid, rvWifiPw,
      rvExtRV, rvDelaysec, rvSvCertHash, rvClCertHash, rvProtocol, orElse]))

theorem step_urls (dev : Bool) (d : Directive) (i : RvInstr) : (pureStep dev d i).urls = d.urls := by
  simp only [pureStep, dirStep]
  rv_cases

theorem step_bypass (dev : Bool) (d : Directive) (i : RvInstr) :
    (pureStep dev d i).bypass = (d.bypass || decide (i.var = 14)) := by
  simp only [pureStep, dirStep]
  rv_cases

theorem step_eth (dev : Bool) (d : Directive) (i : RvInstr) :
    (pureStep dev d i).eth = orElse (pEth i) d.eth := by
  simp only [pureStep, dirStep, pEth, onVar, readU8]
  rv_cases
  all_goals simp [applyMedium_eth, orElse]

theorem step_wlan (dev : Bool) (d : Directive) (i : RvInstr) :
    (pureStep dev d i).wlan = orElse (pWlan i) d.wlan := by
  simp only [pureStep, dirStep, pWlan, onVar, readU8]
  rv_cases
  all_goals simp [applyMedium_wlan, orElse]

theorem step_ssid (dev : Bool) (d : Directive) (i : RvInstr) :
    (pureStep dev d i).ssid = (pSsid i).getD d.ssid := by
  simp only [pureStep, dirStep, pSsid, onVar, readText]
  rv_cases

theorem step_pass (dev : Bool) (d : Directive) (i : RvInstr) :
    (pureStep dev d i).pass = (pPass i).getD d.pass := by
  simp only [pureStep, dirStep, pPass, onVar, readText]
  rv_cases

theorem step_delay (dev : Bool) (d : Directive) (i : RvInstr) :
    (pureStep dev d i).delay = ((pDelay i).map nsOfSecs).getD d.delay := by
  simp only [pureStep, dirStep, pDelay, onVar, readU32]
  rv_cases
  all_goals rfl

theorem step_svCert (dev : Bool) (d : Directive) (i : RvInstr) :
    (pureStep dev d i).svCert = orElse (pSv i) d.svCert := by
  simp only [pureStep, dirStep, pSv, onVar, readHash]
  rv_cases

theorem step_clCert (dev : Bool) (d : Directive) (i : RvInstr) :
    (pureStep dev d i).clCert = orElse (pCl i) d.clCert := by
  simp only [pureStep, dirStep, pCl, onVar, readHash]
  rv_cases

/-! ### external RV -/

/-- A string read from bytes that are exactly one data item leaves nothing over. -/
theorem decStr_exact (f d : Nat) (p : Bytes) (x : Item) (s r' : Bytes)
    (h : decode (f + 1) d p = some (x, [])) (hs : decStr p = some (s, r')) : r' = [] := by
  unfold decode at h
  unfold decStr at hs
  cases hd : decHead p with
  | none => simp [hd] at hs
  | some q =>
    obtain ⟨mt, ai, arg, r⟩ := q
    simp only [hd] at h hs
    by_cases h2 : mt = 2
    · subst h2
      simp only [show (2:Nat) ≠ 0 by decide, show (2:Nat) ≠ 1 by decide, if_false, if_true, true_or] at h hs
      split at hs
      · cases hs
      · rename_i hc
        rw [if_neg hc] at h
        simp at h hs
        rw [← hs.2]; exact List.drop_eq_nil_of_le h.2
    · by_cases h3 : mt = 3
      · subst h3
        simp only [show (3:Nat) ≠ 0 by decide, show (3:Nat) ≠ 1 by decide, show (3:Nat) ≠ 2 by decide, if_false, if_true, or_true] at h hs
        split at hs
        · cases hs
        · rename_i hc
          rw [if_neg hc] at h
          simp at h hs
          rw [← hs.2]; exact List.drop_eq_nil_of_le h.2
      · simp [h2, h3] at hs

/-- What `ArrayShift` returns as first element is non-empty, and decoding it as a string either
stores nothing or succeeds without trailing bytes. -/
theorem arrayShift_first (v first rest : Bytes) (h : arrayShift v = .ok first rest) :
    first ≠ [] ∧ ∀ s, (unmarshalStr first).stored = some s → (unmarshalStr first).ok = true := by
  unfold arrayShift at h
  cases hd : decHead v with
  | none => simp [hd] at h
  | some q =>
    obtain ⟨mt, ai, arg, r⟩ := q
    simp only [hd] at h
    by_cases hm : mt ≠ 4
    · simp [hm] at h
    · rw [if_neg hm] at h
      by_cases hl : shiftLen ai arg = 0
      · simp [hl] at h
      · rw [if_neg hl] at h
        cases hdec : decode1 r with
        | none => simp [hdec] at h
        | some xr =>
          obtain ⟨x, rest'⟩ := xr
          simp only [hdec] at h
          injection h with h1 h2
          unfold decode1 at hdec
          obtain ⟨p, hp, hlen, hp0⟩ := Cbor.decode_split _ _ _ _ _ hdec
          have hfirst : first = p := by
            rw [← h1, hp]
            simp
          subst hfirst
          refine ⟨by intro h0; simp [h0] at hlen, ?_⟩
          intro s hs
          unfold unmarshalStr at hs ⊢
          cases hstr : decStr first with
          | none => simp [hstr, finish] at hs
          | some sr =>
            obtain ⟨s', r'⟩ := sr
            have := decStr_exact _ _ _ _ _ _ hp0 hstr
            subst this
            simp [finish]

/-- The `case RVExtRV` body in terms of the specification's reader. -/
theorem ext_step (v : Bytes) (d : Directive) :
    (match arrayShift v with
      | .ok first rest => applyExt first rest d
      | .fail => d) =
    (match readExt v with
      | some (m, a) => { d with extMech := m, extArgs := a }
      | none => d) := by
  unfold readExt
  cases hs : arrayShift v with
  | fail => rfl
  | ok first rest =>
    obtain ⟨hne, hok⟩ := arrayShift_first v first rest hs
    simp only [applyExt, readText, Dec.val]
    have he : first.isEmpty = false := by cases first <;> simp_all
    simp only [he]
    cases hu : unmarshalStr first with
    | mk st ok =>
      cases st with
      | none => cases ok <;> simp
      | some s =>
        have := hok s (by simp [hu])
        simp [hu] at this
        subst this
        simp

theorem step_extMech (dev : Bool) (d : Directive) (i : RvInstr) :
    (pureStep dev d i).extMech = ((pExt i).map (·.1)).getD d.extMech := by
  by_cases h : i.var = 15
  · have : pureStep dev d i = (match arrayShift i.value with
        | .ok first rest => applyExt first rest d
        | .fail => d) := by
      simp only [pureStep, dirStep]
      rv_cases
    rw [this, ext_step]
    simp only [pExt, onVar, h, if_true]
    cases readExt i.value with
    | none => rfl
    | some ma => rfl
  · simp only [pureStep, dirStep, pExt, onVar]
    rv_cases

theorem step_extArgs (dev : Bool) (d : Directive) (i : RvInstr) :
    (pureStep dev d i).extArgs = ((pExt i).map (·.2)).getD d.extArgs := by
  by_cases h : i.var = 15
  · have : pureStep dev d i = (match arrayShift i.value with
        | .ok first rest => applyExt first rest d
        | .fail => d) := by
      simp only [pureStep, dirStep]
      rv_cases
    rw [this, ext_step]
    simp only [pExt, onVar, h, if_true]
    cases readExt i.value with
    | none => rfl
    | some ma => rfl
  · simp only [pureStep, dirStep, pExt, onVar]
    rv_cases

/-! ### the whole directive -/

theorem lastValid_map {α β : Type} (p : RvInstr → Option α) (f : α → β) (is : List RvInstr) :
    lastValid (fun i => (p i).map f) is = (lastValid p is).map f := by
  induction is with
  | nil => rfl
  | cons i is ih =>
    simp only [lastValid_cons, ih]
    cases lastValid p is <;> simp [orElse]

theorem foldl_const {σ β : Type} (step : σ → RvInstr → σ) (proj : σ → β)
    (h : ∀ s i, proj (step s i) = proj s) (s : σ) (is : List RvInstr) :
    proj (is.foldl step s) = proj s := by
  induction is generalizing s with
  | nil => rfl
  | cons i is ih => simp only [List.foldl_cons, ih, h]

theorem foldl_bypass (dev : Bool) (d : Directive) (is : List RvInstr) :
    (is.foldl (pureStep dev) d).bypass = (d.bypass || is.any (fun i => i.var = 14)) := by
  induction is generalizing d with
  | nil => simp
  | cons i is ih =>
    simp only [List.foldl_cons, ih, step_bypass, List.any_cons, Bool.or_assoc]

theorem Directive.eta (d : Directive) :
    d = ⟨d.urls, d.bypass, d.eth, d.wlan, d.ssid, d.pass, d.extMech, d.extArgs, d.delay, d.svCert, d.clCert⟩ := by
  cases d; rfl

/-- The loop body folded over a directive, field by field. -/
theorem foldl_pureStep (dev : Bool) (d : Directive) (is : List RvInstr) :
    is.foldl (pureStep dev) d =
      { urls := d.urls
        bypass := d.bypass || is.any (fun i => i.var = 14)
        eth := orElse (lastValid pEth is) d.eth
        wlan := orElse (lastValid pWlan is) d.wlan
        ssid := (lastValid pSsid is).getD d.ssid
        pass := (lastValid pPass is).getD d.pass
        extMech := ((lastValid pExt is).map (·.1)).getD d.extMech
        extArgs := ((lastValid pExt is).map (·.2)).getD d.extArgs
        delay := ((lastValid pDelay is).map nsOfSecs).getD d.delay
        svCert := orElse (lastValid pSv is) d.svCert
        clCert := orElse (lastValid pCl is) d.clCert } := by
  rw [Directive.eta (is.foldl (pureStep dev) d)]
  rw [foldl_const (pureStep dev) (·.urls) (step_urls dev),
    foldl_bypass,
    foldl_field_opt (pureStep dev) (·.eth) pEth (step_eth dev),
    foldl_field_opt (pureStep dev) (·.wlan) pWlan (step_wlan dev),
    foldl_field (pureStep dev) (·.ssid) pSsid (step_ssid dev),
    foldl_field (pureStep dev) (·.pass) pPass (step_pass dev),
    foldl_field (pureStep dev) (·.extMech) (fun i => (pExt i).map (·.1)) (step_extMech dev),
    foldl_field (pureStep dev) (·.extArgs) (fun i => (pExt i).map (·.2)) (step_extArgs dev),
    foldl_field (pureStep dev) (·.delay) (fun i => (pDelay i).map nsOfSecs) (step_delay dev),
    foldl_field_opt (pureStep dev) (·.svCert) pSv (step_svCert dev),
    foldl_field_opt (pureStep dev) (·.clCert) pCl (step_clCert dev),
    lastValid_map, lastValid_map, lastValid_map]

theorem dirStep_none_iff (dev : Bool) (d : Directive) (i : RvInstr) :
    dirStep dev d i = none ↔ i.var = (roleRow dev).otherOnlyVar := by
  simp only [dirStep, roleRow]
  cases dev <;> rv_cases

/-- The loop of `parseDirective`: `nil` iff an other-role marker occurs, else the folded body. -/
theorem dirLoop_eq (dev : Bool) (d : Directive) (is : List RvInstr) :
    dirLoop dev d is =
      if is.any (fun i => i.var = (roleRow dev).otherOnlyVar) then .dropped
      else .ok (is.foldl (pureStep dev) d) := by
  induction is generalizing d with
  | nil => simp [dirLoop]
  | cons i is ih =>
    simp only [dirLoop, List.any_cons, List.foldl_cons]
    cases hs : dirStep dev d i with
    | none =>
      have := (dirStep_none_iff dev d i).mp hs
      simp [this]
    | some d' =>
      have hne : ¬ i.var = (roleRow dev).otherOnlyVar := by
        intro h; rw [(dirStep_none_iff dev d i).mpr h] at hs; cases hs
      have hp : pureStep dev d i = d' := by simp [pureStep, hs]
      simp only [hne, decide_false, Bool.false_or, ih, hp]

/-! ### URLs -/

theorem applyProto_scheme (p : Nat) (a : UrlAcc) :
    (applyProto p a).scheme = (schemeOfProto p).getD a.scheme := by
  unfold applyProto schemeOfProto protoTable
  simp only [List.lookup]
  (repeat' split) <;> simp_all [rvProtHTTP, rvProtHTTPS, rvProtTCP, rvProtTLS, rvProtCoapTCP, rvProtCoapUDP]

theorem applyProto_other (p : Nat) (a : UrlAcc) :
    (applyProto p a).port = a.port ∧ (applyProto p a).dns = a.dns ∧ (applyProto p a).ip = a.ip := by
  unfold applyProto
  (repeat' split) <;> simp

theorem applyProto_dflt (p : Nat) (a : UrlAcc) (h : a.dflt = defaultPort a.scheme) :
    (applyProto p a).dflt = defaultPort (applyProto p a).scheme := by
  unfold applyProto
  (repeat' split) <;> simp_all [defaultPort]

theorem ustep_scheme (dev : Bool) (a : UrlAcc) (i : RvInstr) :
    (urlStep dev a i).scheme = (pScheme i).getD a.scheme := by
  simp only [urlStep, pScheme, onVar, readU8]
  rv_cases
  all_goals simp [applyProto_scheme]

theorem ustep_port (dev : Bool) (a : UrlAcc) (i : RvInstr) :
    (urlStep dev a i).port = orElse (pPort dev i) a.port := by
  simp only [urlStep, pPort, onVar, readU16, roleRow]
  cases dev <;> rv_cases
  all_goals simp_all [(applyProto_other _ _).1, orElse]

theorem ustep_dns (dev : Bool) (a : UrlAcc) (i : RvInstr) :
    (urlStep dev a i).dns = (pDns i).getD a.dns := by
  simp only [urlStep, pDns, onVar, readText]
  rv_cases
  all_goals simp_all [(applyProto_other _ _).2.1]

theorem ustep_ip (dev : Bool) (a : UrlAcc) (i : RvInstr) :
    (urlStep dev a i).ip = (pIp i).getD a.ip := by
  simp only [urlStep, pIp, onVar, readAddr]
  rv_cases
  all_goals simp_all [(applyProto_other _ _).2.2]

theorem ustep_dflt (dev : Bool) (a : UrlAcc) (i : RvInstr) (h : a.dflt = defaultPort a.scheme) :
    (urlStep dev a i).dflt = defaultPort (urlStep dev a i).scheme := by
  simp only [urlStep]
  rv_cases
  all_goals exact applyProto_dflt _ _ h

theorem foldl_dflt (dev : Bool) (a : UrlAcc) (is : List RvInstr) (h : a.dflt = defaultPort a.scheme) :
    (is.foldl (urlStep dev) a).dflt = defaultPort (is.foldl (urlStep dev) a).scheme := by
  induction is generalizing a with
  | nil => exact h
  | cons i is ih => exact ih _ (ustep_dflt dev a i h)

/-- `parseURLs` returns what the tables prescribe. -/
theorem parseURLs_eq_spec (dev : Bool) (is : List RvInstr) :
    parseURLs dev is = specURLs dev is := by
  unfold parseURLs assemble specURLs urlsOf lookups
  have hd := foldl_dflt dev UrlAcc.init is rfl
  rw [hd,
    foldl_field (urlStep dev) (·.scheme) pScheme (ustep_scheme dev),
    foldl_field_opt (urlStep dev) (·.port) (pPort dev) (ustep_port dev),
    foldl_field (urlStep dev) (·.dns) pDns (ustep_dns dev),
    foldl_field (urlStep dev) (·.ip) pIp (ustep_ip dev)]
  simp only [UrlAcc.init, defaultScheme, orElse_none_right]
  cases lastValid (pPort dev) is <;> simp [orElse]

/-- `parseDirective` is the reference interpreter. -/
theorem parseDirective_eq_spec (dev : Bool) (is : List RvInstr) :
    parseDirective dev is = specDirective dev is := by
  unfold parseDirective specDirective
  rw [dirLoop_eq]
  split
  · rfl
  · rw [foldl_pureStep, parseURLs_eq_spec]
    simp only [derive, specURLs, lookups, Directive.zero, Bool.false_or, orElse_none_right]
    cases lastValid pDelay is <;> simp [nsOfSecs]


/-! ## Properties of the reference interpreter -/

theorem onVar_var {α : Type} (v : Nat) (rd : Bytes → Option α) (i : RvInstr) (h : onVar v rd i ≠ none) : i.var = v := by
  unfold onVar at h
  by_cases hv : i.var = v
  · exact hv
  · simp [hv] at h

theorem lookups_perm (dev : Bool) {l l' : List RvInstr} (h : l.Perm l') (hd : (l.map (·.var)).Nodup) :
    lookups dev l = lookups dev l' := by
  unfold lookups
  rw [lastValid_perm pScheme 12 (onVar_var _ _) h hd, lastValid_perm (pPort dev) _ (onVar_var _ _) h hd,
    lastValid_perm pDns 5 (onVar_var _ _) h hd, lastValid_perm pIp 2 (onVar_var _ _) h hd,
    lastValid_perm pEth 11 (onVar_var _ _) h hd, lastValid_perm pWlan 11 (onVar_var _ _) h hd,
    lastValid_perm pSsid 9 (onVar_var _ _) h hd, lastValid_perm pPass 10 (onVar_var _ _) h hd,
    lastValid_perm pExt 15 (onVar_var _ _) h hd, lastValid_perm pDelay 13 (onVar_var _ _) h hd,
    lastValid_perm pSv 6 (onVar_var _ _) h hd, lastValid_perm pCl 7 (onVar_var _ _) h hd]

/-- The reference interpreter does not depend on the order of distinct instructions. -/
theorem spec_perm (dev : Bool) {l l' : List RvInstr} (h : l.Perm l') (hd : (l.map (·.var)).Nodup) :
    specDirective dev l = specDirective dev l' := by
  unfold specDirective
  rw [lookups_perm dev h hd, any_perm _ h, any_perm (fun i => decide (i.var = 14)) h]

theorem any_remove (f : RvInstr → Bool) (l1 l2 : List RvInstr) (i : RvInstr) (h : f i = false) :
    (l1 ++ i :: l2).any f = (l1 ++ l2).any f := by
  simp [List.any_append, h]

macro "mal_case" h:ident hk:ident : tactic =>
  `(tactic| (simp only [malformed, $hk:ident, Option.isNone_iff_eq_none] at $h:ident
             simp at $h:ident
             simp [pScheme, pPort, pDns, pIp, pEth, pWlan, pSsid, pPass, pExt, pDelay, pSv, pCl, onVar, roleRow, $hk:ident, $h:ident]
             try (cases ‹Bool› <;> simp)))

theorem malformed_none (dev : Bool) (i : RvInstr) (h : malformed i = true) :
    pScheme i = none ∧ pPort dev i = none ∧ pDns i = none ∧ pIp i = none ∧ pEth i = none ∧ pWlan i = none ∧
      pSsid i = none ∧ pPass i = none ∧ pExt i = none ∧ pDelay i = none ∧ pSv i = none ∧ pCl i = none := by
  by_cases h2 : i.var = 2
  · mal_case h h2
  by_cases h3 : i.var = 3
  · mal_case h h3
  by_cases h4 : i.var = 4
  · mal_case h h4
  by_cases h5 : i.var = 5
  · mal_case h h5
  by_cases h6 : i.var = 6
  · mal_case h h6
  by_cases h7 : i.var = 7
  · mal_case h h7
  by_cases h9 : i.var = 9
  · mal_case h h9
  by_cases h10 : i.var = 10
  · mal_case h h10
  by_cases h11 : i.var = 11
  · mal_case h h11
  by_cases h12 : i.var = 12
  · mal_case h h12
  by_cases h13 : i.var = 13
  · mal_case h h13
  by_cases h15 : i.var = 15
  · mal_case h h15
  · simp [malformed, *] at h

theorem lookups_remove (dev : Bool) (l1 l2 : List RvInstr) (i : RvInstr) (h : malformed i = true) :
    lookups dev (l1 ++ i :: l2) = lookups dev (l1 ++ l2) := by
  obtain ⟨h1, h2, h3, h4, h5, h6, h7, h8, h9, h10, h11, h12⟩ := malformed_none dev i h
  unfold lookups
  rw [lastValid_remove _ _ _ _ h1, lastValid_remove _ _ _ _ h2, lastValid_remove _ _ _ _ h3, lastValid_remove _ _ _ _ h4,
    lastValid_remove _ _ _ _ h5, lastValid_remove _ _ _ _ h6, lastValid_remove _ _ _ _ h7, lastValid_remove _ _ _ _ h8,
    lastValid_remove _ _ _ _ h9, lastValid_remove _ _ _ _ h10, lastValid_remove _ _ _ _ h11, lastValid_remove _ _ _ _ h12]

/-- An instruction whose value is malformed for its variable is as good as absent. -/
theorem spec_malformed (dev : Bool) (l1 l2 : List RvInstr) (i : RvInstr) (h : malformed i = true) :
    specDirective dev (l1 ++ i :: l2) = specDirective dev (l1 ++ l2) := by
  have hv : i.var ≠ 0 ∧ i.var ≠ 1 ∧ i.var ≠ 14 := by
    unfold malformed at h
    refine ⟨?_, ?_, ?_⟩ <;> intro h0 <;> simp [h0] at h
  unfold specDirective
  rw [lookups_remove dev l1 l2 i h, any_remove _ l1 l2 i, any_remove (fun i => decide (i.var = 14)) l1 l2 i]
  · simp [hv.2.2]
  · simp only [roleRow]; cases dev <;> simp [hv.1, hv.2.1]

/-- Instructions carrying the other role's port variable are as good as absent. -/
theorem spec_other_port (dev : Bool) (l1 l2 : List RvInstr) (i : RvInstr)
    (h : i.var = (roleRow (!dev)).portVar) :
    specDirective dev (l1 ++ i :: l2) = specDirective dev (l1 ++ l2) := by
  have key : pScheme i = none ∧ pPort dev i = none ∧ pDns i = none ∧ pIp i = none ∧ pEth i = none ∧ pWlan i = none ∧
      pSsid i = none ∧ pPass i = none ∧ pExt i = none ∧ pDelay i = none ∧ pSv i = none ∧ pCl i = none := by
    obtain ⟨v, b⟩ := i
    cases dev <;> (simp only [roleRow, Bool.not_true, Bool.not_false] at h; subst h
                   simp [pScheme, pPort, pDns, pIp, pEth, pWlan, pSsid, pPass, pExt, pDelay, pSv, pCl, onVar, roleRow])
  obtain ⟨h1, h2, h3, h4, h5, h6, h7, h8, h9, h10, h11, h12⟩ := key
  unfold specDirective lookups
  rw [lastValid_remove _ _ _ _ h1, lastValid_remove _ _ _ _ h2, lastValid_remove _ _ _ _ h3, lastValid_remove _ _ _ _ h4,
    lastValid_remove _ _ _ _ h5, lastValid_remove _ _ _ _ h6, lastValid_remove _ _ _ _ h7, lastValid_remove _ _ _ _ h8,
    lastValid_remove _ _ _ _ h9, lastValid_remove _ _ _ _ h10, lastValid_remove _ _ _ _ h11, lastValid_remove _ _ _ _ h12,
    any_remove _ l1 l2 i, any_remove (fun i => decide (i.var = 14)) l1 l2 i]
  · cases dev <;> simp_all [roleRow]
  · cases dev <;> simp_all [roleRow]

/-- Every URL of the reference interpreter carries the role's own port variable, else the
default port of its scheme. -/
theorem spec_url_port (dev : Bool) (is : List RvInstr) (u : Url) (h : u ∈ specURLs dev is) :
    u.port = orElse (lastValid (onVar (if dev then 3 else 4) readU16) is) (defaultPort u.scheme) := by
  unfold specURLs urlsOf at h
  have hp : (lookups dev is).port = lastValid (onVar (if dev then 3 else 4) readU16) is := by
    simp only [lookups, pPort, roleRow]; cases dev <;> rfl
  simp only [List.mem_append] at h
  rcases h with h | h
  · split at h
    · simp at h; subst h; simp [hp]
    · cases h
  · split at h
    · simp at h; subst h; simp [hp]
    · cases h


end Fdo.RvProofs
