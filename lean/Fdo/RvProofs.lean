import Fdo.Rv
import Fdo.RvSpec
import Fdo.Cbor.Proofs
import Fdo.RvRepaired
/-
Helper lemmas for C20 (property theorems are in Props/C20.lean).
-/
namespace Fdo.RvProofs
open Fdo Fdo.Cbor Fdo.Rv Fdo.RvSpec

/-! ## `lastValid` -/

theorem orElse_none_right {α : Type} (a : Option α) : orElse a none = a := by
  cases a <;> rfl

theorem lastValid_cons {α : Type} (p : RvInstr → Option α) (i : RvInstr) (is : List RvInstr) :
    lastValid p (i :: is) = orElse (lastValid p is) (p i) := by
  simp only [lastValid]
  cases lastValid p is <;> rfl

theorem lastValid_append {α : Type} (p : RvInstr → Option α) (a b : List RvInstr) :
    lastValid p (a ++ b) = orElse (lastValid p b) (lastValid p a) := by
  induction a with
  | nil => simp [lastValid, orElse_none_right]
  | cons i a ih =>
    simp only [List.cons_append, lastValid_cons, ih]
    cases lastValid p b <;> simp [orElse]

theorem lastValid_congr {α : Type} (p q : RvInstr → Option α) (is : List RvInstr)
    (h : ∀ i ∈ is, p i = q i) : lastValid p is = lastValid q is := by
  induction is with
  | nil => rfl
  | cons i is ih =>
    simp only [lastValid_cons]
    rw [ih (fun j hj => h j (List.mem_cons_of_mem _ hj)), h i (List.mem_cons_self ..)]

/-- An instruction on which `p` yields nothing can be removed. -/
theorem lastValid_remove {α : Type} (p : RvInstr → Option α) (l1 l2 : List RvInstr) (i : RvInstr)
    (h : p i = none) : lastValid p (l1 ++ i :: l2) = lastValid p (l1 ++ l2) := by
  simp only [lastValid_append, lastValid_cons, h, orElse_none_right]

/-- The fold of a loop whose iteration overwrites one field exactly when `p` yields a value
computes the last such value. -/
theorem foldl_field {σ β : Type} (step : σ → RvInstr → σ) (proj : σ → β) (p : RvInstr → Option β)
    (h : ∀ s i, proj (step s i) = (p i).getD (proj s)) (s : σ) (is : List RvInstr) :
    proj (is.foldl step s) = (lastValid p is).getD (proj s) := by
  induction is generalizing s with
  | nil => rfl
  | cons i is ih =>
    simp only [List.foldl_cons, ih, h, lastValid_cons]
    cases lastValid p is <;> simp [orElse]

/-- Same for an `Option` field that is only ever set. -/
theorem foldl_field_opt {σ β : Type} (step : σ → RvInstr → σ) (proj : σ → Option β) (p : RvInstr → Option β)
    (h : ∀ s i, proj (step s i) = orElse (p i) (proj s)) (s : σ) (is : List RvInstr) :
    proj (is.foldl step s) = orElse (lastValid p is) (proj s) := by
  induction is generalizing s with
  | nil => rfl
  | cons i is ih =>
    simp only [List.foldl_cons, ih, h, lastValid_cons]
    cases lastValid p is <;> simp [orElse]

/-- A look-up that reads one variable does not depend on the order of a list in which
every variable occurs at most once. -/
theorem lastValid_perm {α : Type} (p : RvInstr → Option α) (v : Nat)
    (hp : ∀ i, p i ≠ none → i.var = v) {l l' : List RvInstr} (h : l.Perm l')
    (hd : (l.map (·.var)).Nodup) : lastValid p l = lastValid p l' := by
  induction h with
  | nil => rfl
  | cons x _ ih =>
    simp only [lastValid_cons]
    rw [ih (List.nodup_cons.mp (by simpa using hd)).2]
  | swap x y l =>
    simp only [lastValid_cons]
    cases hl : lastValid p l with
    | some a => simp [orElse]
    | none =>
      simp only [orElse]
      cases hx : p x with
      | none => cases hy : p y <;> simp
      | some a =>
        cases hy : p y with
        | none => simp
        | some b =>
          exfalso
          have h1 := hp x (by simp [hx])
          have h2 := hp y (by simp [hy])
          simp only [List.map_cons, List.nodup_cons, List.mem_cons] at hd
          exact hd.1 (Or.inl (by rw [h1, h2]))
  | trans h1 _ ih1 ih2 =>
    rw [ih1 hd, ih2 ((h1.map _).nodup_iff.mp hd)]

theorem any_perm {l l' : List RvInstr} (f : RvInstr → Bool) (h : l.Perm l') : l.any f = l'.any f := by
  rw [Bool.eq_iff_iff]
  simp only [List.any_eq_true]
  constructor
  · rintro ⟨x, hx, hf⟩; exact ⟨x, h.mem_iff.mp hx, hf⟩
  · rintro ⟨x, hx, hf⟩; exact ⟨x, h.mem_iff.mpr hx, hf⟩


/-! ## The repaired loop equals the reference interpreter -/

/-- One loop iteration of `parseDirective` that is not a `return nil`. -/
def pureStep (dev : Bool) (d : Directive) (i : RvInstr) : Directive := (Repaired.dirStep dev d i).getD d

section fields
variable (m : Nat) (f r : Bytes) (d : Directive)
@[simp] theorem applyMedium_urls : (applyMedium m d).urls = d.urls := by unfold applyMedium; (repeat' split) <;> rfl
@[simp] theorem applyMedium_bypass : (applyMedium m d).bypass = d.bypass := by unfold applyMedium; (repeat' split) <;> rfl
@[simp] theorem applyMedium_ssid : (applyMedium m d).ssid = d.ssid := by unfold applyMedium; (repeat' split) <;> rfl
@[simp] theorem applyMedium_pass : (applyMedium m d).pass = d.pass := by unfold applyMedium; (repeat' split) <;> rfl
@[simp] theorem applyMedium_extMech : (applyMedium m d).extMech = d.extMech := by unfold applyMedium; (repeat' split) <;> rfl
@[simp] theorem applyMedium_extArgs : (applyMedium m d).extArgs = d.extArgs := by unfold applyMedium; (repeat' split) <;> rfl
@[simp] theorem applyMedium_delay : (applyMedium m d).delay = d.delay := by unfold applyMedium; (repeat' split) <;> rfl
@[simp] theorem applyMedium_svCert : (applyMedium m d).svCert = d.svCert := by unfold applyMedium; (repeat' split) <;> rfl
@[simp] theorem applyMedium_clCert : (applyMedium m d).clCert = d.clCert := by unfold applyMedium; (repeat' split) <;> rfl
@[simp] theorem applyExt_urls : (Rv.applyExt f r d).urls = d.urls := by unfold Rv.applyExt; (repeat' split) <;> rfl
@[simp] theorem applyExt_bypass : (Rv.applyExt f r d).bypass = d.bypass := by unfold Rv.applyExt; (repeat' split) <;> rfl
@[simp] theorem applyExt_eth : (Rv.applyExt f r d).eth = d.eth := by unfold Rv.applyExt; (repeat' split) <;> rfl
@[simp] theorem applyExt_wlan : (Rv.applyExt f r d).wlan = d.wlan := by unfold Rv.applyExt; (repeat' split) <;> rfl
@[simp] theorem applyExt_ssid : (Rv.applyExt f r d).ssid = d.ssid := by unfold Rv.applyExt; (repeat' split) <;> rfl
@[simp] theorem applyExt_pass : (Rv.applyExt f r d).pass = d.pass := by unfold Rv.applyExt; (repeat' split) <;> rfl
@[simp] theorem applyExt_delay : (Rv.applyExt f r d).delay = d.delay := by unfold Rv.applyExt; (repeat' split) <;> rfl
@[simp] theorem applyExt_svCert : (Rv.applyExt f r d).svCert = d.svCert := by unfold Rv.applyExt; (repeat' split) <;> rfl
@[simp] theorem applyExt_clCert : (Rv.applyExt f r d).clCert = d.clCert := by unfold Rv.applyExt; (repeat' split) <;> rfl

theorem applyMedium_eth : (applyMedium m d).eth = orElse (mediumFor .eth m) d.eth := by
  unfold applyMedium mediumFor mediumTable
  (repeat' split) <;> simp_all [orElse, rvMedEthAll, rvMedWifiAll]

theorem applyMedium_wlan : (applyMedium m d).wlan = orElse (mediumFor .wlan m) d.wlan := by
  unfold applyMedium mediumFor mediumTable
  (repeat' split) <;> simp_all [orElse, rvMedEthAll, rvMedWifiAll]
end fields

/-- Closes the goals that remain after unfolding one loop iteration and splitting on the variable. -/
macro "rv_cases" : tactic =>
  `(tactic| ((repeat' split) <;>
    simp_all [rvDevOnly, rvOwnerOnly, rvIPAddress, rvDevPort, rvOwnerPort, rvDns, rvBypass, rvMedium, rvWifiSsid, rvWifiPw,
      rvExtRV, rvDelaysec, rvSvCertHash, rvClCertHash, rvProtocol, Repaired.applyExt, orElse]))

theorem step_urls (dev : Bool) (d : Directive) (i : RvInstr) : (pureStep dev d i).urls = d.urls := by
  simp only [pureStep, Repaired.dirStep]
  rv_cases

theorem step_bypass (dev : Bool) (d : Directive) (i : RvInstr) :
    (pureStep dev d i).bypass = (d.bypass || decide (i.var = 14)) := by
  simp only [pureStep, Repaired.dirStep]
  rv_cases

theorem step_eth (dev : Bool) (d : Directive) (i : RvInstr) :
    (pureStep dev d i).eth = orElse (pEth i) d.eth := by
  simp only [pureStep, Repaired.dirStep, pEth, onVar, readU8]
  rv_cases
  all_goals simp [applyMedium_eth, orElse]

theorem step_wlan (dev : Bool) (d : Directive) (i : RvInstr) :
    (pureStep dev d i).wlan = orElse (pWlan i) d.wlan := by
  simp only [pureStep, Repaired.dirStep, pWlan, onVar, readU8]
  rv_cases
  all_goals simp [applyMedium_wlan, orElse]

theorem step_ssid (dev : Bool) (d : Directive) (i : RvInstr) :
    (pureStep dev d i).ssid = (pSsid i).getD d.ssid := by
  simp only [pureStep, Repaired.dirStep, pSsid, onVar, readText]
  rv_cases

theorem step_pass (dev : Bool) (d : Directive) (i : RvInstr) :
    (pureStep dev d i).pass = (pPass i).getD d.pass := by
  simp only [pureStep, Repaired.dirStep, pPass, onVar, readText]
  rv_cases

theorem step_delay (dev : Bool) (d : Directive) (i : RvInstr) :
    (pureStep dev d i).delay = ((pDelay i).map nsOfSecs).getD d.delay := by
  simp only [pureStep, Repaired.dirStep, pDelay, onVar, readU32]
  rv_cases
  all_goals rfl

theorem step_svCert (dev : Bool) (d : Directive) (i : RvInstr) :
    (pureStep dev d i).svCert = orElse (pSv i) d.svCert := by
  simp only [pureStep, Repaired.dirStep, pSv, onVar, readHash]
  rv_cases

theorem step_clCert (dev : Bool) (d : Directive) (i : RvInstr) :
    (pureStep dev d i).clCert = orElse (pCl i) d.clCert := by
  simp only [pureStep, Repaired.dirStep, pCl, onVar, readHash]
  rv_cases

/-! ### external RV -/

/-- A string read from bytes that are exactly one data item leaves nothing over. -/
theorem decStr_exact (f d : Nat) (p : Bytes) (x : Item) (s r' : Bytes)
    (h : decode (f + 1) d p = some (x, [])) (hs : decStr p = some (s, r')) : r' = [] := by
  unfold decode at h
  unfold decStr at hs
  cases hd : decHead p with
  | none => simp [hd] at hs
  | some q =>
    obtain ⟨mt, ai, arg, r⟩ := q
    simp only [hd] at h hs
    by_cases h2 : mt = 2
    · subst h2
      simp only [show (2:Nat) ≠ 0 by decide, show (2:Nat) ≠ 1 by decide, if_false, if_true, true_or] at h hs
      split at hs
      · cases hs
      · rename_i hc
        rw [if_neg hc] at h
        simp at h hs
        rw [← hs.2]; exact List.drop_eq_nil_of_le h.2
    · by_cases h3 : mt = 3
      · subst h3
        simp only [show (3:Nat) ≠ 0 by decide, show (3:Nat) ≠ 1 by decide, show (3:Nat) ≠ 2 by decide, if_false, if_true, or_true] at h hs
        split at hs
        · cases hs
        · rename_i hc
          rw [if_neg hc] at h
          simp at h hs
          rw [← hs.2]; exact List.drop_eq_nil_of_le h.2
      · simp [h2, h3] at hs

/-- What `ArrayShift` returns as first element is non-empty, and decoding it as a string either
stores nothing or succeeds without trailing bytes. -/
theorem arrayShift_first (v first rest : Bytes) (h : Repaired.arrayShift v = .ok first rest) :
    first ≠ [] ∧ ∀ s, (unmarshalStr first).stored = some s → (unmarshalStr first).ok = true := by
  unfold Repaired.arrayShift at h
  cases hd : decHead v with
  | none => simp [hd] at h
  | some q =>
    obtain ⟨mt, ai, arg, r⟩ := q
    simp only [hd] at h
    by_cases hm : mt ≠ 4
    · simp [hm] at h
    · rw [if_neg hm] at h
      by_cases hl : shiftLen ai arg = 0
      · simp [hl] at h
      · rw [if_neg hl] at h
        cases hdec : decode1 r with
        | none => simp [hdec] at h
        | some xr =>
          obtain ⟨x, rest'⟩ := xr
          simp only [hdec] at h
          injection h with h1 h2
          unfold decode1 at hdec
          obtain ⟨p, hp, hlen, hp0⟩ := Cbor.decode_split _ _ _ _ _ hdec
          have hfirst : first = p := by
            rw [← h1, hp]
            simp
          subst hfirst
          refine ⟨by intro h0; simp [h0] at hlen, ?_⟩
          intro s hs
          unfold unmarshalStr at hs ⊢
          cases hstr : decStr first with
          | none => simp [hstr, finish] at hs
          | some sr =>
            obtain ⟨s', r'⟩ := sr
            have := decStr_exact _ _ _ _ _ _ hp0 hstr
            subst this
            simp [finish]

theorem arrayShift_eq (v : Bytes) (h : v ≠ []) : Rv.arrayShift v = Repaired.arrayShift v := by
  unfold Rv.arrayShift Repaired.arrayShift
  cases v with
  | nil => exact absurd rfl h
  | cons b r => rfl

theorem arrayShift_nil : Repaired.arrayShift [] = .fail := by
  simp [Repaired.arrayShift, decHead]

/-- The `case RVExtRV` body in terms of the specification's reader. -/
theorem ext_step (v : Bytes) (d : Directive) :
    (match Repaired.arrayShift v with
      | .ok first rest => Repaired.applyExt first rest d
      | _ => d) =
    (match readExt v with
      | some (m, a) => { d with extMech := m, extArgs := a }
      | none => d) := by
  unfold readExt
  by_cases hv : v = []
  · subst hv; simp [arrayShift_nil]
  · simp only [hv, if_false, arrayShift_eq v hv]
    cases hs : Repaired.arrayShift v with
    | panic => rfl
    | fail => rfl
    | ok first rest =>
      obtain ⟨hne, hok⟩ := arrayShift_first v first rest hs
      simp only [Repaired.applyExt, Rv.applyExt, readText, Dec.val]
      have he : first.isEmpty = false := by cases first <;> simp_all
      simp only [he]
      cases hu : unmarshalStr first with
      | mk st ok =>
        cases st with
        | none => cases ok <;> simp
        | some s =>
          have := hok s (by simp [hu])
          simp [hu] at this
          subst this
          simp

theorem step_extMech (dev : Bool) (d : Directive) (i : RvInstr) :
    (pureStep dev d i).extMech = ((pExt i).map (·.1)).getD d.extMech := by
  by_cases h : i.var = 15
  · have : pureStep dev d i = (match Repaired.arrayShift i.value with
        | .ok first rest => Repaired.applyExt first rest d
        | _ => d) := by
      simp only [pureStep, Repaired.dirStep]
      rv_cases
    rw [this, ext_step]
    simp only [pExt, onVar, h, if_true]
    cases readExt i.value with
    | none => rfl
    | some ma => rfl
  · simp only [pureStep, Repaired.dirStep, pExt, onVar]
    rv_cases

theorem step_extArgs (dev : Bool) (d : Directive) (i : RvInstr) :
    (pureStep dev d i).extArgs = ((pExt i).map (·.2)).getD d.extArgs := by
  by_cases h : i.var = 15
  · have : pureStep dev d i = (match Repaired.arrayShift i.value with
        | .ok first rest => Repaired.applyExt first rest d
        | _ => d) := by
      simp only [pureStep, Repaired.dirStep]
      rv_cases
    rw [this, ext_step]
    simp only [pExt, onVar, h, if_true]
    cases readExt i.value with
    | none => rfl
    | some ma => rfl
  · simp only [pureStep, Repaired.dirStep, pExt, onVar]
    rv_cases

/-! ### the whole directive -/

theorem lastValid_map {α β : Type} (p : RvInstr → Option α) (f : α → β) (is : List RvInstr) :
    lastValid (fun i => (p i).map f) is = (lastValid p is).map f := by
  induction is with
  | nil => rfl
  | cons i is ih =>
    simp only [lastValid_cons, ih]
    cases lastValid p is <;> simp [orElse]

theorem foldl_const {σ β : Type} (step : σ → RvInstr → σ) (proj : σ → β)
    (h : ∀ s i, proj (step s i) = proj s) (s : σ) (is : List RvInstr) :
    proj (is.foldl step s) = proj s := by
  induction is generalizing s with
  | nil => rfl
  | cons i is ih => simp only [List.foldl_cons, ih, h]

theorem foldl_bypass (dev : Bool) (d : Directive) (is : List RvInstr) :
    (is.foldl (pureStep dev) d).bypass = (d.bypass || is.any (fun i => i.var = 14)) := by
  induction is generalizing d with
  | nil => simp
  | cons i is ih =>
    simp only [List.foldl_cons, ih, step_bypass, List.any_cons, Bool.or_assoc]

theorem Directive.eta (d : Directive) :
    d = ⟨d.urls, d.bypass, d.eth, d.wlan, d.ssid, d.pass, d.extMech, d.extArgs, d.delay, d.svCert, d.clCert⟩ := by
  cases d; rfl

/-- The loop body folded over a directive, field by field. -/
theorem foldl_pureStep (dev : Bool) (d : Directive) (is : List RvInstr) :
    is.foldl (pureStep dev) d =
      { urls := d.urls
        bypass := d.bypass || is.any (fun i => i.var = 14)
        eth := orElse (lastValid pEth is) d.eth
        wlan := orElse (lastValid pWlan is) d.wlan
        ssid := (lastValid pSsid is).getD d.ssid
        pass := (lastValid pPass is).getD d.pass
        extMech := ((lastValid pExt is).map (·.1)).getD d.extMech
        extArgs := ((lastValid pExt is).map (·.2)).getD d.extArgs
        delay := ((lastValid pDelay is).map nsOfSecs).getD d.delay
        svCert := orElse (lastValid pSv is) d.svCert
        clCert := orElse (lastValid pCl is) d.clCert } := by
  rw [Directive.eta (is.foldl (pureStep dev) d)]
  rw [foldl_const (pureStep dev) (·.urls) (step_urls dev),
    foldl_bypass,
    foldl_field_opt (pureStep dev) (·.eth) pEth (step_eth dev),
    foldl_field_opt (pureStep dev) (·.wlan) pWlan (step_wlan dev),
    foldl_field (pureStep dev) (·.ssid) pSsid (step_ssid dev),
    foldl_field (pureStep dev) (·.pass) pPass (step_pass dev),
    foldl_field (pureStep dev) (·.extMech) (fun i => (pExt i).map (·.1)) (step_extMech dev),
    foldl_field (pureStep dev) (·.extArgs) (fun i => (pExt i).map (·.2)) (step_extArgs dev),
    foldl_field (pureStep dev) (·.delay) (fun i => (pDelay i).map nsOfSecs) (step_delay dev),
    foldl_field_opt (pureStep dev) (·.svCert) pSv (step_svCert dev),
    foldl_field_opt (pureStep dev) (·.clCert) pCl (step_clCert dev),
    lastValid_map, lastValid_map, lastValid_map]

theorem dirStep_none_iff (dev : Bool) (d : Directive) (i : RvInstr) :
    Repaired.dirStep dev d i = none ↔ i.var = (roleRow dev).otherOnlyVar := by
  simp only [Repaired.dirStep, roleRow]
  cases dev <;> rv_cases

/-- The loop of `parseDirective`: `nil` iff an other-role marker occurs, else the folded body. -/
theorem dirLoop_eq (dev : Bool) (d : Directive) (is : List RvInstr) :
    Repaired.dirLoop dev d is =
      if is.any (fun i => i.var = (roleRow dev).otherOnlyVar) then .dropped
      else .ok (is.foldl (pureStep dev) d) := by
  induction is generalizing d with
  | nil => simp [Repaired.dirLoop]
  | cons i is ih =>
    simp only [Repaired.dirLoop, List.any_cons, List.foldl_cons]
    cases hs : Repaired.dirStep dev d i with
    | none =>
      have := (dirStep_none_iff dev d i).mp hs
      simp [this]
    | some d' =>
      have hne : ¬ i.var = (roleRow dev).otherOnlyVar := by
        intro h; rw [(dirStep_none_iff dev d i).mpr h] at hs; cases hs
      have hp : pureStep dev d i = d' := by simp [pureStep, hs]
      simp only [hne, decide_false, Bool.false_or, ih, hp]

/-! ### URLs -/

theorem applyProto_scheme (p : Nat) (a : Repaired.UrlAcc) :
    (Repaired.applyProto p a).scheme = (schemeOfProto p).getD a.scheme := by
  unfold Repaired.applyProto schemeOfProto protoTable
  simp only [List.lookup]
  (repeat' split) <;> simp_all [rvProtHTTP, rvProtHTTPS, rvProtTCP, rvProtTLS, rvProtCoapTCP, rvProtCoapUDP]

theorem applyProto_other (p : Nat) (a : Repaired.UrlAcc) :
    (Repaired.applyProto p a).port = a.port ∧ (Repaired.applyProto p a).dns = a.dns ∧ (Repaired.applyProto p a).ip = a.ip := by
  unfold Repaired.applyProto
  (repeat' split) <;> simp

theorem applyProto_dflt (p : Nat) (a : Repaired.UrlAcc) (h : a.dflt = defaultPort a.scheme) :
    (Repaired.applyProto p a).dflt = defaultPort (Repaired.applyProto p a).scheme := by
  unfold Repaired.applyProto
  (repeat' split) <;> simp_all [defaultPort]

theorem ustep_scheme (dev : Bool) (a : Repaired.UrlAcc) (i : RvInstr) :
    (Repaired.urlStep dev a i).scheme = (pScheme i).getD a.scheme := by
  simp only [Repaired.urlStep, pScheme, onVar, readU8]
  rv_cases
  all_goals simp [applyProto_scheme]

theorem ustep_port (dev : Bool) (a : Repaired.UrlAcc) (i : RvInstr) :
    (Repaired.urlStep dev a i).port = orElse (pPort dev i) a.port := by
  simp only [Repaired.urlStep, pPort, onVar, readU16, roleRow]
  cases dev <;> rv_cases
  all_goals simp_all [(applyProto_other _ _).1, orElse]

theorem ustep_dns (dev : Bool) (a : Repaired.UrlAcc) (i : RvInstr) :
    (Repaired.urlStep dev a i).dns = (pDns i).getD a.dns := by
  simp only [Repaired.urlStep, pDns, onVar, readText]
  rv_cases
  all_goals simp_all [(applyProto_other _ _).2.1]

theorem ustep_ip (dev : Bool) (a : Repaired.UrlAcc) (i : RvInstr) :
    (Repaired.urlStep dev a i).ip = (pIp i).getD a.ip := by
  simp only [Repaired.urlStep, pIp, onVar, readAddr]
  rv_cases
  all_goals simp_all [(applyProto_other _ _).2.2]

theorem ustep_dflt (dev : Bool) (a : Repaired.UrlAcc) (i : RvInstr) (h : a.dflt = defaultPort a.scheme) :
    (Repaired.urlStep dev a i).dflt = defaultPort (Repaired.urlStep dev a i).scheme := by
  simp only [Repaired.urlStep]
  rv_cases
  all_goals exact applyProto_dflt _ _ h

theorem foldl_dflt (dev : Bool) (a : Repaired.UrlAcc) (is : List RvInstr) (h : a.dflt = defaultPort a.scheme) :
    (is.foldl (Repaired.urlStep dev) a).dflt = defaultPort (is.foldl (Repaired.urlStep dev) a).scheme := by
  induction is generalizing a with
  | nil => exact h
  | cons i is ih => exact ih _ (ustep_dflt dev a i h)

/-- `parseURLs` returns what the tables prescribe. -/
theorem parseURLs_eq_spec (dev : Bool) (is : List RvInstr) :
    Repaired.parseURLs dev is = specURLs dev is := by
  unfold Repaired.parseURLs Repaired.assemble specURLs urlsOf lookups
  have hd := foldl_dflt dev Repaired.UrlAcc.init is rfl
  rw [hd,
    foldl_field (Repaired.urlStep dev) (·.scheme) pScheme (ustep_scheme dev),
    foldl_field_opt (Repaired.urlStep dev) (·.port) (pPort dev) (ustep_port dev),
    foldl_field (Repaired.urlStep dev) (·.dns) pDns (ustep_dns dev),
    foldl_field (Repaired.urlStep dev) (·.ip) pIp (ustep_ip dev)]
  simp only [Repaired.UrlAcc.init, defaultScheme, orElse_none_right]
  cases lastValid (pPort dev) is <;> simp [orElse]

/-- The repaired `parseDirective` is the reference interpreter. -/
theorem repaired_eq_spec (dev : Bool) (is : List RvInstr) :
    Repaired.parseDirective dev is = specDirective dev is := by
  unfold Repaired.parseDirective specDirective
  rw [dirLoop_eq]
  split
  · rfl
  · rw [foldl_pureStep, parseURLs_eq_spec]
    simp only [derive, specURLs, lookups, Directive.zero, Bool.false_or, orElse_none_right]
    cases lastValid pDelay is <;> simp [nsOfSecs]


/-! ## Properties of the reference interpreter -/

theorem onVar_var {α : Type} (v : Nat) (rd : Bytes → Option α) (i : RvInstr) (h : onVar v rd i ≠ none) : i.var = v := by
  unfold onVar at h
  by_cases hv : i.var = v
  · exact hv
  · simp [hv] at h

theorem lookups_perm (dev : Bool) {l l' : List RvInstr} (h : l.Perm l') (hd : (l.map (·.var)).Nodup) :
    lookups dev l = lookups dev l' := by
  unfold lookups
  rw [lastValid_perm pScheme 12 (onVar_var _ _) h hd, lastValid_perm (pPort dev) _ (onVar_var _ _) h hd,
    lastValid_perm pDns 5 (onVar_var _ _) h hd, lastValid_perm pIp 2 (onVar_var _ _) h hd,
    lastValid_perm pEth 11 (onVar_var _ _) h hd, lastValid_perm pWlan 11 (onVar_var _ _) h hd,
    lastValid_perm pSsid 9 (onVar_var _ _) h hd, lastValid_perm pPass 10 (onVar_var _ _) h hd,
    lastValid_perm pExt 15 (onVar_var _ _) h hd, lastValid_perm pDelay 13 (onVar_var _ _) h hd,
    lastValid_perm pSv 6 (onVar_var _ _) h hd, lastValid_perm pCl 7 (onVar_var _ _) h hd]

/-- The reference interpreter does not depend on the order of distinct instructions. -/
theorem spec_perm (dev : Bool) {l l' : List RvInstr} (h : l.Perm l') (hd : (l.map (·.var)).Nodup) :
    specDirective dev l = specDirective dev l' := by
  unfold specDirective
  rw [lookups_perm dev h hd, any_perm _ h, any_perm (fun i => decide (i.var = 14)) h]

theorem any_remove (f : RvInstr → Bool) (l1 l2 : List RvInstr) (i : RvInstr) (h : f i = false) :
    (l1 ++ i :: l2).any f = (l1 ++ l2).any f := by
  simp [List.any_append, h]

macro "mal_case" h:ident hk:ident : tactic =>
  `(tactic| (simp only [malformed, $hk:ident, Option.isNone_iff_eq_none] at $h:ident
             simp at $h:ident
             simp [pScheme, pPort, pDns, pIp, pEth, pWlan, pSsid, pPass, pExt, pDelay, pSv, pCl, onVar, roleRow, $hk:ident, $h:ident]
             try (cases ‹Bool› <;> simp)))

theorem malformed_none (dev : Bool) (i : RvInstr) (h : malformed i = true) :
    pScheme i = none ∧ pPort dev i = none ∧ pDns i = none ∧ pIp i = none ∧ pEth i = none ∧ pWlan i = none ∧
      pSsid i = none ∧ pPass i = none ∧ pExt i = none ∧ pDelay i = none ∧ pSv i = none ∧ pCl i = none := by
  by_cases h2 : i.var = 2
  · mal_case h h2
  by_cases h3 : i.var = 3
  · mal_case h h3
  by_cases h4 : i.var = 4
  · mal_case h h4
  by_cases h5 : i.var = 5
  · mal_case h h5
  by_cases h6 : i.var = 6
  · mal_case h h6
  by_cases h7 : i.var = 7
  · mal_case h h7
  by_cases h9 : i.var = 9
  · mal_case h h9
  by_cases h10 : i.var = 10
  · mal_case h h10
  by_cases h11 : i.var = 11
  · mal_case h h11
  by_cases h12 : i.var = 12
  · mal_case h h12
  by_cases h13 : i.var = 13
  · mal_case h h13
  by_cases h15 : i.var = 15
  · mal_case h h15
  · simp [malformed, *] at h

theorem lookups_remove (dev : Bool) (l1 l2 : List RvInstr) (i : RvInstr) (h : malformed i = true) :
    lookups dev (l1 ++ i :: l2) = lookups dev (l1 ++ l2) := by
  obtain ⟨h1, h2, h3, h4, h5, h6, h7, h8, h9, h10, h11, h12⟩ := malformed_none dev i h
  unfold lookups
  rw [lastValid_remove _ _ _ _ h1, lastValid_remove _ _ _ _ h2, lastValid_remove _ _ _ _ h3, lastValid_remove _ _ _ _ h4,
    lastValid_remove _ _ _ _ h5, lastValid_remove _ _ _ _ h6, lastValid_remove _ _ _ _ h7, lastValid_remove _ _ _ _ h8,
    lastValid_remove _ _ _ _ h9, lastValid_remove _ _ _ _ h10, lastValid_remove _ _ _ _ h11, lastValid_remove _ _ _ _ h12]

/-- An instruction whose value is malformed for its variable is as good as absent. -/
theorem spec_malformed (dev : Bool) (l1 l2 : List RvInstr) (i : RvInstr) (h : malformed i = true) :
    specDirective dev (l1 ++ i :: l2) = specDirective dev (l1 ++ l2) := by
  have hv : i.var ≠ 0 ∧ i.var ≠ 1 ∧ i.var ≠ 14 := by
    unfold malformed at h
    refine ⟨?_, ?_, ?_⟩ <;> intro h0 <;> simp [h0] at h
  unfold specDirective
  rw [lookups_remove dev l1 l2 i h, any_remove _ l1 l2 i, any_remove (fun i => decide (i.var = 14)) l1 l2 i]
  · simp [hv.2.2]
  · simp only [roleRow]; cases dev <;> simp [hv.1, hv.2.1]

/-- Instructions carrying the other role's port variable are as good as absent. -/
theorem spec_other_port (dev : Bool) (l1 l2 : List RvInstr) (i : RvInstr)
    (h : i.var = (roleRow (!dev)).portVar) :
    specDirective dev (l1 ++ i :: l2) = specDirective dev (l1 ++ l2) := by
  have key : pScheme i = none ∧ pPort dev i = none ∧ pDns i = none ∧ pIp i = none ∧ pEth i = none ∧ pWlan i = none ∧
      pSsid i = none ∧ pPass i = none ∧ pExt i = none ∧ pDelay i = none ∧ pSv i = none ∧ pCl i = none := by
    obtain ⟨v, b⟩ := i
    cases dev <;> (simp only [roleRow, Bool.not_true, Bool.not_false] at h; subst h
                   simp [pScheme, pPort, pDns, pIp, pEth, pWlan, pSsid, pPass, pExt, pDelay, pSv, pCl, onVar, roleRow])
  obtain ⟨h1, h2, h3, h4, h5, h6, h7, h8, h9, h10, h11, h12⟩ := key
  unfold specDirective lookups
  rw [lastValid_remove _ _ _ _ h1, lastValid_remove _ _ _ _ h2, lastValid_remove _ _ _ _ h3, lastValid_remove _ _ _ _ h4,
    lastValid_remove _ _ _ _ h5, lastValid_remove _ _ _ _ h6, lastValid_remove _ _ _ _ h7, lastValid_remove _ _ _ _ h8,
    lastValid_remove _ _ _ _ h9, lastValid_remove _ _ _ _ h10, lastValid_remove _ _ _ _ h11, lastValid_remove _ _ _ _ h12,
    any_remove _ l1 l2 i, any_remove (fun i => decide (i.var = 14)) l1 l2 i]
  · cases dev <;> simp_all [roleRow]
  · cases dev <;> simp_all [roleRow]

/-- Every URL of the reference interpreter carries the role's own port variable, else the
default port of its scheme. -/
theorem spec_url_port (dev : Bool) (is : List RvInstr) (u : Url) (h : u ∈ specURLs dev is) :
    u.port = orElse (lastValid (onVar (if dev then 3 else 4) readU16) is) (defaultPort u.scheme) := by
  unfold specURLs urlsOf at h
  have hp : (lookups dev is).port = lastValid (onVar (if dev then 3 else 4) readU16) is := by
    simp only [lookups, pPort, roleRow]; cases dev <;> rfl
  simp only [List.mem_append] at h
  rcases h with h | h
  · split at h
    · simp at h; subst h; simp [hp]
    · cases h
  · split at h
    · simp at h; subst h; simp [hp]
    · cases h


/-! ## The current code behaves like the repaired code outside the four defect classes -/

/-- Instructions on which the current code is known to deviate from the repaired code:
empty `RVExtRV` value (panic), `RVDns` value that is stored although `Unmarshal` fails,
`RVIPAddress` value that fails to decode (target reset / partially filled), `RVDelaysec`
outside uint32 (negative or overflowing delay). -/
def cleanInstr (i : RvInstr) : Bool :=
  if i.var = rvExtRV then !i.value.isEmpty
  else if i.var = rvDns then ((unmarshalStr i.value).ok || (unmarshalStr i.value).stored.isNone)
  else if i.var = rvIPAddress then (unmarshalBytes i.value).ok
  else if i.var = rvDelaysec then
    match (unmarshalInt64 i.value).val with
    | some s => decide (0 ≤ s ∧ s ≤ 4294967295)
    | none => true
  else true

/-- Number of `RVProtocol` instructions that select a scheme. -/
def protoCount : List RvInstr → Nat
  | [] => 0
  | i :: is => (if (pScheme i).isSome then 1 else 0) + protoCount is

/-- The guard of the `…_partial` theorems. -/
def clean (is : List RvInstr) : Bool := is.all cleanInstr && decide (protoCount is ≤ 1)

theorem wrapInt64_small (s : Int) (h0 : 0 ≤ s) (h1 : s ≤ 4294967295) :
    wrapInt64 (s * 1000000000) = s * 1000000000 := by
  unfold wrapInt64; omega

theorem int64_u32_some (v : Bytes) (s : Int) (h : (unmarshalInt64 v).val = some s) (h0 : 0 ≤ s) (h1 : s ≤ 4294967295) :
    (unmarshalUint 4294967295 v).val = some s.toNat := by
  unfold unmarshalInt64 unmarshalUint decInt64 decUint at *
  cases hd : decHead v with
  | none => simp [hd, finish, Dec.val] at h
  | some q =>
    obtain ⟨mt, ai, arg, r⟩ := q
    simp only [hd] at h ⊢
    by_cases hc : mt = 0 ∨ (mt = 7 ∧ ai < 20)
    · simp only [hc, if_true] at h ⊢
      by_cases ha : arg ≤ 9223372036854775807
      · simp only [ha, if_true, finish, Dec.val] at h
        split at h
        · injection h with h; subst h
          have : arg ≤ 4294967295 := by omega
          simp_all [finish, Dec.val]
        · cases h
      · simp [ha, finish, Dec.val] at h
    · simp only [hc, if_false] at h
      by_cases h1' : mt = 1
      · simp only [h1', if_true] at h
        by_cases ha : arg ≤ 9223372036854775807
        · simp only [ha, if_true, finish, Dec.val] at h
          split at h
          · injection h with h; omega
          · cases h
        · simp [ha, finish, Dec.val] at h
      · simp [h1', finish, Dec.val] at h

theorem int64_u32_none (v : Bytes) (h : (unmarshalInt64 v).val = none) :
    (unmarshalUint 4294967295 v).val = none := by
  unfold unmarshalInt64 unmarshalUint decInt64 decUint at *
  cases hd : decHead v with
  | none => simp [finish, Dec.val]
  | some q =>
    obtain ⟨mt, ai, arg, r⟩ := q
    simp only [hd] at h ⊢
    by_cases hc : mt = 0 ∨ (mt = 7 ∧ ai < 20)
    · simp only [hc, if_true] at h ⊢
      by_cases ha : arg ≤ 4294967295
      · have : arg ≤ 9223372036854775807 := by omega
        simp_all [finish, Dec.val]
      · simp [ha, finish, Dec.val]
    · simp [hc, finish, Dec.val]

theorem delay_step (v : Bytes) (d : Directive)
    (hc : (match (unmarshalInt64 v).val with
      | some s => decide (0 ≤ s ∧ s ≤ 4294967295)
      | none => true) = true) :
    (match (unmarshalInt64 v).val with
      | some s => Step.cont { d with delay := wrapInt64 (s * 1000000000) }
      | none => Step.cont d) =
    (match (unmarshalUint 4294967295 v).val with
      | some s => Step.cont { d with delay := (s : Int) * 1000000000 }
      | none => Step.cont d) := by
  cases hv : (unmarshalInt64 v).val with
  | none => simp [int64_u32_none v hv]
  | some s =>
    simp only [hv, decide_eq_true_eq] at hc
    rw [int64_u32_some v s hv hc.1 hc.2]
    simp only [wrapInt64_small s hc.1 hc.2]
    congr 2
    omega

def stepOfOpt : Option Directive → Step
  | some d => .cont d
  | none => .drop

theorem arrayShift_no_panic (v : Bytes) : Repaired.arrayShift v ≠ .panic := by
  unfold Repaired.arrayShift
  (repeat' split) <;> simp

theorem dirStep_clean (dev : Bool) (d : Directive) (i : RvInstr) (hc : cleanInstr i = true) :
    Rv.dirStep dev d i = stepOfOpt (Repaired.dirStep dev d i) := by
  unfold cleanInstr at hc
  by_cases h15 : i.var = rvExtRV
  · simp only [h15, if_true, Bool.not_eq_true', List.isEmpty_eq_false_iff] at hc
    have e : Rv.dirStep dev d i = (match Rv.arrayShift i.value with
        | .panic => .panic panicArrayShift
        | .fail => .cont d
        | .ok first rest => .cont (Rv.applyExt first rest d)) := by
      simp only [Rv.dirStep]; rv_cases
    have e' : Repaired.dirStep dev d i = (match Repaired.arrayShift i.value with
        | .ok first rest => some (Repaired.applyExt first rest d)
        | _ => some d) := by
      simp only [Repaired.dirStep]; rv_cases
    rw [e, e', arrayShift_eq _ hc]
    cases hs : Repaired.arrayShift i.value with
    | panic => exact absurd hs (arrayShift_no_panic _)
    | fail => rfl
    | ok f r => rfl
  · by_cases h13 : i.var = rvDelaysec
    · have hd : rvDelaysec ≠ rvExtRV ∧ rvDelaysec ≠ rvDns ∧ rvDelaysec ≠ rvIPAddress := by decide
      simp only [h13, hd.1, hd.2.1, hd.2.2, if_false, if_true] at hc
      have e : Rv.dirStep dev d i = (match (unmarshalInt64 i.value).val with
          | some s => Step.cont { d with delay := wrapInt64 (s * 1000000000) }
          | none => Step.cont d) := by
        simp only [Rv.dirStep]; rv_cases
      have e' : Repaired.dirStep dev d i = (match (unmarshalUint 4294967295 i.value).val with
          | some s => some { d with delay := (s : Int) * 1000000000 }
          | none => some d) := by
        simp only [Repaired.dirStep]; rv_cases
      rw [e, e', delay_step _ _ hc]
      cases (unmarshalUint 4294967295 i.value).val <;> rfl
    · simp only [Rv.dirStep, Repaired.dirStep]
      (repeat' split) <;> simp_all [stepOfOpt]

theorem dirLoop_clean (dev : Bool) (d : Directive) (is : List RvInstr) (hc : is.all cleanInstr = true) :
    Rv.dirLoop dev d is = Repaired.dirLoop dev d is := by
  induction is generalizing d with
  | nil => rfl
  | cons i is ih =>
    simp only [List.all_cons, Bool.and_eq_true] at hc
    simp only [Rv.dirLoop, Repaired.dirLoop, dirStep_clean dev d i hc.1]
    cases Repaired.dirStep dev d i with
    | none => rfl
    | some d' => exact ih d' hc.2

/-! ### URLs of the current code -/

/-- Loop variables of the current `parseURLs` vs the repaired one. -/
def UrlRel (c : Rv.UrlAcc) (r : Repaired.UrlAcc) : Prop :=
  c.scheme = r.scheme ∧ c.dns = r.dns ∧ c.ip = r.ip ∧ c.port = orElse r.port r.dflt

theorem applyProto_rel (p : Nat) (c : Rv.UrlAcc) (r : Repaired.UrlAcc) (h : UrlRel c r)
    (hd : (schemeOfProto p).isSome → r.dflt = none) :
    UrlRel (Rv.applyProto p c) (Repaired.applyProto p r) := by
  obtain ⟨h1, h2, h3, h4⟩ := h
  unfold UrlRel Rv.applyProto Repaired.applyProto
  unfold schemeOfProto protoTable at hd
  simp only [List.lookup] at hd
  by_cases p1 : p = rvProtHTTP
  · have := hd (by simp [p1, rvProtHTTP]); cases hp : r.port <;> simp_all [orElse, orDefault]
  by_cases p2 : p = rvProtHTTPS
  · have := hd (by simp [p2, rvProtHTTPS]); cases hp : r.port <;> simp_all [orElse, orDefault, rvProtHTTP, rvProtHTTPS]
  by_cases p3 : p = rvProtTCP
  · have := hd (by simp [p3, rvProtTCP]); cases hp : r.port <;> simp_all [orElse, orDefault, rvProtHTTP, rvProtHTTPS, rvProtTCP]
  by_cases p4 : p = rvProtTLS
  · have := hd (by simp [p4, rvProtTLS]); cases hp : r.port <;> simp_all [orElse, orDefault, rvProtHTTP, rvProtHTTPS, rvProtTCP, rvProtTLS]
  by_cases p5 : p = rvProtCoapTCP
  · have := hd (by simp [p5, rvProtCoapTCP]); cases hp : r.port <;> simp_all [orElse, orDefault, rvProtHTTP, rvProtHTTPS, rvProtTCP, rvProtTLS, rvProtCoapTCP]
  by_cases p6 : p = rvProtCoapUDP
  · have := hd (by simp [p6, rvProtCoapUDP]); cases hp : r.port <;> simp_all [orElse, orDefault, rvProtHTTP, rvProtHTTPS, rvProtTCP, rvProtTLS, rvProtCoapTCP, rvProtCoapUDP]
  · simp_all

theorem urlStep_rel (dev : Bool) (c : Rv.UrlAcc) (r : Repaired.UrlAcc) (i : RvInstr) (h : UrlRel c r)
    (hc : cleanInstr i = true) (hd : (pScheme i).isSome → r.dflt = none) :
    UrlRel (Rv.urlStep dev c i) (Repaired.urlStep dev r i) := by
  unfold cleanInstr at hc
  unfold Rv.urlStep Repaired.urlStep
  by_cases h12 : i.var = rvProtocol
  · simp only [h12, if_true]
    cases hv : (unmarshalUint 255 i.value).val with
    | none => exact h
    | some p =>
      apply applyProto_rel p c r h
      intro hs
      apply hd
      simp only [pScheme, onVar, readU8]
      simp only [rvProtocol] at h12
      simp [h12, hv, hs]
  · simp only [h12, if_false]
    by_cases hp : i.var = rvDevPort ∨ i.var = rvOwnerPort
    · simp only [hp, if_true]
      split
      · exact h
      · cases (unmarshalUint 65535 i.value).val with
        | none => exact h
        | some p => obtain ⟨h1, h2, h3, h4⟩ := h; exact ⟨h1, h2, h3, by simp [orElse]⟩
    · simp only [hp, if_false]
      by_cases h5 : i.var = rvDns
      · have hne : rvDns ≠ rvExtRV := by decide
        simp only [h5, hne, if_true, if_false, Bool.or_eq_true, Option.isNone_iff_eq_none] at hc
        simp only [h5, if_true, Dec.val]
        obtain ⟨h1, h2, h3, h4⟩ := h
        cases hu : unmarshalStr i.value with
        | mk st ok =>
          simp only [hu] at hc ⊢
          cases st with
          | none => cases ok <;> exact ⟨h1, h2, h3, h4⟩
          | some s =>
            have hok : ok = true := by
              rcases hc with hc | hc
              · exact hc
              · cases hc
            subst hok
            exact ⟨h1, rfl, h3, h4⟩
      · simp only [h5, if_false]
        by_cases h2' : i.var = rvIPAddress
        · have hne : rvIPAddress ≠ rvExtRV ∧ rvIPAddress ≠ rvDns := by decide
          simp only [h2', hne.1, hne.2, if_true, if_false] at hc
          simp only [h2', if_true, Dec.val, hc]
          obtain ⟨h1, h2, h3, h4⟩ := h
          cases (unmarshalBytes i.value).stored with
          | none => exact ⟨h1, h2, h3, h4⟩
          | some s => exact ⟨h1, h2, rfl, h4⟩
        · simp only [h2', if_false]; exact h

theorem urlStep_dflt (dev : Bool) (r : Repaired.UrlAcc) (i : RvInstr) (h : (pScheme i).isSome = false) :
    (Repaired.urlStep dev r i).dflt = r.dflt := by
  simp only [pScheme, onVar, readU8] at h
  unfold Repaired.urlStep
  by_cases h12 : i.var = rvProtocol
  · simp only [h12, if_true]
    simp only [rvProtocol] at h12
    simp only [h12, if_true] at h
    cases hv : (unmarshalUint 255 i.value).val with
    | none => rfl
    | some p =>
      simp only [hv, Option.bind_some] at h
      unfold schemeOfProto protoTable at h
      simp only [List.lookup] at h
      unfold Repaired.applyProto
      (repeat' split) <;> simp_all [rvProtHTTP, rvProtHTTPS, rvProtTCP, rvProtTLS, rvProtCoapTCP, rvProtCoapUDP]
  · simp only [h12, if_false]
    (repeat' split) <;> rfl

theorem foldl_rel (dev : Bool) (is : List RvInstr) (c : Rv.UrlAcc) (r : Repaired.UrlAcc) (h : UrlRel c r)
    (hc : is.all cleanInstr = true) (hn : protoCount is = 0 ∨ (protoCount is ≤ 1 ∧ r.dflt = none)) :
    UrlRel (is.foldl (Rv.urlStep dev) c) (is.foldl (Repaired.urlStep dev) r) := by
  induction is generalizing c r with
  | nil => exact h
  | cons i is ih =>
    simp only [List.all_cons, Bool.and_eq_true] at hc
    simp only [List.foldl_cons]
    simp only [protoCount] at hn
    by_cases hp : (pScheme i).isSome = true
    · simp only [hp, if_true] at hn
      have hd : r.dflt = none := by
        rcases hn with hn | hn
        · omega
        · exact hn.2
      have h0 : protoCount is = 0 := by rcases hn with hn | hn <;> omega
      exact ih _ _ (urlStep_rel dev c r i h hc.1 (fun _ => hd)) hc.2 (Or.inl h0)
    · have hp' : (pScheme i).isSome = false := by simpa using hp
      simp only [hp', Bool.false_eq_true, if_false, Nat.zero_add] at hn
      refine ih _ _ (urlStep_rel dev c r i h hc.1 (fun hs => absurd hs hp)) hc.2 ?_
      rw [urlStep_dflt dev r i hp']
      exact hn

theorem parseURLs_clean (dev : Bool) (is : List RvInstr) (hc : clean is = true) :
    Rv.parseURLs dev is = Repaired.parseURLs dev is := by
  simp only [clean, Bool.and_eq_true, decide_eq_true_eq] at hc
  have h := foldl_rel dev is Rv.UrlAcc.init Repaired.UrlAcc.init ⟨rfl, rfl, rfl, rfl⟩ hc.1 (Or.inr ⟨hc.2, rfl⟩)
  obtain ⟨h1, h2, h3, h4⟩ := h
  unfold Rv.parseURLs Repaired.parseURLs Rv.assemble Repaired.assemble
  rw [h1, h2, h3, h4]
  cases (is.foldl (Repaired.urlStep dev) Repaired.UrlAcc.init).port <;> rfl

/-- Outside the defect classes the current `parseDirective` is the repaired one. -/
theorem current_eq_repaired (dev : Bool) (is : List RvInstr) (hc : clean is = true) :
    Rv.parseDirective dev is = Repaired.parseDirective dev is := by
  unfold Rv.parseDirective Repaired.parseDirective
  rw [parseURLs_clean dev is hc]
  simp only [clean, Bool.and_eq_true] at hc
  exact dirLoop_clean dev _ is hc.1


/-! ### Facts about the current code that need no guard or only the no-empty-RVExtRV guard -/

theorem arrayShift_panic_iff (v : Bytes) : Rv.arrayShift v = .panic ↔ v = [] := by
  cases v with
  | nil => simp [Rv.arrayShift]
  | cons b r =>
    have : Rv.arrayShift (b :: r) = Repaired.arrayShift (b :: r) := arrayShift_eq _ (by simp)
    simp [this, arrayShift_no_panic]

theorem dirStep_panic (dev : Bool) (d : Directive) (i : RvInstr) (s : String)
    (h : Rv.dirStep dev d i = .panic s) : i.var = rvExtRV ∧ i.value = [] := by
  by_cases h15 : i.var = rvExtRV
  · refine ⟨h15, ?_⟩
    have e : Rv.dirStep dev d i = (match Rv.arrayShift i.value with
        | .panic => .panic panicArrayShift
        | .fail => .cont d
        | .ok first rest => .cont (Rv.applyExt first rest d)) := by
      simp only [Rv.dirStep]; rv_cases
    rw [e] at h
    cases hs : Rv.arrayShift i.value with
    | panic => exact (arrayShift_panic_iff _).mp hs
    | fail => simp [hs] at h
    | ok f r => simp [hs] at h
  · exfalso
    simp only [Rv.dirStep] at h
    (repeat' split at h) <;> simp_all

theorem dirStep_marker (dev : Bool) (d : Directive) (i : RvInstr) (h : i.var = (roleRow dev).otherOnlyVar) :
    Rv.dirStep dev d i = .drop := by
  simp only [roleRow] at h
  simp only [Rv.dirStep]
  cases dev <;> simp_all [rvDevOnly, rvOwnerOnly]

/-- Without an empty `RVExtRV` value the loop never panics. -/
theorem dirLoop_no_panic (dev : Bool) (d : Directive) (is : List RvInstr)
    (h : ∀ i ∈ is, i.var = rvExtRV → i.value ≠ []) (s : String) : Rv.dirLoop dev d is ≠ .panic s := by
  induction is generalizing d with
  | nil => simp [Rv.dirLoop]
  | cons i is ih =>
    simp only [Rv.dirLoop]
    cases hs : Rv.dirStep dev d i with
    | cont d' => exact ih d' (fun j hj => h j (List.mem_cons_of_mem _ hj))
    | drop => simp
    | panic s' =>
      have := dirStep_panic dev d i s' hs
      exact absurd this.2 (h i (List.mem_cons_self ..) this.1)

/-- Without an empty `RVExtRV` value a marker of the other role drops the directive. -/
theorem dirLoop_marker (dev : Bool) (d : Directive) (is : List RvInstr)
    (h : ∀ i ∈ is, i.var = rvExtRV → i.value ≠ [])
    (hm : ∃ i ∈ is, i.var = (roleRow dev).otherOnlyVar) : Rv.dirLoop dev d is = .dropped := by
  induction is generalizing d with
  | nil => obtain ⟨i, hi, _⟩ := hm; cases hi
  | cons i is ih =>
    simp only [Rv.dirLoop]
    by_cases hi : i.var = (roleRow dev).otherOnlyVar
    · simp [dirStep_marker dev d i hi]
    · cases hs : Rv.dirStep dev d i with
      | cont d' =>
        apply ih d' (fun j hj => h j (List.mem_cons_of_mem _ hj))
        obtain ⟨j, hj, hv⟩ := hm
        rcases List.mem_cons.mp hj with rfl | hj
        · exact absurd hv hi
        · exact ⟨j, hj, hv⟩
      | drop => rfl
      | panic s' =>
        have := dirStep_panic dev d i s' hs
        exact absurd this.2 (h i (List.mem_cons_self ..) this.1)

theorem all_perm {l l' : List RvInstr} (f : RvInstr → Bool) (h : l.Perm l') : l.all f = l'.all f := by
  rw [Bool.eq_iff_iff]
  simp only [List.all_eq_true]
  constructor
  · intro hx x hm; exact hx x (h.mem_iff.mpr hm)
  · intro hx x hm; exact hx x (h.mem_iff.mp hm)

theorem protoCount_perm {l l' : List RvInstr} (h : l.Perm l') : protoCount l = protoCount l' := by
  induction h with
  | nil => rfl
  | cons x _ ih => simp only [protoCount, ih]
  | swap x y l => simp only [protoCount]; omega
  | trans _ _ ih1 ih2 => rw [ih1, ih2]

theorem clean_perm {l l' : List RvInstr} (h : l.Perm l') : clean l = clean l' := by
  unfold clean
  rw [all_perm _ h, protoCount_perm h]

theorem protoCount_append (a b : List RvInstr) : protoCount (a ++ b) = protoCount a + protoCount b := by
  induction a with
  | nil => simp [protoCount]
  | cons i a ih => simp only [List.cons_append, protoCount, ih]; omega

theorem clean_remove (l1 l2 : List RvInstr) (i : RvInstr) (h : clean (l1 ++ i :: l2) = true) :
    clean (l1 ++ l2) = true := by
  simp only [clean, Bool.and_eq_true, decide_eq_true_eq, List.all_append, List.all_cons, protoCount_append, protoCount] at h ⊢
  refine ⟨⟨h.1.1, h.1.2.2⟩, ?_⟩
  have := h.2
  omega

/-- The other role's port variable is never looked at (current code, no guard). -/
theorem urlStep_other_port (dev : Bool) (a : Rv.UrlAcc) (i : RvInstr) (h : i.var = (roleRow (!dev)).portVar) :
    Rv.urlStep dev a i = a := by
  simp only [roleRow] at h
  unfold Rv.urlStep
  cases dev <;> simp_all [rvProtocol, rvDevPort, rvOwnerPort]

theorem dirStep_other_port (dev : Bool) (d : Directive) (i : RvInstr) (h : i.var = (roleRow (!dev)).portVar) :
    Rv.dirStep dev d i = .cont d := by
  simp only [roleRow] at h
  unfold Rv.dirStep
  cases dev <;> simp_all [rvDevOnly, rvOwnerOnly, rvBypass, rvMedium, rvWifiSsid, rvWifiPw, rvExtRV, rvDelaysec, rvSvCertHash, rvClCertHash]

theorem dirLoop_remove (dev : Bool) (d : Directive) (l1 l2 : List RvInstr) (i : RvInstr)
    (h : ∀ d, Rv.dirStep dev d i = .cont d) : Rv.dirLoop dev d (l1 ++ i :: l2) = Rv.dirLoop dev d (l1 ++ l2) := by
  induction l1 generalizing d with
  | nil => simp [Rv.dirLoop, h]
  | cons j l1 ih =>
    simp only [List.cons_append, Rv.dirLoop]
    cases Rv.dirStep dev d j with
    | cont d' => exact ih d'
    | drop => rfl
    | panic s => rfl

theorem parse_other_port (dev : Bool) (l1 l2 : List RvInstr) (i : RvInstr) (h : i.var = (roleRow (!dev)).portVar) :
    Rv.parseDirective dev (l1 ++ i :: l2) = Rv.parseDirective dev (l1 ++ l2) := by
  unfold Rv.parseDirective Rv.parseURLs
  rw [List.foldl_append, List.foldl_cons, urlStep_other_port dev _ i h, ← List.foldl_append]
  exact dirLoop_remove dev _ l1 l2 i (fun d => dirStep_other_port dev d i h)

end Fdo.RvProofs
