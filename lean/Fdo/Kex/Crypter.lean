import Fdo.Cose.Sign1
import Fdo.Prim.Modes
/-
The TO2 tunnel: `kex.SessionCrypter.Decrypt` / `Encrypt` over COSE_Encrypt0 (AEAD suites) and
COSE_Mac0 around COSE_Encrypt0 (encrypt-then-MAC suites), abstract in the primitives.
-/
namespace Fdo.Kex
open Fdo Fdo.Cbor Fdo.Cose

/-- Symmetric primitives (instantiated with the Lean AES-GCM/CTR/CBC and HMAC in the driver). -/
structure Prims where
  aeadOpen : Bytes → Bytes → Bytes → Bytes → Option Bytes   -- key nonce aad ct
  aeadSeal : Bytes → Bytes → Bytes → Bytes → Option Bytes   -- key nonce aad pt
  ctr : Bytes → Bytes → Bytes → Option Bytes                -- key iv data (encrypt = decrypt)
  cbcDec : Bytes → Bytes → Bytes → Option Bytes             -- key iv ct → padded plaintext
  cbcEnc : Bytes → Bytes → Bytes → Option Bytes
  mac : Int → Bytes → Bytes → Option Bytes                  -- MAC algorithm id, key, message

inductive EncKind where | aead | ctr | cbc
  deriving Repr, DecidableEq

/-- A cipher suite as the crypter uses it (rows of the regenerated registries). -/
structure Suite where
  encAlg : Int
  kind : EncKind
  encKeyBytes : Nat
  macAlg : Int          -- 0: AEAD suite, no COSE_Mac0
  macKeyBytes : Nat
  deriving Repr

/-- Strict PKCS#7 unpadding for 16-byte blocks. -/
def unpad16 (b : Bytes) : Option Bytes :=
  match b.getLast? with
  | none => none
  | some p =>
    let n := p.toNat
    if n = 0 ∨ n > 16 ∨ n > b.length then none
    else if (b.drop (b.length - n)).all (· == p) then some (b.take (b.length - n)) else none

/-- Enc_structure for COSE_Encrypt0 with empty external data: ["Encrypt0", protected, h'']. -/
def encStructure (prot : List (Val × AnyVal)) : Bytes :=
  encode (.arr (.cons (.tstr "Encrypt0".toUTF8.toList) (.cons (.bstr (encProtected prot)) (.cons (.bstr []) .nil))))

/-- Header value as `HeaderMap.Parse(label, &[]byte)` reads it. -/
def hdrBytes (m : List (Val × AnyVal)) (l : Int) : Option Bytes :=
  match hdrGet m l with
  | none | some .null => none
  | some a =>
    match unmarshalS (fun _ => true) .bytes (encodeAny a) with
    | some (.bytes b) => some b
    | _ => none

def hdrInt (m : List (Val × AnyVal)) (l : Int) : Option Int :=
  match hdrGet m l with
  | some (.int i) => some i
  | _ => none

/-- The cipher-specific part of `Crypter.Decrypt`: IV length, ciphertext shape, padding. -/
def cipherOpen (P : Prims) (s : Suite) (sek iv : Bytes) (prot : List (Val × AnyVal)) (c : Bytes) : Option Bytes :=
  match s.kind with
  | .aead => if iv.length ≠ 12 then none else P.aeadOpen sek iv (encStructure prot) c
  | .ctr => if iv.length ≠ 16 then none else P.ctr sek iv c
  | .cbc => if iv.length ≠ 16 ∨ c.isEmpty ∨ c.length % 16 ≠ 0 then none else (P.cbcDec sek iv c).bind unpad16

/-- The algorithm header: protected for AEAD algorithms, unprotected otherwise. -/
def algHeader (s : Suite) (prot unprot : List (Val × AnyVal)) : Option Int :=
  if s.kind = .aead then hdrInt prot 1 else hdrInt unprot 1

/-- `Encrypt0.Decrypt` on the decoded structure `.strct [.hdr prot unprot, ciphertextPtr]`;
the plaintext must be exactly one CBOR item (it is unmarshalled into RawBytes). -/
def decryptEnc0 (P : Prims) (s : Suite) (sek : Bytes) (e0 : Val) : Option Bytes :=
  match e0 with
  | .strct [.hdr prot unprot, .ref (.bytes c)] =>
    if algHeader s prot unprot ≠ some s.encAlg ∨ sek.length ≠ s.encKeyBytes then none else
    (hdrBytes unprot 5).bind fun iv =>
    (cipherOpen P s sek iv prot c).bind fun p =>
    (unmarshalRaw p).bind fun _ => some p
  | _ => none


/-! ### the sending side -/

/-- IV / nonce size of the suite's cipher (`NonceSize` of GCM, the AES block size otherwise). -/
def ivLen (s : Suite) : Nat := if s.kind = .aead then 12 else 16

/-- The cipher-specific part of `Crypter.Encrypt` for the IV drawn from the random source:
AEAD seal over Enc_structure, CTR keystream, CBC over the PKCS#7-padded plaintext. -/
def cipherSeal (P : Prims) (s : Suite) (sek iv : Bytes) (prot : List (Val × AnyVal)) (p : Bytes) : Option Bytes :=
  match s.kind with
  | .aead => if iv.length ≠ 12 then none else P.aeadSeal sek iv (encStructure prot) p
  | .ctr => if iv.length ≠ 16 then none else P.ctr sek iv p
  | .cbc => if iv.length ≠ 16 then none else P.cbcEnc sek iv (Fdo.Prim.pad p 16)

/-- `Encrypt0.Encrypt`: algorithm in the protected header for AEAD algorithms and in the unprotected one
otherwise, the IV (the next `ivLen` bytes of the random source) in the unprotected header. Returns the
decoded form of the COSE_Encrypt0. -/
def encryptEnc0 (P : Prims) (s : Suite) (sek iv : Bytes) (p : Bytes) : Option Val :=
  if sek.length ≠ s.encKeyBytes then none else
  let prot : List (Val × AnyVal) := if s.kind = .aead then [(.int 1, .int s.encAlg)] else []
  let unprot : List (Val × AnyVal) := if s.kind = .aead then [(.int 5, .bytes iv)] else [(.int 1, .int s.encAlg), (.int 5, .bytes iv)]
  (cipherSeal P s sek iv prot p).bind fun c => some (.strct [.hdr prot unprot, .ref (.bytes c)])

/-- `SessionCrypter.Encrypt` of the marshalled payload `p` with the random stream `rnd`: (tag number,
decoded content, unread rest of the random stream). AEAD suites send the COSE_Encrypt0 under tag 16;
the others wrap it in a COSE_Mac0 (tag 17) whose protected header names the MAC algorithm and whose
value is the MAC over MAC_structure of the encoded COSE_Encrypt0. -/
def encryptVal (P : Prims) (s : Suite) (sek svk : Bytes) (enc0S : Schema) (rnd p : Bytes) : Option (Nat × Val × Bytes) :=
  if rnd.length < ivLen s then none else
  (encryptEnc0 P s sek (rnd.take (ivLen s)) p).bind fun e0 =>
  if s.macAlg = 0 then some (16, e0, rnd.drop (ivLen s))
  else if svk.length ≠ s.macKeyBytes then none else
    (marshalS enc0S e0).bind fun e0b =>
    let prot : List (Val × AnyVal) := [(.int 1, .int s.macAlg)]
    (P.mac s.macAlg svk (toBeSigned ctxMac0 (encProtected prot) [] e0b)).bind fun m =>
    some (17, .strct [.hdr prot [], .ref e0, .bytes m], rnd.drop (ivLen s))

/-- the IV a sent message carries -/
def ivOfEnc0 : Val → Option Bytes
  | .strct [.hdr _ unprot, _] => hdrBytes unprot 5
  | _ => none
def ivOfSent (t : Nat) (inner : Val) : Option Bytes :=
  if t = 16 then ivOfEnc0 inner else
  match inner with
  | .strct [_, .ref e0, _] => ivOfEnc0 e0
  | _ => none

inductive Dec where
  | ok (plain : Bytes)
  | reject
  deriving Repr, DecidableEq

/-- `SessionCrypter.Decrypt` on the decoded outer tag: `t` = tag number, `inner` = the decoded
content (an Encrypt0 structure for 16, a Mac0 structure for 17), `enc0S` = schema of Encrypt0
(to re-encode the MACed payload). -/
def decryptVal (P : Prims) (s : Suite) (sek svk : Bytes) (enc0S : Schema) (t : Nat) (inner : Val) : Dec :=
  if t = 16 then
    -- a bare COSE_Encrypt0 is only acceptable for an AEAD suite
    if s.macAlg ≠ 0 then .reject else
    match decryptEnc0 P s sek inner with
    | some p => .ok p
    | none => .reject
  else if t = 17 then
    if s.macAlg = 0 then .reject else
    match inner with
    | .strct [.hdr prot _, pay, .bytes tag] =>
      match pay with
      | .ref e0 =>
        match marshalS enc0S e0 with
        | none => .reject
        | some e0b =>
          if svk.length ≠ s.macKeyBytes then .reject else
          -- Digest sets the suite's MAC algorithm in the protected header, then MACs MAC_structure
          let prot' := vmapSet prot (.int 1) (.int s.macAlg)
          match P.mac s.macAlg svk (toBeSigned ctxMac0 (encProtected prot') [] e0b) with
          | none => .reject
          | some m =>
            if m ≠ tag then .reject else
            match decryptEnc0 P s sek e0 with
            | some p => .ok p
            | none => .reject
      | _ => .reject
    | _ => .reject
  else .reject

end Fdo.Kex
