import Fdo.Bytes
import Fdo.Cbor.Item
import Fdo.Kex.Kdf
import Fdo.Gen.Kex
/-
Key-exchange model (anchors /repo/kex/{dh,ecdh,oaep,crypter,cipher,suite,kex}.go).

What Lean computes itself: modular exponentiation, the DH validity checks, all byte encodings,
the ecdhParam wire format, shSe assembly, the KDF loop, the SEK/SVK split, the persist structs.
What is an oracle (parameters of the functions below, universally quantified in the theorems,
answered by Go's standard library in the correspondence run): the ECDH point multiplication and
point validation, RSA-OAEP, and the PRF (HMAC).

The session steps model the REPAIRED library state (fix-1.patch): `SetParameter` on a session that
holds no private part is an error instead of a nil dereference, `ECDHSession.UnmarshalCBOR`
selects the curve from the persisted `RandSize`, `ecdhParam.UnmarshalBinary` refuses trailing
bytes, and the random parameter is read with `io.ReadFull` (so the functions below take exactly
`paramSize` / `randSize` random bytes).
The unrepaired behaviour is kept as `…Unfixed` where a theorem exhibits the difference.
Core Lean only.
-/
namespace Fdo.Kex
open Fdo Fdo.Cbor

/-! ### outcome plumbing -/

def Outcome.bind {α β : Type} (o : Outcome α) (f : α → Outcome β) : Outcome β :=
  match o with
  | .ok a => f a
  | .reject => .reject
  | .panic s => .panic s

def Outcome.isOk {α : Type} : Outcome α → Bool
  | .ok _ => true
  | _ => false

/-! ### big.Int byte encodings -/

/-- `big.Int.Bytes()`: minimal-width big-endian, zero is the empty string. -/
def minBytes (n : Nat) : Bytes :=
  if h : n = 0 then [] else minBytes (n / 256) ++ [UInt8.ofNat (n % 256)]
termination_by n
decreasing_by omega

/-- `len(p.Bytes())`. -/
def byteLen (n : Nat) : Nat := (minBytes n).length

/-- `big.Int.FillBytes(buf)`: fixed width with leading zeros; panics when the value does not fit. -/
def fillBytes (width n : Nat) : Outcome Bytes :=
  if n < 256 ^ width then .ok (natBE width n) else .panic "big.Int.FillBytes: buffer too small"

def zeros (n : Nat) : Bytes := List.replicate n 0

/-! ### modular exponentiation (`big.Int.Exp(x, y, m)` for m > 0, y ≥ 0) -/

/-- Right-to-left square-and-multiply. -/
def powMod (b e m : Nat) : Nat :=
  if h : e = 0 then 1 % m
  else
    let r := powMod (b * b % m) (e / 2) m
    if e % 2 = 1 then b * r % m else r
termination_by e
decreasing_by omega

/-! ### Diffie-Hellman (dh.go) -/

/-- Static configuration of a DHSession. -/
structure DhGroup where
  p : Nat
  g : Nat
  paramSize : Nat
  deriving Repr, DecidableEq

/-- The regenerated group of a suite name. -/
def dhGroupOf (suite : String) : Option DhGroup :=
  (Fdo.Gen.Kex.dhGroups.find? (fun r => r.suite == suite)).map (fun r => ⟨r.p, r.g, r.paramSize⟩)

/-- `new(big.Int).Exp(g, x, p)`. -/
def dhPublic (G : DhGroup) (secret : Nat) : Nat := powMod G.g secret G.p

/-- The check on the received public value: `other.Cmp(2) < 0 || other.Cmp(p-2) > 0` rejects. -/
def dhPeerValid (p y : Nat) : Bool := decide (2 ≤ y) && decide ((y : Int) ≤ (p : Int) - 2)

/-- The check on the shared secret: `secret.Cmp(1) <= 0 || secret.Cmp(p-1) == 0` rejects. -/
def dhSecretValid (p s : Nat) : Bool := !(decide (s ≤ 1) || decide ((s : Int) = (p : Int) - 1))

/-- Shared value `other^own mod p` after the peer check (no secret check yet). -/
def dhSharedNat (p peer own : Nat) : Nat := powMod peer own p

/-- `dhSymmetricKey` up to and including `secretInt.FillBytes(shSe)`: the fixed-width shared
secret, or the error. -/
def dhShared (p peer own : Nat) : Outcome Bytes :=
  if !dhPeerValid p peer then .reject
  else
    let s := dhSharedNat p peer own
    if !dhSecretValid p s then .reject
    else fillBytes (byteLen p) s

/-! ### cipher-suite registry (regenerated) and the SEK/SVK split -/

abbrev CipherRow := Fdo.Gen.Kex.CipherRow

/-- `CipherSuiteID.Suite()`; `none` is the "cipher suite not registered" panic. -/
def cipherRow (id : Int) : Option CipherRow := Fdo.Gen.Kex.cipherSuites.find? (fun r => r.id == id)

/-- `(sekSize+svkSize)*8` in uint16 arithmetic. -/
def kdfBits (c : CipherRow) : Nat := ((c.encKeyBytes + c.macKeyBytes) * 8) % 65536

/-- `symKey[:sekSize], symKey[sekSize:]`. -/
def splitKeys (c : CipherRow) (km : Bytes) : Outcome (Bytes × Bytes) :=
  if c.encKeyBytes ≤ km.length then .ok (km.take c.encKeyBytes, km.drop c.encKeyBytes)
  else .panic "kex:slice bounds"

/-- The tail shared by the three `…SymmetricKey` functions: KDF, then split. -/
def deriveKeys (prf : Bytes → Bytes → Bytes) (c : CipherRow) (shSe ctxRand : Bytes) : Outcome (Bytes × Bytes) :=
  (kdfCode prf c.prfBytes (kdfBits c) shSe ctxRand).bind (splitKeys c)

/-! ### ecdhParam (ecdh.go) -/

/-- One length-prefixed field; `none` = io.ErrUnexpectedEOF. -/
def takeField (b : Bytes) : Option (Bytes × Bytes) :=
  if b.length < 2 then none
  else
    let n := beNat (b.take 2)
    let r := b.drop 2
    if r.length < n then none else some (r.take n, r.drop n)

/-- The three raw fields `(x, y, rand)` and whatever follows them (ignored by the library). -/
def ecdhParamFields (b : Bytes) : Option (Bytes × Bytes × Bytes × Bytes) :=
  match takeField b with
  | none => none
  | some (x, b1) =>
    match takeField b1 with
    | none => none
    | some (y, b2) =>
      match takeField b2 with
      | none => none
      | some (r, rest) => some (x, y, r, rest)

def encField (f : Bytes) : Bytes := natBE 2 f.length ++ f

/-- Wire form of three fields. -/
def ecdhParamEncFields (x y r : Bytes) : Bytes := encField x ++ (encField y ++ encField r)

/-- `ecdhParam.UnmarshalBinary` (repaired: bytes after the third field are an error):
`(Pub, Rand)` with `Pub = 04 ‖ x ‖ y`, both coordinates re-padded to `max(len x, len y)` through
`SetBytes/FillBytes`. -/
def ecdhParamDecode (b : Bytes) : Option (Bytes × Bytes) :=
  match ecdhParamFields b with
  | some (x, y, r, []) =>
    let pl := max x.length y.length
    some (4 :: (natBE pl (beNat x) ++ natBE pl (beNat y)), r)
  | _ => none

/-- `ecdhParam.UnmarshalBinary` before the repair: whatever follows the third field is ignored. -/
def ecdhParamDecodeUnfixed (b : Bytes) : Option (Bytes × Bytes) :=
  match ecdhParamFields b with
  | none => none
  | some (x, y, r, _) =>
    let pl := max x.length y.length
    some (4 :: (natBE pl (beNat x) ++ natBE pl (beNat y)), r)

/-- `ecdhParam.MarshalBinary`, quirks included: `(len(Pub)-1)/2` truncates toward zero, the
marker byte is not looked at, an odd tail byte is dropped. -/
def ecdhParamMarshal (pub rand : Bytes) : Outcome Bytes :=
  let pl := (pub.length - 1) / 2
  if pl > 65535 then .panic "invalid public key - too large"
  else if rand.length > 65535 then .reject
  else if pub.length = 0 then .panic "ecdh:slice bounds"
  else
    let x := (pub.drop 1).take pl
    let y := (pub.drop (1 + pl)).take pl
    .ok (natBE 2 pl ++ x ++ (natBE 2 pl ++ y) ++ (natBE 2 rand.length ++ rand))

/-- How shSe is put together for ECDH: shared x, then the DEVICE's random, then the OWNER's. -/
def ecdhShSe (shx randB randA : Bytes) : Bytes := shx ++ (randB ++ randA)

/-- The ECDH oracle: everything crypto/ecdh does for one curve. -/
structure EcdhOracle where
  /-- `curve.NewPrivateKey(b)` succeeds -/
  validPriv : Bytes → Bool
  /-- `key.PublicKey().Bytes()` -/
  pubOf : Bytes → Bytes
  /-- `curve.NewPublicKey(b)` succeeds (right length, on curve, not infinity) -/
  validPub : Bytes → Bool
  /-- `key.ECDH(pub)` -/
  ecdh : Bytes → Bytes → Bytes

/-- `ecdhSharedSecret` after both params parsed; `key = none` is the nil private key. -/
def ecdhSharedSecret (O : EcdhOracle) (key : Option Bytes) (pA pB : Bytes × Bytes) : Outcome Bytes :=
  match key with
  | none => .panic "ecdh:nil private key"
  | some k =>
    let own := O.pubOf k
    let other? : Option Bytes :=
      if pA.1 = own then some pB.1 else if pB.1 = own then some pA.1 else none
    match other? with
    | none => .reject
    | some other =>
      if !O.validPub other then .reject
      else .ok (ecdhShSe (O.ecdh k other) pB.2 pA.2)

/-- `ecdhSymmetricKey` up to the KDF. -/
def ecdhShared (O : EcdhOracle) (key : Option Bytes) (xA xB : Bytes) : Outcome Bytes :=
  match ecdhParamDecode xA with
  | none => .reject
  | some pA =>
    match ecdhParamDecode xB with
    | none => .reject
    | some pB => ecdhSharedSecret O key pA pB

/-! ### sessions -/

/-- `SessionCrypter`: cipher id and the two keys (`Cipher` is `ID.Suite()`). -/
structure Crypter where
  cipher : Int
  sek : Bytes
  svk : Bytes
  deriving Repr, DecidableEq

/-- `DHSession`. `none` = nil `*big.Int`. -/
structure DhSession where
  p : Nat
  g : Nat
  paramSize : Nat
  a : Option Nat
  xA : Option Nat
  b : Option Nat
  xB : Option Nat
  cr : Crypter
  deriving Repr, DecidableEq

/-- The registered constructor; `xA = none` for the server. -/
def dhNew (G : DhGroup) (xA : Option Bytes) (cipher : Int) : Outcome DhSession :=
  match cipherRow cipher with
  | none => .panic "cipher suite not registered"
  | some _ => .ok ⟨G.p, G.g, G.paramSize, none, xA.map beNat, none, none, ⟨cipher, [], []⟩⟩

/-- `dhSymmetricKey`. -/
def dhSymmetricKey (prf : Bytes → Bytes → Bytes) (c : CipherRow) (p peer own : Nat) : Outcome (Bytes × Bytes) :=
  (dhShared p peer own).bind (fun shSe => deriveKeys prf c shSe [])

/-- `DHSession.Parameter` with `r` = the `paramSize` random bytes. Returns the session and the
parameter to send. -/
def dhParameter (prf : Bytes → Bytes → Bytes) (s : DhSession) (r : Bytes) : Outcome (DhSession × Bytes) :=
  let x := beNat r
  let xX := powMod s.g x s.p
  match s.xA with
  | none => .ok ({ s with a := some x }, minBytes xX)
  | some xA =>
    match cipherRow s.cr.cipher with
    | none => .panic "cipher suite not registered"
    | some c =>
      (dhSymmetricKey prf c s.p xA x).bind (fun k =>
        .ok ({ s with b := none, xA := none, cr := { s.cr with sek := k.1, svk := k.2 } }, minBytes xX))

/-- `DHSession.SetParameter` (repaired: no private part ⇒ error). -/
def dhSetParameter (prf : Bytes → Bytes → Bytes) (s : DhSession) (xB : Bytes) : Outcome DhSession :=
  match s.a with
  | none => .reject
  | some a =>
    match cipherRow s.cr.cipher with
    | none => .panic "cipher suite not registered"
    | some c =>
      (dhSymmetricKey prf c s.p (beNat xB) a).bind (fun k =>
        .ok { s with a := none, xB := none, cr := { s.cr with sek := k.1, svk := k.2 } })

/-- `DHSession.SetParameter` as it was before the repair: `Exp(xB, nil, p)` dereferences nil, and
when the peer check fails first the deferred `s.a.SetBytes(nil)` does. -/
def dhSetParameterUnfixed (prf : Bytes → Bytes → Bytes) (s : DhSession) (xB : Bytes) : Outcome DhSession :=
  match s.a with
  | none => .panic "dh:nil private parameter"
  | some _ => dhSetParameter prf s xB

/-- `ECDHSession`; keys are the private scalar's bytes. -/
structure EcdhSession where
  randSize : Nat
  xA : Option Bytes
  xB : Bytes
  priv : Option Bytes
  cr : Crypter
  deriving Repr, DecidableEq

def ecdhNew (randSize : Nat) (xA : Option Bytes) (cipher : Int) : Outcome EcdhSession :=
  match cipherRow cipher with
  | none => .panic "cipher suite not registered"
  | some _ => .ok ⟨randSize, xA, [], none, ⟨cipher, [], []⟩⟩

def ecdhSymmetricKey (prf : Bytes → Bytes → Bytes) (O : EcdhOracle) (c : CipherRow) (key : Option Bytes)
    (xA xB : Bytes) : Outcome (Bytes × Bytes) :=
  (ecdhShared O key xA xB).bind (fun shSe => deriveKeys prf c shSe [])

/-- `ECDHSession.Parameter`: `k` = the key `curve.GenerateKey(rand)` produced, `r` = the
`randSize` random bytes read after it. -/
def ecdhParameter (prf : Bytes → Bytes → Bytes) (O : EcdhOracle) (s : EcdhSession) (k r : Bytes) :
    Outcome (EcdhSession × Bytes) :=
  if s.randSize ≠ 16 ∧ s.randSize ≠ 48 then .panic "ecdh:nil curve"
  else
    (ecdhParamMarshal (O.pubOf k) r).bind (fun xX =>
      match s.xA with
      | none => .ok ({ s with priv := some k, xA := some xX }, xX)
      | some xA =>
        match cipherRow s.cr.cipher with
        | none => .panic "cipher suite not registered"
        | some c =>
          (ecdhSymmetricKey prf O c (some k) xA xX).bind (fun key =>
            .ok ({ s with priv := none, xA := some (zeros xA.length), xB := zeros xX.length,
                          cr := { s.cr with sek := key.1, svk := key.2 } }, xX)))

/-- `ECDHSession.SetParameter` (repaired: nil private key ⇒ error). -/
def ecdhSetParameter (prf : Bytes → Bytes → Bytes) (O : EcdhOracle) (s : EcdhSession) (xB : Bytes) :
    Outcome EcdhSession :=
  match s.priv with
  | none => .reject
  | some k =>
    match cipherRow s.cr.cipher with
    | none => .panic "cipher suite not registered"
    | some c =>
      (ecdhSymmetricKey prf O c (some k) (s.xA.getD []) xB).bind (fun key =>
        .ok { s with priv := none, xA := s.xA.map (fun a => zeros a.length), xB := zeros xB.length,
                     cr := { s.cr with sek := key.1, svk := key.2 } })

/-- `OAEPSession`. -/
structure OaepSession where
  paramSize : Nat
  xA : Option Bytes
  xB : Bytes
  cr : Crypter
  deriving Repr, DecidableEq

def oaepNew (paramSize : Nat) (xA : Option Bytes) (cipher : Int) : Outcome OaepSession :=
  match cipherRow cipher with
  | none => .panic "cipher suite not registered"
  | some _ => .ok ⟨paramSize, xA, [], ⟨cipher, [], []⟩⟩

/-- `oaepSymmetricKey`: shSe is the DEVICE random, ContextRand the OWNER random. -/
def oaepSymmetricKey (prf : Bytes → Bytes → Bytes) (c : CipherRow) (deviceRandom ownerRandom : Bytes) :
    Outcome (Bytes × Bytes) :=
  deriveKeys prf c deviceRandom ownerRandom

/-- `OAEPSession.Parameter`: `x` = the `paramSize` random bytes, `enc x` = `rsa.EncryptOAEP` of it
(`none`: encryption error, e.g. nil or too small owner key). -/
def oaepParameter (prf : Bytes → Bytes → Bytes) (enc : Bytes → Option Bytes) (s : OaepSession) (x : Bytes) :
    Outcome (OaepSession × Bytes) :=
  match s.xA with
  | none => .ok ({ s with xA := some x }, x)
  | some xA =>
    match cipherRow s.cr.cipher with
    | none => .panic "cipher suite not registered"
    | some c =>
      (oaepSymmetricKey prf c x xA).bind (fun key =>
        match enc x with
        | none => .reject
        | some ct =>
          .ok ({ s with xA := some (zeros xA.length), xB := zeros x.length,
                        cr := { s.cr with sek := key.1, svk := key.2 } }, ct))

/-- `OAEPSession.SetParameter`: `dec` = result of `rsa.DecryptOAEP` (`none`: no key / error,
which covers every wrong-size ciphertext). -/
def oaepSetParameter (prf : Bytes → Bytes → Bytes) (s : OaepSession) (dec : Option Bytes) : Outcome OaepSession :=
  match dec with
  | none => .reject
  | some xB =>
    match cipherRow s.cr.cipher with
    | none => .panic "cipher suite not registered"
    | some c =>
      (oaepSymmetricKey prf c xB (s.xA.getD [])).bind (fun key =>
        .ok { s with xA := s.xA.map (fun a => zeros a.length), xB := zeros xB.length,
                     cr := { s.cr with sek := key.1, svk := key.2 } })

/-! ### persist structs (cbor.Marshal of a Go struct = array of its fields in order) -/

def intItem (z : Int) : Item := if z < 0 then .nint (-z - 1).toNat else .uint z.toNat

/-- Decode into a Go `int`/`int64` field. -/
def itemInt : Item → Option Int
  | .uint n => if n < 9223372036854775808 then some (n : Int) else none
  | .nint n => if n < 9223372036854775808 then some (-(n : Int) - 1) else none
  | _ => none

/-- Decode into a non-negative `int` field (negative sizes are outside the model). -/
def itemNat : Item → Option Nat
  | .uint n => if n < 9223372036854775808 then some n else none
  | _ => none

def itemBytes : Item → Option Bytes
  | .bstr b => some b
  | _ => none

/-- nil `*big.Int` ⇒ field left nil ⇒ empty byte string; otherwise `Bytes()`. -/
def optBigBytes : Option Nat → Bytes
  | none => []
  | some n => minBytes n

def optBig (o : Option Nat) : Item := .bstr (optBigBytes o)

/-- `if len(persist.X) > 0 { s.x = SetBytes(persist.X) }`. -/
def bigOpt (b : Bytes) : Option Nat := if b.length > 0 then some (beNat b) else none

/-- nil `[]byte` and empty `[]byte` both marshal to `40`. -/
def optBytes (o : Option Bytes) : Item := .bstr (o.getD [])

/-- `dhPersist`. -/
def dhPersist (s : DhSession) : Item :=
  .arr (Items.ofList [.bstr (minBytes s.p), .uint s.g, .uint s.paramSize,
    optBig s.a, optBig s.xA, optBig s.b, optBig s.xB, intItem s.cr.cipher, .bstr s.cr.sek, .bstr s.cr.svk])

def dhRestore (x : Item) : Outcome DhSession :=
  match x with
  | .arr xs =>
    match xs.toList with
    | [p, g, ps, a, xA, b, xB, c, sek, svk] =>
      match itemBytes p, itemNat g, itemNat ps, itemBytes a, itemBytes xA, itemBytes b, itemBytes xB,
            itemInt c, itemBytes sek, itemBytes svk with
      | some p, some g, some ps, some a, some xA, some b, some xB, some c, some sek, some svk =>
        match cipherRow c with
        | none => .panic "cipher suite not registered"
        | some _ => .ok ⟨beNat p, g, ps, bigOpt a, bigOpt xA, bigOpt b, bigOpt xB, ⟨c, sek, svk⟩⟩
      | _, _, _, _, _, _, _, _, _, _ => .reject
    | _ => .reject
  | _ => .reject

/-- `ecdhPersist`. -/
def ecdhPersist (s : EcdhSession) : Item :=
  .arr (Items.ofList [.uint s.randSize, optBytes s.xA, .bstr s.xB, optBytes s.priv,
    intItem s.cr.cipher, .bstr s.cr.sek, .bstr s.cr.svk])

/-- `ECDHSession.UnmarshalCBOR` (repaired: curve from the persisted RandSize). Every byte-string
field comes back non-nil, so `xA` is `some` even when empty. -/
def ecdhRestore (validPriv : Nat → Bytes → Bool) (x : Item) : Outcome EcdhSession :=
  match x with
  | .arr xs =>
    match xs.toList with
    | [rs, xA, xB, key, c, sek, svk] =>
      match itemNat rs, itemBytes xA, itemBytes xB, itemBytes key, itemInt c, itemBytes sek, itemBytes svk with
      | some rs, some xA, some xB, some key, some c, some sek, some svk =>
        if rs ≠ 16 ∧ rs ≠ 48 then .reject
        else if !validPriv rs key && decide (key.length > 0) then .reject
        else
          match cipherRow c with
          | none => .panic "cipher suite not registered"
          | some _ => .ok ⟨rs, some xA, xB, if validPriv rs key then some key else none, ⟨c, sek, svk⟩⟩
      | _, _, _, _, _, _, _ => .reject
    | _ => .reject
  | _ => .reject

/-- `oaepPersist`. -/
def oaepPersist (s : OaepSession) : Item :=
  .arr (Items.ofList [.uint s.paramSize, optBytes s.xA, .bstr s.xB,
    intItem s.cr.cipher, .bstr s.cr.sek, .bstr s.cr.svk])

def oaepRestore (x : Item) : Outcome OaepSession :=
  match x with
  | .arr xs =>
    match xs.toList with
    | [ps, xA, xB, c, sek, svk] =>
      match itemNat ps, itemBytes xA, itemBytes xB, itemInt c, itemBytes sek, itemBytes svk with
      | some ps, some xA, some xB, some c, some sek, some svk =>
        match cipherRow c with
        | none => .panic "cipher suite not registered"
        | some _ => .ok ⟨ps, some xA, xB, ⟨c, sek, svk⟩⟩
      | _, _, _, _, _, _ => .reject
    | _ => .reject
  | _ => .reject

end Fdo.Kex
