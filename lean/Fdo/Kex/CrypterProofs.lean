import Fdo.Kex.Crypter
import Fdo.Prim.Proofs
import Fdo.Cbor.Proofs
/-
Round trip of the tunnel: what `encryptVal` builds, `decryptVal` opens to the same plaintext, for any
primitives that are functionally correct; IVs of successive messages are disjoint slices of the
random stream.
-/
namespace Fdo.Kex
open Fdo Fdo.Cbor Fdo.Cose

/-- Functional correctness of the symmetric primitives (nothing about their strength). -/
structure PrimsCorrect (P : Prims) : Prop where
  aead : ∀ k n a p c, P.aeadSeal k n a p = some c → P.aeadOpen k n a c = some p
  ctr : ∀ k iv p c, P.ctr k iv p = some c → P.ctr k iv c = some p
  cbc : ∀ k iv p c, P.cbcEnc k iv p = some c → P.cbcDec k iv c = some p ∧ c.length = p.length

/-- strict unpadding inverts PKCS#7 padding to 16-byte blocks -/
theorem unpad16_pad (b : Bytes) : unpad16 (Fdo.Prim.pad b 16) = some b := by
  have hn1 : 1 ≤ Fdo.Prim.padSize b.length 16 := Fdo.Prim.padSize_pos (by decide)
  have hn2 : Fdo.Prim.padSize b.length 16 ≤ 16 := Fdo.Prim.padSize_le _ _
  generalize hn : Fdo.Prim.padSize b.length 16 = n at hn1 hn2
  have hpad : Fdo.Prim.pad b 16 = b ++ List.replicate n (UInt8.ofNat n) := by simp [Fdo.Prim.pad, hn]
  have hto : (UInt8.ofNat n).toNat = n := toNat_ofNat_lt n (by omega)
  have hlast : (b ++ List.replicate n (UInt8.ofNat n)).getLast? = some (UInt8.ofNat n) := by
    obtain ⟨m, rfl⟩ : ∃ m, n = m + 1 := ⟨n - 1, by omega⟩
    rw [List.replicate_succ', ← List.append_assoc]; simp
  rw [hpad]; unfold unpad16; rw [hlast]
  simp only [hto, List.length_append, List.length_replicate]
  rw [if_neg (by omega)]
  have e1 : b.length + n - n = b.length := by omega
  rw [e1]
  simp

theorem hdrGet_one (a : AnyVal) (rest : List (Val × AnyVal)) (l : Int) :
    hdrGet ((.int l, a) :: rest) l = some a := by
  simp [hdrGet, List.find?, Val.keyEq]

theorem hdrGet_skip (k l : Int) (a : AnyVal) (rest : List (Val × AnyVal)) (h : k ≠ l) :
    hdrGet ((.int k, a) :: rest) l = hdrGet rest l := by
  have : (k == l) = false := by simp [h]
  simp [hdrGet, List.find?, Val.keyEq, this]

/-- a byte string below the decode limit put into a header is read back by `HeaderMap.Parse(label, &[]byte)` -/
theorem unmarshal_bytes (iv : Bytes) (h : iv.length < maxLen) :
    unmarshalS (fun _ => true) .bytes (encodeAny (.bytes iv)) = some (.bytes iv) := by
  obtain ⟨ai, hd⟩ := decHead_encHead 2 iv.length iv (by omega) (by simp [maxLen] at h; omega)
  unfold unmarshalS
  simp only [encodeAny]
  have : 2 * (encHead 2 iv.length ++ iv).length + 64 = (2 * (encHead 2 iv.length ++ iv).length + 63) + 1 := by omega
  rw [this]
  unfold decodeS
  simp only [hd]
  simp [Nat.not_le.mpr h]

theorem hdrBytes_iv (iv : Bytes) (pre : List (Val × AnyVal)) (h : iv.length < maxLen)
    (hpre : hdrGet (pre ++ [(.int 5, .bytes iv)]) 5 = some (.bytes iv)) :
    hdrBytes (pre ++ [(.int 5, .bytes iv)]) 5 = some iv := by
  unfold hdrBytes; rw [hpre]; simp only; rw [unmarshal_bytes iv h]

/-- the COSE_Encrypt0 built for a message opens to that message -/
theorem decryptEnc0_encryptEnc0 (P : Prims) (hP : PrimsCorrect P) (s : Suite) (sek iv p : Bytes) (e0 : Val)
    (hp : ∃ x, unmarshalRaw p = some x) (hiv : iv.length = ivLen s)
    (h : encryptEnc0 P s sek iv p = some e0) : decryptEnc0 P s sek e0 = some p ∧ ivOfEnc0 e0 = some iv := by
  obtain ⟨x, hx⟩ := hp
  have hivlt : iv.length < maxLen := by rw [hiv]; unfold ivLen maxLen; split <;> omega
  unfold encryptEnc0 at h
  split at h
  · simp at h
  · rename_i hk0
    have hk : sek.length = s.encKeyBytes := Decidable.of_not_not hk0
    simp only [Option.bind_eq_some_iff] at h
    obtain ⟨c, hc, he⟩ := h
    simp at he; subst he
    cases hkind : s.kind with
    | aead =>
      simp only [hkind, if_true] at hc ⊢
      have hl : iv.length = 12 := by simpa [ivLen, hkind] using hiv
      simp only [cipherSeal, hkind, hl] at hc
      simp at hc
      have hopen := hP.aead _ _ _ _ _ hc
      have hget : hdrBytes [(.int 5, .bytes iv)] 5 = some iv :=
        hdrBytes_iv iv [] hivlt (by simpa using hdrGet_one (.bytes iv) [] 5)
      refine ⟨?_, by simpa [ivOfEnc0] using hget⟩
      unfold decryptEnc0
      simp only [algHeader, hkind, if_true, hdrInt, hdrGet_one]
      rw [if_neg (by simp [hk, hdrGet_one])]
      simp only [hget, Option.bind_some, cipherOpen, hkind, hl]
      simp [hopen, hx]
    | ctr =>
      simp only [hkind] at hc ⊢
      have hl : iv.length = 16 := by simpa [ivLen, hkind] using hiv
      simp only [cipherSeal, hkind, hl] at hc
      simp at hc
      have hopen := hP.ctr _ _ _ _ hc
      have hget : hdrBytes [(.int 1, .int s.encAlg), (.int 5, .bytes iv)] 5 = some iv :=
        hdrBytes_iv iv [(.int 1, .int s.encAlg)] hivlt
          (by rw [List.singleton_append, hdrGet_skip 1 5 _ _ (by decide)]; exact hdrGet_one _ _ 5)
      refine ⟨?_, by simpa [ivOfEnc0] using hget⟩
      unfold decryptEnc0
      simp only [algHeader, hkind, hdrInt, hdrGet_one]
      rw [if_neg (by simp [hk, hdrGet_one])]
      simp only [reduceCtorEq, ↓reduceIte]
      rw [hget]
      simp [cipherOpen, hkind, hl, hopen, hx]
    | cbc =>
      simp only [hkind] at hc ⊢
      have hl : iv.length = 16 := by simpa [ivLen, hkind] using hiv
      simp only [cipherSeal, hkind, hl] at hc
      simp at hc
      obtain ⟨hopen, hlen⟩ := hP.cbc _ _ _ _ hc
      have hmod := Fdo.Prim.pad_length_mod16 p
      have hgt := Fdo.Prim.pad_length_gt p 16 (by decide)
      have hget : hdrBytes [(.int 1, .int s.encAlg), (.int 5, .bytes iv)] 5 = some iv :=
        hdrBytes_iv iv [(.int 1, .int s.encAlg)] hivlt
          (by rw [List.singleton_append, hdrGet_skip 1 5 _ _ (by decide)]; exact hdrGet_one _ _ 5)
      refine ⟨?_, by simpa [ivOfEnc0] using hget⟩
      unfold decryptEnc0
      simp only [algHeader, hkind, hdrInt, hdrGet_one]
      rw [if_neg (by simp [hk, hdrGet_one])]
      simp only [reduceCtorEq, ↓reduceIte]
      rw [hget]
      have hc0 : c ≠ [] := by
        intro h0
        have : (Fdo.Prim.pad p 16).length = 0 := by rw [← hlen, h0]; rfl
        omega
      have hcm : c.length % 16 = 0 := by rw [hlen]; exact hmod
      simp [cipherOpen, hkind, hl, hc0, hcm, hopen, unpad16_pad, hx]

theorem vmapSet_same (m : Int) :
    vmapSet [((.int 1 : Val), (AnyVal.int m))] (.int 1) (.int m) = [(.int 1, .int m)] := by
  simp [vmapSet, Val.keyEq]

/-- **Round trip of the tunnel** (decoded form): whatever `SessionCrypter.Encrypt` builds for a marshalled
message, `SessionCrypter.Decrypt` with the same suite and keys opens to exactly that message. -/
theorem decryptVal_encryptVal (P : Prims) (hP : PrimsCorrect P) (s : Suite) (sek svk : Bytes) (enc0S : Schema)
    (rnd p : Bytes) (t : Nat) (inner : Val) (rest : Bytes)
    (hp : ∃ x, unmarshalRaw p = some x)
    (h : encryptVal P s sek svk enc0S rnd p = some (t, inner, rest)) :
    decryptVal P s sek svk enc0S t inner = .ok p ∧ ivOfSent t inner = some (rnd.take (ivLen s)) ∧
      rest = rnd.drop (ivLen s) ∧ ivLen s ≤ rnd.length := by
  unfold encryptVal at h
  split at h
  · simp at h
  · rename_i hr
    simp only [Option.bind_eq_some_iff] at h
    obtain ⟨e0, he0, h⟩ := h
    have hivl : (rnd.take (ivLen s)).length = ivLen s := by simp; omega
    obtain ⟨hdec, hiv⟩ := decryptEnc0_encryptEnc0 P hP s sek _ p e0 hp hivl he0
    split at h
    · rename_i hm
      simp at h; obtain ⟨ht, hi, hrest⟩ := h; subst ht hi hrest
      refine ⟨?_, by simpa [ivOfSent] using hiv, rfl, by omega⟩
      unfold decryptVal; simp [hm, hdec]
    · rename_i hm
      split at h
      · simp at h
      · rename_i hsvk
        simp only [Option.bind_eq_some_iff] at h
        obtain ⟨e0b, hmar, m, hmac, h⟩ := h
        simp at h; obtain ⟨ht, hi, hrest⟩ := h; subst ht hi hrest
        refine ⟨?_, by simpa [ivOfSent] using hiv, rfl, by omega⟩
        unfold decryptVal
        simp only [show (17 : Nat) ≠ 16 from by decide, if_false, if_true, hm, hmar]
        rw [if_neg hsvk, vmapSet_same, hmac]
        simp [hdec]

end Fdo.Kex
