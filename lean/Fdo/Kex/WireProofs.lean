import Fdo.Kex.Wire
import Fdo.Kex.CrypterProofs
import Fdo.Cbor.TypedProofs
/-
Round trip of the tunnel on the wire: CBOR transport (typed round trip of C11's fragment) composed with
the round trip of the COSE structures.
-/
namespace Fdo.Kex
open Fdo Fdo.Cbor Fdo.Cose

theorem tunnelSchema_facts (t : Nat) (sch : Schema) (h : tunnelSchema t = some sch) :
    (t = 16 ∨ t = 17) ∧ sch.inFragment = true ∧ sch.ptrDepth ≤ 63 := by
  unfold tunnelSchema at h
  split at h
  · rename_i ht; simp at h; subst h
    exact ⟨Or.inl ht, by decide +kernel, by decide +kernel⟩
  · split at h
    · rename_i ht; simp at h; subst h
      exact ⟨Or.inr ht, by decide +kernel, by decide +kernel⟩
    · simp at h

/-- **The receiver opens on the wire what the sender put on the wire**: for every suite, keys, random stream
and marshalled message, the bytes `SessionCrypter.Encrypt` + `Marshal` produce are read by
`SessionCrypter.Decrypt` (stream decode of the tag, unmarshal by tag number, MAC check, decryption) as
exactly that message — given primitives that are functionally correct and a ciphertext/IV within the
codec's limits (`conf`/`wconf`: byte strings below 100 000 bytes). -/
theorem decryptWire_encryptVal (P : Prims) (hP : PrimsCorrect P) (s : Suite) (sek svk rnd p : Bytes)
    (t : Nat) (inner : Val) (rest : Bytes) (sch : Schema) (raw : Bytes)
    (hp : ∃ x, unmarshalRaw p = some x)
    (henc : encryptVal P s sek svk Fdo.Gen.Schemas.s_Encrypt0 rnd p = some (t, inner, rest))
    (hsch : tunnelSchema t = some sch) (hraw : marshalS sch inner = some raw)
    (hconf : conf (fun _ => true) 10000 maxDepth sch inner = true) (hw : wconf 10000 maxDepth sch inner = true)
    (hlen : raw.length + 16 < 18446744073709551616) :
    decryptWire P s sek svk (encHead 6 t ++ raw) = .ok p := by
  obtain ⟨ht, hfr, hpd⟩ := tunnelSchema_facts t sch hsch
  have hpos : 1 ≤ raw.length := enc_pos (fun _ => true) 10000 sch inner raw maxDepth hfr hconf hraw
  -- the marshalled structure is one well-formed item for the raw decoder …
  obtain ⟨x, hx⟩ := (w_all (fun _ => true) 10000).1 sch inner raw [] maxDepth maxDepth (2 * raw.length + 1 + sch.ptrDepth) hfr hraw hconf hw (by omega) (Nat.le_refl _)
  simp only [List.append_nil] at hx
  have hx' := decode_fuel _ maxDepth raw x [] hx (2 * raw.length + 1) (by simp; omega)
  -- … so the stream decoder reads the tag with exactly these bytes as its content
  have hne : raw.isEmpty = false := by cases raw <;> simp_all
  have henc2 : encodeS 2 (.tagAny .raw) (.tag t (.raw raw)) = some (encHead 6 t ++ raw) := by
    simp [encodeS, hne]
  have hconf2 : conf (fun _ => true) 2 maxDepth (.tagAny .raw) (.tag t (.raw raw)) = true := by
    simp only [conf, hx', Bool.and_eq_true, decide_eq_true_eq]
    exact ⟨by rcases ht with h | h <;> omega, trivial⟩
  have hh := encHead_length_pos 6 t
  have hhl : (encHead 6 t).length ≤ 9 := by
    unfold encHead; split <;> (try split) <;> (try split) <;> (try split) <;> simp
  have hdec := decodeS_encodeS (fun _ => true) 2 (.tagAny .raw) (.tag t (.raw raw)) (encHead 6 t ++ raw) [] maxDepth
    (2 * (encHead 6 t ++ raw).length + 64) (by decide) henc2 hconf2 (by simp; omega) (by simp [Schema.ptrDepth])
  simp only [List.append_nil] at hdec
  -- the content unmarshals to the structure that was marshalled, which opens to the message
  have hun := unmarshalS_marshalS (fun _ => true) sch inner raw hfr hpd hraw hconf (by omega)
  have hval := (decryptVal_encryptVal P hP s sek svk Fdo.Gen.Schemas.s_Encrypt0 rnd p t inner rest hp henc).1
  unfold decryptWire
  simp only [hdec, hsch, hun, hval]

end Fdo.Kex
