import Fdo.Kex.Dh
/-
Helper lemmas for Props/C14.lean.  Core Lean only (no Mathlib needed).
-/
namespace Fdo.Kex
open Fdo Fdo.Cbor

/-! ### KDF -/

theorem kdfCodeLoop_eq (prf : Bytes → Bytes → Bytes) (key ctx : Bytes) (L : Nat) (cnt i : Nat) (acc : Bytes) :
    kdfCodeLoop prf key (kdfTail ctx L) cnt i acc = acc ++ kdfBlocks prf key ctx L cnt i := by
  induction cnt generalizing i acc with
  | zero => simp [kdfCodeLoop, kdfBlocks]
  | succ n ih => simp [kdfCodeLoop, kdfBlocks, kdfMsg, ih, List.append_assoc]

theorem kdfBlocks_length (prf : Bytes → Bytes → Bytes) (hB : Nat) (hprf : ∀ k m, (prf k m).length = hB)
    (key ctx : Bytes) (L n s : Nat) : (kdfBlocks prf key ctx L n s).length = n * hB := by
  induction n generalizing s with
  | zero => simp [kdfBlocks]
  | succ n ih => simp [kdfBlocks, ih, hprf, Nat.succ_mul, Nat.add_comm]

theorem kdfBlocks_add (prf : Bytes → Bytes → Bytes) (key ctx : Bytes) (L n m s : Nat) :
    kdfBlocks prf key ctx L (n + m) s = kdfBlocks prf key ctx L n s ++ kdfBlocks prf key ctx L m (s + n) := by
  induction n generalizing s with
  | zero => simp [kdfBlocks]
  | succ n ih =>
    have : n + 1 + m = (n + m) + 1 := by omega
    rw [this]
    simp only [kdfBlocks, ih, List.append_assoc]
    have : s + 1 + n = s + (n + 1) := by omega
    rw [this]

/-- Extra rounds do not change the leftmost bytes once enough blocks are there. -/
theorem kdfBlocks_take (prf : Bytes → Bytes → Bytes) (hB : Nat) (hprf : ∀ k m, (prf k m).length = hB)
    (key ctx : Bytes) (L n n' k : Nat) (hn : n ≤ n') (hk : k ≤ n * hB) :
    (kdfBlocks prf key ctx L n' 0).take k = (kdfBlocks prf key ctx L n 0).take k := by
  obtain ⟨m, rfl⟩ : ∃ m, n' = n + m := ⟨n' - n, by omega⟩
  rw [kdfBlocks_add]
  apply List.take_append_of_le_length
  rw [kdfBlocks_length prf hB hprf]; exact hk

theorem kdfInputs_blocks (prf : Bytes → Bytes → Bytes) (key ctx : Bytes) (L n s : Nat) :
    kdfBlocks prf key ctx L n s =
      (((List.range n).map (fun i => kdfMsg (s + i + 1) ctx L)).map (prf key)).foldr (· ++ ·) [] := by
  induction n generalizing s with
  | zero => simp [kdfBlocks]
  | succ n ih =>
    rw [List.range_succ_eq_map]
    simp only [kdfBlocks, List.map_cons, List.foldr_cons, List.map_map, Nat.add_zero]
    rw [ih]
    congr 2
    simp only [List.map_map]
    apply List.map_congr_left
    intro i _
    simp only [Function.comp]
    have : s + 1 + i + 1 = s + (i + 1) + 1 := by omega
    rw [this]

/-! ### PRF-message injectivity -/

theorem kdfTail_inj (c c' : Bytes) (L L' : Nat) (h : kdfTail c L = kdfTail c' L') :
    c = c' ∧ natBE 2 L = natBE 2 L' := by
  unfold kdfTail at h
  have h1 := List.append_cancel_left h
  have h2 := List.append_cancel_left h1
  have h3 := List.append_cancel_left h2
  exact List.append_inj' h3 (by simp)

theorem kdfMsg_inj (i j : Nat) (hi : i < 256) (hj : j < 256) (c c' : Bytes) (L L' : Nat)
    (hL : L < 65536) (hL' : L' < 65536) (h : kdfMsg i c L = kdfMsg j c' L') : i = j ∧ c = c' ∧ L = L' := by
  unfold kdfMsg at h
  injection h with h1 h2
  have ⟨hc, hl⟩ := kdfTail_inj c c' L L' h2
  refine ⟨?_, hc, ?_⟩
  · have := congrArg UInt8.toNat h1
    simp [UInt8.toNat_ofNat] at this
    omega
  · have := congrArg beNat hl
    rwa [beNat_natBE 2 L (by simpa using hL), beNat_natBE 2 L' (by simpa using hL')] at this

/-! ### big-endian encodings -/

theorem beNat_append_singleton (a : Bytes) (x : UInt8) : beNat (a ++ [x]) = beNat a * 256 + x.toNat := by
  induction a with
  | nil => simp [beNat]
  | cons b r ih =>
    simp only [List.cons_append, beNat, ih, List.length_append, List.length_cons, List.length_nil]
    rw [Nat.pow_succ]
    rw [Nat.add_mul, Nat.mul_assoc]
    omega

theorem beNat_minBytes (n : Nat) : beNat (minBytes n) = n := by
  induction n using Nat.strongRecOn with
  | _ n ih =>
    unfold minBytes
    by_cases h : n = 0
    · simp [h, beNat]
    · simp only [h, dite_false]
      rw [beNat_append_singleton, ih (n / 256) (by omega)]
      have : (UInt8.ofNat (n % 256)).toNat = n % 256 := by
        simp [UInt8.toNat_ofNat]
      rw [this]; omega

theorem minBytes_length_pos (n : Nat) (h : n ≠ 0) : 0 < (minBytes n).length := by
  unfold minBytes
  simp [h]

theorem minBytes_zero : minBytes 0 = [] := by
  unfold minBytes; simp

theorem beNat_zeros_append (k : Nat) (bs : Bytes) : beNat (zeros k ++ bs) = beNat bs := by
  induction k with
  | zero => simp [zeros]
  | succ k ih =>
    simp only [zeros, List.replicate_succ, List.cons_append, beNat] at ih ⊢
    rw [ih]; simp

/-- `big.Int.Bytes()` never starts with a zero byte. -/
theorem minBytes_no_leading_zero (n : Nat) (b : UInt8) (r : Bytes) (h : minBytes n = b :: r) : b ≠ 0 := by
  intro hb
  subst hb
  have h1 := beNat_minBytes n
  have h2 : (minBytes n).length = r.length + 1 := by rw [h]; simp
  -- value < 256^(len-1) but a minimal encoding of that length needs ≥ 256^(len-1)
  have hlt : n < 256 ^ r.length := by
    rw [← h1, h]; simp only [beNat]; have := beNat_lt r; simpa using this
  -- lower bound by induction
  have lower : ∀ m : Nat, m ≠ 0 → 256 ^ ((minBytes m).length - 1) ≤ m := by
    intro m
    induction m using Nat.strongRecOn with
    | _ m ih =>
      intro hm
      unfold minBytes
      simp only [hm, dite_false, List.length_append, List.length_cons, List.length_nil]
      by_cases hq : m / 256 = 0
      · rw [hq, minBytes_zero]; simp; omega
      · have := ih (m / 256) (by omega) hq
        have hp := minBytes_length_pos (m / 256) hq
        have e : (minBytes (m / 256)).length + 1 - 1 = ((minBytes (m / 256)).length - 1) + 1 := by omega
        rw [e, Nat.pow_succ]
        omega
  by_cases hn : n = 0
  · subst hn; rw [minBytes_zero] at h; cases h
  · have := lower n hn
    rw [h2] at this
    simp at this
    omega

/-! ### modular exponentiation -/

theorem powMod_eq (b e m : Nat) : powMod b e m = b ^ e % m := by
  induction e using Nat.strongRecOn generalizing b with
  | _ e ih =>
    unfold powMod
    by_cases h : e = 0
    · simp [h]
    · simp only [h, dite_false]
      rw [ih (e / 2) (by omega) (b * b % m)]
      have hsq : (b * b % m) ^ (e / 2) % m = b ^ (2 * (e / 2)) % m := by
        rw [← Nat.pow_mod, Nat.pow_mul]; congr 2; simp [Nat.pow_two]
      rw [hsq]
      by_cases hodd : e % 2 = 1
      · simp only [hodd, if_true]
        have he : e = 2 * (e / 2) + 1 := by omega
        conv => rhs; rw [he, Nat.pow_succ, Nat.mul_comm]
        rw [Nat.mul_mod, Nat.mod_mod, ← Nat.mul_mod]
      · simp only [hodd, if_false]
        have he : e = 2 * (e / 2) := by omega
        conv => rhs; rw [he]

theorem pow_comm_mod (g a b p : Nat) : (g ^ a % p) ^ b % p = (g ^ b % p) ^ a % p := by
  rw [← Nat.pow_mod, ← Nat.pow_mod, ← Nat.pow_mul, ← Nat.pow_mul, Nat.mul_comm]

/-! ### DH checks -/

theorem dhPeerValid_iff (p y : Nat) : dhPeerValid p y = true ↔ 2 ≤ y ∧ y + 2 ≤ p := by
  unfold dhPeerValid
  simp only [Bool.and_eq_true, decide_eq_true_eq]
  omega

theorem dhSecretValid_iff (p s : Nat) : dhSecretValid p s = true ↔ 2 ≤ s ∧ s + 1 ≠ p := by
  unfold dhSecretValid
  simp only [Bool.not_eq_true', Bool.or_eq_false_iff, decide_eq_false_iff_not]
  omega

theorem byteLen_bound (p s : Nat) (h : s < p) : s < 256 ^ byteLen p := by
  have := beNat_lt (minBytes p)
  rw [beNat_minBytes] at this
  unfold byteLen; omega

theorem powMod_lt (b e m : Nat) (hm : 0 < m) : powMod b e m < m := by
  rw [powMod_eq]; exact Nat.mod_lt _ hm

/-- What `dhShared` returns when it returns a value. -/
theorem dhShared_ok (p peer own : Nat) (sh : Bytes) (h : dhShared p peer own = .ok sh) :
    (2 ≤ peer ∧ peer + 2 ≤ p) ∧ sh = natBE (byteLen p) (peer ^ own % p) ∧
      2 ≤ peer ^ own % p ∧ peer ^ own % p + 1 ≠ p := by
  unfold dhShared at h
  by_cases hv : dhPeerValid p peer = true
  · simp only [hv, Bool.not_true, Bool.false_eq_true, if_false] at h
    by_cases hs : dhSecretValid p (dhSharedNat p peer own) = true
    · simp only [hs, Bool.not_true, Bool.false_eq_true, if_false] at h
      have hv' := (dhPeerValid_iff p peer).1 hv
      have hs' := (dhSecretValid_iff p _).1 hs
      unfold dhSharedNat at h hs'
      rw [powMod_eq] at h hs'
      have hlt : peer ^ own % p < 256 ^ byteLen p := byteLen_bound p _ (Nat.mod_lt _ (by omega))
      unfold fillBytes at h
      simp only [hlt, if_true] at h
      injection h with h
      exact ⟨hv', h.symm, hs'.1, hs'.2⟩
    · simp [hs] at h
  · simp [hv] at h

/-- `dhShared` never panics (FillBytes always fits because the secret is < p). -/
theorem dhShared_no_panic (p peer own : Nat) (site : String) : dhShared p peer own ≠ .panic site := by
  unfold dhShared
  by_cases hv : dhPeerValid p peer = true
  · simp only [hv, Bool.not_true, Bool.false_eq_true, if_false]
    by_cases hs : dhSecretValid p (dhSharedNat p peer own) = true
    · simp only [hs, Bool.not_true, Bool.false_eq_true, if_false]
      have hv' := (dhPeerValid_iff p peer).1 hv
      have hlt : dhSharedNat p peer own < 256 ^ byteLen p := by
        unfold dhSharedNat; exact byteLen_bound p _ (powMod_lt _ _ _ (by omega))
      unfold fillBytes
      simp [hlt]
    · simp [hs]
  · simp [hv]

/-! ### ecdhParam -/

theorem takeField_encField (f rest : Bytes) (hf : f.length < 65536) :
    takeField (encField f ++ rest) = some (f, rest) := by
  unfold takeField encField
  have h2 : ¬ (natBE 2 f.length ++ f ++ rest).length < 2 := by simp
  simp only [h2, if_false]
  have ht : (natBE 2 f.length ++ f ++ rest).take 2 = natBE 2 f.length := by
    rw [List.append_assoc]; exact List.take_left' (by simp)
  have hd : (natBE 2 f.length ++ f ++ rest).drop 2 = f ++ rest := by
    rw [List.append_assoc]; exact List.drop_left' (by simp)
  rw [ht, hd, beNat_natBE 2 _ (by simpa using hf)]
  have h3 : ¬ (f ++ rest).length < f.length := by simp
  simp only [h3, if_false]
  rw [List.take_left' rfl, List.drop_left' rfl]

theorem ecdhParamFields_enc (x y r t : Bytes) (hx : x.length < 65536) (hy : y.length < 65536)
    (hr : r.length < 65536) : ecdhParamFields (ecdhParamEncFields x y r ++ t) = some (x, y, r, t) := by
  unfold ecdhParamFields ecdhParamEncFields
  rw [List.append_assoc, takeField_encField x _ hx]
  simp only
  rw [List.append_assoc, takeField_encField y _ hy]
  simp only
  rw [takeField_encField r _ hr]

/-- A SEC 1 uncompressed point of coordinate width `n`. -/
def IsPoint (pub : Bytes) (n : Nat) : Prop := ∃ x y, pub = 4 :: (x ++ y) ∧ x.length = n ∧ y.length = n

theorem ecdhParamMarshal_point (pub rand : Bytes) (n : Nat) (hp : IsPoint pub n) (hn : n < 65536)
    (hr : rand.length < 65536) :
    ∃ x y, pub = 4 :: (x ++ y) ∧ x.length = n ∧ y.length = n ∧
      ecdhParamMarshal pub rand = .ok (ecdhParamEncFields x y rand) := by
  obtain ⟨x, y, rfl, hx, hy⟩ := hp
  refine ⟨x, y, rfl, hx, hy, ?_⟩
  unfold ecdhParamMarshal ecdhParamEncFields encField
  have hl : (4 :: (x ++ y)).length - 1 = 2 * n := by simp; omega
  have hpl : ((4 :: (x ++ y)).length - 1) / 2 = n := by rw [hl]; omega
  simp only [hpl]
  have h1 : ¬ n > 65535 := by omega
  have h2 : ¬ rand.length > 65535 := by omega
  have h3 : ¬ (4 :: (x ++ y)).length = 0 := by simp
  simp only [h1, h2, h3, if_false]
  have e1 : ((4 :: (x ++ y)).drop 1).take n = x := by
    simp only [List.drop_succ_cons, List.drop_zero]; exact List.take_left' hx
  have e2 : ((4 :: (x ++ y)).drop (1 + n)).take n = y := by
    have : 1 + n = n + 1 := by omega
    rw [this]
    simp only [List.drop_succ_cons]
    rw [List.drop_left' hx]; rw [← hy]; exact List.take_length
  rw [e1, e2, hx, hy]
  simp [List.append_assoc]

theorem ecdhParamDecode_marshal (pub rand : Bytes) (n : Nat) (hp : IsPoint pub n) (hn : n < 65536)
    (hr : rand.length < 65536) :
    ∃ w, ecdhParamMarshal pub rand = .ok w ∧ ecdhParamDecode w = some (pub, rand) := by
  obtain ⟨x, y, hpub, hx, hy, hm⟩ := ecdhParamMarshal_point pub rand n hp hn hr
  refine ⟨_, hm, ?_⟩
  unfold ecdhParamDecode
  have := ecdhParamFields_enc x y rand [] (by omega) (by omega) hr
  rw [List.append_nil] at this
  rw [this]
  simp only [hx, hy, Nat.max_self]
  have ex := natBE_beNat x
  have ey := natBE_beNat y
  rw [hx] at ex; rw [hy] at ey
  rw [ex, ey, hpub]

/-! ### integers in CBOR -/

theorem itemInt_intItem (z : Int) (h1 : -9223372036854775808 ≤ z) (h2 : z < 9223372036854775808) :
    itemInt (intItem z) = some z := by
  unfold intItem
  by_cases hz : z < 0
  · simp only [hz, if_true, itemInt]
    have : (-z - 1).toNat < 9223372036854775808 := by omega
    simp only [this, if_true]
    congr 1; omega
  · simp only [hz, if_false, itemInt]
    have : z.toNat < 9223372036854775808 := by omega
    simp only [this, if_true]
    congr 1; omega

/-! ### persist structs -/

/-- Session fields that `cbor.Marshal`/`Unmarshal` carry unchanged: ids fit an int64 and name a
registered suite. -/
def CrypterOk (c : Crypter) : Prop :=
  (∃ row, cipherRow c.cipher = some row) ∧ -9223372036854775808 ≤ c.cipher ∧ c.cipher < 9223372036854775808

/-- A DH session whose optional big integers are either nil or non-zero (a zero `*big.Int`
marshals to the empty string, which restores as nil). -/
def DhPersistable (s : DhSession) : Prop :=
  CrypterOk s.cr ∧ s.g < 9223372036854775808 ∧ s.paramSize < 9223372036854775808 ∧
    s.a ≠ some 0 ∧ s.xA ≠ some 0 ∧ s.b ≠ some 0 ∧ s.xB ≠ some 0

theorem bigOpt_min (o : Option Nat) (h : o ≠ some 0) :
    bigOpt (optBigBytes o) = o := by
  cases o with
  | none => simp [bigOpt, optBigBytes]
  | some n =>
    have hn : n ≠ 0 := by intro e; apply h; rw [e]
    have := minBytes_length_pos n hn
    simp [bigOpt, optBigBytes, this, beNat_minBytes]

theorem dhRestore_persist (s : DhSession) (h : DhPersistable s) : dhRestore (dhPersist s) = .ok s := by
  obtain ⟨⟨⟨row, hrow⟩, hc1, hc2⟩, hg, hps, ha, hxa, hb, hxb⟩ := h
  unfold dhRestore dhPersist
  simp only [Items.ofList, Items.toList, itemBytes, itemNat, optBig, hg, hps, if_true,
    itemInt_intItem _ hc1 hc2, hrow, beNat_minBytes, bigOpt_min _ ha, bigOpt_min _ hxa,
    bigOpt_min _ hb, bigOpt_min _ hxb]

/-- What restoring yields in general: every zero optional comes back as nil. -/
def dhNormalize (s : DhSession) : DhSession :=
  let f := fun (o : Option Nat) => if o = some 0 then none else o
  { s with a := f s.a, xA := f s.xA, b := f s.b, xB := f s.xB }

theorem bigOpt_min' (o : Option Nat) :
    bigOpt (optBigBytes o) = if o = some 0 then none else o := by
  by_cases h : o = some 0
  · subst h; simp [bigOpt, optBigBytes, minBytes_zero]
  · simp only [h, if_false]; exact bigOpt_min o h

theorem dhRestore_persist_general (s : DhSession) (hc : CrypterOk s.cr) (hg : s.g < 9223372036854775808)
    (hps : s.paramSize < 9223372036854775808) : dhRestore (dhPersist s) = .ok (dhNormalize s) := by
  obtain ⟨⟨row, hrow⟩, hc1, hc2⟩ := hc
  unfold dhRestore dhPersist dhNormalize
  simp only [Items.ofList, Items.toList, itemBytes, itemNat, optBig, hg, hps, if_true,
    itemInt_intItem _ hc1 hc2, hrow, beNat_minBytes, bigOpt_min']

def EcdhPersistable (validPriv : Nat → Bytes → Bool) (s : EcdhSession) : Prop :=
  CrypterOk s.cr ∧ (s.randSize = 16 ∨ s.randSize = 48) ∧ s.xA.isSome = true ∧
    (match s.priv with
     | none => validPriv s.randSize [] = false
     | some k => validPriv s.randSize k = true)

theorem ecdhRestore_persist (validPriv : Nat → Bytes → Bool) (s : EcdhSession)
    (h : EcdhPersistable validPriv s) : ecdhRestore validPriv (ecdhPersist s) = .ok s := by
  obtain ⟨⟨⟨row, hrow⟩, hc1, hc2⟩, hrs, hxa, hk⟩ := h
  obtain ⟨rs, xA, xB, priv, cr⟩ := s
  cases xA with
  | none => simp at hxa
  | some xA =>
    have hrs' : rs < 9223372036854775808 := by rcases hrs with h | h <;> simp at h <;> omega
    have hrs2 : ¬ (rs ≠ 16 ∧ rs ≠ 48) := by simp at hrs; omega
    cases priv with
    | none =>
      simp only at hk hrow
      simp [ecdhRestore, ecdhPersist, Items.ofList, Items.toList, itemBytes, itemNat, optBytes, hrs', hrs2,
        itemInt_intItem _ hc1 hc2, hrow, hk]
    | some k =>
      simp only at hk hrow
      simp [ecdhRestore, ecdhPersist, Items.ofList, Items.toList, itemBytes, itemNat, optBytes, hrs', hrs2,
        itemInt_intItem _ hc1 hc2, hrow, hk]

def OaepPersistable (s : OaepSession) : Prop :=
  CrypterOk s.cr ∧ s.paramSize < 9223372036854775808 ∧ s.xA.isSome = true

theorem oaepRestore_persist (s : OaepSession) (h : OaepPersistable s) : oaepRestore (oaepPersist s) = .ok s := by
  obtain ⟨⟨⟨row, hrow⟩, hc1, hc2⟩, hps, hxa⟩ := h
  obtain ⟨ps, xA, xB, cr⟩ := s
  cases xA with
  | none => simp at hxa
  | some xA =>
    simp only at hrow hps
    simp [oaepRestore, oaepPersist, Items.ofList, Items.toList, itemBytes, itemNat, optBytes, hps,
      itemInt_intItem _ hc1 hc2, hrow]

/-! ### both sides agree -/

theorem Outcome.bind_ok {α β : Type} (o : Outcome α) (f : α → Outcome β) (b : β) (h : o.bind f = .ok b) :
    ∃ a, o = .ok a ∧ f a = .ok b := by
  cases o with
  | ok a => exact ⟨a, rfl, h⟩
  | reject => simp [Outcome.bind] at h
  | panic s => simp [Outcome.bind] at h

theorem ecdhShared_both (O : EcdhOracle) (a b ra rb : Bytes) (n : Nat) (hn : n < 65536)
    (hpa : IsPoint (O.pubOf a) n) (hpb : IsPoint (O.pubOf b) n)
    (hra : ra.length < 65536) (hrb : rb.length < 65536)
    (hva : O.validPub (O.pubOf a) = true) (hvb : O.validPub (O.pubOf b) = true)
    (hsym : O.ecdh a (O.pubOf b) = O.ecdh b (O.pubOf a))
    (xA xB : Bytes) (hA : ecdhParamMarshal (O.pubOf a) ra = .ok xA) (hB : ecdhParamMarshal (O.pubOf b) rb = .ok xB) :
    ecdhShared O (some a) xA xB = .ok (ecdhShSe (O.ecdh a (O.pubOf b)) rb ra) ∧
    ecdhShared O (some b) xA xB = .ok (ecdhShSe (O.ecdh a (O.pubOf b)) rb ra) := by
  obtain ⟨wA, hwA, hdA⟩ := ecdhParamDecode_marshal (O.pubOf a) ra n hpa hn hra
  obtain ⟨wB, hwB, hdB⟩ := ecdhParamDecode_marshal (O.pubOf b) rb n hpb hn hrb
  rw [hA] at hwA; rw [hB] at hwB
  injection hwA with hwA; injection hwB with hwB
  subst hwA; subst hwB
  unfold ecdhShared
  simp only [hdA, hdB]
  constructor
  · simp [ecdhSharedSecret, hvb]
  · unfold ecdhSharedSecret
    by_cases he : O.pubOf a = O.pubOf b
    · simp only [he, if_true, hvb, Bool.not_true, Bool.false_eq_true, if_false]
      rw [he] at hsym; rw [hsym]
    · simp only [he, if_false, if_true, hva, Bool.not_true, Bool.false_eq_true]
      rw [hsym]

theorem dh_sessions_same_keys (prf : Bytes → Bytes → Bytes) (G : DhGroup) (cipher : Int) (ra rb : Bytes)
    (own0 own1 own2 dev0 dev1 : DhSession) (xA xB : Bytes)
    (h0 : dhNew G none cipher = .ok own0) (h1 : dhParameter prf own0 ra = .ok (own1, xA))
    (hd0 : dhNew G (some xA) cipher = .ok dev0) (hd1 : dhParameter prf dev0 rb = .ok (dev1, xB))
    (h2 : dhSetParameter prf own1 xB = .ok own2) :
    own2.cr = dev1.cr ∧ xA = minBytes (G.g ^ beNat ra % G.p) ∧ xB = minBytes (G.g ^ beNat rb % G.p) := by
  unfold dhNew at h0 hd0
  cases hc : cipherRow cipher with
  | none => simp [hc] at h0
  | some c =>
    simp only [hc] at h0 hd0
    injection h0 with h0; injection hd0 with hd0
    subst h0; subst hd0
    simp only [dhParameter, Option.map] at h1 hd1
    injection h1 with h1
    injection h1 with h1a h1b
    subst h1a
    simp only [hc] at hd1
    obtain ⟨kd, hkd, hd1⟩ := Outcome.bind_ok _ _ _ hd1
    injection hd1 with hd1
    injection hd1 with hd1a hd1b
    subst hd1a
    simp only [dhSetParameter, hc] at h2
    obtain ⟨ko, hko, h2⟩ := Outcome.bind_ok _ _ _ h2
    injection h2 with h2
    subst h2
    simp only
    unfold dhSymmetricKey at hkd hko
    obtain ⟨shd, hshd, hkd⟩ := Outcome.bind_ok _ _ _ hkd
    obtain ⟨sho, hsho, hko⟩ := Outcome.bind_ok _ _ _ hko
    have e1 := (dhShared_ok _ _ _ _ hshd).2.1
    have e2 := (dhShared_ok _ _ _ _ hsho).2.1
    rw [← h1b, beNat_minBytes, powMod_eq] at e1
    rw [← hd1b, beNat_minBytes, powMod_eq] at e2
    have : shd = sho := by rw [e1, e2, pow_comm_mod]
    subst this
    rw [hkd] at hko
    injection hko with hko
    subst hko
    refine ⟨rfl, ?_, ?_⟩
    · rw [← h1b, powMod_eq]
    · rw [← hd1b, powMod_eq]

theorem oaep_sessions_same_keys (prf : Bytes → Bytes → Bytes) (enc : Bytes → Option Bytes) (dec : Bytes → Option Bytes)
    (ps : Nat) (cipher : Int) (ra rb : Bytes)
    (own0 own1 own2 dev0 dev1 : OaepSession) (xA ct : Bytes)
    (h0 : oaepNew ps none cipher = .ok own0) (h1 : oaepParameter prf enc own0 ra = .ok (own1, xA))
    (hd0 : oaepNew ps (some xA) cipher = .ok dev0) (hd1 : oaepParameter prf enc dev0 rb = .ok (dev1, ct))
    (hdec : ∀ x c, enc x = some c → dec c = some x)
    (h2 : oaepSetParameter prf own1 (dec ct) = .ok own2) :
    own2.cr = dev1.cr ∧ xA = ra := by
  unfold oaepNew at h0 hd0
  cases hc : cipherRow cipher with
  | none => simp [hc] at h0
  | some c =>
    simp only [hc] at h0 hd0
    injection h0 with h0; injection hd0 with hd0
    subst h0; subst hd0
    simp only [oaepParameter] at h1 hd1
    injection h1 with h1
    injection h1 with h1a h1b
    subst h1a; subst h1b
    simp only [hc] at hd1
    obtain ⟨kd, hkd, hd1⟩ := Outcome.bind_ok _ _ _ hd1
    cases he : enc rb with
    | none => simp [he] at hd1
    | some ct' =>
      simp only [he] at hd1
      injection hd1 with hd1
      injection hd1 with hd1a hd1b
      subst hd1a; subst hd1b
      rw [hdec rb ct' he] at h2
      simp only [oaepSetParameter, hc, Option.getD] at h2
      obtain ⟨ko, hko, h2⟩ := Outcome.bind_ok _ _ _ h2
      injection h2 with h2
      subst h2
      rw [hkd] at hko
      injection hko with hko
      subst hko
      exact ⟨rfl, rfl⟩

theorem ecdh_sessions_same_keys (prf : Bytes → Bytes → Bytes) (O : EcdhOracle) (rs : Nat) (cipher : Int)
    (a b ra rb : Bytes) (n : Nat) (hn : n < 65536)
    (hpa : IsPoint (O.pubOf a) n) (hpb : IsPoint (O.pubOf b) n)
    (hra : ra.length < 65536) (hrb : rb.length < 65536)
    (hva : O.validPub (O.pubOf a) = true) (hvb : O.validPub (O.pubOf b) = true)
    (hsym : O.ecdh a (O.pubOf b) = O.ecdh b (O.pubOf a))
    (own0 own1 own2 dev0 dev1 : EcdhSession) (xA xB : Bytes)
    (h0 : ecdhNew rs none cipher = .ok own0) (h1 : ecdhParameter prf O own0 a ra = .ok (own1, xA))
    (hd0 : ecdhNew rs (some xA) cipher = .ok dev0) (hd1 : ecdhParameter prf O dev0 b rb = .ok (dev1, xB))
    (h2 : ecdhSetParameter prf O own1 xB = .ok own2) :
    own2.cr = dev1.cr := by
  unfold ecdhNew at h0 hd0
  cases hc : cipherRow cipher with
  | none => simp [hc] at h0
  | some c =>
    simp only [hc] at h0 hd0
    injection h0 with h0; injection hd0 with hd0
    subst h0; subst hd0
    unfold ecdhParameter at h1 hd1
    by_cases hrs : rs ≠ 16 ∧ rs ≠ 48
    · simp [hrs] at h1
    · simp only [hrs, if_false] at h1 hd1
      obtain ⟨wA, hwA, h1⟩ := Outcome.bind_ok _ _ _ h1
      obtain ⟨wB, hwB, hd1⟩ := Outcome.bind_ok _ _ _ hd1
      injection h1 with h1
      injection h1 with h1a h1b
      subst h1a; subst h1b
      simp only [hc] at hd1
      obtain ⟨kd, hkd, hd1⟩ := Outcome.bind_ok _ _ _ hd1
      injection hd1 with hd1
      injection hd1 with hd1a hd1b
      subst hd1a; subst hd1b
      simp only [ecdhSetParameter, hc, Option.getD] at h2
      obtain ⟨ko, hko, h2⟩ := Outcome.bind_ok _ _ _ h2
      injection h2 with h2
      subst h2
      have hb := ecdhShared_both O a b ra rb n hn hpa hpb hra hrb hva hvb hsym wA wB hwA hwB
      unfold ecdhSymmetricKey at hkd hko
      rw [hb.1] at hko
      rw [hb.2] at hkd
      rw [hkd] at hko
      injection hko with hko
      subst hko
      rfl

end Fdo.Kex
