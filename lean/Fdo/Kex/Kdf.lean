import Fdo.Bytes
/-
Key derivation of the FDO key exchange (anchors: /repo/internal/nistkdf/kdf.go and its three
callers dhSymmetricKey / ecdhSymmetricKey / oaepSymmetricKey in /repo/kex).

* `kdfSpec`  – NIST SP 800-108 KDF in counter mode with the FDO 1.1 parameters, as the
               standard states it (h and L in bits, n = ⌈L/h⌉).
* `kdfCode`  – the loop as written in kdf.go.  Its `h` is `hash.Size()`, i.e. the PRF output
               length in BYTES, while `L` is in bits, so the code runs ⌈L/hBytes⌉ ≈ 8·n rounds and
               then truncates; it panics for n_code > 255 where the standard still allows
               n ≤ 255 (quirk kept, see `Props/C14.lean`).
Both are parametric in `prf : key → message → output`.  Core Lean only.
-/
namespace Fdo.Kex
open Fdo

/-- Result of a modelled Go function: value, returned error, or panic at a named site. -/
inductive Outcome (α : Type) where
  | ok (a : α)
  | reject
  | panic (site : String)
  deriving Repr, DecidableEq

/-- "FIDO-KDF" -/
def kdfLabel : Bytes := [0x46, 0x49, 0x44, 0x4f, 0x2d, 0x4b, 0x44, 0x46]

/-- "AutomaticOnboardTunnel" -/
def kdfContextPrefix : Bytes :=
  [0x41, 0x75, 0x74, 0x6f, 0x6d, 0x61, 0x74, 0x69, 0x63, 0x4f, 0x6e, 0x62, 0x6f, 0x61, 0x72, 0x64,
   0x54, 0x75, 0x6e, 0x6e, 0x65, 0x6c]

/-- Everything of a PRF message after the counter byte:
`Label ‖ 0x00 ‖ "AutomaticOnboardTunnel" ‖ ContextRand ‖ [L]₁₆`. -/
def kdfTail (ctxRand : Bytes) (L : Nat) : Bytes :=
  kdfLabel ++ ([0] ++ (kdfContextPrefix ++ (ctxRand ++ natBE 2 L)))

/-- The i-th PRF message `[i]₈ ‖ Label ‖ 0x00 ‖ Context ‖ [L]₁₆`. -/
def kdfMsg (i : Nat) (ctxRand : Bytes) (L : Nat) : Bytes :=
  UInt8.ofNat i :: kdfTail ctxRand L

/-- `K(1) ‖ … ‖ K(n)` for counters `start+1 … start+n`. -/
def kdfBlocks (prf : Bytes → Bytes → Bytes) (key ctxRand : Bytes) (L : Nat) : (n start : Nat) → Bytes
  | 0, _ => []
  | n+1, start => prf key (kdfMsg (start + 1) ctxRand L) ++ kdfBlocks prf key ctxRand L n (start + 1)

/-- n = ⌈L/h⌉ of SP 800-108 (both in bits). -/
def kdfSpecRounds (h L : Nat) : Nat := (L + h - 1) / h

/-- SP 800-108 counter mode, FDO parameters (r = 8, 16-bit L), PRF output length `h` BITS,
requested length `L` BITS (a multiple of 8 for every caller; the result is the leftmost
`L/8` bytes).  `none` is the standard's error indicator n > 2^r − 1. -/
def kdfSpec (prf : Bytes → Bytes → Bytes) (h L : Nat) (key ctxRand : Bytes) : Option Bytes :=
  let n := kdfSpecRounds h L
  if n > 255 then none
  else some ((kdfBlocks prf key ctxRand L n 0).take (L / 8))

/-- The PRF messages the standard feeds for (h, L, ctxRand), in order. -/
def kdfInputs (h L : Nat) (ctxRand : Bytes) : List Bytes :=
  (List.range (kdfSpecRounds h L)).map (fun i => kdfMsg (i + 1) ctxRand L)

/-- Key assembly from externally computed PRF outputs (driver: the harness computes the HMACs). -/
def kdfAssemble (L : Nat) (blocks : List Bytes) : Bytes :=
  (blocks.foldr (· ++ ·) []).take (L / 8)

/-! ### the code -/

/-- Step 1 of kdf.go: `n := L / h; if L%h != 0 { n++ }` with `h = hash.Size()` (bytes!). -/
def kdfCodeRounds (hBytes L : Nat) : Nat :=
  if L % hBytes ≠ 0 then L / hBytes + 1 else L / hBytes

/-- Step 4 of kdf.go: `for i := uint8(0); i < uint8(n); i++ { input[0] = i+1; result = append(result, HMAC(input)...) }`
(`cnt` = rounds still to run, `i` = loop variable, `acc` = `result`). -/
def kdfCodeLoop (prf : Bytes → Bytes → Bytes) (key tail : Bytes) : (cnt i : Nat) → (acc : Bytes) → Bytes
  | 0, _, acc => acc
  | cnt+1, i, acc => kdfCodeLoop prf key tail cnt (i + 1) (acc ++ prf key (UInt8.ofNat (i + 1) :: tail))

/-- `nistkdf.KDF(hash, shSe, contextRand, bits)` with `hBytes = hash.Size()` and `L = bits < 2^16`. -/
def kdfCode (prf : Bytes → Bytes → Bytes) (hBytes L : Nat) (key ctxRand : Bytes) : Outcome Bytes :=
  if hBytes ≠ 32 ∧ hBytes ≠ 48 then .panic "kdf:unsupported hash size"
  else
    let n := kdfCodeRounds hBytes L
    if n > 255 then .panic "kdf:n too large"
    else
      let result := kdfCodeLoop prf key (kdfTail ctxRand L) n 0 []
      if L / 8 ≤ result.length then .ok (result.take (L / 8))
      else .panic "kdf:slice bounds"

end Fdo.Kex
