/-
FDO 1.1 §3.6.5, written as rules independently of the code: which key exchange goes with which
owner key when the device key is ECDSA.
-/
namespace Fdo.Kex

/-- With an ECDSA device key the key exchange follows the owner key — ECDH256 for P-256, ECDH384 for
P-384, DHKEXid14 or ASYMKEX2048 for RSA-2048, DHKEXid15 or ASYMKEX3072 for RSA-3072. -/
def specValidEc (suite owner : String) : Bool :=
  (owner == "P256" && suite == "ECDH256") ||
  (owner == "P384" && suite == "ECDH384") ||
  (owner == "RSA2048" && (suite == "DHKEXid14" || suite == "ASYMKEX2048")) ||
  (owner == "RSA3072" && (suite == "DHKEXid15" || suite == "ASYMKEX3072"))

end Fdo.Kex
