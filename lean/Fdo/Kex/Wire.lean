import Fdo.Kex.Crypter
import Fdo.Gen.Schemas
import Fdo.Cbor.TypedFrag
/-
The tunnel on the wire: `SessionCrypter.Encrypt` followed by `cbor.Marshal` of the tagged result, and
`SessionCrypter.Decrypt` reading one `cbor.Tag[RawBytes]` from the stream and unmarshalling its content by
tag number. (The schemas are the regenerated ones of `cose.Encrypt0` and `cose.Mac0[cose.Encrypt0]`.)
-/
namespace Fdo.Kex
open Fdo Fdo.Cbor Fdo.Cose

/-- the Go type behind tag number `t` in `SessionCrypter.Decrypt` -/
def tunnelSchema (t : Nat) : Option Schema :=
  if t = 16 then some Fdo.Gen.Schemas.s_Encrypt0 else if t = 17 then some Fdo.Gen.Schemas.s_Mac0_Encrypt0_ else none

/-- `SessionCrypter.Decrypt(r)` on the bytes received -/
def decryptWire (P : Prims) (s : Suite) (sek svk wire : Bytes) : Dec :=
  match decodeS (fun _ => true) (2 * wire.length + 64) maxDepth (.tagAny .raw) wire with
  | some (.tag t (.raw raw), _) =>
    match tunnelSchema t with
    | none => .reject
    | some sch =>
      match unmarshalS (fun _ => true) sch raw with
      | some inner => decryptVal P s sek svk Fdo.Gen.Schemas.s_Encrypt0 t inner
      | none => .reject
  | _ => .reject

/-- `SessionCrypter.Encrypt` + `cbor.Marshal`, for the random bytes `rnd` -/
def encryptWire (P : Prims) (s : Suite) (sek svk rnd p : Bytes) : Option Bytes :=
  match encryptVal P s sek svk Fdo.Gen.Schemas.s_Encrypt0 rnd p with
  | some (t, inner, _) =>
    match tunnelSchema t with
    | some sch => (marshalS sch inner).map fun b => encHead 6 t ++ b
    | none => none
  | none => none

/-- what the wire round-trip theorem (`Props.C05.wire_round_trip`) asks of the sender's output, as one Boolean -/
def wireHypothesesHold (P : Prims) (s : Suite) (sek svk rnd p : Bytes) : Bool :=
  match encryptVal P s sek svk Fdo.Gen.Schemas.s_Encrypt0 rnd p with
  | some (t, inner, _) =>
    (match tunnelSchema t with
     | some sch => (marshalS sch inner).isSome && conf (fun _ => true) 10000 maxDepth sch inner && wconf 10000 maxDepth sch inner
     | none => false)
  | none => false

end Fdo.Kex
