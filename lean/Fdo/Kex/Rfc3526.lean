/-
RFC 3526 defines the MODP groups by formula:
  group 14:  p = 2^2048 − 2^1984 − 1 + 2^64 · (⌊2^1918 π⌋ + 124476),   g = 2
  group 15:  p = 2^3072 − 2^3008 − 1 + 2^64 · (⌊2^2942 π⌋ + 1690314),  g = 2
This file computes ⌊2^k π⌋ with Machin's formula π = 16·atan(1/5) − 4·atan(1/239) in integer
arithmetic (64 guard bits), so the primes the Go code uses (regenerated into Fdo.Gen.Kex) can be
checked against the RFC's definition rather than against a second copy of the hex digits.
Core Lean only.
-/
namespace Fdo.Kex.Rfc3526

/-- Alternating series of `atan(1/x)·one`: `t` is the current power term, `n` the odd divisor. -/
def atanLoop (x2 : Nat) : (fuel t n : Nat) → (neg : Bool) → (plus minus : Nat) → Nat × Nat
  | 0, _, _, _, plus, minus => (plus, minus)
  | fuel+1, t, n, neg, plus, minus =>
    if t = 0 then (plus, minus)
    else
      let t' := t / x2
      let n' := n + 2
      if neg then atanLoop x2 fuel t' n' false plus (minus + t' / n')
      else atanLoop x2 fuel t' n' true (plus + t' / n') minus

/-- `⌊atan(1/x)·one⌋` up to truncation error of the series terms. -/
def atanInv (one x : Nat) : Nat :=
  let t := one / x
  let r := atanLoop (x * x) (one.log2 + 1) t 1 true t 0
  r.1 - r.2

/-- `⌊2^bits · π⌋` (64 guard bits absorb the accumulated truncation error). -/
def piFloor (bits : Nat) : Nat :=
  let one := 2 ^ (bits + 64)
  (4 * (4 * atanInv one 5 - atanInv one 239)) / 2 ^ 64

/-- The RFC 3526 prime of `n` bits with π-offset `c`. -/
def modpPrime (n c : Nat) : Nat := 2 ^ n - 2 ^ (n - 64) - 1 + 2 ^ 64 * (piFloor (n - 130) + c)

def prime14 : Nat := modpPrime 2048 124476
def prime15 : Nat := modpPrime 3072 1690314

end Fdo.Kex.Rfc3526
