import Fdo.Cbor.Typed
/-
COSE_Sign1 / COSE_Mac0 as the cose package builds and verifies them: the to-be-signed
Sig_structure / MAC_structure bytes, the fixed-width r‖s signature format, and the decision
logic of `Sign1.Verify` up to the call of the asymmetric primitive (which stays an oracle).
-/
namespace Fdo.Cose
open Fdo Fdo.Cbor

/-- Content of the `protected` byte string: empty for an empty map, else the canonical
encoding of the label→value map (`newEmptyOrSerializedMap`). -/
def encProtected (pm : List (Val × AnyVal)) : Bytes :=
  if pm.isEmpty then [] else encHdrMap pm

/-- `Sig_structure` / `MAC_structure`: `[context, protected, external_aad, payload]`, the three
last as byte strings. -/
def toBeSigned (ctx : Bytes) (prot aad payload : Bytes) : Bytes :=
  encode (.arr (.cons (.tstr ctx) (.cons (.bstr prot) (.cons (.bstr aad) (.cons (.bstr payload) .nil)))))

def ctxSignature1 : Bytes := "Signature1".toUTF8.toList
def ctxMac0 : Bytes := "MAC0".toUTF8.toList

/-- r‖s, each big-endian in exactly `n` bytes (`RFC8152Signer`). -/
def rsEncode (n r s : Nat) : Bytes := natBE n r ++ natBE n s
def rsDecode (n : Nat) (sig : Bytes) : Nat × Nat := (beNat (sig.take n), beNat (sig.drop n))

inductive KeyKind where
  | ec (n : Nat)        -- ECDSA, curve order of n bytes
  | rsa
  | other
  deriving Repr

/-- How the RSA primitive is to be called. -/
inductive RsaPad where | pkcs1v15 | pss
  deriving Repr, DecidableEq

/-- What `Verify` asks the asymmetric primitive, or why it does not get that far. -/
inductive Outcome where
  | ecdsa (hashBits : Nat) (tbs : Bytes) (r s : Nat)
  | rsa (pad : RsaPad) (hashBits : Nat) (tbs : Bytes) (sig : Bytes)
  | reject                       -- (false, err) or (false, nil) without consulting the key
  | panic (site : String)
  deriving Repr

def rsaPadOf (alg : Int) : Option RsaPad :=
  if alg = -257 ∨ alg = -258 ∨ alg = -259 then some .pkcs1v15
  else if alg = -37 ∨ alg = -38 ∨ alg = -39 then some .pss
  else none

def hdrGet (m : List (Val × AnyVal)) (l : Int) : Option AnyVal :=
  (m.find? fun p => p.1.keyEq (.int l)).map (·.2)

/-- `Sign1.Verify(key, payload, aad)` on a decoded `Sign1` value
`.strct [.hdr prot unprot, payloadPtr, .bytes sig]`.
`sigAlgs` is the regenerated registry (algorithm id ↦ hash size in bits);
`payloadBytes` is the re-encoding of the payload that is signed (attached or detached). -/
def sign1Verify (sigAlgs : List (Int × Nat)) (prot : List (Val × AnyVal)) (payloadBytes : Option Bytes)
    (sig : Bytes) (aad : Bytes) (k : KeyKind) : Outcome :=
  match payloadBytes with
  | none => .reject
  | some pl =>
    if sig.length < 2 then .reject
    else if sig.length % 2 ≠ 0 then .reject
    else
      match hdrGet prot 1 with
      | none => .reject
      | some .null => .reject                      -- `hm[l] == nil` counts as missing
      | some (.int alg) =>
        if alg < -9223372036854775808 ∨ alg > 9223372036854775807 then .reject else
        match sigAlgs.find? (fun p => p.1 = alg) with
        | none => .reject                          -- unregistered algorithm
        | some (_, bits) =>
          let tbs := toBeSigned ctxSignature1 (encProtected prot) aad pl
          match k with
          | .ec n =>
            if sig.length ≠ 2 * n then .reject
            else .ecdsa bits tbs (rsDecode n sig).1 (rsDecode n sig).2
          | .rsa =>
            match rsaPadOf alg with
            | some pad => .rsa pad bits tbs sig
            | none => .reject
          | .other => .reject
      | some _ => .reject                          -- alg header is not an integer

/-- payload schema `P` out of the schema of `Sign1Tag/Mac0Tag[P, A]` -/
def payloadSchemaOf : Schema → Option Schema
  | .tagNum _ (.struct (.hdr (.cons (.ptr (.wrap p)) _ _))) => some p
  | .tagNum _ (.struct (.hdr (.cons (.ptr .wrapBytes) _ _))) => some .bytes
  | _ => none

end Fdo.Cose
