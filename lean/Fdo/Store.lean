import Fdo.Bytes
/-
Abstract specification of the server state store (sqlite/sqlite.go, interfaces of
server_state.go and protocol.TokenService).  Core Lean only.

The store is three finite maps (plus the two key tables):

  tokens   : Token → Option (Protocol × Fields)     issued ∧ not invalidated
  vouchers : Guid  → Option V
  rvBlobs  : Guid  → Option (Blob × V × Exp)

Values are opaque byte strings (`Bytes`): the canonical encoding of what the Go method was given
(argument) or returned (result).  That the Go value → stored bytes → Go value round trip is the
identity on these encodings is exactly what the refinement check of the harness compares.

Token validity is abstract: `mac : Raw → Auth` says what the store's MAC check makes of a
presented token string — the session identifier it authenticates, nothing, or "fewer than 16
decoded bytes" (kept apart because the tree as found slices such a token without a length check).
`Token` is the session identifier (16 random bytes in the code, a number here).

One `Op` per state-interface method; `step` gives the new store and the observable result.
`Reopen` (Close + Open of the database file, or a fresh *sqlite.DB / fresh server objects) is the
identity on the abstract state: everything lives in the file, the MAC secret included.

What the model says where the code could have been written either way (all confirmed by running
the code, see harness/c18.go):
  * reading a never-set field, or any field of an invalidated session: `notFound`
    (the session row and its dependants are gone, ON DELETE CASCADE; the MAC still verifies);
  * writing a field of an invalidated session: `error` (FOREIGN KEY constraint), nothing stored;
  * a token whose MAC does not verify: `invalidSession` for every accessor, `notFound` for
    InvalidateToken; InvalidateToken of an already invalidated session: `ok`;
  * the protocol a token was issued for is recorded and never consulted: a DI token can be used
    with the TO2 accessors (and gets its own TO2 fields);
  * AddVoucher of a GUID that is stored: `error` (PRIMARY KEY), the stored voucher stays;
  * ReplaceVoucher g v': `error` when v' has extensions or its GUID is already stored, `notFound`
    when g is not stored; in all these cases nothing changes;
  * RVBlob: `notFound` once `now` is after the stored expiry;
  * key tables: the first key added for a slot wins, later additions are ignored (`ok`).

`Variant.original` is the tree as found, `Variant.repaired` the code after
  fix: sqlite: reject tokens shorter than a session ID instead of panicking
  fix: sqlite: setting a DI session value again replaces the stored value
  fix: sqlite: ReplaceVoucher rejects a replacement with the GUID it replaces
-/
namespace Fdo.Store

inductive Variant
  | original
  | repaired
deriving DecidableEq, Repr

inductive Protocol
  | di | to0 | to1 | to2
deriving DecidableEq, Repr

/-- One constructor per `SetX`/`X` pair of the session-state interfaces. -/
inductive Field
  | deviceCertChain      -- DISessionState
  | voucherHeader
  | to0Nonce             -- TO0SessionState
  | to1Nonce             -- TO1SessionState
  | guid                 -- TO2SessionState
  | rvInfo
  | replGuid
  | replHmac
  | xSession
  | proveDvNonce
  | setupDvNonce
  | mtu
  | devmod
deriving DecidableEq, Repr

abbrev Token := Nat
abbrev Guid := Bytes
abbrev Fields := Field → Option Bytes
/-- (key type, RSA bits or 0) -/
abbrev KeySlot := Nat × Nat

/-- Outcome of the MAC check on a presented token string. -/
inductive Auth
  | valid (t : Token)   -- decodes, MAC verifies: authenticates session identifier `t`
  | invalid             -- not base64, wrong MAC, foreign database, no token in the context, …
  | short               -- decodes to fewer than 16 bytes
deriving DecidableEq, Repr

structure Store where
  tokens    : Token → Option (Protocol × Fields)
  vouchers  : Guid → Option Bytes
  rvBlobs   : Guid → Option (Bytes × Bytes × Nat)
  ownerKeys : KeySlot → Option Bytes
  mfgKeys   : KeySlot → Option Bytes

def Store.empty : Store :=
  ⟨fun _ => none, fun _ => none, fun _ => none, fun _ => none, fun _ => none⟩

inductive Result
  | ok
  | value (v : Bytes)
  | pair (b v : Bytes)       -- RVBlob returns the blob and the voucher
  | notFound
  | invalidSession
  | error
  | panic                    -- `Variant.original` only
deriving DecidableEq, Repr

inductive Op (Raw : Type)
  | newToken (t : Token) (p : Protocol)          -- `t`: the identifier the store draws
  | invalidate (r : Raw)
  | set (r : Raw) (f : Field) (v : Bytes)
  | get (r : Raw) (f : Field)
  | selfInfo (r : Raw)                           -- SetDeviceSelfInfo (write-only)
  | addVoucher (g : Guid) (v : Bytes)
  | getVoucher (g : Guid)
  | replaceVoucher (g g' : Guid) (ext : Bool) (v : Bytes)   -- g' = GUID of v, ext = v has extensions
  | removeVoucher (g : Guid)
  | setRVBlob (g : Guid) (b v : Bytes) (exp : Nat)
  | getRVBlob (g : Guid) (now : Nat)
  | addOwnerKey (typ bits : Nat) (v : Bytes)     -- bits: size of the key if it is RSA, else 0
  | ownerKey (typ bits : Nat)
  | addMfgKey (typ bits : Nat) (chain : Bool) (v : Bytes)
  | mfgKey (typ bits : Nat)
  | reopen

/-- Point update of a finite map. -/
def upd {α β : Type} [DecidableEq α] (m : α → β) (k : α) (v : β) : α → β :=
  fun x => if x = k then v else m x

@[simp] theorem upd_same {α β : Type} [DecidableEq α] (m : α → β) (k : α) (v : β) :
    upd m k v k = v := by simp [upd]

theorem upd_other {α β : Type} [DecidableEq α] (m : α → β) (k x : α) (v : β) (h : x ≠ k) :
    upd m k v x = m x := by simp [upd, h]

theorem upd_eq_self {α β : Type} [DecidableEq α] (m : α → β) (k : α) (v : β) (h : m k = v) :
    upd m k v = m := by
  funext x; by_cases hx : x = k <;> simp [upd, hx, h]

/-! ### key slots (`rsa_bits` column) -/

def rsa2048Restr : Nat := 1
def rsaPkcs : Nat := 5
def rsaPss : Nat := 6

/-- Slot a lookup addresses: `rsaBits` is forced to 2048 for RSA2048RESTR, used as given for
RSAPKCS/RSAPSS and ignored for every other type. -/
def lookupSlot (typ bits : Nat) : KeySlot :=
  if typ = rsa2048Restr then (typ, 2048)
  else if typ = rsaPkcs ∨ typ = rsaPss then (typ, bits)
  else (typ, 0)

/-- Slot an added key lands in (`none`: rejected — RSAPKCS/RSAPSS with a key that is not RSA). -/
def addSlot (typ keyBits : Nat) : Option KeySlot :=
  if typ = rsa2048Restr then some (typ, 2048)
  else if typ = rsaPkcs ∨ typ = rsaPss then (if keyBits = 0 then none else some (typ, keyBits))
  else some (typ, 0)

def addKey (m : KeySlot → Option Bytes) (slot : KeySlot) (v : Bytes) : KeySlot → Option Bytes :=
  match m slot with
  | some _ => m               -- INSERT OR IGNORE / the first row is the one read
  | none => upd m slot (some v)

def found : Option Bytes → Result
  | some v => .value v
  | none => .notFound

/-! ### the step function -/

/-- `sessionID`: run `k` on the authenticated session identifier, or answer `bad`. -/
def withSession (V : Variant) (a : Auth) (s : Store) (bad : Result)
    (k : Token → Store × Result) : Store × Result :=
  match a with
  | .valid t => k t
  | .invalid => (s, bad)
  | .short => (s, if V = .original then .panic else bad)

def setField (V : Variant) (s : Store) (t : Token) (f : Field) (v : Bytes) : Store × Result :=
  match s.tokens t with
  | none => (s, .error)
  | some (p, fs) =>
    if V = .original ∧ f = .deviceCertChain ∧ (fs f).isSome then
      (s, .ok)          -- as found: a second row is added, the first one keeps being read
    else if V = .original ∧ f = .voucherHeader ∧ (fs f).isSome then
      (s, .error)       -- as found: UNIQUE constraint
    else
      ({ s with tokens := upd s.tokens t (some (p, upd fs f (some v))) }, .ok)

def getField (s : Store) (t : Token) (f : Field) : Result :=
  match s.tokens t with
  | none => .notFound
  | some (_, fs) => found (fs f)

def replaceVoucher (V : Variant) (s : Store) (g g' : Guid) (ext : Bool) (v : Bytes) :
    Store × Result :=
  if ext then (s, .error)
  else if V = .repaired ∧ g = g' then (s, .error)
  else if (s.vouchers g').isSome then (s, .error)       -- AddVoucher fails, nothing else happens
  else if g = g' then (s, .ok)     -- as found: the voucher just added is the one removed again
  else match s.vouchers g with
    | none => (s, .notFound)                             -- new voucher removed again
    | some _ => ({ s with vouchers := upd (upd s.vouchers g' (some v)) g none }, .ok)


/-! ### ReplaceVoucher interrupted (the request's context ends between its statements)

`DB.ReplaceVoucher` is not a transaction: it inserts the replacement, then deletes the old voucher; when the
deletion fails because the request's context has ended it removes the replacement again under a context of
its own. `Cut` says where the request's context ends. -/
inductive Cut
  | none            -- not interrupted
  | beforeInsert    -- the INSERT of the replacement already fails
  | afterInsert     -- the replacement is in, the DELETE of the old voucher fails
deriving DecidableEq, Repr

def replaceVoucherCut (s : Store) (g g' : Guid) (ext : Bool) (v : Bytes) : Cut → Store × Result
  | .none => replaceVoucher .repaired s g g' ext v
  | .beforeInsert => (s, .error)
  | .afterInsert =>
    if ext ∨ g = g' ∨ (s.vouchers g').isSome then (s, .error)
    else
      let s₁ := { s with vouchers := upd s.vouchers g' (some v) }     -- inserted
      -- the deletion of `g` fails; best effort: the replacement is removed again
      ({ s₁ with vouchers := upd s₁.vouchers g' none }, .error)

/-- the behaviour of the seeded change C03-9: the roll-back runs under the dead context and fails too -/
def replaceVoucherCutNoRollback (s : Store) (g g' : Guid) (ext : Bool) (v : Bytes) : Cut → Store × Result
  | .afterInsert =>
    if ext ∨ g = g' ∨ (s.vouchers g').isSome then (s, .error)
    else ({ s with vouchers := upd s.vouchers g' (some v) }, .error)
  | c => replaceVoucherCut s g g' ext v c

def step {Raw : Type} (V : Variant) (mac : Raw → Auth) (s : Store) : Op Raw → Store × Result
  | .newToken t p => ({ s with tokens := upd s.tokens t (some (p, fun _ => none)) }, .ok)
  | .invalidate r =>
    withSession V (mac r) s .notFound fun t => ({ s with tokens := upd s.tokens t none }, .ok)
  | .set r f v => withSession V (mac r) s .invalidSession fun t => setField V s t f v
  | .get r f => withSession V (mac r) s .invalidSession fun t => (s, getField s t f)
  | .selfInfo r => withSession V (mac r) s .invalidSession fun _ => (s, .ok)
  | .addVoucher g v =>
    match s.vouchers g with
    | some _ => (s, .error)
    | none => ({ s with vouchers := upd s.vouchers g (some v) }, .ok)
  | .getVoucher g => (s, found (s.vouchers g))
  | .replaceVoucher g g' ext v => replaceVoucher V s g g' ext v
  | .removeVoucher g =>
    match s.vouchers g with
    | none => (s, .notFound)
    | some v => ({ s with vouchers := upd s.vouchers g none }, .value v)
  | .setRVBlob g b v exp => ({ s with rvBlobs := upd s.rvBlobs g (some (b, v, exp)) }, .ok)
  | .getRVBlob g now =>
    match s.rvBlobs g with
    | none => (s, .notFound)
    | some (b, v, exp) => (s, if exp < now then .notFound else .pair b v)
  | .addOwnerKey typ bits v =>
    match addSlot typ bits with
    | none => (s, .error)
    | some slot => ({ s with ownerKeys := addKey s.ownerKeys slot v }, .ok)
  | .ownerKey typ bits => (s, found (s.ownerKeys (lookupSlot typ bits)))
  | .addMfgKey typ bits chain v =>
    if !chain then (s, .error)
    else match addSlot typ bits with
      | none => (s, .error)
      | some slot => ({ s with mfgKeys := addKey s.mfgKeys slot v }, .ok)
  | .mfgKey typ bits => (s, found (s.mfgKeys (lookupSlot typ bits)))
  | .reopen => (s, .ok)

/-! ### histories -/

section
variable {Raw : Type} (V : Variant) (mac : Raw → Auth)

/-- Store after a history. -/
def exec (s : Store) : List (Op Raw) → Store
  | [] => s
  | op :: ops => exec (step V mac s op).1 ops

/-- Results of a history, in order. -/
def results (s : Store) : List (Op Raw) → List Result
  | [] => []
  | op :: ops => (step V mac s op).2 :: results (step V mac s op).1 ops

/-- Each operation of a history with its result. -/
def trace (s : Store) : List (Op Raw) → List (Op Raw × Result)
  | [] => []
  | op :: ops => (op, (step V mac s op).2) :: trace (step V mac s op).1 ops

/-- The result of `op` issued after history `h`. -/
def after (s : Store) (h : List (Op Raw)) (op : Op Raw) : Result :=
  (step V mac (exec V mac s h) op).2

end

/-! ### classification of operations -/

/-- The token string a session operation presents. -/
def Op.raw {Raw : Type} : Op Raw → Option Raw
  | .invalidate r | .set r _ _ | .get r _ | .selfInfo r => some r
  | _ => none

/-- Session operations: they address one session (or try to). -/
def Op.isSession {Raw : Type} : Op Raw → Bool
  | .newToken .. | .invalidate .. | .set .. | .get .. | .selfInfo .. => true
  | _ => false

def Op.isReopen {Raw : Type} : Op Raw → Bool
  | .reopen => true
  | _ => false

/-- `op` is a session operation that does not address session `t`: it issues another
identifier, or presents a token that authenticates another session or none. -/
def Op.foreignTo {Raw : Type} (mac : Raw → Auth) (t : Token) : Op Raw → Bool
  | .newToken t' _ => t' ≠ t
  | .invalidate r | .set r _ _ | .get r _ | .selfInfo r => mac r ≠ .valid t
  | _ => false

/-- `op` leaves field `f` of session `t` alone: it neither issues nor invalidates `t` nor sets
`f` of `t`. -/
def Op.quiet {Raw : Type} (mac : Raw → Auth) (t : Token) (f : Field) : Op Raw → Prop
  | .newToken t' _ => t' ≠ t
  | .invalidate r => mac r ≠ .valid t
  | .set r f' _ => ¬ (mac r = .valid t ∧ f' = f)
  | _ => True

/-- `op` neither issues nor invalidates session `t`. -/
def Op.keeps {Raw : Type} (mac : Raw → Auth) (t : Token) : Op Raw → Prop
  | .newToken t' _ => t' ≠ t
  | .invalidate r => mac r ≠ .valid t
  | _ => True

/-- `op` does not issue session `t`. -/
def Op.noIssue {Raw : Type} (t : Token) : Op Raw → Prop
  | .newToken t' _ => t' ≠ t
  | _ => True

/-- A result that hands out nothing: no stored value and no acknowledgement of a write. -/
def Result.grantsNothing : Result → Prop
  | .notFound | .invalidSession | .error => True
  | _ => False

end Fdo.Store
