import Fdo.Svc.Fsim
/-
Helper lemmas for C17 (Fdo/Props/C17.lean): the chunking loop, the download round loop for an
arbitrary sequence of delivered chunks, the upload owner's fold over the device's messages.
-/
namespace Fdo.Svc.Fsim
open Fdo

/-! ### filesystem -/

@[simp] theorem FS.set_same (fs : FS) (n b : Bytes) : (fs.set n b) n = some b := by
  simp [FS.set]

theorem FS.set_other (fs : FS) (n b m : Bytes) (h : m ≠ n) : (fs.set n b) m = fs m := by
  simp [FS.set, h]

/-! ### chunks -/

theorem chunksAux_flatten (c : Nat) (hc : 1 ≤ c) :
    ∀ (f : Nat) (b : Bytes), b.length ≤ f → (chunksAux c f b).flatten = b := by
  intro f
  induction f with
  | zero =>
    intro b hb
    have : b = [] := List.eq_nil_of_length_eq_zero (by omega)
    subst this; rfl
  | succ f ih =>
    intro b hb
    unfold chunksAux
    by_cases hn : b = []
    · simp [hn]
    · simp only [hn, if_false, List.flatten_cons]
      have hpos : 0 < b.length := List.length_pos_iff.mpr hn
      rw [ih (b.drop c) (by simp only [List.length_drop]; omega)]
      exact List.take_append_drop c b

theorem chunksAux_mem (c : Nat) (hc : 1 ≤ c) :
    ∀ (f : Nat) (b x : Bytes), x ∈ chunksAux c f b → x ≠ [] ∧ x.length ≤ c := by
  intro f
  induction f with
  | zero => intro b x hx; simp [chunksAux] at hx
  | succ f ih =>
    intro b x hx
    unfold chunksAux at hx
    by_cases hn : b = []
    · simp [hn] at hx
    · simp only [hn, if_false, List.mem_cons] at hx
      rcases hx with hx | hx
      · subst hx
        have hpos : 0 < b.length := List.length_pos_iff.mpr hn
        refine ⟨?_, ?_⟩
        · intro h
          have := congrArg List.length h
          simp only [List.length_take, List.length_nil] at this
          omega
        · simp only [List.length_take]; omega
      · exact ih _ _ hx

theorem chunks_flatten (c : Nat) (hc : 1 ≤ c) (b : Bytes) : (chunks c b).flatten = b :=
  chunksAux_flatten c hc b.length b (Nat.le_refl _)

theorem chunks_mem (c : Nat) (hc : 1 ≤ c) (b x : Bytes) (hx : x ∈ chunks c b) : x ≠ [] ∧ x.length ≤ c :=
  chunksAux_mem c hc b.length b x hx

theorem chunks_ne_nil (c : Nat) (b : Bytes) (hb : b ≠ []) : chunks c b ≠ [] := by
  unfold chunks
  have hpos : 0 < b.length := List.length_pos_iff.mpr hb
  obtain ⟨f, hf⟩ : ∃ f, b.length = f + 1 := ⟨b.length - 1, by omega⟩
  rw [hf]
  unfold chunksAux
  simp [hb]

theorem chunks_nil (c : Nat) : chunks c [] = [] := rfl

/-! ### deliver -/

theorem deliver_honest : ∀ (k : Nat) (cs : List Bytes),
    deliver (fun _ c => c) k cs = cs.map (fun c => (c, c)) := by
  intro k cs
  induction cs generalizing k with
  | nil => rfl
  | cons c cs ih => simp [deliver, ih]

theorem deliver_fst (dat : Nat → Bytes → Bytes) : ∀ (k : Nat) (cs : List Bytes),
    (deliver dat k cs).map Prod.fst = cs := by
  intro k cs
  induction cs generalizing k with
  | nil => rfl
  | cons c cs ih => simp [deliver, ih]

theorem deliver_length (dat : Nat → Bytes → Bytes) : ∀ (k : Nat) (cs : List Bytes),
    (deliver dat k cs).length = cs.length := by
  intro k cs
  induction cs generalizing k with
  | nil => rfl
  | cons c cs ih => simp [deliver, ih]

theorem deliver_snd_ne_nil (dat : Nat → Bytes → Bytes) (hd : ∀ k c, c ≠ [] → dat k c ≠ []) :
    ∀ (k : Nat) (cs : List Bytes), (∀ c ∈ cs, c ≠ []) → ∀ p ∈ deliver dat k cs, p.2 ≠ [] := by
  intro k cs
  induction cs generalizing k with
  | nil => intro _ p hp; simp [deliver] at hp
  | cons c cs ih =>
    intro hc p hp
    simp only [deliver, List.mem_cons] at hp
    rcases hp with hp | hp
    · subst hp; exact hd _ _ (hc c (by simp))
    · exact ih (k + 1) (fun c' hc' => hc c' (by simp [hc'])) p hp

theorem got_deliver_length (dat : Nat → Bytes → Bytes) (hd : ∀ k c, (dat k c).length = c.length) :
    ∀ (k : Nat) (cs : List Bytes), (got (deliver dat k cs)).length = cs.flatten.length := by
  intro k cs
  induction cs generalizing k with
  | nil => rfl
  | cons c cs ih =>
    have := ih (k + 1)
    simp only [got] at this
    simp [deliver, got, hd, this]

theorem got_honest (cs : List Bytes) : got (cs.map (fun c => (c, c))) = cs.flatten := by
  have : (Prod.snd ∘ fun c : Bytes => (c, c)) = id := rfl
  simp [got, List.map_map, this]

theorem sentBytes_deliver (dat : Nat → Bytes → Bytes) (k : Nat) (cs : List Bytes) :
    sentBytes (deliver dat k cs) = cs.flatten := by
  simp [sentBytes, deliver_fst]

theorem got_cons (p : Bytes × Bytes) (r : List (Bytes × Bytes)) : got (p :: r) = p.2 ++ got r := by
  simp [got]

theorem sentBytes_cons (p : Bytes × Bytes) (r : List (Bytes × Bytes)) :
    sentBytes (p :: r) = p.1 ++ sentBytes r := by
  simp [sentBytes]

theorem got_pos (r : List (Bytes × Bytes)) (hr : r ≠ []) (hne : ∀ p ∈ r, p.2 ≠ []) :
    0 < (got r).length := by
  cases r with
  | nil => exact absurd rfl hr
  | cons p r =>
    have : p.2 ≠ [] := hne p (by simp)
    have hpos : 0 < p.2.length := List.length_pos_iff.mpr this
    rw [got_cons, List.length_append]; omega

/-! ### the download round loop -/

/-- How a finalisation ends the exchange. -/
def dlEnd (H : Bytes → Bytes) (must : Bool) (d : DlDev) (fs : FS) (buf : Bytes) (index cnt : Nat) : DlResult :=
  match dlFinalize H d fs buf with
  | (d', fs', .done code) => ⟨fs', d', some code, dlOwnerDone must index code, cnt⟩
  | (d', fs', .fail) => ⟨fs', d', none, .err, cnt⟩
  | (d', fs', .quiet) => ⟨fs', d', none, .stall, cnt⟩

theorem dlFinalize_ne_quiet (H : Bytes → Bytes) (d : DlDev) (fs : FS) (buf : Bytes) (d' : DlDev) (fs' : FS) :
    dlFinalize H d fs buf ≠ (d', fs', .quiet) := by
  unfold dlFinalize
  intro h
  split at h
  · simp at h
  · split at h
    · simp at h
    · split at h <;> simp at h

theorem dlFinalize_long (H : Bytes → Bytes) (d : DlDev) (fs : FS) (buf : Bytes)
    (h : (buf.length : Int) > d.length) : dlFinalize H d fs buf = (.fresh, fs, .done (-1)) := by
  unfold dlFinalize; rw [if_pos h]

theorem dlFinalize_badsha (H : Bytes → Bytes) (d : DlDev) (fs : FS) (buf : Bytes)
    (h : ¬ (buf.length : Int) > d.length) (hs : d.sha ≠ [] ∧ H buf ≠ d.sha) :
    dlFinalize H d fs buf = (.fresh, fs, .done (-1)) := by
  unfold dlFinalize; rw [if_neg h, if_pos hs]

theorem dlFinalize_ok (H : Bytes → Bytes) (d : DlDev) (fs : FS) (buf : Bytes)
    (h : ¬ (buf.length : Int) > d.length) (hs : ¬ (d.sha ≠ [] ∧ H buf ≠ d.sha)) (hn : d.name ≠ []) :
    dlFinalize H d fs buf = (.fresh, fs.set d.name buf, .done buf.length) := by
  unfold dlFinalize; rw [if_neg h, if_neg hs, if_neg hn]

theorem dlEnd_done (H : Bytes → Bytes) (must : Bool) (d : DlDev) (fs : FS) (buf : Bytes) (index cnt : Nat)
    (d' : DlDev) (fs' : FS) (code : Int) (h : dlFinalize H d fs buf = (d', fs', .done code)) :
    dlEnd H must d fs buf index cnt = ⟨fs', d', some code, dlOwnerDone must index code, cnt⟩ := by
  simp only [dlEnd, h]

theorem dlOwnerDone_fail (must : Bool) (index : Nat) :
    dlOwnerDone must index (-1) = (if must then .err else .done) := by
  simp [dlOwnerDone]

theorem dlFinalize_temp (H : Bytes → Bytes) (d : DlDev) (t : Option Bytes) (fs : FS) (buf : Bytes) :
    dlFinalize H { d with temp := t } fs buf = dlFinalize H d fs buf := rfl

/-- One step of the loop that finalises. -/
theorem dlLoop_step_final (H : Bytes → Bytes) (must : Bool) (k idx : Nat) (d : DlDev) (fs : FS)
    (p : Bytes × Bytes) (r : List (Bytes × Bytes))
    (h : ((d.temp.getD [] ++ p.2).length : Int) ≥ d.length) :
    dlLoop H must k idx d fs (p :: r) = dlEnd H must d fs (d.temp.getD [] ++ p.2) (idx + p.1.length) (k + 1) := by
  obtain ⟨sent, gotc⟩ := p
  simp only [dlLoop, dlRecv, dlEnd]
  simp only [ge_iff_le] at h
  simp only [ge_iff_le, h, if_true]
  cases hfin : dlFinalize H d fs (d.temp.getD [] ++ gotc) with
  | mk d' rest =>
    obtain ⟨fs', out⟩ := rest
    cases out with
    | quiet => exact absurd hfin (dlFinalize_ne_quiet H d fs _ d' fs')
    | done code => simp
    | fail => simp

/-- One step of the loop that does not finalise. -/
theorem dlLoop_step_quiet (H : Bytes → Bytes) (must : Bool) (k idx : Nat) (d : DlDev) (fs : FS)
    (p : Bytes × Bytes) (r : List (Bytes × Bytes))
    (h : ((d.temp.getD [] ++ p.2).length : Int) < d.length) :
    dlLoop H must k idx d fs (p :: r) =
      dlLoop H must (k + 1) (idx + p.1.length) { d with temp := some (d.temp.getD [] ++ p.2) } fs r := by
  obtain ⟨sent, gotc⟩ := p
  simp only [] at h
  have h' : ¬ ((d.temp.getD [] ++ gotc).length : Int) ≥ d.length := by simp only [ge_iff_le]; omega
  simp only [dlLoop, dlRecv, h', if_false]

/-- Exactly the announced number of bytes arrives: the device finalises at the last chunk, on all
the bytes. -/
theorem dlLoop_complete (H : Bytes → Bytes) (must : Bool) (n : Bytes) (L : Int) (s : Bytes) :
    ∀ (ps : List (Bytes × Bytes)) (k idx : Nat) (t : Option Bytes) (fs : FS),
      ps ≠ [] → (∀ p ∈ ps, p.2 ≠ []) → ((t.getD [] ++ got ps).length : Int) = L →
      dlLoop H must k idx ⟨n, L, s, t⟩ fs ps =
        dlEnd H must ⟨n, L, s, none⟩ fs (t.getD [] ++ got ps) (idx + (sentBytes ps).length) (k + ps.length) := by
  intro ps
  induction ps with
  | nil => intro _ _ _ _ h; exact absurd rfl h
  | cons p r ih =>
    intro k idx t fs _ hne htot
    by_cases hr : r = []
    · subst hr
      have hg : got [p] = p.2 := by simp [got]
      have hsb : sentBytes [p] = p.1 := by simp [sentBytes]
      rw [hg] at htot ⊢
      rw [dlLoop_step_final H must k idx ⟨n, L, s, t⟩ fs p [] (by simp only []; omega)]
      simp only [hsb, List.length_cons, List.length_nil]
      exact congrArg (fun x => dlEnd H must x fs (t.getD [] ++ p.2) (idx + p.1.length) (k + (0 + 1))) rfl
        |>.trans (by simp only [dlEnd]; rw [← dlFinalize_temp H ⟨n, L, s, none⟩ t])
    · have hpos := got_pos r hr (fun q hq => hne q (by simp [hq]))
      rw [got_cons] at htot
      have hlt : ((t.getD [] ++ p.2).length : Int) < L := by
        simp only [List.length_append] at htot ⊢; omega
      rw [dlLoop_step_quiet H must k idx ⟨n, L, s, t⟩ fs p r hlt]
      have := ih (k + 1) (idx + p.1.length) (some (t.getD [] ++ p.2)) fs hr
        (fun q hq => hne q (by simp [hq]))
        (by simp only [Option.getD_some, List.append_assoc]; exact htot)
      simp only [] at this ⊢
      rw [this]
      simp only [Option.getD_some, got_cons, sentBytes_cons, List.append_assoc, List.length_append,
        List.length_cons]
      congr 1 <;> omega

/-- Fewer bytes than announced arrive: nobody ever answers, the temp file stays. -/
theorem dlLoop_short (H : Bytes → Bytes) (must : Bool) (n : Bytes) (L : Int) (s : Bytes) :
    ∀ (ps : List (Bytes × Bytes)) (k idx : Nat) (t : Option Bytes) (fs : FS),
      ((t.getD [] ++ got ps).length : Int) < L →
      dlLoop H must k idx ⟨n, L, s, t⟩ fs ps =
        ⟨fs, ⟨n, L, s, if ps = [] then t else some (t.getD [] ++ got ps)⟩, none, .stall, k + ps.length⟩ := by
  intro ps
  induction ps with
  | nil => intro k idx t fs _; simp [dlLoop]
  | cons p r ih =>
    intro k idx t fs htot
    rw [got_cons] at htot
    have hlt : ((t.getD [] ++ p.2).length : Int) < L := by
      simp only [List.length_append] at htot ⊢; omega
    rw [dlLoop_step_quiet H must k idx ⟨n, L, s, t⟩ fs p r hlt]
    have := ih (k + 1) (idx + p.1.length) (some (t.getD [] ++ p.2)) fs
      (by simp only [Option.getD_some, List.append_assoc]; exact htot)
    simp only [] at this ⊢
    rw [this]
    by_cases hr : r = []
    · subst hr; simp [got]
    · simp [hr, got_cons, List.append_assoc]; omega

/-- At least the announced number of bytes arrives, and no prefix of exactly the announced length
passes the digest check: the device answers -1 at the first message that reaches the announced
length, nothing is renamed into place and no temp file stays. -/
theorem dlLoop_reject (H : Bytes → Bytes) (must : Bool) (n : Bytes) (L : Int) (s : Bytes) :
    ∀ (ps : List (Bytes × Bytes)) (k idx : Nat) (t : Option Bytes) (fs : FS),
      ps ≠ [] → L ≤ ((t.getD [] ++ got ps).length : Int) →
      (∀ p : Bytes, p <+: (t.getD [] ++ got ps) → (p.length : Int) = L → s ≠ [] ∧ H p ≠ s) →
      (dlLoop H must k idx ⟨n, L, s, t⟩ fs ps).fs = fs ∧
      (dlLoop H must k idx ⟨n, L, s, t⟩ fs ps).dev = .fresh ∧
      (dlLoop H must k idx ⟨n, L, s, t⟩ fs ps).reply = some (-1) ∧
      (dlLoop H must k idx ⟨n, L, s, t⟩ fs ps).owner = (if must then .err else .done) := by
  intro ps
  induction ps with
  | nil => intro _ _ _ _ h; exact absurd rfl h
  | cons p r ih =>
    intro k idx t fs _ hL hbad
    rw [got_cons] at hL hbad
    by_cases hge : ((t.getD [] ++ p.2).length : Int) ≥ L
    · rw [dlLoop_step_final H must k idx ⟨n, L, s, t⟩ fs p r hge]
      by_cases hgt : ((t.getD [] ++ p.2).length : Int) > L
      · rw [dlEnd_done H must _ fs _ _ _ _ _ _ (dlFinalize_long H ⟨n, L, s, t⟩ fs _ hgt)]
        simp [dlOwnerDone_fail]
      · have heq : ((t.getD [] ++ p.2).length : Int) = L := by omega
        have hb := hbad (t.getD [] ++ p.2) (by rw [← List.append_assoc]; exact List.prefix_append _ _) heq
        rw [dlEnd_done H must _ fs _ _ _ _ _ _ (dlFinalize_badsha H ⟨n, L, s, t⟩ fs _ hgt hb)]
        simp [dlOwnerDone_fail]
    · have hlt : ((t.getD [] ++ p.2).length : Int) < L := by omega
      have hr : r ≠ [] := by
        intro hr; subst hr
        simp only [got, List.map_nil, List.flatten_nil, List.append_nil] at hL
        omega
      rw [dlLoop_step_quiet H must k idx ⟨n, L, s, t⟩ fs p r hlt]
      exact ih (k + 1) (idx + p.1.length) (some (t.getD [] ++ p.2)) fs hr
        (by simp only [Option.getD_some, List.append_assoc]; exact hL)
        (by simp only [Option.getD_some, List.append_assoc]; exact hbad)

/-! ### the upload owner's fold -/

/-- The data messages as the owner sees them. -/
theorem upTransit_data (T : Transit) : ∀ (k : Nat) (cs : List Bytes) (rest : List UpMsg),
    upTransit T k (cs.map UpMsg.data ++ rest) =
      ((deliver T.dat k cs).map fun p => UpMsg.data p.2) ++ upTransit T (k + cs.length) rest := by
  intro k cs
  induction cs generalizing k with
  | nil => intro rest; simp [deliver]
  | cons c cs ih =>
    intro rest
    simp only [List.map_cons, List.cons_append, upTransit, deliver, List.length_cons]
    rw [ih (k + 1) rest]
    have : k + 1 + cs.length = k + (cs.length + 1) := by omega
    rw [this]

theorem upFold_data : ∀ (ps : List (Bytes × Bytes)) (o : UpOwner),
    (ps.map fun p => UpMsg.data p.2).foldl upHandle o =
      { o with temp := if ps = [] then o.temp else some (o.temp.getD [] ++ got ps) } := by
  intro ps
  induction ps with
  | nil => intro o; simp
  | cons p r ih =>
    intro o
    simp only [List.map_cons, List.foldl_cons, upHandle]
    rw [ih]
    by_cases hr : r = []
    · subst hr; simp [got]
    · simp [hr, got_cons, List.append_assoc]

/-- The owner module's state after everything the device sends. -/
theorem upFold (H : Bytes → Bytes) (T : Transit) (c : Nat) (file : Bytes) :
    (upTransit T 0 (upSend H c file)).foldl upHandle .init =
      ⟨T.len file.length, T.sha (H file),
        if chunks c file = [] then none else some (received T c file)⟩ := by
  unfold upSend
  simp only [upTransit]
  rw [upTransit_data]
  simp only [upTransit, List.foldl_cons, List.foldl_append, List.foldl_nil, upHandle, UpOwner.init]
  rw [upFold_data]
  have hd : deliver T.dat 0 (chunks c file) = [] ↔ chunks c file = [] := by
    constructor
    · intro h; have := deliver_length T.dat 0 (chunks c file); rw [h] at this; exact List.eq_nil_of_length_eq_zero this.symm
    · intro h; rw [h]; rfl
  by_cases hc : chunks c file = []
  · simp [hc, deliver]
  · simp [hc, hd, received]

theorem upBuf_eq (T : Transit) (c : Nat) (file : Bytes) :
    (if chunks c file = [] then none else some (received T c file)).getD [] = received T c file := by
  by_cases hc : chunks c file = []
  · simp [hc, received, deliver, got]
  · simp [hc]

theorem upTemp_isSome (T : Transit) (c : Nat) (file : Bytes) (hf : file ≠ []) :
    (if chunks c file = [] then none else some (received T c file)).isSome = true := by
  simp [chunks_ne_nil c file hf]

theorem received_honest (c : Nat) (hc : 1 ≤ c) (file : Bytes) : received Transit.none c file = file := by
  unfold received Transit.none
  simp only
  rw [deliver_honest, got_honest, chunks_flatten c hc]

/-- Alterations that keep the size of every chunk keep the total. -/
theorem received_length (T : Transit) (hd : ∀ k c, (T.dat k c).length = c.length) (c : Nat) (hc : 1 ≤ c)
    (file : Bytes) : (received T c file).length = file.length := by
  unfold received
  rw [got_deliver_length T.dat hd, chunks_flatten c hc]

theorem upload_eq (V : Variant) (H : Bytes → Bytes) (P : UpParams) (file : Bytes) (T : Transit) (fs : FS)
    (hfit : fits false P.devMtu modUpload (upRequest P.name) = true) :
    upload V H P file T fs =
      upFinal V H ⟨T.len file.length, T.sha (H file),
        if chunks (upChunk V P.ownMtu) file = [] then none else some (received T (upChunk V P.ownMtu) file)⟩
        fs (baseName P.name) := by
  unfold upload
  simp only [hfit, Bool.not_true, Bool.false_eq_true, if_false]
  rw [upFold]

theorem upChunk_pos (V : Variant) (ownMtu : Nat) : 1 ≤ upChunk V ownMtu := by
  cases V <;> simp [upChunk] <;> omega

/-! ### download: from the parameters to the loop -/

theorem dlMaxChunk_pos (chunk : Int) : 1 ≤ dlMaxChunk chunk := by
  unfold dlMaxChunk
  by_cases h1 : chunk > 0
  · simp only [h1, if_true]; omega
  · by_cases h2 : chunk < 0 <;> simp [h1, h2]

theorem dlChunk_pos (mtu : Nat) (chunk : Int) (hav : 1 ≤ dataAvail mtu) : 1 ≤ dlChunk mtu chunk := by
  unfold dlChunk
  have := dlMaxChunk_pos chunk
  have h2 : 1 ≤ (dataAvail mtu).toNat := by omega
  exact Nat.le_min.mpr ⟨h2, this⟩

theorem download_eq (H : Bytes → Bytes) (P : DlParams) (file : Bytes) (T : Transit) (fs : FS)
    (hfit : fits true P.mtu modDownload (dlAnnounce P.name file.length) = true)
    (hav : 1 ≤ dataAvail P.mtu) :
    download H P file T fs =
      dlLoop H P.must 0 0 ⟨P.name, T.len file.length, T.sha (H file), none⟩ fs
        (deliver T.dat 0 (chunks (dlChunk P.mtu P.chunk) file)) := by
  unfold download
  have h : ¬ dataAvail P.mtu < 1 := by omega
  simp only [hfit, Bool.not_true, Bool.false_eq_true, if_false, h, dlAnnounced]

/-- `baseName` of a name without a slash is the name. -/
theorem baseName_noslash_aux : ∀ (n acc : Bytes), (∀ b ∈ n, b ≠ 47) →
    n.foldl (fun acc b => if b = 47 then [] else acc ++ [b]) acc = acc ++ n := by
  intro n
  induction n with
  | nil => intro acc _; simp
  | cons b n ih =>
    intro acc h
    have hb : b ≠ 47 := h b (by simp)
    simp only [List.foldl_cons, hb, if_false]
    rw [ih _ (fun x hx => h x (by simp [hx]))]
    simp

theorem baseName_noslash (n : Bytes) (h : ∀ b ∈ n, b ≠ 47) : baseName n = n := by
  unfold baseName
  rw [baseName_noslash_aux n [] h]; rfl

end Fdo.Svc.Fsim
