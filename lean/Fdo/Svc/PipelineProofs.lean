import Fdo.Svc.Pipeline
/-
Invariants of the device-side pipeline model: no reachable state is stuck (deadlock freedom for every
schedule and every channel capacity ≥ 1), every schedule terminates, and what the transport loop reads
is the byte stream the modules wrote — whatever the schedule.
-/
namespace Fdo.Svc.Pipeline
open Fdo

/-! ### list helpers -/

def AllClosed : List Pipe → Prop
  | [] => True
  | p :: r => p.closed = true ∧ AllClosed r

def AllButLastClosed : List Pipe → Prop
  | [] => True
  | [_] => True
  | p :: q :: r => p.closed = true ∧ AllButLastClosed (q :: r)

theorem closeLast_length (l : List Pipe) : (closeLast l).length = l.length := by
  induction l with
  | nil => rfl
  | cons p r ih => cases r with
    | nil => rfl
    | cons q r => simp [closeLast, ih]

theorem writeLast_length (b : Bytes) (l : List Pipe) : (writeLast b l).length = l.length := by
  induction l with
  | nil => rfl
  | cons p r ih => cases r with
    | nil => rfl
    | cons q r => simp [writeLast, ih]

theorem closeLast_allClosed (l : List Pipe) (h : AllButLastClosed l) : AllClosed (closeLast l) := by
  induction l with
  | nil => trivial
  | cons p r ih => cases r with
    | nil => simp [closeLast, AllClosed]
    | cons q r => exact ⟨h.1, ih h.2⟩

theorem allClosed_append_one (l : List Pipe) (x : Pipe) (h : AllClosed l) : AllButLastClosed (l ++ [x]) := by
  induction l with
  | nil => trivial
  | cons p r ih => cases r with
    | nil => exact ⟨h.1, trivial⟩
    | cons q r => exact ⟨h.1, ih h.2⟩

theorem allClosed_abl (l : List Pipe) (h : AllClosed l) : AllButLastClosed l := by
  induction l with
  | nil => trivial
  | cons p r ih => cases r with
    | nil => trivial
    | cons q r => exact ⟨h.1, ih h.2⟩

theorem allClosed_lastOpen (l : List Pipe) (h : AllClosed l) : lastOpen l = false := by
  induction l with
  | nil => rfl
  | cons p r ih => cases r with
    | nil => simp [lastOpen, h.1]
    | cons q r => exact ih h.2

theorem writeLast_abl (b : Bytes) (l : List Pipe) (h : AllButLastClosed l) : AllButLastClosed (writeLast b l) := by
  induction l with
  | nil => trivial
  | cons p r ih => cases r with
    | nil => trivial
    | cons q r =>
      have := ih h.2
      cases r with
      | nil => exact ⟨h.1, trivial⟩
      | cons q' r' => exact ⟨h.1, this⟩

theorem writeLast_lastOpen (b : Bytes) (l : List Pipe) : lastOpen (writeLast b l) = lastOpen l := by
  induction l with
  | nil => rfl
  | cons p r ih => cases r with
    | nil => simp only [writeLast, lastOpen]; split <;> simp_all
    | cons q r =>
      cases r with
      | nil => simpa [writeLast, lastOpen] using ih
      | cons q' r' => simpa [writeLast, lastOpen] using ih

theorem lastOpen_append_one (l : List Pipe) (x : Pipe) : lastOpen (l ++ [x]) = !x.closed := by
  induction l with
  | nil => rfl
  | cons p r ih => cases r with
    | nil => rfl
    | cons q r => simpa [lastOpen] using ih

theorem abl_tail (p : Pipe) (r : List Pipe) (h : AllButLastClosed (p :: r)) : AllButLastClosed r := by
  cases r with
  | nil => trivial
  | cons q r => exact h.2

theorem abl_head_closed (p q : Pipe) (r : List Pipe) (h : AllButLastClosed (p :: q :: r)) : p.closed = true := h.1

theorem pipeBytes_append (a b : List Pipe) : pipeBytes (a ++ b) = pipeBytes a ++ pipeBytes b := by
  induction a with
  | nil => rfl
  | cons p r ih => simp [pipeBytes, ih]

theorem pipeBytes_closeLast (l : List Pipe) : pipeBytes (closeLast l) = pipeBytes l := by
  induction l with
  | nil => rfl
  | cons p r ih => cases r with
    | nil => rfl
    | cons q r => simp [closeLast, pipeBytes, ih]

theorem pipeBytes_writeLast (b : Bytes) (l : List Pipe) :
    pipeBytes (writeLast b l) = pipeBytes l ++ (if lastOpen l then b else []) := by
  induction l with
  | nil => rfl
  | cons p r ih => cases r with
    | nil =>
      obtain ⟨d, c, f⟩ := p
      cases c <;> simp [writeLast, lastOpen, pipeBytes]
    | cons q r =>
      have : pipeBytes (writeLast b (p :: q :: r)) = p.data ++ pipeBytes (writeLast b (q :: r)) := rfl
      rw [this, ih]
      have e1 : lastOpen (p :: q :: r) = lastOpen (q :: r) := rfl
      rw [e1]; simp [pipeBytes]

theorem evBytes_append (a b : List Ev) : evBytes (a ++ b) = evBytes a ++ evBytes b := by
  induction a with
  | nil => rfl
  | cons e r ih => cases e <;> simp [evBytes, ih]

theorem lastOpen_tail (p : Pipe) (r : List Pipe) (he : r ≠ []) : lastOpen (p :: r) = lastOpen r := by
  cases r with
  | nil => exact absurd rfl he
  | cons q r => rfl

theorem lastOpen_head_data (p : Pipe) (d : Bytes) (r : List Pipe) :
    lastOpen ({ p with data := d } :: r) = lastOpen (p :: r) := by
  cases r <;> rfl

/-! ### the invariant -/

structure Inv (s : St) : Prop where
  cap_pos : 1 ≤ s.cap
  abl : AllButLastClosed s.pipes
  done_closed : s.mDone = true → s.script = [] ∧ AllClosed s.pipes
  held_nonempty : s.held = true → s.pipes ≠ []
  queued_le : s.queued ≤ s.cap
  tdone : s.tDone = true → s.mDone = true ∧ s.pipes = [] ∧ s.held = false

theorem inv_init (cap : Nat) (script : List Act) (h : 1 ≤ cap) : Inv (St.init cap script) :=
  ⟨h, trivial, by simp [St.init], by simp [St.init], by simp [St.init, St.queued], by simp [St.init]⟩

theorem allClosed_tail (p : Pipe) (r : List Pipe) (h : AllClosed (p :: r)) : AllClosed r := h.2

theorem allClosed_setData (p : Pipe) (d : Bytes) (r : List Pipe) (h : AllClosed (p :: r)) :
    AllClosed ({ p with data := d } :: r) := ⟨h.1, h.2⟩

theorem abl_setData (p : Pipe) (d : Bytes) (r : List Pipe) (h : AllButLastClosed (p :: r)) :
    AllButLastClosed ({ p with data := d } :: r) := by
  cases r with
  | nil => trivial
  | cons q r => exact ⟨h.1, h.2⟩

theorem inv_step (s t : St) (hi : Inv s) (hs : Step s t) : Inv t := by
  obtain ⟨hcap, habl, hdone, hheld, hq, htd⟩ := hi
  cases hs with
  | mNext rest h hroom =>
    have hm : s.mDone = false := by
      cases hmd : s.mDone with
      | false => rfl
      | true => have := (hdone hmd).1; rw [h] at this; cases this
    refine ⟨hcap, allClosed_append_one _ _ (closeLast_allClosed _ habl), ?_, ?_, ?_, ?_⟩
    · intro h1; simp only at h1; rw [hm] at h1; cases h1
    · intro _; simp
    · simp only [St.queued, List.length_append, closeLast_length, List.length_singleton] at hroom ⊢
      split <;> rename_i hh <;> simp [hh] at hroom ⊢ <;> omega
    · intro h1; have := htd h1; rw [hm] at this; cases this.1
  | mYield rest h hroom =>
    have hm : s.mDone = false := by
      cases hmd : s.mDone with
      | false => rfl
      | true => have := (hdone hmd).1; rw [h] at this; cases this
    refine ⟨hcap, allClosed_append_one _ _ (closeLast_allClosed _ habl), ?_, ?_, ?_, ?_⟩
    · intro h1; simp only at h1; rw [hm] at h1; cases h1
    · intro _; simp
    · simp only [St.queued, List.length_append, closeLast_length, List.length_singleton] at hroom ⊢
      split <;> rename_i hh <;> simp [hh] at hroom ⊢ <;> omega
    · intro h1; have := htd h1; rw [hm] at this; cases this.1
  | mWrite b rest h =>
    have hm : s.mDone = false := by
      cases hmd : s.mDone with
      | false => rfl
      | true => have := (hdone hmd).1; rw [h] at this; cases this
    refine ⟨hcap, writeLast_abl _ _ habl, ?_, ?_, ?_, ?_⟩
    · intro h1; simp only at h1; rw [hm] at h1; cases h1
    · intro h1; have := hheld h1
      intro h2; apply this
      have hl := writeLast_length b s.pipes
      simp only at h2
      rw [h2] at hl; simp at hl; exact List.eq_nil_of_length_eq_zero hl.symm
    · simpa [St.queued, writeLast_length] using hq
    · intro h1; have := htd h1; rw [hm] at this; cases this.1
  | mClose h hd =>
    refine ⟨hcap, allClosed_abl _ (closeLast_allClosed _ habl), ?_, ?_, ?_, ?_⟩
    · intro _; exact ⟨h, closeLast_allClosed _ habl⟩
    · intro h1; have := hheld h1
      intro h2; apply this
      have hl := closeLast_length s.pipes
      simp only at h2
      rw [h2] at hl; simp at hl; exact List.eq_nil_of_length_eq_zero hl.symm
    · simpa [St.queued, closeLast_length] using hq
    · intro h1; have := htd h1; rw [hd] at this; cases this.1
  | tRecv p r hh hp =>
    refine ⟨hcap, habl, hdone, ?_, ?_, ?_⟩
    · intro _; rw [hp]; simp
    · simp only [St.queued] at hq ⊢; simp [hh] at hq; simp; omega
    · intro h1; have := htd h1; rw [hp] at this; cases this.2.1
  | tRead p r k hh hp hk hk' =>
    rw [hp] at habl hdone
    refine ⟨hcap, abl_setData p _ r habl, ?_, ?_, ?_, ?_⟩
    · intro h1; have := hdone h1; exact ⟨this.1, allClosed_setData p _ r this.2⟩
    · intro _; simp
    · simp only [St.queued, hp] at hq ⊢; simpa using hq
    · intro h1; have := htd h1; rw [hp] at this; cases this.2.1
  | tDrop p r hh hp he hc =>
    rw [hp] at habl hdone
    refine ⟨hcap, abl_tail p r habl, ?_, ?_, ?_, ?_⟩
    · intro h1; have := hdone h1; exact ⟨this.1, this.2.2⟩
    · intro h1; cases h1
    · simp only [St.queued, hp, hh] at hq ⊢; simp at hq ⊢; omega
    · intro h1; have := htd h1; rw [hp] at this; cases this.2.1
  | tEof hh hp hm ht =>
    refine ⟨hcap, habl, hdone, hheld, hq, ?_⟩
    intro _; exact ⟨hm, hp, hh⟩

theorem inv_reach (cap : Nat) (script : List Act) (hc : 1 ≤ cap) (s : St) (h : Reach cap script s) : Inv s := by
  induction h with
  | init => exact inv_init cap script hc
  | step s t _ hst ih => exact inv_step s t ih hst

/-! ### deadlock freedom -/

/-- the module goroutine can make a step whenever it has not finished and the channel has room -/
theorem module_can_step (s : St) (hm : s.mDone = false) (hroom : s.queued < s.cap) : ∃ t, Step s t := by
  cases hsc : s.script with
  | nil => exact ⟨_, Step.mClose s hsc hm⟩
  | cons a rest =>
    cases a with
    | next => exact ⟨_, Step.mNext s rest hsc hroom⟩
    | yield => exact ⟨_, Step.mYield s rest hsc hroom⟩
    | write b => exact ⟨_, Step.mWrite s b rest hsc⟩

theorem progress (s : St) (hi : Inv s) (hf : ¬ s.final) : ∃ t, Step s t := by
  obtain ⟨hcap, habl, hdone, hheld, hq, htd⟩ := hi
  cases htdv : s.tDone with
  | true => exact absurd ⟨(htd htdv).1, htdv⟩ hf
  | false =>
    cases hh : s.held with
    | false =>
      cases hp : s.pipes with
      | cons p r => exact ⟨_, Step.tRecv s p r hh hp⟩
      | nil =>
        cases hm : s.mDone with
        | true => exact ⟨_, Step.tEof s hh hp hm htdv⟩
        | false =>
          apply module_can_step s hm
          simp [St.queued, hp]; omega
    | true =>
      cases hp : s.pipes with
      | nil => exact absurd hp (hheld hh)
      | cons p r =>
        cases hd : p.data with
        | cons x xs => exact ⟨_, Step.tRead s p r 1 hh hp (Nat.le_refl 1) (by simp [hd])⟩
        | nil =>
          cases hc : p.closed with
          | true => exact ⟨_, Step.tDrop s p r hh hp hd hc⟩
          | false =>
            -- the pipe held is open and empty: it is the newest pipe, the channel is empty, the writer is alive
            have hr : r = [] := by
              cases r with
              | nil => rfl
              | cons q r' => rw [hp] at habl; have := habl.1; rw [hc] at this; cases this
            have hm : s.mDone = false := by
              cases hmd : s.mDone with
              | false => rfl
              | true => have := (hdone hmd).2; rw [hp] at this; have := this.1; rw [hc] at this; cases this
            apply module_can_step s hm
            simp [St.queued, hp, hr, hh]; omega

/-! ### what is read is what was written, whatever the schedule -/

def StreamInv (script₀ : List Act) (s : St) : Prop :=
  evBytes s.out ++ pipeBytes s.pipes ++ scriptBytes (lastOpen s.pipes) s.script = scriptBytes false script₀

theorem stream_init (cap : Nat) (script : List Act) : StreamInv script (St.init cap script) := by
  simp [StreamInv, St.init, evBytes, pipeBytes, lastOpen]

theorem stream_step (script₀ : List Act) (s t : St) (hi : Inv s) (h : StreamInv script₀ s) (hs : Step s t) :
    StreamInv script₀ t := by
  unfold StreamInv at h ⊢
  cases hs with
  | mNext rest hsc hroom =>
    rw [hsc] at h
    simp only [lastOpen_append_one, pipeBytes_append, pipeBytes_closeLast, pipeBytes]
    simpa [scriptBytes] using h
  | mYield rest hsc hroom =>
    rw [hsc] at h
    simp only [lastOpen_append_one, pipeBytes_append, pipeBytes_closeLast, pipeBytes]
    simpa [scriptBytes] using h
  | mWrite b rest hsc =>
    rw [hsc] at h
    simp only [writeLast_lastOpen, pipeBytes_writeLast]
    simpa [scriptBytes, List.append_assoc] using h
  | mClose hsc hd =>
    rw [hsc] at h
    simp only [pipeBytes_closeLast, hsc, scriptBytes]
    simpa [scriptBytes] using h
  | tRecv p r hh hp =>
    simp only [evBytes_append, evBytes]
    simpa using h
  | tRead p r k hh hp hk hk' =>
    rw [hp] at h
    simp only [evBytes_append, evBytes, pipeBytes, lastOpen_head_data]
    have : p.data.take k ++ p.data.drop k = p.data := List.take_append_drop k p.data
    simp only [pipeBytes] at h
    rw [← h]; simp only [List.append_assoc, List.append_nil]
    rw [← List.append_assoc (List.take k p.data), this]
  | tDrop p r hh hp he hc =>
    rw [hp] at h
    simp only [pipeBytes, he, List.nil_append] at h
    cases r with
    | nil => simpa [lastOpen, hc, pipeBytes] using h
    | cons q r' => simpa [lastOpen] using h
  | tEof hh hp hm ht => exact h

theorem stream_reach (cap : Nat) (script : List Act) (hc : 1 ≤ cap) (s : St) (h : Reach cap script s) :
    StreamInv script s := by
  induction h with
  | init => exact stream_init cap script
  | step s t hr hst ih => exact stream_step script s t (inv_reach cap script hc s hr) ih hst

/-! ### every schedule terminates -/

def actCost : Act → Nat
  | .next => 4
  | .yield => 4
  | .write b => b.length + 1

def scriptCost : List Act → Nat
  | [] => 0
  | a :: r => actCost a + scriptCost r

/-- strictly decreasing along every step -/
def measure (s : St) : Nat :=
  scriptCost s.script + 3 * s.pipes.length + (pipeBytes s.pipes).length
    + (if s.mDone then 0 else 1) + (if s.tDone then 0 else 1) + (if s.held then 0 else 1)

theorem pipeBytes_writeLast_le (b : Bytes) (l : List Pipe) :
    (pipeBytes (writeLast b l)).length ≤ (pipeBytes l).length + b.length := by
  rw [pipeBytes_writeLast]; split <;> simp

theorem measure_decreases (s t : St) (hs : Step s t) : measure t < measure s := by
  cases hs with
  | mNext rest hsc hroom =>
    simp only [measure, hsc, scriptCost, actCost, List.length_append, closeLast_length, List.length_singleton,
      pipeBytes_append, pipeBytes_closeLast, pipeBytes]
    simp; omega
  | mYield rest hsc hroom =>
    simp only [measure, hsc, scriptCost, actCost, List.length_append, closeLast_length, List.length_singleton,
      pipeBytes_append, pipeBytes_closeLast, pipeBytes]
    simp; omega
  | mWrite b rest hsc =>
    have := pipeBytes_writeLast_le b s.pipes
    simp only [measure, hsc, scriptCost, actCost, writeLast_length]
    omega
  | mClose hsc hd =>
    simp only [measure, hd, closeLast_length, pipeBytes_closeLast]
    simp
  | tRecv p r hh hp =>
    simp only [measure, hh]; simp
  | tRead p r k hh hp hk hk' =>
    simp only [measure, hp, pipeBytes, List.length_cons, List.length_append, List.length_drop]
    omega
  | tDrop p r hh hp he hc =>
    simp only [measure, hp, hh, pipeBytes, he, List.length_cons, List.nil_append]
    simp; omega
  | tEof hh hp hm ht =>
    simp only [measure, ht]; simp


/-! ### the executable scheduler only takes steps of the relation -/

theorem stepM_sound (s t : St) (h : stepM s = some t) : Step s t := by
  unfold stepM at h
  split at h
  · rename_i hsc
    split at h
    · cases h
    · rename_i hm
      simp at h; subst h
      exact Step.mClose s hsc (by simpa using hm)
  · rename_i rest hsc
    split at h
    · rename_i hroom; simp at h; subst h; exact Step.mNext s rest hsc hroom
    · cases h
  · rename_i rest hsc
    split at h
    · rename_i hroom; simp at h; subst h; exact Step.mYield s rest hsc hroom
    · cases h
  · rename_i b rest hsc
    simp at h; subst h; exact Step.mWrite s b rest hsc

theorem stepT_sound (s t : St) (k : Nat) (h : stepT s k = some t) : Step s t := by
  unfold stepT at h
  split at h
  · cases h
  · rename_i p r hh hp
    split at h
    · rename_i hne
      simp at h; subst h
      exact Step.tRead s p r _ hh hp (Nat.le_max_left _ _) (by omega)
    · rename_i he
      split at h
      · rename_i hc
        simp at h; subst h
        exact Step.tDrop s p r hh hp (List.eq_nil_of_length_eq_zero (by omega)) hc
      · cases h
  · rename_i p r hh hp
    simp at h; subst h
    exact Step.tRecv s p r hh hp
  · rename_i hh hp
    split at h
    · rename_i hc
      simp at h; subst h
      exact Step.tEof s hh hp hc.1 hc.2
    · cases h

theorem sched1_sound (s t : St) (seed : Nat) (h : sched1 s seed = some t) : Step s t := by
  unfold sched1 at h
  simp only at h
  split at h
  · split at h
    · rename_i t' ht; simp at h; subst h; exact stepM_sound s _ ht
    · exact stepT_sound s t _ h
  · split at h
    · rename_i t' ht; simp at h; subst h; exact stepT_sound s _ _ ht
    · exact stepM_sound s t h

/-- whatever the pseudo-random scheduler reaches is reachable in the model -/
theorem runSched_reach (cap : Nat) (script : List Act) (f seed : Nat) (s : St) (m : Nat)
    (h : Reach cap script s) : Reach cap script (runSched f seed s m).1 := by
  induction f generalizing seed s m with
  | zero => exact h
  | succ f ih =>
    simp only [runSched]
    cases hs : sched1 s (nextSeed seed) with
    | none => exact h
    | some t => exact ih _ _ _ (Reach.step s t h (sched1_sound s t _ hs))

/-- n steps of some schedule -/
inductive Run : Nat → St → St → Prop where
  | zero (s : St) : Run 0 s s
  | succ (n : Nat) (s t u : St) : Run n s t → Step t u → Run (n + 1) s u

end Fdo.Svc.Pipeline
