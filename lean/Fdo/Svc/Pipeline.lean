import Fdo.Bytes
/-
The device-side service-info pipeline of one TO2 round as a two-party process model
(`exchangeServiceInfo` in to2.go with `serviceinfo.NewChunkOutPipe(cap)`):

* the **module goroutine** (`handleOwnerModuleMessages` → device modules → `UnchunkWriter`) performs a
  script of writer calls: `next` (NextServiceInfo: close the previous pipe, create a pipe, send its
  reader on the `readers` channel — the only call that can wait, when `cap` pipes are queued),
  `yield` (ForceNewMessage: the same with a pipe that is closed at once), `write b` (never waits:
  buffered pipes), and finally `Close` (close the last pipe and the channel);
* the **transport loop** (`exchangeServiceInfoRound` → `ChunkReader.ReadChunk`) receives the next pipe
  from the channel (waits while it is empty and not closed), reads whatever bytes are available from
  the pipe it holds (waits while that pipe is empty and still open), drops a pipe that is empty and
  closed, and finishes when the channel is closed and drained.

Any interleaving of enabled steps of the two parties is a schedule. Network exchanges of the
transport loop are not blocking points of the pipeline (the peer always answers or the round fails) and
are left out; so are the bytes' meaning (C15 proves the chunking arithmetic on the same stream).
Core Lean only.
-/
namespace Fdo.Svc.Pipeline
open Fdo

/-- one call of a device module on the `UnchunkWriter` -/
inductive Act where
  | next                -- NextServiceInfo (the key bytes are part of the following `write`)
  | yield               -- ForceNewMessage
  | write (b : Bytes)
  deriving Repr, DecidableEq

structure Pipe where
  data : Bytes          -- written, not yet read
  closed : Bool
  forced : Bool         -- created by ForceNewMessage
  deriving Repr, DecidableEq

/-- what the transport loop has seen, in order -/
inductive Ev where
  | pipe (forced : Bool)   -- a new pipe was received from the channel
  | data (b : Bytes)       -- bytes read from the pipe held
  deriving Repr, DecidableEq

structure St where
  cap : Nat               -- capacity of the `readers` channel (1000 in to2.go)
  script : List Act       -- calls the module goroutine still has to make
  mDone : Bool            -- it has called Close
  pipes : List Pipe       -- pipes created and not yet dropped by the reader, oldest first
  held : Bool             -- the reader holds the oldest pipe (it has been received from the channel)
  out : List Ev           -- what the reader has seen
  tDone : Bool            -- the reader has seen EOF
  deriving Repr

def St.init (cap : Nat) (script : List Act) : St :=
  { cap := cap, script := script, mDone := false, pipes := [], held := false, out := [], tDone := false }

/-- pipes sitting in the channel -/
def St.queued (s : St) : Nat := s.pipes.length - (if s.held then 1 else 0)

/-- close the most recently created pipe -/
def closeLast : List Pipe → List Pipe
  | [] => []
  | [p] => [{ p with closed := true }]
  | p :: q :: r => p :: closeLast (q :: r)

/-- append to the most recently created pipe (a closed pipe refuses the write: `io.ErrClosedPipe`) -/
def writeLast (b : Bytes) : List Pipe → List Pipe
  | [] => []
  | [p] => [if p.closed then p else { p with data := p.data ++ b }]
  | p :: q :: r => p :: writeLast b (q :: r)

/-- One step of either party. -/
inductive Step : St → St → Prop where
  /-- NextServiceInfo / ForceNewMessage: possible only while the channel has room -/
  | mNext (s : St) (rest : List Act) (h : s.script = .next :: rest) (hroom : s.queued < s.cap) :
      Step s { s with script := rest, pipes := closeLast s.pipes ++ [{ data := [], closed := false, forced := false }] }
  | mYield (s : St) (rest : List Act) (h : s.script = .yield :: rest) (hroom : s.queued < s.cap) :
      Step s { s with script := rest, pipes := closeLast s.pipes ++ [{ data := [], closed := true, forced := true }] }
  | mWrite (s : St) (b : Bytes) (rest : List Act) (h : s.script = .write b :: rest) :
      Step s { s with script := rest, pipes := writeLast b s.pipes }
  | mClose (s : St) (h : s.script = []) (hd : s.mDone = false) :
      Step s { s with mDone := true, pipes := closeLast s.pipes }
  /-- receive the next pipe from the channel -/
  | tRecv (s : St) (p : Pipe) (r : List Pipe) (hh : s.held = false) (hp : s.pipes = p :: r) :
      Step s { s with held := true, out := s.out ++ [.pipe p.forced] }
  /-- read `k ≥ 1` of the bytes available in the pipe held (how many depends on the caller's size budget) -/
  | tRead (s : St) (p : Pipe) (r : List Pipe) (k : Nat) (hh : s.held = true) (hp : s.pipes = p :: r)
      (hk : 1 ≤ k) (hk' : k ≤ p.data.length) :
      Step s { s with pipes := { p with data := p.data.drop k } :: r, out := s.out ++ [.data (p.data.take k)] }
  /-- the pipe held is empty and closed: done with it -/
  | tDrop (s : St) (p : Pipe) (r : List Pipe) (hh : s.held = true) (hp : s.pipes = p :: r)
      (he : p.data = []) (hc : p.closed = true) :
      Step s { s with pipes := r, held := false }
  /-- channel closed and drained: EOF -/
  | tEof (s : St) (hh : s.held = false) (hp : s.pipes = []) (hm : s.mDone = true) (ht : s.tDone = false) :
      Step s { s with tDone := true }

/-- both parties have finished -/
def St.final (s : St) : Prop := s.mDone = true ∧ s.tDone = true

/-- states reachable by some schedule -/
inductive Reach (cap : Nat) (script : List Act) : St → Prop where
  | init : Reach cap script (St.init cap script)
  | step (s t : St) : Reach cap script s → Step s t → Reach cap script t

/-- the bytes a script writes, in order — ignoring writes refused because they follow a `yield` without a
`next` (the pipe is closed), and writes before any pipe exists -/
def scriptBytes : (lastOpen : Bool) → List Act → Bytes
  | _, [] => []
  | _, .next :: r => scriptBytes true r
  | _, .yield :: r => scriptBytes false r
  | o, .write b :: r => (if o then b else []) ++ scriptBytes o r

def evBytes : List Ev → Bytes
  | [] => []
  | .pipe _ :: r => evBytes r
  | .data b :: r => b ++ evBytes r

def pipeBytes : List Pipe → Bytes
  | [] => []
  | p :: r => p.data ++ pipeBytes r

/-- is the most recently created pipe open? -/
def lastOpen : List Pipe → Bool
  | [] => false
  | [p] => !p.closed
  | _ :: q :: r => lastOpen (q :: r)

/-! ### executable scheduler (for the correspondence run) -/

/-- the module goroutine's next step, if it is enabled -/
def stepM (s : St) : Option St :=
  match s.script with
  | [] => if s.mDone then none else some { s with mDone := true, pipes := closeLast s.pipes }
  | .next :: rest =>
    if s.queued < s.cap then
      some { s with script := rest, pipes := closeLast s.pipes ++ [{ data := [], closed := false, forced := false }] }
    else none
  | .yield :: rest =>
    if s.queued < s.cap then
      some { s with script := rest, pipes := closeLast s.pipes ++ [{ data := [], closed := true, forced := true }] }
    else none
  | .write b :: rest => some { s with script := rest, pipes := writeLast b s.pipes }

/-- the transport loop's next step, if it is enabled; `k` = how many bytes it would like to read -/
def stepT (s : St) (k : Nat) : Option St :=
  match s.held, s.pipes with
  | true, [] => none
  | true, p :: r =>
    if p.data.length ≠ 0 then
      let k' := max 1 (min k p.data.length)
      some { s with pipes := { p with data := p.data.drop k' } :: r, out := s.out ++ [.data (p.data.take k')] }
    else if p.closed then some { s with pipes := r, held := false }
    else none
  | false, p :: _ => some { s with held := true, out := s.out ++ [.pipe p.forced] }
  | false, [] => if s.mDone ∧ s.tDone = false then some { s with tDone := true } else none

def nextSeed (seed : Nat) : Nat := (seed * 75 + 74) % 65537

/-- one scheduling decision: which party is tried first, and how many bytes the reader asks for -/
def sched1 (s : St) (seed : Nat) : Option St :=
  let preferM := (seed / 64) % 2 = 0
  let k := (seed / 8) % 7 + 1
  if preferM then
    match stepM s with
    | some t => some t
    | none => stepT s k
  else
    match stepT s k with
    | some t => some t
    | none => stepM s

/-- run under a pseudo-random schedule until nothing is enabled; returns the last state and the largest
number of queued pipes seen -/
def runSched : (fuel : Nat) → (seed : Nat) → St → (maxq : Nat) → St × Nat
  | 0, _, s, m => (s, m)
  | f+1, seed, s, m =>
    match sched1 s (nextSeed seed) with
    | some t => runSched f (nextSeed seed) t (max m s.queued)
    | none => (s, max m s.queued)

end Fdo.Svc.Pipeline
