import Fdo.Svc.Chunk
/-
TO2 service-info rounds (to2.go exchangeServiceInfo / exchangeServiceInfoRound / ownerServiceInfo /
produceOwnerServiceInfo, to2_module.go handleOwnerModuleMessages, devmod.go devmodOwnerModule,
serviceinfo/devmod.go Devmod.Write) as two deterministic transducers that exchange
TO2.DeviceServiceInfo (68) / TO2.OwnerServiceInfo (69) messages, built on the chunking model
`Fdo.Svc.Chunk` (always its repaired variant: that is the library's behaviour now).

  device : `devmodOps` (Devmod.Write: descriptor messages, nummodules, the greedy module-list
           chunker) → `Chunk.compile` → `Chunk.allBatches` = the 68 messages of the first round;
           then per round `handleAll` (handleOwnerModuleMessages: `active` handling, unknown-module
           reply, inactive-module error, drain check, yield to the previous module) whose output is
           chunked the same way.
  owner  : `ownStep` = (*TO2Server).ownerServiceInfo for one 68: the devmod module until it is complete
           (`dmHandle`, `dmProduce`), then the scripted owner modules one after another through the
           module state machine; produceOwnerServiceInfo with the MTU check, IsMoreServiceInfo/IsDone.
  system : `Sys`, `step` (one 68/69 exchange), `runN`.

Modules are scripts.  An owner module is a list of `OwnStep`s: the k-th ProduceInfo call writes the
chunks of step k and returns blockPeer = step.block; the call that uses the last step returns
moduleDone (an empty script is done at its first call).  A device module is a list of reactions for its
Receive calls and one for its Yield calls: what it sends (respond + write, yield = ForceNewMessage) and
whether it misbehaves (`bad`: returns an error or leaves the body unread).

Not modelled (see DESIGN §3): goroutines and the blocking of pipes/channels.  The device's producer
(handleOwnerModuleMessages) and consumer (exchangeServiceInfoRound) run concurrently, connected by
blocking pipes; the model is the stream function they compute (Kahn).  That the code computes it under
every schedule tried is evidenced by the harness.

The code exists in two states, selected by `Fixes`:
  * devmodWhole  (fix: serviceinfo: devmod messages are never split …): Devmod.Write measures every
    devmod message with the real KV size against the space exchangeServiceInfoRound really has
    (negotiated size − 5), starts a new message when the next devmod message does not fit what is left,
    and sizes the module-list chunks the same way.  Without it the chunker compares
    `len(cbor([[key, chunk]]))` with the negotiated size, which is 7 bytes too generous, and any devmod
    value may be cut at a 68 boundary — the owner handles every 68 on its own and fails on the fragment.
  * devmodBounds (fix: devmod: bound nummodules, check the modules range): the owner rejects a
    negative or > 65535 `nummodules` and a `modules` chunk that does not fit the announced list, where
    the tree as found panics in `make` / in the slice expression.
  * firstKey (fix: serviceinfo: a first chunk with an empty key …): `ChunkWriter.WriteChunk` compares the
    key of a chunk with `prevKey`, which starts as "", before any pipe exists; a first KV with an empty
    key made it write to a nil pipe (nil dereference, on the owner for a 68 and on the device for a 69).
  * yieldErr (fix: serviceinfo: CloseWithError after ForceNewMessage …): when a device module callback
    fails right after a `yield()`, `UnchunkWriter.CloseWithError` found the current pipe closed already
    (ForceNewMessage closes the pipe it sends) and the error was lost: the round ended normally, the rest
    of the owner's messages of that round was dropped and TO2 went on.
-/
namespace Fdo.Svc.Rounds
open Fdo Fdo.Cbor Fdo.Svc.Chunk

/-- Result of a modelled Go function: value, returned error, or panic at a named site. -/
inductive Out (α : Type) where
  | ok (a : α)
  | reject
  | panic (site : String)
  deriving Repr, DecidableEq

structure Fixes where
  devmodWhole : Bool
  devmodBounds : Bool
  firstKey : Bool
  yieldErr : Bool
  deriving DecidableEq, Repr

def Fixes.repaired : Fixes := ⟨true, true, true, true⟩
def Fixes.original : Fixes := ⟨false, false, false, false⟩

/-- `ChunkWriter.WriteChunk` over the KVs of one message followed by `Close`, read back through
`UnchunkReader.NextServiceInfo`.  Repaired: an empty first key opens a pipe like any other key. -/
def reassembleF (F : Fixes) (cs : List KV) : Reassembled :=
  match cs with
  | [] => .ok []
  | c :: r =>
    if c.key = [] then
      (if F.firstKey then .ok ((c.key, c.val ++ (reasm [] r).1) :: (reasm [] r).2) else .panic)
    else .ok (reasm [] cs).2

/-! ### names and keys -/

/-- "devmod" -/
def nDevmod : Bytes := [100, 101, 118, 109, 111, 100]
/-- "active" -/
def nActive : Bytes := [97, 99, 116, 105, 118, 101]
/-- "nummodules" -/
def nNum : Bytes := [110, 117, 109, 109, 111, 100, 117, 108, 101, 115]
/-- "modules" -/
def nModules : Bytes := [109, 111, 100, 117, 108, 101, 115]

def colon : UInt8 := 58

/-- `moduleName + ":" + messageName` -/
def mkKey (m n : Bytes) : Bytes := m ++ colon :: n

/-- `strings.Cut(key, ":")` -/
def cutKey : Bytes → Bytes × Bytes
  | [] => ([], [])
  | b :: r => if b = colon then ([], r) else ((b :: (cutKey r).1), (cutKey r).2)

def cbTrue : Bytes := [0xf5]
def cbFalse : Bytes := [0xf4]

/-! ### device: Devmod.Write -/

structure Field where
  name : Bytes
  val : Bytes
  /-- a `[]byte` field (sn): written as a byte string -/
  bin : Bool
  deriving DecidableEq, Repr

/-- The 13 fields of `serviceinfo.Devmod` in declaration order: message name, `[]byte`?, required? -/
def fieldTable : List (Bytes × Bool × Bool) := [
  ([111, 115], false, true),                                   -- os
  ([97, 114, 99, 104], false, true),                           -- arch
  ([118, 101, 114, 115, 105, 111, 110], false, true),          -- version
  ([100, 101, 118, 105, 99, 101], false, true),                -- device
  ([115, 110], true, false),                                   -- sn
  ([112, 97, 116, 104, 115, 101, 112], false, false),          -- pathsep
  ([115, 101, 112], false, true),                              -- sep
  ([110, 108], false, false),                                  -- nl
  ([116, 109, 112], false, false),                             -- tmp
  ([100, 105, 114], false, false),                             -- dir
  ([112, 114, 111, 103, 101, 110, 118], false, false),         -- progenv
  ([98, 105, 110], false, true),                               -- bin
  ([109, 117, 100, 117, 114, 108], false, false)]              -- mudurl

def requiredNames : List Bytes := (fieldTable.filter (·.2.2)).map (·.1)

def Field.enc (f : Field) : Bytes := encode (if f.bin then .bstr f.val else .tstr f.val)

/-- `Devmod.Validate` on the device: every required field is non-empty. -/
def validate (fs : List Field) : Bool :=
  requiredNames.all fun r => fs.any fun f => f.name = r && f.val ≠ []

/-- What the device announces: its descriptor fields (declaration order) and its module list in the
order it is sent (map iteration order in the code, then "devmod"). -/
structure DevCfg where
  fields : List Field
  names : List Bytes
  deriving DecidableEq, Repr

/-- `devmod:active = true`, then every non-empty field. -/
def descrMsgs (fs : List Field) : List (Bytes × Bytes) :=
  (mkKey nDevmod nActive, cbTrue) :: (fs.filter (·.val ≠ [])).map fun f => (mkKey nDevmod f.name, f.enc)

def modulesKey : Bytes := mkKey nDevmod nModules
def numKey : Bytes := mkKey nDevmod nNum

/-- `DevmodModulesChunk.MarshalCBOR`: `[start, len, name…]`. -/
def chunkItem (start : Nat) (names : List Bytes) : Item :=
  .arr (Items.ofList (.uint start :: .uint names.length :: names.map Item.tstr))

def chunkEnc (start : Nat) (names : List Bytes) : Bytes := encode (chunkItem start names)

def chunkKV (c : Nat × List Bytes) : KV := ⟨modulesKey, chunkEnc c.1 c.2⟩

/-- The size test of the module-list chunker.  Repaired: the KV as it will be sent against the space
of an empty message.  Original: `len(cbor([[key, chunk]]))` (array-of-one head, array-of-two head, key,
the chunk *not* wrapped in a byte string) against the negotiated size. -/
def chunkFits (F : Fixes) (lim : Nat) (start : Nat) (names : List Bytes) : Bool :=
  if F.devmodWhole then decide (kvSize (chunkKV (start, names)) ≤ lim)
  else decide (2 + rawKeyLen modulesKey + (chunkEnc start names).length ≤ lim)

/-- `writeModuleMessages`, the greedy loop: `cur` is the chunk being filled (it starts at index
`start`); a name that no longer fits closes the chunk and must fit an empty one. `none` is
"MTU too small to send devmod module name alone". -/
def moduleChunks (fits : Nat → List Bytes → Bool) : Nat → List Bytes → List Bytes → Option (List (Nat × List Bytes))
  | start, cur, [] => some [(start, cur)]
  | start, cur, n :: rest =>
    if fits start (cur ++ [n]) then moduleChunks fits start (cur ++ [n]) rest
    else if cur = [] then none
    else if fits (start + cur.length) [n] then
      (moduleChunks fits (start + cur.length) [n] rest).map ((start, cur) :: ·)
    else none

/-- One devmod message.  Repaired: refuse what cannot be sent whole at all, start a new 68 when it
does not fit what is left of the current one.  `left` is the space left in the message being filled. -/
def emit (F : Fixes) (B left : Nat) (k v : Bytes) : Option (Nat × List Op) :=
  if F.devmodWhole then
    if kvSize ⟨k, v⟩ > B then none
    else if kvSize ⟨k, v⟩ > left then some (B - kvSize ⟨k, v⟩, [.yield, .next k, .write v])
    else some (left - kvSize ⟨k, v⟩, [.next k, .write v])
  else some (left, [.next k, .write v])

def emitAll (F : Fixes) (B : Nat) : Nat → List (Bytes × Bytes) → Option (Nat × List Op)
  | left, [] => some (left, [])
  | left, (k, v) :: r =>
    match emit F B left k v with
    | none => none
    | some (l1, o1) =>
      match emitAll F B l1 r with
      | none => none
      | some (l2, o2) => some (l2, o1 ++ o2)

/-- The size `Devmod.Write` works with: the repaired TO2 hands it the space of an empty message
(negotiated size − 5, what exchangeServiceInfo uses), the original the negotiated size. -/
def writeLimit (F : Fixes) (sendMtu : Nat) : Nat := if F.devmodWhole then sendMtu - 5 else sendMtu

/-- The messages before the forced break, and the module-list messages after it. -/
def devmodHead (cfg : DevCfg) : List (Bytes × Bytes) :=
  descrMsgs cfg.fields ++ [(numKey, encode (.uint cfg.names.length))]

/-- `Devmod.Write` (no custom devmod module): the calls on the UnchunkWriter, `none` when it closes
the pipe with an error. -/
def devmodOps (F : Fixes) (sendMtu : Nat) (cfg : DevCfg) : Option (List Op) :=
  let B := writeLimit F sendMtu
  if !validate cfg.fields then none else
  match emitAll F B B (devmodHead cfg) with
  | none => none
  | some (_, o1) =>
    match moduleChunks (chunkFits F B) 0 [] cfg.names with
    | none => none
    | some cs =>
      match emitAll F B B (cs.map fun c => (modulesKey, chunkEnc c.1 c.2)) with
      | none => none
      | some (_, o2) => some (o1 ++ (.yield :: o2))

/-! ### owner: devmodOwnerModule -/

structure DmState where
  /-- descriptor fields received so far, latest value first -/
  fields : List (Bytes × Bytes)
  /-- `Modules`: `none` = nil, an empty name = a slot not yet filled -/
  mods : Option (List Bytes)
  complete : Bool
  deriving DecidableEq, Repr

def DmState.init : DmState := ⟨[], none, false⟩

def DmState.get (d : DmState) (name : Bytes) : Bytes := (d.fields.lookup name).getD []

/-- Decoding into a Go `int`. -/
def asInt : Item → Option Int
  | .uint n => if n < 9223372036854775808 then some (Int.ofNat n) else none
  | .nint n => if n < 9223372036854775808 then some (-1 - Int.ofNat n) else none
  | _ => none

def asNames : List Item → Option (List Bytes)
  | [] => some []
  | .tstr t :: r => (asNames r).map (t :: ·)
  | _ :: _ => none

/-- `DevmodModulesChunk.UnmarshalCBOR`. -/
def asChunk : Item → Option (Int × Int × List Bytes)
  | .arr xs =>
    match xs.toList with
    | a :: b :: rest =>
      match asInt a, asInt b, asNames rest with
      | some s, some l, some ns => some (s, l, ns)
      | _, _, _ => none
    | _ => none
  | _ => none

/-- Upper bound on `nummodules` in the repaired code. -/
def maxModules : Nat := 65535

/-- `d.Modules = make([]string, numModules)`. -/
def handleNum (F : Fixes) (n : Int) : Out (List Bytes) :=
  if F.devmodBounds then
    if n < 0 ∨ n > Int.ofNat maxModules then .reject else .ok (List.replicate n.toNat [])
  else if n < 0 then .panic "devmod-nummodules-negative"
  else if n ≥ 8796093022208 then .panic "devmod-nummodules-huge"    -- 2^43 strings exceed maxAlloc: makeslice: len out of range
  else .ok (List.replicate n.toNat [])                                -- (below that the allocation is attempted: up to 128 TiB)

/-- `slices.Index(d.Modules, "")` -/
def firstEmpty : List Bytes → Option Nat
  | [] => none
  | m :: r => if m = [] then some 0 else (firstEmpty r).map (· + 1)

/-- Where a chunk is copied to: the first slot not yet filled if there is one ("implementations that
don't use the first array item"), otherwise the start index it names. -/
def chunkStart (mods : List Bytes) (s : Int) : Nat :=
  match firstEmpty mods with
  | some i => i
  | none => s.toNat

/-- One chunk of `parseModules`. -/
def applyChunk (F : Fixes) (mods : List Bytes) (s l : Int) (ns : List Bytes) : Out (List Bytes) :=
  if s < 0 ∨ s > Int.ofNat mods.length ∨ l < 0 ∨ Int.ofNat ns.length ≠ l then .reject
  else if ns.any (· = []) then .reject
  else if chunkStart mods s + ns.length > mods.length then
    (if F.devmodBounds then .reject else .panic "devmod-modules-range")
  else .ok (mods.take (chunkStart mods s) ++ ns ++ mods.drop (chunkStart mods s + ns.length))

/-- `parseModules`: chunks are decoded from the body until it is used up. -/
def parseModules (F : Fixes) : Nat → List Bytes → Bytes → Out (List Bytes)
  | _, mods, [] => .ok mods
  | 0, _, _ :: _ => .reject
  | f+1, mods, b :: bs =>
    match decode1 (b :: bs) with
    | none => .reject
    | some (x, rest) =>
      match asChunk x with
      | none => .reject
      | some (s, l, ns) =>
        match applyChunk F mods s l ns with
        | .ok m => parseModules F f m rest
        | .reject => .reject
        | .panic site => .panic site

def setField (fs : List (Bytes × Bytes)) (name val : Bytes) : List (Bytes × Bytes) :=
  (name, val) :: fs.filter (·.1 ≠ name)

/-- `devmodOwnerModule.HandleInfo` followed by the drain check of ownerServiceInfo (a body that is
not exactly one item of the expected kind is an error either way). -/
def dmHandle (F : Fixes) (d : DmState) (name body : Bytes) : Out DmState :=
  if name = nActive then
    match unmarshalRaw body with
    | some (.simple v) => if v = 20 ∨ v = 21 then .ok d else .reject
    | _ => .reject
  else if name = nNum then
    match (unmarshalRaw body).bind asInt with
    | none => .reject
    | some n =>
      match handleNum F n with
      | .ok l => .ok { d with mods := some l }
      | .reject => .reject
      | .panic s => .panic s
  else if name = nModules then
    match parseModules F (body.length + 1) (d.mods.getD []) body with
    | .ok l => .ok { d with mods := if d.mods = none ∧ l = [] then none else some l }
    | .reject => .reject
    | .panic s => .panic s
  else
    match fieldTable.lookup name with
    | none => .reject
    | some (isBin, _) =>
      match unmarshalRaw body with
      | some (.tstr t) => if isBin then .reject else .ok { d with fields := setField d.fields name t }
      | some (.bstr t) => if isBin then .ok { d with fields := setField d.fields name t } else .reject
      | _ => .reject

def dmHandleAll (F : Fixes) : DmState → List (Bytes × Bytes) → Out DmState
  | d, [] => .ok d
  | d, (k, b) :: r =>
    match dmHandle F d (cutKey k).2 b with
    | .ok d' => dmHandleAll F d' r
    | .reject => .reject
    | .panic s => .panic s

/-- `devmodOwnerModule.ProduceInfo`: complete? (`reject` = a required field is missing). -/
def dmProduce (d : DmState) : Out Bool :=
  match d.mods with
  | none => .ok false
  | some ms =>
    if ms.any (· = []) then .ok false
    else if requiredNames.all (fun r => d.get r ≠ []) then .ok true
    else .reject

/-- `Session.SetDevmod` followed by `Session.Devmod` at the next message: the module list travels
through the session store, where a nil slice comes back as an empty one (CBOR `80`). -/
def persist (d : DmState) : DmState := { d with mods := some (d.mods.getD []) }

/-! ### owner: scripted modules and ownerServiceInfo -/

structure OwnStep where
  /-- `producer.WriteChunk(messageName, body)` calls -/
  msgs : List (Bytes × Bytes)
  /-- blockPeer -/
  block : Bool
  deriving DecidableEq, Repr

structure OwnMod where
  name : Bytes
  steps : List OwnStep
  deriving DecidableEq, Repr

inductive OEv where
  /-- HandleInfo of scripted module number `idx` -/
  | handle (idx : Nat) (msg body : Bytes)
  /-- ProduceInfo of scripted module number `idx` returned `done` -/
  | produce (idx : Nat) (done : Bool)
  deriving DecidableEq, Repr

inductive Stage where
  | devmod       -- devmod not complete
  | running      -- a scripted module is current
  | finished     -- NextModule returned false: IsDone was sent
  deriving DecidableEq, Repr

structure Own where
  F : Fixes
  /-- the device's receive size (MaxOwnerServiceInfoSize), what `Session.MTU` returns -/
  mtu : Nat
  /-- the module state machine offers only modules the device listed -/
  filter : Bool
  dm : DmState
  stage : Stage
  /-- configured modules (before devmod completes) / the current module with its remaining steps
  followed by the modules still to run -/
  mods : List OwnMod
  /-- number of scripted modules that have completed -/
  idx : Nat
  log : List OEv
  deriving DecidableEq, Repr

structure Reply where
  more : Bool
  done : Bool
  kvs : List KV
  deriving DecidableEq, Repr

def Reply.empty : Reply := ⟨false, false, []⟩

def handleEvents (idx : Nat) (msgs : List (Bytes × Bytes)) : List OEv :=
  msgs.map fun (k, b) => .handle idx (cutKey k).2 b

/-- `(*TO2Server).ownerServiceInfo` for one TO2.DeviceServiceInfo. -/
def ownStep (o : Own) (b : Batch) : Out (Own × Reply) :=
  match reassembleF o.F b.kvs with
  | .panic => .panic "owner-chunk-empty-key"
  | .ok msgs =>
    match o.stage with
    | .finished => .reject                       -- Modules.Module: no current module
    | .devmod =>
      match dmHandleAll o.F o.dm msgs with
      | .reject => .reject
      | .panic s => .panic s
      | .ok dm =>
        if b.more then .ok ({ o with dm := persist dm }, Reply.empty)
        else
          match dmProduce dm with
          | .reject => .reject
          | .panic s => .panic s
          | .ok false => .ok ({ o with dm := persist dm }, Reply.empty)
          | .ok true =>
            -- devmod complete: first NextModule
            let ms := if o.filter then o.mods.filter (fun m => (dm.mods.getD []).contains m.name) else o.mods
            .ok ({ o with dm := { dm with complete := true }, mods := ms,
                          stage := if ms = [] then .finished else .running },
                 ⟨false, ms = [], []⟩)
    | .running =>
      match o.mods with
      | [] => .reject
      | cur :: rest =>
        let o1 := { o with log := o.log ++ handleEvents o.idx msgs }
        if b.more then .ok (o1, Reply.empty)
        else
          let st := cur.steps.headD ⟨[], false⟩
          let done := decide (cur.steps.length ≤ 1)
          let kvs := st.msgs.map fun (m, v) => (⟨mkKey cur.name m, v⟩ : KV)
          if arraySize kvs > o.mtu then .reject
          else if done then
            .ok ({ o1 with log := o1.log ++ [.produce o.idx true], idx := o.idx + 1, mods := rest,
                           stage := if rest = [] then .finished else .running },
                 ⟨false, rest = [], kvs⟩)
          else
            .ok ({ o1 with log := o1.log ++ [.produce o.idx false],
                           mods := { cur with steps := cur.steps.tail } :: rest },
                 ⟨st.block, false, kvs⟩)

/-! ### device: handleOwnerModuleMessages -/

inductive DOp where
  | send (msg body : Bytes)      -- respond(msg) then Write(body)
  | yield                        -- yield()
  deriving DecidableEq, Repr

structure DevReact where
  ops : List DOp
  /-- the callback returns an error, or returns without reading the whole body -/
  bad : Bool
  deriving DecidableEq, Repr

structure DevMod where
  name : Bytes
  recv : List DevReact
  yld : List DevReact
  deriving DecidableEq, Repr

inductive DEv where
  /-- an owner message `m:active = val` was handled; `res` = the module's active state afterwards -/
  | active (m : Bytes) (val res : Bool)
  /-- `Transition(a)` of module `m` -/
  | trans (m : Bytes) (a : Bool)
  /-- `Receive(msg, body)` of module `m` (UnknownModule for a name that is not configured) -/
  | recv (m msg body : Bytes)
  /-- `Yield` of module `m` -/
  | yield (m : Bytes)
  deriving DecidableEq, Repr

structure Dev where
  mods : List DevMod
  active : List Bytes
  /-- `prevModuleName` as the next call of handleOwnerModuleMessages will get it -/
  prev : Bytes
  /-- `prevModuleName` as the last call got it (the variable is only updated at the end of a round that
  is not the last, so the final call after IsDone gets this value again) -/
  prevIn : Bytes
  log : List DEv
  deriving DecidableEq, Repr

def setActive (act : List Bytes) (m : Bytes) (a : Bool) : List Bytes :=
  if a then (if m ∈ act then act else m :: act) else act.filter (· ≠ m)

def reactOps (name : Bytes) : List DOp → List Op
  | [] => []
  | .send m b :: r => .next (mkKey name m) :: .write b :: reactOps name r
  | .yield :: r => .yield :: reactOps name r

def known (mods : List DevMod) (m : Bytes) : Bool := mods.any (·.name = m)

/-- Next Receive reaction of module `m` (a module whose script is used up reads the body and sends
nothing); the module list with that reaction consumed. -/
def popRecv (m : Bytes) : List DevMod → DevReact × List DevMod
  | [] => (⟨[], false⟩, [])
  | d :: r =>
    if d.name = m then
      (d.recv.headD ⟨[], false⟩, { d with recv := d.recv.tail } :: r)
    else ((popRecv m r).1, d :: (popRecv m r).2)

def popYield (m : Bytes) : List DevMod → DevReact × List DevMod
  | [] => (⟨[], false⟩, [])
  | d :: r =>
    if d.name = m then
      (d.yld.headD ⟨[], false⟩, { d with yld := d.yld.tail } :: r)
    else ((popYield m r).1, d :: (popYield m r).2)

structure HRes where
  dev : Dev
  ops : List Op
  /-- the pipe was closed with an error -/
  err : Bool
  deriving DecidableEq, Repr

/-- One owner message in `handleOwnerModuleMessages`. -/
def handleOne (d : Dev) (key body : Bytes) : HRes :=
  let m := (cutKey key).1
  let n := (cutKey key).2
  let d := { d with prev := m }
  if n = nActive then
    match body.head? with
    | some b =>
      if b = 0xf5 ∨ b = 0xf4 then
        let a := decide (b = 0xf5)
        let prevA := decide (m ∈ d.active)
        let tr : List DEv := if a ≠ prevA then [.trans m a] else []
        if !a || prevA then
          ⟨{ d with active := setActive d.active m a, log := d.log ++ tr ++ [.active m a a] }, [], false⟩
        else
          let a' := known d.mods m || decide (m = nDevmod)
          ⟨{ d with active := setActive d.active m a', log := d.log ++ tr ++ [.active m a a'] },
           [.next (mkKey m nActive), .write (if a' then cbTrue else cbFalse)], false⟩
      else ⟨d, [], true⟩
    | none => ⟨d, [], true⟩
  else if m ∉ d.active then ⟨d, [], true⟩          -- "device has not activated module"
  else if known d.mods m then
    let r := popRecv m d.mods
    ⟨{ d with mods := r.2, log := d.log ++ [.recv m n body] }, reactOps m r.1.ops, r.1.bad⟩
  else
    -- UnknownModule.Receive: drains the body, sends nothing
    ⟨{ d with log := d.log ++ [.recv m n body] }, [], false⟩

/-- After the last message: yield to the module addressed last, if it is active. -/
def handleYield (d : Dev) : HRes :=
  if d.prev ∈ d.active ∧ known d.mods d.prev then
    let r := popYield d.prev d.mods
    ⟨{ d with mods := r.2, log := d.log ++ [.yield d.prev] }, reactOps d.prev r.1.ops, r.1.bad⟩
  else ⟨d, [], false⟩

/-- `handleOwnerModuleMessages` over the messages of one round. -/
def handleAll : Dev → List (Bytes × Bytes) → HRes
  | d, [] => handleYield d
  | d, (k, b) :: r =>
    let h := handleOne d k b
    if h.err then h
    else
      let t := handleAll h.dev r
      ⟨t.dev, h.ops ++ t.ops, t.err⟩

/-- Tree as found: `send.CloseWithError(err)` after a ForceNewMessage finds the current pipe already
closed: the error is lost and the consumer sees a normal end of the round. -/
def endsWithYield : List Op → Bool
  | [] => false
  | [.yield] => true
  | _ :: r => endsWithYield r

/-! ### the system -/

inductive Phase where
  | run
  | done                        -- the device sent TO2.Done (70)
  | failed                      -- TO2 failed with an error on either side
  | panicked (site : String)
  deriving DecidableEq, Repr

structure Sys where
  /-- the owner's receive size (MaxDeviceServiceInfoSize), the device's send MTU -/
  sendMtu : Nat
  dev : Dev
  own : Own
  /-- 68 messages of the current round not yet sent -/
  pending : List Batch
  /-- owner KVs received in the current round -/
  inbox : List KV
  phase : Phase
  n68 : Nat
  rounds : Nat
  deriving DecidableEq, Repr

/-- Start a round from the calls the producer makes on the UnchunkWriter. -/
def startRound (s : Sys) (ops : List Op) : Sys :=
  let r := allBatches .repaired (s.sendMtu - 5) (compile ops)
  if r.fin = .done then
    { s with pending := r.batches, inbox := [], rounds := s.rounds + 1 }
  else { s with phase := .failed, pending := [] }

def frags (b : Batch) : List (Bytes × Bytes) := (reasm [] b.kvs).2

/-- The end of a round that was not the last: the device module goroutine handles what the owner sent. -/
def nextRound (s : Sys) : Sys :=
  match reassembleF s.own.F s.inbox with
  | .panic => { s with phase := .panicked "device-chunk-empty-key", pending := [] }
  | .ok msgs =>
    let h := handleAll s.dev msgs
    let dev := { h.dev with prevIn := s.dev.prev }
    if h.err && (s.own.F.yieldErr || !endsWithYield h.ops) then { s with dev := dev, phase := .failed, pending := [] }
    else startRound { s with dev := dev } h.ops

/-- The owner said IsDone: the last messages are handled with the output discarded (errors too), then
Done (70).  When IsDone already ends the devmod round nothing is handled. -/
def finish (s : Sys) : Sys :=
  if s.rounds ≤ 1 then { s with phase := .done, pending := [] } else
  match reassembleF s.own.F s.inbox with
  | .panic => { s with phase := .panicked "device-chunk-empty-key", pending := [] }
  | .ok msgs =>
    { s with dev := (handleAll { s.dev with prev := s.dev.prevIn } msgs).dev, phase := .done, pending := [] }

/-- One TO2.DeviceServiceInfo / TO2.OwnerServiceInfo exchange. -/
def step (s : Sys) : Sys :=
  match s.phase, s.pending with
  | .run, b :: rest =>
    match ownStep s.own b with
    | .reject => { s with phase := .failed, n68 := s.n68 + 1 }
    | .panic site => { s with phase := .panicked site, n68 := s.n68 + 1 }
    | .ok (own', reply) =>
      let s1 := { s with own := own', inbox := s.inbox ++ reply.kvs, n68 := s.n68 + 1 }
      if rest ≠ [] then { s1 with pending := rest }
      else if b.more ∨ reply.more then { s1 with pending := [⟨false, []⟩] }
      else if reply.done then finish { s1 with pending := [] }
      else nextRound { s1 with pending := [] }
  | _, _ => s

def runN : Nat → Sys → Sys
  | 0, s => s
  | n+1, s => runN n (step s)

structure Cfg where
  F : Fixes
  sendMtu : Nat
  recvMtu : Nat
  filter : Bool
  dev : DevCfg
  devMods : List DevMod
  ownMods : List OwnMod
  deriving DecidableEq, Repr

def Own.init (c : Cfg) : Own := ⟨c.F, c.recvMtu, c.filter, DmState.init, .devmod, c.ownMods, 0, []⟩

/-- TO2 after OwnerServiceInfoReady (67): `Devmod.Write` fills the first round. -/
def Sys.init (c : Cfg) : Sys :=
  let s0 : Sys := ⟨c.sendMtu, ⟨c.devMods, [], [], [], []⟩, Own.init c, [], [], .run, 0, 0⟩
  match devmodOps c.F c.sendMtu c.dev with
  | none => { s0 with phase := .failed }
  | some ops => startRound s0 ops

/-- Run until TO2 ends (`fuel` bounds the number of exchanges; the code stops at 10⁶ rounds). -/
def run (c : Cfg) (fuel : Nat) : Sys := runN fuel (Sys.init c)

/-! ### TO2.Done at the owner (to2Done2) and what the session must hold for it -/

/-- What the TO2 session state holds, as far as `to2Done2` reads it. -/
structure Sess where
  proveDvNonce : Option Bytes := none       -- stored by ProveOVHdr (61)
  setupDvNonce : Option Bytes := none       -- stored by SetupDevice (65)
  replGuid : Option Bytes := none           -- stored by SetupDevice (65)
  rvInfo : Bool := false                    -- stored by SetupDevice (65)
  replHmac : Option Bytes := none           -- stored by OwnerServiceInfoReady (67), absent with credential reuse
  mtu : Option Nat := none                  -- stored by OwnerServiceInfoReady (67)
  /-- did any TO2.DeviceServiceInfo reach ownerServiceInfo / did it answer IsDone -/
  serviceInfoStarted : Bool := false
  serviceInfoDone : Bool := false
  /-- the stored voucher was replaced -/
  replaced : Bool := false
  deriving DecidableEq, Repr

/-- A device request, reduced to what matters here. -/
inductive Req where
  | hello (nonceOk : Bool)                  -- 60, answered 61
  | nextEntry                               -- 62, answered 63
  | proveDevice (nonce guid : Bytes)        -- 64 (valid EAT), answered 65: owner picks nonce and GUID
  | ready (hmac : Option Bytes) (mtu : Nat) -- 66, answered 67
  | info (isDone : Bool)                    -- 68 handled by ownerServiceInfo; `isDone` = its answer carried IsDone
  | done (nonce : Bytes)                    -- 70
  deriving DecidableEq, Repr

inductive Resp where
  | ok (typ : Nat)
  | err
  deriving DecidableEq, Repr

/-- The TO2 responder reduced to the session fields above.  `done` is `to2Done2` as the code is: it
compares the nonce, needs the SetupDevice results, replaces the voucher when a replacement HMAC is
stored — and never looks at the service-info phase. -/
def respond (pd : Bytes) (s : Sess) : Req → Sess × Resp
  | .hello _ => ({ s with proveDvNonce := some pd }, .ok 61)
  | .nextEntry => (s, .ok 63)
  | .proveDevice n g =>
    if s.proveDvNonce = none then (s, .err)
    else ({ s with setupDvNonce := some n, replGuid := some g, rvInfo := true }, .ok 65)
  | .ready h m => ({ s with replHmac := h, mtu := some m }, .ok 67)
  | .info d =>
    if s.mtu = none ∨ s.serviceInfoDone then (s, .err)
    else ({ s with serviceInfoStarted := true, serviceInfoDone := d }, .ok 69)
  | .done n =>
    match s.proveDvNonce, s.setupDvNonce with
    | some p, some _ =>
      if p ≠ n then (s, .err)
      else
        match s.replHmac with
        | none => (s, .ok 71)                           -- credential reuse: nothing replaced
        | some _ =>
          if s.replGuid = none ∨ !s.rvInfo then (s, .err)
          else ({ s with replaced := true }, .ok 71)
    | _, _ => (s, .err)

def respondAll (pd : Bytes) : Sess → List Req → Sess × List Resp
  | s, [] => (s, [])
  | s, r :: rs =>
    let x := respond pd s r
    let y := respondAll pd x.1 rs
    (y.1, x.2 :: y.2)

end Fdo.Svc.Rounds
