import Fdo.Bytes
import Fdo.Svc.Chunk
/-
File-transfer service-info modules (fsim/download_{owner,device}.go, fsim/upload_{owner,device}.go,
fsim/wget_{owner,device}.go) at message level.

Each module pair is two deterministic transducers that exchange whole messages
(message name, decoded body).  How a message travels (chunking into KVs, batching into TO2
messages 68/69, reassembly) is the subject of C15 (`Fdo.Svc.Chunk`, proved lossless) and is not
repeated here; the only places where the negotiated sizes reach the modules are modelled:

  * the owner modules build their messages against `Producer.Available` and the plumbing rejects
    a message 69 whose service info exceeds the size (`fits`, `dataAvail`);
  * the download owner clips its data chunks to the space available (`dlChunk`);
  * the upload device clips its data chunks to the size the owner accepts (`upChunk`, repaired code
    only: the code as found always uses 1014).

The filesystem is `name ↦ Option Bytes`.  A temp file is part of the receiver's state; "left
behind" means it is still there when the run has ended.  OS semantics of rename/temp files and the
HTTP client are not modelled: `rename` always succeeds, an HTTP GET is `Option Bytes`.

SHA-384 is a parameter `H : Bytes → Bytes` everywhere; the driver instantiates it with
`Fdo.Prim.sha384`.

In-transit alteration (`Transit`): what the receiver sees of the announced length, of the
announced digest and of the k-th data chunk.  `Transit.none` is the honest run.

Two states of the code (`Variant`):
  * `Variant.repaired` – the committed behaviour, after
      fix: fsim: upload owner finishes when the digest has arrived and fails on a length mismatch
      fix: fsim: upload device sizes its data chunks to the negotiated service info size
  * `Variant.original` – the tree as found: the upload owner finalises only when
    `digest present ∧ length > 0 ∧ written ≥ length` (an over-announced length or an empty file
    never finalises), leaves its temp file behind on failure, and the device always sends
    1014-byte chunks.
Download and wget are the same in both.
-/
namespace Fdo.Svc.Fsim
open Fdo

/-! ### filesystem -/

abbrev FS := Bytes → Option Bytes

def FS.empty : FS := fun _ => none

def FS.set (fs : FS) (n b : Bytes) : FS := fun m => if m = n then some b else fs m

/-- How the owner module's part of TO2 ends. -/
inductive OwnerEnd where
  | done    -- the module reported `moduleDone`; TO2 goes on
  | err     -- a module returned an error (either side): TO2 fails with an error message
  | stall   -- neither side will ever send anything again: TO2 exchanges empty messages until the
            -- 1e6-round limit of `exchangeServiceInfo` fails it
  deriving DecidableEq, Repr

/-- What the receiver sees of what the sender announced and sent. -/
structure Transit where
  len : Int → Int
  sha : Bytes → Bytes
  dat : Nat → Bytes → Bytes

def Transit.none : Transit := ⟨id, id, fun _ c => c⟩

/-! ### data chunks -/

/-- The sender's loop: `Read(chunk[:c])` from the current offset until nothing is left.
The first argument bounds the iterations (one byte per chunk at least when `c ≥ 1`). -/
def chunksAux (c : Nat) : Nat → Bytes → List Bytes
  | 0, _ => []
  | f+1, b => if b = [] then [] else b.take c :: chunksAux c f (b.drop c)

def chunks (c : Nat) (b : Bytes) : List Bytes := chunksAux c b.length b

/-- Sent chunk paired with what arrives. -/
def deliver (dat : Nat → Bytes → Bytes) : Nat → List Bytes → List (Bytes × Bytes)
  | _, [] => []
  | k, c :: cs => (c, dat k c) :: deliver dat (k+1) cs

/-- The bytes that arrive, in order. -/
def got (ps : List (Bytes × Bytes)) : Bytes := (ps.map Prod.snd).flatten

/-- The bytes that were sent, in order. -/
def sentBytes (ps : List (Bytes × Bytes)) : Bytes := (ps.map Prod.fst).flatten

/-- What a receiver gets in total when the sender streams `file` in chunks of `c`. -/
def received (T : Transit) (c : Nat) (file : Bytes) : Bytes := got (deliver T.dat 0 (chunks c file))

/-! ### sizes (serviceinfo.Producer, cbor.Marshal of the bodies) -/

/-- Length of a CBOR head with argument `n`. -/
def headLen (n : Nat) : Nat :=
  if n < 24 then 1 else if n < 256 then 2 else if n < 65536 then 3 else if n < 4294967296 then 5 else 9

/-- `len(cbor.Marshal(x))` for a text or byte string of `n` bytes. -/
def strBody (n : Nat) : Nat := headLen n + n

/-- `KV.Size` from the lengths of key and value. -/
def kvSz (keyLen valLen : Nat) : Nat := 1 + Chunk.strSize keyLen + Chunk.strSize valLen

/-- Lengths of the module names and message names (ASCII), so that sizes compute by `decide`. -/
def modDownload : Nat := 12   -- "fdo.download"
def modUpload : Nat := 10     -- "fdo.upload"
def modWget : Nat := 8        -- "fdo.wget"
def mActive : Nat := 6        -- "active"
def mName : Nat := 4          -- "name"
def mLength : Nat := 6        -- "length"
def mSha : Nat := 7           -- "sha-384"
def mData : Nat := 4          -- "data"
def mNeedSha : Nat := 8       -- "need-sha"
def mUrl : Nat := 3           -- "url"

def keyLen (modLen msgLen : Nat) : Nat := modLen + 1 + msgLen

/-- `Producer.Available(messageName)` when `k` KVs of total size `S` are already queued.
`NewProducer` stores `mtu - 3` (a `uint16`; sizes below 3 wrap and are outside the model). -/
def available (mtu modLen k S msgLen : Nat) : Int :=
  ((mtu - 3 : Nat) : Int) - ((Chunk.arrHead (k + 1) + S + kvSz (keyLen modLen msgLen) 0 : Nat) : Int) + 1

/-- Queue the messages `(name length, body length)` in turn.  `check = true`: the module tests
`len(body) > Available(name)` before each write (download); in every case
`produceOwnerServiceInfo` rejects the result when `ArraySizeCBOR > mtu`. -/
def fitsAux (check : Bool) (mtu modLen : Nat) : Nat → Nat → List (Nat × Nat) → Bool
  | k, S, [] => decide (Chunk.arrHead k + S ≤ mtu)
  | k, S, (msgLen, bodyLen) :: r =>
    if check && decide ((bodyLen : Int) > available mtu modLen k S msgLen) then false
    else fitsAux check mtu modLen (k + 1) (S + kvSz (keyLen modLen msgLen) bodyLen) r

def fits (check : Bool) (mtu modLen : Nat) (msgs : List (Nat × Nat)) : Bool :=
  fitsAux check mtu modLen 0 0 msgs

/-! ### fdo.download -/

/-- `fsim.Download`: message data and internal state (`written = len(temp)`, `hash = H temp`). -/
structure DlDev where
  name : Bytes
  length : Int
  sha : Bytes
  temp : Option Bytes
  deriving DecidableEq, Repr

/-- `reset()`: what `Transition` leaves, and every finalisation. -/
def DlDev.fresh : DlDev := ⟨[], 0, [], none⟩

inductive DlMsg where
  | name (n : Bytes)
  | length (n : Int)
  | sha (d : Bytes)
  | data (c : Bytes)
  deriving DecidableEq, Repr

/-- What a `Receive` call makes visible. -/
inductive DevOut where
  | quiet
  | done (n : Int)     -- respond("done") ← n
  | fail               -- Receive returned an error: TO2 fails
  deriving DecidableEq, Repr

/-- `finalize`: `buf` is everything written since the last reset. -/
def dlFinalize (H : Bytes → Bytes) (d : DlDev) (fs : FS) (buf : Bytes) : DlDev × FS × DevOut :=
  if (buf.length : Int) > d.length then (.fresh, fs, .done (-1))
  else if d.sha ≠ [] ∧ H buf ≠ d.sha then (.fresh, fs, .done (-1))
  else if d.name = [] then (.fresh, fs, .fail)
  else (.fresh, fs.set d.name buf, .done buf.length)

/-- `Download.receive`. -/
def dlRecv (H : Bytes → Bytes) (d : DlDev) (fs : FS) : DlMsg → DlDev × FS × DevOut
  | .name n => ({ d with name := n }, fs, .quiet)
  | .length n => ({ d with length := n }, fs, .quiet)
  | .sha s => ({ d with sha := s }, fs, .quiet)
  | .data c =>
    let buf := d.temp.getD [] ++ c
    if (buf.length : Int) ≥ d.length then dlFinalize H d fs buf
    else ({ d with temp := some buf }, fs, .quiet)

/-- `DownloadContents.HandleInfo("done")` with `d.index = index`. -/
def dlOwnerDone (must : Bool) (index : Nat) (code : Int) : OwnerEnd :=
  if code = -1 then (if must then .err else .done)
  else if code = (index : Int) then .done else .err

structure DlResult where
  fs : FS
  dev : DlDev            -- `dev.temp ≠ none`: a temp file is left behind
  reply : Option Int     -- the value of the device's `done` message
  owner : OwnerEnd
  nsent : Nat            -- data messages the owner sent


/-- One data message per round until the device answers; `index` is `d.index` of the owner. -/
def dlLoop (H : Bytes → Bytes) (must : Bool) : Nat → Nat → DlDev → FS → List (Bytes × Bytes) → DlResult
  | n, _, d, fs, [] => ⟨fs, d, none, .stall, n⟩
  | n, index, d, fs, (sent, got) :: r =>
    match dlRecv H d fs (.data got) with
    | (d', fs', .quiet) => dlLoop H must (n + 1) (index + sent.length) d' fs' r
    | (d', fs', .done code) => ⟨fs', d', some code, dlOwnerDone must (index + sent.length) code, n + 1⟩
    | (d', fs', .fail) => ⟨fs', d', none, .err, n + 1⟩

/-- `maxChunkSize` of `DownloadContents.ProduceInfo`. -/
def dlMaxChunk (chunk : Int) : Nat :=
  if chunk > 0 then chunk.toNat else if chunk < 0 then 65535 else 1014

/-- `available` of `sendData`: `producer.Available("data") - 6` on an empty producer. -/
def dataAvail (mtu : Nat) : Int := available mtu modDownload 0 0 mData - 6

/-- Size of the data chunks: `min(available, len(d.chunk))`. -/
def dlChunk (mtu : Nat) (chunk : Int) : Nat := min (dataAvail mtu).toNat (dlMaxChunk chunk)

/-- Lengths of the four announcing messages (active, name, length, sha-384). -/
def dlAnnounce (name : Bytes) (length : Nat) : List (Nat × Nat) :=
  [(mActive, 1), (mName, strBody name.length), (mLength, headLen length), (mSha, strBody 48)]

structure DlParams where
  mtu : Nat       -- size the device accepts (MaxOwnerServiceInfoSz), budget of the owner module
  chunk : Int     -- DownloadContents.ChunkSize
  must : Bool     -- DownloadContents.MustDownload
  name : Bytes    -- DownloadContents.Name

/-- The device after the announcing messages (`active` is handled by the plumbing). -/
def dlAnnounced (name : Bytes) (L : Int) (s : Bytes) : DlDev := ⟨name, L, s, none⟩

/-- DownloadContents ⇄ Download for one file. -/
def download (H : Bytes → Bytes) (P : DlParams) (file : Bytes) (T : Transit) (fs : FS) : DlResult :=
  if !fits true P.mtu modDownload (dlAnnounce P.name file.length) then ⟨fs, .fresh, none, .err, 0⟩
  else if dataAvail P.mtu < 1 then ⟨fs, dlAnnounced P.name (T.len file.length) (T.sha (H file)), none, .err, 0⟩
  else
    dlLoop H P.must 0 0 (dlAnnounced P.name (T.len file.length) (T.sha (H file))) fs
      (deliver T.dat 0 (chunks (dlChunk P.mtu P.chunk) file))

/-! ### fdo.upload -/

inductive Variant where
  | original
  | repaired
  deriving DecidableEq, Repr

/-- Size of the device's data chunks.  `ownMtu` is the size the owner accepts
(MaxDeviceServiceInfoSz); the device module sees it minus 5 (`serviceinfo.MTUKey`) and a data KV
costs 1 + 16 (key) + 3 + 3 (two byte-string heads) on top of the data. -/
def upChunk : Variant → Nat → Nat
  | .original, _ => 1014
  | .repaired, ownMtu => max 1 (min 1014 (ownMtu - 5 - 23))

inductive UpMsg where
  | length (n : Int)
  | data (c : Bytes)
  | sha (d : Bytes)
  deriving DecidableEq, Repr

/-- `Upload.upload`: length, the data chunks, then the digest (the owner always asks for it). -/
def upSend (H : Bytes → Bytes) (c : Nat) (file : Bytes) : List UpMsg :=
  .length file.length :: ((chunks c file).map .data ++ [.sha (H file)])

/-- The same messages as the owner module sees them. -/
def upTransit (T : Transit) : Nat → List UpMsg → List UpMsg
  | _, [] => []
  | k, .length n :: r => .length (T.len n) :: upTransit T k r
  | k, .sha d :: r => .sha (T.sha d) :: upTransit T k r
  | k, .data c :: r => .data (T.dat k c) :: upTransit T (k + 1) r

/-- `fsim.UploadRequest` internal state. -/
structure UpOwner where
  length : Int
  sha : Bytes
  temp : Option Bytes
  deriving DecidableEq, Repr

def UpOwner.init : UpOwner := ⟨0, [], none⟩

/-- `UploadRequest.HandleInfo`. -/
def upHandle (o : UpOwner) : UpMsg → UpOwner
  | .length n => { o with length := n }
  | .sha d => { o with sha := d }
  | .data c => { o with temp := some (o.temp.getD [] ++ c) }

structure UpResult where
  fs : FS
  owner : OwnerEnd
  temp : Bool        -- a temp file is left behind


/-- `UploadRequest.ProduceInfo` once the device has sent everything it is going to send
(the digest is the last message, and ProduceInfo is not called while the device says
IsMoreServiceInfo). -/
def upFinal (V : Variant) (H : Bytes → Bytes) (o : UpOwner) (fs : FS) (dst : Bytes) : UpResult :=
  let buf := o.temp.getD []
  match V with
  | .original =>
    if o.sha ≠ [] ∧ o.length > 0 ∧ (buf.length : Int) ≥ o.length then
      if (buf.length : Int) > o.length then ⟨fs, .err, o.temp.isSome⟩
      else if o.sha ≠ H buf then ⟨fs, .err, o.temp.isSome⟩
      else ⟨fs.set dst buf, .done, false⟩
    else ⟨fs, .stall, o.temp.isSome⟩
  | .repaired =>
    if o.sha ≠ [] then
      if (buf.length : Int) ≠ o.length then ⟨fs, .err, false⟩
      else if o.sha ≠ H buf then ⟨fs, .err, false⟩
      else ⟨fs.set dst buf, .done, false⟩
    else ⟨fs, .stall, o.temp.isSome⟩

/-- `filepath.Base` for a slash-separated relative path without trailing slash. -/
def baseName (n : Bytes) : Bytes :=
  n.foldl (fun acc b => if b = 47 then [] else acc ++ [b]) []

/-- The three requesting messages (active, need-sha, name). -/
def upRequest (name : Bytes) : List (Nat × Nat) :=
  [(mActive, 1), (mNeedSha, 1), (mName, strBody name.length)]

structure UpParams where
  devMtu : Nat    -- size the device accepts: budget of the owner's request
  ownMtu : Nat    -- size the owner accepts: the device clips its data chunks to it
  name : Bytes    -- UploadRequest.Name, stored as `baseName name` under UploadRequest.Dir

/-- Upload ⇄ UploadRequest for one file that exists on the device. -/
def upload (V : Variant) (H : Bytes → Bytes) (P : UpParams) (file : Bytes) (T : Transit) (fs : FS) : UpResult :=
  if !fits false P.devMtu modUpload (upRequest P.name) then ⟨fs, .err, false⟩
  else
    upFinal V H ((upTransit T 0 (upSend H (upChunk V P.ownMtu) file)).foldl upHandle .init) fs (baseName P.name)

/-! ### fdo.wget -/

structure WgetParams where
  mtu : Nat       -- size the device accepts
  name : Bytes    -- WgetCommand.Name
  urlLen : Nat    -- length of the URL text
  sum : Bytes     -- WgetCommand.Checksum, `[]` when not given
  len : Nat       -- WgetCommand.Length, 0 when not given

inductive WgetReply where
  | done (n : Nat)
  | error
  deriving DecidableEq, Repr

structure WgetResult where
  fs : FS
  reply : Option WgetReply
  owner : OwnerEnd


/-- active, sha-384 (only when a checksum is given), name, url. -/
def wgetRequest (P : WgetParams) : List (Nat × Nat) :=
  (mActive, 1) :: ((if P.sum = [] then [] else [(mSha, strBody P.sum.length)]) ++
    [(mName, strBody P.name.length), (mUrl, strBody P.urlLen)])

/-- WgetCommand ⇄ Wget; `body` is what the GET of the URL returns (`none`: the request fails or the
status is not 200). The temp file is removed in every case (`defer os.Remove`). -/
def wget (H : Bytes → Bytes) (P : WgetParams) (T : Transit) (body : Option Bytes) (fs : FS) : WgetResult :=
  if !fits false P.mtu modWget (wgetRequest P) then ⟨fs, none, .err⟩
  else
    let sha := if P.sum = [] then [] else T.sha P.sum
    match body with
    | none => ⟨fs, some .error, .err⟩
    | some b =>
      if sha ≠ [] ∧ H b ≠ sha then ⟨fs, some .error, .err⟩
      else if P.name = [] then ⟨fs, some .error, .err⟩
      else
        ⟨fs.set P.name b, some (.done b.length),
          if P.len > 0 ∧ b.length ≠ P.len then .err else .done⟩

end Fdo.Svc.Fsim
