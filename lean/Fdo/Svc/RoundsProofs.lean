import Fdo.Svc.Rounds
import Fdo.Svc.ChunkProofs
import Fdo.Cbor.Proofs
/-
Helper lemmas for C16 (Props/C16.lean holds the property theorems).
-/
namespace Fdo.Svc.Rounds
open Fdo Fdo.Cbor Fdo.Svc.Chunk

/-! ### the module-list chunker (device) -/

/-- All names of a chunk list, in order. -/
def catNames : List (Nat × List Bytes) → List Bytes
  | [] => []
  | c :: r => c.2 ++ catNames r

/-- Every chunk starts where the previous one ended. -/
def StartsOK : Nat → List (Nat × List Bytes) → Prop
  | _, [] => True
  | s, c :: r => c.1 = s ∧ StartsOK (s + c.2.length) r

theorem moduleChunks_cat (fits : Nat → List Bytes → Bool) (rest : List Bytes) :
    ∀ start cur cs, moduleChunks fits start cur rest = some cs → catNames cs = cur ++ rest := by
  induction rest with
  | nil =>
    intro start cur cs h
    simp [moduleChunks] at h
    subst h; simp [catNames]
  | cons n rest ih =>
    intro start cur cs h
    unfold moduleChunks at h
    by_cases h1 : fits start (cur ++ [n]) = true
    · rw [if_pos h1] at h
      have := ih _ _ _ h
      simpa using this
    · rw [if_neg h1] at h
      by_cases h2 : cur = []
      · rw [if_pos h2] at h; cases h
      · rw [if_neg h2] at h
        by_cases h3 : fits (start + cur.length) [n] = true
        · rw [if_pos h3] at h
          cases hm : moduleChunks fits (start + cur.length) [n] rest with
          | none => rw [hm] at h; cases h
          | some cs' =>
            rw [hm] at h
            simp at h; subst h
            have := ih _ _ _ hm
            simp [catNames, this]
        · rw [if_neg h3] at h; cases h

theorem moduleChunks_starts (fits : Nat → List Bytes → Bool) (rest : List Bytes) :
    ∀ start cur cs, moduleChunks fits start cur rest = some cs → StartsOK start cs := by
  induction rest with
  | nil =>
    intro start cur cs h
    simp [moduleChunks] at h
    subst h; simp [StartsOK]
  | cons n rest ih =>
    intro start cur cs h
    unfold moduleChunks at h
    by_cases h1 : fits start (cur ++ [n]) = true
    · rw [if_pos h1] at h; exact ih _ _ _ h
    · rw [if_neg h1] at h
      by_cases h2 : cur = []
      · rw [if_pos h2] at h; cases h
      · rw [if_neg h2] at h
        by_cases h3 : fits (start + cur.length) [n] = true
        · rw [if_pos h3] at h
          cases hm : moduleChunks fits (start + cur.length) [n] rest with
          | none => rw [hm] at h; cases h
          | some cs' =>
            rw [hm] at h
            simp at h; subst h
            exact ⟨rfl, ih _ _ _ hm⟩
        · rw [if_neg h3] at h; cases h

/-- Every chunk the loop closes passed the size test (or is the empty chunk of an empty list). -/
theorem moduleChunks_fit (fits : Nat → List Bytes → Bool) (rest : List Bytes) :
    ∀ start cur cs, (cur = [] ∨ fits start cur = true) → moduleChunks fits start cur rest = some cs →
      ∀ c ∈ cs, c.2 = [] ∨ fits c.1 c.2 = true := by
  induction rest with
  | nil =>
    intro start cur cs hc h c hm
    simp [moduleChunks] at h
    subst h; simp at hm; subst hm; exact hc
  | cons n rest ih =>
    intro start cur cs hc h
    unfold moduleChunks at h
    by_cases h1 : fits start (cur ++ [n]) = true
    · rw [if_pos h1] at h; exact ih _ _ _ (Or.inr h1) h
    · rw [if_neg h1] at h
      by_cases h2 : cur = []
      · rw [if_pos h2] at h; cases h
      · rw [if_neg h2] at h
        by_cases h3 : fits (start + cur.length) [n] = true
        · rw [if_pos h3] at h
          cases hm : moduleChunks fits (start + cur.length) [n] rest with
          | none => rw [hm] at h; cases h
          | some cs' =>
            rw [hm] at h
            simp at h; subst h
            intro c hc'
            rcases List.mem_cons.1 hc' with rfl | hc'
            · exact hc
            · exact ih _ _ _ (Or.inr h3) hm c hc'
        · rw [if_neg h3] at h; cases h

theorem moduleChunks_nonempty (fits : Nat → List Bytes → Bool) (rest : List Bytes) :
    ∀ start cur cs, (cur ≠ [] ∨ rest ≠ []) → moduleChunks fits start cur rest = some cs →
      ∀ c ∈ cs, c.2 ≠ [] := by
  induction rest with
  | nil =>
    intro start cur cs hc h c hm
    simp [moduleChunks] at h
    subst h; simp at hm; subst hm
    rcases hc with h | h
    · exact h
    · exact absurd rfl h
  | cons n rest ih =>
    intro start cur cs _ h
    unfold moduleChunks at h
    by_cases h1 : fits start (cur ++ [n]) = true
    · rw [if_pos h1] at h; exact ih _ _ _ (Or.inl (by simp)) h
    · rw [if_neg h1] at h
      by_cases h2 : cur = []
      · rw [if_pos h2] at h; cases h
      · rw [if_neg h2] at h
        by_cases h3 : fits (start + cur.length) [n] = true
        · rw [if_pos h3] at h
          cases hm : moduleChunks fits (start + cur.length) [n] rest with
          | none => rw [hm] at h; cases h
          | some cs' =>
            rw [hm] at h
            simp at h; subst h
            intro c hc'
            rcases List.mem_cons.1 hc' with rfl | hc'
            · exact h2
            · exact ih _ _ _ (Or.inl (by simp)) hm c hc'
        · rw [if_neg h3] at h; cases h

/-- The chunker succeeds whenever every name fits a chunk of its own at every start index it can get. -/
theorem moduleChunks_isSome (fits : Nat → List Bytes → Bool) (N : Nat) (rest : List Bytes) :
    ∀ start cur, (∀ n ∈ rest, ∀ s, s ≤ N → fits s [n] = true) → start + cur.length + rest.length ≤ N →
      (moduleChunks fits start cur rest).isSome = true := by
  induction rest with
  | nil => intro start cur _ _; simp [moduleChunks]
  | cons n rest ih =>
    intro start cur hf hN
    have hrest : ∀ m ∈ rest, ∀ s, s ≤ N → fits s [m] = true := fun m hm => hf m (List.mem_cons_of_mem _ hm)
    simp only [List.length_cons] at hN
    unfold moduleChunks
    by_cases h1 : fits start (cur ++ [n]) = true
    · rw [if_pos h1]; exact ih _ _ hrest (by simp; omega)
    · rw [if_neg h1]
      by_cases h2 : cur = []
      · subst h2
        exact absurd (by simpa using hf n (List.mem_cons_self ..) start (by omega)) h1
      · rw [if_neg h2]
        have h3 := hf n (List.mem_cons_self ..) (start + cur.length) (by omega)
        rw [if_pos h3]
        have := ih (start + cur.length) [n] hrest (by simp; omega)
        cases hm : moduleChunks fits (start + cur.length) [n] rest with
        | none => rw [hm] at this; cases this
        | some cs' => simp

/-! ### the module list at the owner, on decoded chunks -/

/-- `parseModules` on chunks that are already decoded. -/
def applyAll (F : Fixes) : List Bytes → List (Nat × List Bytes) → Out (List Bytes)
  | mods, [] => .ok mods
  | mods, c :: r =>
    match applyChunk F mods (Int.ofNat c.1) (Int.ofNat c.2.length) c.2 with
    | .ok m => applyAll F m r
    | .reject => .reject
    | .panic s => .panic s

theorem firstEmpty_none (pre : List Bytes) (h : ∀ m ∈ pre, m ≠ []) : firstEmpty pre = none := by
  induction pre with
  | nil => rfl
  | cons m r ih =>
    have hm : m ≠ [] := h m (List.mem_cons_self ..)
    simp [firstEmpty, hm, ih (fun x hx => h x (List.mem_cons_of_mem _ hx))]

theorem firstEmpty_pre (pre : List Bytes) (h : ∀ m ∈ pre, m ≠ []) (k : Nat) :
    firstEmpty (pre ++ List.replicate (k + 1) []) = some pre.length := by
  induction pre with
  | nil => simp [firstEmpty, List.replicate_succ]
  | cons m r ih =>
    have hm : m ≠ [] := h m (List.mem_cons_self ..)
    simp [firstEmpty, hm, ih (fun x hx => h x (List.mem_cons_of_mem _ hx))]

theorem any_empty_false (ns : List Bytes) (h : ∀ m ∈ ns, m ≠ []) : ns.any (· = []) = false := by
  induction ns with
  | nil => rfl
  | cons m r ih =>
    have hm : m ≠ [] := h m (List.mem_cons_self ..)
    simp [hm, ih (fun x hx => h x (List.mem_cons_of_mem _ hx))]

/-- One chunk that starts at the first free slot fills exactly its slots. -/
theorem applyChunk_fill (F : Fixes) (pre ns : List Bytes) (k : Nat)
    (hpre : ∀ m ∈ pre, m ≠ []) (hns : ∀ m ∈ ns, m ≠ []) :
    applyChunk F (pre ++ List.replicate (ns.length + k) []) (Int.ofNat pre.length) (Int.ofNat ns.length) ns =
      .ok ((pre ++ ns) ++ List.replicate k []) := by
  unfold applyChunk
  have h1 : ¬ (Int.ofNat pre.length < 0 ∨ Int.ofNat pre.length > Int.ofNat (pre ++ List.replicate (ns.length + k) []).length ∨
      Int.ofNat ns.length < 0 ∨ Int.ofNat ns.length ≠ Int.ofNat ns.length) := by
    simp only [List.length_append, List.length_replicate, Int.ofNat_eq_natCast]
    omega
  rw [if_neg h1, any_empty_false ns hns]
  simp only [Bool.false_eq_true, if_false]
  have hst : chunkStart (pre ++ List.replicate (ns.length + k) []) (Int.ofNat pre.length) = pre.length := by
    unfold chunkStart
    cases hn : ns.length + k with
    | zero =>
      simp only [List.replicate_zero, List.append_nil]
      rw [firstEmpty_none pre hpre]; simp
    | succ j => rw [firstEmpty_pre pre hpre j]
  rw [hst]
  have h2 : ¬ (pre.length + ns.length > (pre ++ List.replicate (ns.length + k) []).length) := by
    simp only [List.length_append, List.length_replicate]; omega
  rw [if_neg h2]
  congr 1
  rw [List.take_left', List.drop_append, List.drop_replicate]
  · simp
  · rfl

/-- THE OWNER REBUILDS THE LIST: chunks whose starts are the running sum, applied to a list with all
slots from `pre.length` on still empty, fill in exactly their names. -/
theorem applyAll_fill (F : Fixes) (cs : List (Nat × List Bytes)) :
    ∀ pre : List Bytes, (∀ m ∈ pre, m ≠ []) → (∀ m ∈ catNames cs, m ≠ []) → StartsOK pre.length cs →
      applyAll F (pre ++ List.replicate (catNames cs).length []) cs = .ok (pre ++ catNames cs) := by
  induction cs with
  | nil => intro pre _ _ _; simp [applyAll, catNames]
  | cons c r ih =>
    intro pre hpre hn hs
    obtain ⟨s, ns⟩ := c
    simp only [StartsOK] at hs
    obtain ⟨rfl, hs⟩ := hs
    simp only [catNames] at hn ⊢
    have hns : ∀ m ∈ ns, m ≠ [] := fun m hm => hn m (List.mem_append_left _ hm)
    have hr : ∀ m ∈ catNames r, m ≠ [] := fun m hm => hn m (List.mem_append_right _ hm)
    unfold applyAll
    simp only [List.length_append]
    rw [applyChunk_fill F pre ns _ hpre hns]
    have hpre' : ∀ m ∈ pre ++ ns, m ≠ [] := by
      intro m hm
      rcases List.mem_append.1 hm with h | h
      · exact hpre m h
      · exact hns m h
    have := ih (pre ++ ns) hpre' hr (by simpa using hs)
    simp only at this ⊢
    rw [this, List.append_assoc]

/-! ### the module list at the owner, on bytes -/

theorem toList_ofList (xs : List Item) : (Items.ofList xs).toList = xs := by
  induction xs with
  | nil => rfl
  | cons x r ih => simp [Items.ofList, Items.toList, ih]

theorem length_ofList (xs : List Item) : (Items.ofList xs).length = xs.length := by
  induction xs with
  | nil => rfl
  | cons x r ih => simp [Items.ofList, Items.length, ih]

theorem asNames_tstr (ns : List Bytes) : asNames (ns.map Item.tstr) = some ns := by
  induction ns with
  | nil => rfl
  | cons n r ih => simp [asNames, ih]

theorem asChunk_chunkItem (s : Nat) (ns : List Bytes) (hs : s < 9223372036854775808)
    (hl : ns.length < 9223372036854775808) :
    asChunk (chunkItem s ns) = some (Int.ofNat s, Int.ofNat ns.length, ns) := by
  unfold asChunk chunkItem
  simp [toList_ofList, asInt, hs, hl, asNames_tstr]

/-- Items of the kind a chunk holds: unsigned numbers and text strings. -/
def Flat : List Item → Prop
  | [] => True
  | .uint n :: r => n < 18446744073709551616 ∧ Flat r
  | .tstr t :: r => t.length < maxLen ∧ Flat r
  | _ :: _ => False

theorem flat_tstr (ns : List Bytes) (h : ∀ n ∈ ns, n.length < maxLen) : Flat (ns.map Item.tstr) := by
  induction ns with
  | nil => trivial
  | cons n r ih =>
    exact ⟨h n (List.mem_cons_self ..), ih (fun m hm => h m (List.mem_cons_of_mem _ hm))⟩

theorem flat_wf (xs : List Item) (h : Flat xs) : (Items.ofList xs).WF := by
  induction xs with
  | nil => trivial
  | cons x r ih =>
    cases x <;> simp only [Flat] at h
    · exact ⟨h.1, ih h.2⟩
    · exact ⟨h.1, ih h.2⟩

theorem flat_size (xs : List Item) (h : Flat xs) : (Items.ofList xs).size = 2 * xs.length := by
  induction xs with
  | nil => rfl
  | cons x r ih =>
    cases x <;> simp only [Flat] at h
    · simp [Items.ofList, Items.size, Item.size, ih h.2]; omega
    · simp [Items.ofList, Items.size, Item.size, ih h.2]; omega

theorem flat_depth (xs : List Item) (h : Flat xs) : (Items.ofList xs).depth = 0 := by
  induction xs with
  | nil => rfl
  | cons x r ih =>
    cases x <;> simp only [Flat] at h
    · simp [Items.ofList, Items.depth, Item.depth, ih h.2]
    · simp [Items.ofList, Items.depth, Item.depth, ih h.2]

theorem encHead_pos (mt n : Nat) : 1 ≤ (encHead mt n).length := by
  rw [encHead_length]; repeat' split
  all_goals omega

theorem flat_enc_length (xs : List Item) (h : Flat xs) : xs.length ≤ (encodeItems (Items.ofList xs)).length := by
  induction xs with
  | nil => simp
  | cons x r ih =>
    cases x <;> simp only [Flat] at h
    · have := encHead_pos 0 ‹Nat›
      have := ih h.2
      simp [Items.ofList, encodeItems, encode]; omega
    · have := encHead_pos 3 (List.length ‹Bytes›)
      have := ih h.2
      simp [Items.ofList, encodeItems, encode]; omega

/-- What makes a chunk decodable by the library: counts within `MaxArrayDecodeLength`. -/
def ChunkWF (c : Nat × List Bytes) : Prop :=
  c.1 < 9223372036854775808 ∧ c.2.length + 2 < maxLen ∧ ∀ n ∈ c.2, n.length < maxLen

theorem chunk_flat (c : Nat × List Bytes) (h : ChunkWF c) :
    Flat (Item.uint c.1 :: Item.uint c.2.length :: c.2.map Item.tstr) := by
  refine ⟨by have := h.1; omega, ?_, flat_tstr _ h.2.2⟩
  have := h.2.1; unfold maxLen at this; omega

theorem chunkEnc_length (c : Nat × List Bytes) (h : ChunkWF c) : c.2.length + 3 ≤ (chunkEnc c.1 c.2).length := by
  have hf := chunk_flat c h
  have := flat_enc_length _ hf
  have hp := encHead_pos 4 (Items.ofList (Item.uint c.1 :: Item.uint c.2.length :: c.2.map Item.tstr)).length
  unfold chunkEnc chunkItem
  simp only [encode, List.length_append]
  simp only [List.length_cons, List.length_map] at this
  omega

/-- decode ∘ encode on a chunk, with anything behind it. -/
theorem decode1_chunkEnc (c : Nat × List Bytes) (h : ChunkWF c) (rest : Bytes) :
    decode1 (chunkEnc c.1 c.2 ++ rest) = some (chunkItem c.1 c.2, rest) := by
  have hf := chunk_flat c h
  unfold decode1 chunkEnc
  apply Cbor.decode_encode
  · unfold chunkItem
    refine ⟨?_, flat_wf _ hf⟩
    rw [length_ofList]; simp only [List.length_cons, List.length_map]
    exact h.2.1
  · have hl := chunkEnc_length c h
    unfold chunkEnc at hl
    unfold chunkItem at hl ⊢
    simp only [Item.size, flat_size _ hf, List.length_cons, List.length_map, List.length_append]
    omega
  · unfold chunkItem
    simp only [Item.depth, flat_depth _ hf]
    unfold maxDepth; omega

/-- The concatenated encodings of a chunk list: the body of one or several `devmod:modules` KVs. -/
def encs : List (Nat × List Bytes) → Bytes
  | [] => []
  | c :: r => chunkEnc c.1 c.2 ++ encs r

theorem parseModules_succ (F : Fixes) (f : Nat) (mods : List Bytes) (bs : Bytes) (h : bs ≠ []) :
    parseModules F (f + 1) mods bs =
      match decode1 bs with
      | none => .reject
      | some (x, rest) =>
        match asChunk x with
        | none => .reject
        | some (s, l, ns) =>
          match applyChunk F mods s l ns with
          | .ok m => parseModules F f m rest
          | .reject => .reject
          | .panic site => .panic site := by
  cases bs with
  | nil => exact absurd rfl h
  | cons b r => rfl

/-- `parseModules` on the bytes of whole chunks is `applyAll` on the chunks. -/
theorem parseModules_encs (F : Fixes) (cs : List (Nat × List Bytes)) :
    ∀ fuel mods, (∀ c ∈ cs, ChunkWF c) → (encs cs).length < fuel →
      parseModules F fuel mods (encs cs) = applyAll F mods cs := by
  induction cs with
  | nil => intro fuel mods _ _; cases fuel <;> simp [encs, parseModules, applyAll]
  | cons c r ih =>
    intro fuel mods hwf hf
    have hc := hwf c (List.mem_cons_self ..)
    have hl := chunkEnc_length c hc
    simp only [encs, List.length_append] at hf ⊢
    cases fuel with
    | zero => omega
    | succ f =>
      rw [parseModules_succ F f mods _ (by intro h0; have := congrArg List.length h0; simp only [List.length_append, List.length_nil] at this; omega)]
      rw [decode1_chunkEnc c hc]
      simp only
      rw [asChunk_chunkItem c.1 c.2 hc.1 (by have := hc.2.1; unfold maxLen at this; omega)]
      simp only [applyAll]
      cases applyChunk F mods (Int.ofNat c.1) (Int.ofNat c.2.length) c.2 with
      | ok m =>
        have hlt : (encs r).length < f := by omega
        exact ih f m (fun x hx => hwf x (List.mem_cons_of_mem _ hx)) hlt
      | reject => rfl
      | panic s => rfl

/-! ### packing whole messages -/

/-- A value that fits as one KV is read in one piece. -/
theorem fits_avail (size : Nat) (k v : Bytes) (hk : rawKeyLen k ≤ 65535) (h : kvSize ⟨k, v⟩ ≤ size) :
    v.length ≤ avail size k := by
  have hr := rawKeyLen_eq k
  unfold kvSize at h
  unfold avail
  simp only at h ⊢
  generalize rawKeyLen k = rk at *
  generalize v.length = n at *
  unfold strSize at h
  split at hr <;> (try split at hr) <;> (try split at hr) <;> (try split at hr)
  all_goals (split at h <;> (try split at h) <;> (try split at h) <;> (try split at h) <;> (try split at h))
  all_goals (split <;> split <;> omega)

/-- A key that fits a message together with a value also fits an otherwise empty message. -/
theorem key_usable (size : Nat) (k v : Bytes) (hk : rawKeyLen k ≤ 65535) (hv : v ≠ [])
    (h : kvSize ⟨k, v⟩ ≤ size) : rawKeyLen k + 3 ≤ size := by
  have hp : 0 < avail size k := by
    have := fits_avail size k v hk h
    have : 1 ≤ v.length := by
      cases v with
      | nil => exact absurd rfl hv
      | cons a t => simp
    omega
  exact (avail_pos_iff size k).1 hp

/-- Scripts as `Devmod.Write` produces them: every message fits what is left of the 68 being
filled (`left`), a forced break gives the whole space `B` again. -/
def FitQ (B : Nat) : Nat → Script → Prop
  | _, [] => True
  | _, .yield :: r => FitQ B B r
  | left, .msg k v :: r =>
    v ≠ [] ∧ k ≠ [] ∧ rawKeyLen k ≤ 65535 ∧ kvSize ⟨k, v⟩ ≤ left ∧ FitQ B (left - kvSize ⟨k, v⟩) r

theorem FitQ.mono (B : Nat) (s : Script) : ∀ l l', FitQ B l s → l ≤ l' → FitQ B l' s := by
  induction s with
  | nil => intros; trivial
  | cons x r ih =>
    intro l l' h hl
    cases x with
    | yield => exact h
    | msg k v =>
      simp only [FitQ] at h ⊢
      exact ⟨h.1, h.2.1, h.2.2.1, by omega, ih _ _ h.2.2.2.2 (by omega)⟩

/-- The reader being chunked is used up (or there is none). -/
def Exhausted (B : Nat) : Option (Bytes × Bytes) → Prop
  | none => True
  | some (k, r) => r = [] ∧ rawKeyLen k + 3 ≤ B

theorem exhausted_content (B : Nat) (st : St) (h : Exhausted B st.cur) : content st = kvsOf st.queue := by
  unfold content
  cases hc : st.cur with
  | none => simp [curKVs]
  | some p =>
    obtain ⟨k, r⟩ := p
    rw [hc] at h
    simp [curKVs, h.1]

/-- Reading from a queue of fitting messages: the next chunk is the next message, whole. -/
theorem readNext_whole (B : Nat) (q : Script) :
    ∀ (left : Nat) (mid : Bool), left ≤ B → FitQ B left q → (mid = false → left = B) →
      (∃ st', readNext .repaired left mid q = (.eof, st') ∧ kvsOf q = [] ∧ content st' = []) ∨
      (∃ q', readNext .repaired left mid q = (.tooSmall, ⟨q', none, false⟩) ∧ mid = true ∧
        kvsOf q' = kvsOf q ∧ FitQ B B q') ∨
      (∃ c st', readNext .repaired left mid q = (.kv c, st') ∧ kvsOf q = c :: content st' ∧
        kvSize c ≤ left ∧ 1 ≤ kvSize c ∧ Exhausted B st'.cur ∧ FitQ B (left - kvSize c) st'.queue ∧ st'.mid = true) := by
  induction q with
  | nil =>
    intro left mid _ _ _
    left; exact ⟨_, rfl, rfl, rfl⟩
  | cons x r ih =>
    intro left mid hle hf hm
    cases x with
    | yield =>
      simp only [FitQ] at hf
      cases mid with
      | false =>
        have hl : left = B := hm rfl
        subst hl
        have := ih left false (Nat.le_refl _) hf (fun _ => rfl)
        simpa [readNext, Variant.repaired, kvsOf] using this
      | true =>
        right; left
        exact ⟨r, by simp [readNext, Variant.repaired], rfl, by simp [kvsOf], hf⟩
    | msg k v =>
      simp only [FitQ] at hf
      obtain ⟨hv, hk0, hk, hsz, hrest⟩ := hf
      right; right
      have hkr : keyRead (Variant.repaired.keyLimit left) k.length = .ok := keyRead_ok _ k (by simp [Variant.repaired]; exact hk)
      have hav := fits_avail left k v hk hsz
      have hvl : 1 ≤ v.length := by
        cases v with
        | nil => exact absurd rfl hv
        | cons a t => simp
      have hus := key_usable left k v hk hv hsz
      have hpos := kvSize_pos ⟨k, v⟩
      rcases readBody_spec left k v r with ⟨h0, _⟩ | ⟨_, he, _⟩ | ⟨_, _, hlt, hb⟩ | ⟨_, hge, hb⟩
      · omega
      · exact absurd he hv
      · refine ⟨⟨k, v⟩, ⟨r, none, true⟩, ?_, ?_, hsz, hpos, trivial, hrest, rfl⟩
        · simp [readNext, hkr, hb]
        · simp [kvsOf, curKVs, hv, content]
      · have hlen : avail left k = v.length := by omega
        refine ⟨⟨k, v⟩, ⟨r, some (k, []), true⟩, ?_, ?_, hsz, hpos, ⟨rfl, by omega⟩, hrest, rfl⟩
        · simp [readNext, hkr, hb, hlen]
        · simp [kvsOf, curKVs, hv, content]

/-- The invariant of the packing loop on such a script. -/
structure Good (B left : Nat) (st : St) : Prop where
  cur : Exhausted B st.cur
  q : FitQ B left st.queue
  mid : if st.mid then left < B else left = B

/-- One message: everything emitted is a whole message of the script, and the loop ends either at
the end of the channel or because the next message is to start a new 68. -/
theorem pack_whole (B : Nat) : ∀ (f maxRead : Nat) (st : St), maxRead < f → maxRead ≤ B → Good B maxRead st →
    content st = (pack .repaired B f maxRead st).1 ++ content (pack .repaired B f maxRead st).2.2 ∧
    (((pack .repaired B f maxRead st).2.1 = .eof ∧ content (pack .repaired B f maxRead st).2.2 = []) ∨
     ((pack .repaired B f maxRead st).2.1 = .more ∧ Good B B (pack .repaired B f maxRead st).2.2)) := by
  intro f
  induction f with
  | zero => intro maxRead st h; omega
  | succ f ih =>
    intro maxRead st hf hle hg
    have hcont := exhausted_content B st hg.cur
    -- what the first ReadChunk does
    have hm : st.mid = false → maxRead = B := by
      intro h; have := hg.mid; rw [h] at this; simpa using this
    have next := readNext_whole B st.queue maxRead st.mid hle hg.q hm
    have fromNext : ∀ r : Res × St, r = readNext .repaired maxRead st.mid st.queue →
        ((∃ st', r = (.eof, st') ∧ content st = [] ∧ content st' = []) ∨
        (∃ st', r = (.tooSmall, st') ∧ maxRead ≠ B ∧ content st' = content st ∧ Good B B st') ∨
        (∃ c st', r = (.kv c, st') ∧ content st = c :: content st' ∧
          kvSize c ≤ maxRead ∧ 1 ≤ kvSize c ∧ Good B (maxRead - kvSize c) st')) := by
      intro r he
      rw [he]
      rcases next with ⟨st', h1, h2, h3⟩ | ⟨q', h1, h2, h3, h4⟩ | ⟨c, st', h1, h2, h3, h4, h5, h6, h7⟩
      · left; exact ⟨st', h1, by rw [hcont, h2], h3⟩
      · right; left
        refine ⟨_, h1, ?_, ?_, ⟨trivial, h4, by simp⟩⟩
        · have := hg.mid; rw [h2] at this; simp at this; omega
        · rw [hcont]; simp [content, curKVs, h3]
      · right; right
        refine ⟨c, st', h1, by rw [hcont, h2], h3, h4, ⟨h5, h6, ?_⟩⟩
        rw [h7]; simp; omega
    have key : (∃ st', readChunk .repaired st maxRead = (.eof, st') ∧ content st = [] ∧ content st' = []) ∨
        (∃ st', readChunk .repaired st maxRead = (.tooSmall, st') ∧ maxRead ≠ B ∧ content st' = content st ∧ Good B B st') ∨
        (∃ c st', readChunk .repaired st maxRead = (.kv c, st') ∧ content st = c :: content st' ∧
          kvSize c ≤ maxRead ∧ 1 ≤ kvSize c ∧ Good B (maxRead - kvSize c) st') := by
      cases hc : st.cur with
      | none => exact fromNext _ (by simp [readChunk, hc])
      | some p =>
        obtain ⟨k, rr⟩ := p
        have hex := hg.cur
        rw [hc] at hex
        obtain ⟨hr0, hus⟩ := hex
        subst hr0
        rcases readBody_spec maxRead k [] st.queue with ⟨h0, hb⟩ | ⟨_, _, hb⟩ | ⟨_, hne, _, _⟩ | ⟨hp, hge, _⟩
        · right; left
          have hgood : Good B B ⟨st.queue, some (k, []), false⟩ :=
            ⟨show Exhausted B (some (k, [])) from ⟨rfl, hus⟩, hg.q.mono B _ _ _ hle, by simp⟩
          refine ⟨⟨st.queue, some (k, []), false⟩, by simp [readChunk, hc, hb], ?_, ?_, hgood⟩
          · intro hmb
            have := (avail_pos_iff maxRead k).2 (by omega)
            omega
          · rw [hcont]; simp [content, curKVs]
        · exact fromNext _ (by simp [readChunk, hc, hb])
        · exact absurd rfl hne
        · simp at hge; omega
    unfold pack
    rcases key with ⟨st', h1, h2, h3⟩ | ⟨st', h1, h2, h3, h4⟩ | ⟨c, st', h1, h2, h3, h4, h5⟩
    · rw [h1]; simp [h2, h3]
    · rw [h1]; simp [h2, h3, h4]
    · rw [h1]
      have := ih (maxRead - kvSize c) st' (by omega) (by omega) h5
      simp only
      refine ⟨?_, this.2⟩
      rw [h2, this.1]; simp

/-- The whole round: every 68 holds whole messages and together they are the script's messages. -/
theorem rounds_whole (B : Nat) : ∀ (f : Nat) (st : St), Good B B st → (rounds .repaired B f st).fin ≠ .fuel →
    (rounds .repaired B f st).fin = .done ∧ flatten (rounds .repaired B f st).batches = content st := by
  intro f
  induction f with
  | zero => intro st _ h; simp [rounds] at h
  | succ f ih =>
    intro st hg hfu
    have hp := pack_whole B (B + 1) B st (by omega) (Nat.le_refl _) hg
    unfold rounds at hfu ⊢
    rcases hr : pack .repaired B (B + 1) B st with ⟨cs, e, st'⟩
    rw [hr] at hp hfu
    simp only at hp hfu ⊢
    rcases hp with ⟨hc, ⟨he, h0⟩ | ⟨hm, hg'⟩⟩
    · subst he
      simp [flatten, hc, h0]
    · subst hm
      simp only at hfu ⊢
      have := ih st' hg' hfu
      refine ⟨this.1, ?_⟩
      rw [flatten_cons, this.2, hc]

/-- Every 68 of a round but the last says IsMoreServiceInfo, the last does not. -/
def LastOnly : List Batch → Prop
  | [] => False
  | [b] => b.more = false
  | b :: c :: r => b.more = true ∧ LastOnly (c :: r)

theorem rounds_lastOnly (V : Variant) (mtu : Nat) : ∀ (f : Nat) (st : St),
    (rounds V mtu f st).fin = .done → LastOnly (rounds V mtu f st).batches := by
  intro f
  induction f with
  | zero => intro st h; simp [rounds] at h
  | succ f ih =>
    intro st h
    unfold rounds at h ⊢
    rcases hr : pack V mtu (mtu + 1) mtu st with ⟨cs, e, st'⟩
    rw [hr] at h
    cases e <;> simp only at h ⊢
    · rfl
    · have := ih st' h
      cases hb : (rounds V mtu f st').batches with
      | nil => rw [hb] at this; exact absurd this (by simp [LastOnly])
      | cons c r => rw [hb] at this; exact ⟨rfl, this⟩
    · cases h
    · cases h
    · cases h

/-! ### what `Devmod.Write` hands to the chunker -/

/-- The next call opens a message or forces a break (so nothing more is written to the message before). -/
def Starts : List Op → Prop
  | [] => True
  | .next _ :: _ => True
  | .yield :: _ => True
  | .write _ :: _ => False

theorem compileAux_starts (ops : List Op) (h : Starts ops) : (compileAux ops).1 = [] := by
  cases ops with
  | nil => rfl
  | cons o r =>
    cases o with
    | next k => simp [compileAux]
    | yield => simp [compileAux]
    | write b => exact absurd h (by simp [Starts])

theorem compile_msg (k v : Bytes) (rest : List Op) (h : Starts rest) :
    compile (.next k :: .write v :: rest) = .msg k v :: compile rest := by
  unfold compile
  simp [compileAux, compileAux_starts rest h]

theorem compile_yield (rest : List Op) : compile (.yield :: rest) = .yield :: compile rest := by
  unfold compile; simp [compileAux]

/-- What `emit` appends starts with a break or a new message. -/
theorem emit_starts (F : Fixes) (B left : Nat) (k v : Bytes) (l : Nat) (o : List Op) (tail : List Op)
    (h : emit F B left k v = some (l, o)) : Starts (o ++ tail) := by
  unfold emit at h
  split at h
  · split at h
    · cases h
    · split at h <;> (simp at h; obtain ⟨_, rfl⟩ := h; simp [Starts])
  · simp at h; obtain ⟨_, rfl⟩ := h; simp [Starts]

theorem emitAll_cons (F : Fixes) (B left : Nat) (k v : Bytes) (r : List (Bytes × Bytes)) (l : Nat) (o : List Op)
    (h : emitAll F B left ((k, v) :: r) = some (l, o)) :
    ∃ l1 o1 o2, emit F B left k v = some (l1, o1) ∧ emitAll F B l1 r = some (l, o2) ∧ o = o1 ++ o2 := by
  unfold emitAll at h
  cases he : emit F B left k v with
  | none => rw [he] at h; cases h
  | some p =>
    obtain ⟨l1, o1⟩ := p
    rw [he] at h
    simp only at h
    cases hr : emitAll F B l1 r with
    | none => rw [hr] at h; cases h
    | some q =>
      obtain ⟨l2, o2⟩ := q
      rw [hr] at h
      simp only [Option.some.injEq, Prod.mk.injEq] at h
      exact ⟨l1, o1, o2, rfl, by rw [hr, h.1], h.2.symm⟩

theorem emitAll_starts (F : Fixes) (B : Nat) (msgs : List (Bytes × Bytes)) :
    ∀ left l o tail, emitAll F B left msgs = some (l, o) → Starts tail → Starts (o ++ tail) := by
  induction msgs with
  | nil => intro left l o tail h ht; simp [emitAll] at h; obtain ⟨_, rfl⟩ := h; simpa using ht
  | cons m r ih =>
    intro left l o tail h ht
    obtain ⟨k, v⟩ := m
    obtain ⟨l1, o1, o2, he, _, rfl⟩ := emitAll_cons F B left k v r l o h
    rw [List.append_assoc]
    exact emit_starts F B left k v l1 o1 _ he

def kvOf (m : Bytes × Bytes) : KV := ⟨m.1, m.2⟩

/-- The repaired writer: the script it produces is one the packer never splits, and its messages
are exactly the devmod messages. -/
theorem emitAll_fit (F : Fixes) (hF : F.devmodWhole = true) (B : Nat) (msgs : List (Bytes × Bytes)) :
    ∀ left l o tail, emitAll F B left msgs = some (l, o) → left ≤ B →
      (∀ m ∈ msgs, m.2 ≠ [] ∧ m.1 ≠ [] ∧ rawKeyLen m.1 ≤ 65535) →
      Starts tail → FitQ B l (compile tail) →
      l ≤ B ∧ FitQ B left (compile (o ++ tail)) ∧ kvsOf (compile (o ++ tail)) = msgs.map kvOf ++ kvsOf (compile tail) := by
  induction msgs with
  | nil =>
    intro left l o tail h hle _ _ hft
    simp [emitAll] at h; obtain ⟨rfl, rfl⟩ := h
    exact ⟨hle, by simpa using hft, by simp⟩
  | cons m r ih =>
    intro left l o tail h hle hm ht hft
    obtain ⟨k, v⟩ := m
    have hkv := hm (k, v) (List.mem_cons_self ..)
    simp only at hkv
    obtain ⟨l1, o1, o2, he, hr, rfl⟩ := emitAll_cons F B left k v r l o h
    have hst2 : Starts (o2 ++ tail) := emitAll_starts F B r l1 l o2 tail hr ht
    unfold emit at he
    rw [if_pos hF] at he
    by_cases hbig : kvSize ⟨k, v⟩ > B
    · rw [if_pos hbig] at he; cases he
    · rw [if_neg hbig] at he
      by_cases hleft : kvSize ⟨k, v⟩ > left
      · rw [if_pos hleft] at he
        simp only [Option.some.injEq, Prod.mk.injEq] at he
        obtain ⟨rfl, rfl⟩ := he
        have := ih (B - kvSize ⟨k, v⟩) l o2 tail hr (by omega)
          (fun x hx => hm x (List.mem_cons_of_mem _ hx)) ht hft
        refine ⟨this.1, ?_, ?_⟩
        · simp only [List.cons_append, List.nil_append, List.append_assoc]
          rw [compile_yield, compile_msg k v _ hst2]
          exact ⟨hkv.1, hkv.2.1, hkv.2.2, by omega, this.2.1⟩
        · simp only [List.cons_append, List.nil_append, List.append_assoc]
          rw [compile_yield, compile_msg k v _ hst2]
          simp [kvsOf, curKVs, hkv.1, this.2.2, kvOf]
      · rw [if_neg hleft] at he
        simp only [Option.some.injEq, Prod.mk.injEq] at he
        obtain ⟨rfl, rfl⟩ := he
        have := ih (left - kvSize ⟨k, v⟩) l o2 tail hr (by omega)
          (fun x hx => hm x (List.mem_cons_of_mem _ hx)) ht hft
        refine ⟨this.1, ?_, ?_⟩
        · simp only [List.cons_append, List.nil_append, List.append_assoc]
          rw [compile_msg k v _ hst2]
          exact ⟨hkv.1, hkv.2.1, hkv.2.2, by omega, this.2.1⟩
        · simp only [List.cons_append, List.nil_append, List.append_assoc]
          rw [compile_msg k v _ hst2]
          simp [kvsOf, curKVs, hkv.1, this.2.2, kvOf]

/-! ### the owner's devmod module on reassembled messages -/

def Out.bind {α β : Type} : Out α → (α → Out β) → Out β
  | .ok a, f => f a
  | .reject, _ => .reject
  | .panic s, _ => .panic s

theorem Out.bind_assoc {α β γ : Type} (x : Out α) (f : α → Out β) (g : β → Out γ) :
    (x.bind f).bind g = x.bind (fun a => (f a).bind g) := by
  cases x <;> rfl

theorem Out.bind_ok {α : Type} (x : Out α) : x.bind Out.ok = x := by cases x <;> rfl

theorem dmHandleAll_cons (F : Fixes) (d : DmState) (k b : Bytes) (r : List (Bytes × Bytes)) :
    dmHandleAll F d ((k, b) :: r) = (dmHandle F d (cutKey k).2 b).bind (fun d' => dmHandleAll F d' r) := by
  simp only [dmHandleAll]
  cases dmHandle F d (cutKey k).2 b <;> rfl

theorem dmHandleAll_append (F : Fixes) (a b : List (Bytes × Bytes)) : ∀ d,
    dmHandleAll F d (a ++ b) = (dmHandleAll F d a).bind (fun d' => dmHandleAll F d' b) := by
  induction a with
  | nil => intro d; rfl
  | cons m r ih =>
    intro d
    obtain ⟨k, v⟩ := m
    simp only [List.cons_append, dmHandleAll_cons, Out.bind_assoc]
    congr 1
    funext d'
    exact ih d'

theorem applyAll_append (F : Fixes) (a b : List (Nat × List Bytes)) : ∀ m,
    applyAll F m (a ++ b) = (applyAll F m a).bind (fun m' => applyAll F m' b) := by
  induction a with
  | nil => intro m; rfl
  | cons c r ih =>
    intro m
    simp only [List.cons_append, applyAll]
    cases applyChunk F m (Int.ofNat c.1) (Int.ofNat c.2.length) c.2 with
    | ok m' => exact ih m'
    | reject => rfl
    | panic s => rfl

theorem applyChunk_nil (F : Fixes) (s l : Int) (ns m : List Bytes) (h : applyChunk F [] s l ns = .ok m) : m = [] := by
  unfold applyChunk at h
  split at h
  · cases h
  · split at h
    · cases h
    · split at h
      · split at h <;> cases h
      · rename_i h1 _ h3
        simp only [List.length_nil, Nat.not_lt, Nat.le_zero_eq] at h3
        have : ns = [] := by
          cases ns with
          | nil => rfl
          | cons a t => simp at h3
        subst this
        simp at h
        exact h

theorem applyAll_nil (F : Fixes) (cs : List (Nat × List Bytes)) : ∀ m, applyAll F [] cs = .ok m → m = [] := by
  induction cs with
  | nil => intro m h; simp [applyAll] at h; exact h
  | cons c r ih =>
    intro m h
    simp only [applyAll] at h
    cases hc : applyChunk F [] (Int.ofNat c.1) (Int.ofNat c.2.length) c.2 with
    | ok m' =>
      rw [hc] at h
      have := applyChunk_nil F _ _ _ _ hc
      subst this
      exact ih m h
    | reject => rw [hc] at h; cases h
    | panic s => rw [hc] at h; cases h

/-- The body of a `devmod:modules` message: whole chunks the library can decode. -/
def IsEncs (v : Bytes) : Prop := ∃ cs, v = encs cs ∧ ∀ c ∈ cs, ChunkWF c

theorem encs_append (a b : List (Nat × List Bytes)) : encs (a ++ b) = encs a ++ encs b := by
  induction a with
  | nil => rfl
  | cons c r ih => simp [encs, ih]

theorem IsEncs.append {a b : Bytes} (ha : IsEncs a) (hb : IsEncs b) : IsEncs (a ++ b) := by
  obtain ⟨ca, rfl, ha⟩ := ha
  obtain ⟨cb, rfl, hb⟩ := hb
  refine ⟨ca ++ cb, (encs_append ca cb).symm, ?_⟩
  intro c hc
  rcases List.mem_append.1 hc with h | h
  · exact ha c h
  · exact hb c h

theorem dmHandle_modules (F : Fixes) (d : DmState) (cs : List (Nat × List Bytes)) (hwf : ∀ c ∈ cs, ChunkWF c) :
    dmHandle F d nModules (encs cs) =
      (applyAll F (d.mods.getD []) cs).bind (fun l =>
        .ok { d with mods := if d.mods = none ∧ l = [] then none else some l }) := by
  unfold dmHandle
  rw [if_neg (by decide), if_neg (by decide), if_pos rfl]
  rw [parseModules_encs F cs _ _ hwf (by omega)]
  cases applyAll F (d.mods.getD []) cs <;> rfl

/-- Two consecutive `devmod:modules` KVs that arrive as one message are handled like two messages. -/
theorem modules_split (F : Fixes) (d : DmState) (a b : Bytes) (ha : IsEncs a) (hb : IsEncs b) :
    dmHandle F d nModules (a ++ b) = (dmHandle F d nModules a).bind (fun d' => dmHandle F d' nModules b) := by
  obtain ⟨ca, rfl, ha⟩ := ha
  obtain ⟨cb, rfl, hb⟩ := hb
  have hab : ∀ c ∈ ca ++ cb, ChunkWF c := by
    intro c hc
    rcases List.mem_append.1 hc with h | h
    · exact ha c h
    · exact hb c h
  rw [← encs_append, dmHandle_modules F d _ hab, dmHandle_modules F d _ ha, applyAll_append]
  cases h1 : applyAll F (d.mods.getD []) ca with
  | reject => rfl
  | panic s => rfl
  | ok l1 =>
    simp only [Out.bind]
    rw [dmHandle_modules F _ _ hb]
    have hg : (if d.mods = none ∧ l1 = [] then none else some l1 : Option (List Bytes)).getD [] = l1 := by
      split
      · rename_i h; simp [h.2]
      · rfl
    simp only [hg]
    cases h2 : applyAll F l1 cb with
    | reject => rfl
    | panic s => rfl
    | ok l2 =>
      simp only [Out.bind]
      congr 2
      by_cases hn : d.mods = none
      · have hl1 : l1 = [] := by
          rw [hn] at h1
          exact applyAll_nil F ca l1 h1
        simp [hn, hl1]
      · simp [hn]

def KOk (c : KV) : Prop := c.key ≠ [] ∧ (c.key = modulesKey → IsEncs c.val)

/-- Adjacent KVs with one key are module-list chunks: everything else is a message of its own. -/
def Adj : List KV → Prop
  | [] => True
  | [c] => KOk c
  | c :: d :: r => KOk c ∧ (c.key = d.key → c.key = modulesKey) ∧ Adj (d :: r)

theorem Adj.tail {c : KV} {r : List KV} (h : Adj (c :: r)) : Adj r := by
  cases r with
  | nil => trivial
  | cons d r => exact h.2.2

theorem Adj.head {c : KV} {r : List KV} (h : Adj (c :: r)) : KOk c := by
  cases r with
  | nil => exact h
  | cons d r => exact h.1

theorem cutKey_modulesKey : (cutKey modulesKey).2 = nModules := by decide

theorem handle_run (F : Fixes) : ∀ (g : List KV) (key body : Bytes) (dm : DmState),
    Adj g → (∀ c, g.head? = some c → c.key = key → key = modulesKey) → (key = modulesKey → IsEncs body) →
    dmHandleAll F dm ((key, body ++ (reasm key g).1) :: (reasm key g).2) =
      (dmHandle F dm (cutKey key).2 body).bind (fun d => dmHandleAll F d (pairs g)) := by
  intro g
  induction g with
  | nil =>
    intro key body dm _ _ _
    simp only [reasm, List.append_nil, pairs, List.map_nil, dmHandleAll]
    cases dmHandle F dm (cutKey key).2 body <;> rfl
  | cons c r ih =>
    intro key body dm hadj hhead hbody
    by_cases hk : c.key = key
    · have hmk : key = modulesKey := hhead c rfl hk
      have hcv : IsEncs c.val := hadj.head.2 (by rw [hk, hmk])
      have hb := hbody hmk
      simp only [reasm, if_pos hk]
      rw [← List.append_assoc]
      rw [ih key (body ++ c.val) dm hadj.tail (fun _ _ _ => hmk) (fun _ => hb.append hcv)]
      simp only [pairs, List.map_cons, dmHandleAll_cons]
      rw [hk, hmk, cutKey_modulesKey, modules_split F dm body c.val hb hcv, Out.bind_assoc]
    · simp only [reasm, if_neg hk, List.append_nil]
      rw [dmHandleAll_cons]
      congr 1
      funext d
      rw [ih c.key c.val d hadj.tail ?_ hadj.head.2]
      · simp only [pairs, List.map_cons, dmHandleAll_cons]
      · intro d' hd' hkk
        cases r with
        | nil => simp at hd'
        | cons e t =>
          simp at hd'
          subst hd'
          exact hadj.2.1 hkk.symm

/-- THE OWNER SEES WHOLE MESSAGES: handling the reassembled messages of a 68 whose KVs are whole
devmod messages is handling these KVs one after another. -/
theorem handle_merged (F : Fixes) (g : List KV) (dm : DmState) (hadj : Adj g) :
    dmHandleAll F dm (reasm [] g).2 = dmHandleAll F dm (pairs g) := by
  cases g with
  | nil => rfl
  | cons c r =>
    have hc := hadj.head
    simp only [reasm, if_neg hc.1]
    rw [handle_run F r c.key c.val dm hadj.tail ?_ hc.2]
    · simp only [pairs, List.map_cons, dmHandleAll_cons]
    · intro d hd hkk
      cases r with
      | nil => simp at hd
      | cons e t =>
        simp at hd
        subst hd
        exact hadj.2.1 hkk.symm

/-! ### the session store loses the difference between nil and empty: a simulation -/

/-- Two devmod states that differ at most in `Modules` being nil or empty. -/
def Sim (d d' : DmState) : Prop :=
  d.fields = d'.fields ∧ d.complete = d'.complete ∧ d.mods.getD [] = d'.mods.getD []

def OutSim : Out DmState → Out DmState → Prop
  | .ok a, .ok b => Sim a b
  | .reject, .reject => True
  | .panic s, .panic t => s = t
  | _, _ => False

theorem Sim.refl (d : DmState) : Sim d d := ⟨rfl, rfl, rfl⟩

theorem persist_sim (d : DmState) : Sim (persist d) d := by
  refine ⟨rfl, rfl, ?_⟩
  unfold persist
  cases d.mods <;> rfl

theorem Sim.trans {a b c : DmState} (h1 : Sim a b) (h2 : Sim b c) : Sim a c :=
  ⟨h1.1.trans h2.1, h1.2.1.trans h2.2.1, h1.2.2.trans h2.2.2⟩

theorem getD_ite (c : Prop) [Decidable c] (l : List Bytes) (h : c → l = []) :
    (if c then none else some l : Option (List Bytes)).getD [] = l := by
  split
  · rename_i hc; simp [h hc]
  · rfl

theorem dmHandle_sim (F : Fixes) (d d' : DmState) (n b : Bytes) (h : Sim d d') :
    OutSim (dmHandle F d n b) (dmHandle F d' n b) := by
  unfold dmHandle
  by_cases h1 : n = nActive
  · simp only [if_pos h1]
    split
    · split
      · exact h
      · trivial
    · trivial
  · simp only [if_neg h1]
    by_cases h2 : n = nNum
    · simp only [if_pos h2]
      cases (unmarshalRaw b).bind asInt with
      | none => trivial
      | some k =>
        simp only
        cases handleNum F k with
        | ok l => exact ⟨h.1, h.2.1, rfl⟩
        | reject => trivial
        | panic s => rfl
    · simp only [if_neg h2]
      by_cases h3 : n = nModules
      · simp only [if_pos h3]
        rw [h.2.2]
        cases parseModules F (b.length + 1) (d'.mods.getD []) b with
        | ok l =>
          refine ⟨h.1, h.2.1, ?_⟩
          simp only
          rw [getD_ite _ l (fun hc => hc.2), getD_ite _ l (fun hc => hc.2)]
        | reject => trivial
        | panic s => rfl
      · simp only [if_neg h3]
        cases fieldTable.lookup n with
        | none => trivial
        | some p =>
          simp only
          cases unmarshalRaw b with
          | none => trivial
          | some x =>
            cases x <;> simp only <;> try trivial
            all_goals (split <;> first | trivial | exact ⟨by simp [h.1], h.2.1, h.2.2⟩)

theorem dmHandleAll_sim (F : Fixes) (ms : List (Bytes × Bytes)) : ∀ d d', Sim d d' →
    OutSim (dmHandleAll F d ms) (dmHandleAll F d' ms) := by
  induction ms with
  | nil => intro d d' h; exact h
  | cons m r ih =>
    intro d d' h
    obtain ⟨k, v⟩ := m
    have := dmHandle_sim F d d' (cutKey k).2 v h
    simp only [dmHandleAll]
    cases h1 : dmHandle F d (cutKey k).2 v <;> cases h2 : dmHandle F d' (cutKey k).2 v <;>
      rw [h1, h2] at this <;> simp only [OutSim] at this ⊢
    · exact ih _ _ this
    all_goals first | exact this | exact absurd this id | trivial

/-! ### the devmod messages handled one after another -/

theorem cutKey_mkKey (m n : Bytes) (h : colon ∉ m) : cutKey (mkKey m n) = (m, n) := by
  induction m with
  | nil => simp [mkKey, cutKey]
  | cons b r ih =>
    have hb : b ≠ colon := fun e => h (e ▸ List.mem_cons_self ..)
    have hr : colon ∉ r := fun e => h (List.mem_cons_of_mem _ e)
    have := ih hr
    unfold mkKey at this ⊢
    simp only [List.cons_append, cutKey, if_neg hb, this]

theorem cutKey_devmod (n : Bytes) : cutKey (mkKey nDevmod n) = (nDevmod, n) :=
  cutKey_mkKey nDevmod n (by decide)

theorem unmarshalRaw_encode (x : Item) (hx : x.WF) (hs : x.size ≤ 2 * (encode x).length + 1)
    (hd : x.depth ≤ maxDepth) : unmarshalRaw (encode x) = some x := by
  unfold unmarshalRaw decode1
  have := Cbor.decode_encode x hx [] (2 * (encode x).length + 1) maxDepth hs hd
  rw [List.append_nil] at this
  rw [this]

theorem unmarshalRaw_tstr (v : Bytes) (h : v.length < maxLen) : unmarshalRaw (encode (.tstr v)) = some (.tstr v) :=
  unmarshalRaw_encode _ h (by simp [Item.size]) (by simp [Item.depth])

theorem unmarshalRaw_bstr (v : Bytes) (h : v.length < maxLen) : unmarshalRaw (encode (.bstr v)) = some (.bstr v) :=
  unmarshalRaw_encode _ h (by simp [Item.size]) (by simp [Item.depth])

theorem unmarshalRaw_uint (n : Nat) (h : n < 18446744073709551616) : unmarshalRaw (encode (.uint n)) = some (.uint n) :=
  unmarshalRaw_encode _ h (by simp [Item.size]) (by simp [Item.depth])

theorem dmHandle_active (F : Fixes) (d : DmState) : dmHandle F d nActive cbTrue = .ok d := by
  unfold dmHandle
  rw [if_pos rfl]
  have : unmarshalRaw cbTrue = some (.simple 21) := by
    simp [unmarshalRaw, decode1, decode, decHead, cbTrue, maxDepth]
  rw [this]; simp

/-- A descriptor field as the device describes it: a name of the table with the right kind of value. -/
def FieldOk (f : Field) : Prop :=
  (∃ req, fieldTable.lookup f.name = some (f.bin, req)) ∧ f.val.length < maxLen

theorem dmHandle_field (F : Fixes) (d : DmState) (f : Field) (hf : FieldOk f) :
    dmHandle F d f.name f.enc = .ok { d with fields := setField d.fields f.name f.val } := by
  obtain ⟨⟨req, hl⟩, hlen⟩ := hf
  have h1 : f.name ≠ nActive := by
    intro e
    have h0 : fieldTable.lookup nActive = none := by decide
    rw [e, h0] at hl; cases hl
  have h2 : f.name ≠ nNum := by
    intro e
    have h0 : fieldTable.lookup nNum = none := by decide
    rw [e, h0] at hl; cases hl
  have h3 : f.name ≠ nModules := by
    intro e
    have h0 : fieldTable.lookup nModules = none := by decide
    rw [e, h0] at hl; cases hl
  unfold dmHandle Field.enc
  rw [if_neg h1, if_neg h2, if_neg h3, hl]
  simp only
  cases hb : f.bin with
  | true => simp [unmarshalRaw_bstr f.val hlen]
  | false => simp [unmarshalRaw_tstr f.val hlen]

theorem dmHandle_num (d : DmState) (n : Nat) (h : n ≤ maxModules) :
    dmHandle .repaired d nNum (encode (.uint n)) = .ok { d with mods := some (List.replicate n []) } := by
  unfold maxModules at h
  unfold dmHandle
  rw [if_neg (by decide), if_pos rfl, unmarshalRaw_uint n (by omega)]
  have : asInt (.uint n) = some (Int.ofNat n) := by
    simp only [asInt]; rw [if_pos (by omega)]
  simp only [Option.bind_some, this]
  unfold handleNum
  simp only [Fixes.repaired, if_true]
  rw [if_neg (by unfold maxModules; simp only [Int.ofNat_eq_natCast]; omega)]
  simp

def fieldMsgs (fs : List Field) : List (Bytes × Bytes) := fs.map fun f => (mkKey nDevmod f.name, f.enc)

def setAll (init : List (Bytes × Bytes)) (fs : List Field) : List (Bytes × Bytes) :=
  fs.foldl (fun acc f => setField acc f.name f.val) init

theorem seq_fields (F : Fixes) (fs : List Field) : ∀ d, (∀ f ∈ fs, FieldOk f) →
    dmHandleAll F d (fieldMsgs fs) = .ok { d with fields := setAll d.fields fs } := by
  induction fs with
  | nil => intro d _; rfl
  | cons f r ih =>
    intro d h
    simp only [fieldMsgs, List.map_cons, dmHandleAll_cons, cutKey_devmod]
    rw [dmHandle_field F d f (h f (List.mem_cons_self ..))]
    simp only [Out.bind]
    have := ih { d with fields := setField d.fields f.name f.val } (fun x hx => h x (List.mem_cons_of_mem _ hx))
    simp only [fieldMsgs] at this
    rw [this]
    rfl

def chunkMsgs (cs : List (Nat × List Bytes)) : List (Bytes × Bytes) := cs.map fun c => (modulesKey, chunkEnc c.1 c.2)

theorem encs_single (c : Nat × List Bytes) : encs [c] = chunkEnc c.1 c.2 := by simp [encs]

theorem seq_chunks (F : Fixes) (cs : List (Nat × List Bytes)) : ∀ (d : DmState) (pre : List Bytes),
    (∀ c ∈ cs, ChunkWF c) → (∀ m ∈ pre, m ≠ []) → (∀ m ∈ catNames cs, m ≠ []) → StartsOK pre.length cs →
    d.mods = some (pre ++ List.replicate (catNames cs).length []) →
    dmHandleAll F d (chunkMsgs cs) = .ok { d with mods := some (pre ++ catNames cs) } := by
  induction cs with
  | nil =>
    intro d pre _ _ _ _ hm
    simp only [catNames, List.length_nil, List.replicate_zero] at hm ⊢
    simp only [chunkMsgs, List.map_nil, dmHandleAll]
    rw [← hm]
  | cons c r ih =>
    intro d pre hwf hpre hn hs hm
    obtain ⟨s, ns⟩ := c
    simp only [StartsOK] at hs
    obtain ⟨rfl, hs⟩ := hs
    simp only [catNames] at hn hm ⊢
    have hns : ∀ m ∈ ns, m ≠ [] := fun m hm => hn m (List.mem_append_left _ hm)
    have hr : ∀ m ∈ catNames r, m ≠ [] := fun m hm => hn m (List.mem_append_right _ hm)
    simp only [chunkMsgs, List.map_cons, dmHandleAll_cons, cutKey_modulesKey]
    rw [← encs_single (pre.length, ns), dmHandle_modules F d [(pre.length, ns)]
      (fun c hc => hwf c (by simp at hc; subst hc; exact List.mem_cons_self ..))]
    rw [hm]
    simp only [Option.getD_some, applyAll, List.length_append]
    rw [applyChunk_fill F pre ns _ hpre hns]
    simp only [Out.bind]
    have hpre' : ∀ m ∈ pre ++ ns, m ≠ [] := by
      intro m hm
      rcases List.mem_append.1 hm with h | h
      · exact hpre m h
      · exact hns m h
    have := ih { d with mods := some ((pre ++ ns) ++ List.replicate (catNames r).length []) } (pre ++ ns)
      (fun x hx => hwf x (List.mem_cons_of_mem _ hx)) hpre' hr (by simpa using hs) rfl
    simp only [chunkMsgs] at this
    simp only [reduceCtorEq, false_and, if_false]
    rw [this, List.append_assoc]

/-! ### the owner over the 68 messages of the devmod round -/

/-- `ownerServiceInfo` over a sequence of TO2.DeviceServiceInfo messages (the answers are dropped). -/
def ownFold (o : Own) : List Batch → Out Own
  | [] => .ok o
  | b :: r =>
    match ownStep o b with
    | .ok p => ownFold p.1 r
    | .reject => .reject
    | .panic s => .panic s

theorem reassembleF_ok (F : Fixes) (g : List KV) (h : Adj g) : reassembleF F g = .ok (reasm [] g).2 := by
  cases g with
  | nil => rfl
  | cons c r => simp [reassembleF, h.head.1]

theorem flatten_adj (bs : List Batch) : Adj (flatten bs) → ∀ b ∈ bs, Adj b.kvs := by
  have app : ∀ (a b : List KV), Adj (a ++ b) → Adj a ∧ Adj b := by
    intro a
    induction a with
    | nil => intro b h; exact ⟨trivial, h⟩
    | cons c r ih =>
      intro b h
      have ht := ih b h.tail
      refine ⟨?_, ht.2⟩
      cases r with
      | nil => exact h.head
      | cons d t => exact ⟨h.head, h.2.1, ht.1⟩
  induction bs with
  | nil => intro _ b hb; cases hb
  | cons b r ih =>
    intro h x hx
    rw [flatten_cons] at h
    have := app _ _ h
    rcases List.mem_cons.1 hx with rfl | hx
    · exact this.1
    · exact ih this.2 x hx

theorem pairs_append (a b : List KV) : pairs (a ++ b) = pairs a ++ pairs b := by simp [pairs]

/-- THE OWNER GETS DEVMOD, on the owner's side: if the 68 messages of the round carry whole devmod
messages (`Adj`), only the last one without IsMoreServiceInfo, and handling these messages one after
another gives `dfin` with all required fields and a full module list, then after the last 68 the
session holds exactly `dfin`, marked complete, and the first owner module is selected. -/
theorem devmod_fold (bs : List Batch) : ∀ (o : Own) (d dfin : DmState) (names : List Bytes),
    o.stage = .devmod → LastOnly bs → Adj (flatten bs) → Sim o.dm d →
    dmHandleAll o.F d (pairs (flatten bs)) = .ok dfin →
    dfin.mods = some names → names ≠ [] → (∀ m ∈ names, m ≠ []) →
    requiredNames.all (fun r => dfin.get r ≠ []) = true →
    ∃ o', ownFold o bs = .ok o' ∧ o'.dm.complete = true ∧ o'.dm.fields = dfin.fields ∧
      o'.dm.mods = some names ∧ o'.stage ≠ .devmod ∧ o'.log = o.log := by
  induction bs with
  | nil => intro o d dfin names _ hl; exact absurd hl (by simp [LastOnly])
  | cons b r ih =>
    intro o d dfin names hst hlast hadj hsim hseq hmods hne hnn hreq
    have hb : Adj b.kvs := flatten_adj (b :: r) hadj b (List.mem_cons_self ..)
    rw [flatten_cons, pairs_append, dmHandleAll_append] at hseq
    have hs1 := dmHandleAll_sim o.F (pairs b.kvs) o.dm d hsim
    cases hd1 : dmHandleAll o.F d (pairs b.kvs) with
    | reject => rw [hd1] at hseq; cases hseq
    | panic s => rw [hd1] at hseq; cases hseq
    | ok d1 =>
      rw [hd1] at hseq hs1
      simp only [Out.bind] at hseq
      cases ho1 : dmHandleAll o.F o.dm (pairs b.kvs) with
      | reject => rw [ho1] at hs1; exact absurd hs1 id
      | panic s => rw [ho1] at hs1; exact absurd hs1 id
      | ok dm1 =>
        rw [ho1] at hs1
        have hs1 : Sim dm1 d1 := hs1
        have hmerged : dmHandleAll o.F o.dm (reasm [] b.kvs).2 = .ok dm1 := by
          rw [handle_merged o.F b.kvs o.dm hb, ho1]
        cases r with
        | nil =>
          -- the last message: ProduceInfo of the devmod module
          have hmore : b.more = false := hlast
          simp only [flatten, pairs, List.map_nil, dmHandleAll, Out.ok.injEq] at hseq
          subst hseq
          have hm1 : dm1.mods = some names := by
            have h2 := hs1.2.2
            rw [hmods] at h2
            simp only [Option.getD_some] at h2
            cases hmm : dm1.mods with
            | none => rw [hmm] at h2; simp at h2; exact absurd h2 hne
            | some l => rw [hmm] at h2; simp at h2; rw [h2]
          have hprod : dmProduce dm1 = .ok true := by
            unfold dmProduce
            rw [hm1]
            simp only
            rw [any_empty_false names hnn]
            simp only [Bool.false_eq_true, if_false]
            have : requiredNames.all (fun r => dm1.get r ≠ []) = true := by
              have hg : ∀ r, dm1.get r = d1.get r := fun r => by unfold DmState.get; rw [hs1.1]
              simpa [hg] using hreq
            rw [if_pos this]
          let ms := if o.filter then o.mods.filter (fun m => (dm1.mods.getD []).contains m.name) else o.mods
          refine ⟨{ o with dm := { dm1 with complete := true }, mods := ms,
                           stage := if ms = [] then .finished else .running }, ?_, rfl, hs1.1, hm1, ?_, rfl⟩
          · simp only [ownFold, ownStep, reassembleF_ok o.F b.kvs hb, hst, hmerged, hmore, hprod]
            rfl
          · simp only
            split <;> simp
        | cons c t =>
          have hmore : b.more = true := hlast.1
          have hstep : ownStep o b = .ok ({ o with dm := persist dm1 }, Reply.empty) := by
            simp only [ownStep, reassembleF_ok o.F b.kvs hb, hst, hmerged, hmore, if_true]
          simp only [ownFold, hstep]
          have := ih { o with dm := persist dm1 } d1 dfin names hst hlast.2
            (by rw [flatten_cons] at hadj
                have app : ∀ (a b : List KV), Adj (a ++ b) → Adj b := by
                  intro a
                  induction a with
                  | nil => intro b h; exact h
                  | cons x xs ih2 => intro b h; exact ih2 b h.tail
                exact app _ _ hadj)
            ((persist_sim dm1).trans hs1) hseq hmods hne hnn hreq
          exact this

/-! ### from the device configuration to the hypotheses of `devmod_fold` -/

/-- Pairwise different (own definition: only `∉` is needed). -/
def NoDup : List Bytes → Prop
  | [] => True
  | a :: r => a ∉ r ∧ NoDup r

theorem NoDup.filter (p : Bytes → Bool) : ∀ l, NoDup l → NoDup (l.filter p) := by
  intro l
  induction l with
  | nil => intro _; trivial
  | cons a r ih =>
    intro h
    simp only [List.filter]
    split
    · exact ⟨fun hm => h.1 (List.mem_filter.1 hm).1, ih h.2⟩
    · exact ih h.2

theorem lookup_filter_ne (fs : List (Bytes × Bytes)) (n m : Bytes) (h : n ≠ m) :
    (fs.filter (·.1 ≠ m)).lookup n = fs.lookup n := by
  induction fs with
  | nil => rfl
  | cons p r ih =>
    obtain ⟨k, v⟩ := p
    by_cases hk : k = m
    · have hd : decide ((k, v).1 ≠ m) = false := by simp [hk]
      have hnk : (n == k) = false := by rw [hk]; simpa using h
      rw [List.filter_cons_of_neg (by simp [hk])]
      simp only [List.lookup, hnk]
      exact ih
    · rw [List.filter_cons_of_pos (by simp [hk])]
      simp only [List.lookup]
      cases hnk : (n == k) with
      | true => rfl
      | false => exact ih

theorem lookup_setField_same (fs : List (Bytes × Bytes)) (n v : Bytes) : (setField fs n v).lookup n = some v := by
  simp [setField, List.lookup]

theorem lookup_setField_ne (fs : List (Bytes × Bytes)) (n m v : Bytes) (h : n ≠ m) :
    (setField fs m v).lookup n = fs.lookup n := by
  have : (n == m) = false := by simpa using h
  simp only [setField, List.lookup, this]
  exact lookup_filter_ne fs n m h

theorem lookup_setAll_notin (fs : List Field) : ∀ init n, n ∉ fs.map (·.name) →
    (setAll init fs).lookup n = init.lookup n := by
  induction fs with
  | nil => intro init n _; rfl
  | cons f r ih =>
    intro init n hn
    simp only [List.map_cons, List.mem_cons, not_or] at hn
    simp only [setAll, List.foldl_cons]
    have := ih (setField init f.name f.val) n hn.2
    simp only [setAll] at this
    rw [this, lookup_setField_ne _ _ _ _ hn.1]

theorem lookup_setAll (fs : List Field) : ∀ init, NoDup (fs.map (·.name)) → ∀ f ∈ fs,
    (setAll init fs).lookup f.name = some f.val := by
  induction fs with
  | nil => intro _ _ f hf; cases hf
  | cons g r ih =>
    intro init hnd f hf
    simp only [List.map_cons, NoDup] at hnd
    simp only [setAll, List.foldl_cons]
    rcases List.mem_cons.1 hf with rfl | hf
    · have := lookup_setAll_notin r (setField init f.name f.val) f.name hnd.1
      simp only [setAll] at this
      rw [this, lookup_setField_same]
    · have := ih (setField init g.name g.val) hnd.2 f hf
      simpa [setAll] using this

theorem encHead_ne (mt n : Nat) : encHead mt n ≠ [] := by
  intro h
  have := encHead_pos mt n
  rw [h] at this
  simp at this

theorem field_enc_ne (f : Field) : f.enc ≠ [] := by
  unfold Field.enc
  split <;> simp [encode, encHead_ne]

theorem chunkEnc_ne (s : Nat) (ns : List Bytes) : chunkEnc s ns ≠ [] := by
  unfold chunkEnc chunkItem
  simp [encode, encHead_ne]

theorem mkKey_ne (m n : Bytes) (h : m ≠ []) : mkKey m n ≠ [] := by
  unfold mkKey
  cases m with
  | nil => exact absurd rfl h
  | cons a r => simp

theorem mkKey_inj (m a b : Bytes) (h : mkKey m a = mkKey m b) : a = b := by
  unfold mkKey at h
  have := List.append_cancel_left h
  simpa using this

theorem rawKeyLen_short (k : Bytes) (h : k.length ≤ 60000) : rawKeyLen k ≤ 65535 := by
  rw [rawKeyLen_eq]; repeat' split
  all_goals omega

theorem mkKey_length (m n : Bytes) : (mkKey m n).length = m.length + 1 + n.length := by
  unfold mkKey; simp; omega

theorem table_name_short : ∀ p ∈ fieldTable, p.1.length ≤ 7 := by decide

theorem lookup_mem {β : Type} (l : List (Bytes × β)) (n : Bytes) (v : β) (h : l.lookup n = some v) : (n, v) ∈ l := by
  induction l with
  | nil => cases h
  | cons p r ih =>
    obtain ⟨k, w⟩ := p
    by_cases hk : n = k
    · subst hk
      simp [List.lookup] at h
      subst h
      exact List.mem_cons_self ..
    · have : (n == k) = false := by simpa using hk
      simp only [List.lookup, this] at h
      exact List.mem_cons_of_mem _ (ih h)

theorem fieldOk_short (f : Field) (h : FieldOk f) : f.name.length ≤ 7 := by
  obtain ⟨⟨req, hl⟩, _⟩ := h
  exact table_name_short _ (lookup_mem _ _ _ hl)

theorem fieldOk_special (f : Field) (h : FieldOk f) : f.name ≠ nActive ∧ f.name ≠ nNum ∧ f.name ≠ nModules := by
  obtain ⟨⟨req, hl⟩, _⟩ := h
  refine ⟨?_, ?_, ?_⟩
  · intro e
    have h0 : fieldTable.lookup nActive = none := by decide
    rw [e, h0] at hl; cases hl
  · intro e
    have h0 : fieldTable.lookup nNum = none := by decide
    rw [e, h0] at hl; cases hl
  · intro e
    have h0 : fieldTable.lookup nModules = none := by decide
    rw [e, h0] at hl; cases hl

theorem pairs_kvOf (ms : List (Bytes × Bytes)) : pairs (ms.map kvOf) = ms := by
  induction ms with
  | nil => rfl
  | cons m r ih => simp only [List.map_cons, pairs] at ih ⊢; rw [ih]; rfl

/-- KVs with pairwise different keys, none of them `devmod:modules`, in front of a list that is fine. -/
theorem adj_distinct (hs : List KV) : ∀ (t : List KV), NoDup (hs.map (·.key)) →
    (∀ c ∈ hs, c.key ≠ [] ∧ c.key ≠ modulesKey) → Adj t →
    (∀ c ∈ hs, ∀ d, t.head? = some d → c.key ≠ d.key) → Adj (hs ++ t) := by
  induction hs with
  | nil => intro t _ _ ht _; exact ht
  | cons c r ih =>
    intro t hnd hk ht hhead
    simp only [List.map_cons, NoDup] at hnd
    have hc := hk c (List.mem_cons_self ..)
    have hkok : KOk c := ⟨hc.1, fun e => absurd e hc.2⟩
    have hrest : Adj (r ++ t) := ih t hnd.2 (fun x hx => hk x (List.mem_cons_of_mem _ hx)) ht
      (fun x hx => hhead x (List.mem_cons_of_mem _ hx))
    cases hrt : r ++ t with
    | nil => simp only [List.cons_append, hrt]; exact hkok
    | cons d rest =>
      simp only [List.cons_append, hrt]
      rw [hrt] at hrest
      refine ⟨hkok, ?_, hrest⟩
      intro e
      exfalso
      cases r with
      | nil =>
        simp only [List.nil_append] at hrt
        exact hhead c (List.mem_cons_self ..) d (by rw [hrt]; rfl) e
      | cons x xs =>
        simp only [List.cons_append, List.cons.injEq] at hrt
        apply hnd.1
        rw [e, ← hrt.1]
        exact List.mem_cons_self ..

theorem adj_chunks (cs : List (Nat × List Bytes)) (h : ∀ c ∈ cs, ChunkWF c) : Adj ((chunkMsgs cs).map kvOf) := by
  have kok : ∀ c : Nat × List Bytes, ChunkWF c → KOk (kvOf (modulesKey, chunkEnc c.1 c.2)) := by
    intro c hc
    refine ⟨show modulesKey ≠ [] by decide, fun _ => ⟨[c], (encs_single c).symm, ?_⟩⟩
    intro x hx; simp at hx; subst hx; exact hc
  induction cs with
  | nil => trivial
  | cons c r ih =>
    have hr := ih (fun x hx => h x (List.mem_cons_of_mem _ hx))
    cases r with
    | nil => exact kok c (h c (List.mem_cons_self ..))
    | cons d t =>
      exact ⟨kok c (h c (List.mem_cons_self ..)), fun _ => rfl, hr⟩

theorem startsOK_bound (cs : List (Nat × List Bytes)) : ∀ s, StartsOK s cs → ∀ c ∈ cs, c.1 ≤ s + (catNames cs).length := by
  induction cs with
  | nil => intro _ _ c hc; cases hc
  | cons d r ih =>
    intro s h c hc
    simp only [StartsOK] at h
    simp only [catNames, List.length_append]
    rcases List.mem_cons.1 hc with rfl | hc
    · omega
    · have := ih _ h.2 c hc
      omega

theorem catNames_mem (cs : List (Nat × List Bytes)) : ∀ c ∈ cs, ∀ n ∈ c.2, n ∈ catNames cs := by
  induction cs with
  | nil => intro c hc; cases hc
  | cons d r ih =>
    intro c hc n hn
    simp only [catNames]
    rcases List.mem_cons.1 hc with rfl | hc
    · exact List.mem_append_left _ hn
    · exact List.mem_append_right _ (ih c hc n hn)

theorem catNames_len (cs : List (Nat × List Bytes)) : ∀ c ∈ cs, c.2.length ≤ (catNames cs).length := by
  induction cs with
  | nil => intro c hc; cases hc
  | cons d r ih =>
    intro c hc
    simp only [catNames, List.length_append]
    rcases List.mem_cons.1 hc with rfl | hc
    · omega
    · have := ih c hc; omega

theorem fitq_usable (B : Nat) (hB : B < 65536) (s : Script) : ∀ l, l ≤ B → FitQ B l s → UsableMtu B s := by
  induction s with
  | nil => intro l _ _; rw [usable_iff]; exact ⟨hB, fun k b h => by cases h⟩
  | cons x r ih =>
    intro l hl h
    cases x with
    | yield =>
      have := ih B (Nat.le_refl _) h
      rw [usable_iff] at this ⊢
      refine ⟨hB, fun k b hm => ?_⟩
      rcases List.mem_cons.1 hm with hm | hm
      · cases hm
      · exact this.2 k b hm
    | msg k v =>
      simp only [FitQ] at h
      have := ih (l - kvSize ⟨k, v⟩) (by omega) h.2.2.2.2
      rw [usable_iff] at this ⊢
      refine ⟨hB, fun k' b hm => ?_⟩
      rcases List.mem_cons.1 hm with hm | hm
      · simp only [Step.msg.injEq] at hm
        obtain ⟨rfl, rfl⟩ := hm
        have hu := key_usable l k' b h.2.2.1 h.1 h.2.2.2.1
        refine ⟨?_, by omega⟩
        cases k' with
        | nil => exact absurd rfl h.2.1
        | cons a t => simp
      · exact this.2 k' b hm

theorem mem_setField (fs : List (Bytes × Bytes)) (m w : Bytes) (p : Bytes × Bytes) (h : p ∈ setField fs m w) :
    p = (m, w) ∨ p ∈ fs := by
  unfold setField at h
  rcases List.mem_cons.1 h with h | h
  · exact Or.inl h
  · exact Or.inr (List.mem_filter.1 h).1

theorem mem_setAll (fs : List Field) : ∀ init p, p ∈ setAll init fs → p ∈ init ∨ ∃ f ∈ fs, p = (f.name, f.val) := by
  induction fs with
  | nil => intro init p h; exact Or.inl h
  | cons g r ih =>
    intro init p h
    simp only [setAll, List.foldl_cons] at h
    rcases ih (setField init g.name g.val) p h with h | ⟨f, hf, he⟩
    · rcases mem_setField _ _ _ _ h with h | h
      · exact Or.inr ⟨g, List.mem_cons_self .., h⟩
      · exact Or.inl h
    · exact Or.inr ⟨f, List.mem_cons_of_mem _ hf, he⟩

theorem nodup_map_filter (p : Field → Bool) : ∀ fs : List Field, NoDup (fs.map (·.name)) →
    NoDup ((fs.filter p).map (·.name)) := by
  intro fs
  induction fs with
  | nil => intro _; trivial
  | cons f r ih =>
    intro h
    simp only [List.map_cons, NoDup] at h
    by_cases hp : p f = true
    · rw [List.filter_cons_of_pos hp]
      refine ⟨fun hm => h.1 ?_, ih h.2⟩
      simp only [List.mem_map] at hm ⊢
      obtain ⟨g, hg, he⟩ := hm
      exact ⟨g, (List.mem_filter.1 hg).1, he⟩
    · rw [List.filter_cons_of_neg hp]; exact ih h.2

theorem nodup_snoc (l : List Bytes) (a : Bytes) (h : NoDup l) (ha : a ∉ l) : NoDup (l ++ [a]) := by
  induction l with
  | nil => exact ⟨by simp, trivial⟩
  | cons b r ih =>
    simp only [List.mem_cons, not_or] at ha
    refine ⟨?_, ih h.2 ha.2⟩
    intro hm
    rcases List.mem_append.1 hm with hm | hm
    · exact h.1 hm
    · simp at hm; exact ha.1 hm.symm

theorem nodup_map_mkKey (l : List Bytes) (h : NoDup l) : NoDup (l.map (mkKey nDevmod)) := by
  induction l with
  | nil => trivial
  | cons a r ih =>
    refine ⟨?_, ih h.2⟩
    intro hm
    simp only [List.mem_map] at hm
    obtain ⟨b, hb, he⟩ := hm
    exact h.1 (mkKey_inj _ _ _ he ▸ hb)

/-- What the device must satisfy for the devmod round to be analysed. -/
structure CfgOk (sendMtu : Nat) (cfg : DevCfg) : Prop where
  mtu : sendMtu - 5 < 65536
  valid : validate cfg.fields = true
  fields : ∀ f ∈ cfg.fields, FieldOk f
  nodup : NoDup (cfg.fields.map (·.name))
  names_ne : cfg.names ≠ []
  names : ∀ n ∈ cfg.names, n ≠ [] ∧ n.length < maxLen
  count : cfg.names.length ≤ maxModules

theorem devmodOps_parts (sendMtu : Nat) (cfg : DevCfg) (ops : List Op)
    (h : devmodOps .repaired sendMtu cfg = some ops) :
    ∃ l1 o1 cs l2 o2, emitAll .repaired (sendMtu - 5) (sendMtu - 5) (devmodHead cfg) = some (l1, o1) ∧
      moduleChunks (chunkFits .repaired (sendMtu - 5)) 0 [] cfg.names = some cs ∧
      emitAll .repaired (sendMtu - 5) (sendMtu - 5) (chunkMsgs cs) = some (l2, o2) ∧ ops = o1 ++ .yield :: o2 := by
  unfold devmodOps at h
  simp only [writeLimit, Fixes.repaired, if_true] at h
  split at h
  · cases h
  · cases h1 : emitAll ⟨true, true, true, true⟩ (sendMtu - 5) (sendMtu - 5) (devmodHead cfg) with
    | none => rw [h1] at h; cases h
    | some p1 =>
      obtain ⟨l1, o1⟩ := p1
      rw [h1] at h
      simp only at h
      cases h2 : moduleChunks (chunkFits ⟨true, true, true, true⟩ (sendMtu - 5)) 0 [] cfg.names with
      | none => rw [h2] at h; cases h
      | some cs =>
        rw [h2] at h
        simp only at h
        cases h3 : emitAll ⟨true, true, true, true⟩ (sendMtu - 5) (sendMtu - 5)
            (cs.map fun c => (modulesKey, chunkEnc c.1 c.2)) with
        | none => rw [h3] at h; cases h
        | some p3 =>
          obtain ⟨l2, o2⟩ := p3
          rw [h3] at h
          simp only [Option.some.injEq] at h
          exact ⟨l1, o1, cs, l2, o2, h1, h2, h3, h.symm⟩

/-- THE DEVMOD ROUND: the 68 messages `Devmod.Write` fills through the real chunker are all accepted
by the owner, and after the last of them the session holds the device's descriptors and its whole
module list, complete, with the first owner module selected. -/
theorem devmod_round (c : Cfg) (hF : c.F = .repaired) (hok : CfgOk c.sendMtu c.dev) (ops : List Op)
    (hops : devmodOps .repaired c.sendMtu c.dev = some ops) :
    (allBatches .repaired (c.sendMtu - 5) (compile ops)).fin = .done ∧
    LastOnly (allBatches .repaired (c.sendMtu - 5) (compile ops)).batches ∧
    ∃ o', ownFold (Own.init c) (allBatches .repaired (c.sendMtu - 5) (compile ops)).batches = .ok o' ∧
      o'.dm.complete = true ∧ o'.dm.mods = some c.dev.names ∧
      (∀ f ∈ c.dev.fields, f.val ≠ [] → o'.dm.get f.name = f.val) ∧
      (∀ p ∈ o'.dm.fields, ∃ f ∈ c.dev.fields, f.val ≠ [] ∧ p = (f.name, f.val)) ∧
      o'.stage ≠ .devmod ∧ o'.log = [] := by
  obtain ⟨l1, o1, cs, l2, o2, he1, hcs, he2, rfl⟩ := devmodOps_parts c.sendMtu c.dev ops hops
  generalize hB : c.sendMtu - 5 = B at *
  have hBlt : B < 65536 := hB ▸ hok.mtu
  -- the chunk list
  have hcat : catNames cs = c.dev.names := by simpa using moduleChunks_cat _ _ _ _ _ hcs
  have hstarts : StartsOK 0 cs := moduleChunks_starts _ _ _ _ _ hcs
  have hcount : c.dev.names.length ≤ 65535 := hok.count
  have hwf : ∀ x ∈ cs, ChunkWF x := by
    intro x hx
    have h1 := startsOK_bound cs 0 hstarts x hx
    have h2 := catNames_len cs x hx
    rw [hcat] at h1 h2
    refine ⟨by omega, by unfold maxLen; omega, fun n hn => ?_⟩
    have := catNames_mem cs x hx n hn
    rw [hcat] at this
    exact (hok.names n this).2
  have hnn : ∀ m ∈ c.dev.names, m ≠ [] := fun m hm => (hok.names m hm).1
  -- conditions on the messages
  let fs' := c.dev.fields.filter (·.val ≠ [])
  have hfs' : ∀ f ∈ fs', FieldOk f ∧ f.val ≠ [] ∧ f ∈ c.dev.fields := by
    intro f hf
    have := List.mem_filter.1 hf
    exact ⟨hok.fields f this.1, by simpa using this.2, this.1⟩
  have hhead : devmodHead c.dev = ((mkKey nDevmod nActive, cbTrue) :: fieldMsgs fs') ++
      [(numKey, encode (.uint c.dev.names.length))] := rfl
  have keyok : ∀ n : Bytes, n.length ≤ 10 → mkKey nDevmod n ≠ [] ∧ rawKeyLen (mkKey nDevmod n) ≤ 65535 := by
    intro n hn
    refine ⟨mkKey_ne _ _ (by decide), rawKeyLen_short _ ?_⟩
    rw [mkKey_length]
    have : nDevmod.length = 6 := rfl
    omega
  have hmsg1 : ∀ m ∈ devmodHead c.dev, m.2 ≠ [] ∧ m.1 ≠ [] ∧ rawKeyLen m.1 ≤ 65535 := by
    intro m hm
    rw [hhead] at hm
    rcases List.mem_append.1 hm with hm | hm
    · rcases List.mem_cons.1 hm with rfl | hm
      · exact ⟨by decide, keyok nActive (by decide)⟩
      · simp only [fieldMsgs, List.mem_map] at hm
        obtain ⟨f, hf, rfl⟩ := hm
        exact ⟨field_enc_ne f, keyok f.name (by have := fieldOk_short f (hfs' f hf).1; omega)⟩
    · simp only [List.mem_singleton] at hm
      subst hm
      exact ⟨by simp [encode, encHead_ne], keyok nNum (by decide)⟩
  have hmsg2 : ∀ m ∈ chunkMsgs cs, m.2 ≠ [] ∧ m.1 ≠ [] ∧ rawKeyLen m.1 ≤ 65535 := by
    intro m hm
    simp only [chunkMsgs, List.mem_map] at hm
    obtain ⟨x, _, rfl⟩ := hm
    exact ⟨chunkEnc_ne _ _, keyok nModules (by decide)⟩
  -- the script
  have f2 := emitAll_fit .repaired rfl B (chunkMsgs cs) B l2 o2 [] he2 (Nat.le_refl _) hmsg2 trivial trivial
  simp only [List.append_nil] at f2
  have hst2 : Starts (.yield :: o2) := trivial
  have f1 := emitAll_fit .repaired rfl B (devmodHead c.dev) B l1 o1 (.yield :: o2) he1 (Nat.le_refl _) hmsg1 hst2
    (by rw [compile_yield]; exact f2.2.1)
  have hfit : FitQ B B (compile (o1 ++ .yield :: o2)) := f1.2.1
  have hkvs : kvsOf (compile (o1 ++ .yield :: o2)) = (devmodHead c.dev).map kvOf ++ (chunkMsgs cs).map kvOf := by
    rw [f1.2.2, compile_yield]
    simp only [kvsOf]
    rw [f2.2.2]; simp [compile, compileAux, kvsOf]
  have husable : UsableMtu B (compile (o1 ++ .yield :: o2)) := fitq_usable B hBlt _ B (Nat.le_refl _) hfit
  have hdone := repaired_done B _ husable
  have hgood : Good B B (St.init (compile (o1 ++ .yield :: o2))) := ⟨trivial, hfit, by simp [St.init]⟩
  have hwhole := rounds_whole B _ _ hgood (by
    have := hdone; unfold allBatches at this; rw [this]; simp)
  have hflat : flatten (allBatches .repaired B (compile (o1 ++ .yield :: o2))).batches =
      (devmodHead c.dev).map kvOf ++ (chunkMsgs cs).map kvOf := by
    unfold allBatches
    rw [hwhole.2, init_content, hkvs]
  have hlast : LastOnly (allBatches .repaired B (compile (o1 ++ .yield :: o2))).batches := by
    unfold allBatches at hdone ⊢
    exact rounds_lastOnly _ _ _ _ hdone
  refine ⟨hdone, hlast, ?_⟩
  -- every message of the head is devmod:<name> with a name other than "modules"
  have hnames1 : ∀ m ∈ devmodHead c.dev, ∃ n, m.1 = mkKey nDevmod n ∧ n ≠ nModules := by
    intro m hm
    rw [hhead] at hm
    rcases List.mem_append.1 hm with hm | hm
    · rcases List.mem_cons.1 hm with rfl | hm
      · exact ⟨nActive, rfl, by decide⟩
      · simp only [fieldMsgs, List.mem_map] at hm
        obtain ⟨f, hf, rfl⟩ := hm
        exact ⟨f.name, rfl, (fieldOk_special f (hfs' f hf).1).2.2⟩
    · simp only [List.mem_singleton] at hm
      subst hm
      exact ⟨nNum, rfl, by decide⟩
  have hnd' : NoDup (fs'.map (·.name)) := nodup_map_filter _ _ hok.nodup
  have hkeys : ((devmodHead c.dev).map kvOf).map (·.key) =
      (nActive :: (fs'.map (·.name) ++ [nNum])).map (mkKey nDevmod) := by
    rw [hhead]
    simp [fieldMsgs, kvOf, numKey, Function.comp_def]
  -- whole messages: no two neighbours share a key except module-list chunks
  have hadj : Adj ((devmodHead c.dev).map kvOf ++ (chunkMsgs cs).map kvOf) := by
    apply adj_distinct
    · rw [hkeys]
      apply nodup_map_mkKey
      refine ⟨?_, nodup_snoc _ _ hnd' ?_⟩
      · intro hm
        rcases List.mem_append.1 hm with hm | hm
        · simp only [List.mem_map] at hm
          obtain ⟨f, hf, he⟩ := hm
          exact (fieldOk_special f (hfs' f hf).1).1 he
        · simp at hm; revert hm; decide
      · intro hm
        simp only [List.mem_map] at hm
        obtain ⟨f, hf, he⟩ := hm
        exact (fieldOk_special f (hfs' f hf).1).2.1 he
    · intro x hx
      simp only [List.mem_map] at hx
      obtain ⟨m, hm, rfl⟩ := hx
      obtain ⟨n, hn, hne⟩ := hnames1 m hm
      refine ⟨(hmsg1 m hm).2.1, ?_⟩
      show m.1 ≠ modulesKey
      rw [hn]
      intro e
      exact hne (mkKey_inj _ _ _ e)
    · exact adj_chunks cs hwf
    · intro x hx d hd e
      simp only [List.mem_map] at hx
      obtain ⟨m, hm, rfl⟩ := hx
      obtain ⟨n, hn, hne⟩ := hnames1 m hm
      have hdk : d.key = modulesKey := by
        cases cs with
        | nil => simp [chunkMsgs] at hd
        | cons y ys => simp [chunkMsgs, kvOf] at hd; rw [← hd]
      have : m.1 = modulesKey := by rw [← hdk]; exact e
      rw [hn] at this
      exact hne (mkKey_inj _ _ _ this)
  -- the messages handled one after another
  let dfin : DmState := ⟨setAll [] fs', some c.dev.names, false⟩
  have hseq : dmHandleAll .repaired DmState.init (pairs ((devmodHead c.dev).map kvOf ++ (chunkMsgs cs).map kvOf)) = .ok dfin := by
    rw [pairs_append, pairs_kvOf, pairs_kvOf, dmHandleAll_append, hhead, dmHandleAll_append, dmHandleAll_cons,
      cutKey_devmod, dmHandle_active]
    simp only [Out.bind]
    rw [seq_fields .repaired fs' DmState.init (fun f hf => (hfs' f hf).1)]
    simp only [Out.bind, dmHandleAll_cons, numKey, cutKey_devmod]
    rw [dmHandle_num _ _ hok.count]
    simp only [Out.bind, dmHandleAll]
    have := seq_chunks .repaired cs ⟨setAll [] fs', some (List.replicate c.dev.names.length []), false⟩ [] hwf
      (fun m hm => by cases hm) (by rw [hcat]; exact hnn) hstarts (by simp [hcat])
    simp only [DmState.init] at this ⊢
    rw [this]
    simp [dfin, hcat]
  have hreq : requiredNames.all (fun r => dfin.get r ≠ []) = true := by
    have hv := hok.valid
    unfold validate at hv
    rw [List.all_eq_true] at hv ⊢
    intro r hr
    have := hv r hr
    rw [List.any_eq_true] at this
    obtain ⟨f, hf, hfr⟩ := this
    simp only [Bool.and_eq_true, decide_eq_true_eq] at hfr
    have hf' : f ∈ fs' := List.mem_filter.2 ⟨hf, by simpa using hfr.2⟩
    have hl := lookup_setAll fs' [] hnd' f hf'
    simp only [decide_eq_true_eq]
    show (dfin.fields.lookup r).getD [] ≠ []
    rw [← hfr.1]
    show ((setAll [] fs').lookup f.name).getD [] ≠ []
    rw [hl]
    exact hfr.2
  have hfold := devmod_fold _ (Own.init c) DmState.init dfin c.dev.names rfl hlast (by rw [hflat]; exact hadj)
    (Sim.refl _) (by
      show dmHandleAll c.F _ _ = _
      rw [hF, hflat]; exact hseq) rfl hok.names_ne hnn hreq
  obtain ⟨o', h1, h2, h3, h4, h5, h6⟩ := hfold
  refine ⟨o', h1, h2, h4, ?_, ?_, h5, h6⟩
  · intro f hf hv
    have hf' : f ∈ fs' := List.mem_filter.2 ⟨hf, by simpa using hv⟩
    unfold DmState.get
    rw [h3]
    show ((setAll [] fs').lookup f.name).getD [] = f.val
    rw [lookup_setAll fs' [] hnd' f hf']
    rfl
  · intro p hp
    rw [h3] at hp
    rcases mem_setAll fs' [] p hp with h | ⟨f, hf, he⟩
    · cases h
    · exact ⟨f, (hfs' f hf).2.2, (hfs' f hf).2.1, he⟩

/-! ### the owner's modules run one after another -/

/-- The rule for the owner's log, as a checker: every event belongs to the module that is current
(`cur`); the current module changes only by a ProduceInfo that reported done, to the next one. -/
def seqCheck : Nat → List OEv → Bool
  | _, [] => true
  | cur, .handle i _ _ :: r => i == cur && seqCheck cur r
  | cur, .produce i false :: r => i == cur && seqCheck cur r
  | cur, .produce i true :: r => i == cur && seqCheck (cur + 1) r

/-- Number of modules that have reported done. -/
def doneCount : List OEv → Nat
  | [] => 0
  | .produce _ true :: r => doneCount r + 1
  | _ :: r => doneCount r

theorem seqCheck_append (a b : List OEv) : ∀ c, seqCheck c (a ++ b) = (seqCheck c a && seqCheck (c + doneCount a) b) := by
  induction a with
  | nil => intro c; simp [seqCheck, doneCount]
  | cons e r ih =>
    intro c
    cases e with
    | handle i m v => simp [seqCheck, doneCount, ih, Bool.and_assoc]
    | produce i d =>
      cases d with
      | false => simp [seqCheck, doneCount, ih, Bool.and_assoc]
      | true =>
        have e : c + 1 + doneCount r = c + (doneCount r + 1) := by omega
        simp only [List.cons_append, seqCheck, doneCount, ih, Bool.and_assoc, e]

theorem doneCount_append (a b : List OEv) : doneCount (a ++ b) = doneCount a + doneCount b := by
  induction a with
  | nil => simp [doneCount]
  | cons e r ih =>
    cases e with
    | handle i m v => simp [doneCount, ih]
    | produce i d => cases d <;> simp [doneCount, ih] <;> omega

theorem seqCheck_handles (i : Nat) (ms : List (Bytes × Bytes)) : seqCheck i (handleEvents i ms) = true ∧
    doneCount (handleEvents i ms) = 0 := by
  induction ms with
  | nil => exact ⟨rfl, rfl⟩
  | cons m r ih =>
    obtain ⟨k, v⟩ := m
    simp only [handleEvents, List.map_cons, seqCheck, doneCount] at ih ⊢
    simp [ih.1, ih.2]

theorem ite_stage_ne (p : Prop) [Decidable p] : (if p then Stage.finished else Stage.running) ≠ .devmod := by
  split <;> simp

/-- What holds of the owner at every moment. -/
structure OwnInv (o : Own) : Prop where
  seq : seqCheck 0 o.log = true
  idx : doneCount o.log = o.idx
  /-- the devmod module is the current one exactly while devmod is incomplete, and nothing is logged then -/
  dm : o.stage = .devmod → o.log = [] ∧ o.idx = 0
  /-- IsDone has been sent exactly when no module is left -/
  fin : o.stage = .finished ↔ (o.stage ≠ .devmod ∧ o.mods = [])
  /-- and then the last thing the last module did was to report done -/
  last : o.stage = .finished → o.idx = 0 ∨ o.log.getLast? = some (.produce (o.idx - 1) true)

theorem ownInv_init (c : Cfg) : OwnInv (Own.init c) :=
  ⟨rfl, rfl, fun _ => ⟨rfl, rfl⟩, by simp [Own.init], by simp [Own.init]⟩

/-- One TO2.DeviceServiceInfo keeps the rule, whatever the device sent. -/
theorem ownStep_inv (o : Own) (b : Batch) (o' : Own) (rep : Reply) (h : ownStep o b = .ok (o', rep)) (hi : OwnInv o) :
    OwnInv o' ∧ (rep.done = true ↔ (o'.stage = .finished ∧ o.stage ≠ .finished)) ∧
    (rep.done = true → rep.more = false ∧ b.more = false) ∧ (∀ c ∈ rep.kvs, c.key ≠ []) ∧
    (b.more = true → rep = Reply.empty) := by
  unfold ownStep at h
  cases hre : reassembleF o.F b.kvs with
  | panic => rw [hre] at h; cases h
  | ok msgs =>
    rw [hre] at h
    simp only at h
    cases hst : o.stage with
    | finished => rw [hst] at h; cases h
    | devmod =>
      rw [hst] at h
      simp only at h
      have hlog := hi.dm hst
      cases hdm : dmHandleAll o.F o.dm msgs with
      | reject => rw [hdm] at h; cases h
      | panic s => rw [hdm] at h; cases h
      | ok dm =>
        rw [hdm] at h
        simp only at h
        by_cases hm : b.more = true
        · rw [if_pos hm] at h
          simp only [Out.ok.injEq, Prod.mk.injEq] at h
          obtain ⟨rfl, rfl⟩ := h
          refine ⟨⟨hi.seq, hi.idx, fun _ => hlog, by simp [hst], by simp [hst]⟩, by simp [Reply.empty, hst], by simp [Reply.empty],
            by simp [Reply.empty], fun _ => rfl⟩
        · rw [if_neg hm] at h
          cases hp : dmProduce dm with
          | reject => rw [hp] at h; cases h
          | panic s => rw [hp] at h; cases h
          | ok done =>
            rw [hp] at h
            cases done with
            | false =>
              simp only [Out.ok.injEq, Prod.mk.injEq] at h
              obtain ⟨rfl, rfl⟩ := h
              refine ⟨⟨hi.seq, hi.idx, fun _ => hlog, by simp [hst], by simp [hst]⟩, by simp [Reply.empty, hst], by simp [Reply.empty],
                by simp [Reply.empty], fun hh => absurd hh hm⟩
            | true =>
              simp only [Out.ok.injEq, Prod.mk.injEq] at h
              obtain ⟨rfl, rfl⟩ := h
              refine ⟨⟨hi.seq, hi.idx, ?_, ?_, fun _ => Or.inl hlog.2⟩, ?_, ?_, by simp, fun hh => absurd hh hm⟩
              · intro hh; exact absurd hh (ite_stage_ne _)
              · simp only
                split <;> simp_all
              · simp only [hst]
                split <;> simp_all
              · intro _; exact ⟨rfl, by simpa using hm⟩
    | running =>
      rw [hst] at h
      simp only at h
      cases hmods : o.mods with
      | nil => rw [hmods] at h; cases h
      | cons cur rest =>
        rw [hmods] at h
        simp only at h
        have hev := seqCheck_handles o.idx msgs
        have hseq1 : seqCheck 0 (o.log ++ handleEvents o.idx msgs) = true := by
          rw [seqCheck_append, hi.seq, hi.idx]; simpa using hev.1
        have hidx1 : doneCount (o.log ++ handleEvents o.idx msgs) = o.idx := by
          rw [doneCount_append, hev.2, hi.idx]; rfl
        by_cases hm : b.more = true
        · rw [if_pos hm] at h
          simp only [Out.ok.injEq, Prod.mk.injEq] at h
          obtain ⟨rfl, rfl⟩ := h
          refine ⟨⟨hseq1, hidx1, by simp [hst], by simp [hst, hmods], by simp [hst]⟩, by simp [Reply.empty, hst], by simp [Reply.empty],
            by simp [Reply.empty], fun _ => rfl⟩
        · rw [if_neg hm] at h
          split at h
          · cases h
          · split at h
            · -- the module reports done
              simp only [Out.ok.injEq, Prod.mk.injEq] at h
              obtain ⟨rfl, rfl⟩ := h
              refine ⟨⟨?_, ?_, ?_, ?_, ?_⟩, ?_, ?_, ?_, fun hh => absurd hh hm⟩
              · simp only
                rw [seqCheck_append, hseq1, hidx1]; simp [seqCheck]
              · simp only
                rw [doneCount_append, hidx1]; simp [doneCount]
              · intro hh; exact absurd hh (ite_stage_ne _)
              · simp only; split <;> simp_all
              · intro _; right; simp
              · simp only [hst]; split <;> simp_all
              · intro _; exact ⟨rfl, by simpa using hm⟩
              · simp only [List.mem_map]
                rintro c ⟨m, _, rfl⟩
                exact by unfold mkKey; simp
            · simp only [Out.ok.injEq, Prod.mk.injEq] at h
              obtain ⟨rfl, rfl⟩ := h
              refine ⟨⟨?_, ?_, by simp [hst], by simp [hst], by simp [hst]⟩, by simp [hst], by simp, ?_, fun hh => absurd hh hm⟩
              · simp only
                rw [seqCheck_append, hseq1, hidx1]; simp [seqCheck]
              · simp only
                rw [doneCount_append, hidx1]; simp [doneCount]
              · simp only [List.mem_map]
                rintro c ⟨m, _, rfl⟩
                exact by unfold mkKey; simp

/-! ### the device: activation -/

/-- The rule for the device's log, as a checker that tracks the set of active modules: a module
becomes active only through an owner message `active = true` handled for it (`res` only if `val`), it
stops being active through `active = false`, and Receive / Yield happen only for active modules.
The result is the active set at the end, `none` if the rule was broken. -/
def actTrack : List Bytes → List DEv → Option (List Bytes)
  | act, [] => some act
  | act, .active m v res :: r => if res && !v then none else actTrack (setActive act m res) r
  | act, .trans _ _ :: r => actTrack act r
  | act, .recv m _ _ :: r => if m ∈ act then actTrack act r else none
  | act, .yield m :: r => if m ∈ act then actTrack act r else none

theorem actTrack_append (a b : List DEv) : ∀ act, actTrack act (a ++ b) = (actTrack act a).bind (fun x => actTrack x b) := by
  induction a with
  | nil => intro act; rfl
  | cons e r ih =>
    intro act
    cases e with
    | active m v res => simp only [List.cons_append, actTrack]; split <;> simp [ih]
    | trans m a => simp only [List.cons_append, actTrack, ih]
    | recv m n b => simp only [List.cons_append, actTrack]; split <;> simp [ih]
    | yield m => simp only [List.cons_append, actTrack]; split <;> simp [ih]

theorem known_popRecv (m x : Bytes) (mods : List DevMod) : known (popRecv m mods).2 x = known mods x := by
  induction mods with
  | nil => rfl
  | cons d r ih =>
    unfold popRecv
    split
    · simp [known]
    · simp only [known, List.any_cons] at ih ⊢
      rw [ih]

theorem known_popYield (m x : Bytes) (mods : List DevMod) : known (popYield m mods).2 x = known mods x := by
  induction mods with
  | nil => rfl
  | cons d r ih =>
    unfold popYield
    split
    · simp [known]
    · simp only [known, List.any_cons] at ih ⊢
      rw [ih]

/-- What holds of the device's module bookkeeping at every moment. -/
structure DevInv (d : Dev) : Prop where
  track : actTrack [] d.log = some d.active
  /-- only configured modules (and devmod) are ever active -/
  act : ∀ m ∈ d.active, known d.mods m = true ∨ m = nDevmod
  /-- a module the device does not have answered every activation with "inactive" -/
  unk : ∀ m v res, DEv.active m v res ∈ d.log → known d.mods m = false → m ≠ nDevmod → res = false
  /-- and never received anything -/
  rcv : ∀ m n b, DEv.recv m n b ∈ d.log → known d.mods m = true ∨ m = nDevmod

theorem mem_setActive (act : List Bytes) (m x : Bytes) (a : Bool) (h : x ∈ setActive act m a) :
    x ∈ act ∨ (x = m ∧ a = true) := by
  unfold setActive at h
  cases a with
  | true =>
    simp only [if_true] at h
    split at h
    · exact Or.inl h
    · rcases List.mem_cons.1 h with h | h
      · exact Or.inr ⟨h, rfl⟩
      · exact Or.inl h
  | false =>
    simp only [Bool.false_eq_true, if_false] at h
    exact Or.inl (List.mem_filter.1 h).1

theorem devInv_log (d : Dev) (hi : DevInv d) (mods' : List DevMod) (hk : ∀ x, known mods' x = known d.mods x)
    (evs : List DEv) (act' : List Bytes) (prev' prevIn' : Bytes)
    (ht : actTrack d.active evs = some act')
    (ha : ∀ m ∈ act', known d.mods m = true ∨ m = nDevmod)
    (hu : ∀ m v res, DEv.active m v res ∈ evs → known d.mods m = false → m ≠ nDevmod → res = false)
    (hr : ∀ m n b, DEv.recv m n b ∈ evs → known d.mods m = true ∨ m = nDevmod) :
    DevInv ⟨mods', act', prev', prevIn', d.log ++ evs⟩ := by
  refine ⟨?_, ?_, ?_, ?_⟩
  · simp only [actTrack_append, hi.track, Option.bind_some, ht]
  · intro m hm; simpa [hk] using ha m hm
  · intro m v res hm hkn
    simp only [hk] at hkn
    rcases List.mem_append.1 hm with h | h
    · exact hi.unk m v res h hkn
    · exact hu m v res h hkn
  · intro m n b hm
    simp only [hk]
    rcases List.mem_append.1 hm with h | h
    · exact hi.rcv m n b h
    · exact hr m n b h

theorem mem_setActive_self (act : List Bytes) (m : Bytes) : m ∈ setActive act m true := by
  unfold setActive
  simp only [if_true]
  split
  · assumption
  · exact List.mem_cons_self ..

/-- One owner message keeps the bookkeeping right. -/
theorem handleOne_inv (d : Dev) (key body : Bytes) (hi : DevInv d) : DevInv (handleOne d key body).dev := by
  have base : ∀ p q : Bytes, DevInv ⟨d.mods, d.active, p, q, d.log⟩ := fun p q =>
    ⟨hi.track, hi.act, hi.unk, hi.rcv⟩
  unfold handleOne
  simp only
  split
  · -- an `active` message
    cases hb : body.head? with
    | none => exact base _ _
    | some b =>
      simp only
      split
      · rename_i hbb
        split
        · -- no reply: deactivation, or already active
          rename_i hcond
          have := devInv_log d hi d.mods (fun _ => rfl)
            ((if decide (b = 0xf5) ≠ decide ((cutKey key).1 ∈ d.active) then [DEv.trans (cutKey key).1 (decide (b = 0xf5))] else []) ++
              [DEv.active (cutKey key).1 (decide (b = 0xf5)) (decide (b = 0xf5))])
            (setActive d.active (cutKey key).1 (decide (b = 0xf5))) (cutKey key).1 d.prevIn
            (by
              rw [actTrack_append]
              have : actTrack d.active (if decide (b = 0xf5) ≠ decide ((cutKey key).1 ∈ d.active) then [DEv.trans (cutKey key).1 (decide (b = 0xf5))] else []) = some d.active := by
                split <;> rfl
              rw [this]
              simp [actTrack])
            (by
              intro m hm
              rcases mem_setActive _ _ _ _ hm with h | ⟨h1, h2⟩
              · exact hi.act m h
              · -- active stays true: it was active before
                subst h1
                simp only [Bool.or_eq_true, Bool.not_eq_true', decide_eq_true_eq] at hcond
                rcases hcond with hc | hc
                · rw [h2] at hc; cases hc
                · exact hi.act _ hc)
            (by
              intro m v res hm hkn hnd
              rcases List.mem_append.1 hm with h | h
              · split at h <;> simp at h
              · simp only [List.mem_singleton, DEv.active.injEq] at h
                obtain ⟨rfl, rfl, rfl⟩ := h
                simp only [Bool.or_eq_true, Bool.not_eq_true', decide_eq_true_eq] at hcond
                rcases hcond with hc | hc
                · simpa using hc
                · rcases hi.act _ hc with hk | hk
                  · rw [hk] at hkn; cases hkn
                  · exact absurd hk hnd)
            (by
              intro m n b' hm
              rcases List.mem_append.1 hm with h | h
              · split at h <;> simp at h
              · simp at h)
          simpa [List.append_assoc] using this
        · -- activation of a module that was not active: reply
          rename_i hcond
          simp only [Bool.or_eq_true, Bool.not_eq_true', decide_eq_true_eq, not_or] at hcond
          have hb5 : decide (b = 0xf5) = true := by simpa using hcond.1
          have := devInv_log d hi d.mods (fun _ => rfl)
            ((if decide (b = 0xf5) ≠ decide ((cutKey key).1 ∈ d.active) then [DEv.trans (cutKey key).1 (decide (b = 0xf5))] else []) ++
              [DEv.active (cutKey key).1 (decide (b = 0xf5)) (known d.mods (cutKey key).1 || decide ((cutKey key).1 = nDevmod))])
            (setActive d.active (cutKey key).1 (known d.mods (cutKey key).1 || decide ((cutKey key).1 = nDevmod))) (cutKey key).1 d.prevIn
            (by
              rw [actTrack_append]
              have : actTrack d.active (if decide (b = 0xf5) ≠ decide ((cutKey key).1 ∈ d.active) then [DEv.trans (cutKey key).1 (decide (b = 0xf5))] else []) = some d.active := by
                split <;> rfl
              rw [this]
              simp [actTrack, hb5])
            (by
              intro m hm
              rcases mem_setActive _ _ _ _ hm with h | ⟨h1, h2⟩
              · exact hi.act m h
              · subst h1
                simpa using h2)
            (by
              intro m v res hm hkn hnd
              rcases List.mem_append.1 hm with h | h
              · split at h <;> simp at h
              · simp only [List.mem_singleton, DEv.active.injEq] at h
                obtain ⟨rfl, rfl, rfl⟩ := h
                simp [hkn, hnd])
            (by
              intro m n b' hm
              rcases List.mem_append.1 hm with h | h
              · split at h <;> simp at h
              · simp at h)
          simpa [List.append_assoc] using this
      · exact base _ _
  · split
    · exact base _ _
    · rename_i hact
      simp only [Decidable.not_not] at hact
      split
      · -- Receive of a configured module
        have := devInv_log d hi (popRecv (cutKey key).1 d.mods).2 (fun x => known_popRecv _ x _)
          [DEv.recv (cutKey key).1 (cutKey key).2 body] d.active (cutKey key).1 d.prevIn
          (by simp [actTrack, hact]) hi.act (by intro m v res hm; simp at hm)
          (by
            intro m n b hm
            simp only [List.mem_singleton, DEv.recv.injEq] at hm
            obtain ⟨rfl, _, _⟩ := hm
            exact hi.act _ hact)
        exact this
      · have := devInv_log d hi d.mods (fun _ => rfl)
          [DEv.recv (cutKey key).1 (cutKey key).2 body] d.active (cutKey key).1 d.prevIn
          (by simp [actTrack, hact]) hi.act (by intro m v res hm; simp at hm)
          (by
            intro m n b hm
            simp only [List.mem_singleton, DEv.recv.injEq] at hm
            obtain ⟨rfl, _, _⟩ := hm
            exact hi.act _ hact)
        exact this

theorem devInv_prev (d : Dev) (p q : Bytes) (hi : DevInv d) : DevInv { d with prev := p, prevIn := q } :=
  ⟨hi.track, hi.act, hi.unk, hi.rcv⟩

theorem handleYield_inv (d : Dev) (hi : DevInv d) : DevInv (handleYield d).dev := by
  unfold handleYield
  split
  · rename_i h
    have := devInv_log d hi (popYield d.prev d.mods).2 (fun x => known_popYield _ x _)
      [DEv.yield d.prev] d.active d.prev d.prevIn (by simp [actTrack, h.1]) hi.act
      (by intro m v res hm; simp at hm) (by intro m n b hm; simp at hm)
    exact this
  · exact hi

theorem handleAll_inv (ms : List (Bytes × Bytes)) : ∀ d, DevInv d → DevInv (handleAll d ms).dev := by
  induction ms with
  | nil => intro d hi; exact handleYield_inv d hi
  | cons m r ih =>
    intro d hi
    obtain ⟨k, b⟩ := m
    unfold handleAll
    simp only
    split
    · exact handleOne_inv d k b hi
    · exact ih _ (handleOne_inv d k b hi)

/-! ### the whole system -/

structure SysInv (s : Sys) : Prop where
  own : OwnInv s.own
  dev : DevInv s.dev
  pend : s.phase = .run → LastOnly s.pending
  inbox : ∀ c ∈ s.inbox, c.key ≠ []
  done : s.phase = .done ↔ s.own.stage = .finished

theorem lastOnly_tail (b c : Batch) (r : List Batch) (h : LastOnly (b :: c :: r)) : b.more = true ∧ LastOnly (c :: r) := h

theorem reassembleF_inbox (F : Fixes) (kvs : List KV) (h : ∀ c ∈ kvs, c.key ≠ []) :
    reassembleF F kvs = .ok (reasm [] kvs).2 := by
  cases kvs with
  | nil => rfl
  | cons c r => simp [reassembleF, h c (List.mem_cons_self ..)]

theorem startRound_inv (s : Sys) (ops : List Op) (hown : OwnInv s.own) (hdev : DevInv s.dev)
    (hph : s.phase = .run) (hnf : s.own.stage ≠ .finished) (hin : ∀ c ∈ s.inbox, c.key ≠ []) :
    SysInv (startRound s ops) := by
  unfold startRound
  simp only
  split
  · rename_i hfin
    refine ⟨hown, hdev, fun _ => ?_, by simp, by simp [hph, hnf]⟩
    unfold allBatches at hfin ⊢
    exact rounds_lastOnly _ _ _ _ hfin
  · exact ⟨hown, hdev, by simp, hin, by simp [hnf]⟩

/-- One 68/69 exchange keeps everything right. -/
theorem step_inv (s : Sys) (hi : SysInv s) : SysInv (step s) := by
  unfold step
  split
  · rename_i b rest hph hpend
    have hlast := hi.pend hph
    rw [hpend] at hlast
    have hnf : s.own.stage ≠ .finished := by
      intro h; have := hi.done.2 h; rw [hph] at this; cases this
    cases hos : ownStep s.own b with
    | reject => simp only; exact ⟨hi.own, hi.dev, by simp, hi.inbox, by simp [hnf]⟩
    | panic site => simp only; exact ⟨hi.own, hi.dev, by simp, hi.inbox, by simp [hnf]⟩
    | ok p =>
      obtain ⟨own', reply⟩ := p
      simp only
      obtain ⟨hown', hdone, hdm, hkeys, hmore⟩ := ownStep_inv s.own b own' reply hos hi.own
      have hinbox : ∀ c ∈ s.inbox ++ reply.kvs, c.key ≠ [] := by
        intro c hc
        rcases List.mem_append.1 hc with h | h
        · exact hi.inbox c h
        · exact hkeys c h
      split
      · -- more 68 messages of this round to send
        rename_i hrest
        cases rest with
        | nil => exact absurd rfl hrest
        | cons c r =>
          have hl := lastOnly_tail b c r hlast
          have hrep := hmore hl.1
          have hnd : own'.stage ≠ .finished := by
            intro h
            have := hdone.2 ⟨h, hnf⟩
            rw [hrep] at this; cases this
          exact ⟨hown', hi.dev, fun _ => hl.2, hinbox, by simp [hph, hnd]⟩
      · rename_i hrest
        simp only [ne_eq, Decidable.not_not] at hrest
        subst hrest
        have hbm : b.more = false := hlast
        split
        · -- the owner asked for another message
          rename_i hor
          have hrm : reply.more = true := by
            rcases hor with h | h
            · rw [hbm] at h; cases h
            · exact h
          have hnd : own'.stage ≠ .finished := by
            intro h
            have := (hdm (hdone.2 ⟨h, hnf⟩)).1
            rw [hrm] at this; cases this
          exact ⟨hown', hi.dev, fun _ => rfl, hinbox, by simp [hph, hnd]⟩
        · split
          · -- IsDone: Done
            rename_i hd
            have hfin : own'.stage = .finished := (hdone.1 hd).1
            unfold finish
            simp only
            split
            · exact ⟨hown', hi.dev, by simp, hinbox, by simp [hfin]⟩
            · rw [reassembleF_inbox _ _ hinbox]
              simp only
              refine ⟨hown', ?_, by simp, hinbox, by simp [hfin]⟩
              exact handleAll_inv _ _ (devInv_prev _ _ _ hi.dev)
          · -- next round
            rename_i hd
            have hnd : own'.stage ≠ .finished := by
              intro h
              exact hd (hdone.2 ⟨h, hnf⟩)
            unfold nextRound
            simp only
            rw [reassembleF_inbox _ _ hinbox]
            simp only
            have hdev' : DevInv { (handleAll s.dev (reasm [] (s.inbox ++ reply.kvs)).2).dev with prevIn := s.dev.prev } :=
              devInv_prev _ _ _ (handleAll_inv _ _ hi.dev)
            split
            · exact ⟨hown', hdev', by simp, hinbox, by simp [hnd]⟩
            · exact startRound_inv _ _ hown' hdev' hph hnd hinbox
  · exact hi

theorem runN_inv (n : Nat) : ∀ s, SysInv s → SysInv (runN n s) := by
  induction n with
  | zero => intro s h; exact h
  | succ n ih => intro s h; exact ih _ (step_inv s h)

theorem init_inv (c : Cfg) : SysInv (Sys.init c) := by
  unfold Sys.init
  simp only
  have hd : DevInv ⟨c.devMods, [], [], [], []⟩ :=
    ⟨rfl, (fun m hm => by cases hm), (fun m v res hm => by cases hm), (fun m n b hm => by cases hm)⟩
  split
  · exact ⟨ownInv_init c, hd, by simp, by simp, by simp [Own.init]⟩
  · exact startRound_inv _ _ (ownInv_init c) hd rfl (by simp [Own.init]) (by simp)

/-! ### fragments and streams -/

theorem mc_eq_nil (l : List (Bytes × Bytes)) (h : mergeConsecutive l = []) : l = [] := by
  cases l with
  | nil => rfl
  | cons p r =>
    obtain ⟨k, v⟩ := p
    cases hr : mergeConsecutive r with
    | nil => rw [merge_cons_nil k v r hr] at h; cases h
    | cons q t =>
      obtain ⟨k', v'⟩ := q
      rw [merge_cons_cons k v k' v' r t hr] at h
      split at h <;> cases h

theorem mc_cons_congr (k v : Bytes) (x y : List (Bytes × Bytes)) (h : mergeConsecutive x = mergeConsecutive y) :
    mergeConsecutive ((k, v) :: x) = mergeConsecutive ((k, v) :: y) := by
  rw [mergeConsecutive, mergeConsecutive, h]

theorem mc_cons_same (k v v' : Bytes) (x : List (Bytes × Bytes)) :
    mergeConsecutive ((k, v) :: (k, v') :: x) = mergeConsecutive ((k, v ++ v') :: x) := by
  cases hx : mergeConsecutive x with
  | nil =>
    rw [merge_cons_cons k v k v' _ [] (merge_cons_nil k v' x hx), merge_cons_nil _ _ x hx]
    simp
  | cons q t =>
    obtain ⟨k2, v2⟩ := q
    rw [merge_cons_cons _ _ k2 v2 x t hx]
    have h1 := merge_cons_cons k v' k2 v2 x t hx
    by_cases hk : k = k2
    · rw [if_pos hk] at h1 ⊢
      rw [merge_cons_cons k v k (v' ++ v2) _ t h1]
      simp
    · rw [if_neg hk] at h1 ⊢
      rw [merge_cons_cons k v k v' _ ((k2, v2) :: t) h1]
      simp

theorem mc_append_congr (a : List (Bytes × Bytes)) : ∀ x y, mergeConsecutive x = mergeConsecutive y →
    mergeConsecutive (a ++ x) = mergeConsecutive (a ++ y) := by
  induction a with
  | nil => intro x y h; exact h
  | cons p r ih =>
    intro x y h
    obtain ⟨k, v⟩ := p
    exact mc_cons_congr k v _ _ (ih x y h)

/-- Merging a prefix first changes nothing. -/
theorem mc_left (a : List (Bytes × Bytes)) : ∀ b, mergeConsecutive (mergeConsecutive a ++ b) = mergeConsecutive (a ++ b) := by
  induction a with
  | nil => intro b; rfl
  | cons p r ih =>
    intro b
    obtain ⟨k, v⟩ := p
    cases hr : mergeConsecutive r with
    | nil =>
      have := mc_eq_nil r hr
      subst this
      rw [merge_cons_nil k v [] rfl]
    | cons q t =>
      obtain ⟨k', v'⟩ := q
      have hi := ih b
      rw [hr] at hi
      rw [merge_cons_cons k v k' v' r t hr]
      by_cases hk : k = k'
      · subst hk
        rw [if_pos rfl]
        have : mergeConsecutive ((k, v) :: (r ++ b)) = mergeConsecutive ((k, v) :: ((k, v') :: t ++ b)) :=
          mc_cons_congr k v _ _ hi.symm
        rw [List.cons_append, List.cons_append, this, List.cons_append, mc_cons_same]
      · rw [if_neg hk]
        exact mc_cons_congr k v _ _ hi

theorem mc_idem (a : List (Bytes × Bytes)) : mergeConsecutive (mergeConsecutive a) = mergeConsecutive a := by
  have := mc_left a []
  simpa using this

theorem reasm_eq_mc (kvs : List KV) (h : ∀ c ∈ kvs, c.key ≠ []) : (reasm [] kvs).2 = mergeConsecutive (pairs kvs) := by
  have := reassemble_eq_merge kvs h
  cases kvs with
  | nil => rfl
  | cons c r =>
    simp only [reassemble, h c (List.mem_cons_self ..), if_false, Reassembled.ok.injEq] at this
    exact this

/-- What the owner's HandleInfo gets over a list of 68 messages: each message reassembled on its own. -/
def fragsAll : List Batch → List (Bytes × Bytes)
  | [] => []
  | b :: r => frags b ++ fragsAll r

/-- FRAGMENTS ADD UP: the per-message fragments of a round, consecutive fragments of one key
concatenated, are the merged chunks of the whole round. -/
theorem fragsAll_merge (bs : List Batch) (h : ∀ c ∈ flatten bs, c.key ≠ []) :
    mergeConsecutive (fragsAll bs) = mergeConsecutive (pairs (flatten bs)) := by
  induction bs with
  | nil => rfl
  | cons b r ih =>
    have hb : ∀ c ∈ b.kvs, c.key ≠ [] := fun c hc => h c (by rw [flatten_cons]; exact List.mem_append_left _ hc)
    have hr : ∀ c ∈ flatten r, c.key ≠ [] := fun c hc => h c (by rw [flatten_cons]; exact List.mem_append_right _ hc)
    simp only [fragsAll, frags, flatten_cons, pairs_append]
    rw [reasm_eq_mc b.kvs hb, mc_left]
    exact mc_append_congr _ _ _ (ih hr)

/-- DEVICE → OWNER, ONE ROUND: for a round whose keys fit the budget, what HandleInfo is given over
the 68 messages of the round — consecutive fragments with one key concatenated — is exactly what the
device modules wrote in that round: every message complete, in order, once. -/
theorem round_stream (mtu : Nat) (script : Script) (hu : UsableMtu mtu script) :
    (allBatches .repaired mtu script).fin = .done ∧
    mergeConsecutive (fragsAll (allBatches .repaired mtu script).batches) = mergeConsecutive (messages script) := by
  have hd := repaired_done mtu script hu
  refine ⟨hd, ?_⟩
  have hk := usable_keys mtu script hu
  have hne : KeysP (fun k => k ≠ []) (St.init script) := init_keys _ script (fun k b hm => (hk k b hm).2.2)
  have hkeys := rounds_keys (fun k => k ≠ []) .repaired mtu (bodyBytes script + 1) (St.init script) hne
  have hl := lossless_of_done .repaired mtu script (fun k b hm => ⟨(hk k b hm).2.2, (hk k b hm).1⟩) hd
  unfold allBatches at hl ⊢
  rw [fragsAll_merge _ hkeys]
  rw [reassemble_eq_merge _ hkeys] at hl
  simp only [Reassembled.ok.injEq] at hl
  exact hl

/-- The events of the device log that are Receive calls. -/
def recvsOf : List DEv → List (Bytes × Bytes × Bytes)
  | [] => []
  | .recv m n b :: r => (m, n, b) :: recvsOf r
  | _ :: r => recvsOf r

theorem recvsOf_append (a b : List DEv) : recvsOf (a ++ b) = recvsOf a ++ recvsOf b := by
  induction a with
  | nil => rfl
  | cons e r ih => cases e <;> simp [recvsOf, ih]

/-- The messages that are for modules (everything but `active`), as Receive sees them. -/
def forModules (ms : List (Bytes × Bytes)) : List (Bytes × Bytes × Bytes) :=
  (ms.filter fun m => (cutKey m.1).2 ≠ nActive).map fun m => ((cutKey m.1).1, (cutKey m.1).2, m.2)

theorem handleOne_recvs (d : Dev) (key body : Bytes) (h : (handleOne d key body).err = false) :
    recvsOf (handleOne d key body).dev.log = recvsOf d.log ++ forModules [(key, body)] := by
  unfold handleOne at h ⊢
  simp only at h ⊢
  by_cases hn : (cutKey key).2 = nActive
  · simp only [if_pos hn] at h ⊢
    have hf : forModules [(key, body)] = [] := by simp [forModules, hn]
    rw [hf, List.append_nil]
    cases hb : body.head? with
    | none => rfl
    | some b =>
      simp only
      split
      · split
        all_goals
          simp only [recvsOf_append, recvsOf, List.append_nil]
          split <;> simp [recvsOf]
      · rfl
  · simp only [if_neg hn] at h ⊢
    have hf : forModules [(key, body)] = [((cutKey key).1, (cutKey key).2, body)] := by simp [forModules, hn]
    rw [hf]
    split
    · rename_i hna
      rw [if_pos hna] at h; cases h
    · split <;> simp [recvsOf_append, recvsOf]

theorem handleYield_recvs (d : Dev) : recvsOf (handleYield d).dev.log = recvsOf d.log := by
  unfold handleYield
  split
  · simp [recvsOf_append, recvsOf]
  · rfl

theorem forModules_cons (m : Bytes × Bytes) (r : List (Bytes × Bytes)) :
    forModules (m :: r) = forModules [m] ++ forModules r := by
  unfold forModules
  by_cases h : (cutKey m.1).2 ≠ nActive
  · simp [List.filter, h]
  · simp [List.filter, h]

/-- OWNER → DEVICE, DELIVERY: when no callback fails, every message that is not `active` is handed
to Receive of the module it names, in order, with its whole body, once. -/
theorem handleAll_recvs (ms : List (Bytes × Bytes)) : ∀ d, (handleAll d ms).err = false →
    recvsOf (handleAll d ms).dev.log = recvsOf d.log ++ forModules ms := by
  induction ms with
  | nil => intro d _; simp [handleAll, handleYield_recvs, forModules]
  | cons m r ih =>
    intro d h
    obtain ⟨k, b⟩ := m
    unfold handleAll at h ⊢
    simp only at h ⊢
    by_cases he : (handleOne d k b).err = true
    · rw [if_pos he] at h; rw [he] at h; cases h
    · have he' : (handleOne d k b).err = false := by simpa using he
      rw [if_neg he] at h ⊢
      simp only at h ⊢
      rw [ih _ h, handleOne_recvs d k b he', List.append_assoc]
      congr 1
      exact (forModules_cons (k, b) r).symm

/-! ### the first round in the system -/

theorem startRound_own (s : Sys) (ops : List Op) : (startRound s ops).own = s.own := by
  unfold startRound; simp only; split <;> rfl

theorem nextRound_own (s : Sys) : (nextRound s).own = s.own := by
  unfold nextRound; simp only
  split
  · rfl
  · split
    · rfl
    · rw [startRound_own]

theorem finish_own (s : Sys) : (finish s).own = s.own := by
  unfold finish; simp only
  split
  · rfl
  · split <;> rfl

/-- The steps of a round hand its 68 messages to `ownerServiceInfo` one after another. -/
theorem runN_ownFold (bs : List Batch) : ∀ (s : Sys) (o' : Own), s.phase = .run → s.pending = bs → bs ≠ [] →
    ownFold s.own bs = .ok o' → (runN bs.length s).own = o' := by
  induction bs with
  | nil => intro s o' _ _ h; exact absurd rfl h
  | cons b r ih =>
    intro s o' hph hp _ hf
    simp only [ownFold] at hf
    cases hos : ownStep s.own b with
    | reject => rw [hos] at hf; cases hf
    | panic x => rw [hos] at hf; cases hf
    | ok p =>
      obtain ⟨own', reply⟩ := p
      rw [hos] at hf
      simp only at hf
      simp only [List.length_cons, runN]
      have hstep : step s = (match s.phase, s.pending with
        | .run, b :: rest =>
          match ownStep s.own b with
          | .reject => { s with phase := .failed, n68 := s.n68 + 1 }
          | .panic site => { s with phase := .panicked site, n68 := s.n68 + 1 }
          | .ok (own', reply) =>
            let s1 := { s with own := own', inbox := s.inbox ++ reply.kvs, n68 := s.n68 + 1 }
            if rest ≠ [] then { s1 with pending := rest }
            else if b.more ∨ reply.more then { s1 with pending := [⟨false, []⟩] }
            else if reply.done then finish { s1 with pending := [] }
            else nextRound { s1 with pending := [] }
        | _, _ => s) := rfl
      cases r with
      | nil =>
        simp only [ownFold, Out.ok.injEq] at hf
        subst hf
        simp only [List.length_nil, runN]
        rw [hstep, hph, hp]
        simp only [hos, ne_eq, not_true_eq_false, if_false]
        split
        · rfl
        · split
          · rw [finish_own]
          · rw [nextRound_own]
      | cons c t =>
        have : step s = { s with own := own', inbox := s.inbox ++ reply.kvs, n68 := s.n68 + 1,
                                 pending := c :: t } := by
          rw [hstep, hph, hp]
          simp [hos]
        rw [this]
        exact ih _ o' hph rfl (by simp) hf

/-! ### no panics in the repaired code -/

theorem parseModules_no_panic (f : Nat) : ∀ (mods : List Bytes) (body : Bytes) (site : String),
    parseModules .repaired f mods body ≠ .panic site := by
  induction f with
  | zero =>
    intro mods body site
    cases body <;> simp [parseModules]
  | succ f ih =>
    intro mods body site
    cases body with
    | nil => simp [parseModules]
    | cons b bs =>
      simp only [parseModules]
      split
      · simp
      · split
        · simp
        · split
          · exact ih _ _ _
          · simp
          · rename_i hc
            exfalso
            unfold applyChunk at hc
            simp only [Fixes.repaired, if_true] at hc
            split at hc
            · cases hc
            · split at hc
              · cases hc
              · split at hc <;> cases hc

theorem handleNum_no_panic (n : Int) (s : String) : handleNum .repaired n ≠ .panic s := by
  unfold handleNum
  simp only [Fixes.repaired, if_true]
  split <;> simp

theorem dmProduce_no_panic (d : DmState) (s : String) : dmProduce d ≠ .panic s := by
  unfold dmProduce
  split
  · simp
  · split
    · simp
    · split <;> simp

end Fdo.Svc.Rounds
