import Fdo.Bytes
import Fdo.Cbor.Item
/-
Service-info chunking (serviceinfo/chunk.go, serviceinfo/serviceinfo.go, the packing loop of
to2.go exchangeServiceInfoRound) as sequential stream functions.

Producer side  : `UnchunkWriter.NextServiceInfo / Write / ForceNewMessage / Close`  → `Op`, `compile`
Pipes          : every `NextServiceInfo` / `ForceNewMessage` sends one reader down the channel;
                 a `Step.msg key body` is a reader that delivers `encHead 3 |key| ++ key ++ body`
                 and then EOF, a `Step.yield` is a reader that delivers EOF at once.
Chunker        : `ChunkReader.ReadChunk`  → `readChunk`
Packing        : `exchangeServiceInfoRound` → `pack` (one DeviceServiceInfo message) and `rounds`
                 (the recursion while IsMoreServiceInfo is set)
Reassembly     : `ChunkWriter.WriteChunk` + `UnchunkReader.NextServiceInfo` → `reasm`, `reassemble`

Blocking reads on `io.Pipe` / `bufPipe` and the goroutine schedule are *not* modelled: a blocking
read of a stream written by somebody else is the function of the bytes eventually written
(Kahn); that the real code behaves like this function under schedules is evidenced by the
harness, not proved.

The code exists in two states, selected by a `Variant`:
  * `Variant.repaired` – the committed behaviour (after the two `fix:` commits, see below);
  * `Variant.original` – the tree as found: the key is read through
    `io.LimitReader(r, int64(size-7))` with `size : uint16` (wraps below 7) and a forced message
    break is always reported, also when the message being filled is still empty.
-/
namespace Fdo.Svc.Chunk
open Fdo Fdo.Cbor

/-! ### producer -/

/-- One reader sent down the channel. -/
inductive Step where
  | msg (key body : Bytes)
  | yield
  deriving DecidableEq, Repr

abbrev Script := List Step

/-- Calls a module makes on the `UnchunkWriter`. -/
inductive Op where
  | next (key : Bytes)      -- NextServiceInfo(module, message), key = module ":" message
  | write (b : Bytes)       -- Write(b)
  | yield                   -- ForceNewMessage()
  deriving DecidableEq, Repr

/-- Bytes written into the pipe that is open at the start of the suffix, and the readers opened
afterwards.  A `Write` after `ForceNewMessage` goes to a pipe whose write end is already closed
(it fails and the bytes are dropped). -/
def compileAux : List Op → Bytes × Script
  | [] => ([], [])
  | .write b :: r => let (p, s) := compileAux r; (b ++ p, s)
  | .next k :: r => let (p, s) := compileAux r; ([], .msg k p :: s)
  | .yield :: r => let (_, s) := compileAux r; ([], .yield :: s)

/-- The readers a run of producer calls creates (`Close` at the end closes the channel). -/
def compile (ops : List Op) : Script := (compileAux ops).2

/-- The logical messages of a script, in order. A message whose body is empty never produces a
chunk (`io.ReadFull` returns 0, `ReadChunk` moves on), so it is not counted. -/
def messages : Script → List (Bytes × Bytes)
  | [] => []
  | .msg k b :: r => if b = [] then messages r else (k, b) :: messages r
  | .yield :: r => messages r

/-! ### sizes -/

structure KV where
  key : Bytes
  val : Bytes
  deriving DecidableEq, Repr

/-- `cborEncodedLen`: head + payload for lengths below 65536 (the code panics above). -/
def strSize (n : Nat) : Nat :=
  if n < 24 then 1 + n else if n < 256 then 2 + n else 3 + n

/-- `KV.Size`. The code computes in `uint16`; `chunk_fits` shows the value stays below the
`uint16` budget it is subtracted from, so no wrap-around is ever observed. -/
def kvSize (c : KV) : Nat := 1 + strSize c.key.length + strSize c.val.length

def sumSize : List KV → Nat
  | [] => 0
  | c :: cs => kvSize c + sumSize cs

def arrHead (n : Nat) : Nat := if n < 24 then 1 else if n < 256 then 2 else 3

/-- `ArraySizeCBOR`. -/
def arraySize (cs : List KV) : Nat := arrHead cs.length + sumSize cs

/-- Encoded size of `deviceServiceInfo{IsMore, ServiceInfo}`: array-of-two head, one bool, the array. -/
def msgSize (cs : List KV) : Nat := 2 + arraySize cs

/-- `len(r.rkey)`: the key as the producer's CBOR encoder wrote it, head + bytes. -/
def rawKeyLen (k : Bytes) : Nat := (encHead 3 k.length).length + k.length

/-! ### variants of the code -/

/-- Outcome of `cbor.NewDecoder(io.LimitReader(r, limit)).Decode(&r.rkey)` on a reader holding a
complete key. -/
inductive KeyRead where
  | ok
  | eof       -- io.EOF: treated like a forced message break, the reader is dropped
  | fail      -- any other error (unexpected EOF in the middle of the key)
  deriving DecidableEq, Repr

structure Variant where
  /-- byte limit put on the key read, as a function of `size` -/
  keyLimit : Nat → Nat
  /-- a forced message break is skipped while the current message is still empty -/
  skipLeadingBreak : Bool

/-- `int64(size-7)` with `size : uint16`. -/
def wrap16sub7 (size : Nat) : Nat := (size % 65536 + 65536 - 7) % 65536

def Variant.original : Variant := ⟨wrap16sub7, false⟩
def Variant.repaired : Variant := ⟨fun _ => 65535, true⟩

/-- Where a key of `klen` bytes read through a limit ends.  `typeInfo` reads the first byte with
`Read` and the argument bytes with `io.ReadFull`; `readBytes` reads the payload with
`io.ReadFull` (≤ 4096 bytes) or `io.ReadAll` + length check.  `io.ReadFull` yields `io.EOF` only
when nothing at all could be read. -/
def keyRead (limit klen : Nat) : KeyRead :=
  let h := (encHead 3 klen).length
  if h + klen ≤ limit then .ok
  else if limit = 0 then .eof
  else if limit < h then (if limit = 1 then .eof else .fail)
  else if limit = h ∧ klen ≤ 4096 then .eof
  else .fail

/-! ### ChunkReader -/

structure St where
  /-- readers still in the channel -/
  queue : Script
  /-- `r.r` with `r.key`: key of the reader being chunked and its unread bytes -/
  cur : Option (Bytes × Bytes)
  /-- `r.inMessage`: a KV has been returned since the last `ErrSizeTooSmall` (repaired code only;
  the original code has no such field and the original variant never looks at it) -/
  mid : Bool
  deriving DecidableEq, Repr

def St.init (s : Script) : St := ⟨s, none, false⟩

inductive Res where
  | kv (c : KV)
  | eof
  | tooSmall
  | fail
  deriving DecidableEq, Repr

/-- `int(size) - maxOverhead`, 0 when that is ≤ 0: how many value bytes may be read. -/
def avail (size : Nat) (key : Bytes) : Nat :=
  let o0 := 1 + rawKeyLen key + 1
  let o1 := if size ≥ o0 + 24 then o0 + 1 else o0
  let o2 := if size ≥ o1 + 256 then o1 + 1 else o1
  size - o2

/-- The part of `ReadChunk` after the key is known, for a reader with unread bytes `rest`.
`none`: nothing could be read (`n == 0`), the caller recurses with `r.r = nil`. -/
def readBody (size : Nat) (key rest : Bytes) (queue : Script) : Option (Res × St) :=
  let a := avail size key
  if a = 0 then some (.tooSmall, ⟨queue, some (key, rest), false⟩)
  else if rest.length < a then
    -- io.EOF / io.ErrUnexpectedEOF: r.r = nil
    if rest = [] then none else some (.kv ⟨key, rest⟩, ⟨queue, none, true⟩)
  else some (.kv ⟨key, rest.take a⟩, ⟨queue, some (key, rest.drop a), true⟩)

/-- `ReadChunk` entered with `r.r == nil`: take readers from the channel. -/
def readNext (V : Variant) (size : Nat) (mid : Bool) : Script → Res × St
  | [] => (.eof, ⟨[], none, mid⟩)
  | .yield :: q =>
    if V.skipLeadingBreak && !mid then readNext V size mid q
    else (.tooSmall, ⟨q, none, false⟩)
  | .msg k b :: q =>
    match keyRead (V.keyLimit size) k.length with
    | .fail => (.fail, ⟨q, none, mid⟩)
    | .eof =>
      if V.skipLeadingBreak && !mid then readNext V size mid q
      else (.tooSmall, ⟨q, none, false⟩)
    | .ok =>
      match readBody size k b q with
      | some r => r
      | none => readNext V size mid q

/-- `ChunkReader.ReadChunk(size)`. -/
def readChunk (V : Variant) (st : St) (size : Nat) : Res × St :=
  match st.cur with
  | none => readNext V size st.mid st.queue
  | some (key, rest) =>
    match readBody size key rest st.queue with
    | some r => r
    | none => readNext V size st.mid st.queue

/-! ### exchangeServiceInfoRound -/

inductive PackEnd where
  | eof        -- io.EOF: message sent with IsMore = false, round over
  | more       -- ErrSizeTooSmall with maxRead ≠ mtu: IsMore = true
  | stop       -- ErrSizeTooSmall with maxRead = mtu: IsMore = false, round over
  | fail       -- other error: nothing sent, the round returns the error
  | fuel       -- iteration bound hit; never the case in the usable range (`pack_progress`); makes the function total
  deriving DecidableEq, Repr

/-- The `for` loop filling one `deviceServiceInfo`; the first argument bounds the iterations
(every KV takes at least one byte of the budget, so `maxRead + 1` is enough). -/
def pack (V : Variant) (mtu : Nat) : Nat → Nat → St → List KV × PackEnd × St
  | 0, _, st => ([], .fuel, st)
  | f+1, maxRead, st =>
    match readChunk V st maxRead with
    | (.eof, st') => ([], .eof, st')
    | (.tooSmall, st') => ([], if maxRead = mtu then .stop else .more, st')
    | (.fail, st') => ([], .fail, st')
    | (.kv c, st') =>
      let r := pack V mtu f (maxRead - kvSize c) st'
      (c :: r.1, r.2.1, r.2.2)

structure Batch where
  more : Bool
  kvs : List KV
  deriving DecidableEq, Repr

inductive End where
  | done        -- the reader reported io.EOF: everything written has been sent
  | stopped     -- round ended by the "maxRead == mtu" rule with the channel not drained
  | failed      -- ReadChunk error, exchange fails
  | fuel
  deriving DecidableEq, Repr

structure Run where
  batches : List Batch
  fin : End
  st : St
  deriving DecidableEq, Repr

/-- The recursion of `exchangeServiceInfoRound` (the owner answers every message with
IsMore = false, no service info). -/
def rounds (V : Variant) (mtu : Nat) : Nat → St → Run
  | 0, st => ⟨[], .fuel, st⟩
  | f+1, st =>
    match pack V mtu (mtu + 1) mtu st with
    | (cs, .eof, st') => ⟨[⟨false, cs⟩], .done, st'⟩
    | (cs, .stop, st') => ⟨[⟨false, cs⟩], .stopped, st'⟩
    | (_, .fail, st') => ⟨[], .failed, st'⟩
    | (_, .fuel, st') => ⟨[], .fuel, st'⟩
    | (cs, .more, st') =>
      let r := rounds V mtu f st'
      ⟨⟨true, cs⟩ :: r.batches, r.fin, r.st⟩

/-- Body bytes not yet chunked. Every message with IsMore = true carries at least one of them. -/
def bodyBytes : Script → Nat
  | [] => 0
  | .msg _ b :: r => b.length + bodyBytes r
  | .yield :: r => bodyBytes r

def St.weight (st : St) : Nat :=
  bodyBytes st.queue + (match st.cur with | some (_, r) => r.length | none => 0)

/-- One call of `exchangeServiceInfoRound(ctx, transport, mtu, r, w, sess)` on a fresh pipe that
the producer fills with `script`.  `mtu` is the budget the function is given (TO2 passes the
negotiated size minus 5). -/
def allBatches (V : Variant) (mtu : Nat) (script : Script) : Run :=
  rounds V mtu (bodyBytes script + 1) (St.init script)

def flatten : List Batch → List KV
  | [] => []
  | b :: bs => b.kvs ++ flatten bs

/-! ### ChunkWriter / UnchunkReader -/

/-- `WriteChunk` over a list of chunks, `prev = w.prevKey`: the bytes appended to the pipe that
is open on entry, and the (key, body) pairs of the pipes opened afterwards. -/
def reasm (prev : Bytes) : List KV → Bytes × List (Bytes × Bytes)
  | [] => ([], [])
  | c :: cs =>
    if c.key = prev then
      let r := reasm prev cs
      (c.val ++ r.1, r.2)
    else
      let r := reasm c.key cs
      ([], (c.key, c.val ++ r.1) :: r.2)

inductive Reassembled where
  | ok (msgs : List (Bytes × Bytes))
  | panic          -- first chunk has the empty key = initial prevKey: `w.w.Write` on a nil pipe
  deriving DecidableEq, Repr

/-- All chunks through `WriteChunk`, then `Close`; the consumer reads every `NextServiceInfo`
to EOF. -/
def reassemble (cs : List KV) : Reassembled :=
  match cs with
  | [] => .ok []
  | c :: _ => if c.key = [] then .panic else .ok (reasm [] cs).2

/-- Reference: consecutive messages with equal keys are one message. -/
def mergeConsecutive : List (Bytes × Bytes) → List (Bytes × Bytes)
  | [] => []
  | (k, v) :: rest =>
    match mergeConsecutive rest with
    | (k', v') :: t => if k = k' then (k, v ++ v') :: t else (k, v) :: (k', v') :: t
    | [] => [(k, v)]

/-! ### the guard -/

/-- Every key fits into an otherwise empty message with at least one value byte, is not empty
(`NextServiceInfo` always writes `module ":" message`) and the budget is a `uint16`. -/
def usable (mtu : Nat) (s : Script) : Bool :=
  decide (mtu < 65536) && s.all fun
    | .msg k _ => decide (1 ≤ k.length) && decide (rawKeyLen k + 3 ≤ mtu)
    | .yield => true

def UsableMtu (mtu : Nat) (s : Script) : Prop := usable mtu s = true

instance (mtu : Nat) (s : Script) : Decidable (UsableMtu mtu s) := by
  unfold UsableMtu; infer_instance

end Fdo.Svc.Chunk
