import Fdo.Svc.Chunk
/-
Helper lemmas for C15 (Props/C15.lean holds the property theorems).
-/
namespace Fdo.Svc.Chunk
open Fdo Fdo.Cbor

/-! ### sizes -/

theorem encHead_length (mt n : Nat) :
    (encHead mt n).length =
      if n < 24 then 1 else if n < 256 then 2 else if n < 65536 then 3
      else if n < 4294967296 then 5 else 9 := by
  unfold encHead
  by_cases h1 : n < 24
  · simp [h1]
  by_cases h2 : n < 256
  · simp [h1, h2]
  by_cases h3 : n < 65536
  · simp [h1, h2, h3]
  by_cases h4 : n < 4294967296
  · simp [h1, h2, h3, h4]
  · simp [h1, h2, h3, h4]

theorem rawKeyLen_eq (k : Bytes) :
    rawKeyLen k = k.length +
      (if k.length < 24 then 1 else if k.length < 256 then 2 else if k.length < 65536 then 3
       else if k.length < 4294967296 then 5 else 9) := by
  unfold rawKeyLen; rw [encHead_length]; omega

theorem strSize_le_rawKeyLen (k : Bytes) : strSize k.length ≤ rawKeyLen k := by
  rw [rawKeyLen_eq]; unfold strSize
  repeat' split
  all_goals omega

theorem rawKeyLen_pos (k : Bytes) : 1 ≤ rawKeyLen k := by
  rw [rawKeyLen_eq]; split <;> omega

/-- A value of `n ≥ 1` bytes that fits `avail` gives a KV that fits `size`: the two optional
head bytes are exactly accounted for. -/
theorem kvSize_le_of_avail (size : Nat) (key val : Bytes)
    (h : val.length ≤ avail size key) : val.length = 0 ∨ kvSize ⟨key, val⟩ ≤ size := by
  have hk := strSize_le_rawKeyLen key
  unfold avail at h
  unfold kvSize
  simp only at h ⊢
  generalize rawKeyLen key = rk at *
  generalize strSize key.length = sk at *
  generalize val.length = n at *
  unfold strSize
  split at h <;> split at h <;> split <;> (try split) <;> omega

theorem avail_le (size : Nat) (key : Bytes) : avail size key ≤ size := by
  unfold avail; simp only; omega

theorem kvSize_pos (c : KV) : 1 ≤ kvSize c := by unfold kvSize; omega

/-- `avail` is positive exactly when the key plus three bytes fit. -/
theorem avail_pos_iff (size : Nat) (key : Bytes) : 0 < avail size key ↔ rawKeyLen key + 3 ≤ size := by
  unfold avail
  simp only
  generalize rawKeyLen key = rk
  split <;> split <;> omega

/-! ### ReadChunk: shape of the results -/

theorem readBody_spec (size : Nat) (key rest : Bytes) (q : Script) :
    (avail size key = 0 ∧ readBody size key rest q = some (.tooSmall, ⟨q, some (key, rest), false⟩)) ∨
    (0 < avail size key ∧ rest = [] ∧ readBody size key rest q = none) ∨
    (0 < avail size key ∧ rest ≠ [] ∧ rest.length < avail size key ∧
      readBody size key rest q = some (.kv ⟨key, rest⟩, ⟨q, none, true⟩)) ∨
    (0 < avail size key ∧ avail size key ≤ rest.length ∧
      readBody size key rest q =
        some (.kv ⟨key, rest.take (avail size key)⟩, ⟨q, some (key, rest.drop (avail size key)), true⟩)) := by
  unfold readBody
  simp only
  by_cases h0 : avail size key = 0
  · left; simp [h0]
  · right
    have hp : 0 < avail size key := Nat.pos_of_ne_zero h0
    by_cases h1 : rest.length < avail size key
    · by_cases h2 : rest = []
      · left; simp [h0, h2, hp]
      · right; left; simp [h0, h1, h2, hp]
    · right; right; simp [h0, h1, hp]; omega

/-- What a KV returned by the body read looks like. -/
theorem readBody_kv (size : Nat) (key rest : Bytes) (q : Script) (c : KV) (st' : St)
    (h : readBody size key rest q = some (.kv c, st')) :
    c.key = key ∧ 1 ≤ c.val.length ∧ kvSize c ≤ size ∧ st'.queue = q ∧ st'.mid = true ∧
    ((st'.cur = none ∧ rest = c.val) ∨ (∃ r', st'.cur = some (key, r') ∧ rest = c.val ++ r')) := by
  rcases readBody_spec size key rest q with ⟨_, hb⟩ | ⟨_, _, hb⟩ | ⟨hp, hne, hlt, hb⟩ | ⟨hp, hle, hb⟩
  · rw [hb] at h; simp at h
  · rw [hb] at h; simp at h
  · rw [hb] at h
    simp only [Option.some.injEq, Prod.mk.injEq, Res.kv.injEq] at h
    obtain ⟨hc, hs⟩ := h
    subst hc; subst hs
    have hlen : 1 ≤ rest.length := by
      cases rest with
      | nil => exact absurd rfl hne
      | cons a t => simp
    refine ⟨rfl, hlen, ?_, rfl, rfl, Or.inl ⟨rfl, rfl⟩⟩
    rcases kvSize_le_of_avail size key rest (Nat.le_of_lt hlt) with h0 | h1
    · omega
    · exact h1
  · rw [hb] at h
    simp only [Option.some.injEq, Prod.mk.injEq, Res.kv.injEq] at h
    obtain ⟨hc, hs⟩ := h
    subst hc; subst hs
    have hl : (rest.take (avail size key)).length = avail size key := by
      rw [List.length_take]; omega
    refine ⟨rfl, by simp only; omega, ?_, rfl, rfl, Or.inr ⟨_, rfl, (List.take_append_drop _ _).symm⟩⟩
    rcases kvSize_le_of_avail size key (rest.take (avail size key)) (by omega) with h0 | h1
    · omega
    · exact h1

theorem readBody_small (size : Nat) (key rest : Bytes) (q : Script) (st' : St)
    (h : readBody size key rest q = some (.tooSmall, st')) :
    st' = ⟨q, some (key, rest), false⟩ ∧ avail size key = 0 := by
  rcases readBody_spec size key rest q with ⟨h0, hb⟩ | ⟨_, _, hb⟩ | ⟨_, _, _, hb⟩ | ⟨_, _, hb⟩
  all_goals (rw [hb] at h; simp at h)
  exact ⟨h.symm, h0⟩

theorem readBody_not_eof (size : Nat) (key rest : Bytes) (q : Script) (st' : St) :
    readBody size key rest q ≠ some (.eof, st') := by
  rcases readBody_spec size key rest q with ⟨_, hb⟩ | ⟨_, _, hb⟩ | ⟨_, _, _, hb⟩ | ⟨_, _, hb⟩
  all_goals (rw [hb]; simp)

theorem readBody_not_fail (size : Nat) (key rest : Bytes) (q : Script) (st' : St) :
    readBody size key rest q ≠ some (.fail, st') := by
  rcases readBody_spec size key rest q with ⟨_, hb⟩ | ⟨_, _, hb⟩ | ⟨_, _, _, hb⟩ | ⟨_, _, hb⟩
  all_goals (rw [hb]; simp)

theorem readBody_none (size : Nat) (key rest : Bytes) (q : Script)
    (h : readBody size key rest q = none) : rest = [] ∧ 0 < avail size key := by
  rcases readBody_spec size key rest q with ⟨_, hb⟩ | ⟨hp, he, hb⟩ | ⟨_, _, _, hb⟩ | ⟨_, _, hb⟩
  all_goals (rw [hb] at h; try simp at h)
  exact ⟨he, hp⟩

theorem readNext_fits (V : Variant) (size : Nat) (mid : Bool) (q : Script) (c : KV) (st' : St)
    (h : readNext V size mid q = (.kv c, st')) : kvSize c ≤ size ∧ 1 ≤ c.val.length := by
  fun_induction readNext V size mid q
  all_goals (try simp at h)
  all_goals (try (rename_i ih; exact ih h))
  rename_i hb
  subst h
  have := readBody_kv _ _ _ _ _ _ hb
  exact ⟨this.2.2.1, this.2.1⟩

theorem readChunk_fits (V : Variant) (st : St) (size : Nat) (c : KV) (st' : St)
    (h : readChunk V st size = (.kv c, st')) : kvSize c ≤ size ∧ 1 ≤ c.val.length := by
  unfold readChunk at h
  split at h
  · exact readNext_fits _ _ _ _ _ _ h
  · split at h
    · rename_i hb
      subst h
      have := readBody_kv _ _ _ _ _ _ hb
      exact ⟨this.2.2.1, this.2.1⟩
    · exact readNext_fits _ _ _ _ _ _ h

/-! ### budget -/

theorem pack_sum (V : Variant) (mtu f maxRead : Nat) (st : St) :
    sumSize (pack V mtu f maxRead st).1 ≤ maxRead := by
  induction f generalizing maxRead st with
  | zero => simp [pack, sumSize]
  | succ f ih =>
    unfold pack
    split
    · simp [sumSize]
    · simp [sumSize]
    · simp [sumSize]
    · rename_i c st' hr
      have hf := (readChunk_fits V st maxRead c st' hr).1
      have := ih (maxRead - kvSize c) st'
      simp only [sumSize]
      omega

theorem rounds_sum (V : Variant) (mtu f : Nat) (st : St) :
    ∀ b ∈ (rounds V mtu f st).batches, sumSize b.kvs ≤ mtu := by
  induction f generalizing st with
  | zero => simp [rounds]
  | succ f ih =>
    unfold rounds
    have hp := pack_sum V mtu (mtu + 1) mtu st
    split
    all_goals (rename_i heq; rw [heq] at hp; simp only at hp)
    · intro b hb; simp at hb; subst hb; exact hp
    · intro b hb; simp at hb; subst hb; exact hp
    · simp
    · simp
    · intro b hb
      simp only [List.mem_cons] at hb
      rcases hb with hb | hb
      · subst hb; exact hp
      · exact ih _ b hb

theorem arrHead_le (n : Nat) : arrHead n ≤ 3 := by unfold arrHead; split <;> (try split) <;> omega
/-! ### what is still to be delivered -/

/-- The chunk a reader with key `k` and unread bytes `r` still owes (none when it is exhausted). -/
def curKVs : Option (Bytes × Bytes) → List KV
  | some (k, r) => if r = [] then [] else [⟨k, r⟩]
  | none => []

/-- The script's non-empty messages as whole KVs. -/
def kvsOf : Script → List KV
  | [] => []
  | .msg k b :: r => curKVs (some (k, b)) ++ kvsOf r
  | .yield :: r => kvsOf r

def content (st : St) : List KV := curKVs st.cur ++ kvsOf st.queue

def pairs (cs : List KV) : List (Bytes × Bytes) := cs.map fun c => (c.key, c.val)

theorem messages_eq (s : Script) : messages s = pairs (kvsOf s) := by
  induction s with
  | nil => rfl
  | cons x r ih =>
    cases x with
    | yield => simpa [messages, kvsOf] using ih
    | msg k b =>
      by_cases hb : b = []
      · simp [messages, kvsOf, curKVs, hb, ih]
      · simp [messages, kvsOf, curKVs, hb, ih, pairs]

/-- Two chunk lists that `WriteChunk` cannot tell apart, whatever it wrote before. -/
def Eqv (xs ys : List KV) : Prop := ∀ prev, reasm prev xs = reasm prev ys

theorem Eqv.refl (xs : List KV) : Eqv xs xs := fun _ => rfl
theorem Eqv.trans {xs ys zs : List KV} (h1 : Eqv xs ys) (h2 : Eqv ys zs) : Eqv xs zs :=
  fun p => (h1 p).trans (h2 p)
theorem Eqv.symm {xs ys : List KV} (h : Eqv xs ys) : Eqv ys xs := fun p => (h p).symm

theorem Eqv.cons (c : KV) {xs ys : List KV} (h : Eqv xs ys) : Eqv (c :: xs) (c :: ys) := by
  intro prev
  simp only [reasm]
  rw [h prev, h c.key]

theorem Eqv.append_left (pre : List KV) {xs ys : List KV} (h : Eqv xs ys) : Eqv (pre ++ xs) (pre ++ ys) := by
  induction pre with
  | nil => exact h
  | cons c t ih => exact Eqv.cons c ih

/-- Splitting a value into two consecutive chunks with the same key is invisible. -/
theorem Eqv.glue (k a b : Bytes) (rest : List KV) :
    Eqv (⟨k, a ++ b⟩ :: rest) (⟨k, a⟩ :: ⟨k, b⟩ :: rest) := by
  intro prev
  by_cases hk : k = prev
  · simp [reasm, hk, List.append_assoc]
  · simp [reasm, hk, List.append_assoc]

theorem curKVs_cons_eqv (k a r : Bytes) (ha : a ≠ []) (rest : List KV) :
    Eqv (curKVs (some (k, a ++ r)) ++ rest) (⟨k, a⟩ :: (curKVs (some (k, r)) ++ rest)) := by
  have hne : a ++ r ≠ [] := by
    intro h; exact ha (List.append_eq_nil_iff.mp h).1
  by_cases hr : r = []
  · subst hr; simp [curKVs, ha]; exact Eqv.refl _
  · simp only [curKVs, hne, hr, if_false, List.cons_append, List.nil_append]
    exact Eqv.glue k a r rest

theorem readBody_content (size : Nat) (key rest : Bytes) (q : Script) (c : KV) (st' : St)
    (h : readBody size key rest q = some (.kv c, st')) :
    Eqv (curKVs (some (key, rest)) ++ kvsOf q) (c :: content st') := by
  obtain ⟨hck, hlen, _, hq, _, hcur⟩ := readBody_kv _ _ _ _ _ _ h
  have hne : c.val ≠ [] := by intro h0; rw [h0] at hlen; simp at hlen
  have hc : c = ⟨key, c.val⟩ := by cases c; simp at hck; simp [hck]
  rcases hcur with ⟨hn, hr⟩ | ⟨r', hs, hr⟩
  · unfold content; rw [hn, hq, hr, hc]; simp [curKVs, hne]; exact Eqv.refl _
  · unfold content; rw [hs, hq, hr, hc]
    exact curKVs_cons_eqv key c.val r' hne _

/-- Every key still in the channel can be read in full under the variant's limit. -/
def Readable (V : Variant) (q : Script) : Prop :=
  ∀ k b, Step.msg k b ∈ q → ∀ size, keyRead (V.keyLimit size) k.length = .ok

theorem Readable.tail {V : Variant} {x : Step} {q : Script} (h : Readable V (x :: q)) : Readable V q :=
  fun k b hm => h k b (List.mem_cons_of_mem _ hm)

theorem readNext_content (V : Variant) (size : Nat) (mid : Bool) (q : Script) (res : Res) (st' : St)
    (hk : Readable V q) (h : readNext V size mid q = (res, st')) :
    res ≠ .fail ∧
    (∀ c, res = .kv c → Eqv (kvsOf q) (c :: content st')) ∧
    (res = .tooSmall → content st' = kvsOf q) ∧
    (res = .eof → kvsOf q = [] ∧ content st' = []) := by
  fun_induction readNext V size mid q
  · -- channel closed
    simp only [Prod.mk.injEq] at h; obtain ⟨h1, h2⟩ := h; subst h1; subst h2
    simp [content, curKVs, kvsOf]
  · -- yield skipped
    rename_i ih
    simpa [kvsOf] using ih hk.tail h
  · -- yield reported
    simp only [Prod.mk.injEq] at h; obtain ⟨h1, h2⟩ := h; subst h1; subst h2
    simp [content, curKVs, kvsOf]
  · -- key read fails: excluded
    rename_i hkr
    have := hk _ _ (List.mem_cons_self) size
    rw [this] at hkr; cases hkr
  · rename_i hkr _ _
    have := hk _ _ (List.mem_cons_self) size
    rw [this] at hkr; cases hkr
  · rename_i hkr _
    have := hk _ _ (List.mem_cons_self) size
    rw [this] at hkr; cases hkr
  · -- body read returns something
    rename_i k b q' _ r hb
    subst h
    cases res with
    | kv c =>
      refine ⟨by simp, ?_, by simp, by simp⟩
      intro c' hc'; cases hc'
      simpa [kvsOf] using readBody_content _ _ _ _ _ _ hb
    | tooSmall =>
      refine ⟨by simp, by simp, ?_, by simp⟩
      intro _
      rw [(readBody_small _ _ _ _ _ hb).1]
      simp [content, kvsOf]
    | eof => exact absurd hb (readBody_not_eof _ _ _ _ _)
    | fail => exact absurd hb (readBody_not_fail _ _ _ _ _)
  · -- empty body: the message vanishes
    rename_i k b q' _ hb ih
    have hbe := (readBody_none _ _ _ _ hb).1
    have := ih hk.tail h
    simpa [kvsOf, curKVs, hbe] using this

theorem readChunk_content (V : Variant) (st : St) (size : Nat) (res : Res) (st' : St)
    (hk : Readable V st.queue) (h : readChunk V st size = (res, st')) :
    res ≠ .fail ∧
    (∀ c, res = .kv c → Eqv (content st) (c :: content st')) ∧
    (res = .tooSmall → content st' = content st) ∧
    (res = .eof → content st = [] ∧ content st' = []) := by
  unfold readChunk at h
  split at h
  · rename_i hc
    have := readNext_content V size st.mid st.queue res st' hk h
    simpa [content, hc, curKVs] using this
  · rename_i key rest hc
    split at h
    · rename_i r hb
      subst h
      cases res with
      | kv c =>
        refine ⟨by simp, ?_, by simp, by simp⟩
        intro c' hc'; cases hc'
        simpa [content, hc] using readBody_content _ _ _ _ _ _ hb
      | tooSmall =>
        refine ⟨by simp, by simp, ?_, by simp⟩
        intro _
        rw [(readBody_small _ _ _ _ _ hb).1]
        simp [content, hc]
      | eof => exact absurd hb (readBody_not_eof _ _ _ _ _)
      | fail => exact absurd hb (readBody_not_fail _ _ _ _ _)
    · rename_i hb
      have hbe := (readBody_none _ _ _ _ hb).1
      have := readNext_content V size st.mid st.queue res st' hk h
      simpa [content, hc, curKVs, hbe] using this

/-! ### keys, queue, weight, the `mid` flag -/

theorem readBody_shape (size : Nat) (key rest : Bytes) (q : Script) (res : Res) (st' : St)
    (h : readBody size key rest q = some (res, st')) :
    st'.queue = q ∧ (∀ k r, st'.cur = some (k, r) → k = key ∧ r.length ≤ rest.length) ∧
    (∀ c, res = .kv c → c.key = key ∧ st'.mid = true ∧
      (match st'.cur with | some (_, r) => r.length | none => 0) + c.val.length = rest.length) ∧
    (res = .tooSmall → st'.mid = false ∧ st'.cur = some (key, rest)) := by
  rcases readBody_spec size key rest q with ⟨_, hb⟩ | ⟨_, _, hb⟩ | ⟨_, _, _, hb⟩ | ⟨_, hle, hb⟩
  all_goals (rw [hb] at h; simp only [Option.some.injEq, Prod.mk.injEq, reduceCtorEq] at h)
  · obtain ⟨h1, h2⟩ := h; subst h1; subst h2; simp
  · obtain ⟨h1, h2⟩ := h; subst h1; subst h2; simp
  · obtain ⟨h1, h2⟩ := h; subst h1; subst h2
    simp [List.length_take, List.length_drop]; omega

/-- A predicate on keys that holds for everything still to be chunked. -/
def KeysP (P : Bytes → Prop) (st : St) : Prop :=
  (∀ k b, Step.msg k b ∈ st.queue → P k) ∧ (∀ k r, st.cur = some (k, r) → P k)

theorem readNext_keys (P : Bytes → Prop) (V : Variant) (size : Nat) (mid : Bool) (q : Script)
    (res : Res) (st' : St) (hq : ∀ k b, Step.msg k b ∈ q → P k)
    (h : readNext V size mid q = (res, st')) :
    KeysP P st' ∧ (∀ c, res = .kv c → P c.key) := by
  have tl : ∀ {x : Step} {q' : Script}, (∀ k b, Step.msg k b ∈ x :: q' → P k) →
      ∀ k b, Step.msg k b ∈ q' → P k := fun hh k b hm => hh k b (List.mem_cons_of_mem _ hm)
  fun_induction readNext V size mid q
  · simp only [Prod.mk.injEq] at h; obtain ⟨h1, h2⟩ := h; subst h1; subst h2
    simp [KeysP]
  · rename_i ih; exact ih (tl hq) h
  · simp only [Prod.mk.injEq] at h; obtain ⟨h1, h2⟩ := h; subst h1; subst h2
    exact ⟨⟨tl hq, by simp⟩, by simp⟩
  · simp only [Prod.mk.injEq] at h; obtain ⟨h1, h2⟩ := h; subst h1; subst h2
    exact ⟨⟨tl hq, by simp⟩, by simp⟩
  · rename_i ih; exact ih (tl hq) h
  · simp only [Prod.mk.injEq] at h; obtain ⟨h1, h2⟩ := h; subst h1; subst h2
    exact ⟨⟨tl hq, by simp⟩, by simp⟩
  · rename_i k b q' _ r hb
    subst h
    obtain ⟨hq', hcur, hkv, _⟩ := readBody_shape _ _ _ _ _ _ hb
    have hPk : P k := hq k b List.mem_cons_self
    refine ⟨⟨?_, ?_⟩, ?_⟩
    · rw [hq']; exact tl hq
    · intro k' r' hc; rw [(hcur k' r' hc).1]; exact hPk
    · intro c hc; rw [(hkv c hc).1]; exact hPk
  · rename_i ih; exact ih (tl hq) h

theorem readChunk_keys (P : Bytes → Prop) (V : Variant) (st : St) (size : Nat) (res : Res) (st' : St)
    (hP : KeysP P st) (h : readChunk V st size = (res, st')) :
    KeysP P st' ∧ (∀ c, res = .kv c → P c.key) := by
  unfold readChunk at h
  split at h
  · exact readNext_keys P V size st.mid st.queue res st' hP.1 h
  · rename_i key rest hc
    split at h
    · rename_i r hb
      subst h
      obtain ⟨hq', hcur, hkv, _⟩ := readBody_shape _ _ _ _ _ _ hb
      have hPk : P key := hP.2 key rest hc
      refine ⟨⟨?_, ?_⟩, ?_⟩
      · rw [hq']; exact hP.1
      · intro k' r' hc'; rw [(hcur k' r' hc').1]; exact hPk
      · intro c hc'; rw [(hkv c hc').1]; exact hPk
    · exact readNext_keys P V size st.mid st.queue res st' hP.1 h

theorem Readable_of_keys (V : Variant) (st : St)
    (h : KeysP (fun k => ∀ size, keyRead (V.keyLimit size) k.length = .ok) st) : Readable V st.queue :=
  fun k b hm => h.1 k b hm

/-! ### the whole round preserves the content -/

/-- The key can be read in full whatever `size` is. -/
abbrev RdP (V : Variant) : Bytes → Prop := fun k => ∀ size, keyRead (V.keyLimit size) k.length = .ok

theorem pack_content (V : Variant) (mtu f maxRead : Nat) (st : St) (hk : KeysP (RdP V) st) :
    (pack V mtu f maxRead st).2.1 ≠ .fail ∧ KeysP (RdP V) (pack V mtu f maxRead st).2.2 ∧
    Eqv (content st) ((pack V mtu f maxRead st).1 ++ content (pack V mtu f maxRead st).2.2) ∧
    ((pack V mtu f maxRead st).2.1 = .eof → content (pack V mtu f maxRead st).2.2 = []) := by
  induction f generalizing maxRead st with
  | zero => simp [pack]; exact ⟨hk, Eqv.refl _⟩
  | succ f ih =>
    unfold pack
    split
    all_goals rename_i hr
    all_goals have hc := readChunk_content V st maxRead _ _ (Readable_of_keys V st hk) hr
    all_goals have hkeys := readChunk_keys (RdP V) V st maxRead _ _ hk hr
    · refine ⟨by simp, hkeys.1, ?_, fun _ => (hc.2.2.2 rfl).2⟩
      intro prev; simp [(hc.2.2.2 rfl).1, (hc.2.2.2 rfl).2]
    · refine ⟨by split <;> simp, hkeys.1, ?_, by split <;> simp⟩
      intro prev; simp [hc.2.2.1 rfl]
    · exact absurd rfl hc.1
    · rename_i c st'
      have := ih (maxRead - kvSize c) st' hkeys.1
      refine ⟨this.1, this.2.1, ?_, this.2.2.2⟩
      exact (hc.2.1 c rfl).trans (Eqv.cons c this.2.2.1)

theorem flatten_cons (b : Batch) (bs : List Batch) : flatten (b :: bs) = b.kvs ++ flatten bs := rfl

theorem rounds_content (V : Variant) (mtu f : Nat) (st : St) (hk : KeysP (RdP V) st) :
    (rounds V mtu f st).fin ≠ .failed ∧
    ((rounds V mtu f st).fin ≠ .fuel →
      Eqv (content st) (flatten (rounds V mtu f st).batches ++ content (rounds V mtu f st).st)) ∧
    ((rounds V mtu f st).fin = .done → content (rounds V mtu f st).st = []) := by
  induction f generalizing st with
  | zero => simp [rounds]
  | succ f ih =>
    unfold rounds
    have hp := pack_content V mtu (mtu + 1) mtu st hk
    split
    all_goals (rename_i heq; rw [heq] at hp; simp only at hp)
    · exact ⟨by simp, fun _ => by simpa [flatten] using hp.2.2.1, fun _ => by simpa using hp.2.2.2⟩
    · exact ⟨by simp, fun _ => by simpa [flatten] using hp.2.2.1, by simp⟩
    · exact absurd rfl hp.1
    · exact ⟨by simp, by simp, by simp⟩
    · rename_i cs st'
      have := ih st' hp.2.1
      refine ⟨this.1, ?_, this.2.2⟩
      intro hf
      simp only [flatten_cons, List.append_assoc]
      exact hp.2.2.1.trans (Eqv.append_left cs (this.2.1 hf))

/-! ### ChunkWriter/UnchunkReader against the reference merge -/

def headKey : List KV → Option Bytes
  | [] => none
  | c :: _ => some c.key

theorem merge_cons_nil (k v : Bytes) (rest : List (Bytes × Bytes)) (h : mergeConsecutive rest = []) :
    mergeConsecutive ((k, v) :: rest) = [(k, v)] := by
  rw [mergeConsecutive, h]

theorem merge_cons_cons (k v k' v' : Bytes) (rest t : List (Bytes × Bytes))
    (h : mergeConsecutive rest = (k', v') :: t) :
    mergeConsecutive ((k, v) :: rest) = if k = k' then (k, v ++ v') :: t else (k, v) :: (k', v') :: t := by
  rw [mergeConsecutive, h]

theorem merge_head (ps : List (Bytes × Bytes)) :
    (mergeConsecutive ps).head?.map Prod.fst = ps.head?.map Prod.fst := by
  cases ps with
  | nil => rfl
  | cons p rest =>
    obtain ⟨k, v⟩ := p
    cases h : mergeConsecutive rest with
    | nil => rw [merge_cons_nil k v rest h]; simp
    | cons q t =>
      obtain ⟨k', v'⟩ := q
      rw [merge_cons_cons k v k' v' rest t h]
      split <;> simp

theorem reasm_fst_nil (prev : Bytes) (xs : List KV) (h : headKey xs ≠ some prev) :
    (reasm prev xs).1 = [] := by
  cases xs with
  | nil => rfl
  | cons c cs =>
    have : c.key ≠ prev := by intro hk; apply h; simp [headKey, hk]
    simp [reasm, this]

theorem headKey_pairs (xs : List KV) : (pairs xs).head?.map Prod.fst = headKey xs := by
  cases xs <;> simp [pairs, headKey]

theorem merge_reasm (xs : List KV) (prev : Bytes) :
    mergeConsecutive (pairs xs) =
      (if headKey xs = some prev then [(prev, (reasm prev xs).1)] else []) ++ (reasm prev xs).2 := by
  induction xs generalizing prev with
  | nil => simp [pairs, mergeConsecutive, headKey, reasm]
  | cons c cs ih =>
    -- the common part: merging with the chunk's own key as context
    have S : mergeConsecutive ((c.key, c.val) :: pairs cs) =
        (c.key, c.val ++ (reasm c.key cs).1) :: (reasm c.key cs).2 := by
      have hi := ih c.key
      by_cases hh : headKey cs = some c.key
      · simp only [hh, if_true, List.singleton_append] at hi
        rw [merge_cons_cons _ _ _ _ _ _ hi]; simp
      · have h1 := reasm_fst_nil c.key cs hh
        simp only [hh, if_false, List.nil_append] at hi
        have hhd := merge_head (pairs cs)
        rw [headKey_pairs, hi] at hhd
        rw [h1]
        cases hr : (reasm c.key cs).2 with
        | nil => rw [hr] at hi; rw [merge_cons_nil _ _ _ hi]; simp
        | cons q t =>
          obtain ⟨k', v'⟩ := q
          rw [hr] at hhd hi
          have : c.key ≠ k' := by
            intro he; apply hh; rw [← hhd]; simp [he]
          rw [merge_cons_cons _ _ _ _ _ _ hi]; simp [this]
    have hp : pairs (c :: cs) = (c.key, c.val) :: pairs cs := rfl
    rw [hp, S]
    by_cases hk : c.key = prev
    · simp [headKey, reasm, hk]
    · have : ¬ (some c.key = some prev) := by simpa using hk
      simp [headKey, reasm, hk]

/-- With no pipe open and a first key different from the initial `prevKey`, the consumer sees
exactly the consecutive merge of the chunks. -/
theorem reassemble_eq_merge (xs : List KV) (h : ∀ c ∈ xs, c.key ≠ []) :
    reassemble xs = .ok (mergeConsecutive (pairs xs)) := by
  cases xs with
  | nil => rfl
  | cons c cs =>
    have hc : c.key ≠ [] := h c List.mem_cons_self
    have hh : headKey (c :: cs) ≠ some [] := by simp [headKey, hc]
    simp only [reassemble, hc, if_false]
    rw [merge_reasm (c :: cs) []]
    simp [hh]

/-- `WriteChunk`-indistinguishable chunk lists give the same messages. -/
theorem Eqv.merge {xs ys : List KV} (h : Eqv xs ys) (hx : ∀ c ∈ xs, c.key ≠ []) (hy : ∀ c ∈ ys, c.key ≠ []) :
    mergeConsecutive (pairs xs) = mergeConsecutive (pairs ys) := by
  have hxk : headKey xs ≠ some [] := by
    cases xs with
    | nil => simp [headKey]
    | cons c cs => simp [headKey, hx c List.mem_cons_self]
  have hyk : headKey ys ≠ some [] := by
    cases ys with
    | nil => simp [headKey]
    | cons c cs => simp [headKey, hy c List.mem_cons_self]
  rw [merge_reasm xs [], merge_reasm ys [], h []]
  simp [hxk, hyk]

/-! ### progress -/

def curLen : Option (Bytes × Bytes) → Nat
  | some (_, r) => r.length
  | none => 0

theorem weight_eq (st : St) : st.weight = bodyBytes st.queue + curLen st.cur := by
  unfold St.weight curLen; cases st.cur with
  | none => rfl
  | some p => rfl

/-- Every variant: a returned KV takes its value bytes out of the pipe, nothing ever adds bytes;
the `mid` flag follows the result. -/
theorem readNext_weight (V : Variant) (size : Nat) (mid : Bool) (q : Script) (res : Res) (st' : St)
    (h : readNext V size mid q = (res, st')) :
    st'.weight ≤ bodyBytes q ∧ (∀ c, res = .kv c → st'.weight + c.val.length ≤ bodyBytes q ∧ st'.mid = true) ∧
    (res = .tooSmall → st'.mid = false) := by
  fun_induction readNext V size mid q
  · simp only [Prod.mk.injEq] at h; obtain ⟨h1, h2⟩ := h; subst h1; subst h2
    simp [St.weight, bodyBytes]
  · rename_i ih; simpa [bodyBytes] using ih h
  · simp only [Prod.mk.injEq] at h; obtain ⟨h1, h2⟩ := h; subst h1; subst h2
    simp [St.weight, bodyBytes]
  · simp only [Prod.mk.injEq] at h; obtain ⟨h1, h2⟩ := h; subst h1; subst h2
    simp [St.weight, bodyBytes]
  · rename_i ih
    have := ih h
    simp only [bodyBytes]
    exact ⟨by omega, fun c hc => ⟨by have := (this.2.1 c hc).1; omega, (this.2.1 c hc).2⟩, this.2.2⟩
  · simp only [Prod.mk.injEq] at h; obtain ⟨h1, h2⟩ := h; subst h1; subst h2
    simp [St.weight, bodyBytes]
  · rename_i k b q' _ r hb
    subst h
    obtain ⟨hq', hcur, hkv, hsm⟩ := readBody_shape _ _ _ _ _ _ hb
    rw [weight_eq, hq']
    simp only [bodyBytes]
    refine ⟨?_, ?_, fun hs => (hsm hs).1⟩
    · cases hc : st'.cur with
      | none => simp [curLen]
      | some p => obtain ⟨k', r'⟩ := p; have := (hcur k' r' hc).2; simp [curLen]; omega
    · intro c hc
      have := hkv c hc
      refine ⟨?_, this.2.1⟩
      have h3 := this.2.2
      cases hcc : st'.cur with
      | none => rw [hcc] at h3; simp [curLen]; simp at h3; omega
      | some p => obtain ⟨k', r'⟩ := p; rw [hcc] at h3; simp [curLen]; simp at h3; omega
  · rename_i ih
    have := ih h
    simp only [bodyBytes]
    exact ⟨by omega, fun c hc => ⟨by have := (this.2.1 c hc).1; omega, (this.2.1 c hc).2⟩, this.2.2⟩

theorem readChunk_weight (V : Variant) (st : St) (size : Nat) (res : Res) (st' : St)
    (h : readChunk V st size = (res, st')) :
    st'.weight ≤ st.weight ∧ (∀ c, res = .kv c → st'.weight + c.val.length ≤ st.weight ∧ st'.mid = true) ∧
    (res = .tooSmall → st'.mid = false) := by
  unfold readChunk at h
  split at h
  · rename_i hc
    have := readNext_weight V size st.mid st.queue res st' h
    rw [weight_eq st, hc]; simpa [curLen] using this
  · rename_i key rest hc
    split at h
    · rename_i r hb
      subst h
      obtain ⟨hq', hcur, hkv, hsm⟩ := readBody_shape _ _ _ _ _ _ hb
      rw [weight_eq st, weight_eq st', hq', hc]
      simp only [curLen]
      refine ⟨?_, ?_, fun hs => (hsm hs).1⟩
      · cases hcc : st'.cur with
        | none => simp
        | some p => obtain ⟨k', r'⟩ := p; have := (hcur k' r' hcc).2; simp; omega
      · intro c hc'
        have := hkv c hc'
        refine ⟨?_, this.2.1⟩
        have h3 := this.2.2
        cases hcc : st'.cur with
        | none => rw [hcc] at h3; simp at h3 ⊢; omega
        | some p => obtain ⟨k', r'⟩ := p; rw [hcc] at h3; simp at h3 ⊢; omega
    · have := readNext_weight V size st.mid st.queue res st' h
      rw [weight_eq st, hc]; simp only [curLen]
      exact ⟨by omega, fun c hc' => ⟨by have := (this.2.1 c hc').1; omega, (this.2.1 c hc').2⟩, this.2.2⟩

/-- With the forced break skipped in an empty message, a read at a size that fits every key
never reports `ErrSizeTooSmall` while the message is empty. -/
theorem readNext_nosmall (V : Variant) (hskip : V.skipLeadingBreak = true) (size : Nat) (q : Script)
    (hk : ∀ k b, Step.msg k b ∈ q → keyRead (V.keyLimit size) k.length = .ok ∧ 0 < avail size k)
    (st' : St) : readNext V size false q ≠ (.tooSmall, st') := by
  have tl : ∀ {x : Step} {q' : Script},
      (∀ k b, Step.msg k b ∈ x :: q' → keyRead (V.keyLimit size) k.length = .ok ∧ 0 < avail size k) →
      ∀ k b, Step.msg k b ∈ q' → keyRead (V.keyLimit size) k.length = .ok ∧ 0 < avail size k :=
    fun hh k b hm => hh k b (List.mem_cons_of_mem _ hm)
  generalize hm : false = mid
  fun_induction readNext V size mid q
  · simp
  · rename_i ih; exact ih (tl hk)
  · rename_i hc; subst hm; simp [hskip] at hc
  · simp
  · rename_i ih; exact ih (tl hk)
  · rename_i hc; subst hm; simp [hskip] at hc
  · rename_i k b q' _ r hb
    intro he
    rw [he] at hb
    have := (readBody_small _ _ _ _ _ hb).2
    have := (hk k b List.mem_cons_self).2
    omega
  · rename_i ih; exact ih (tl hk)

theorem readChunk_nosmall (V : Variant) (hskip : V.skipLeadingBreak = true) (st : St) (size : Nat)
    (hmid : st.mid = false)
    (hk : KeysP (fun k => keyRead (V.keyLimit size) k.length = .ok ∧ 0 < avail size k) st)
    (st' : St) : readChunk V st size ≠ (.tooSmall, st') := by
  unfold readChunk
  split
  · rw [hmid]; exact readNext_nosmall V hskip size st.queue hk.1 st'
  · rename_i key rest hc
    split
    · rename_i r hb
      intro he
      rw [he] at hb
      have := (readBody_small _ _ _ _ _ hb).2
      have := (hk.2 key rest hc).2
      omega
    · rw [hmid]; exact readNext_nosmall V hskip size st.queue hk.1 st'

theorem pack_keys (P : Bytes → Prop) (V : Variant) (mtu f maxRead : Nat) (st : St) (hP : KeysP P st) :
    KeysP P (pack V mtu f maxRead st).2.2 ∧ ∀ c ∈ (pack V mtu f maxRead st).1, P c.key := by
  induction f generalizing maxRead st with
  | zero => simp [pack]; exact hP
  | succ f ih =>
    unfold pack
    split
    all_goals rename_i hr
    all_goals have hkeys := readChunk_keys P V st maxRead _ _ hP hr
    · exact ⟨hkeys.1, by simp⟩
    · exact ⟨hkeys.1, by simp⟩
    · exact ⟨hkeys.1, by simp⟩
    · rename_i c st'
      have := ih (maxRead - kvSize c) st' hkeys.1
      refine ⟨this.1, ?_⟩
      intro c' hc'
      simp only [List.mem_cons] at hc'
      rcases hc' with h | h
      · subst h; exact hkeys.2 _ rfl
      · exact this.2 c' h

theorem mem_flatten_cons (c : KV) (b : Batch) (bs : List Batch) :
    c ∈ flatten (b :: bs) ↔ c ∈ b.kvs ∨ c ∈ flatten bs := by
  simp [flatten]

theorem rounds_keys (P : Bytes → Prop) (V : Variant) (mtu f : Nat) (st : St) (hP : KeysP P st) :
    ∀ c ∈ flatten (rounds V mtu f st).batches, P c.key := by
  induction f generalizing st with
  | zero => simp [rounds, flatten]
  | succ f ih =>
    unfold rounds
    have hp := pack_keys P V mtu (mtu + 1) mtu st hP
    split
    all_goals (rename_i heq; rw [heq] at hp; simp only at hp)
    · simpa [flatten] using hp.2
    · simpa [flatten] using hp.2
    · simp [flatten]
    · simp [flatten]
    · intro c hc
      rw [mem_flatten_cons] at hc
      rcases hc with h | h
      · exact hp.2 c h
      · exact ih _ hp.1 c h

/-- A key that can always be read, fits an empty message of `mtu` with one value byte, and is
not the empty string. -/
def UK (V : Variant) (mtu : Nat) : Bytes → Prop :=
  fun k => (∀ size, keyRead (V.keyLimit size) k.length = .ok) ∧ rawKeyLen k + 3 ≤ mtu ∧ k ≠ []

theorem KeysP.mono {P Q : Bytes → Prop} (h : ∀ k, P k → Q k) {st : St} (hP : KeysP P st) : KeysP Q st :=
  ⟨fun k b hm => h k (hP.1 k b hm), fun k r hc => h k (hP.2 k r hc)⟩

theorem pack_progress (V : Variant) (hskip : V.skipLeadingBreak = true) (mtu f maxRead : Nat) (st : St)
    (hf : maxRead < f) (hle : maxRead ≤ mtu) (hk : KeysP (UK V mtu) st)
    (hmid : maxRead = mtu → st.mid = false) :
    ((pack V mtu f maxRead st).2.1 = .eof ∨ (pack V mtu f maxRead st).2.1 = .more) ∧
    ((pack V mtu f maxRead st).2.1 = .more →
      (pack V mtu f maxRead st).2.2.mid = false ∧ (pack V mtu f maxRead st).2.2.weight ≤ st.weight ∧
      (maxRead = mtu → (pack V mtu f maxRead st).2.2.weight < st.weight)) := by
  induction f generalizing maxRead st with
  | zero => omega
  | succ f ih =>
    have hrd : KeysP (RdP V) st := hk.mono (fun k h => h.1)
    unfold pack
    split
    all_goals rename_i hr
    all_goals have hw := readChunk_weight V st maxRead _ _ hr
    · simp
    · by_cases hm : maxRead = mtu
      · exfalso
        have hk' : KeysP (fun k => keyRead (V.keyLimit maxRead) k.length = .ok ∧ 0 < avail maxRead k) st :=
          hk.mono (fun k h => ⟨h.1 maxRead, by rw [avail_pos_iff, hm]; exact h.2.1⟩)
        exact readChunk_nosmall V hskip st maxRead (hmid hm) hk' _ hr
      · rw [if_neg hm]
        exact ⟨Or.inr rfl, fun _ => ⟨hw.2.2 rfl, hw.1, fun h => absurd h hm⟩⟩
    · exact absurd rfl (readChunk_content V st maxRead _ _ (Readable_of_keys V st hrd) hr).1
    · rename_i c st'
      have hfit := readChunk_fits V st maxRead c st' hr
      have hpos := kvSize_pos c
      have hkeys := readChunk_keys (UK V mtu) V st maxRead _ _ hk hr
      have := ih (maxRead - kvSize c) st' (by omega) (by omega) hkeys.1 (by omega)
      dsimp only
      refine ⟨this.1, fun hm => ?_⟩
      have h2 := this.2 hm
      have h3 := (hw.2.1 c rfl).1
      exact ⟨h2.1, by omega, fun _ => by omega⟩

theorem rounds_done (V : Variant) (hskip : V.skipLeadingBreak = true) (mtu f : Nat) (st : St)
    (hf : st.weight < f) (hk : KeysP (UK V mtu) st) (hmid : st.mid = false) :
    (rounds V mtu f st).fin = .done := by
  induction f generalizing st with
  | zero => omega
  | succ f ih =>
    unfold rounds
    have hp := pack_progress V hskip mtu (mtu + 1) mtu st (by omega) (Nat.le_refl _) hk (fun _ => hmid)
    have hkeys := pack_keys (UK V mtu) V mtu (mtu + 1) mtu st hk
    split
    all_goals (rename_i heq; rw [heq] at hp hkeys)
    all_goals (try (simp at hp; done))
    all_goals (try rfl)
    · have h2 := hp.2 rfl
      simp only at h2 hkeys
      exact ih _ (by have := h2.2.2 trivial; omega) hkeys.1 h2.1

/-! ### from the guard to the invariants -/

theorem usable_iff (mtu : Nat) (s : Script) :
    UsableMtu mtu s ↔ mtu < 65536 ∧ ∀ k b, Step.msg k b ∈ s → 1 ≤ k.length ∧ rawKeyLen k + 3 ≤ mtu := by
  unfold UsableMtu usable
  simp only [Bool.and_eq_true, decide_eq_true_eq, List.all_eq_true]
  constructor
  · rintro ⟨h1, h2⟩
    refine ⟨h1, fun k b hm => ?_⟩
    have := h2 _ hm
    simpa using this
  · rintro ⟨h1, h2⟩
    refine ⟨h1, fun x hx => ?_⟩
    cases x with
    | yield => rfl
    | msg k b => simpa using h2 k b hx

theorem keyRead_ok (limit : Nat) (k : Bytes) (h : rawKeyLen k ≤ limit) : keyRead limit k.length = .ok := by
  unfold keyRead rawKeyLen at *
  simp [h]

theorem init_keys (P : Bytes → Prop) (s : Script) (h : ∀ k b, Step.msg k b ∈ s → P k) :
    KeysP P (St.init s) := ⟨h, by simp [St.init]⟩

theorem kvsOf_keys (P : Bytes → Prop) (s : Script) (h : ∀ k b, Step.msg k b ∈ s → P k) :
    ∀ c ∈ kvsOf s, P c.key := by
  induction s with
  | nil => simp [kvsOf]
  | cons x r ih =>
    have hr : ∀ k b, Step.msg k b ∈ r → P k := fun k b hm => h k b (List.mem_cons_of_mem _ hm)
    cases x with
    | yield => simpa [kvsOf] using ih hr
    | msg k b =>
      intro c hc
      simp only [kvsOf, List.mem_append] at hc
      rcases hc with hc | hc
      · by_cases hb : b = []
        · simp [curKVs, hb] at hc
        · simp [curKVs, hb] at hc; subst hc; exact h k b List.mem_cons_self
      · exact ih hr c hc

theorem init_weight (s : Script) : (St.init s).weight = bodyBytes s := by
  simp [St.init, St.weight]

theorem init_content (s : Script) : content (St.init s) = kvsOf s := by
  simp [St.init, content, curKVs]

/-- Whatever the variant does with forced breaks: if every key can be read in full and the round
reaches the end of the channel, the consumer gets exactly the merged messages of the script. -/
theorem lossless_of_done (V : Variant) (mtu : Nat) (s : Script)
    (hk : ∀ k b, Step.msg k b ∈ s → k ≠ [] ∧ ∀ size, keyRead (V.keyLimit size) k.length = .ok)
    (hd : (allBatches V mtu s).fin = .done) :
    reassemble (flatten (allBatches V mtu s).batches) = .ok (mergeConsecutive (messages s)) := by
  unfold allBatches at *
  have hrd : KeysP (RdP V) (St.init s) := init_keys _ s (fun k b hm => (hk k b hm).2)
  have hne : KeysP (fun k => k ≠ []) (St.init s) := init_keys _ s (fun k b hm => (hk k b hm).1)
  have hc := rounds_content V mtu (bodyBytes s + 1) (St.init s) hrd
  have hkeys := rounds_keys (fun k => k ≠ []) V mtu (bodyBytes s + 1) (St.init s) hne
  have he := hc.2.1 (by rw [hd]; simp)
  rw [hc.2.2 hd, List.append_nil, init_content] at he
  rw [reassemble_eq_merge _ hkeys, messages_eq]
  congr 1
  exact (he.merge (kvsOf_keys _ s (fun k b hm => (hk k b hm).1)) hkeys).symm

theorem usable_keys (mtu : Nat) (s : Script) (hu : UsableMtu mtu s) :
    ∀ k b, Step.msg k b ∈ s → UK .repaired mtu k := by
  rw [usable_iff] at hu
  intro k b hm
  have := hu.2 k b hm
  refine ⟨fun _ => keyRead_ok _ k (by simp [Variant.repaired]; omega), this.2, ?_⟩
  intro h0; rw [h0] at this; simp at this

theorem repaired_done (mtu : Nat) (s : Script) (hu : UsableMtu mtu s) :
    (allBatches .repaired mtu s).fin = .done := by
  unfold allBatches
  exact rounds_done .repaired rfl mtu _ (St.init s) (by rw [init_weight]; omega)
    (init_keys _ s (usable_keys mtu s hu)) rfl

/-! ### producer writes -/

theorem compileAux_write_nil (post : List Op) : compileAux (.write [] :: post) = compileAux post := by
  simp [compileAux]

theorem compileAux_write_append (a b : Bytes) (post : List Op) :
    compileAux (.write (a ++ b) :: post) = compileAux (.write a :: .write b :: post) := by
  simp [compileAux, List.append_assoc]

theorem compileAux_congr (pre : List Op) {x y : List Op} (h : compileAux x = compileAux y) :
    compileAux (pre ++ x) = compileAux (pre ++ y) := by
  induction pre with
  | nil => exact h
  | cons o t ih => cases o <;> simp [compileAux, ih]

theorem compileAux_parts (parts : List Bytes) (post : List Op) :
    compileAux (.write parts.flatten :: post) = compileAux (parts.map Op.write ++ post) := by
  induction parts with
  | nil => simp [compileAux]
  | cons p ps ih =>
    rw [List.flatten_cons, compileAux_write_append]
    simp only [List.map_cons, List.cons_append]
    have : compileAux (Op.write p :: Op.write ps.flatten :: post) =
        compileAux (Op.write p :: (List.map Op.write ps ++ post)) :=
      compileAux_congr [Op.write p] ih
    exact this

theorem compile_parts (pre post : List Op) (parts : List Bytes) :
    compile (pre ++ .write parts.flatten :: post) = compile (pre ++ (parts.map Op.write ++ post)) := by
  unfold compile
  rw [compileAux_congr pre (compileAux_parts parts post)]

/-! ### a yield is a barrier between messages -/

/-- The same reader state with more readers queued behind. -/
def St.app (st : St) (r : Script) : St := ⟨st.queue ++ r, st.cur, st.mid⟩

theorem readBody_append (size : Nat) (key rest : Bytes) (q r : Script) :
    readBody size key rest (q ++ r) = (readBody size key rest q).map (fun p => (p.1, p.2.app r)) := by
  rcases readBody_spec size key rest q with ⟨h0, hb⟩ | ⟨hp, he, hb⟩ | ⟨hp, hne, hlt, hb⟩ | ⟨hp, hle, hb⟩
  · rcases readBody_spec size key rest (q ++ r) with ⟨_, hb'⟩ | ⟨hp', _, _⟩ | ⟨hp', _, _, _⟩ | ⟨hp', _, _⟩
    · rw [hb, hb']; simp [St.app]
    all_goals omega
  · rcases readBody_spec size key rest (q ++ r) with ⟨h0', _⟩ | ⟨_, _, hb'⟩ | ⟨_, hne', _, _⟩ | ⟨_, hle', _⟩
    · omega
    · rw [hb, hb']; simp
    · exact absurd he hne'
    · subst he; simp at hle'; omega
  · rcases readBody_spec size key rest (q ++ r) with ⟨h0', _⟩ | ⟨_, he', _⟩ | ⟨_, _, _, hb'⟩ | ⟨_, hle', _⟩
    · omega
    · exact absurd he' hne
    · rw [hb, hb']; simp [St.app]
    · omega
  · rcases readBody_spec size key rest (q ++ r) with ⟨h0', _⟩ | ⟨_, he', _⟩ | ⟨_, _, hlt', _⟩ | ⟨_, _, hb'⟩
    · omega
    · subst he'; simp at hle; omega
    · omega
    · rw [hb, hb']; simp [St.app]

theorem readNext_append (V : Variant) (size : Nat) (mid : Bool) (q r : Script) :
    readNext V size mid (q ++ r) =
      if (readNext V size mid q).1 = .eof then readNext V size mid r
      else ((readNext V size mid q).1, (readNext V size mid q).2.app r) := by
  fun_induction readNext V size mid q
  · simp
  · rename_i hc ih
    simp only [List.cons_append]
    rw [readNext, if_pos hc]; exact ih
  · rename_i hc
    simp only [List.cons_append]
    rw [readNext, if_neg hc]; simp [St.app]
  · rename_i hkr
    simp only [List.cons_append]
    rw [readNext, hkr]; simp [St.app]
  · rename_i hkr hc ih
    simp only [List.cons_append]
    rw [readNext, hkr]; simp only; rw [if_pos hc]; exact ih
  · rename_i hkr hc
    simp only [List.cons_append]
    rw [readNext, hkr]; simp only; rw [if_neg hc]; simp [St.app]
  · rename_i k b q' hkr r0 hb
    simp only [List.cons_append]
    rw [readNext, hkr]; simp only
    rw [readBody_append, hb]
    simp only [Option.map_some]
    have : r0.1 ≠ .eof := by
      intro he
      have : readBody size k b q' = some (.eof, r0.2) := by rw [hb, ← he]
      exact readBody_not_eof _ _ _ _ _ this
    simp [this]
  · rename_i k b q' hkr hb ih
    simp only [List.cons_append]
    rw [readNext, hkr]; simp only
    rw [readBody_append, hb]
    simp only [Option.map_none]
    exact ih

theorem readChunk_none (V : Variant) (st : St) (size : Nat) (hc : st.cur = none) :
    readChunk V st size = readNext V size st.mid st.queue := by
  unfold readChunk; rw [hc]

theorem readChunk_some_some (V : Variant) (st : St) (size : Nat) (key rest : Bytes) (r0 : Res × St)
    (hc : st.cur = some (key, rest)) (hb : readBody size key rest st.queue = some r0) :
    readChunk V st size = r0 := by
  unfold readChunk; rw [hc]; simp only; rw [hb]

theorem readChunk_some_none (V : Variant) (st : St) (size : Nat) (key rest : Bytes)
    (hc : st.cur = some (key, rest)) (hb : readBody size key rest st.queue = none) :
    readChunk V st size = readNext V size st.mid st.queue := by
  unfold readChunk; rw [hc]; simp only; rw [hb]

theorem readChunk_append (V : Variant) (st : St) (size : Nat) (r : Script) :
    readChunk V (st.app r) size =
      if (readChunk V st size).1 = .eof then readNext V size st.mid r
      else ((readChunk V st size).1, (readChunk V st size).2.app r) := by
  cases hc : st.cur with
  | none =>
    rw [readChunk_none V st size hc, readChunk_none V (st.app r) size (by simp [St.app, hc])]
    exact readNext_append V size st.mid st.queue r
  | some p =>
    obtain ⟨key, rest⟩ := p
    have hc' : (st.app r).cur = some (key, rest) := by simp [St.app, hc]
    have hba := readBody_append size key rest st.queue r
    cases hb : readBody size key rest st.queue with
    | none =>
      rw [hb] at hba
      rw [readChunk_some_none V st size key rest hc hb,
        readChunk_some_none V (st.app r) size key rest hc' (by simpa [St.app] using hba)]
      exact readNext_append V size st.mid st.queue r
    | some r0 =>
      rw [hb] at hba
      rw [readChunk_some_some V st size key rest r0 hc hb,
        readChunk_some_some V (st.app r) size key rest _ hc' (by simpa [St.app] using hba)]
      have : r0.1 ≠ .eof := by
        intro he
        have : readBody size key rest st.queue = some (.eof, r0.2) := by rw [hb, ← he]
        exact readBody_not_eof _ _ _ _ _ this
      simp [this, St.app]

theorem pack_succ (V : Variant) (mtu f maxRead : Nat) (st : St) :
    pack V mtu (f + 1) maxRead st =
      match readChunk V st maxRead with
      | (.eof, st') => ([], .eof, st')
      | (.tooSmall, st') => ([], if maxRead = mtu then .stop else .more, st')
      | (.fail, st') => ([], .fail, st')
      | (.kv c, st') =>
        ((c :: (pack V mtu f (maxRead - kvSize c) st').1), (pack V mtu f (maxRead - kvSize c) st').2.1,
          (pack V mtu f (maxRead - kvSize c) st').2.2) := by
  rw [pack]
  rfl

/-- One message of the round, with `yield :: post` queued behind what `st` holds: nothing changes
until the channel would have been empty; there the yield closes the message if it holds a chunk
and is skipped if it is still empty. -/
theorem pack_append_yield (V : Variant) (hskip : V.skipLeadingBreak = true) (mtu : Nat) (post : Script)
    (f maxRead : Nat) (st : St) (hI : st.mid = true ↔ maxRead ≠ mtu) (hle : maxRead ≤ mtu) :
    pack V mtu f maxRead (st.app (.yield :: post)) =
      if (pack V mtu f maxRead st).2.1 = .eof then
        if st.mid = true ∨ (pack V mtu f maxRead st).1 ≠ [] then
          ((pack V mtu f maxRead st).1, .more, ⟨post, none, false⟩)
        else pack V mtu f mtu ⟨post, none, false⟩
      else ((pack V mtu f maxRead st).1, (pack V mtu f maxRead st).2.1,
            (pack V mtu f maxRead st).2.2.app (.yield :: post)) := by
  induction f generalizing maxRead st with
  | zero => simp [pack]
  | succ f ih =>
    rw [pack_succ V mtu f maxRead (st.app _), pack_succ V mtu f maxRead st, readChunk_append]
    cases hr : readChunk V st maxRead with
    | mk res st' =>
      cases res with
      | eof =>
        simp only [if_true]
        -- the channel of `st` is empty: the yield is read next
        cases hm : st.mid with
        | false =>
          have hmr : maxRead = mtu := by
            by_cases h : maxRead = mtu
            · exact h
            · have := hI.mpr h; rw [hm] at this; cases this
          subst hmr
          rw [readNext, if_pos (by simp [hskip])]
          simp only [Bool.false_eq_true, ne_eq, not_true_eq_false, or_self, if_false]
          rw [pack_succ V maxRead f maxRead ⟨post, none, false⟩,
            readChunk_none V ⟨post, none, false⟩ maxRead rfl]
          simp
        | true =>
          have hmr : maxRead ≠ mtu := hI.mp hm
          rw [readNext, if_neg (by simp)]
          simp [hmr]
      | tooSmall => by_cases hmm : maxRead = mtu <;> simp [hmm]
      | fail => simp
      | kv c =>
        simp only [reduceCtorEq, if_false]
        have hfit := (readChunk_fits V st maxRead c st' hr).1
        have hpos := kvSize_pos c
        have hmid : st'.mid = true := ((readChunk_weight V st maxRead _ _ hr).2.1 c rfl).2
        have := ih (maxRead - kvSize c) st' (by rw [hmid]; simp; omega) (by omega)
        rw [this]
        by_cases he : (pack V mtu f (maxRead - kvSize c) st').2.1 = .eof
        · simp [he, hmid]
        · simp [he]

theorem rounds_succ (V : Variant) (mtu f : Nat) (st : St) :
    rounds V mtu (f + 1) st =
      match pack V mtu (mtu + 1) mtu st with
      | (cs, .eof, st') => ⟨[⟨false, cs⟩], .done, st'⟩
      | (cs, .stop, st') => ⟨[⟨false, cs⟩], .stopped, st'⟩
      | (_, .fail, st') => ⟨[], .failed, st'⟩
      | (_, .fuel, st') => ⟨[], .fuel, st'⟩
      | (cs, .more, st') =>
        ⟨⟨true, cs⟩ :: (rounds V mtu f st').batches, (rounds V mtu f st').fin, (rounds V mtu f st').st⟩ := by
  rw [rounds]
  rfl

/-- More fuel than needed changes nothing. -/
theorem rounds_fuel (V : Variant) (mtu f k : Nat) (st : St) (h : (rounds V mtu f st).fin ≠ .fuel) :
    rounds V mtu (f + k) st = rounds V mtu f st := by
  induction f generalizing st with
  | zero => simp [rounds] at h
  | succ f ih =>
    have e : f + 1 + k = (f + k) + 1 := by omega
    rw [e, rounds_succ, rounds_succ]
    rw [rounds_succ] at h
    rcases hp : pack V mtu (mtu + 1) mtu st with ⟨cs, e, st'⟩
    try rw [hp] at h
    try rw [hp] at hd
    cases e with
    | eof => rfl
    | stop => rfl
    | fail => rfl
    | fuel => rfl
    | more =>
      simp only at h ⊢
      rw [ih st' h]

theorem pack_more_mid (V : Variant) (mtu f maxRead : Nat) (st : St)
    (h : (pack V mtu f maxRead st).2.1 = .more) : (pack V mtu f maxRead st).2.2.mid = false := by
  induction f generalizing maxRead st with
  | zero => simp [pack] at h
  | succ f ih =>
    rw [pack_succ] at h ⊢
    rcases hr : readChunk V st maxRead with ⟨res, st'⟩
    rw [hr] at h
    cases res with
    | eof => simp at h
    | tooSmall => exact (readChunk_weight V st maxRead _ _ hr).2.2 rfl
    | fail => simp at h
    | kv c => exact ih _ _ h

theorem rounds_done_nonempty (V : Variant) (mtu f : Nat) (st : St)
    (h : (rounds V mtu f st).fin = .done) : (rounds V mtu f st).batches ≠ [] := by
  cases f with
  | zero => simp [rounds] at h
  | succ f =>
    rw [rounds_succ] at h ⊢
    rcases hp : pack V mtu (mtu + 1) mtu st with ⟨cs, e, st'⟩
    try rw [hp] at h
    try rw [hp] at hd
    cases e <;> simp at h ⊢

/-- The messages of a script that is followed by a yield: the last one (sent with
IsMore = false because the channel was empty) gets IsMore = true, or disappears if it was empty. -/
def closeLast : List Batch → List Batch
  | [] => []
  | [b] => if b.kvs = [] then [] else [⟨true, b.kvs⟩]
  | b :: b' :: bs => b :: closeLast (b' :: bs)

theorem closeLast_cons (b : Batch) (bs : List Batch) (h : bs ≠ []) : closeLast (b :: bs) = b :: closeLast bs := by
  cases bs with
  | nil => exact absurd rfl h
  | cons b' t => rfl

/-- The non-empty messages as lists of chunks. -/
def groups (bs : List Batch) : List (List KV) := (bs.map (·.kvs)).filter (fun l => !l.isEmpty)

theorem groups_append (a b : List Batch) : groups (a ++ b) = groups a ++ groups b := by
  simp [groups]

theorem groups_closeLast (bs : List Batch) : groups (closeLast bs) = groups bs := by
  fun_induction closeLast bs
  · rfl
  · rename_i b hb; simp [groups, hb]
  · rename_i b hb; simp [groups]
  · rename_i b b' bs ih
    simp only [groups, List.map_cons, List.filter_cons] at ih ⊢
    split <;> simp [ih]

theorem rounds_append_yield (V : Variant) (hskip : V.skipLeadingBreak = true) (mtu : Nat) (post : Script)
    (f g : Nat) (st : St) (hmid : st.mid = false) (hd : (rounds V mtu f st).fin = .done) :
    ∃ g', g ≤ g' ∧
      (rounds V mtu (f + g) (st.app (.yield :: post))).batches =
        closeLast (rounds V mtu f st).batches ++ (rounds V mtu g' ⟨post, none, false⟩).batches ∧
      (rounds V mtu (f + g) (st.app (.yield :: post))).fin = (rounds V mtu g' ⟨post, none, false⟩).fin := by
  induction f generalizing st with
  | zero => simp [rounds] at hd
  | succ f ih =>
    have e : f + 1 + g = (f + g) + 1 := by omega
    have hP := pack_append_yield V hskip mtu post (mtu + 1) mtu st (by simp [hmid]) (Nat.le_refl _)
    rw [e, rounds_succ V mtu (f + g), hP]
    rw [rounds_succ] at hd ⊢
    rcases hp : pack V mtu (mtu + 1) mtu st with ⟨cs, e, st'⟩
    try rw [hp] at h
    try rw [hp] at hd
    cases e with
    | stop => simp at hd
    | fail => simp at hd
    | fuel => simp at hd
    | eof =>
      simp only [if_true, hmid, Bool.false_eq_true, false_or]
      by_cases hcs : cs = []
      · subst hcs
        refine ⟨f + g + 1, by omega, ?_⟩
        simp only [ne_eq, not_true_eq_false, if_false, closeLast]
        rw [rounds_succ V mtu (f + g) ⟨post, none, false⟩]
        exact ⟨rfl, rfl⟩
      · refine ⟨f + g, by omega, ?_⟩
        simp [hcs, closeLast]
    | more =>
      simp only [reduceCtorEq, if_false]
      have hm : st'.mid = false := by
        have := pack_more_mid V mtu (mtu + 1) mtu st (by rw [hp])
        rw [hp] at this; exact this
      obtain ⟨g', hg, hb, hf⟩ := ih st' hm hd
      refine ⟨g', hg, ?_, hf⟩
      rw [closeLast_cons _ _ (rounds_done_nonempty V mtu f st' hd), hb]
      rfl

theorem bodyBytes_append (a b : Script) : bodyBytes (a ++ b) = bodyBytes a + bodyBytes b := by
  induction a with
  | nil => simp [bodyBytes]
  | cons x r ih => cases x <;> simp [bodyBytes, ih] <;> omega

theorem usable_append (mtu : Nat) (a b : Script) (h : UsableMtu mtu (a ++ b)) :
    UsableMtu mtu a ∧ UsableMtu mtu b := by
  rw [usable_iff] at h
  constructor
  · rw [usable_iff]; exact ⟨h.1, fun k v hm => h.2 k v (List.mem_append_left _ hm)⟩
  · rw [usable_iff]; exact ⟨h.1, fun k v hm => h.2 k v (List.mem_append_right _ hm)⟩

theorem usable_tail (mtu : Nat) (x : Step) (b : Script) (h : UsableMtu mtu (x :: b)) : UsableMtu mtu b := by
  rw [usable_iff] at h ⊢
  exact ⟨h.1, fun k v hm => h.2 k v (List.mem_cons_of_mem _ hm)⟩

/-- Batching a script with a yield in it = batching what precedes the yield, then what follows it. -/
theorem yield_groups (mtu : Nat) (pre post : Script) (hu : UsableMtu mtu (pre ++ .yield :: post)) :
    groups (allBatches .repaired mtu (pre ++ .yield :: post)).batches =
      groups (allBatches .repaired mtu pre).batches ++ groups (allBatches .repaired mtu post).batches := by
  obtain ⟨hpre, hpost'⟩ := usable_append mtu pre _ hu
  have hpost := usable_tail mtu _ post hpost'
  have hdAll := repaired_done mtu _ hu
  have hdPre := repaired_done mtu pre hpre
  have hdPost := repaired_done mtu post hpost
  unfold allBatches at *
  have hinit : St.init (pre ++ .yield :: post) = (St.init pre).app (.yield :: post) := by
    simp [St.init, St.app]
  have hbb : bodyBytes (pre ++ .yield :: post) = bodyBytes pre + bodyBytes post := by
    rw [bodyBytes_append]; simp [bodyBytes]
  -- one more unit of fuel, split between the two parts
  have h1 := rounds_fuel .repaired mtu (bodyBytes (pre ++ .yield :: post) + 1) 1 _ (by rw [hdAll]; simp)
  have e : bodyBytes (pre ++ .yield :: post) + 1 + 1 = (bodyBytes pre + 1) + (bodyBytes post + 1) := by omega
  rw [← h1, e, hinit]
  obtain ⟨g', hg, hb, _⟩ := rounds_append_yield .repaired rfl mtu post (bodyBytes pre + 1) (bodyBytes post + 1)
    (St.init pre) rfl hdPre
  rw [hb, groups_append, groups_closeLast]
  have h2 := rounds_fuel .repaired mtu (bodyBytes post + 1) (g' - (bodyBytes post + 1)) (St.init post)
    (by rw [hdPost]; simp)
  have e2 : bodyBytes post + 1 + (g' - (bodyBytes post + 1)) = g' := by omega
  rw [e2] at h2
  have : (⟨post, none, false⟩ : St) = St.init post := rfl
  rw [this, h2]

end Fdo.Svc.Chunk
