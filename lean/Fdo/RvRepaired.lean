import Fdo.Rv
/-
The rendezvous interpreter with the four defects found by C20 repaired — what
`protocol/rv.go` and `cbor/array.go` do after the proposed patches fix-1 … fix-4:
  1. `cbor.ArrayShift` treats empty input like any other invalid input (no panic);
  2. `RVDns`/`RVIPAddress` values are decoded into a fresh variable and used only when
     `cbor.Unmarshal` returned no error;
  3. `RVDelaysec` is decoded as uint32 (the specification's type), so `* time.Second`
     cannot overflow and negative delays do not exist;
  4. the default port is taken, after the loop, from the scheme finally selected.
Used to state under which explicit guard the current code already behaves like this.
-/
namespace Fdo.Rv.Repaired
open Fdo Fdo.Cbor Fdo.Rv

/-- `cbor.ArrayShift` without the panic. -/
def arrayShift (data : Bytes) : Shift :=
  match decHead data with
  | none => .fail
  | some (mt, ai, arg, r) =>
    if mt ≠ 4 then .fail else
    if shiftLen ai arg = 0 then .fail else
    match decode1 r with
    | none => .fail
    | some (_, rest) => .ok (r.take (r.length - rest.length)) (encHead 4 (shiftLen ai arg - 1) ++ rest)

/-- The loop variables of `parseURLs`: `scheme, port, defaultPort, dnsAddr, ipAddr`. -/
structure UrlAcc where
  scheme : Scheme
  port : Option Nat
  dflt : Option Nat
  dns : Bytes
  ip : Bytes
  deriving DecidableEq, Repr

def UrlAcc.init : UrlAcc := ⟨.tls, none, none, [], []⟩

/-- The `switch proto` in `parseURLs`. -/
def applyProto (p : Nat) (a : UrlAcc) : UrlAcc :=
  if p = rvProtHTTP then { a with scheme := .http, dflt := some 80 }
  else if p = rvProtHTTPS then { a with scheme := .https, dflt := some 443 }
  else if p = rvProtTCP then { a with scheme := .tcp, dflt := none }
  else if p = rvProtTLS then { a with scheme := .tls, dflt := none }
  else if p = rvProtCoapTCP then { a with scheme := .coapTcp, dflt := some 5683 }
  else if p = rvProtCoapUDP then { a with scheme := .coap, dflt := some 5683 }
  else a

/-- One iteration of the loop in `parseURLs`. -/
def urlStep (dev : Bool) (a : UrlAcc) (i : RvInstr) : UrlAcc :=
  if i.var = rvProtocol then
    match (unmarshalUint 255 i.value).val with
    | some p => applyProto p a
    | none => a
  else if i.var = rvDevPort ∨ i.var = rvOwnerPort then
    if (dev ∧ i.var ≠ rvDevPort) ∨ (¬ dev ∧ i.var ≠ rvOwnerPort) then a
    else
      match (unmarshalUint 65535 i.value).val with
      | some p => { a with port := some p }
      | none => a
  else if i.var = rvDns then
    match (unmarshalStr i.value).val with
    | some s => { a with dns := s }
    | none => a
  else if i.var = rvIPAddress then
    match (unmarshalBytes i.value).val with
    | some s => { a with ip := s }
    | none => a
  else a

/-- `if port == "" { port = defaultPort }`, then "Assemble URLs". -/
def assemble (a : UrlAcc) : List Url :=
  let port := match a.port with
    | some p => some p
    | none => a.dflt
  (if a.dns ≠ [] then [⟨a.scheme, .dns a.dns, port⟩] else []) ++
  (if a.ip ≠ [] then [⟨a.scheme, .ip a.ip, port⟩] else [])

/-- `parseURLs(vars, device)`. -/
def parseURLs (dev : Bool) (is : List RvInstr) : List Url :=
  assemble (is.foldl (urlStep dev) UrlAcc.init)

/-- The `case RVExtRV` body once `ArrayShift` has returned `(mech, args)`. -/
def applyExt (first rest : Bytes) (d : Directive) : Directive := Rv.applyExt first rest d

/-- One iteration of the loop in `parseDirective` (`none` = `return nil`). -/
def dirStep (dev : Bool) (d : Directive) (i : RvInstr) : Option Directive :=
  if i.var = rvDevOnly then (if dev then some d else none)
  else if i.var = rvOwnerOnly then (if dev then none else some d)
  else if i.var = rvBypass then some { d with bypass := true }
  else if i.var = rvMedium then
    match (unmarshalUint 255 i.value).val with
    | some m => some (applyMedium m d)
    | none => some d
  else if i.var = rvWifiSsid then
    match (unmarshalStr i.value).val with
    | some s => some { d with ssid := s }
    | none => some d
  else if i.var = rvWifiPw then
    match (unmarshalStr i.value).val with
    | some s => some { d with pass := s }
    | none => some d
  else if i.var = rvExtRV then
    match arrayShift i.value with
    | .ok first rest => some (applyExt first rest d)
    | _ => some d
  else if i.var = rvDelaysec then
    match (unmarshalUint 4294967295 i.value).val with
    | some s => some { d with delay := (s : Int) * 1000000000 }
    | none => some d
  else if i.var = rvSvCertHash then
    match (unmarshalHash i.value).val with
    | some h => some { d with svCert := some h }
    | none => some d
  else if i.var = rvClCertHash then
    match (unmarshalHash i.value).val with
    | some h => some { d with clCert := some h }
    | none => some d
  else some d

/-- The loop of `parseDirective`. -/
def dirLoop (dev : Bool) : Directive → List RvInstr → Outcome
  | d, [] => .ok d
  | d, i :: is =>
    match dirStep dev d i with
    | some d' => dirLoop dev d' is
    | none => .dropped

/-- `parseDirective(vars, device)`. -/
def parseDirective (dev : Bool) (is : List RvInstr) : Outcome :=
  dirLoop dev { Directive.zero with urls := parseURLs dev is } is

end Fdo.Rv.Repaired
