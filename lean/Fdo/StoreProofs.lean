import Fdo.Store
/-
Helper lemmas for Fdo/Props/C18.lean: histories, the simulation argument behind the three
"removing these operations changes nothing for the others" theorems, frame lemmas.
-/
namespace Fdo.Store

variable {Raw : Type}

/-! ### histories -/

theorem exec_append (V : Variant) (mac : Raw → Auth) (s : Store) (h₁ h₂ : List (Op Raw)) :
    exec V mac s (h₁ ++ h₂) = exec V mac (exec V mac s h₁) h₂ := by
  induction h₁ generalizing s with
  | nil => rfl
  | cons op ops ih => simp [exec, ih]

theorem results_append (V : Variant) (mac : Raw → Auth) (s : Store) (h₁ h₂ : List (Op Raw)) :
    results V mac s (h₁ ++ h₂) = results V mac s h₁ ++ results V mac (exec V mac s h₁) h₂ := by
  induction h₁ generalizing s with
  | nil => rfl
  | cons op ops ih => simp [exec, results, ih]

theorem trace_append (V : Variant) (mac : Raw → Auth) (s : Store) (h₁ h₂ : List (Op Raw)) :
    trace V mac s (h₁ ++ h₂) = trace V mac s h₁ ++ trace V mac (exec V mac s h₁) h₂ := by
  induction h₁ generalizing s with
  | nil => rfl
  | cons op ops ih => simp [exec, trace, ih]

theorem results_length (V : Variant) (mac : Raw → Auth) (s : Store) (h : List (Op Raw)) :
    (results V mac s h).length = h.length := by
  induction h generalizing s with
  | nil => rfl
  | cons op ops ih => simp [results, ih]

theorem trace_map_snd (V : Variant) (mac : Raw → Auth) (s : Store) (h : List (Op Raw)) :
    (trace V mac s h).map (·.2) = results V mac s h := by
  induction h generalizing s with
  | nil => rfl
  | cons op ops ih => simp [trace, results, ih]

theorem trace_map_fst (V : Variant) (mac : Raw → Auth) (s : Store) (h : List (Op Raw)) :
    (trace V mac s h).map (·.1) = h := by
  induction h generalizing s with
  | nil => rfl
  | cons op ops ih => simp [trace, ih]

theorem exec_snoc (V : Variant) (mac : Raw → Auth) (s : Store) (h : List (Op Raw)) (op : Op Raw) :
    exec V mac s (h ++ [op]) = (step V mac (exec V mac s h) op).1 := by
  simp [exec_append, exec]

/-! ### dropping operations that the rest cannot observe

`R` relates the store of the full history with the store of the history from which the
operations selected by `drop` were removed.  If dropped operations preserve `R` against the
unchanged other side, and kept operations give equal results and related stores on related
stores, then the kept operations see the same results in both histories. -/

theorem trace_filter_sim (V : Variant) (mac : Raw → Auth) (R : Store → Store → Prop)
    (drop : Op Raw → Bool)
    (hdrop : ∀ s s' op, R s s' → drop op = true → R (step V mac s op).1 s')
    (hkeep : ∀ s s' op, R s s' → drop op = false →
      (step V mac s op).2 = (step V mac s' op).2 ∧ R (step V mac s op).1 (step V mac s' op).1) :
    ∀ (h : List (Op Raw)) (s s' : Store), R s s' →
      (trace V mac s h).filter (fun p => !drop p.1) = trace V mac s' (h.filter (fun op => !drop op))
      ∧ R (exec V mac s h) (exec V mac s' (h.filter (fun op => !drop op))) := by
  intro h
  induction h with
  | nil => intro s s' hr; exact ⟨rfl, hr⟩
  | cons op ops ih =>
    intro s s' hr
    cases hd : drop op with
    | true =>
      have := ih _ _ (hdrop s s' op hr hd)
      simpa [trace, exec, hd] using this
    | false =>
      have hk := hkeep s s' op hr hd
      have := ih _ _ hk.2
      simp [trace, exec, hd, hk.1, this.1, this.2]

/-! ### frames -/

/-- Two stores that agree on session `t` and on everything persistent. -/
structure AgreeOn (t : Token) (s s' : Store) : Prop where
  tok : s.tokens t = s'.tokens t
  vou : s.vouchers = s'.vouchers
  rvb : s.rvBlobs = s'.rvBlobs
  own : s.ownerKeys = s'.ownerKeys
  mfg : s.mfgKeys = s'.mfgKeys

theorem AgreeOn.refl (t : Token) (s : Store) : AgreeOn t s s := ⟨rfl, rfl, rfl, rfl, rfl⟩

theorem AgreeOn.trans {t : Token} {a b c : Store} (h₁ : AgreeOn t a b) (h₂ : AgreeOn t b c) :
    AgreeOn t a c :=
  ⟨h₁.tok.trans h₂.tok, h₁.vou.trans h₂.vou, h₁.rvb.trans h₂.rvb, h₁.own.trans h₂.own,
    h₁.mfg.trans h₂.mfg⟩

/-- Two stores with the same persistent part. -/
structure SamePersistent (s s' : Store) : Prop where
  vou : s.vouchers = s'.vouchers
  rvb : s.rvBlobs = s'.rvBlobs
  own : s.ownerKeys = s'.ownerKeys
  mfg : s.mfgKeys = s'.mfgKeys

theorem setField_frame (V : Variant) (s : Store) (t t' : Token) (f : Field) (v : Bytes)
    (h : t' ≠ t) : AgreeOn t (setField V s t' f v).1 s := by
  unfold setField
  cases hs : s.tokens t' with
  | none => exact AgreeOn.refl t s
  | some pf =>
    obtain ⟨p, fs⟩ := pf
    simp only
    split
    · exact AgreeOn.refl t s
    · split
      · exact AgreeOn.refl t s
      · exact ⟨by simp [upd, Ne.symm h], rfl, rfl, rfl, rfl⟩

theorem setField_persistent (V : Variant) (s : Store) (t : Token) (f : Field) (v : Bytes) :
    SamePersistent (setField V s t f v).1 s := by
  unfold setField
  cases hs : s.tokens t with
  | none => exact ⟨rfl, rfl, rfl, rfl⟩
  | some pf =>
    obtain ⟨p, fs⟩ := pf
    simp only
    split
    · exact ⟨rfl, rfl, rfl, rfl⟩
    · split
      · exact ⟨rfl, rfl, rfl, rfl⟩
      · exact ⟨rfl, rfl, rfl, rfl⟩

/-- A session operation that does not address `t` leaves session `t` and everything persistent
as they were. -/
theorem foreign_frame (V : Variant) (mac : Raw → Auth) (t : Token) (s : Store) (op : Op Raw)
    (h : op.foreignTo mac t = true) : AgreeOn t (step V mac s op).1 s := by
  cases op with
  | newToken t' p =>
    have : t' ≠ t := by simpa [Op.foreignTo] using h
    exact ⟨by simp [step, upd, Ne.symm this], rfl, rfl, rfl, rfl⟩
  | invalidate r =>
    have hm : mac r ≠ .valid t := by simpa [Op.foreignTo] using h
    cases ha : mac r with
    | valid t' =>
      have : t' ≠ t := by intro e; exact hm (by rw [ha, e])
      refine ⟨?_, ?_, ?_, ?_, ?_⟩ <;> simp [step, withSession, ha, upd, Ne.symm this]
    | invalid => simpa [step, withSession, ha] using AgreeOn.refl t s
    | short => simpa [step, withSession, ha] using AgreeOn.refl t s
  | set r f v =>
    have hm : mac r ≠ .valid t := by simpa [Op.foreignTo] using h
    cases ha : mac r with
    | valid t' =>
      have : t' ≠ t := by intro e; exact hm (by rw [ha, e])
      simpa [step, withSession, ha] using setField_frame V s t t' f v this
    | invalid => simpa [step, withSession, ha] using AgreeOn.refl t s
    | short => simpa [step, withSession, ha] using AgreeOn.refl t s
  | get r f =>
    cases ha : mac r <;> simpa [step, withSession, ha] using AgreeOn.refl t s
  | selfInfo r =>
    cases ha : mac r <;> simpa [step, withSession, ha] using AgreeOn.refl t s
  | addVoucher | getVoucher | replaceVoucher | removeVoucher | setRVBlob | getRVBlob
  | addOwnerKey | ownerKey | addMfgKey | mfgKey | reopen => simp [Op.foreignTo] at h

theorem replaceVoucher_congr (V : Variant) (s s' : Store) (g g' : Guid) (ext : Bool) (v : Bytes)
    (hv : s.vouchers = s'.vouchers) :
    (replaceVoucher V s g g' ext v).2 = (replaceVoucher V s' g g' ext v).2 ∧
    (replaceVoucher V s g g' ext v).1.vouchers = (replaceVoucher V s' g g' ext v).1.vouchers ∧
    (replaceVoucher V s g g' ext v).1.tokens = s.tokens ∧
    (replaceVoucher V s g g' ext v).1.rvBlobs = s.rvBlobs ∧
    (replaceVoucher V s g g' ext v).1.ownerKeys = s.ownerKeys ∧
    (replaceVoucher V s g g' ext v).1.mfgKeys = s.mfgKeys := by
  unfold replaceVoucher
  rw [← hv]
  split
  · simp [hv]
  · split
    · simp [hv]
    · split
      · simp [hv]
      · split
        · simp [hv]
        · cases hg : s.vouchers g <;> simp [hv]

/-- What a persistent operation or `reopen` returns and does depends only on the persistent
part, and it never touches a session. -/
theorem persistent_congr (V : Variant) (mac : Raw → Auth) (s s' : Store) (op : Op Raw)
    (hs : op.isSession = false) (hp : SamePersistent s s') :
    (step V mac s op).2 = (step V mac s' op).2 ∧
    SamePersistent (step V mac s op).1 (step V mac s' op).1 ∧
    (step V mac s op).1.tokens = s.tokens := by
  obtain ⟨hv, hr, ho, hm⟩ := hp
  cases op with
  | newToken | invalidate | set | get | selfInfo => simp [Op.isSession] at hs
  | addVoucher g v =>
    cases hg : s'.vouchers g <;>
      (refine ⟨?_, ⟨?_, ?_, ?_, ?_⟩, ?_⟩ <;> simp [step, hv, hr, ho, hm, hg])
  | getVoucher g => refine ⟨?_, ⟨?_, ?_, ?_, ?_⟩, ?_⟩ <;> simp [step, hv, hr, ho, hm]
  | replaceVoucher g g' ext v =>
    have h := replaceVoucher_congr V s s' g g' ext v hv
    have h' := replaceVoucher_congr V s' s' g g' ext v rfl
    simp only [step]
    exact ⟨h.1, ⟨h.2.1, by rw [h.2.2.2.1, h'.2.2.2.1, hr], by rw [h.2.2.2.2.1, h'.2.2.2.2.1, ho],
      by rw [h.2.2.2.2.2, h'.2.2.2.2.2, hm]⟩, h.2.2.1⟩
  | removeVoucher g =>
    cases hg : s'.vouchers g <;>
      (refine ⟨?_, ⟨?_, ?_, ?_, ?_⟩, ?_⟩ <;> simp [step, hv, hr, ho, hm, hg])
  | setRVBlob g b v exp => refine ⟨?_, ⟨?_, ?_, ?_, ?_⟩, ?_⟩ <;> simp [step, hv, hr, ho, hm]
  | getRVBlob g now =>
    cases hg : s'.rvBlobs g <;>
      (refine ⟨?_, ⟨?_, ?_, ?_, ?_⟩, ?_⟩ <;> simp [step, hv, hr, ho, hm, hg])
  | addOwnerKey typ bits v =>
    cases ha : addSlot typ bits <;>
      (refine ⟨?_, ⟨?_, ?_, ?_, ?_⟩, ?_⟩ <;> simp [step, hv, hr, ho, hm, ha])
  | ownerKey typ bits => refine ⟨?_, ⟨?_, ?_, ?_, ?_⟩, ?_⟩ <;> simp [step, hv, hr, ho, hm]
  | addMfgKey typ bits chain v =>
    cases chain <;> cases ha : addSlot typ bits <;>
      (refine ⟨?_, ⟨?_, ?_, ?_, ?_⟩, ?_⟩ <;> simp [step, hv, hr, ho, hm, ha])
  | mfgKey typ bits => refine ⟨?_, ⟨?_, ?_, ?_, ?_⟩, ?_⟩ <;> simp [step, hv, hr, ho, hm]
  | reopen => exact ⟨rfl, ⟨hv, hr, ho, hm⟩, rfl⟩

/-- A session operation never touches the persistent part. -/
theorem session_persistent (V : Variant) (mac : Raw → Auth) (s : Store) (op : Op Raw)
    (hs : op.isSession = true) : SamePersistent (step V mac s op).1 s := by
  cases op with
  | newToken t p => exact ⟨rfl, rfl, rfl, rfl⟩
  | invalidate r => cases ha : mac r <;> simp [step, withSession, ha] <;> exact ⟨rfl, rfl, rfl, rfl⟩
  | set r f v =>
    cases ha : mac r with
    | valid t => simpa [step, withSession, ha] using setField_persistent V s t f v
    | invalid => simp [step, withSession, ha]; exact ⟨rfl, rfl, rfl, rfl⟩
    | short => simp [step, withSession, ha]; exact ⟨rfl, rfl, rfl, rfl⟩
  | get r f => cases ha : mac r <;> simp [step, withSession, ha] <;> exact ⟨rfl, rfl, rfl, rfl⟩
  | selfInfo r => cases ha : mac r <;> simp [step, withSession, ha] <;> exact ⟨rfl, rfl, rfl, rfl⟩
  | addVoucher | getVoucher | replaceVoucher | removeVoucher | setRVBlob | getRVBlob
  | addOwnerKey | ownerKey | addMfgKey | mfgKey | reopen => simp [Op.isSession] at hs

theorem setField_congr (V : Variant) (s s' : Store) (t : Token) (f : Field) (v : Bytes)
    (h : s.tokens t = s'.tokens t) :
    (setField V s t f v).2 = (setField V s' t f v).2 ∧
    (setField V s t f v).1.tokens t = (setField V s' t f v).1.tokens t := by
  unfold setField
  rw [← h]
  cases hs : s.tokens t with
  | none => simp [h]
  | some pf =>
    obtain ⟨p, fs⟩ := pf
    simp only
    split
    · simp [h]
    · split
      · simp [h]
      · simp

/-- An operation that addresses session `t` (or no session at all) gives the same result on two
stores that agree on `t` and the persistent part, and the stores agree afterwards. -/
theorem own_congr (V : Variant) (mac : Raw → Auth) (t : Token) (s s' : Store) (op : Op Raw)
    (hf : op.foreignTo mac t = false) (ha : AgreeOn t s s') :
    (step V mac s op).2 = (step V mac s' op).2 ∧ AgreeOn t (step V mac s op).1 (step V mac s' op).1 := by
  by_cases hs : op.isSession = true
  · have hp := session_persistent V mac s op hs
    have hp' := session_persistent V mac s' op hs
    have pers : ∀ (x y : Store), SamePersistent x s → SamePersistent y s' → x.tokens t = y.tokens t →
        AgreeOn t x y := fun x y hx hy ht =>
      ⟨ht, hx.vou.trans (ha.vou.trans hy.vou.symm), hx.rvb.trans (ha.rvb.trans hy.rvb.symm),
        hx.own.trans (ha.own.trans hy.own.symm), hx.mfg.trans (ha.mfg.trans hy.mfg.symm)⟩
    cases op with
    | newToken t' p =>
      have : t' = t := by simpa [Op.foreignTo] using hf
      subst this
      exact ⟨rfl, pers _ _ hp hp' (by simp [step])⟩
    | invalidate r =>
      have hm : mac r = .valid t := by simpa [Op.foreignTo] using hf
      refine ⟨by simp [step, withSession, hm], pers _ _ hp hp' (by simp [step, withSession, hm])⟩
    | set r f v =>
      have hm : mac r = .valid t := by simpa [Op.foreignTo] using hf
      have hc := setField_congr V s s' t f v ha.tok
      refine ⟨by simpa [step, withSession, hm] using hc.1,
        pers _ _ hp hp' (by simpa [step, withSession, hm] using hc.2)⟩
    | get r f =>
      have hm : mac r = .valid t := by simpa [Op.foreignTo] using hf
      refine ⟨by simp [step, withSession, hm, getField, ha.tok],
        pers _ _ hp hp' (by simpa [step, withSession, hm] using ha.tok)⟩
    | selfInfo r =>
      have hm : mac r = .valid t := by simpa [Op.foreignTo] using hf
      refine ⟨by simp [step, withSession, hm], pers _ _ hp hp' (by simpa [step, withSession, hm] using ha.tok)⟩
    | addVoucher | getVoucher | replaceVoucher | removeVoucher | setRVBlob | getRVBlob
    | addOwnerKey | ownerKey | addMfgKey | mfgKey | reopen => simp [Op.isSession] at hs
  · have hs' : op.isSession = false := by simpa using hs
    have h := persistent_congr V mac s s' op hs' ⟨ha.vou, ha.rvb, ha.own, ha.mfg⟩
    have h' := persistent_congr V mac s' s' op hs' ⟨rfl, rfl, rfl, rfl⟩
    refine ⟨h.1, ⟨?_, h.2.1.vou, h.2.1.rvb, h.2.1.own, h.2.1.mfg⟩⟩
    rw [h.2.2, h'.2.2]; exact ha.tok

/-! ### one session, one field -/

/-- What session `t` holds in field `f`: `none` when the session does not exist. -/
def Store.field (s : Store) (t : Token) (f : Field) : Option (Option Bytes) :=
  match s.tokens t with
  | none => none
  | some (_, fs) => some (fs f)

def Store.live (s : Store) (t : Token) : Prop := (s.tokens t).isSome

theorem getField_eq (s : Store) (t : Token) (f : Field) :
    getField s t f = match s.field t f with
      | none => .notFound
      | some x => found x := by
  unfold getField Store.field
  cases s.tokens t with
  | none => rfl
  | some pf => rfl

theorem setField_repaired (s : Store) (t : Token) (f : Field) (v : Bytes) :
    setField .repaired s t f v = match s.tokens t with
      | none => (s, .error)
      | some (p, fs) => ({ s with tokens := upd s.tokens t (some (p, upd fs f (some v))) }, .ok) := by
  unfold setField
  cases s.tokens t with
  | none => rfl
  | some pf => simp

/-- A quiet operation does not change what session `t` holds in field `f`. -/
theorem quiet_field (mac : Raw → Auth) (t : Token) (f : Field) (s : Store) (op : Op Raw)
    (hq : op.quiet mac t f) : (step .repaired mac s op).1.field t f = s.field t f := by
  cases op with
  | newToken t' p =>
    have : t' ≠ t := hq
    simp [step, Store.field, upd, Ne.symm this]
  | invalidate r =>
    have hm : mac r ≠ .valid t := hq
    cases ha : mac r with
    | valid t' =>
      have : t' ≠ t := by intro e; exact hm (by rw [ha, e])
      simp [step, withSession, ha, Store.field, upd, Ne.symm this]
    | invalid => simp [step, withSession, ha]
    | short => simp [step, withSession, ha]
  | set r f' v =>
    have hm : ¬ (mac r = .valid t ∧ f' = f) := hq
    cases ha : mac r with
    | valid t' =>
      simp only [step, withSession, ha, setField_repaired]
      cases hs : s.tokens t' with
      | none => rfl
      | some pf =>
        obtain ⟨p, fs⟩ := pf
        by_cases ht : t' = t
        · subst ht
          have hf : f' ≠ f := fun e => hm ⟨ha, e⟩
          simp [Store.field, hs, upd, Ne.symm hf]
        · simp [Store.field, upd, Ne.symm ht]
    | invalid => simp [step, withSession, ha]
    | short => simp [step, withSession, ha]
  | get r f' => cases ha : mac r <;> simp [step, withSession, ha]
  | selfInfo r => cases ha : mac r <;> simp [step, withSession, ha]
  | addVoucher g v => simp only [step]; cases s.vouchers g <;> rfl
  | getVoucher g => rfl
  | replaceVoucher g g' ext v =>
    have h := (replaceVoucher_congr .repaired s s g g' ext v rfl).2.2.1
    simp only [step, Store.field, h]
  | removeVoucher g => simp only [step]; cases s.vouchers g <;> rfl
  | setRVBlob g b v exp => rfl
  | getRVBlob g now =>
    simp only [step]
    cases s.rvBlobs g with
    | none => rfl
    | some e => rfl
  | addOwnerKey typ bits v => simp only [step]; cases addSlot typ bits <;> rfl
  | ownerKey typ bits => rfl
  | addMfgKey typ bits chain v =>
    simp only [step]
    cases chain with
    | false => rfl
    | true => cases addSlot typ bits <;> rfl
  | mfgKey typ bits => rfl
  | reopen => rfl

theorem quiet_exec_field (mac : Raw → Auth) (t : Token) (f : Field) (s : Store) (h : List (Op Raw))
    (hq : ∀ op ∈ h, op.quiet mac t f) : (exec .repaired mac s h).field t f = s.field t f := by
  induction h generalizing s with
  | nil => rfl
  | cons op ops ih =>
    simp only [exec]
    rw [ih _ (fun o ho => hq o (List.mem_cons_of_mem _ ho))]
    exact quiet_field mac t f s op (hq op List.mem_cons_self)

/-- An operation that neither issues nor invalidates `t` keeps `t` live (or dead). -/
theorem keeps_live (mac : Raw → Auth) (t : Token) (s : Store) (op : Op Raw)
    (hk : op.keeps mac t) :
    ((step .repaired mac s op).1.tokens t).isSome = (s.tokens t).isSome := by
  cases op with
  | newToken t' p =>
    have : t' ≠ t := hk
    simp [step, upd, Ne.symm this]
  | invalidate r =>
    have hm : mac r ≠ .valid t := hk
    cases ha : mac r with
    | valid t' =>
      have : t' ≠ t := by intro e; exact hm (by rw [ha, e])
      simp [step, withSession, ha, upd, Ne.symm this]
    | invalid => simp [step, withSession, ha]
    | short => simp [step, withSession, ha]
  | set r f' v =>
    cases ha : mac r with
    | valid t' =>
      simp only [step, withSession, ha, setField_repaired]
      cases hs : s.tokens t' with
      | none => rfl
      | some pf =>
        obtain ⟨p, fs⟩ := pf
        by_cases ht : t' = t
        · subst ht; simp [hs]
        · simp [upd, Ne.symm ht]
    | invalid => simp [step, withSession, ha]
    | short => simp [step, withSession, ha]
  | get r f' => cases ha : mac r <;> simp [step, withSession, ha]
  | selfInfo r => cases ha : mac r <;> simp [step, withSession, ha]
  | addVoucher g v => simp only [step]; cases s.vouchers g <;> rfl
  | getVoucher g => rfl
  | replaceVoucher g g' ext v =>
    have h := (replaceVoucher_congr .repaired s s g g' ext v rfl).2.2.1
    simp only [step, h]
  | removeVoucher g => simp only [step]; cases s.vouchers g <;> rfl
  | setRVBlob g b v exp => rfl
  | getRVBlob g now =>
    simp only [step]
    cases s.rvBlobs g with
    | none => rfl
    | some e => rfl
  | addOwnerKey typ bits v => simp only [step]; cases addSlot typ bits <;> rfl
  | ownerKey typ bits => rfl
  | addMfgKey typ bits chain v =>
    simp only [step]
    cases chain with
    | false => rfl
    | true => cases addSlot typ bits <;> rfl
  | mfgKey typ bits => rfl
  | reopen => rfl

theorem keeps_exec_live (mac : Raw → Auth) (t : Token) (s : Store) (h : List (Op Raw))
    (hk : ∀ op ∈ h, op.keeps mac t) :
    ((exec .repaired mac s h).tokens t).isSome = (s.tokens t).isSome := by
  induction h generalizing s with
  | nil => rfl
  | cons op ops ih =>
    simp only [exec]
    rw [ih _ (fun o ho => hk o (List.mem_cons_of_mem _ ho))]
    exact keeps_live mac t s op (hk op List.mem_cons_self)

/-- Without a `NewToken` that draws `t`, a dead session stays dead. -/
theorem noIssue_dead (mac : Raw → Auth) (t : Token) (s : Store) (op : Op Raw)
    (hn : op.noIssue t) (hd : s.tokens t = none) : (step .repaired mac s op).1.tokens t = none := by
  cases op with
  | newToken t' p =>
    have : t' ≠ t := hn
    simp [step, upd, Ne.symm this, hd]
  | invalidate r =>
    cases ha : mac r with
    | valid t' => by_cases ht : t = t' <;> simp [step, withSession, ha, upd, ht, hd]
    | invalid => simp [step, withSession, ha, hd]
    | short => simp [step, withSession, ha, hd]
  | set r f' v =>
    cases ha : mac r with
    | valid t' =>
      simp only [step, withSession, ha, setField_repaired]
      cases hs : s.tokens t' with
      | none => exact hd
      | some pf =>
        obtain ⟨p, fs⟩ := pf
        have : t ≠ t' := by intro e; rw [e, hs] at hd; exact absurd hd (by simp)
        simp [upd, this, hd]
    | invalid => simp [step, withSession, ha, hd]
    | short => simp [step, withSession, ha, hd]
  | get r f' => cases ha : mac r <;> simp [step, withSession, ha, hd]
  | selfInfo r => cases ha : mac r <;> simp [step, withSession, ha, hd]
  | addVoucher g v => simp only [step]; cases s.vouchers g <;> exact hd
  | getVoucher g => exact hd
  | replaceVoucher g g' ext v =>
    have h := (replaceVoucher_congr .repaired s s g g' ext v rfl).2.2.1
    simp only [step, h, hd]
  | removeVoucher g => simp only [step]; cases s.vouchers g <;> exact hd
  | setRVBlob g b v exp => exact hd
  | getRVBlob g now =>
    simp only [step]
    cases s.rvBlobs g with
    | none => exact hd
    | some e => exact hd
  | addOwnerKey typ bits v => simp only [step]; cases addSlot typ bits <;> exact hd
  | ownerKey typ bits => exact hd
  | addMfgKey typ bits chain v =>
    simp only [step]
    cases chain with
    | false => exact hd
    | true => cases addSlot typ bits <;> exact hd
  | mfgKey typ bits => exact hd
  | reopen => exact hd

theorem noIssue_exec_dead (mac : Raw → Auth) (t : Token) (s : Store) (h : List (Op Raw))
    (hn : ∀ op ∈ h, op.noIssue t) (hd : s.tokens t = none) :
    (exec .repaired mac s h).tokens t = none := by
  induction h generalizing s with
  | nil => exact hd
  | cons op ops ih =>
    simp only [exec]
    exact ih _ (fun o ho => hn o (List.mem_cons_of_mem _ ho))
      (noIssue_dead mac t s op (hn op List.mem_cons_self) hd)

/-! ### rendezvous blobs -/

/-- `op` does not register a blob for `g`. -/
def Op.keepsBlob (g : Guid) : Op Raw → Prop
  | .setRVBlob g' _ _ _ => g' ≠ g
  | _ => True

theorem keepsBlob_frame (V : Variant) (mac : Raw → Auth) (g : Guid) (s : Store) (op : Op Raw)
    (hk : op.keepsBlob g) : (step V mac s op).1.rvBlobs g = s.rvBlobs g := by
  by_cases hs : op.isSession = true
  · rw [(session_persistent V mac s op hs).rvb]
  · have hs' : op.isSession = false := by simpa using hs
    cases op with
    | newToken | invalidate | set | get | selfInfo => simp [Op.isSession] at hs'
    | setRVBlob g' b v exp =>
      have : g' ≠ g := hk
      simp [step, upd, Ne.symm this]
    | addVoucher g' v => simp only [step]; cases s.vouchers g' <;> rfl
    | getVoucher g' => rfl
    | replaceVoucher g₁ g₂ ext v =>
      have h := (replaceVoucher_congr V s s g₁ g₂ ext v rfl).2.2.2.1
      simp only [step, h]
    | removeVoucher g' => simp only [step]; cases s.vouchers g' <;> rfl
    | getRVBlob g' now =>
      simp only [step]
      cases s.rvBlobs g' with
      | none => rfl
      | some e => rfl
    | addOwnerKey typ bits v => simp only [step]; cases addSlot typ bits <;> rfl
    | ownerKey typ bits => rfl
    | addMfgKey typ bits chain v =>
      simp only [step]
      cases chain with
      | false => rfl
      | true => cases addSlot typ bits <;> rfl
    | mfgKey typ bits => rfl
    | reopen => rfl

theorem keepsBlob_exec (V : Variant) (mac : Raw → Auth) (g : Guid) (s : Store) (h : List (Op Raw))
    (hk : ∀ op ∈ h, op.keepsBlob g) : (exec V mac s h).rvBlobs g = s.rvBlobs g := by
  induction h generalizing s with
  | nil => rfl
  | cons op ops ih =>
    simp only [exec]
    rw [ih _ (fun o ho => hk o (List.mem_cons_of_mem _ ho))]
    exact keepsBlob_frame V mac g s op (hk op List.mem_cons_self)

/-! ### vouchers -/

/-- `ReplaceVoucher` succeeds exactly when the replacement has no extensions and a new GUID that
is not stored, and the replaced GUID is stored. -/
theorem replaceVoucher_ok_iff (s : Store) (g g' : Guid) (ext : Bool) (v : Bytes) :
    (replaceVoucher .repaired s g g' ext v).2 = .ok ↔
      ext = false ∧ g ≠ g' ∧ s.vouchers g' = none ∧ (s.vouchers g).isSome = true := by
  unfold replaceVoucher
  cases ext with
  | true => simp
  | false =>
    by_cases hg : g = g'
    · simp [hg]
    · cases h' : s.vouchers g' with
      | some x => simp [hg]
      | none => cases h : s.vouchers g <;> simp [hg]

theorem replaceVoucher_state (s : Store) (g g' : Guid) (ext : Bool) (v : Bytes) :
    (replaceVoucher .repaired s g g' ext v).1 =
      if (replaceVoucher .repaired s g g' ext v).2 = .ok then
        { s with vouchers := upd (upd s.vouchers g' (some v)) g none }
      else s := by
  unfold replaceVoucher
  cases ext with
  | true => simp
  | false =>
    by_cases hg : g = g'
    · simp [hg]
    · cases h' : s.vouchers g' with
      | some x => simp [hg]
      | none => cases h : s.vouchers g <;> simp [hg]

/-- `op` neither replaces nor removes the voucher stored under `g` (and does not replace
another voucher by one with GUID `g`). -/
def Op.keepsVoucher (g : Guid) : Op Raw → Prop
  | .replaceVoucher g₁ g₂ _ _ => g₁ ≠ g ∧ g₂ ≠ g
  | .removeVoucher g' => g' ≠ g
  | _ => True

theorem keepsVoucher_frame (V : Variant) (mac : Raw → Auth) (g : Guid) (v : Bytes) (s : Store)
    (op : Op Raw) (hk : op.keepsVoucher g) (hv : s.vouchers g = some v) :
    (step V mac s op).1.vouchers g = some v := by
  by_cases hs : op.isSession = true
  · rw [(session_persistent V mac s op hs).vou]; exact hv
  · have hs' : op.isSession = false := by simpa using hs
    cases op with
    | newToken | invalidate | set | get | selfInfo => simp [Op.isSession] at hs'
    | addVoucher g' v' =>
      simp only [step]
      cases hg : s.vouchers g' with
      | some x => exact hv
      | none =>
        have : g ≠ g' := by intro e; rw [e, hg] at hv; exact absurd hv (by simp)
        simp [upd, this, hv]
    | getVoucher g' => exact hv
    | replaceVoucher g₁ g₂ ext v' =>
      obtain ⟨h1, h2⟩ : g₁ ≠ g ∧ g₂ ≠ g := hk
      simp only [step]
      unfold replaceVoucher
      split
      · exact hv
      · split
        · exact hv
        · split
          · exact hv
          · split
            · exact hv
            · cases hg : s.vouchers g₁ with
              | none => exact hv
              | some x => simp [upd, Ne.symm h1, Ne.symm h2, hv]
    | removeVoucher g' =>
      have : g' ≠ g := hk
      simp only [step]
      cases hg : s.vouchers g' with
      | none => exact hv
      | some x => simp [upd, Ne.symm this, hv]
    | setRVBlob g' b v' exp => exact hv
    | getRVBlob g' now =>
      simp only [step]
      cases s.rvBlobs g' with
      | none => exact hv
      | some e => exact hv
    | addOwnerKey typ bits v' => simp only [step]; cases addSlot typ bits <;> exact hv
    | ownerKey typ bits => exact hv
    | addMfgKey typ bits chain v' =>
      simp only [step]
      cases chain with
      | false => exact hv
      | true => cases addSlot typ bits <;> exact hv
    | mfgKey typ bits => exact hv
    | reopen => exact hv

theorem keepsVoucher_exec (V : Variant) (mac : Raw → Auth) (g : Guid) (v : Bytes) (s : Store)
    (h : List (Op Raw)) (hk : ∀ op ∈ h, op.keepsVoucher g) (hv : s.vouchers g = some v) :
    (exec V mac s h).vouchers g = some v := by
  induction h generalizing s with
  | nil => exact hv
  | cons op ops ih =>
    simp only [exec]
    exact ih _ (fun o ho => hk o (List.mem_cons_of_mem _ ho))
      (keepsVoucher_frame V mac g v s op (hk op List.mem_cons_self) hv)

theorem store_eta (s : Store) (tk : Token → Option (Protocol × Fields)) (h : tk = s.tokens) :
    { s with tokens := tk } = s := by
  cases s; simp at h; simp [h]

end Fdo.Store
