import Fdo.Rv
/-
Reference interpreter for one rendezvous directive, written from the tables of the FDO 1.1
specification (§3.3.x "RendezvousInfo": RVVariable table, RVProtocolValue table, RVMediumValue
table) and NOT from the control flow of `protocol/rv.go`:

  * it is a set of independent look-ups ("the value of variable V in this directive"), not a
    loop with mutable state; defaults are applied once, at the end, from the tables;
  * a variable that occurs more than once is read from its LAST instruction whose value is
    valid for the variable's type ("later instruction overrides", invalid values ignored);
  * role columns: `RVDevOnly`/`RVOwnerOnly` select the directive for one role, `RVDevPort`
    is read by the device only, `RVOwnerPort` by the owner only.

What is shared with the model in `Fdo/Rv.lean` is only the vocabulary (`RvInstr`, `Url`,
`Directive`, `Outcome`) and the notion "these bytes are a CBOR value of type T"
(`Dec.val` of the typed `cbor.Unmarshal` readers, i.e. decoded with `err == nil`): what the
library's CBOR layer accepts as a uint8, a string, … is the subject of C11/C12, not of C20.
-/
namespace Fdo.RvSpec
open Fdo Fdo.Rv

/-! ## Tables -/

/-- Role columns of the RVVariable table. -/
structure RoleRow where
  portVar : Nat        -- the port variable this role reads
  otherOnlyVar : Nat   -- the marker that reserves the directive for the other role
  deriving DecidableEq, Repr

def roleRow (dev : Bool) : RoleRow :=
  if dev then ⟨3, 1⟩ else ⟨4, 0⟩

/-- RVProtocolValue table: value ↦ URL scheme.  0 (REST) is not supported; other values are
not assigned: both leave the directive as if the instruction were absent. -/
def protoTable : List (Nat × Scheme) :=
  [(1, .http), (2, .https), (3, .tcp), (4, .tls), (5, .coapTcp), (6, .coap)]

def schemeOfProto (p : Nat) : Option Scheme := List.lookup p protoTable

/-- Default port of a scheme (none for raw tcp/tls). -/
def defaultPort : Scheme → Option Nat
  | .http => some 80
  | .https => some 443
  | .coapTcp => some 5683
  | .coap => some 5683
  | .tcp => none
  | .tls => none

/-- Scheme of a directive without (valid) `RVProtocol`. -/
def defaultScheme : Scheme := .tls

inductive Iface where
  | eth | wlan
  deriving DecidableEq, Repr

/-- RVMediumValue table: 0..9 wired interface n, 10..19 wireless interface n-10,
20 all wired, 21 all wireless. -/
def mediumTable (m : Nat) : Option (Iface × Nat) :=
  if m < 10 then some (.eth, m)
  else if m < 20 then some (.wlan, m - 10)
  else if m = 20 then some (.eth, 20)
  else if m = 21 then some (.wlan, 21)
  else none

def mediumFor (k : Iface) (m : Nat) : Option Nat :=
  match mediumTable m with
  | some (k', n) => if k' = k then some n else none
  | none => none

/-! ## Value readers: "the bytes are a valid CBOR value of the variable's type" -/

def readU8 (v : Bytes) : Option Nat := (unmarshalUint 255 v).val
def readU16 (v : Bytes) : Option Nat := (unmarshalUint 65535 v).val
def readU32 (v : Bytes) : Option Nat := (unmarshalUint 4294967295 v).val
def readText (v : Bytes) : Option Bytes := (unmarshalStr v).val
def readAddr (v : Bytes) : Option Bytes := (unmarshalBytes v).val
def readHash (v : Bytes) : Option (Int × Bytes) := (unmarshalHash v).val

/-- RVExtRV value: a non-empty array whose first element is the mechanism name (a string);
the arguments are the array of the remaining elements. -/
def readExt (v : Bytes) : Option (Bytes × Bytes) :=
  match arrayShift v with
  | .ok first rest =>
    match readText first with
    | some m => some (m, rest)
    | none => none
  | .fail => none

/-! ## Look-up -/

/-- The value `p` yields for the LAST instruction on which it yields one. -/
def lastValid {α : Type} (p : RvInstr → Option α) : List RvInstr → Option α
  | [] => none
  | i :: is =>
    match lastValid p is with
    | some a => some a
    | none => p i

/-- Reader `rd` applied to instructions of variable `var` only. -/
def onVar {α : Type} (var : Nat) (rd : Bytes → Option α) (i : RvInstr) : Option α :=
  if i.var = var then rd i.value else none

/-- Everything the directive says, variable by variable. -/
structure Lookups where
  scheme : Option Scheme
  port : Option Nat
  dns : Option Bytes
  ip : Option Bytes
  eth : Option Nat
  wlan : Option Nat
  ssid : Option Bytes
  pass : Option Bytes
  ext : Option (Bytes × Bytes)
  delay : Option Nat
  svCert : Option (Int × Bytes)
  clCert : Option (Int × Bytes)
  deriving DecidableEq, Repr

def pScheme : RvInstr → Option Scheme := onVar 12 (fun v => (readU8 v).bind schemeOfProto)
def pPort (dev : Bool) : RvInstr → Option Nat := onVar (roleRow dev).portVar readU16
def pDns : RvInstr → Option Bytes := onVar 5 readText
def pIp : RvInstr → Option Bytes := onVar 2 readAddr
def pEth : RvInstr → Option Nat := onVar 11 (fun v => (readU8 v).bind (mediumFor .eth))
def pWlan : RvInstr → Option Nat := onVar 11 (fun v => (readU8 v).bind (mediumFor .wlan))
def pSsid : RvInstr → Option Bytes := onVar 9 readText
def pPass : RvInstr → Option Bytes := onVar 10 readText
def pExt : RvInstr → Option (Bytes × Bytes) := onVar 15 readExt
def pDelay : RvInstr → Option Nat := onVar 13 readU32
def pSv : RvInstr → Option (Int × Bytes) := onVar 6 readHash
def pCl : RvInstr → Option (Int × Bytes) := onVar 7 readHash

def lookups (dev : Bool) (is : List RvInstr) : Lookups :=
  { scheme := lastValid pScheme is
    port := lastValid (pPort dev) is
    dns := lastValid pDns is
    ip := lastValid pIp is
    eth := lastValid pEth is
    wlan := lastValid pWlan is
    ssid := lastValid pSsid is
    pass := lastValid pPass is
    ext := lastValid pExt is
    delay := lastValid pDelay is
    svCert := lastValid pSv is
    clCert := lastValid pCl is }

/-! ## Derivation -/

def orElse {α : Type} : Option α → Option α → Option α
  | some a, _ => some a
  | none, b => b

/-- One URL per host kind that is present (DNS first), all with the same scheme and port;
the port is the role's port variable, else the default of the scheme. -/
def urlsOf (l : Lookups) : List Url :=
  let scheme := l.scheme.getD defaultScheme
  let port := orElse l.port (defaultPort scheme)
  let dns := l.dns.getD []
  let ip := l.ip.getD []
  (if dns ≠ [] then [⟨scheme, .dns dns, port⟩] else []) ++
  (if ip ≠ [] then [⟨scheme, .ip ip, port⟩] else [])

/-- Seconds to `time.Duration` nanoseconds. -/
def nsOfSecs (s : Nat) : Int := (s : Int) * 1000000000

def derive (bypass : Bool) (l : Lookups) : Directive :=
  { urls := urlsOf l
    bypass := bypass
    eth := l.eth
    wlan := l.wlan
    ssid := l.ssid.getD []
    pass := l.pass.getD []
    extMech := (l.ext.map (·.1)).getD []
    extArgs := (l.ext.map (·.2)).getD []
    delay := nsOfSecs (l.delay.getD 0)
    svCert := l.svCert
    clCert := l.clCert }

/-- The directive as the role `dev` (device) / `¬dev` (owner) has to read it. -/
def specDirective (dev : Bool) (is : List RvInstr) : Outcome :=
  if is.any (fun i => i.var = (roleRow dev).otherOnlyVar) then .dropped
  else .ok (derive (is.any (fun i => i.var = 14)) (lookups dev is))

/-- "Malformed": the value does not decode as the type the RVVariable table gives the
variable (variables without a typed value — the two role markers, RVUserInput, RVBypass and
unassigned numbers — cannot be malformed: their value is not looked at). -/
def malformed (i : RvInstr) : Bool :=
  if i.var = 2 then (readAddr i.value).isNone
  else if i.var = 3 then (readU16 i.value).isNone
  else if i.var = 4 then (readU16 i.value).isNone
  else if i.var = 5 then (readText i.value).isNone
  else if i.var = 6 then (readHash i.value).isNone
  else if i.var = 7 then (readHash i.value).isNone
  else if i.var = 9 then (readText i.value).isNone
  else if i.var = 10 then (readText i.value).isNone
  else if i.var = 11 then (readU8 i.value).isNone
  else if i.var = 12 then (readU8 i.value).isNone
  else if i.var = 13 then (readU32 i.value).isNone
  else if i.var = 15 then (readExt i.value).isNone
  else false

/-- The URLs alone (what `parseURLs` is specified to return). -/
def specURLs (dev : Bool) (is : List RvInstr) : List Url := urlsOf (lookups dev is)

end Fdo.RvSpec
