import Fdo.Cbor.Item
/-
Rendezvous-instruction interpreter: executable model of `protocol/rv.go`
(`ParseDeviceRvInfo`, `ParseOwnerRvInfo`, `parseDirective`, `parseURLs`), of
`cbor.ArrayShift` (cbor/array.go) and of the typed `cbor.Unmarshal` calls these functions
make (targets uint8, uint16, uint32, string, net.IP = []byte, protocol.Hash).

STATE: the model mirrors the code WITH the four C20 repairs applied (fix-1 … fix-4):
  1. `cbor.ArrayShift` treats empty input like any other invalid input (it used to panic);
  2. `RVDns`/`RVIPAddress` values are decoded into a fresh variable and used only when
     `cbor.Unmarshal` returned no error (they used to be decoded in place with the error
     ignored, so values with trailing bytes, partially decoded arrays and the reset of the
     slice target leaked into the result);
  3. `RVDelaysec` is decoded as uint32, the specification's type (it used to be int64
     nanosecond arithmetic: negative and overflowing delays);
  4. the default port is taken, after the loop, from the scheme finally selected (the default
     of the first protocol instruction used to stick).
The typed decoders still describe `cbor.Unmarshal` exactly, including that it stores into the
target before it reports trailing bytes (`Dec.stored` vs `Dec.ok`): `RVExtRV` decodes the
mechanism directly into the directive field.
Core Lean only.
-/
namespace Fdo.Rv
open Fdo Fdo.Cbor

/-! ## Constants (checked against the regenerated `Fdo.Gen.Rv` in `Props/C20.lean`) -/

def rvDevOnly : Nat := 0
def rvOwnerOnly : Nat := 1
def rvIPAddress : Nat := 2
def rvDevPort : Nat := 3
def rvOwnerPort : Nat := 4
def rvDns : Nat := 5
def rvSvCertHash : Nat := 6
def rvClCertHash : Nat := 7
def rvUserInput : Nat := 8
def rvWifiSsid : Nat := 9
def rvWifiPw : Nat := 10
def rvMedium : Nat := 11
def rvProtocol : Nat := 12
def rvDelaysec : Nat := 13
def rvBypass : Nat := 14
def rvExtRV : Nat := 15

def rvProtRest : Nat := 0
def rvProtHTTP : Nat := 1
def rvProtHTTPS : Nat := 2
def rvProtTCP : Nat := 3
def rvProtTLS : Nat := 4
def rvProtCoapTCP : Nat := 5
def rvProtCoapUDP : Nat := 6

def rvMedEthAll : Nat := 20
def rvMedWifiAll : Nat := 21

/-- `protocol.RvInstruction`. -/
structure RvInstr where
  var : Nat
  value : Bytes
  deriving DecidableEq, Repr

/-! ## Typed `cbor.Unmarshal`

`Dec α` is what one `cbor.Unmarshal(value, &target)` call does: `stored` is the value the
target holds afterwards when the call wrote to it (`none`: target untouched), `ok` is
`err == nil`.  `Unmarshal` decodes one item into the target and only then complains about
trailing bytes, so `stored = some _` with `ok = false` is possible. -/

structure Dec (α : Type) where
  stored : Option α
  ok : Bool
  deriving DecidableEq, Repr

/-- The value a caller that checks `err == nil` gets. -/
def Dec.val {α : Type} (d : Dec α) : Option α := if d.ok then d.stored else none

/-- `Unmarshal`'s trailing-bytes rule on top of a one-item stream decoder. -/
def finish {α : Type} : Option (α × Bytes) → Dec α
  | none => ⟨none, false⟩
  | some (v, r) => ⟨some v, r.isEmpty⟩

/-- One item into a `uint8`/`uint16`/`uint32` target (`max` = largest value of the kind).
Major type 0 with any head width (non-shortest heads are accepted; additional info 28..31
gives argument 0), or a simple value 0..19 (`decodeSimple` hands those to `decodePositive`).
Everything else is an error; nothing is stored then. -/
def decUint (max : Nat) (bs : Bytes) : Option (Nat × Bytes) :=
  match decHead bs with
  | none => none
  | some (mt, ai, arg, r) =>
    if mt = 0 ∨ (mt = 7 ∧ ai < 20) then
      if arg ≤ max then some (arg, r) else none
    else none

/-- One item into an `int64` target (`time.Duration`, `protocol.HashAlg`). -/
def decInt64 (bs : Bytes) : Option (Int × Bytes) :=
  match decHead bs with
  | none => none
  | some (mt, ai, arg, r) =>
    if mt = 0 ∨ (mt = 7 ∧ ai < 20) then
      if arg ≤ 9223372036854775807 then some ((arg : Int), r) else none
    else if mt = 1 then
      if arg ≤ 9223372036854775807 then some (-1 - (arg : Int), r) else none
    else none

/-- One item into a `string` target: `decodeByteSlice` serves text AND byte strings. -/
def decStr (bs : Bytes) : Option (Bytes × Bytes) :=
  match decHead bs with
  | none => none
  | some (mt, _, arg, r) =>
    if mt = 2 ∨ mt = 3 then
      if arg ≥ maxLen ∨ r.length < arg then none else some (r.take arg, r.drop arg)
    else none

/-- `decodeArrayToSlice` into `[]uint8`: `n` more elements, each decoded as a `uint8` and
appended to the target as it arrives.  Result: what the target holds, and the unread rest
(`none`: an element failed). -/
def decU8s : Nat → Bytes → Bytes → Bytes × Option Bytes
  | 0, r, acc => (acc, some r)
  | n+1, r, acc =>
    match decUint 255 r with
    | none => (acc, none)
    | some (v, r') => decU8s n r' (acc ++ [UInt8.ofNat v])

/-- One item into a `[]byte` target that `Decoder.Decode` has just reset to the empty slice:
what the target holds afterwards (always written) and the unread rest (`none` = error).
Byte or text string; array of uint8-decodable items; null/undefined (nil slice). -/
def decBytes (bs : Bytes) : Bytes × Option Bytes :=
  match decHead bs with
  | none => ([], none)
  | some (mt, ai, arg, r) =>
    if mt = 2 ∨ mt = 3 then
      if arg ≥ maxLen ∨ r.length < arg then ([], none) else (r.take arg, some (r.drop arg))
    else if mt = 4 then
      if arg ≥ maxLen then ([], none) else decU8s arg r []
    else if mt = 7 ∧ (ai = 22 ∨ ai = 23) then ([], some r)
    else ([], none)

/-- One item into a `protocol.Hash` target (`decodeArrayToStruct`, two fields, none
omittable): array of exactly 2, `[int64, []byte]`. -/
def decHash (bs : Bytes) : Option ((Int × Bytes) × Bytes) :=
  match decHead bs with
  | none => none
  | some (mt, _, arg, r) =>
    if mt = 4 ∧ arg = 2 then
      match decInt64 r with
      | none => none
      | some (alg, r1) =>
        match decBytes r1 with
        | (v, some r2) => some ((alg, v), r2)
        | (_, none) => none
    else none

def unmarshalUint (max : Nat) (bs : Bytes) : Dec Nat := finish (decUint max bs)
def unmarshalInt64 (bs : Bytes) : Dec Int := finish (decInt64 bs)
def unmarshalStr (bs : Bytes) : Dec Bytes := finish (decStr bs)
def unmarshalHash (bs : Bytes) : Dec (Int × Bytes) := finish (decHash bs)
/-- `[]byte`/`net.IP` target: always written (reset first), ok iff decoded with nothing left. -/
def unmarshalBytes (bs : Bytes) : Dec Bytes :=
  match decBytes bs with
  | (v, some r) => ⟨some v, r.isEmpty⟩
  | (v, none) => ⟨some v, false⟩

/-! ## `cbor.ArrayShift` -/

inductive Shift where
  | fail                           -- `(nil, data)`
  | ok (first rest : Bytes)        -- first element raw, array of the others ++ trailing data
  deriving DecidableEq, Repr

/-- Array length as `Decoder.unwrap` computes it: without argument bytes the additional-info
value itself is the length, also for the reserved values 28..31. -/
def shiftLen (ai arg : Nat) : Nat := if 28 ≤ ai then ai else arg

/-- `cbor.ArrayShift` (empty input fails at the first read like any truncated input).
`UnwrapArray` takes the additional-info value itself as the length
when no argument bytes follow (so 28..31 mean 28..31 here), applies no length limit and does
not count as a nesting level; the first element is read with `decodeRaw`. -/
def arrayShift (data : Bytes) : Shift :=
  match decHead data with
  | none => .fail
  | some (mt, ai, arg, r) =>
    if mt ≠ 4 then .fail else
    if shiftLen ai arg = 0 then .fail else
    match decode1 r with
    | none => .fail
    | some (_, rest) => .ok (r.take (r.length - rest.length)) (encHead 4 (shiftLen ai arg - 1) ++ rest)

/-! ## Directives -/

inductive Scheme where
  | http | https | tcp | tls | coapTcp | coap
  deriving DecidableEq, Repr

inductive Host where
  | dns (name : Bytes)
  | ip (addr : Bytes)
  deriving DecidableEq, Repr

/-- `url.URL{Scheme, Host}` before `net.JoinHostPort`: `port = none` is Go's `port == ""`. -/
structure Url where
  scheme : Scheme
  host : Host
  port : Option Nat
  deriving DecidableEq, Repr

/-- `protocol.RvDirective` (nil and empty slices/strings identified; `delay` in nanoseconds). -/
structure Directive where
  urls : List Url
  bypass : Bool
  eth : Option Nat
  wlan : Option Nat
  ssid : Bytes
  pass : Bytes
  extMech : Bytes
  extArgs : Bytes
  delay : Int
  svCert : Option (Int × Bytes)
  clCert : Option (Int × Bytes)
  deriving DecidableEq, Repr

/-- The zero `RvDirective`. -/
def Directive.zero : Directive := ⟨[], false, none, none, [], [], [], [], 0, none, none⟩

/-- Result of `parseDirective`: a directive, `nil` (marked for the other role), or a panic. -/
inductive Outcome where
  | ok (d : Directive)
  | dropped
  | panic (site : String)
  deriving DecidableEq, Repr

/-! ### `parseURLs` -/

/-- The loop variables of `parseURLs`: `scheme, port, defaultPort, dnsAddr, ipAddr`. -/
structure UrlAcc where
  scheme : Scheme
  port : Option Nat
  dflt : Option Nat
  dns : Bytes
  ip : Bytes
  deriving DecidableEq, Repr

def UrlAcc.init : UrlAcc := ⟨.tls, none, none, [], []⟩

/-- The `switch proto` in `parseURLs`. -/
def applyProto (p : Nat) (a : UrlAcc) : UrlAcc :=
  if p = rvProtHTTP then { a with scheme := .http, dflt := some 80 }
  else if p = rvProtHTTPS then { a with scheme := .https, dflt := some 443 }
  else if p = rvProtTCP then { a with scheme := .tcp, dflt := none }
  else if p = rvProtTLS then { a with scheme := .tls, dflt := none }
  else if p = rvProtCoapTCP then { a with scheme := .coapTcp, dflt := some 5683 }
  else if p = rvProtCoapUDP then { a with scheme := .coap, dflt := some 5683 }
  else a

/-- One iteration of the loop in `parseURLs`. -/
def urlStep (dev : Bool) (a : UrlAcc) (i : RvInstr) : UrlAcc :=
  if i.var = rvProtocol then
    match (unmarshalUint 255 i.value).val with
    | some p => applyProto p a
    | none => a
  else if i.var = rvDevPort ∨ i.var = rvOwnerPort then
    if (dev ∧ i.var ≠ rvDevPort) ∨ (¬ dev ∧ i.var ≠ rvOwnerPort) then a
    else
      match (unmarshalUint 65535 i.value).val with
      | some p => { a with port := some p }
      | none => a
  else if i.var = rvDns then
    match (unmarshalStr i.value).val with
    | some s => { a with dns := s }
    | none => a
  else if i.var = rvIPAddress then
    match (unmarshalBytes i.value).val with
    | some s => { a with ip := s }
    | none => a
  else a

/-- `if port == "" { port = defaultPort }`, then "Assemble URLs". -/
def assemble (a : UrlAcc) : List Url :=
  let port := match a.port with
    | some p => some p
    | none => a.dflt
  (if a.dns ≠ [] then [⟨a.scheme, .dns a.dns, port⟩] else []) ++
  (if a.ip ≠ [] then [⟨a.scheme, .ip a.ip, port⟩] else [])

/-- `parseURLs(vars, device)`. -/
def parseURLs (dev : Bool) (is : List RvInstr) : List Url :=
  assemble (is.foldl (urlStep dev) UrlAcc.init)

/-! ### `parseDirective` -/

/-- The `switch` on the medium value. -/
def applyMedium (m : Nat) (d : Directive) : Directive :=
  if m < 10 then { d with eth := some m }
  else if m < 20 then { d with wlan := some (m - 10) }
  else if m = rvMedEthAll then { d with eth := some m }
  else if m = rvMedWifiAll then { d with wlan := some m }
  else d

/-- The `case RVExtRV` body once `ArrayShift` has returned `(mech, args)`. -/
def applyExt (first rest : Bytes) (d : Directive) : Directive :=
  if first.isEmpty then d else
  -- `cbor.Unmarshal(mech, &dir.ExtMechanism)` writes the field directly
  match unmarshalStr first with
  | ⟨some s, true⟩ => { d with extMech := s, extArgs := rest }
  | ⟨some s, false⟩ => { d with extMech := s }
  | ⟨none, _⟩ => d

/-- One iteration of the loop in `parseDirective` (`none` = `return nil`). -/
def dirStep (dev : Bool) (d : Directive) (i : RvInstr) : Option Directive :=
  if i.var = rvDevOnly then (if dev then some d else none)
  else if i.var = rvOwnerOnly then (if dev then none else some d)
  else if i.var = rvBypass then some { d with bypass := true }
  else if i.var = rvMedium then
    match (unmarshalUint 255 i.value).val with
    | some m => some (applyMedium m d)
    | none => some d
  else if i.var = rvWifiSsid then
    match (unmarshalStr i.value).val with
    | some s => some { d with ssid := s }
    | none => some d
  else if i.var = rvWifiPw then
    match (unmarshalStr i.value).val with
    | some s => some { d with pass := s }
    | none => some d
  else if i.var = rvExtRV then
    match arrayShift i.value with
    | .ok first rest => some (applyExt first rest d)
    | .fail => some d
  else if i.var = rvDelaysec then
    match (unmarshalUint 4294967295 i.value).val with
    | some s => some { d with delay := (s : Int) * 1000000000 }
    | none => some d
  else if i.var = rvSvCertHash then
    match (unmarshalHash i.value).val with
    | some h => some { d with svCert := some h }
    | none => some d
  else if i.var = rvClCertHash then
    match (unmarshalHash i.value).val with
    | some h => some { d with clCert := some h }
    | none => some d
  else some d

/-- The loop of `parseDirective`. -/
def dirLoop (dev : Bool) : Directive → List RvInstr → Outcome
  | d, [] => .ok d
  | d, i :: is =>
    match dirStep dev d i with
    | some d' => dirLoop dev d' is
    | none => .dropped

/-- `parseDirective(vars, device)`. -/
def parseDirective (dev : Bool) (is : List RvInstr) : Outcome :=
  dirLoop dev { Directive.zero with urls := parseURLs dev is } is

/-- `ParseDeviceRvInfo` / `ParseOwnerRvInfo` on a whole `[][]RvInstruction`: the first panic
aborts the call, a `nil` directive leaves the zero value in its slot. -/
def parseRvInfo (dev : Bool) : List (List RvInstr) → Except String (List Directive)
  | [] => .ok []
  | is :: rest =>
    match parseDirective dev is with
    | .panic s => .error s
    | .dropped => (parseRvInfo dev rest).map (Directive.zero :: ·)
    | .ok d => (parseRvInfo dev rest).map (d :: ·)

/-! ## Rendering (`url.URL.Host` as Go builds it); driver glue, no theorems -/

def ascii (s : String) : Bytes := s.toList.map (fun c => UInt8.ofNat c.toNat)

def decimal (n : Nat) : Bytes := ascii (toString n)

def joinBytes (sep : Bytes) : List Bytes → Bytes
  | [] => []
  | [x] => x
  | x :: xs => x ++ sep ++ joinBytes sep xs

def dotted (b : Bytes) : Bytes := joinBytes (ascii ".") (b.map (fun x => decimal x.toNat))

/-- The eight 16-bit groups of a 16-byte address. -/
def groups : Bytes → List Nat
  | a :: b :: r => (a.toNat * 256 + b.toNat) :: groups r
  | _ => []

def leadingZeros : List Nat → Nat
  | 0 :: r => leadingZeros r + 1
  | _ => 0

/-- Longest run (≥ 2, first wins) of zero groups as in `netip.Addr.appendTo6`:
`(start, end)`. -/
def zeroRun (gs : List Nat) : Option (Nat × Nat) :=
  (List.range gs.length).foldl (fun best i =>
    let l := leadingZeros (gs.drop i)
    let bestLen := match best with | some (s, e) => e - s | none => 0
    if l ≥ 2 ∧ l > bestLen then some (i, i + l) else best) none

def hexGroup (n : Nat) : Bytes := ascii (String.ofList (Nat.toDigits 16 n))

def ip6Text (gs : List Nat) : Bytes :=
  match zeroRun gs with
  | none => joinBytes (ascii ":") (gs.map hexGroup)
  | some (s, e) =>
    joinBytes (ascii ":") ((gs.take s).map hexGroup) ++ ascii "::" ++
      joinBytes (ascii ":") ((gs.drop e).map hexGroup)

/-- `net.IP.String()` for a non-empty slice. -/
def ipText (b : Bytes) : Bytes :=
  if b.length = 4 then dotted b
  else if b.length = 16 then
    if (b.take 10).all (· == 0) ∧ (b.drop 10).take 2 = [255, 255] then dotted (b.drop 12)
    else ip6Text (groups b)
  else ascii "?" ++ ascii (toHex b)

/-- The `Host` field of the `url.URL`: host, then `net.JoinHostPort` when a port is set. -/
def Url.hostText (u : Url) : Bytes :=
  let h := match u.host with
    | .dns n => n
    | .ip a => ipText a
  match u.port with
  | none => h
  | some p =>
    if h.contains 58 then ascii "[" ++ h ++ ascii "]:" ++ decimal p
    else h ++ ascii ":" ++ decimal p

def Scheme.text : Scheme → String
  | .http => "http" | .https => "https" | .tcp => "tcp" | .tls => "tls"
  | .coapTcp => "coap+tcp" | .coap => "coap"

end Fdo.Rv
