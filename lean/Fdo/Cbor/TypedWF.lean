import Fdo.Cbor.Typed
import Fdo.Cbor.WellFormed
/-
Whatever decode target is used, what the typed decoder consumes is exactly one well-formed item (in the
sense of `WellFormed.lean`, which knows no decoder): `decodeS … b = some (v, r) → WF1 b r`.
Together with `WFN.unique` this says that every decoder of the library that accepts an input agrees with
every other one on where the item ends.
-/
namespace Fdo.Cbor
open Fdo

theorem isNullHead_wf {b r : Bytes} (h : isNullHead b = some r) : WF1 b r := by
  unfold isNullHead at h
  split at h
  · rename_i mt ai _ r' hd
    split at h
    · simp at h; subst h; exact wf_scalar hd (by omega)
    · simp at h
  · simp at h

/-- a byte/text string head read by `Decoder.unwrap`, with enough bytes behind it -/
theorem unwrapBytes_wf {b r : Bytes} {n : Nat} (h : unwrapBytes b = some (some (n, r))) (hl : ¬ r.length < n) :
    WF1 b (r.drop n) := by
  unfold unwrapBytes at h
  split at h
  · simp at h
  · rename_i mt ai arg r' hd
    have hlt := decHead_lt_mt hd
    split at h
    · simp at h
    · split at h
      · simp at h
        obtain ⟨h1, h2⟩ := h
        rw [if_neg (by omega)] at h1
        subst h1 h2
        exact wf_str hd (by omega) (by omega)
      · simp at h

/-! ### `any` targets -/

mutual
theorem decodeAny_wf (f d : Nat) (b : Bytes) (v : AnyVal) (r : Bytes) (h : decodeAny f d b = some (v, r)) : WF1 b r := by
  match f with
  | 0 => simp [decodeAny] at h
  | f+1 =>
    unfold decodeAny at h
    cases hd : decHead b with
    | none => simp [hd] at h
    | some q =>
      obtain ⟨mt, ai, arg, r0⟩ := q
      have hlt := decHead_lt_mt hd
      simp only [hd] at h
      by_cases m0 : mt = 0
      · simp only [m0, if_true] at h; split at h <;> simp at h; rw [← h.2]; exact wf_scalar hd (by omega)
      simp only [m0, if_false] at h
      by_cases m1 : mt = 1
      · simp only [m1, if_true] at h; split at h <;> simp at h; rw [← h.2]; exact wf_scalar hd (by omega)
      simp only [m1, if_false] at h
      by_cases m2 : mt = 2
      · simp only [m2, if_true] at h; split at h <;> simp at h; rw [← h.2]; exact wf_str hd (by omega) (by omega)
      simp only [m2, if_false] at h
      by_cases m3 : mt = 3
      · simp only [m3, if_true] at h; split at h <;> simp at h; rw [← h.2]; exact wf_str hd (by omega) (by omega)
      simp only [m3, if_false] at h
      by_cases m4 : mt = 4
      · simp only [m4, if_true] at h
        split at h
        · simp at h
        · cases hi : decodeAnys f (d - 1) arg r0 with
          | none => simp [hi] at h
          | some q => simp [hi] at h; rw [← h.2]; exact wf_arr hd m4 (decodeAnys_wf f (d - 1) arg r0 q.1 q.2 hi)
      simp only [m4, if_false] at h
      by_cases m5 : mt = 5
      · simp only [m5, if_true] at h
        split at h
        · simp at h
        · cases hi : decodeAnyPairs f (d - 1) arg [] r0 with
          | none => simp [hi] at h
          | some q => simp [hi] at h; rw [← h.2]; exact wf_map hd m5 (decodeAnyPairs_wf f (d - 1) arg [] r0 q.1 q.2 hi)
      simp only [m5, if_false] at h
      by_cases m6 : mt = 6
      · simp only [m6, if_true] at h
        split at h
        · simp at h
        · cases hi : decode f (d - 1) r0 with
          | none => simp [hi] at h
          | some q => simp [hi] at h; rw [← h.2]; exact wf_tag hd m6 (decode_wf _ _ _ _ _ hi)
      simp only [m6, if_false] at h
      repeat (split at h <;> try (simp at h; rw [← h.2]; exact wf_scalar hd (by omega)))
      simp at h
theorem decodeAnys_wf (f d n : Nat) (b : Bytes) (vs : List AnyVal) (r : Bytes) (h : decodeAnys f d n b = some (vs, r)) : WFN n b r := by
  match f, n with
  | f, 0 => cases f <;> (simp [decodeAnys] at h; rw [← h.2]; exact .zero)
  | 0, n+1 => simp [decodeAnys] at h
  | f+1, n+1 =>
    unfold decodeAnys at h
    cases h1 : decodeAny f d b with
    | none => simp [h1] at h
    | some q =>
      simp only [h1] at h
      cases h2 : decodeAnys f d n q.2 with
      | none => simp [h2] at h
      | some q2 =>
        simp [h2] at h; rw [← h.2]
        exact wfn_cons (decodeAny_wf f d b q.1 q.2 h1) (decodeAnys_wf f d n q.2 q2.1 q2.2 h2)
theorem decodeAnyPairs_wf (f d n : Nat) (acc : List (AnyVal × AnyVal)) (b : Bytes) (ps : List (AnyVal × AnyVal)) (r : Bytes)
    (h : decodeAnyPairs f d n acc b = some (ps, r)) : WFN (2 * n) b r := by
  match f, n with
  | f, 0 => cases f <;> (simp [decodeAnyPairs] at h; rw [← h.2]; exact .zero)
  | 0, n+1 => simp [decodeAnyPairs] at h
  | f+1, n+1 =>
    unfold decodeAnyPairs at h
    cases h1 : decodeAny f d b with
    | none => simp [h1] at h
    | some q =>
      simp only [h1] at h
      cases h2 : decodeAny f d q.2 with
      | none => simp [h2] at h
      | some q2 =>
        simp only [h2] at h
        split at h
        · simp at h
        · exact wfn_cons2 (decodeAny_wf f d b q.1 q.2 h1) (decodeAny_wf f d q.2 q2.1 q2.2 h2) (decodeAnyPairs_wf f d n _ q2.2 ps r h)
end

/-! ### struct fields on the wire -/

/-- how many items a struct's fields occupy on the wire (`skip` = the omittable field is absent) -/
def Fields.wire : Fields → Bool → Nat
  | .nil, _ => 0
  | .cons _ o fs, skip => if o ∧ skip then fs.wire false else fs.wire skip + 1
  | .hdr fs, skip => fs.wire skip + 2

theorem Fields.wire_false : (fs : Fields) → fs.wire false = fs.slots
  | .nil => rfl
  | .cons s o fs => by simp [Fields.wire, Fields.slots, Fields.wire_false fs]
  | .hdr fs => by simp [Fields.wire, Fields.slots, Fields.wire_false fs]

theorem Fields.wire_true : (fs : Fields) → 1 ≤ fs.omittables → fs.wire true + 1 = fs.slots
  | .nil, h => by simp [Fields.omittables] at h
  | .cons s o fs, h => by
    cases o with
    | true => simp [Fields.wire, Fields.slots, Fields.wire_false]
    | false =>
      simp [Fields.omittables] at h
      simp [Fields.wire, Fields.slots]; exact Fields.wire_true fs h
  | .hdr fs, h => by
    simp [Fields.omittables] at h
    simp [Fields.wire, Fields.slots]; have := Fields.wire_true fs h; omega


/-- all six decoders of the typed layer at fuel `f` consume well-formed items only -/
def WfAll (ok : CertOracle) (f : Nat) : Prop :=
  (∀ d s b v r, decodeS ok f d s b = some (v, r) → WF1 b r) ∧
  (∀ d e n b vs r, decodeElems ok f d e n b = some (vs, r) → WFN n b r) ∧
  (∀ d fs skip b vs r, decodeFields ok f d fs skip b = some (vs, r) → WFN (fs.wire skip) b r) ∧
  (∀ d ks vs n acc b ps r, decodeMapPairs ok f d ks vs n acc b = some (ps, r) → WFN (2 * n) b r) ∧
  (∀ d b m r, decodeHdrMap f d b = some (m, r) → WF1 b r) ∧
  (∀ d n acc b m r, hdrPairs f d n acc b = some (m, r) → WFN (2 * n) b r)

theorem wfAll_zero (ok : CertOracle) : WfAll ok 0 := by
  refine ⟨?_, ?_, ?_, ?_, ?_, ?_⟩
  · intro d s b v r h; simp [decodeS] at h
  · intro d e n b vs r h; cases n <;> simp [decodeElems] at h; rw [← h.2]; exact .zero
  · intro d fs skip b vs r h; simp [decodeFields] at h
  · intro d ks vs n acc b ps r h; cases n <;> simp [decodeMapPairs] at h; rw [← h.2]; exact .zero
  · intro d b m r h; simp [decodeHdrMap] at h
  · intro d n acc b m r h; cases n <;> simp [hdrPairs] at h; rw [← h.2]; exact .zero

theorem wf_elems_step (ok : CertOracle) (f : Nat) (ih : WfAll ok f) :
    ∀ d e n b vs r, decodeElems ok (f + 1) d e n b = some (vs, r) → WFN n b r := by
  obtain ⟨iS, iE, _, _, _, _⟩ := ih
  intro d e n b vs r h
  cases n with
  | zero => simp [decodeElems] at h; rw [← h.2]; exact .zero
  | succ n =>
    simp only [decodeElems] at h
    cases h1 : decodeS ok f d e b with
    | none => simp [h1] at h
    | some q =>
      simp only [h1] at h
      cases h2 : decodeElems ok f d e n q.2 with
      | none => simp [h2] at h
      | some q2 => simp [h2] at h; rw [← h.2]; exact wfn_cons (iS d e b q.1 q.2 h1) (iE d e n q.2 q2.1 q2.2 h2)

theorem wf_mapPairs_step (ok : CertOracle) (f : Nat) (ih : WfAll ok f) :
    ∀ d ks vs n acc b ps r, decodeMapPairs ok (f + 1) d ks vs n acc b = some (ps, r) → WFN (2 * n) b r := by
  obtain ⟨iS, _, _, iM, _, _⟩ := ih
  intro d ks vs n acc b ps r h
  cases n with
  | zero => simp [decodeMapPairs] at h; rw [← h.2]; exact .zero
  | succ n =>
    simp only [decodeMapPairs] at h
    cases h1 : decodeS ok f d ks b with
    | none => simp [h1] at h
    | some q =>
      simp only [h1] at h
      cases h2 : decodeS ok f d vs q.2 with
      | none => simp [h2] at h
      | some q2 =>
        simp only [h2] at h
        have fin : ∀ acc', decodeMapPairs ok f d ks vs n acc' q2.2 = some (ps, r) → WFN (2 * (n + 1)) b r :=
          fun acc' hm => wfn_cons2 (iS d ks b q.1 q.2 h1) (iS d vs q.2 q2.1 q2.2 h2) (iM d ks vs n acc' q2.2 ps r hm)
        split at h
        · simp at h; exact fin _ h.2
        · simp at h; exact fin _ h

theorem wf_hdrPairs_step (ok : CertOracle) (f : Nat) (ih : WfAll ok f) :
    ∀ d n acc b m r, hdrPairs (f + 1) d n acc b = some (m, r) → WFN (2 * n) b r := by
  obtain ⟨_, _, _, _, _, iP⟩ := ih
  intro d n acc b m r h
  cases n with
  | zero => simp [hdrPairs] at h; rw [← h.2]; exact .zero
  | succ n =>
    simp only [hdrPairs] at h
    cases h1 : decode f d b with
    | none => simp [h1] at h
    | some q =>
      simp only [h1] at h
      split at h
      · split at h
        · simp at h
        · cases h2 : decode f d q.2 with
          | none => simp [h2] at h
          | some q2 =>
            simp only [h2] at h
            split at h
            · exact wfn_cons2 (decode_wf _ _ _ _ _ h1) (decode_wf _ _ _ _ _ h2) (iP d n _ q2.2 m r h)
            · simp at h
      · simp at h

theorem wf_hdrMap_step (ok : CertOracle) (f : Nat) (ih : WfAll ok f) :
    ∀ d b m r, decodeHdrMap (f + 1) d b = some (m, r) → WF1 b r := by
  obtain ⟨_, _, _, _, _, iP⟩ := ih
  intro d b m r h
  simp only [decodeHdrMap] at h
  cases hd : decHead b with
  | none => simp [hd] at h
  | some q =>
    obtain ⟨mt, ai, arg, r0⟩ := q
    simp only [hd] at h
    split at h
    · rename_i m5
      split at h
      · simp at h
      · exact wf_map hd m5 (iP _ _ _ _ _ _ h)
    · simp at h

theorem wf_fields_step (ok : CertOracle) (f : Nat) (ih : WfAll ok f) :
    ∀ d fs skip b vs r, decodeFields ok (f + 1) d fs skip b = some (vs, r) → WFN (fs.wire skip) b r := by
  obtain ⟨iS, _, iF, _, iH, _⟩ := ih
  intro d fs skip b vs r h
  cases fs with
  | nil => simp [decodeFields] at h; rw [← h.2]; exact .zero
  | cons s o rest =>
    simp only [decodeFields] at h
    split at h
    · rename_i hos
      cases h1 : decodeFields ok f d rest false b with
      | none => simp [h1] at h
      | some q =>
        simp [h1] at h; rw [← h.2]
        have := iF d rest false b q.1 q.2 h1
        simp only [Fields.wire]; rw [if_pos hos]; exact this
    · rename_i hos
      cases h1 : decodeS ok f d s b with
      | none => simp [h1] at h
      | some q =>
        simp only [h1] at h
        cases h2 : decodeFields ok f d rest skip q.2 with
        | none => simp [h2] at h
        | some q2 =>
          simp [h2] at h; rw [← h.2]
          simp only [Fields.wire]; rw [if_neg hos]
          exact wfn_cons (iS d s b q.1 q.2 h1) (iF d rest skip q.2 q2.1 q2.2 h2)
  | hdr rest =>
    simp only [decodeFields] at h
    cases h1 : decodeS ok f maxDepth .bytes b with
    | none => simp [h1] at h
    | some q =>
      obtain ⟨v1, r1⟩ := q
      have s1 := iS maxDepth .bytes b v1 r1 h1
      simp only [h1] at h
      cases v1 <;> try (simp at h; done)
      rename_i pb
      simp only at h
      split at h
      · simp at h
      · rename_i pm _
        cases h2 : decodeHdrMap f maxDepth r1 with
        | none => simp [h2] at h
        | some q2 =>
          simp only [h2] at h
          cases h3 : decodeFields ok f d rest skip q2.2 with
          | none => simp [h3] at h
          | some q3 =>
            simp [h3] at h; rw [← h.2]
            have := s1.append ((iH maxDepth r1 q2.1 q2.2 h2).append (iF d rest skip q2.2 q3.1 q3.2 h3))
            simp only [Fields.wire]
            rw [show rest.wire skip + 2 = 1 + (1 + rest.wire skip) by omega]; exact this

end Fdo.Cbor

namespace Fdo.Cbor
open Fdo

/-- close a branch whose result is `some (_, r0)` or `some (_, r0.drop arg)` with `hd : decHead b = some (mt, ai, arg, r0)` -/
macro "wf_leaf" h:ident hd:ident : tactic =>
  `(tactic| (first
      | (simp at $h:ident; done)
      | (simp at $h:ident; rw [← ($h).2]; first | exact wf_scalar $hd (by omega) | exact wf_str $hd (by omega) (by omega))
      | (simp at $h:ident; rw [← $h:ident]; first | exact wf_scalar $hd (by omega) | exact wf_str $hd (by omega) (by omega))))

theorem wf_S_step (ok : CertOracle) (f : Nat) (ih : WfAll ok f) :
    ∀ d s b v r, decodeS ok (f + 1) d s b = some (v, r) → WF1 b r := by
  obtain ⟨iS, iE, iF, iM, iH, iP⟩ := ih
  intro d s b v r h
  cases s with
  | uint max =>
    simp only [decodeS] at h
    cases hd : decHead b with
    | none => simp [hd] at h
    | some q =>
      obtain ⟨mt, ai, arg, r0⟩ := q
      simp only [hd] at h
      repeat' (split at h)
      all_goals wf_leaf h hd
  | int bits =>
    simp only [decodeS] at h
    cases hd : decHead b with
    | none => simp [hd] at h
    | some q =>
      obtain ⟨mt, ai, arg, r0⟩ := q
      simp only [hd] at h
      repeat' (split at h)
      all_goals wf_leaf h hd
  | bool =>
    simp only [decodeS] at h
    cases hd : decHead b with
    | none => simp [hd] at h
    | some q =>
      obtain ⟨mt, ai, arg, r0⟩ := q
      simp only [hd] at h
      repeat' (split at h)
      all_goals wf_leaf h hd
  | text =>
    simp only [decodeS] at h
    cases hd : decHead b with
    | none => simp [hd] at h
    | some q =>
      obtain ⟨mt, ai, arg, r0⟩ := q
      simp only [hd] at h
      repeat' (split at h)
      all_goals wf_leaf h hd
  | bytes =>
    simp only [decodeS] at h
    cases hd : decHead b with
    | none => simp [hd] at h
    | some q =>
      obtain ⟨mt, ai, arg, r0⟩ := q
      simp only [hd] at h
      repeat' (split at h)
      all_goals first
        | wf_leaf h hd
        | (simp at h; rw [← h.2]; exact wf_arr hd (by omega) (iE _ _ _ _ _ _ (by assumption)))
  | fixed n =>
    simp only [decodeS] at h
    cases hd : decHead b with
    | none => simp [hd] at h
    | some q =>
      obtain ⟨mt, ai, arg, r0⟩ := q
      simp only [hd] at h
      repeat' (split at h)
      all_goals first
        | wf_leaf h hd
        | (simp at h; rw [← h.2]; exact wf_arr hd (by omega) (iE _ _ _ _ _ _ (by assumption)))
  | slice e =>
    simp only [decodeS] at h
    cases hd : decHead b with
    | none => simp [hd] at h
    | some q =>
      obtain ⟨mt, ai, arg, r0⟩ := q
      simp only [hd] at h
      repeat' (split at h)
      all_goals first
        | wf_leaf h hd
        | (simp at h; rw [← h.2]; exact wf_arr hd (by omega) (iE _ _ _ _ _ _ (by assumption)))
  | struct fs =>
    simp only [decodeS] at h
    cases hd : decHead b with
    | none => simp [hd] at h
    | some q =>
      obtain ⟨mt, ai, arg, r0⟩ := q
      simp only [hd] at h
      repeat' (split at h)
      all_goals first
        | wf_leaf h hd
        | (simp at h; rw [← h.2]; exact isNullHead_wf (by assumption))
        | (simp at h; rw [← h.2]
           have hw := iF _ _ _ _ _ _ (by assumption)
           rw [Fields.wire_false] at hw
           exact wf_arr hd (by omega) (by rw [show arg = fs.slots by omega]; exact hw))
        | (simp at h; rw [← h.2]
           have hw := iF _ _ _ _ _ _ (by assumption)
           have he := Fields.wire_true fs (by omega)
           exact wf_arr hd (by omega) (by rw [show arg = fs.wire true by omega]; exact hw))
  | ptr e =>
    simp only [decodeS] at h
    repeat' (split at h)
    all_goals first
      | (simp at h; done)
      | (simp at h; rw [← h.2]; exact isNullHead_wf (by assumption))
      | (simp at h; rw [← h.2]; exact iS _ _ _ _ _ (by assumption))
  | any =>
    simp only [decodeS] at h
    repeat' (split at h)
    all_goals first
      | (simp at h; done)
      | (simp at h; rw [← h.2]; exact decodeAny_wf _ _ _ _ _ (by assumption))
  | mapOf ks vs =>
    simp only [decodeS] at h
    cases hd : decHead b with
    | none => simp [hd] at h
    | some q =>
      obtain ⟨mt, ai, arg, r0⟩ := q
      simp only [hd] at h
      repeat' (split at h)
      all_goals first
        | wf_leaf h hd
        | (simp at h; rw [← h.2]; exact wf_map hd (by omega) (iM _ _ _ _ _ _ _ _ (by assumption)))
  | tagAny e =>
    simp only [decodeS] at h
    cases hd : decHead b with
    | none => simp [hd] at h
    | some q =>
      obtain ⟨mt, ai, arg, r0⟩ := q
      simp only [hd] at h
      repeat' (split at h)
      all_goals first
        | wf_leaf h hd
        | (simp at h; rw [← h.2]; exact wf_tag hd (by omega) (iS _ _ _ _ _ (by assumption)))
  | tagNum n e =>
    simp only [decodeS] at h
    repeat' (split at h)
    all_goals first
      | (simp at h; done)
      | (simp at h; rw [← h.2]; exact decode_wf _ _ _ _ _ (by assumption))
      | (simp at h; rw [← h]; exact decode_wf _ _ _ _ _ (by assumption))
  | bstr e =>
    simp only [decodeS] at h
    repeat' (split at h)
    all_goals first
      | (simp at h; done)
      | (simp at h; rw [← h.2]; exact isNullHead_wf (by assumption))
      | (simp at h; rw [← h.2]; exact unwrapBytes_wf (by assumption) (by assumption))
  | wrap e =>
    simp only [decodeS] at h
    repeat' (split at h)
    all_goals first
      | (simp at h; done)
      | (simp at h; rw [← h.2]; exact isNullHead_wf (by assumption))
      | (simp at h; rw [← h.2]; exact unwrapBytes_wf (by assumption) (by assumption))
  | wrapBytes =>
    simp only [decodeS] at h
    repeat' (split at h)
    all_goals first
      | (simp at h; done)
      | (simp at h; rw [← h.2]; exact isNullHead_wf (by assumption))
      | (simp at h; rw [← h.2]; exact unwrapBytes_wf (by assumption) (by assumption))
  | raw =>
    simp only [decodeS] at h
    repeat' (split at h)
    all_goals first
      | (simp at h; done)
      | (simp at h; rw [← h.2]; exact decode_wf _ _ _ _ _ (by assumption))
  | viaRaw e =>
    simp only [decodeS] at h
    repeat' (split at h)
    all_goals first
      | (simp at h; done)
      | (simp at h; rw [← h.2]; exact decode_wf _ _ _ _ _ (by assumption))
  | label =>
    simp only [decodeS] at h
    repeat' (split at h)
    all_goals first
      | (simp at h; done)
      | (simp at h; rw [← h.2]; exact decode_wf _ _ _ _ _ (by assumption))
  | cert =>
    simp only [decodeS] at h
    repeat' (split at h)
    all_goals first
      | (simp at h; done)
      | (simp at h; rw [← h.2]; exact isNullHead_wf (by assumption))
      | (simp at h; rw [← h.2]; exact unwrapBytes_wf (by assumption) (by assumption))
  | timestamp =>
    simp only [decodeS] at h
    cases hd : decHead b with
    | none => simp [hd] at h
    | some q =>
      obtain ⟨mt, ai, arg, r0⟩ := q
      simp only [hd] at h
      repeat' (split at h)
      all_goals first
        | wf_leaf h hd
        | (simp at h; rw [← h.2]; exact wf_tag hd (by omega) (iS _ _ _ _ _ (by assumption)))
  | chunk =>
    simp only [decodeS] at h
    repeat' (split at h)
    all_goals first
      | (simp at h; done)
      | (simp at h; rw [← h.2]; exact decode_wf _ _ _ _ _ (by assumption))
  | coseKey =>
    simp only [decodeS] at h
    repeat' (split at h)
    all_goals first
      | (simp at h; done)
      | (simp at h; rw [← h.2]; exact decode_wf _ _ _ _ _ (by assumption))
      | (simp at h; rw [← h.2.2]; exact decode_wf _ _ _ _ _ (by assumption))

theorem wfAll (ok : CertOracle) (f : Nat) : WfAll ok f := by
  induction f with
  | zero => exact wfAll_zero ok
  | succ f ih =>
    exact ⟨wf_S_step ok f ih, wf_elems_step ok f ih, wf_fields_step ok f ih, wf_mapPairs_step ok f ih,
      wf_hdrMap_step ok f ih, wf_hdrPairs_step ok f ih⟩

/-- **Every decode target consumes exactly one well-formed item.** -/
theorem decodeS_wf (ok : CertOracle) (f d : Nat) (s : Schema) (b : Bytes) (v : Val) (r : Bytes)
    (h : decodeS ok f d s b = some (v, r)) : WF1 b r :=
  (wfAll ok f).1 d s b v r h

end Fdo.Cbor
