import Fdo.Cbor.Typed
/-
A fragment of the typed codec for which decode ∘ encode = id is *proved* (TypedProofs.lean):
integers, booleans, byte and text strings, fixed-size arrays, slices, array-encoded structs whose
fields are mandatory or (at most one per struct) an `omitempty` byte slice, without embedded COSE header, `cbor.Tag[T]`, `cbor.Bstr[T]`,
`cbor.ByteWrap[T]`, `cbor.ByteWrap[[]byte]`, pointers to any of these and `cbor.RawBytes`, nested arbitrarily. `inFragment` decides membership,
so the regenerated wire schemas can be classified by `decide`.
Recursion is on a fuel argument because `Val` nests `List Val` (no structural recursion on it here).
-/
namespace Fdo.Cbor
open Fdo

/-- encodings of values of this type never begin with null/undefined (so `*T` can tell nil from a value) -/
def Schema.neverNull : Schema → Bool
  | .uint _ | .int _ | .bool | .bytes | .text | .fixed _ | .slice _ | .struct _ | .tagAny _ | .bstr _ | .wrap _ | .wrapBytes => true
  | _ => false

mutual
/-- number of pointer levels on the deepest path (each costs the decoder one step without consuming a byte) -/
def Schema.ptrDepth : Schema → Nat
  | .slice e => e.ptrDepth
  | .struct fs => fs.ptrDepth
  | .ptr e => e.ptrDepth + 1
  | .tagAny e => e.ptrDepth
  | .bstr e => e.ptrDepth
  | .wrap e => e.ptrDepth
  | _ => 0
def Fields.ptrDepth : Fields → Nat
  | .nil => 0
  | .cons s o fs => max s.ptrDepth fs.ptrDepth + (if o then 1 else 0)   -- an omitted field costs a step too
  | .hdr fs => fs.ptrDepth
end

mutual
/-- schema is in the proved fragment -/
def Schema.inFragment : Schema → Bool
  | .uint max => decide (max < 18446744073709551616)
  | .int bits => decide (1 ≤ bits ∧ bits ≤ 64)
  | .bool => true
  | .bytes => true
  | .text => true
  | .fixed n => decide (n < maxLen)
  | .slice e => e.inFragment
  | .struct fs => fs.inFragment && decide (fs.slots < maxLen ∧ fs.omittables ≤ 1)
  | .tagAny e => e.inFragment
  | .bstr e => e.inFragment
  | .wrap e => e.inFragment
  | .wrapBytes => true
  | .ptr e => e.inFragment && e.neverNull
  | .raw => true
  | _ => false
def Fields.inFragment : Fields → Bool
  | .nil => true
  | .cons .bytes true fs => fs.inFragment        -- `omitempty` on a byte slice (the only use in the wire types)
  | .cons s false fs => s.inFragment && fs.inFragment
  | .cons _ true _ => false
  | .hdr _ => false
end

mutual
/-- `conf g d s v`: the value `v` is one the Go type described by `s` can hold and the library's
limits allow on the wire, when decoded with `d` container levels still available. -/
def conf : Nat → Nat → Schema → Val → Bool
  | 0, _, _, _ => false
  | g+1, d, s, v =>
    match s, v with
    | .uint max, .nat n => decide (n ≤ max)
    | .int bits, .int i => decide (-(2 ^ (bits - 1) : Int) ≤ i ∧ i < (2 ^ (bits - 1) : Int))
    | .bool, .bool _ => true
    | .bytes, .bytes b => decide (b.length < maxLen)
    | .text, .text b => decide (b.length < maxLen)
    | .fixed n, .bytes b => decide (b.length = n)
    | .slice e, .list vs => decide (1 ≤ d ∧ vs.length < maxLen) && confList g (d - 1) e vs
    | .struct fs, .strct vs => decide (1 ≤ d) && confFields g (d - 1) fs vs
    | .tagAny e, .tag n x => decide (n < 18446744073709551616) && conf g maxDepth e x
    | .bstr e, x => conf g maxDepth e x
    | .wrap e, x => conf g maxDepth e x
    | .wrapBytes, .bytes _ => true
    | .ptr _, .nilp => true
    | .ptr e, .ref x => conf g d e x
    | .raw, .raw b =>
      -- cbor.RawBytes holds exactly one well-formed item
      match decode (2 * b.length + 1) d b with
      | some (_, []) => true
      | _ => false
    | _, _ => false
def confList : Nat → Nat → Schema → List Val → Bool
  | 0, _, _, _ => false
  | _+1, _, _, [] => true
  | g+1, d, e, v :: vs => conf g d e v && confList g d e vs
def confFields : Nat → Nat → Fields → List Val → Bool
  | 0, _, _, _ => false
  | _+1, _, .nil, [] => true
  | g+1, d, .cons s _ fs, v :: vs => conf g d s v && confFields g d fs vs
  | _, _, _, _ => false
end

end Fdo.Cbor
