import Fdo.Cbor.Typed
/-
A fragment of the typed codec for which decode ∘ encode = id is *proved* (TypedProofs.lean):
integers, booleans, byte and text strings, fixed-size arrays, slices, array-encoded structs whose
fields are mandatory or (at most one per struct) an `omitempty` byte slice, or the embedded COSE header (label→value maps with labels in encoding order and scalar values), `cbor.Tag[T]`, `cbor.Bstr[T]`,
`cbor.ByteWrap[T]`, `cbor.ByteWrap[[]byte]`, pointers to any of these and `cbor.RawBytes`, nested arbitrarily. `inFragment` decides membership,
so the regenerated wire schemas can be classified by `decide`.
Recursion is on a fuel argument because `Val` nests `List Val` (no structural recursion on it here).
-/
namespace Fdo.Cbor
open Fdo

/-- key types whose encoding needs no recursion (all map keys of the wire types: integers, strings, labels) -/
def Schema.scalarKey : Schema → Bool
  | .uint _ | .int _ | .text | .bytes | .bool | .label => true
  | _ => false

/-- encodings of values of this type never begin with null/undefined (so `*T` can tell nil from a value) -/
def Schema.neverNull : Schema → Bool
  | .uint _ | .int _ | .bool | .bytes | .text | .fixed _ | .slice _ | .struct _ | .tagAny _ | .tagNum _ _ | .bstr _ | .wrap _ | .wrapBytes | .cert | .mapOf _ _ => true
  | _ => false

mutual
/-- number of pointer levels on the deepest path (each costs the decoder one step without consuming a byte) -/
def Schema.ptrDepth : Schema → Nat
  | .slice e => e.ptrDepth
  | .struct fs => fs.ptrDepth
  | .ptr e => e.ptrDepth + 1
  | .mapOf k v => max k.ptrDepth v.ptrDepth
  | .tagAny e => e.ptrDepth
  | .tagNum _ e => e.ptrDepth + 1   -- the wrapper's own raw pass costs a step
  | .bstr e => e.ptrDepth
  | .wrap e => e.ptrDepth
  | .coseKey => 1                   -- raw pass first, like the tag wrappers
  | .chunk => 1
  | _ => 0
def Fields.ptrDepth : Fields → Nat
  | .nil => 0
  | .cons s o fs => max s.ptrDepth fs.ptrDepth + (if o then 1 else 0)   -- an omitted field costs a step too
  | .hdr fs => fs.ptrDepth
end


/-! ### COSE header maps in the fragment: labels in encoding order, scalar values -/

/-- scalar header values: int64, byte string, text string, bool, within the decode limits -/
def AnyVal.scalarOK : AnyVal → Bool
  | .int i => decide (-9223372036854775808 ≤ i ∧ i ≤ 9223372036854775807)
  | .bytes b => decide (b.length < maxLen)
  | .text b => decide (b.length < maxLen)
  | .bool _ => true
  | _ => false


def labelAny : Val → AnyVal
  | .int i => .int i
  | .text b => .text b
  | _ => .null

/-- a COSE label the codec round-trips: a non-zero int64 or a text string (label 0 is written as the
empty text string by `IntOrStr`, a quirk kept out of the fragment) -/
def labelOK : Val → Bool
  | .int i => decide (i ≠ 0 ∧ -9223372036854775808 ≤ i ∧ i ≤ 9223372036854775807)
  | .text b => decide (b.length < maxLen)
  | _ => false


/-- the concatenated encodings of a header map's pairs, in the order given -/
def hdrFlat (m : List (Val × AnyVal)) : Bytes := (m.map fun p => encLabel p.1 ++ encodeAny p.2).flatten

/-- labels valid, values scalars -/
def hdrElemsOK (m : List (Val × AnyVal)) : Bool := m.all fun p => labelOK p.1 && p.2.scalarOK

/-- labels in strictly ascending bytewise order of their encodings (the order `encHdrMap` writes) -/
def HdrSorted (m : List (Val × AnyVal)) : Prop := m.Pairwise fun a b => bytesLt (encLabel a.1) (encLabel b.1) = true


/-- Bool version of `HdrSorted` -/
def hdrSortedB : List (Val × AnyVal) → Bool
  | [] => true
  | a :: l => l.all (fun b => bytesLt (encLabel a.1) (encLabel b.1)) && hdrSortedB l

theorem hdrSortedB_sound (m : List (Val × AnyVal)) (h : hdrSortedB m = true) : HdrSorted m := by
  induction m with
  | nil => exact List.Pairwise.nil
  | cons a l ih =>
    simp only [hdrSortedB, Bool.and_eq_true, List.all_eq_true] at h
    exact List.Pairwise.cons (fun b hb => h.1 b hb) (ih h.2)

/-- a header map the fragment covers -/
def hdrMapOK (m : List (Val × AnyVal)) : Bool :=
  hdrElemsOK m && hdrSortedB m && decide (m.length < maxLen / 2) && decide ((encHdrMap m).length < maxLen)

/-! ### `interface{}` values the codec round-trips -/

/-- map keys in strictly ascending bytewise order of their encodings (the order `encodeMap` writes; any
other order of the same pairs denotes the same Go map) -/
def anySortedB : List (AnyVal × AnyVal) → Bool
  | [] => true
  | a :: l => l.all (fun b => bytesLt (encodeAny a.1) (encodeAny b.1)) && anySortedB l

mutual
/-- `confAnyB d a`: an `any` value the decoder rebuilds from its encoding with `d` container levels
available — int64 range, strings and counts below the limits, map keys of a comparable dynamic type and in
encoding order, tag contents a single item the structural decoder accepts. -/
def confAnyB : Nat → AnyVal → Bool
  | _, .int i => decide (-9223372036854775808 ≤ i ∧ i ≤ 9223372036854775807)
  | _, .bytes b => decide (b.length < maxLen)
  | _, .text b => decide (b.length < maxLen)
  | d, .arr xs => decide (xs.length < maxLen ∧ 1 ≤ d) && confAnyListB (d - 1) xs
  | d, .map ps => decide (ps.length < maxLen / 2 ∧ 1 ≤ d) && confAnyPairsB (d - 1) ps && anySortedB ps
  | d, .tagRaw t raw => decide (t < 18446744073709551616 ∧ 1 ≤ d) &&
      (match decode (2 * raw.length + 1) (d - 1) raw with | some (_, []) => true | _ => false)
  | _, .bool _ => true
  | _, .null => true
def confAnyListB : Nat → List AnyVal → Bool
  | _, [] => true
  | d, x :: xs => confAnyB d x && confAnyListB d xs
def confAnyPairsB : Nat → List (AnyVal × AnyVal) → Bool
  | _, [] => true
  | d, (k, v) :: ps => k.comparable && confAnyB d k && confAnyB d v && confAnyPairsB d ps
end

/-- the `interface{}` element a devmod module name is written as -/
def chunkAny : Val → AnyVal
  | .text t => .text t
  | _ => .null

def chunkIsText : Val → Bool
  | .text _ => true
  | _ => false

/-- the array a `DevmodModulesChunk` is written as: start, count, then the module names -/
def chunkArr (a b : Int) (ms : List Val) : AnyVal := .arr (.int a :: .int b :: ms.map chunkAny)

/-- `cose.Key.UnmarshalCBOR` insists on a key type (label 1) that is neither 0 nor "Reserved" -/
def ktyOK (ps : List (Val × Val)) : Bool :=
  match ps.find? (fun p => p.1.keyEq (.int 1)) with
  | some (_, .any (.int 0)) => false
  | some (_, .any (.text t)) => !(t == "Reserved".toUTF8.toList)
  | some _ => true
  | none => false

mutual
/-- schema is in the proved fragment -/
def Schema.inFragment : Schema → Bool
  | .uint max => decide (max < 18446744073709551616)
  | .int bits => decide (1 ≤ bits ∧ bits ≤ 64)
  | .bool => true
  | .bytes => true
  | .text => true
  | .fixed n => decide (n < maxLen)
  | .slice e => e.inFragment
  | .struct fs => fs.inFragment && decide (fs.slots < maxLen ∧ fs.omittables ≤ 1)
  | .tagAny e => e.inFragment
  | .tagNum n e => e.inFragment && decide (n < 18446744073709551616)
  | .bstr e => e.inFragment
  | .wrap e => e.inFragment
  | .wrapBytes => true
  | .ptr e => e.inFragment && e.neverNull
  | .raw => true
  | .mapOf k v => k.inFragment && k.scalarKey && v.inFragment
  | .cert => true
  | .timestamp => true
  | .label => true
  | .any => true
  | .coseKey => true
  | .chunk => true
  | _ => false
def Fields.inFragment : Fields → Bool
  | .nil => true
  | .cons .bytes true fs => fs.inFragment        -- `omitempty` on a byte slice (the only use in the wire types)
  | .cons s false fs => s.inFragment && fs.inFragment
  | .cons _ true _ => false
  | .hdr fs => fs.inFragment
end


/-- the keys of a Go map value in strictly ascending bytewise order of their encodings (the order `encodeMap`
writes them in; a `Val.map` in any other order denotes the same Go map and is written identically) -/
def mapSortedB (ks : Schema) : List (Val × Val) → Bool
  | [] => true
  | a :: l =>
    l.all (fun b => match encodeS 1 ks a.1, encodeS 1 ks b.1 with
      | some x, some y => bytesLt x y
      | _, _ => false) && mapSortedB ks l

mutual
/-- `wconf g d s v`: the encoding of `v` is one item the *untyped* decoder (`decodeRaw`, used by
Unmarshaler-based wrappers such as the COSE tag types before they decode their content) accepts with `d`
container levels available: nesting of arrays, maps and tags within `d`, byte-string contents below the
length limit. -/
def wconf : Nat → Nat → Schema → Val → Bool
  | 0, _, _, _ => false
  | g+1, d, s, v =>
    match s, v with
    | .uint _, .nat _ => true
    | .int _, .int _ => true
    | .bool, .bool _ => true
    | .bytes, .bytes _ => true
    | .text, .text _ => true
    | .fixed _, .bytes _ => true
    | .slice e, .list vs => decide (1 ≤ d) && wconfList g (d - 1) e vs
    | .struct fs, .strct vs => decide (1 ≤ d) && wconfFields g (d - 1) fs vs
    | .tagAny e, .tag _ x => decide (1 ≤ d) && wconf g (d - 1) e x
    | .tagNum _ e, .tag _ x => decide (1 ≤ d) && wconf g (d - 1) e x
    | .bstr e, x => match encodeS g e x with | some c => decide (c.length < maxLen) | none => false
    | .wrap e, x => match encodeS g e x with | some c => decide (c.length < maxLen) | none => false
    | .wrapBytes, .bytes b => decide (b.length < maxLen)
    | .ptr _, .nilp => true
    | .ptr e, .ref x => wconf g d e x
    | .cert, .cert der => decide (der.length < maxLen)
    | .mapOf ks vs, .map ps => decide (1 ≤ d ∧ 2 * ps.length < maxLen) && wconfPairs g (d - 1) ks vs ps
    | .timestamp, .time z _ => z || decide (1 ≤ d)
    | .label, _ => true
    | .any, .any a => confAnyB d a
    | .coseKey, .map ps => wconf g d (.mapOf .label .any) (.map ps)
    | .chunk, .strct [.int a, .int b, .list ms] => ms.all chunkIsText && confAnyB d (chunkArr a b ms)
    | .raw, .raw b =>
      match decode (2 * b.length + 1) d b with
      | some (_, []) => true
      | _ => false
    | _, _ => false
def wconfList : Nat → Nat → Schema → List Val → Bool
  | 0, _, _, _ => false
  | _+1, _, _, [] => true
  | g+1, d, e, v :: vs => wconf g d e v && wconfList g d e vs
def wconfPairs : Nat → Nat → Schema → Schema → List (Val × Val) → Bool
  | 0, _, _, _, _ => false
  | _+1, _, _, _, [] => true
  | g+1, d, ks, vs, (k, v) :: ps => wconf g d ks k && wconf g d vs v && wconfPairs g d ks vs ps
def wconfFields : Nat → Nat → Fields → List Val → Bool
  | 0, _, _, _ => false
  | _+1, _, .nil, [] => true
  | g+1, d, .cons s _ fs, v :: vs => wconf g d s v && wconfFields g d fs vs
  | g+1, d, .hdr fs, .hdr _ _ :: vs => decide (1 ≤ d) && wconfFields g d fs vs
  | _, _, _, _ => false
end

mutual
/-- `conf g d s v`: the value `v` is one the Go type described by `s` can hold and the library's
limits allow on the wire, when decoded with `d` container levels still available. -/
def conf (ok : CertOracle) : Nat → Nat → Schema → Val → Bool
  | 0, _, _, _ => false
  | g+1, d, s, v =>
    match s, v with
    | .uint max, .nat n => decide (n ≤ max)
    | .int bits, .int i => decide (-(2 ^ (bits - 1) : Int) ≤ i ∧ i < (2 ^ (bits - 1) : Int))
    | .bool, .bool _ => true
    | .bytes, .bytes b => decide (b.length < maxLen)
    | .text, .text b => decide (b.length < maxLen)
    | .fixed n, .bytes b => decide (b.length = n)
    | .slice e, .list vs => decide (1 ≤ d ∧ vs.length < maxLen) && confList ok g (d - 1) e vs
    | .struct fs, .strct vs => decide (1 ≤ d) && confFields ok g (d - 1) fs vs
    | .tagAny e, .tag n x => decide (n < 18446744073709551616) && conf ok g maxDepth e x
    | .tagNum n e, .tag m x => decide (m = n ∧ 1 ≤ d) && conf ok g maxDepth e x && wconf g (d - 1) e x
    | .bstr e, x => conf ok g maxDepth e x
    | .wrap e, x => conf ok g maxDepth e x
    | .wrapBytes, .bytes _ => true
    | .ptr _, .nilp => true
    | .ptr e, .ref x => conf ok g d e x
    | .mapOf ks vs, .map ps => decide (1 ≤ d ∧ ps.length < maxLen / 2) && confPairs ok g (d - 1) ks vs ps && mapSortedB ks ps
    | .cert, .cert der => ok der                       -- the DER string is one x509.ParseCertificate accepts (oracle)
    | .timestamp, .time z u => decide ((z = true → u = 0) ∧ -9223372036854775808 ≤ u ∧ u ≤ 9223372036854775807)
    | .label, l => labelOK l
    | .any, .any a => confAnyB d a
    | .coseKey, .map ps =>
      conf ok g maxDepth (.mapOf .label .any) (.map ps) && wconf g d (.mapOf .label .any) (.map ps) && ktyOK ps
    | .chunk, .strct [.int a, .int b, .list ms] =>
      ms.all chunkIsText && confAnyB d (chunkArr a b ms) && confAnyB maxDepth (chunkArr a b ms)
    | .raw, .raw b =>
      -- cbor.RawBytes holds exactly one well-formed item
      match decode (2 * b.length + 1) d b with
      | some (_, []) => true
      | _ => false
    | _, _ => false
def confList (ok : CertOracle) : Nat → Nat → Schema → List Val → Bool
  | 0, _, _, _ => false
  | _+1, _, _, [] => true
  | g+1, d, e, v :: vs => conf ok g d e v && confList ok g d e vs
def confPairs (ok : CertOracle) : Nat → Nat → Schema → Schema → List (Val × Val) → Bool
  | 0, _, _, _, _ => false
  | _+1, _, _, _, [] => true
  | g+1, d, ks, vs, (k, v) :: ps => conf ok g d ks k && conf ok g d vs v && confPairs ok g d ks vs ps
def confFields (ok : CertOracle) : Nat → Nat → Fields → List Val → Bool
  | 0, _, _, _ => false
  | _+1, _, .nil, [] => true
  | g+1, d, .cons s _ fs, v :: vs => conf ok g d s v && confFields ok g d fs vs
  | g+1, d, .hdr fs, .hdr pm um :: vs => hdrMapOK pm && hdrMapOK um && confFields ok g d fs vs
  | _, _, _, _ => false
end


end Fdo.Cbor
